(* Model/Id.v — executable model of the universal identifier code (C23):
     cylc/flow/id.py  UNIVERSAL_ID, RELATIVE_ID, LEGACY_TASK_DOT_CYCLE,
                      LEGACY_CYCLE_SLASH_TASK (hand-written recursive descent),
                      _dict_strip, tokenise, legacy_tokenise, detokenise,
                      upgrade_legacy_ids, Tokens.task
   Strings are lists of code points.  The regexes are NOT interpreted by a
   generic engine: each pattern is transcribed into a deterministic parser
   (the comments say why the backtracking engine can only find that parse);
   the transcription is what the C23 correspondence streams validate.
   All patterns end in `$` and no character class admits a newline, so
   "match" = "the string without one final newline parses to its very end". *)
From Coq Require Import List ZArith Bool.
From Cylc Require Import Base.Util Gen.UniClasses.
Import ListNotations.
Open Scope Z_scope.

Definition codes := list Z.
Definition codes_eqb : codes -> codes -> bool := list_eqb Z.eqb.

(* ---------- character classes of the patterns ---------- *)
Definition c_user (c : Z) : bool :=                  (* [^\/:\n~]  =  [^:~\n\/]  *)
  negb ((c =? 47) || (c =? 58) || (c =? 10) || (c =? 126)).
Definition c_wf : Z -> bool := c_user.               (* workflow segment *)
Definition c_sel (c : Z) : bool :=                   (* [^\/:\n] : selectors, task, job *)
  negb ((c =? 47) || (c =? 58) || (c =? 10)).
Definition c_cyc1 : Z -> bool := c_user.             (* [^~\/:\n]  first character of a cycle *)
Definition c_cyc (c : Z) : bool :=                   (* [^~\/\n]   rest of a cycle (":" allowed!) *)
  negb ((c =? 126) || (c =? 47) || (c =? 10)).
Definition l_task : Z -> bool := c_user.             (* legacy task  [^~\:\/\n] *)
Definition l_cyc (c : Z) : bool := c_user c && negb (c =? 46).   (* legacy cycle [^~\.\:\/\n] *)

(* ---------- string helpers ---------- *)
Fixpoint span (p : Z -> bool) (s : codes) : codes * codes :=
  match s with
  | [] => ([], [])
  | c :: r => if p c then let (a, b) := span p r in (c :: a, b) else ([], s)
  end.

Definition nonempty (s : codes) : bool := match s with [] => false | _ => true end.
Definition not_slash (c : Z) : bool := negb (c =? 47).
Definition not_colon (c : Z) : bool := negb (c =? 58).
Definition not_dot (c : Z) : bool := negb (c =? 46).

Definition last_is (c : Z) (s : codes) : bool :=
  match rev s with x :: _ => x =? c | [] => false end.
(* `$`: end of string or just before a final newline *)
Definition drop_nl (s : codes) : codes := if last_is 10 s then removelast s else s.

Definition starts2 (c : Z) (s : codes) : bool :=
  match s with a :: b :: _ => (a =? c) && (b =? c) | _ => false end.

(* ---------- tokens ---------- *)
Record tokens := {
  user : option codes; workflow : option codes; workflow_sel : option codes;
  cycle : option codes; cycle_sel : option codes;
  task : option codes; task_sel : option codes;
  job : option codes; job_sel : option codes }.

Definition no_tokens : tokens :=
  {| user := None; workflow := None; workflow_sel := None; cycle := None; cycle_sel := None;
     task := None; task_sel := None; job := None; job_sel := None |}.

(* the six "task-like" values *)
Definition rel6 : Type :=
  (codes * option codes) * option ((codes * option codes) * option (codes * option codes)).

(* ---------- RELATIVE_PATTERN ---------- *)
(* name(:sel)?  with name, sel in [^\/:\n]+ ; the segment has no "/" *)
Definition parse_namesel (seg : codes) : option (codes * option codes) :=
  let (a, r) := span c_sel seg in
  if negb (nonempty a) then None
  else match r with
       | [] => Some (a, None)
       | d :: b =>
           if (d =? 58) && nonempty b && forallb c_sel b then Some (a, Some b) else None
       end.

Definition valid_cycle_re (c : codes) : bool :=
  match c with x :: r => c_cyc1 x && forallb c_cyc r | [] => false end.

(* cycle(:sel)? with a LAZY cycle [^~\/:\n][^~\/\n]*? that may contain ":".
   The selector cannot contain ":", so it can only start after the last ":"
   of the segment; laziness prefers that split when it is valid, otherwise
   the whole segment is the cycle. *)
Definition parse_cycle (seg : codes) : option (codes * option codes) :=
  let (selr, restr) := span not_colon (rev seg) in
  let whole := if valid_cycle_re seg then Some (seg, None) else None in
  match restr with
  | [] => whole
  | _ :: cycr =>
      let sel := rev selr in
      let cyc := rev cycr in
      if nonempty sel && valid_cycle_re cyc && forallb c_sel sel then Some (cyc, Some sel)
      else whole
  end.

(* what follows the leading "//" *)
Definition parse_rel (t : codes) : option rel6 :=
  let (S, r1) := span not_slash t in
  match parse_cycle S with
  | None => None
  | Some cy =>
      match r1 with
      | [] | [_] => Some (cy, None)                       (* "//c"  "//c/" *)
      | _ :: r2 =>
          let (T, r3) := span not_slash r2 in
          match parse_namesel T with
          | None => None
          | Some tk =>
              match r3 with
              | [] | [_] => Some (cy, Some (tk, None))    (* "//c/t"  "//c/t/" *)
              | _ :: r4 =>
                  let (J, r5) := span not_slash r4 in
                  match r5, parse_namesel J with
                  | [], Some jb => Some (cy, Some (tk, Some jb))
                  | _, _ => None
                  end
              end
          end
      end
  end.

Definition with_rel (u w ws : option codes) (r : option rel6) : tokens :=
  match r with
  | None => {| user := u; workflow := w; workflow_sel := ws; cycle := None; cycle_sel := None;
               task := None; task_sel := None; job := None; job_sel := None |}
  | Some ((c, cs), r2) =>
      let '(t, ts, j, js) :=
        match r2 with
        | None => (None, None, None, None)
        | Some ((t, ts), r3) =>
            match r3 with
            | None => (Some t, ts, None, None)
            | Some (j, js) => (Some t, ts, Some j, js)
            end
        end in
      {| user := u; workflow := w; workflow_sel := ws; cycle := Some c; cycle_sel := cs;
         task := t; task_sel := ts; job := j; job_sel := js |}
  end.

(* ---------- UNIVERSAL_ID ---------- *)
(* workflow: seg(/seg)* with seg in [^:~\n\/]+ , greedy.  A shorter workflow
   can never help the rest of the pattern (it would have to continue with ":"
   or "//" or the end), so the maximal one is the only candidate. *)
Fixpoint wf_scan (s : codes) : codes * codes :=
  match s with
  | [] => ([], [])
  | c :: r =>
      if c_wf c || ((c =? 47) && match r with d :: _ => c_wf d | [] => false end)
      then let (a, b) := wf_scan r in (c :: a, b)
      else ([], s)
  end.

(* workflow(:sel)? ( (//(?!/))? (RELATIVE_PATTERN)? )? $   on a non-empty rest *)
Definition parse_wf (u : option codes) (r : codes) : option tokens :=
  match r with
  | [] => None
  | c :: _ =>
      if negb (c_wf c) then None
      else
        let (w, r1) := wf_scan r in
        let after (ws : option codes) (t : codes) : option tokens :=
          match t with
          | [] => Some (with_rel u (Some w) ws None)
          | _ =>
              if starts2 47 t then
                match skipn 2 t with
                | [] => Some (with_rel u (Some w) ws None)          (* "w//" *)
                | body => match parse_rel body with
                          | Some r6 => Some (with_rel u (Some w) ws (Some r6))
                          | None => None
                          end
                end
              else None
          end in
        match r1 with
        | d :: x =>
            if d =? 58 then
              let (sel, r2) := span c_sel x in
              if nonempty sel then after (Some sel) r2 else None
            else after None r1
        | [] => after None r1
        end
  end.

Definition parse_univ (s : codes) : option tokens :=
  match s with
  | [] => None                                               (* (?=.) *)
  | c :: r =>
      if c =? 126 then
        let (u, r1) := span c_user r in
        if negb (nonempty u) then None
        else match r1 with
             | [] => Some (with_rel (Some u) None None None)             (* "~u" *)
             | d :: r2 =>
                 if d =? 47 then
                   match r2 with
                   | [] => Some (with_rel (Some u) None None None)       (* "~u/" *)
                   | _ => parse_wf (Some u) r2
                   end
                 else None
             end
      else parse_wf None s
  end.

(* ---------- _dict_strip / tokenise ---------- *)
Section Classes.
  (* str.isspace and the regex class \d, of the running interpreter *)
  Variable is_space is_digit : Z -> bool.

  Fixpoint lstrip (s : codes) : codes :=
    match s with c :: r => if is_space c then lstrip r else s | [] => [] end.
  Definition strip (s : codes) : codes := rev (lstrip (rev (lstrip s))).
  (* value.strip() if value else None *)
  Definition ostrip (o : option codes) : option codes :=
    match o with Some (c :: r) => Some (strip (c :: r)) | _ => None end.

  Definition strip_tokens (t : tokens) : tokens :=
    {| user := ostrip (user t); workflow := ostrip (workflow t);
       workflow_sel := ostrip (workflow_sel t); cycle := ostrip (cycle t);
       cycle_sel := ostrip (cycle_sel t); task := ostrip (task t);
       task_sel := ostrip (task_sel t); job := ostrip (job t); job_sel := ostrip (job_sel t) |}.

  Definition tokenise (relative : bool) (identifier : codes) : option tokens :=
    let s1 := if relative && negb (starts2 47 identifier) then 47 :: 47 :: identifier
              else identifier in
    let s := drop_nl s1 in
    match parse_univ s with
    | Some t => Some (strip_tokens t)
    | None =>
        if starts2 47 s then
          match parse_rel (skipn 2 s) with
          | Some r6 => Some (strip_tokens (with_rel None None None (Some r6)))
          | None => None
          end
        else None
    end.

  (* ---------- legacy patterns ---------- *)
  (* split "body(:sel)?" where body has no ":" and sel is [^\:\/\n]+ *)
  Definition split_sel (s : codes) : option (codes * option codes) :=
    let (body, r) := span not_colon s in
    match r with
    | [] => Some (body, None)
    | _ :: sel => if nonempty sel && forallb c_sel sel then Some (body, Some sel) else None
    end.

  Definition legacy_tokens (t c : codes) (sel : option codes) : tokens :=
    {| user := None; workflow := None; workflow_sel := None; cycle := Some c; cycle_sel := None;
       task := Some t; task_sel := sel; job := None; job_sel := None |}.

  (* LEGACY_TASK_DOT_CYCLE: task [^~\:\/\n]+ , "." , cycle \d[^~\.\:\/\n]* , optional :sel — the cycle has
     no ".", so it is what follows the last "." of the body *)
  Definition parse_legacy_dot (s : codes) : option tokens :=
    match split_sel s with
    | None => None
    | Some (body, sel) =>
        let (cycr, restr) := span not_dot (rev body) in
        match restr with
        | [] => None
        | _ :: taskr =>
            let cyc := rev cycr in
            let tsk := rev taskr in
            match cyc with
            | d :: cr =>
                if is_digit d && forallb l_cyc cr && nonempty tsk && forallb l_task tsk
                then Some (legacy_tokens tsk cyc sel) else None
            | [] => None
            end
        end
    end.

  (* LEGACY_CYCLE_SLASH_TASK: cycle \d[^~\.\:\/\n]* , "/" , task [^~\:\/\n]+ , optional :sel
     (one-character cycles are accepted since /repo commit 26dc1a0) *)
  Definition parse_legacy_slash (s : codes) : option tokens :=
    match split_sel s with
    | None => None
    | Some (body, sel) =>
        let (cyc, r) := span not_slash body in
        match cyc, r with
        | d :: cr, _ :: tsk =>
            if is_digit d && forallb l_cyc cr && nonempty tsk && forallb l_task tsk
            then Some (legacy_tokens tsk cyc sel) else None
        | _, _ => None
        end
    end.

  Definition legacy_tokenise (identifier : codes) : option tokens :=
    let s := drop_nl identifier in
    match parse_legacy_dot s with
    | Some t => Some (strip_tokens t)
    | None => option_map strip_tokens (parse_legacy_slash s)
    end.
End Classes.

(* ---------- detokenise ---------- *)
Definition truthy (o : option codes) : bool :=
  match o with Some (_ :: _) => true | _ => false end.
Definition val (o : option codes) : codes :=            (* value or '*' *)
  match o with Some (c :: r) => c :: r | _ => [42] end.

Inductive dres := DOk (s : codes) | DNoTokens | DBadJob.

Definition is_ascii_digit (c : Z) : bool := (48 <=? c) && (c <=? 57).
Fixpoint drop_zeros (s : codes) : codes :=
  match s with c :: r => if c =? 48 then drop_zeros r else s | [] => [] end.
(* f'{int(value):02}' for a string of ASCII digits; 'NN' is kept *)
Definition fmt_job (v : codes) : option codes :=
  if codes_eqb v [78; 78] then Some v
  else if nonempty v && forallb is_ascii_digit v then
    Some (match drop_zeros v with
          | [] => [48; 48]
          | [d] => [48; d]
          | ds => ds
          end)
  else None.

Definition with_sel (selectors : bool) (base : codes) (s : option codes) : codes :=
  if selectors && truthy s then base ++ 58 :: val s else base.

Fixpoint join_with (sep : Z) (l : list codes) : codes :=
  match l with
  | [] => []
  | x :: r => match r with [] => x | _ => x ++ sep :: join_with sep r end
  end.

Definition detokenise (selectors relative : bool) (t : tokens) : dres :=
  let hu := truthy (user t) in let hw := truthy (workflow t) in
  let hc := truthy (cycle t) in let ht := truthy (task t) in let hj := truthy (job t) in
  let is_relative := negb hu && negb hw in
  let is_partial := negb hc && negb ht && negb hj in
  if is_relative && is_partial then DNoTokens
  else
    match (if hj then fmt_job (val (job t)) else Some []) with
    | None => DBadJob
    | Some jv =>
        let rel_parts :=
          if is_partial then []
          else [with_sel selectors (val (cycle t)) (cycle_sel t)]
               ++ (if ht || hj then [with_sel selectors (val (task t)) (task_sel t)] else [])
               ++ (if hj then [with_sel selectors jv (job_sel t)] else []) in
        let parts :=
          if is_relative then (if relative then [] else [[47]]) ++ rel_parts
          else (if hu then [126 :: val (user t)] else [])
               ++ (if hw || negb is_partial
                   then [with_sel selectors (val (workflow t)) (workflow_sel t)
                         ++ (if is_partial then [] else [47])]
                   else [])
               ++ rel_parts in
        DOk (join_with 47 parts)
    end.

(* Tokens.task : the task-like keys only *)
Definition task_part (t : tokens) : tokens :=
  {| user := None; workflow := None; workflow_sel := None; cycle := cycle t;
     cycle_sel := cycle_sel t; task := task t; task_sel := task_sel t;
     job := job t; job_sel := job_sel t |}.

(* ---------- upgrade_legacy_ids ---------- *)
Section Upgrade.
  Variable is_space is_digit : Z -> bool.

  (* None = some id is not a legacy id => the ids are returned unchanged *)
  Fixpoint upgrade_all (relative : bool) (ids : list codes) : option (list codes) :=
    match ids with
    | [] => Some []
    | i :: r =>
        match legacy_tokenise is_space is_digit i with
        | None => None
        | Some t =>
            match detokenise true relative t, upgrade_all relative r with
            | DOk s, Some l => Some (s :: l)
            | _, _ => None
            end
        end
    end.

  Definition upgrade_legacy_ids (relative : bool) (ids : list codes) : list codes :=
    if relative then
      match upgrade_all true ids with Some l => l | None => ids end
    else
      match ids with
      | [] | [_] => ids
      | w :: r => match upgrade_all false r with Some l => w :: l | None => ids end
      end.
End Upgrade.

(* ---------- correspondence interface ---------- *)
Definition ocodes_eqb := option_eqb codes_eqb.
Definition tokens_eqb (a b : tokens) : bool :=
  ocodes_eqb (user a) (user b) && ocodes_eqb (workflow a) (workflow b)
  && ocodes_eqb (workflow_sel a) (workflow_sel b) && ocodes_eqb (cycle a) (cycle b)
  && ocodes_eqb (cycle_sel a) (cycle_sel b) && ocodes_eqb (task a) (task b)
  && ocodes_eqb (task_sel a) (task_sel b) && ocodes_eqb (job a) (job b)
  && ocodes_eqb (job_sel a) (job_sel b).
Definition dres_eqb (a b : dres) : bool :=
  match a, b with
  | DOk x, DOk y => codes_eqb x y
  | DNoTokens, DNoTokens | DBadJob, DBadJob => true
  | _, _ => false
  end.

Definition mk (u w ws c cs t ts j js : option codes) : tokens :=
  {| user := u; workflow := w; workflow_sel := ws; cycle := c; cycle_sel := cs;
     task := t; task_sel := ts; job := j; job_sel := js |}.

(* string-first case: what the implementation returned for one identifier *)
Record scase := {
  s_id : codes;
  s_tok : option tokens;              (* tokenise(id) ; None = ValueError *)
  s_tok_rel : option tokens;          (* tokenise(id, relative=True) *)
  s_legacy : option tokens;           (* legacy_tokenise(id) *)
  s_up_abs : list codes;              (* upgrade_legacy_ids(first, id) *)
  s_up_first : codes;
  s_up_rel : list codes;              (* upgrade_legacy_ids(id, relative=True) *)
}.

Definition tok_m := tokenise is_space_tbl.
Definition leg_m := legacy_tokenise is_space_tbl is_digit_tbl.
Definition up_m := upgrade_legacy_ids is_space_tbl is_digit_tbl.

Definition smodel_out (c : scase) :=
  (tok_m false (s_id c), tok_m true (s_id c), leg_m (s_id c),
   up_m false [s_up_first c; s_id c], up_m true [s_id c]).

Definition check_scase (c : scase) : bool :=
  option_eqb tokens_eqb (tok_m false (s_id c)) (s_tok c)
  && option_eqb tokens_eqb (tok_m true (s_id c)) (s_tok_rel c)
  && option_eqb tokens_eqb (leg_m (s_id c)) (s_legacy c)
  && list_eqb codes_eqb (up_m false [s_up_first c; s_id c]) (s_up_abs c)
  && list_eqb codes_eqb (up_m true [s_id c]) (s_up_rel c).

(* token-first case: detokenise under the four flag combinations
   (selectors, relative) = (F,F) (T,F) (F,T) (T,T) *)
Record tcase := { t_tokens : tokens; t_detok : list dres }.

Definition tmodel_out (c : tcase) : list dres :=
  [detokenise false false (t_tokens c); detokenise true false (t_tokens c);
   detokenise false true (t_tokens c); detokenise true true (t_tokens c)].

Definition check_tcase (c : tcase) : bool := list_eqb dres_eqb (tmodel_out c) (t_detok c).
