(* Model/SubProc.v — executable hand model of cylc/flow/subprocpool.py
   (SubProcPool.put_command / process / set_stopping / close / terminate,
   _run_command_init's OSError path), tied to the source by the C42
   correspondence stream "subproc".

   A command is identified by a number given by the harness.  What the
   operating system decides — which running commands have exited (or are past
   their timeout) when process() looks at them — enters as the [done] argument
   of the event, observed on the real run. *)
From Coq Require Import List Bool Arith Lia.
From Cylc Require Import Base.Util.
Import ListNotations.

(* What the two places that take a command off the queue without running it
   (process() for a queued jobs-submit while stopping; terminate() for every
   queued command) do with its callback.  The code now (fix 2237225) passes the
   callbacks to _run_command_exit, as put_command always did (true).  Before
   that fix it set ret_code 999 and called _run_command_exit(ctx) WITHOUT the
   callbacks (false): theorems about `false` describe the pre-fix code only. *)
Definition drops_call_back : bool := true.

Record cmd := {
  c_id : nat;
  c_submit : bool;     (* ctx.cmd_key == 'jobs-submit' *)
  c_bad : bool         (* launching raises OSError (_run_command_init returns None) *)
}.

Record pool := {
  p_size : nat;
  p_queue : list cmd;        (* queuings, oldest first *)
  p_running : list cmd;      (* runnings *)
  p_stopping : bool;
  p_closed : bool
}.

Inductive event :=
| EPut (c : cmd)
| EProcess (done : list nat)
| ESetStopping
| EClose
| ETerminate (done : list nat).

(* what an event makes visible: callbacks run (id, ret_code = 999?), in order;
   commands discarded with ret_code 999 and no callback *)
Record outcome := { o_callbacks : list (nat * bool); o_dropped : list nat }.

Definition no_outcome : outcome := {| o_callbacks := []; o_dropped := [] |}.

Definition is_done (done : list nat) (c : cmd) : bool := mem Nat.eqb (c_id c) done.

(* the `while self.queuings and len(self.runnings) < self.size:` loop;
   structural on the queue *)
Fixpoint launch (fx stopping : bool) (size : nat) (queue running : list cmd)
  : list cmd * list cmd * list (nat * bool) * list nat :=
  match queue with
  | [] => ([], running, [], [])
  | c :: q =>
      if Nat.ltb (length running) size then
        if stopping && c_submit c then
          let '(q', r', cbs, dr) := launch fx stopping size q running in
          if fx then (q', r', (c_id c, true) :: cbs, dr)
          else (q', r', cbs, c_id c :: dr)
        else if c_bad c then
          let '(q', r', cbs, dr) := launch fx stopping size q running in
          (q', r', (c_id c, false) :: cbs, dr)
        else launch fx stopping size q (running ++ [c])
      else (queue, running, [], [])
  end.

(* SubProcPool.process *)
Definition process (fx : bool) (done : list nat) (p : pool) : pool * outcome :=
  let exited := filter (is_done done) (p_running p) in
  let still := filter (fun c => negb (is_done done c)) (p_running p) in
  let '(q', r', cbs, dr) := launch fx (p_stopping p) (p_size p) (p_queue p) still in
  ({| p_size := p_size p; p_queue := q'; p_running := r';
      p_stopping := p_stopping p; p_closed := p_closed p |},
   {| o_callbacks := map (fun c => (c_id c, false)) exited ++ cbs; o_dropped := dr |}).

Definition step (fx : bool) (p : pool) (e : event) : pool * outcome :=
  match e with
  | EPut c =>
      if p_closed p || (p_stopping p && c_submit c) then
        (p, {| o_callbacks := [(c_id c, true)]; o_dropped := [] |})
      else
        ({| p_size := p_size p; p_queue := p_queue p ++ [c]; p_running := p_running p;
            p_stopping := p_stopping p; p_closed := p_closed p |}, no_outcome)
  | EProcess done => process fx done p
  | ESetStopping =>
      ({| p_size := p_size p; p_queue := p_queue p; p_running := p_running p;
          p_stopping := true; p_closed := p_closed p |}, no_outcome)
  | EClose =>
      ({| p_size := p_size p; p_queue := p_queue p; p_running := p_running p;
          p_stopping := true; p_closed := true |}, no_outcome)
  | ETerminate done =>
      (* close(); drain the queue; kill; process() *)
      let drained := map c_id (p_queue p) in
      let p1 := {| p_size := p_size p; p_queue := []; p_running := p_running p;
                   p_stopping := true; p_closed := true |} in
      let (p2, o) := process fx done p1 in
      (p2, if fx
           then {| o_callbacks := map (fun i => (i, true)) drained ++ o_callbacks o;
                   o_dropped := o_dropped o |}
           else {| o_callbacks := o_callbacks o; o_dropped := drained ++ o_dropped o |})
  end.

Definition new_pool (size : nat) : pool :=
  {| p_size := size; p_queue := []; p_running := []; p_stopping := false; p_closed := false |}.

Fixpoint run (fx : bool) (p : pool) (es : list event) : pool * list outcome :=
  match es with
  | [] => (p, [])
  | e :: r => let (p', o) := step fx p e in
              let (p'', os) := run fx p' r in (p'', o :: os)
  end.

(* ---- correspondence interface ---- *)
Record observed := {
  ob_callbacks : list (nat * bool);
  ob_dropped : list nat;
  ob_running : list nat;
  ob_queue : list nat;
  ob_stopping : bool;
  ob_closed : bool
}.

Record case := { c_size : nat; c_trace : list (event * observed) }.

Definition obs_ok (p : pool) (o : outcome) (ob : observed) : bool :=
  list_eqb (pair_eqb Nat.eqb Bool.eqb) (o_callbacks o) (ob_callbacks ob)
  && list_eqb Nat.eqb (o_dropped o) (ob_dropped ob)
  && list_eqb Nat.eqb (map c_id (p_running p)) (ob_running ob)
  && list_eqb Nat.eqb (map c_id (p_queue p)) (ob_queue ob)
  && Bool.eqb (p_stopping p) (ob_stopping ob)
  && Bool.eqb (p_closed p) (ob_closed ob).

Fixpoint check_trace (fx : bool) (p : pool) (tr : list (event * observed)) : bool :=
  match tr with
  | [] => true
  | (e, ob) :: r => let (p', o) := step fx p e in
                    obs_ok p' o ob && check_trace fx p' r
  end.

Definition check_case (c : case) : bool :=
  check_trace drops_call_back (new_pool (c_size c)) (c_trace c).

Fixpoint model_trace (fx : bool) (p : pool) (es : list event) :=
  match es with
  | [] => []
  | e :: r => let (p', o) := step fx p e in
              (o_callbacks o, o_dropped o, map c_id (p_running p'), map c_id (p_queue p'))
              :: model_trace fx p' r
  end.

Definition model_out (c : case) :=
  model_trace drops_call_back (new_pool (c_size c)) (map fst (c_trace c)).
