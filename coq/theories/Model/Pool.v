(* Model/Pool.v — the task-pool specification automaton ("monitor").

   This is the abstract, nondeterministic model of cylc's spawn-on-demand task
   pool (cylc/flow/task_pool.py + the main loop of scheduler.py) over an
   *instance graph*: the finite set of task instances (cycle point, task) of a
   workflow with their prerequisite expressions, completion expression and
   queue.  The implementation emits an event trace (recorded by the harness by
   wrapping TaskPool/TaskProxy/TaskState/TaskOutputs methods); [step] accepts
   an event only if the abstract model allows it in the current abstract state
   and then updates the abstract state.  [run] folds [step] over a trace and
   reports the first rejected event.  Theorems (Props/C01, C03, C04, C06, C07,
   C09, C11, C26 ...) are invariants of every trace that [run] accepts; the
   correspondence check is that the traces of the real scheduler are accepted
   and that the abstract pool equals the real pool at every tick boundary.

   Executable definitions only; proofs are in Proofs/Pool*.v. *)
From Coq Require Import List Bool Arith ZArith Lia.
From Cylc Require Import Base.Util.
Import ListNotations.
Open Scope Z_scope.

(* ---------------- basic vocabulary ---------------- *)
Definition tname := nat.
Definition output := nat.   (* 0 expired 1 submitted 2 submit-failed 3 started 4 succeeded 5 failed; 6+ custom *)
Definition o_expired : output := 0%nat.
Definition o_submitted : output := 1%nat.
Definition o_submit_failed : output := 2%nat.
Definition o_started : output := 3%nat.
Definition o_succeeded : output := 4%nat.
Definition o_failed : output := 5%nat.

Definition tid := (Z * tname)%type.
Definition tid_eqb (a b : tid) : bool := Z.eqb (fst a) (fst b) && Nat.eqb (snd a) (snd b).

Definition key := (tid * output)%type.     (* one prerequisite atom: upstream instance + output *)
Definition key_eqb (a b : key) : bool := tid_eqb (fst a) (fst b) && Nat.eqb (snd a) (snd b).

Inductive status := Waiting | Expired | Preparing | SubmitFailed | Submitted | Running | Failed | Succeeded.
Definition status_eqb (a b : status) : bool :=
  match a, b with
  | Waiting, Waiting | Expired, Expired | Preparing, Preparing | SubmitFailed, SubmitFailed
  | Submitted, Submitted | Running, Running | Failed, Failed | Succeeded, Succeeded => true
  | _, _ => false
  end.
Definition is_final (s : status) : bool :=
  match s with Expired | SubmitFailed | Failed | Succeeded => true | _ => false end.
Definition is_active (s : status) : bool :=
  match s with Preparing | Submitted | Running => true | _ => false end.

(* prerequisite expressions; [pre] marks a pre-initial dependency, which counts as satisfied *)
Inductive bx :=
| BAtom (k : key) (pre : bool)
| BAnd (a b : bx)
| BOr (a b : bx).

Fixpoint bx_eval (sat : key -> bool) (e : bx) : bool :=
  match e with
  | BAtom k pre => pre || sat k
  | BAnd a b => bx_eval sat a && bx_eval sat b
  | BOr a b => bx_eval sat a || bx_eval sat b
  end.

Fixpoint bx_keys (e : bx) : list (key * bool) :=
  match e with
  | BAtom k pre => [(k, pre)]
  | BAnd a b | BOr a b => bx_keys a ++ bx_keys b
  end.

(* completion expressions over a task's own outputs *)
Inductive cx := CAtom (o : output) | CAnd (a b : cx) | COr (a b : cx) | CTrue.
Fixpoint cx_eval (done : output -> bool) (e : cx) : bool :=
  match e with
  | CAtom o => done o
  | CAnd a b => cx_eval done a && cx_eval done b
  | COr a b => cx_eval done a || cx_eval done b
  | CTrue => true
  end.

(* ---------------- the instance graph (configuration) ---------------- *)
Record inst := {
  i_id : tid;
  i_pre : list bx;          (* conjunction of prerequisite expressions *)
  i_comp : cx;              (* completion expression *)
  i_queue : nat;            (* index of its internal queue *)
  i_tries : nat;            (* (N+1)*(M+1): bound on automatic submissions *)
}.

Record cfg := {
  c_insts : list inst;
  c_points : list Z;        (* all points of the workflow's recurrences in [icp, fcp], sorted, no dups *)
  c_runahead : nat;         (* runahead limit Pn *)
  c_qlimits : list nat;     (* per queue; 0 = unlimited *)
  c_icp : Z; c_fcp : Z;
  c_start : Z;              (* start cycle point (= c_icp for a cold start) *)
  c_future : list Z;        (* per task name: its largest future trigger offset (a[+Pn] => t), 0 if none *)
}.

Fixpoint find_inst (l : list inst) (t : tid) : option inst :=
  match l with
  | [] => None
  | i :: r => if tid_eqb (i_id i) t then Some i else find_inst r t
  end.

Definition inst_keys (i : inst) : list (key * bool) := flat_map bx_keys (i_pre i).

(* ---------------- abstract pool state ---------------- *)
Record ptask := {
  p_id : tid;
  p_status : status;
  p_held : bool; p_queued : bool; p_runahead : bool;
  p_flows : list nat;
  p_sat : list key;         (* naturally satisfied prerequisite atoms (besides pre-initial ones) *)
  p_forced : list key;      (* prerequisite atoms force-satisfied by a command (cylc set / trigger) *)
  p_outs : list output;     (* completed outputs *)
  p_sn : nat;               (* submit number *)
  p_rel : bool;             (* released from its queue, awaiting job preparation *)
  p_manual : bool;
  p_idle : nat;             (* consecutive tick ends at which it was ready but not queued *)
  p_lag : nat;              (* consecutive tick ends at which it was runahead though within the limit *)
}.

Definition set_status (p : ptask) (s : status) : ptask :=
  {| p_id := p_id p; p_status := s; p_held := p_held p; p_queued := p_queued p; p_runahead := p_runahead p;
     p_flows := p_flows p; p_sat := p_sat p; p_forced := p_forced p; p_outs := p_outs p; p_sn := p_sn p;
     p_rel := if status_eqb s Preparing then false else p_rel p; p_manual := p_manual p;
     p_idle := p_idle p; p_lag := p_lag p |}.
Definition set_flags (p : ptask) (h q r : bool) : ptask :=
  {| p_id := p_id p; p_status := p_status p; p_held := h; p_queued := q; p_runahead := r;
     p_flows := p_flows p; p_sat := p_sat p; p_forced := p_forced p; p_outs := p_outs p; p_sn := p_sn p;
     p_rel := p_rel p; p_manual := p_manual p; p_idle := p_idle p; p_lag := p_lag p |}.
Definition set_sat (p : ptask) (l : list key) : ptask :=
  {| p_id := p_id p; p_status := p_status p; p_held := p_held p; p_queued := p_queued p; p_runahead := p_runahead p;
     p_flows := p_flows p; p_sat := l; p_forced := p_forced p; p_outs := p_outs p; p_sn := p_sn p;
     p_rel := p_rel p; p_manual := p_manual p; p_idle := p_idle p; p_lag := p_lag p |}.
Definition set_outs (p : ptask) (l : list output) : ptask :=
  {| p_id := p_id p; p_status := p_status p; p_held := p_held p; p_queued := p_queued p; p_runahead := p_runahead p;
     p_flows := p_flows p; p_sat := p_sat p; p_forced := p_forced p; p_outs := l; p_sn := p_sn p;
     p_rel := p_rel p; p_manual := p_manual p; p_idle := p_idle p; p_lag := p_lag p |}.
Definition set_rel (p : ptask) (b : bool) : ptask :=
  {| p_id := p_id p; p_status := p_status p; p_held := p_held p; p_queued := p_queued p; p_runahead := p_runahead p;
     p_flows := p_flows p; p_sat := p_sat p; p_forced := p_forced p; p_outs := p_outs p; p_sn := p_sn p;
     p_rel := b; p_manual := p_manual p; p_idle := p_idle p; p_lag := p_lag p |}.
Definition set_sn (p : ptask) (n : nat) : ptask :=
  {| p_id := p_id p; p_status := p_status p; p_held := p_held p; p_queued := p_queued p; p_runahead := p_runahead p;
     p_flows := p_flows p; p_sat := p_sat p; p_forced := p_forced p; p_outs := p_outs p; p_sn := n;
     p_rel := p_rel p; p_manual := p_manual p; p_idle := p_idle p; p_lag := p_lag p |}.
Definition set_flows (p : ptask) (l : list nat) : ptask :=
  {| p_id := p_id p; p_status := p_status p; p_held := p_held p; p_queued := p_queued p; p_runahead := p_runahead p;
     p_flows := l; p_sat := p_sat p; p_forced := p_forced p; p_outs := p_outs p; p_sn := p_sn p;
     p_rel := p_rel p; p_manual := p_manual p; p_idle := p_idle p; p_lag := p_lag p |}.
Definition set_manual (p : ptask) (b : bool) : ptask :=
  {| p_id := p_id p; p_status := p_status p; p_held := p_held p; p_queued := p_queued p; p_runahead := p_runahead p;
     p_flows := p_flows p; p_sat := p_sat p; p_forced := p_forced p; p_outs := p_outs p; p_sn := p_sn p;
     p_rel := p_rel p; p_manual := b; p_idle := p_idle p; p_lag := p_lag p |}.
Definition set_forced (p : ptask) (l : list key) : ptask :=
  {| p_id := p_id p; p_status := p_status p; p_held := p_held p; p_queued := p_queued p; p_runahead := p_runahead p;
     p_flows := p_flows p; p_sat := p_sat p; p_forced := l; p_outs := p_outs p; p_sn := p_sn p;
     p_rel := p_rel p; p_manual := p_manual p; p_idle := p_idle p; p_lag := p_lag p |}.
Definition set_counters (p : ptask) (idle lag : nat) : ptask :=
  {| p_id := p_id p; p_status := p_status p; p_held := p_held p; p_queued := p_queued p; p_runahead := p_runahead p;
     p_flows := p_flows p; p_sat := p_sat p; p_forced := p_forced p; p_outs := p_outs p; p_sn := p_sn p;
     p_rel := p_rel p; p_manual := p_manual p; p_idle := idle; p_lag := lag |}.

Inductive smode := SAuto | SClean | SKill | SNow | SNowNow.

(* history of instances that left the pool: id, flows, final status, outputs *)
Record hrec := { h_id : tid; h_flows : list nat; h_status : status; h_outs : list output }.

Record mstate := {
  pool : list ptask;
  limbo : list ptask;                 (* spawned, not (yet) added to the pool *)
  hist : list hrec;
  subs : list (tid * nat);            (* every job submission so far: instance, submit number *)
  limit : option Z;                   (* runahead limit last computed *)
  relq : list tid;                    (* ids queued when the current release started *)
  abs_done : list key;                (* completed outputs referenced by absolute triggers *)
  stop_point : Z;
  done : list key;                    (* every output completed so far, by any instance (append-only) *)
  to_hold : list tid;                 (* instances to hold (pooled ones are held; future ones will be on spawn) *)
  hold_pt : option Z;                 (* workflow hold point *)
  saved : list ptask;                 (* during a restart: what the database must give back *)
  stop_mode : option smode;
  stop_task : option tid;
  crash_mode : bool;                  (* reloading after a crash: the database may lag the lost process *)
  bcast : nat;                        (* the broadcast settings in force, as an opaque identifier: the harness interns
                                         the canonical (point, namespace, setting, value) table; equal ids = equal tables *)
}.

Definition init_state (c : cfg) : mstate :=
  {| pool := []; limbo := []; hist := []; subs := []; limit := None; relq := []; abs_done := [];
     stop_point := c_fcp c; done := []; to_hold := []; hold_pt := None; saved := []; stop_mode := None; stop_task := None; crash_mode := false; bcast := 0 |}.

Fixpoint find_task (l : list ptask) (t : tid) : option ptask :=
  match l with
  | [] => None
  | p :: r => if tid_eqb (p_id p) t then Some p else find_task r t
  end.
Fixpoint remove_task (l : list ptask) (t : tid) : list ptask :=
  match l with
  | [] => []
  | p :: r => if tid_eqb (p_id p) t then r else p :: remove_task r t
  end.
Fixpoint update_task (l : list ptask) (p' : ptask) : list ptask :=
  match l with
  | [] => []
  | p :: r => if tid_eqb (p_id p) (p_id p') then p' :: r else p :: update_task r p'
  end.

Definition with_pool (s : mstate) (l : list ptask) : mstate :=
  {| pool := l; limbo := limbo s; hist := hist s; subs := subs s; limit := limit s; relq := relq s;
     abs_done := abs_done s; stop_point := stop_point s; done := done s; to_hold := to_hold s; hold_pt := hold_pt s; saved := saved s; stop_mode := stop_mode s; stop_task := stop_task s; crash_mode := crash_mode s; bcast := bcast s |}.
Definition with_limbo (s : mstate) (l : list ptask) : mstate :=
  {| pool := pool s; limbo := l; hist := hist s; subs := subs s; limit := limit s; relq := relq s;
     abs_done := abs_done s; stop_point := stop_point s; done := done s; to_hold := to_hold s; hold_pt := hold_pt s; saved := saved s; stop_mode := stop_mode s; stop_task := stop_task s; crash_mode := crash_mode s; bcast := bcast s |}.
Definition with_hist (s : mstate) (l : list hrec) : mstate :=
  {| pool := pool s; limbo := limbo s; hist := l; subs := subs s; limit := limit s; relq := relq s;
     abs_done := abs_done s; stop_point := stop_point s; done := done s; to_hold := to_hold s; hold_pt := hold_pt s; saved := saved s; stop_mode := stop_mode s; stop_task := stop_task s; crash_mode := crash_mode s; bcast := bcast s |}.
Definition with_subs (s : mstate) (l : list (tid * nat)) : mstate :=
  {| pool := pool s; limbo := limbo s; hist := hist s; subs := l; limit := limit s; relq := relq s;
     abs_done := abs_done s; stop_point := stop_point s; done := done s; to_hold := to_hold s; hold_pt := hold_pt s; saved := saved s; stop_mode := stop_mode s; stop_task := stop_task s; crash_mode := crash_mode s; bcast := bcast s |}.
Definition with_limit (s : mstate) (l : option Z) : mstate :=
  {| pool := pool s; limbo := limbo s; hist := hist s; subs := subs s; limit := l; relq := relq s;
     abs_done := abs_done s; stop_point := stop_point s; done := done s; to_hold := to_hold s; hold_pt := hold_pt s; saved := saved s; stop_mode := stop_mode s; stop_task := stop_task s; crash_mode := crash_mode s; bcast := bcast s |}.
Definition with_relq (s : mstate) (l : list tid) : mstate :=
  {| pool := pool s; limbo := limbo s; hist := hist s; subs := subs s; limit := limit s; relq := l;
     abs_done := abs_done s; stop_point := stop_point s; done := done s; to_hold := to_hold s; hold_pt := hold_pt s; saved := saved s; stop_mode := stop_mode s; stop_task := stop_task s; crash_mode := crash_mode s; bcast := bcast s |}.
Definition with_done (s : mstate) (l : list key) : mstate :=
  {| pool := pool s; limbo := limbo s; hist := hist s; subs := subs s; limit := limit s; relq := relq s;
     abs_done := abs_done s; stop_point := stop_point s; done := l; to_hold := to_hold s; hold_pt := hold_pt s; saved := saved s; stop_mode := stop_mode s; stop_task := stop_task s; crash_mode := crash_mode s; bcast := bcast s |}.
Definition with_hold (s : mstate) (l : list tid) (hp : option Z) : mstate :=
  {| pool := pool s; limbo := limbo s; hist := hist s; subs := subs s; limit := limit s; relq := relq s;
     abs_done := abs_done s; stop_point := stop_point s; done := done s; to_hold := l; hold_pt := hp; saved := saved s; stop_mode := stop_mode s; stop_task := stop_task s; crash_mode := crash_mode s; bcast := bcast s |}.
Definition with_stop (s : mstate) (sp : Z) (m : option smode) (st : option tid) : mstate :=
  {| pool := pool s; limbo := limbo s; hist := hist s; subs := subs s; limit := limit s; relq := relq s;
     abs_done := abs_done s; stop_point := sp; done := done s; to_hold := to_hold s; hold_pt := hold_pt s;
     saved := saved s; stop_mode := m; stop_task := st; crash_mode := crash_mode s; bcast := bcast s |}.
Definition with_saved (s : mstate) (l : list ptask) : mstate :=
  {| pool := pool s; limbo := limbo s; hist := hist s; subs := subs s; limit := limit s; relq := relq s;
     abs_done := abs_done s; stop_point := stop_point s; done := done s; to_hold := to_hold s; hold_pt := hold_pt s;
     saved := l; stop_mode := stop_mode s; stop_task := stop_task s; crash_mode := crash_mode s; bcast := bcast s |}.
Definition with_crash (s : mstate) (b : bool) : mstate :=
  {| pool := pool s; limbo := limbo s; hist := hist s; subs := subs s; limit := limit s; relq := relq s;
     abs_done := abs_done s; stop_point := stop_point s; done := done s; to_hold := to_hold s; hold_pt := hold_pt s;
     saved := saved s; stop_mode := stop_mode s; stop_task := stop_task s; crash_mode := b; bcast := bcast s |}.
Definition with_bcast (s : mstate) (n : nat) : mstate :=
  {| pool := pool s; limbo := limbo s; hist := hist s; subs := subs s; limit := limit s; relq := relq s;
     abs_done := abs_done s; stop_point := stop_point s; done := done s; to_hold := to_hold s; hold_pt := hold_pt s;
     saved := saved s; stop_mode := stop_mode s; stop_task := stop_task s; crash_mode := crash_mode s; bcast := n |}.
Definition with_abs (s : mstate) (l : list key) : mstate :=
  {| pool := pool s; limbo := limbo s; hist := hist s; subs := subs s; limit := limit s; relq := relq s;
     abs_done := l; stop_point := stop_point s; done := done s; to_hold := to_hold s; hold_pt := hold_pt s; saved := saved s; stop_mode := stop_mode s; stop_task := stop_task s; crash_mode := crash_mode s; bcast := bcast s |}.

(* a task is looked up in the pool first, then among the just-spawned ones *)
Definition lookup (s : mstate) (t : tid) : option (ptask * bool) :=
  match find_task (pool s) t with
  | Some p => Some (p, true)
  | None => match find_task (limbo s) t with Some p => Some (p, false) | None => None end
  end.
Definition store (s : mstate) (p : ptask) (in_pool : bool) : mstate :=
  if in_pool then with_pool s (update_task (pool s) p) else with_limbo s (update_task (limbo s) p).

(* ---------------- derived notions ---------------- *)
Definition sat_of (p : ptask) (k : key) : bool := mem key_eqb k (p_sat p) || mem key_eqb k (p_forced p).
Definition prereqs_ok (i : inst) (p : ptask) : bool := forallb (bx_eval (sat_of p)) (i_pre i).
Definition has_out (l : list output) (o : output) : bool := mem Nat.eqb o l.

(* has output [o] of instance [t] been completed so far? *)
Definition out_done (s : mstate) (t : tid) (o : output) : bool := mem key_eqb (t, o) (done s).

(* should instance [t] be held? (explicitly, or because it is beyond the hold point) *)
Definition beyond_hold (s : mstate) (t : tid) : bool :=
  match hold_pt s with Some hp => Z.ltb hp (fst t) | None => false end.
Definition hold_expected (s : mstate) (t : tid) : bool := mem tid_eqb t (to_hold s) || beyond_hold s t.
Definition add_hold (s : mstate) (t : tid) : mstate :=
  if mem tid_eqb t (to_hold s) then s else with_hold s (t :: to_hold s) (hold_pt s).
Definition drop_hold (l : list tid) (t : tid) : list tid := filter (fun x => negb (tid_eqb x t)) l.
Definition same_tids (a b : list tid) : bool :=
  forallb (fun k => mem tid_eqb k b) a && forallb (fun k => mem tid_eqb k a) b.

(* what the database must give back for a pooled task after a stop + restart (C19):
   a preparing task comes back waiting, to be prepared again under the same submit number;
   everything loads runahead-limited (finished or manually triggered tasks are released at once) *)
Definition restored (p : ptask) : ptask :=
  let prep := status_eqb (p_status p) Preparing in
  let st := if prep then Waiting else p_status p in
  {| p_id := p_id p; p_status := st; p_held := p_held p; p_queued := false;
     p_runahead := true;
     p_flows := p_flows p; p_sat := p_sat p; p_forced := p_forced p; p_outs := p_outs p;
     p_sn := if prep then Nat.pred (p_sn p) else p_sn p;
     p_rel := false; p_manual := p_manual p; p_idle := 0%nat; p_lag := 0%nat |}.

(* ready to be queued: what queue_if_ready / is_ready_to_run require *)
Definition ready (i : inst) (p : ptask) : bool :=
  status_eqb (p_status p) Waiting && negb (p_held p) && negb (p_runahead p) && prereqs_ok i p.

(* runahead limit specification: (n+1)-th smallest sequence point >= base, or the last one
   if there are fewer; base itself if there is none; plus the future-trigger adjustment; capped at the stop point *)
Fixpoint min_point (l : list ptask) : option Z :=
  match l with
  | [] => None
  | p :: r => match min_point r with
              | None => Some (fst (p_id p))
              | Some m => Some (Z.min (fst (p_id p)) m)
              end
  end.
Fixpoint nth_or_last (n : nat) (l : list Z) (dflt : Z) : Z :=
  match l with
  | [] => dflt
  | x :: r => match n with O => x | S n' => nth_or_last n' r x end
  end.
(* tasks triggered off FUTURE instances (a[+P1] => b) would deadlock a tight limit: while such a task is
   in the pool the limit is pushed out by the largest such offset among the pooled tasks *)
Definition fut_of (c : cfg) (p : ptask) : Z := nth (snd (p_id p)) (c_future c) 0.
Definition max_future (c : cfg) (pl : list ptask) : Z :=
  fold_right (fun p m => Z.max (fut_of c p) m) 0 pl.
Definition spec_limit (c : cfg) (s : mstate) : option Z :=
  let base := match min_point (pool s) with
              | Some b => Some b
              | None => hd_error (c_points c)
              end in
  match base with
  | None => None
  | Some b =>
      let cand := filter (fun x => Z.leb b x) (c_points c) in
      let l := nth_or_last (c_runahead c) cand b in
      Some (Z.min (l + max_future c (pool s)) (stop_point s))
  end.

(* queue accounting: members of queue q that are active or released-awaiting-prep *)
Definition in_queue (c : cfg) (q : nat) (p : ptask) : bool :=
  match find_inst (c_insts c) (p_id p) with
  | Some i => Nat.eqb (i_queue i) q
  | None => false
  end.
Definition counts_active (p : ptask) : bool := is_active (p_status p) || p_rel p.
Definition active_in (c : cfg) (s : mstate) (q : nat) : nat :=
  count_true (fun p => in_queue c q p && counts_active p) (pool s).

(* allowed automatic status transitions (the lifecycle) *)
Definition trans_ok (p : ptask) (a b : status) : bool :=
  match a, b with
  | Waiting, Preparing => p_rel p || p_manual p
  | Waiting, Expired => true
  | Preparing, Submitted | Preparing, SubmitFailed | Preparing, Running
  | Preparing, Succeeded | Preparing, Failed => true
  | Submitted, Running | Submitted, Succeeded | Submitted, Failed | Submitted, SubmitFailed => true
  | Running, Succeeded | Running, Failed => true
  (* automatic retry: back to waiting from a (submit-)failure path *)
  | Preparing, Waiting | Submitted, Waiting | Running, Waiting => true
  | _, _ => false
  end.

(* ---------------- events ---------------- *)
Record tview := {   (* what the implementation reports about one pooled task at a tick end *)
  v_id : tid; v_status : status; v_held : bool; v_queued : bool; v_runahead : bool;
  v_flows : list nat; v_sat : list key; v_outs : list output; v_sn : nat;
  v_fsat : list key;        (* force-satisfied prerequisite atoms *)
}.

Inductive event :=
| ESpawn (t : tid) (flows : list nat) (sat0 : list key) (held : bool)
| EAdd (t : tid)
| ESat (t : tid) (msgs : list key) (new : list key)
| EOutput (t : tid) (o : output)
| EState (t : tid) (st : status) (h q r : bool)        (* new values of the four state fields *)
| EReleaseBegin
| ERelease (l : list tid)
| ESubmit (t : tid) (sn : nat)
| ERemove (t : tid) (completed : bool)
| ELimit (l : option Z)
| EMerge (t : tid) (flows : list nat)
| EAbs (k : key)
| ECmdHold (ids : list tid)
| ECmdRelease (ids : list tid)
| ECmdHoldPoint (p : Z)
| ECmdReleaseHoldPoint
| ERemoveBegin (t : tid)
| ERestart
| ERestore (v : tview)
| ERestartDone
| ESpawnHist (t : tid) (st : status) (outs : list output) (sn : nat)
| ETransient (t : tid) (flows : list nat) (outs : list output)
| EForceSat (t : tid) (keys : list key)
| EStateForced (t : tid) (st : status) (h q r : bool)
| EManual (t : tid)
| ECmdRemove (t : tid)
| ECrash
| EAdopt (held : list tid) (hp : option Z) (sp : Z) (stask : option tid)
| ECmdStop (m : smode)
| ECmdStopPoint (p : Z)
| ECmdStopTask (t : option tid)
| EStopTaskDone
| EShutdownReq (m : smode)
| EParams (sp : Z) (stask : option tid)
| ETickEnd (snap : list tview) (held : list tid) (hp : option Z)
| EShutdownAuto
(* events of a proxy object that was removed from the pool while a NEWER incarnation of the same instance
   is already in the pool (submission / kill callbacks keep a reference to the old object): the output is
   really emitted, the hold request really recorded, but the pool proxy is not touched *)
| EStaleOutput (t : tid) (o : nat)
| EStaleHold (t : tid)
(* broadcasts (C19, C22 at scheduler level) *)
| EBcast (n : nat)            (* the settings in force change (operator command or expiry of old cycles) *)
| EBcastDb (n : nat)          (* end of an iteration: what the database holds *)
| EBcastLoaded (n : nat).     (* what a restarted scheduler loaded *)

Definition emitted (tr : list event) (k : key) : Prop :=
  In (EOutput (fst k) (snd k)) tr \/ In (EStaleOutput (fst k) (snd k)) tr.

Inductive res := Ok (s : mstate) | Err (code : nat).

Definition subset_keys (a b : list key) : bool := forallb (fun k => mem key_eqb k b) a.
Definition same_keys (a b : list key) : bool := subset_keys a b && subset_keys b a.
Definition subset_nat (a b : list nat) : bool := forallb (fun k => mem Nat.eqb k b) a.
Definition same_nats (a b : list nat) : bool := subset_nat a b && subset_nat b a.

Definition expected_sat0 (s : mstate) (i : inst) : list key :=
  map fst (filter (fun kp => negb (snd kp) && mem key_eqb (fst kp) (abs_done s)) (inst_keys i)).

Definition new_task (t : tid) (flows : list nat) (sat0 : list key) (held : bool) : ptask :=
  {| p_id := t; p_status := Waiting; p_held := held; p_queued := false; p_runahead := true;
     p_flows := flows; p_sat := sat0; p_forced := []; p_outs := []; p_sn := 0%nat; p_rel := false; p_manual := false;
     p_idle := 0%nat; p_lag := 0%nat |}.

Definition qlimit (c : cfg) (q : nat) : nat := nth q (c_qlimits c) 0%nat.

(* per-queue check of one release: members already active + newly released <= limit *)
Definition release_ok (c : cfg) (s : mstate) (newly : list tid) : bool :=
  forallb (fun q =>
    let lim := qlimit c q in
    Nat.eqb lim 0 ||
    let n_new := count_true (fun t => match find_inst (c_insts c) t with
                                       | Some i => Nat.eqb (i_queue i) q | None => false end) newly in
    Nat.eqb n_new 0 || Nat.leb (active_in c s q + n_new) lim)
  (seq 0 (List.length (c_qlimits c))).

Definition view_matches (p : ptask) (v : tview) : bool :=
  tid_eqb (p_id p) (v_id v) && status_eqb (p_status p) (v_status v) &&
  Bool.eqb (p_held p) (v_held v) && Bool.eqb (p_queued p) (v_queued v) &&
  Bool.eqb (p_runahead p) (v_runahead v) && same_nats (p_flows p) (v_flows v) &&
  same_keys (p_sat p) (v_sat v) && same_keys (p_forced p) (v_fsat v) &&
  same_nats (p_outs p) (v_outs v) && Nat.eqb (p_sn p) (v_sn v).

Definition within_limit (s : mstate) (p : ptask) : bool :=
  match limit s with Some l => Z.leb (fst (p_id p)) l | None => false end.

(* end-of-tick bookkeeping of the progress counters *)
Definition tick_counters (c : cfg) (s : mstate) (p : ptask) : ptask :=
  let rdy := match find_inst (c_insts c) (p_id p) with
             | Some i => ready i p && negb (p_queued p) && negb (p_rel p)
             | None => false end in
  let lag := p_runahead p && within_limit s p in
  set_counters p (if rdy then S (p_idle p) else 0%nat) (if lag then S (p_lag p) else 0%nat).

Definition max_idle : nat := 3.

(* completed absolute-trigger outputs are reflected in every pooled dependent's satisfaction (C45):
   counting them as satisfied changes the truth of no prerequisite expression *)
Definition abs_reflected (s : mstate) (i : inst) (p : ptask) : bool :=
  forallb (fun e => Bool.eqb (bx_eval (fun k => sat_of p k || mem key_eqb k (abs_done s)) e)
                             (bx_eval (sat_of p) e)) (i_pre i).

Definition step (c : cfg) (s : mstate) (e : event) : res :=
  match e with
  | ESpawn t flows sat0 held =>
      match find_inst (c_insts c) t with
      | None => Err 101                                  (* not an instance of the graph (C07) *)
      | Some i =>
          if negb (Z.leb (c_icp c) (fst t) && Z.leb (fst t) (c_fcp c)) then Err 102
          else if existsb (fun p => tid_eqb (p_id p) t) (pool s) then Err 103   (* already pooled (C26) *)
          else if negb (subset_keys sat0 (expected_sat0 s i)) then Err 104      (* initially satisfied only by completed absolute outputs *)
          else if negb (Bool.eqb held (hold_expected s t)) then Err 105         (* future holds take effect on spawn (C06) *)
          else if Z.ltb (fst t) (c_start c) then Err 106                         (* nothing before the start point (C46) *)
          else let s1 := if held then add_hold s t else s in
               Ok (with_limbo s1 (new_task t flows sat0 held :: remove_task (limbo s) t))
      end
  | EAdd t =>
      match find_task (limbo s) t with
      | None => Err 111
      | Some p =>
          if existsb (fun q => tid_eqb (p_id q) t) (pool s) then Err 112        (* duplicate proxy (C26) *)
          else Ok (with_limbo (with_pool s (pool s ++ [p])) (remove_task (limbo s) t))
      end
  | ESat t msgs new =>
      match lookup s t, find_inst (c_insts c) t with
      | Some (p, inp), Some i =>
          (* every message is an output really completed upstream (C01) *)
          if negb (forallb (fun k => out_done s (fst k) (snd k)) msgs) then Err 121
          else
            let expect := dedup key_eqb
              (map fst (filter (fun kp => negb (snd kp) && mem key_eqb (fst kp) msgs
                                          && negb (sat_of p (fst kp))) (inst_keys i))) in
            if negb (same_keys new expect) then Err 122    (* exactly the matching atoms (C13 at pool level) *)
            else Ok (store s (set_sat p (new ++ p_sat p)) inp)
      | _, _ => Err 120
      end
  | EOutput t o =>
      match lookup s t with
      | Some (p, inp) =>
          if has_out (p_outs p) o then Err 131
          else Ok (with_done (store s (set_outs p (o :: p_outs p)) inp) ((t, o) :: done s))
      | None => Ok (with_done s ((t, o) :: done s))    (* a proxy that already left the pool (late message) *)
      end
  | EState t st h q r =>
      match lookup s t, find_inst (c_insts c) t with
      | Some (p, inp), Some i =>
          if negb (status_eqb st (p_status p)) && negb (trans_ok p (p_status p) st)
             && negb (p_manual p)      (* manually triggered / set / re-spawned-with-history tasks are exempt *)
          then Err 141   (* lifecycle (C09) *)
          else if q && negb (p_queued p) && negb (ready i (set_flags p h false r)) && negb (p_manual p)
               then Err 142  (* queued only when ready (C01 C06); a triggered task may be queued as it is *)
          else if negb r && p_runahead p && negb (within_limit s p) && negb (p_manual p) && negb (is_final (p_status p))
               then Err 143  (* runahead (C04); finished tasks reloaded on restart are exempt *)
          else if status_eqb st Preparing && negb (status_eqb (p_status p) Preparing) && p_held p && negb (p_manual p)
               then Err 144                                   (* held never prepared (C06) *)
          else if h && negb (p_held p) && negb (hold_expected s t) then Err 145    (* held only on request (C06) *)
          else if negb h && p_held p && mem tid_eqb t (to_hold s) then Err 146     (* released only on request (C06) *)
          else let s1 := if h && negb (p_held p) then add_hold s t else s in
               Ok (store s1 (set_flags (set_status p st) h q r) inp)
      | None, _ =>
          (* a proxy that already left the pool: no effect on the pool -- except that killing the job of a
             just-removed task holds that proxy, which leaves its id in the hold set (known finding C30) *)
          if h then Ok (add_hold s t) else Ok s
      | _, _ => Err 140
      end
  | EReleaseBegin =>
      Ok (with_relq s (map p_id (filter p_queued (pool s))))
  | ERelease l =>
      let newly := filter (fun t => match find_task (pool s) t with
                                    | Some p => negb (p_rel p) && negb (p_manual p)   (* only manual triggering may exceed a limit *)
                                    | None => true end) l in
      if negb (forallb (fun t => match find_task (pool s) t, find_inst (c_insts c) t with
                                 | Some p, Some i => (p_rel p || mem tid_eqb t (relq s) || p_manual p)
                                                     && (negb (p_held p) || p_manual p)
                                                     && (p_manual p || prereqs_ok i p)
                                 | _, _ => false end) l) then Err 151
      else if negb (release_ok c s newly) then Err 152      (* queue limit (C05) *)
      else Ok (with_pool s (map (fun p => if mem tid_eqb (p_id p) l then set_rel p true else p) (pool s)))
  | ESubmit t sn =>
      match find_task (pool s) t, find_inst (c_insts c) t with
      | Some p, Some i =>
          if negb (status_eqb (p_status p) Preparing) then Err 161
          else if mem (pair_eqb tid_eqb Nat.eqb) (t, sn) (subs s) then Err 162   (* same submit number twice (C20) *)
          else if negb (Nat.ltb (count_true (fun x => tid_eqb (fst x) t) (subs s)) (i_tries i)) && negb (p_manual p)
               then Err 163                                     (* retry bound (C02) *)
          else if Z.ltb (stop_point s) (fst t) && negb (p_manual p) then Err 164   (* beyond the stop point (C07 C43) *)
          else Ok (with_subs (with_pool s (update_task (pool s) (set_sn p sn))) ((t, sn) :: subs s))
      | _, _ => Err 160
      end
  | ERemove t completed =>
      match find_task (pool s) t, find_inst (c_insts c) t with
      | Some p, Some i =>
          if completed && negb (is_final (p_status p) && cx_eval (has_out (p_outs p)) (i_comp i)) then Err 171  (* C11 *)
          else Ok (with_hist (with_pool s (remove_task (pool s) t))
                     ({| h_id := t; h_flows := p_flows p; h_status := p_status p; h_outs := p_outs p |} :: hist s))
      | _, _ => Err 170
      end
  | ELimit l =>
      (* with an empty pool nothing can be released and the code keeps its previous value *)
      match pool s with
      | [] => Ok (with_limit s l)
      | _ => if option_eqb Z.eqb l (spec_limit c s) then Ok (with_limit s l)
             (* the code does not recompute a limit that already sits at the stop point, even if the
                earliest pool point has since moved back (manual trigger of an old cycle): finding C04 *)
             else if option_eqb Z.eqb (limit s) (Some (stop_point s)) && option_eqb Z.eqb l (limit s)
                  then Ok (with_limit s l)
             else Err 181   (* C04 *)
      end
  | EMerge t flows =>
      match lookup s t with
      | Some (p, inp) => Ok (store s (set_flows p flows) inp)
      | None => Err 190
      end
  | EAbs k =>
      if out_done s (fst k) (snd k) then Ok (with_abs s (k :: abs_done s)) else Err 195   (* C45 *)
  | ECmdHold ids => Ok (fold_left add_hold ids s)
  | ECmdRelease ids => Ok (with_hold s (fold_left drop_hold ids (to_hold s)) (hold_pt s))
  | ECmdHoldPoint p => Ok (with_hold s (to_hold s) (Some p))
  | ECmdReleaseHoldPoint => Ok (with_hold s [] None)
  | ERemoveBegin t => Ok (with_hold s (drop_hold (to_hold s) t) (hold_pt s))
  | ERestart =>
      Ok (with_crash
            (with_saved (with_limit (with_relq (with_limbo (with_pool (with_stop s (stop_point s) None (stop_task s)) []) []) []) None)
               (map restored (pool s))) false)
  | ESpawnHist t st outs sn =>
      (* a just-spawned proxy that carries history from the database (status, outputs, submit number of
         an earlier, manually influenced incarnation): the outputs must be ones really completed *)
      match find_task (limbo s) t with
      | None => Err 275
      | Some p =>
          if negb (forallb (fun o => mem key_eqb (t, o) (done s)) outs) then Err 276
          else Ok (with_limbo s (update_task (limbo s) (set_manual (set_sn (set_outs (set_status p st) outs) sn) true)))
      end
  | ETransient t flows outs =>
      (* a throw-away proxy used by "cylc set" on a task that is not in the pool: it carries the
         outputs the task completed before *)
      match find_inst (c_insts c) t with
      | None => Err 271
      | Some i =>
          if negb (Z.leb (c_icp c) (fst t) && Z.leb (fst t) (c_fcp c)) then Err 272
          else if existsb (fun p => tid_eqb (p_id p) t) (pool s) then Err 273
          else if negb (forallb (fun o => mem key_eqb (t, o) (done s)) outs) then Err 274
          else Ok (with_limbo s (set_manual (set_outs (new_task t flows [] false) outs) true :: remove_task (limbo s) t))
      end
  | EForceSat t keys =>
      match lookup s t, find_inst (c_insts c) t with
      | Some (p, inp), Some i =>
          (* only prerequisites the task actually has (C29) *)
          if negb (forallb (fun k => existsb (fun kp => key_eqb (fst kp) k) (inst_keys i)) keys) then Err 281
          else Ok (store s (set_forced p (keys ++ p_forced p)) inp)
      | None, _ => Ok s
      | _, _ => Err 280
      end
  | EStateForced t st h q r =>
      match lookup s t with
      | Some (p, inp) =>
          (* a forced change never yields an active job state (C29) *)
          if status_eqb st Submitted || status_eqb st Running then Err 291
          else Ok (store s (set_manual (set_flags (set_status p st) h q r) true) inp)
      | None => Ok s
      end
  | EManual t =>
      match lookup s t with
      | Some (p, inp) => Ok (store s (set_manual p true) inp)
      | None => Ok s
      end
  | ECmdRemove t =>
      (* "cylc remove": the instance's history is erased so that it can run again; whatever it had
         satisfied naturally downstream is unset (force-satisfied prerequisites stay) (C30) *)
      let keep (k : key) := negb (tid_eqb (fst k) t) in
      let fix_task (p : ptask) :=
        if forallb keep (p_sat p) then p else set_manual (set_sat p (filter keep (p_sat p))) true in
      Ok {| pool := map fix_task (pool s); limbo := map fix_task (limbo s);
            hist := filter (fun h => negb (tid_eqb (h_id h) t)) (hist s);
            subs := filter (fun x => negb (tid_eqb (fst x) t)) (subs s);
            limit := limit s; relq := relq s;
            abs_done := abs_done s;         (* the record of completed absolute-trigger outputs is NOT erased *)
            stop_point := stop_point s;
            done := filter (fun k => keep k || mem key_eqb k (abs_done s)) (done s);
            to_hold := to_hold s; hold_pt := hold_pt s;
            saved := map fix_task (saved s); stop_mode := stop_mode s; stop_task := stop_task s;
            crash_mode := crash_mode s; bcast := bcast s |}
  | ECrash =>
      (* the process died: what the new process reloads is whatever was last committed *)
      (* (the record of completed absolute-trigger outputs is re-announced from what the database holds) *)
      Ok (with_abs (with_crash (with_saved (with_limit (with_relq (with_limbo (with_pool
            (with_stop s (stop_point s) None (stop_task s)) []) []) []) None) []) true) [])
  | EAdopt held hp sp stask =>
      if crash_mode s then Ok (with_stop (with_hold s held hp) sp (stop_mode s) stask) else Err 261
  | ERestore v =>
      if crash_mode s then
        (* after a crash any earlier committed state of a task may come back, but only a consistent one:
           a graph instance, satisfied only by outputs really completed, outputs it really completed,
           beyond waiting only with true prerequisites; submissions beyond its submit number are forgotten *)
        match find_inst (c_insts c) (v_id v) with
        | None => Err 225
        | Some i =>
            let p := {| p_id := v_id v; p_status := v_status v; p_held := v_held v; p_queued := false;
                        p_runahead := v_runahead v; p_flows := v_flows v; p_sat := v_sat v; p_forced := v_fsat v; p_outs := v_outs v;
                        p_sn := v_sn v; p_rel := false; p_manual := false; p_idle := 0%nat; p_lag := 0%nat |} in
            if negb (Z.leb (c_icp c) (fst (v_id v)) && Z.leb (fst (v_id v)) (c_fcp c)) then Err 226
            else if existsb (fun q => tid_eqb (p_id q) (v_id v)) (pool s) then Err 223
            else if negb (forallb (fun k => mem key_eqb k (done s)) (v_sat v)) then Err 227
            else if negb (forallb (fun o => mem key_eqb (v_id v, o) (done s)) (v_outs v)) then Err 228
            else if negb (status_eqb (v_status v) Waiting) && negb (status_eqb (v_status v) Expired)
                    && negb (prereqs_ok i p) then Err 229
            else Ok (with_subs (with_pool s (pool s ++ [p]))
                       (filter (fun x => negb (tid_eqb (fst x) (v_id v)) || Nat.leb (snd x) (v_sn v)) (subs s)))
        end
      else
      match find_task (saved s) (v_id v) with
      | None => Err 221                                     (* a task the pool did not hold came back *)
      | Some p =>
          if negb (view_matches p v) then Err 222             (* restart restores the task exactly (C19) *)
          else if existsb (fun q => tid_eqb (p_id q) (v_id v)) (pool s) then Err 223
          else Ok (with_saved (with_pool s (pool s ++ [p])) (remove_task (saved s) (v_id v)))
      end
  | ERestartDone =>
      if crash_mode s then Ok (with_crash s false) else
      match saved s with [] => Ok s | _ => Err 224 end       (* a pooled task was lost by the restart (C19) *)
  | ECmdStop m => Ok (with_stop s (stop_point s) (Some m) (stop_task s))
  | ECmdStopPoint p =>
      Ok (with_limit (with_stop s p (stop_mode s) (stop_task s))
            (match limit s with Some l => Some (Z.min l p) | None => None end))
  | ECmdStopTask t => Ok (with_stop s (stop_point s) (stop_mode s) t)
  | EStopTaskDone =>
      match stop_task s with
      | Some t => if out_done s t o_succeeded then Ok (with_stop s (stop_point s) (stop_mode s) None) else Err 231  (* C43 *)
      | None => Err 232
      end
  | EShutdownReq m =>
      if negb (option_eqb (fun a b => match a, b with
                                      | SAuto, SAuto | SClean, SClean | SKill, SKill | SNow, SNow | SNowNow, SNowNow => true
                                      | _, _ => false end) (stop_mode s) (Some m)) then Err 241
      else match m with
           | SClean | SKill =>
               (* a clean stop waits for submitted and running jobs (C43) *)
               if existsb (fun p => status_eqb (p_status p) Submitted || status_eqb (p_status p) Running) (pool s)
               then Err 242 else Ok s
           | _ => Ok s
           end
  | EParams sp stask =>
      if negb (Z.eqb sp (stop_point s)) then Err 251            (* stop point survives restart unless reached (C43) *)
      else if negb (option_eqb tid_eqb stask (stop_task s)) then Err 252
      else Ok s
  | ETickEnd snap held hp =>
      if negb (Nat.eqb (List.length snap) (List.length (pool s))) then Err 201
      else if negb (same_tids held (to_hold s) && option_eqb Z.eqb hp (hold_pt s)) then Err 207      (* hold set / hold point (C06) *)
      else if negb (forallb (fun p => Bool.eqb (p_held p) (mem tid_eqb (p_id p) (to_hold s))) (pool s)) then Err 208
      else if negb (forallb (fun v => match find_task (pool s) (v_id v) with
                                      | Some p => view_matches p v | None => false end) snap) then Err 202
      else
        let pl := map (tick_counters c s) (pool s) in
        if existsb (fun p => Nat.leb max_idle (p_idle p)) pl then Err 203        (* ready but never queued (C03) *)
        else if existsb (fun p => Nat.leb max_idle (p_lag p)) pl then Err 204    (* within limit but never released (C04) *)
        else if negb (forallb (fun p => match find_inst (c_insts c) (p_id p) with
                                        | Some i => abs_reflected s i p | None => false end) (pool s)) then Err 205  (* C45 *)
        else if existsb (fun p => match find_inst (c_insts c) (p_id p) with
                                  | Some i => is_final (p_status p) && cx_eval (has_out (p_outs p)) (i_comp i)
                                  | None => false end) (pool s) then Err 206   (* finished and complete but retained (C11) *)
        else Ok (with_hist (with_limbo (with_pool s pl) [])
                   (map (fun p => {| h_id := p_id p; h_flows := p_flows p; h_status := p_status p;
                                     h_outs := p_outs p |}) (limbo s) ++ hist s))
  | EShutdownAuto =>
      if existsb (fun p => is_active (p_status p)) (pool s) then Err 211
      else if existsb (fun p => status_eqb (p_status p) Waiting && negb (p_runahead p)) (pool s) then Err 212
      else if existsb (fun p => is_final (p_status p) && Z.leb (fst (p_id p)) (stop_point s)) (pool s) then Err 213
      else if existsb (fun p => status_eqb (p_status p) Waiting && Z.leb (fst (p_id p)) (stop_point s)
                                && negb (Nat.eqb (List.length (p_sat p)) 0)) (pool s) then Err 214
      else Ok (with_stop s (c_fcp c) (Some SAuto) (stop_task s))   (* the early stop point is forgotten once reached (C43) *)
  | EStaleOutput t o => Ok (with_done s ((t, o) :: done s))
  | EStaleHold t => Ok (add_hold s t)
  | EBcast n => Ok (with_bcast s n)
  | EBcastDb n => if Nat.eqb n (bcast s) then Ok s else Err 301       (* the database lags the broadcasts in force (C19 C22) *)
  | EBcastLoaded n =>
      if crash_mode s then Ok (with_bcast s n)      (* after a crash: whatever was last committed *)
      else if Nat.eqb n (bcast s) then Ok s else Err 302             (* a restart must give the broadcasts back (C19) *)
  end.

Fixpoint run_from (c : cfg) (s : mstate) (i : nat) (tr : list event) : option (nat * nat) * mstate :=
  match tr with
  | [] => (None, s)
  | e :: r => match step c s e with
              | Ok s' => run_from c s' (S i) r
              | Err code => (Some (i, code), s)
              end
  end.

Definition run (c : cfg) (tr : list event) : option (nat * nat) := fst (run_from c (init_state c) 0 tr).

(* ---------------- correspondence interface ---------------- *)
Record case := { k_cfg : cfg; k_trace : list event }.
Definition check_case (k : case) : bool :=
  match run (k_cfg k) (k_trace k) with None => true | Some _ => false end.
Definition model_out (k : case) := run (k_cfg k) (k_trace k).
