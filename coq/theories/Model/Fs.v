(* Model/Fs.v — executable model for C38 (`cylc clean` deletes only inside the
   workflow):
     cylc/flow/pathutil.py  parse_rm_dirs (with os.path.normpath),
                            remove_dir_or_file, remove_dir_and_target,
                            remove_empty_parents, is_relative_to
     cylc/flow/workflow_files.py  get_symlink_dirs
     cylc/flow/clean.py     clean, glob_in_run_dir, _clean_using_glob
   A filesystem is a flat finite map from PHYSICAL absolute paths (lists of
   names; no symlink among the components of a key's parent) to a kind: file,
   directory, or symlink with an absolute lexical target.  Logical paths (what
   the code manipulates) are resolved by [walk], which follows symlinks like
   the kernel / os.path.realpath (non-strict).
   `glob.iglob` + `sorted` is NOT modelled: the matches it returned are part
   of a case (data), and a Section variable in the theorems.
   Names are numbers assigned by the harness; the fixed ones are below.
   Hand model, tied to the source by the C38 correspondence streams. *)
From Coq Require Import List Bool Arith.
From Cylc Require Import Base.Util.
Import ListNotations.

Definition name := nat.
Definition path := list name.

(* names with a meaning for the code *)
Definition n_cylc_run : name := 0.   (* "cylc-run" *)
Definition n_log : name := 1.
Definition n_share : name := 2.
Definition n_cycle : name := 3.
Definition n_work : name := 4.
Definition n_job : name := 5.
Definition n_runN : name := 6.
Definition n_install : name := 7.    (* "_cylc-install" *)

Inductive kind := KF | KD | KL (target : path).
Definition fs := list (path * kind).

Definition path_eqb (a b : path) : bool := list_eqb Nat.eqb a b.

(* [is_prefix p q]: q is p or lies below p *)
Fixpoint is_prefix (p q : path) : bool :=
  match p, q with
  | [], _ => true
  | x :: p', y :: q' => Nat.eqb x y && is_prefix p' q'
  | _ :: _, [] => false
  end.

Definition lookup (s : fs) (p : path) : option kind :=
  match p with [] => Some KD | _ => assoc path_eqb p s end.

(* remove the physical subtree rooted at p (p itself included) *)
Definition rm_tree (s : fs) (p : path) : fs :=
  filter (fun e => negb (is_prefix p (fst e))) s.

Definition rm_trees (s : fs) (ps : list path) : fs := fold_left rm_tree ps s.

(* ---- symlink resolution ---- *)
Definition FUEL : nat := 400.

(* kernel path walk / realpath(strict=False): [acc] is physical, [rest] still
   to do; a missing or non-directory component is kept lexically.
   None = too many levels of symbolic links. *)
Fixpoint walk (fuel : nat) (s : fs) (acc rest : path) : option path :=
  match fuel with
  | 0 => None
  | S f =>
      match rest with
      | [] => Some acc
      | c :: r =>
          match lookup s (acc ++ [c]) with
          | Some (KL t) => walk f s [] (t ++ r)
          | _ => walk f s (acc ++ [c]) r
          end
      end
  end.

Definition realpath (s : fs) (p : path) : option path := walk FUEL s [] p.

Fixpoint split_last (p : path) : option (path * name) :=
  match p with
  | [] => None
  | [c] => Some ([], c)
  | x :: r => match split_last r with Some (par, c) => Some (x :: par, c) | None => None end
  end.

(* physical location of the directory entry itself (final symlink not followed) *)
Definition phys (s : fs) (p : path) : option path :=
  match split_last p with
  | None => Some []
  | Some (par, c) => match realpath s par with Some q => Some (q ++ [c]) | None => None end
  end.

Definition lstat (s : fs) (p : path) : option kind :=
  match phys s p with Some q => lookup s q | None => None end.
(* stat = lstat unless the entry is a symlink, which is then followed *)
Definition stat (s : fs) (p : path) : option kind :=
  match lstat s p with
  | Some (KL _) => match realpath s p with Some q => lookup s q | None => None end
  | k => k
  end.

Definition is_link (s : fs) (p : path) : bool :=
  match lstat s p with Some (KL _) => true | _ => false end.
Definition exists_ (s : fs) (p : path) : bool :=
  match stat s p with Some _ => true | None => false end.
Definition lexists (s : fs) (p : path) : bool :=
  match lstat s p with Some _ => true | None => false end.
Definition is_dir (s : fs) (p : path) : bool :=
  match stat s p with Some KD => true | _ => false end.
Definition is_file (s : fs) (p : path) : bool :=
  match stat s p with Some KF => true | _ => false end.

(* ---- results with exceptions: the state at the time of the exception matters ---- *)
Inductive err :=
  | ENoEnt         (* FileNotFoundError *)
  | ENotDir        (* NotADirectoryError *)
  | EBadLink       (* WorkflowFilesError: invalid symlink (get_symlink_dirs) *)
  | ELoop.         (* could not resolve *)

Inductive res (A : Type) := ROk (a : A) | RErr (e : err).
Arguments ROk {A} a. Arguments RErr {A} e.

(* the physical subtrees a primitive removes, in order *)
Definition opt_list (o : option path) : list path := match o with Some q => [q] | None => [] end.

(* pathutil.remove_dir_or_file *)
Definition rm_dir_or_file (s : fs) (p : path) : res (list path) :=
  if is_link s p then ROk (opt_list (phys s p))
  else if is_file s p then ROk (opt_list (phys s p))
  else if is_dir s p then ROk (opt_list (phys s p))
  else RErr ENoEnt.                      (* shutil.rmtree on a missing path *)

(* pathutil.remove_dir_and_target *)
Definition rm_dir_and_target (s : fs) (p : path) : res (list path) :=
  if exists_ s p && negb (is_dir s p) then RErr ENotDir
  else if is_link s p then
    if exists_ s p then ROk (opt_list (realpath s p) ++ opt_list (phys s p))
    else ROk (opt_list (phys s p))         (* broken symlink *)
  else if negb (exists_ s p) then RErr ENoEnt
  else ROk (opt_list (phys s p)).

(* ---- standard symlink dirs ---- *)
(* sorted(WorkflowFiles.SYMLINK_DIRS, reverse=True): deepest first *)
Definition std_dirs : list path :=
  [[n_work]; [n_share; n_cycle]; [n_share]; [n_log; n_job]; [n_log]; []].

Definition is_suffix (suf p : path) : bool := is_prefix (rev suf) (rev p).

(* workflow_files.get_symlink_dirs: the std dirs that are symlinks, with their
   resolved targets; error if a target is a non-directory or does not end
   with cylc-run/<id>/<dir> *)
Fixpoint get_symlink_dirs_from (s : fs) (run id : path) (ds : list path)
  : res (list (path * path)) :=
  match ds with
  | [] => ROk []
  | d :: r =>
      if is_link s (run ++ d) then
        match realpath s (run ++ d) with
        | None => RErr ELoop
        | Some t =>
            if (match lookup s t with Some KD | None => false | _ => true end) then RErr EBadLink
            else if negb (is_suffix (n_cylc_run :: id ++ d) t) then RErr EBadLink
            else match get_symlink_dirs_from s run id r with
                 | ROk l => ROk ((d, t) :: l)
                 | RErr e => RErr e
                 end
        end
      else get_symlink_dirs_from s run id r
  end.

Definition get_symlink_dirs (s : fs) (run id : path) := get_symlink_dirs_from s run id std_dirs.

(* ---- clean.glob_in_run_dir: filtering of the (sorted) glob matches ---- *)
Definition mem_path (p : path) (l : list path) : bool := mem path_eqb p l.

(* proper prefixes of rel, shortest first, the empty one included:
   for a/b/c: [], a, a/b  (reversed(path.relative_to(run_dir).parents)) *)
Fixpoint proper_prefixes (rel : path) : list path :=
  match rel with
  | [] => []
  | c :: r => [] :: map (cons c) (proper_prefixes r)
  end.

Inductive verdict := Keep | Drop.
Definition is_nil_path (l : list path) : bool := match l with [] => true | _ => false end.

(* the inner `for rel_ancestor ...` loop; returns the verdict and the updated
   subpath_excludes.  [parent] = path.parent *)
Fixpoint scan_ancestors (s : fs) (run : path) (stds matches results : list path)
         (p parent : path) (ancs : list path) (excl : list path) : verdict * list path :=
  match ancs with
  | [] => (Keep, excl)                        (* for ... else *)
  | a :: rest =>
      let anc := run ++ a in
      if mem_path anc excl then (Drop, excl)
      else if is_link s anc && negb (mem_path anc stds) then (Drop, anc :: excl)
      else if is_nil_path stds && mem_path anc results then (Drop, anc :: excl)
      else if path_eqb anc parent && (mem_path anc matches && negb (mem_path p stds))
           then (Drop, excl)
      else scan_ancestors s run stds matches results p parent rest excl
  end.

Definition strip_prefix_len (run p : path) : path := skipn (length run) p.

Fixpoint glob_filter (s : fs) (run : path) (stds matches todo results excl : list path)
  : list path :=
  match todo with
  | [] => results
  | p :: rest =>
      let rel := strip_prefix_len run p in
      let parent := match split_last p with Some (par, _) => par | None => [] end in
      match scan_ancestors s run stds matches results p parent (proper_prefixes rel) excl with
      | (Keep, excl') => glob_filter s run stds matches rest (results ++ [p]) excl'
      | (Drop, excl') => glob_filter s run stds matches rest results excl'
      end
  end.

(* glob_in_run_dir, given what sorted(glob.iglob(...)) returned *)
Definition glob_in_run_dir (s : fs) (run : path) (stds matches : list path) : list path :=
  match matches with
  | [m] => if lexists s m then glob_filter s run stds matches matches [] [] else []
  | _ => glob_filter s run stds matches matches [] []
  end.

(* ---- clean._clean_using_glob ---- *)
Definition remove_path (p : path) (l : list path) : list path :=
  (* list.remove: first occurrence *)
  (fix go l := match l with
               | [] => []
               | x :: r => if path_eqb x p then r else x :: go r
               end) l.

(* state, pending error *)
Definition st_res := (fs * option err)%type.

Fixpoint rm_each (s : fs) (ps : list path) : st_res :=
  match ps with
  | [] => (s, None)
  | p :: r =>
      if lexists s p then
        match rm_dir_or_file s p with
        | ROk del => rm_each (rm_trees s del) r
        | RErr e => (s, Some e)
        end
      else rm_each s r      (* already removed along with a matched ancestor *)
  end.

(* first loop: matching standard symlink dirs, deepest first.
   Returns the state, the remaining matches, and whether to stop (error or
   "we have deleted the run dir") *)
Fixpoint rm_std_dirs (s : fs) (run : path) (sds : list path) (matches : list path)
  : fs * list path * option (option err) :=
  match sds with
  | [] => (s, matches, None)
  | sd :: rest =>
      if existsb (fun p => is_prefix p sd) matches && is_link s sd then
        match rm_dir_and_target s sd with
        | RErr e => (s, matches, Some (Some e))
        | ROk del =>
            let s' := rm_trees s del in
            if path_eqb sd run then (s', matches, Some None)
            else rm_std_dirs s' run rest (if mem_path sd matches then remove_path sd matches else matches)
        end
      else rm_std_dirs s run rest matches
  end.

Definition clean_using_glob (s : fs) (run : path) (std_keys : list path) (raw_matches : list path)
  : st_res :=
  let sds := map (fun d => run ++ d) std_keys in
  let matches := glob_in_run_dir s run sds raw_matches in
  match matches with
  | [] => (s, None)
  | _ =>
      match rm_std_dirs s run sds matches with
      | (s', _, Some stop) => (s', stop)
      | (s', ms, None) => rm_each s' ms
      end
  end.

Fixpoint clean_patterns (s : fs) (run : path) (std_keys : list path) (globs : list (list path))
  : st_res :=
  match globs with
  | [] => (s, None)
  | g :: rest =>
      match clean_using_glob s run std_keys g with
      | (s', None) => clean_patterns s' run std_keys rest
      | (s', Some e) => (s', Some e)
      end
  end.

(* wholesale clean *)
Fixpoint rm_targets (s : fs) (ps : list path) : st_res :=
  match ps with
  | [] => (s, None)
  | p :: r =>
      match rm_dir_and_target s p with
      | ROk del => rm_targets (rm_trees s del) r
      | RErr e => (s, Some e)
      end
  end.

(* ---- the tidy-up at the end of clean() ---- *)
Definition children (s : fs) (dir : path) : list path :=
  map fst (filter (fun e => match split_last (fst e) with
                            | Some (par, _) => path_eqb par dir
                            | None => false
                            end) s).

(* os.rmdir semantics on a logical path: real, empty directory only *)
Definition try_rmdir (s : fs) (p : path) : option fs :=
  match lstat s p, phys s p with
  | Some KD, Some q => if is_nil_path (children s q) then Some (rm_tree s q) else None
  | _, _ => None
  end.

Fixpoint firstn_rev_parents (p : path) (n : nat) : list path :=
  (* path.parents[0..n-1] *)
  match n with
  | 0 => []
  | S m => match split_last p with
           | Some (par, _) => par :: firstn_rev_parents par m
           | None => []
           end
  end.

Fixpoint rm_empty_list (s : fs) (ps : list path) : fs :=
  match ps with
  | [] => s
  | p :: r =>
      if negb (is_dir s p) then rm_empty_list s r          (* continue *)
      else match try_rmdir s p with
           | Some s' => rm_empty_list s' r
           | None => s                                      (* break *)
           end
  end.

(* pathutil.remove_empty_parents(path, tail) with len(tail.parts) = n *)
Definition remove_empty_parents (s : fs) (p : path) (n : nat) : fs :=
  rm_empty_list s (firstn_rev_parents p (pred n)).

Definition tidy (s : fs) (run id : path) (stds : list (path * path)) : st_res :=
  match split_last run with
  | None => (s, None)
  | Some (parent, runname) =>
      (* Remove `runN` symlink if it's now broken *)
      let runN := parent ++ [n_runN] in
      let s1 :=
        match lstat s runN, phys s runN, phys s run with
        | Some (KL t), Some q, Some target =>
            if negb (exists_ s run) && path_eqb t target then rm_tree s q else s
        | _, _, _ => s
        end in
      (* Remove _cylc-install if it's the only thing left *)
      match realpath s1 parent with
      | None => (s1, Some ELoop)
      | Some pp =>
          if negb (is_dir s1 parent) then (s1, Some ENoEnt)     (* iterdir() raises *)
          else
            let inst := pp ++ [n_install] in
            let others := filter (fun c => negb (path_eqb c inst)) (children s1 pp) in
            let r2 :=
              if is_nil_path others && is_dir s1 (parent ++ [n_install]) then
                match rm_dir_or_file s1 (parent ++ [n_install]) with
                | ROk del => (rm_trees s1 del, None)
                | RErr e => (s1, Some e)
                end
              else (s1, None) in
            match r2 with
            | (s2, Some e) => (s2, Some e)
            | (s2, None) =>
                let s3 := remove_empty_parents s2 run (length id) in
                (fold_left (fun acc dt => remove_empty_parents acc (snd dt) (length id + length (fst dt)))
                           stds s3, None)
            end
      end
  end.

(* ---- clean(id_, run_dir, rm_dirs) ---- *)
(* [globs] = None: wholesale; Some l: one recorded (sorted) glob result per
   pattern, in the order the patterns were processed *)
Definition clean (s : fs) (cr id : path) (globs : option (list (list path))) : st_res :=
  let run := cr ++ id in
  match get_symlink_dirs s run id with
  | RErr e => (s, Some e)
  | ROk stds =>
      let keys := map fst stds in
      let r1 :=
        match globs with
        | Some gl => clean_patterns s run keys gl
        | None =>
            match rm_targets s (map (fun d => run ++ d) keys) with
            | (s', Some e) => (s', Some e)
            | (s', None) =>
                if mem_path [] keys then (s', None) else rm_targets s' [run]
            end
        end in
      match r1 with
      | (s1, Some e) => (s1, Some e)
      | (s1, None) => tidy s1 run id stds
      end
  end.

(* ---- parse_rm_dirs / os.path.normpath ---- *)
(* one component of part.split('/') *)
Inductive comp := CEmpty | CCur | CPar | CName (n : name).

Definition comp_eqb (a b : comp) : bool :=
  match a, b with
  | CEmpty, CEmpty | CCur, CCur | CPar, CPar => true
  | CName x, CName y => Nat.eqb x y
  | _, _ => false
  end.

(* posixpath.normpath on the split form; result: number of leading slashes
   (0, 1 or 2) and the components ('' result is '.', i.e. (0, [])) *)
Fixpoint leading_empty (cs : list comp) : nat :=
  match cs with CEmpty :: r => S (leading_empty r) | _ => 0 end.

(* number of leading '/' characters of the string that split into [cs] *)
Definition leading_slashes (cs : list comp) : nat :=
  let k := leading_empty cs in
  if Nat.eqb k (length cs) then pred k else k.

Definition initial_slashes (cs : list comp) : nat :=
  match leading_slashes cs with
  | 0 => 0
  | 2 => 2        (* POSIX: exactly two leading slashes are kept *)
  | _ => 1
  end.

Fixpoint norm_go (slashes : nat) (cs : list comp) (acc : list comp) : list comp :=
  (* acc is the `new_comps` list, reversed *)
  match cs with
  | [] => rev acc
  | c :: r =>
      match c with
      | CEmpty | CCur => norm_go slashes r acc
      | CPar =>
          match acc with
          | [] => if Nat.eqb slashes 0 then norm_go slashes r [CPar] else norm_go slashes r []
          | CPar :: _ => norm_go slashes r (CPar :: acc)
          | _ :: acc' => norm_go slashes r acc'
          end
      | CName _ => norm_go slashes r (c :: acc)
      end
  end.

Definition normpath (cs : list comp) : nat * list comp :=
  let sl := initial_slashes cs in (sl, norm_go sl cs []).

Inductive parsed := PAbs | PAbove | PAccept (cs : list comp) (trailing : bool).

Definition ends_with_slash (cs : list comp) : bool :=
  match rev cs with CEmpty :: _ :: _ => true | _ => false end.

(* one stripped, non-empty part of a --rm argument *)
Definition parse_part (cs : list comp) : parsed :=
  let is_dir := ends_with_slash cs in
  let '(sl, n) := normpath cs in
  if negb (Nat.eqb sl 0) then PAbs
  else match n with
       | [] => PAbove                         (* '.' *)
       | CPar :: _ => PAbove                  (* '..' or '../...' *)
       | _ => PAccept n is_dir
       end.

(* ---- correspondence interface ---- *)
Definition kind_eqb (a b : kind) : bool :=
  match a, b with
  | KF, KF | KD, KD => true
  | KL x, KL y => path_eqb x y
  | _, _ => false
  end.
Definition entry_eqb (a b : path * kind) : bool := path_eqb (fst a) (fst b) && kind_eqb (snd a) (snd b).

Definition err_code (e : option err) : nat :=
  match e with
  | None => 0 | Some ENoEnt => 1 | Some ENotDir => 2 | Some EBadLink => 3 | Some ELoop => 4
  end.

Record clean_case := {
  k_fs : fs;                            (* snapshot before *)
  k_cr : path;                          (* ~/cylc-run *)
  k_id : path;                          (* workflow id components *)
  k_globs : option (list (list path));  (* recorded sorted glob results, per pattern *)
  k_impl_fs : fs;                       (* snapshot after (implementation) *)
  k_impl_err : nat                      (* exception class (implementation) *)
}.

Inductive case :=
  | CClean (c : clean_case)
  | CParse (cs : list comp) (impl : parsed).

Definition parsed_eqb (a b : parsed) : bool :=
  match a, b with
  | PAbs, PAbs | PAbove, PAbove => true
  | PAccept x tx, PAccept y ty => list_eqb comp_eqb x y && Bool.eqb tx ty
  | _, _ => false
  end.

Definition check_case (c : case) : bool :=
  match c with
  | CClean k =>
      let '(s', e) := clean (k_fs k) (k_cr k) (k_id k) (k_globs k) in
      list_eqb entry_eqb s' (k_impl_fs k) && Nat.eqb (err_code e) (k_impl_err k)
  | CParse cs impl => parsed_eqb (parse_part cs) impl
  end.

Definition model_out (c : case) : (fs * nat) + parsed :=
  match c with
  | CClean k => let '(s', e) := clean (k_fs k) (k_cr k) (k_id k) (k_globs k) in inl (s', err_code e)
  | CParse cs _ => inr (parse_part cs)
  end.
