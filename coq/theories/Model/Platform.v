(* Model/Platform.v — executable model of cylc/flow/platforms.py:
   platform_from_name, get_platform_from_group, get_host_from_platform.
   Hand model, tied to the source by the C47 correspondence streams.

   Platform / host names and name patterns are numbered by the harness.
   External behaviour enters as Section variables:
     pmatch p n   re.fullmatch(<pattern p with top-level commas read as '|'>, n)
     gmatch p n   re.fullmatch(<group pattern p>, n)
     clash p      re.escape(p) != p and re.match(p, 'localhost')
     jobless n    n in JOBLESS_MODES
     select l     random.choice(l)  (only hypothesis: it returns an element of l)
   For the correspondence run the first four are finite tables computed by the
   harness with Python's `re` (independently of platforms.py), and instead of
   [select] the model computes the list of answers that some choice allows. *)
From Coq Require Import List Bool Arith Lia.
From Cylc Require Import Base.Util.
Import ListNotations.

Definition name := nat.
Definition pat := nat.

Inductive method := DefOrder | Random | Other.   (* 'definition order' | 'random' | anything else *)
Record pdef := { d_pat : pat; d_hosts : list name; d_method : method }.
Record gdef := { g_pat : pat; g_members : list name; g_method : method }.
(* both in definition order (dict order) *)
Record config := { platforms : list pdef; groups : list gdef }.

(* a resolved platform: the 'name', 'hosts', 'selection/method' items of the returned dict *)
Record rplat := { r_name : name; r_hosts : list name; r_method : method }.

Inductive err := ELookup | ENoPlatforms | ENoHosts | ECylc | ENested.
Inductive res (A : Type) := Ok (a : A) | Err (e : err).
Arguments Ok {A} a. Arguments Err {A} e.
Definition bind {A B} (r : res A) (f : A -> res B) : res B :=
  match r with Ok a => f a | Err e => Err e end.

Definition is_bad (bad : list name) (h : name) : bool := mem Nat.eqb h bad.
(* `[i for i in hosts if i not in bad_hosts]` (for empty/None bad_hosts: hosts) *)
Definition good_hosts (bad hosts : list name) : list name :=
  filter (fun h => negb (is_bad bad h)) hosts.
(* `bad_hosts.issuperset(hosts)` *)
Definition all_bad (bad hosts : list name) : bool := forallb (is_bad bad) hosts.

(* the answers HOST_SELECTION_METHODS[method](l) may give, l non-empty *)
Definition pick_allowed (m : method) (l : list name) : res (list name) :=
  match m with
  | DefOrder => Ok (firstn 1 l)
  | Random => Ok l
  | Other => Err ECylc
  end.

Section Platform.
  Variable pmatch gmatch : pat -> name -> bool.
  Variable clash : pat -> bool.
  Variable jobless : name -> bool.
  Variable local : pat.          (* the platform key 'localhost' *)
  Variable local_name : name.    (* the name 'localhost' *)

  (* `for platform_name_re in reversed(list(platforms)): if re.fullmatch(...)` *)
  Definition last_match (ps : list pdef) (n : name) : option pdef :=
    find (fun d => pmatch (d_pat d) n) (rev ps).

  (* hosts default to the platform name; the private name field *)
  Definition fill (d : pdef) (n : name) : rplat :=
    {| r_name := n;
       r_hosts := match d_hosts d with [] => [n] | l => l end;
       r_method := d_method d |}.

  (* platform_from_name after the group step *)
  Definition resolve (ps : list pdef) (n : name) : res rplat :=
    if existsb (fun d => clash (d_pat d)) ps then Err ELookup
    else match last_match ps n with
         | Some d => Ok (fill d n)
         | None =>
             if jobless n then
               match find (fun d => Nat.eqb (d_pat d) local) ps with
               | Some d => Ok {| r_name := local_name; r_hosts := d_hosts d; r_method := d_method d |}
               | None => Err ELookup
               end
             else Err ELookup
         end.

  Section Cfg.
    Variable cfg : config.

    Definition last_group (n : name) : option gdef :=
      find (fun g => gmatch (g_pat g) n) (rev (groups cfg)).

    (* platform_from_name(member) inside get_platform_from_group: a member that
       is itself the name of a group is outside the modelled fragment *)
    Definition resolve_member (m : name) : res rplat :=
      match last_group m with
      | Some _ => Err ENested
      | None => resolve (platforms cfg) m
      end.

    (* the list comprehension over group['platforms']: the first member whose
       lookup fails raises *)
    Fixpoint candidates (bad : list name) (members : list name) : res (list name) :=
      match members with
      | [] => Ok []
      | m :: r =>
          bind (resolve_member m) (fun rp =>
          bind (candidates bad r) (fun l =>
            Ok (if all_bad bad (r_hosts rp) then l else m :: l)))
      end.

    (* platform_names of get_platform_from_group, or its error *)
    Definition group_names (g : gdef) (bad : list name) : res (list name) :=
      match bad with
      | [] => match g_members g with [] => Err ENoPlatforms | l => Ok l end
      | _ => bind (candidates bad (g_members g)) (fun l =>
               match l with [] => Err ENoPlatforms | _ => Ok l end)
      end.

    (* ---- deterministic version, for an arbitrary choice function ---- *)
    Section Select.
      Variable select : list name -> name.

      Definition pick (m : method) (l : list name) : res name :=
        match m with
        | DefOrder => Ok (hd 0 l)
        | Random => Ok (select l)
        | Other => Err ECylc
        end.

      Definition get_host (rp : rplat) (bad : list name) : res name :=
        match good_hosts bad (r_hosts rp) with
        | [] => Err ENoHosts
        | l => pick (r_method rp) l
        end.

      Definition from_group (g : gdef) (bad : list name) : res name :=
        bind (group_names g bad) (pick (g_method g)).

      Definition from_name (n : name) (bad : list name) : res rplat :=
        match last_group n with
        | None => resolve (platforms cfg) n
        | Some g => bind (from_group g bad) (resolve (platforms cfg))
        end.
    End Select.

    (* ---- the set of allowed answers, for the correspondence check ---- *)
    Definition host_allowed (rp : rplat) (bad : list name) : res (list name) :=
      match good_hosts bad (r_hosts rp) with
      | [] => Err ENoHosts
      | l => pick_allowed (r_method rp) l
      end.

    Definition from_name_allowed (n : name) (bad : list name) : list (res rplat) :=
      match last_group n with
      | None => [resolve (platforms cfg) n]
      | Some g =>
          match bind (group_names g bad) (pick_allowed (g_method g)) with
          | Err e => [Err e]
          | Ok l => map (resolve (platforms cfg)) l
          end
      end.
  End Cfg.
End Platform.

(* ---------- correspondence interface ---------- *)
Definition tbl (t : list (pat * list name)) (p : pat) (n : name) : bool :=
  match assoc Nat.eqb p t with Some l => mem Nat.eqb n l | None => false end.

Definition method_eqb (a b : method) : bool :=
  match a, b with DefOrder, DefOrder | Random, Random | Other, Other => true | _, _ => false end.
Definition rplat_eqb (a b : rplat) : bool :=
  Nat.eqb (r_name a) (r_name b) && list_eqb Nat.eqb (r_hosts a) (r_hosts b)
  && method_eqb (r_method a) (r_method b).
Definition err_eqb (a b : err) : bool :=
  match a, b with
  | ELookup, ELookup | ENoPlatforms, ENoPlatforms | ENoHosts, ENoHosts
  | ECylc, ECylc | ENested, ENested => true
  | _, _ => false
  end.
Definition res_eqb {A} (eqb : A -> A -> bool) (a b : res A) : bool :=
  match a, b with
  | Ok x, Ok y => eqb x y
  | Err x, Err y => err_eqb x y
  | _, _ => false
  end.

(* is the observed answer one of the allowed ones *)
Definition host_ok (allowed : res (list name)) (obs : res name) : bool :=
  match allowed, obs with
  | Ok l, Ok h => mem Nat.eqb h l
  | Err e, Err e' => err_eqb e e'
  | _, _ => false
  end.

Record case := {
  c_cfg : config;
  c_pm : list (pat * list name);     (* pattern -> names it fully matches *)
  c_gm : list (pat * list name);
  c_clash : list pat;
  c_jobless : list name;
  c_local : pat;
  c_local_name : name;
  c_query : name;
  c_bad : list name;
  c_impl : res rplat;                (* platform_from_name(query, bad_hosts=bad) *)
  c_host : option (res name)         (* get_host_from_platform(that platform, bad) *)
}.

Definition model_out (c : case) : list (res rplat) :=
  from_name_allowed (tbl (c_pm c)) (tbl (c_gm c)) (fun p => mem Nat.eqb p (c_clash c))
    (fun n => mem Nat.eqb n (c_jobless c)) (c_local c) (c_local_name c)
    (c_cfg c) (c_query c) (c_bad c).

Definition check_case (c : case) : bool :=
  mem (res_eqb rplat_eqb) (c_impl c) (model_out c) &&
  match c_impl c, c_host c with
  | Ok rp, Some h => host_ok (host_allowed rp (c_bad c)) h
  | Ok _, None => false
  | Err _, None => true
  | Err _, Some _ => false
  end.

(* direct calls of get_host_from_platform on hand-made platform dicts *)
Record hcase := { h_plat : rplat; h_bad : list name; h_impl : res name }.
Definition h_model (c : hcase) := host_allowed (h_plat c) (h_bad c).
Definition h_check (c : hcase) : bool := host_ok (h_model c) (h_impl c).
