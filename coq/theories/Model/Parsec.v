(* Model/Parsec.v — executable model of cylc/flow/parsec/fileparse.py:
   read_and_proc (read lines, inline include-files, Jinja2, _concatenate, rstrip),
   the processed dump that parse() writes, and parse()'s line parser
   (_HEADING, _KEY_VALUE, multiline, addsect/addict) on a fragment;
   and of cylc/flow/parsec/include.py: inline.
   Hand model.  Jinja2 and the file system are oracles: the Jinja2 step is a
   function parameter [J] (the correspondence instantiates it with the recorded
   input/output of the real jinja2process), include files are a table
   name -> text.  Text is a list of Unicode code points; no carriage returns. *)
From Coq Require Import List ZArith Bool Lia.
From Cylc Require Import Base.Util.
Import ListNotations.
Open Scope Z_scope.

Definition str := list Z.
Definition str_eqb (a b : str) : bool := list_eqb Z.eqb a b.

Definition c_nl : Z := 10.
Definition c_bs : Z := 92.      (* backslash *)
Definition c_hash : Z := 35.    (* # *)
Definition c_sq : Z := 39.      (* single quote *)
Definition c_dq : Z := 34.      (* double quote *)
Definition c_lb : Z := 91.      (* [ *)
Definition c_rb : Z := 93.      (* ] *)
Definition c_eq : Z := 61.      (* = *)
Definition c_lt : Z := 60.      (* < *)
Definition c_gt : Z := 62.      (* > *)

Inductive err :=
| EContinuation       (* FileParseError: whitespace after the continuation character *)
| EIncludeQuotes      (* FileParseError: mismatched quotes *)
| EIncludeNotFound    (* IncludeFileNotFoundError *)
| EJinja              (* the Jinja2 oracle has no answer / Jinja2 raised *)
| EParse              (* FileParseError from the line parser *)
| EUnsupported        (* outside the modelled fragment of the line parser *)
| EFuel.              (* include nesting deeper than the fuel *)

Inductive res (A : Type) := Ok (a : A) | Err (e : err).
Arguments Ok {A} a. Arguments Err {A} e.
Definition rmap {A B} (f : A -> B) (r : res A) : res B :=
  match r with Ok a => Ok (f a) | Err e => Err e end.
Definition rbind {A B} (r : res A) (f : A -> res B) : res B :=
  match r with Ok a => f a | Err e => Err e end.

(* Python str.isspace / regex \s on str *)
Definition is_space (c : Z) : bool :=
  ((9 <=? c) && (c <=? 13)) || ((28 <=? c) && (c <=? 32)) || (c =? 133) || (c =? 160) ||
  (c =? 5760) || ((8192 <=? c) && (c <=? 8202)) || (c =? 8232) || (c =? 8233) ||
  (c =? 8239) || (c =? 8287) || (c =? 12288).

(* ---------- small string functions ---------- *)
Fixpoint lstrip (s : str) : str :=
  match s with c :: r => if is_space c then lstrip r else s | [] => [] end.
(* str.rstrip(): drop trailing whitespace *)
Fixpoint rstrip (s : str) : str :=
  match s with
  | [] => []
  | c :: r => match rstrip r with
              | [] => if is_space c then [] else [c]
              | r' => c :: r'
              end
  end.
Definition ends_bs (s : str) : bool := last s 0 =? c_bs.
(* remove every trailing backslash *)
Fixpoint strip_bs (s : str) : str :=
  match s with
  | [] => []
  | c :: r => match strip_bs r with
              | [] => if c =? c_bs then [] else [c]
              | r' => c :: r'
              end
  end.
Fixpoint starts_with (p s : str) : bool :=
  match p, s with
  | [], _ => true
  | a :: p', b :: s' => (a =? b) && starts_with p' s'
  | _, [] => false
  end.
Definition has_char (c : Z) (s : str) : bool := mem Z.eqb c s.

(* ---------- text <-> lines ---------- *)
(* [line.rstrip('\n') for line in f] *)
Fixpoint split_acc (cur : str) (s : str) : list str :=
  match s with
  | [] => match cur with [] => [] | _ => [rev cur] end
  | c :: r => if c =? c_nl then rev cur :: split_acc [] r else split_acc (c :: cur) r
  end.
Definition split_lines (s : str) : list str := split_acc [] s.

(* '\n'.join(flines) + '\n' *)
Definition dump (l : list str) : str :=
  match l with
  | [] => [c_nl]
  | _ => flat_map (fun x => x ++ [c_nl]) l
  end.

(* ---------- include.py: inline ---------- *)
(* include_re: whitespace, %include, whitespace+, optional quote q1, shortest match,
   optional quote q2, whitespace, end of line  : Some (q1, match, q2) *)
Definition txt_include : str := [37;105;110;99;108;117;100;101].   (* %include *)
Definition is_quote (c : Z) : bool := (c =? c_sq) || (c =? c_dq).
Definition drop (n : nat) (s : str) : str := skipn n s.

Definition include_match (line : str) : option (Z * str * Z) :=
  let l1 := lstrip line in
  if starts_with txt_include l1 then
    let l2 := drop 8 l1 in
    match l2 with
    | c :: _ =>
        if is_space c then
          let l3 := lstrip l2 in
          let '(q1, l4) := match l3 with
                           | q :: r => if is_quote q then (q, r) else (0, l3)
                           | [] => (0, l3)
                           end in
          let r := rstrip l4 in
          let lastc := last r 0 in
          if (match r with [] => false | _ => is_quote lastc end)
          then Some (q1, removelast r, lastc)
          else Some (q1, r, 0)
        else None
    | [] => None
    end
  else None.

Definition files := list (str * str).      (* include-file name -> text *)

Fixpoint inline (fuel : nat) (fs : files) (lines : list str) : res (list str) :=
  match fuel with
  | O => Err EFuel
  | S f =>
      (fix go (ls : list str) : res (list str) :=
         match ls with
         | [] => Ok []
         | line :: rest =>
             match include_match line with
             | None => rmap (cons line) (go rest)
             | Some (q1, name, q2) =>
                 if negb (q1 =? 0) && negb (q1 =? q2) then Err EIncludeQuotes
                 else
                   match assoc str_eqb name fs with
                   | None => Err EIncludeNotFound
                   | Some text =>
                       rbind (inline f fs (split_lines text)) (fun inc =>
                       rmap (app inc) (go rest))
                   end
             end
         end) lines
  end.

(* ---------- Jinja2 ---------- *)
(* re.match(r'^#![jJ]inja2\s*', flines[0]) *)
Definition is_jinja_shebang (l : str) : bool :=
  starts_with [35;33;106;105;110;106;97;50] l || starts_with [35;33;74;105;110;106;97;50] l.

Definition jinja_step (J : list str -> option (list str)) (lines : list str) : res (list str) :=
  match lines with
  | first :: _ =>
      if is_jinja_shebang first then
        match J lines with Some out => Ok out | None => Err EJinja end
      else Ok lines
  | [] => Ok lines
  end.

(* ---------- _concatenate ---------- *)
(* _BAD_CONTINUATION_TRAILING_WHITESPACE = ^([^#\n]+)?\\\s+$ :
   the line is X \ W with W non-empty whitespace and no '#' in X *)
Definition bad_continuation (l : str) : bool :=
  let body := rstrip l in
  negb (Nat.eqb (List.length body) (List.length l)) &&
  ends_bs body && negb (has_char c_hash (removelast body)).

Fixpoint cat (pending : option str) (lines : list str) : res (list str) :=
  match lines with
  | [] => match pending with None => Ok [] | Some p => Ok [strip_bs p] end
  | l :: r =>
      let start := fun _ : unit =>
        if bad_continuation l then Err EContinuation else cat (Some l) r in
      match pending with
      | None => start tt
      | Some p =>
          if ends_bs p then cat (Some (removelast p ++ l)) r
          else rmap (cons p) (start tt)
      end
  end.
Definition concatenate (lines : list str) : res (list str) := cat None lines.

(* ---------- read_and_proc ---------- *)
Definition proc_lines (fuel : nat) (fs : files) (J : list str -> option (list str))
  (lines : list str) : res (list str) :=
  rbind (inline fuel fs lines) (fun l1 =>
  rbind (jinja_step J l1) (fun l2 =>
  rmap (map rstrip) (concatenate l2))).

Definition read_and_proc (fuel : nat) (fs : files) (J : list str -> option (list str))
  (text : str) : res (list str) :=
  proc_lines fuel fs J (split_lines text).

(* ---------- the line parser of parse() (fragment) ---------- *)
Inductive node := Leaf (v : str) | Sect (items : list (str * node)).

(* set cfig[parents...][key] = n ; replace = false means "only if absent" (addsect) *)
Fixpoint set_item (items : list (str * node)) (key : str) (n : node) (replace : bool)
  : list (str * node) :=
  match items with
  | [] => [(key, n)]
  | (k, v) :: r =>
      if str_eqb k key then (if replace then (k, n) :: r else items)
      else (k, v) :: set_item r key n replace
  end.

Fixpoint set_path (items : list (str * node)) (parents : list str) (key : str)
  (n : node) (replace : bool) : res (list (str * node)) :=
  match parents with
  | [] => Ok (set_item items key n replace)
  | p :: ps =>
      (fix walk (its : list (str * node)) : res (list (str * node)) :=
         match its with
         | [] => Err EUnsupported               (* KeyError: cannot happen from parse() *)
         | (k, v) :: r =>
             if str_eqb k p then
               match v with
               | Sect sub => rmap (fun sub' => (k, Sect sub') :: r) (set_path sub ps key n replace)
               | Leaf _ => if replace then Err EParse else Err EUnsupported
                           (* addict: already encountered; addsect: TypeError *)
               end
             else rmap (cons (k, v)) (walk r)
         end) items
  end.

Definition is_ascii_word (c : Z) : bool :=
  ((48 <=? c) && (c <=? 57)) || ((65 <=? c) && (c <=? 90)) || ((97 <=? c) && (c <=? 122)) || (c =? 95).
(* the key character class: word characters and + - : . , ! / ( ) ^ $ space.  Word
   characters beyond ASCII are only known for a few letters (233, 223, 26085, 26412);
   any other non-ASCII character in key position makes the line Unsupported *)
Definition known_letter (c : Z) : bool := (c =? 233) || (c =? 223) || (c =? 26085) || (c =? 26412).
Definition is_key_char (c : Z) : bool :=
  is_ascii_word c || known_letter c ||
  (c =? 43) || (c =? 45) || (c =? 58) || (c =? 46) || (c =? 44) || (c =? 33) ||
  (c =? 47) || (c =? 40) || (c =? 41) || (c =? 94) || (c =? 36) || (c =? 32).

(* after a closing triple quote: optional whitespace, then end of line or a comment *)
Definition comment_or_end (s : str) : bool :=
  match lstrip s with [] => true | c :: _ => c =? c_hash end.

(* does [s] contain [q q q] followed by whitespace and end-or-comment; does it contain q q q at all *)
Fixpoint closes (q : Z) (s : str) : bool :=
  match s with
  | [] => false
  | c :: r => (starts_with [q; q; q] s && comment_or_end (drop 3 s)) || closes q r
  end.
Fixpoint has_triple (q : Z) (s : str) : bool :=
  match s with
  | [] => false
  | c :: r => starts_with [q; q; q] s || has_triple q r
  end.

(* _HEADING: indentation, a run of '[', whitespace, the shortest non-empty name,
   whitespace, a run of ']', whitespace, end-or-comment -> (open count, name, close count) *)
Fixpoint count_run (c : Z) (s : str) : nat * str :=
  match s with
  | x :: r => if x =? c then let '(n, t) := count_run c r in (S n, t) else (O, s)
  | [] => (O, [])
  end.
Definition heading_tail (s : str) : option nat :=
  let '(n, t) := count_run c_rb (lstrip s) in
  match n with
  | O => None
  | _ => if comment_or_end t then Some n else None
  end.
(* shortest non-empty name such that the rest is a heading tail *)
Fixpoint heading_name (acc : str) (s : str) : option (str * nat) :=
  match s with
  | [] => None
  | c :: r =>
      match heading_tail r with
      | Some n => Some (rev (c :: acc), n)
      | None => heading_name (c :: acc) r
      end
  end.

Inductive lineclass :=
| LSkip
| LHeading (nopen : nat) (name : str) (nclose : nat)
| LItem (key value : str)
| LInvalid
| LUnsupported.

(* key: the run of key characters after the indentation, without its trailing
   spaces, optionally followed by whitespace and <parameters>, then whitespace and '=' *)
Fixpoint key_run (s : str) : str * str :=
  match s with
  | c :: r => if is_key_char c then let '(k, t) := key_run r in (c :: k, t) else ([], s)
  | [] => ([], [])
  end.
Fixpoint span_ws (s : str) : str * str :=
  match s with
  | c :: r => if is_space c then let '(w, t) := span_ws r in (c :: w, t) else ([], s)
  | [] => ([], [])
  end.
Definition starts_eq (s : str) : bool :=
  match lstrip s with c :: _ => c =? c_eq | [] => false end.
(* [s] starts with '<': the shortest <...> after which whitespace and '=' follow *)
Fixpoint param_end (s : str) : option (str * str) :=
  match s with
  | [] => None
  | c :: r =>
      if (c =? c_gt) && starts_eq r then Some ([c], r)
      else match param_end r with
           | Some (p, rest) => Some (c :: p, rest)
           | None => None
           end
  end.

Definition classify (line : str) : lineclass :=
  let l1 := lstrip line in
  match l1 with
  | [] => LSkip
  | c :: _ =>
      if c =? c_hash then LSkip
      else if c =? c_lb then
        let '(nopen, t) := count_run c_lb l1 in
        match heading_name [] (lstrip t) with
        | Some (name, nclose) =>
            match rstrip name with
            | [] => LUnsupported
            | nm => LHeading nopen nm nclose
            end
        | None =>
            (* no ']' at all: neither a heading nor (as '[' is no key character) an item;
               otherwise the regex could still backtrack in ways not modelled *)
            if has_char c_rb l1 then LUnsupported else LInvalid
        end
      else
        let '(k, t) := key_run l1 in
        let '(w, t1) := span_ws t in
        match t1 with
        | x :: v =>
            if x =? c_eq then
              match rstrip k with
              | [] => LUnsupported
              | key => LItem key (lstrip v)
              end
            else if x =? c_lt then
              match rstrip k, param_end t1 with
              | [], _ => LUnsupported
              | _, None => LInvalid
              | _, Some (p, rest) =>
                  match lstrip rest with
                  | _ :: v' => LItem (k ++ w ++ p) (lstrip v')
                  | [] => LInvalid
                  end
              end
            else if x <? 128 then LInvalid else LUnsupported
        | [] => LInvalid
        end
  end.

(* multiline(): consume the lines of a triple-quoted value.
   Returns the value and the remaining lines. *)
Fixpoint multi_rest (q : Z) (acc : str) (lines : list str) : res (str * list str) :=
  match lines with
  | [] => Err EParse                               (* Multiline string not closed *)
  | l :: r =>
      if has_triple q l then
        if closes q l then Ok (acc ++ [c_nl] ++ l, r) else Err EParse
      else multi_rest q (acc ++ [c_nl] ++ l) r
  end.

Definition item_value (v : str) (rest : list str) : res (str * list str) :=
  match v with
  | q :: _ =>
      if is_quote q && starts_with [q; q; q] v then
        let body := drop 3 v in
        if closes q body then Ok (v, rest)                   (* single-line triple quoted *)
        else if has_triple q body then Err EParse            (* Invalid line *)
        else multi_rest q v rest
      else Ok (v, rest)
  | [] => Ok (v, rest)
  end.

Definition graph_section (parents : list str) : bool :=
  match parents with
  | a :: b :: _ =>
      str_eqb a [115;99;104;101;100;117;108;105;110;103] &&           (* scheduling *)
      (str_eqb b [103;114;97;112;104] ||                              (* graph *)
       str_eqb b [100;101;112;101;110;100;101;110;99;105;101;115])    (* dependencies *)
  | _ => false
  end.

Fixpoint has_key (items : list (str * node)) (parents : list str) (key : str) : bool :=
  match parents with
  | [] => match assoc str_eqb key items with Some _ => true | None => false end
  | p :: ps =>
      match assoc str_eqb p items with
      | Some (Sect sub) => has_key sub ps key
      | _ => false
      end
  end.

(* the main loop of parse(); fuel bounds the number of lines *)
Fixpoint parse_loop (fuel : nat) (lines : list str) (level : nat) (parents : list str)
  (cfg : list (str * node)) : res (list (str * node)) :=
  match fuel with
  | O => Err EFuel
  | S f =>
      match lines with
      | [] => Ok cfg
      | line :: rest =>
          match classify line with
          | LSkip => parse_loop f rest level parents cfg
          | LUnsupported => Err EUnsupported
          | LInvalid => Err EParse
          | LHeading nb name nc =>
              if negb (Nat.eqb nb nc) then Err EParse
              else
                let newparents :=
                  if Nat.eqb nb level then Some (removelast parents ++ [name])
                  else if Nat.eqb nb (S level) then Some (parents ++ [name])
                  else if Nat.ltb nb level
                       then Some (firstn (List.length parents - (level - nb) - 1) parents ++ [name])
                  else None in
                match newparents with
                | None => Err EParse
                | Some ps =>
                    match set_path cfg (removelast ps) name (Sect []) false with
                    | Ok cfg' => parse_loop f rest nb ps cfg'
                    | Err e => Err e
                    end
                end
          | LItem key v =>
              match item_value v rest with
              | Err e => Err e
              | Ok (value, rest') =>
                  if graph_section parents && has_key cfg parents key
                  then Err EUnsupported
                  else
                    match set_path cfg parents key (Leaf value) true with
                    | Ok cfg' => parse_loop f rest' level parents cfg'
                    | Err e => Err e
                    end
              end
          end
      end
  end.

Definition parse_lines (lines : list str) : res (list (str * node)) :=
  parse_loop (S (List.length lines)) lines 0 [] [].

(* parse(fpath) = parse_lines (read_and_proc fpath) *)
Definition parse (fuel : nat) (fs : files) (J : list str -> option (list str)) (text : str)
  : res (list (str * node)) :=
  rbind (read_and_proc fuel fs J text) parse_lines.

(* ---------- canonical form for comparison ---------- *)
Fixpoint node_eqb (fuel : nat) (a b : node) : bool :=
  match fuel with
  | O => false
  | S f =>
      match a, b with
      | Leaf x, Leaf y => str_eqb x y
      | Sect xs, Sect ys =>
          list_eqb (fun p q => str_eqb (fst p) (fst q) && node_eqb f (snd p) (snd q)) xs ys
      | _, _ => false
      end
  end.
Definition cfg_eqb (a b : list (str * node)) : bool := node_eqb 64 (Sect a) (Sect b).

Definition err_eqb (a b : err) : bool :=
  match a, b with
  | EContinuation, EContinuation | EIncludeQuotes, EIncludeQuotes
  | EIncludeNotFound, EIncludeNotFound | EJinja, EJinja | EParse, EParse
  | EUnsupported, EUnsupported | EFuel, EFuel => true
  | _, _ => false
  end.

Definition res_eqb {A} (eqb : A -> A -> bool) (a b : res A) : bool :=
  match a, b with
  | Ok x, Ok y => eqb x y
  | Err e, Err e' => err_eqb e e'
  | _, _ => false
  end.

(* ---------- correspondence interface ---------- *)
Record case := {
  c_text : str;                                   (* the source file *)
  c_files : files;                                (* include files *)
  c_jinja : list (list str * list str);           (* recorded jinja2process input -> output *)
  c_lines1 : res (list str);                      (* real read_and_proc(source) *)
  c_lines2 : option (res (list str));             (* real read_and_proc(processed dump), if written *)
  c_cfg1 : option (res (list (str * node)));      (* real parse(source); None = not compared *)
  c_cfg2 : option (res (list (str * node)))       (* real parse(dump) *)
}.

Definition lines_eqb (a b : list str) : bool := list_eqb str_eqb a b.
Definition J_of (tbl : list (list str * list str)) (l : list str) : option (list str) :=
  assoc lines_eqb l tbl.

Definition model_lines1 (c : case) := read_and_proc 8 (c_files c) (J_of (c_jinja c)) (c_text c).
Definition model_lines2 (c : case) :=
  match model_lines1 c with
  | Ok l => Some (read_and_proc 8 (c_files c) (J_of (c_jinja c)) (dump l))
  | Err _ => None
  end.
Definition model_out (c : case) :=
  (model_lines1 c, model_lines2 c, rbind (model_lines1 c) parse_lines,
   match model_lines2 c with Some r => Some (rbind r parse_lines) | None => None end).

Definition cfg_agrees (m : res (list (str * node))) (impl : option (res (list (str * node)))) : bool :=
  match impl with
  | None => true
  | Some r =>
      match m with
      | Err EUnsupported => true           (* outside the modelled parser fragment *)
      | _ => res_eqb cfg_eqb m r
      end
  end.

Definition check_case (c : case) : bool :=
  res_eqb lines_eqb (model_lines1 c) (c_lines1 c) &&
  option_eqb (res_eqb lines_eqb) (model_lines2 c) (c_lines2 c) &&
  cfg_agrees (rbind (model_lines1 c) parse_lines) (c_cfg1 c) &&
  match model_lines2 c with
  | Some r => cfg_agrees (rbind r parse_lines) (c_cfg2 c)
  | None => true
  end.

(* statistics helper: is the source's configuration inside the parser fragment? *)
Definition parser_supported (c : case) : bool :=
  match rbind (model_lines1 c) parse_lines with
  | Err EUnsupported => false
  | _ => true
  end.
