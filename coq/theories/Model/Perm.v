(* Model/Perm.v — executable model of the file-permission effects of scheduler
   start-up on the private files (C44):
     * WorkflowDatabaseManager.on_workflow_start + copy_pri_to_pub
       (cylc/flow/workflow_db_mgr.py),
     * authentication.key_housekeeping = remove_keys_on_server +
       create_server_keys (cylc/flow/workflow_files.py).
   Only permission bits are modelled: a file is `Some mode` or `None` (absent).
   POSIX semantics used: open(O_CREAT, req) on a missing file creates it with
   mode `req land (lnot umask)`; on an existing file the mode is unchanged;
   chmod sets the mode whatever the umask; rename carries the mode along.
   Hand model, tied to the source by the C44 correspondence stream; the two
   literals come from Gen/PermConsts.v (regenerated from /repo on every run). *)
From Coq Require Import List ZArith Bool.
From Cylc Require Import Base.Util Gen.PermConsts.
Import ListNotations.
Open Scope Z_scope.

Inductive file :=
  | DbPri   (* .service/db                        — private run database *)
  | DbPub   (* log/db                             — public copy *)
  | DbTmp   (* mkstemp() file of copy_pri_to_pub *)
  | SrvPub  (* .service/server.key *)
  | SrvSec  (* .service/server.key_secret         — server private key *)
  | CliSec  (* .service/client.key_secret         — client private key *)
  | CliPub. (* .service/client_public_keys/client[_target].key *)

Definition file_eqb (a b : file) : bool :=
  match a, b with
  | DbPri, DbPri | DbPub, DbPub | DbTmp, DbTmp | SrvPub, SrvPub
  | SrvSec, SrvSec | CliSec, CliSec | CliPub, CliPub => true
  | _, _ => false
  end.

(* permission bits of each file, None = absent *)
Record files := {
  f_dbpri : option Z; f_dbpub : option Z; f_dbtmp : option Z; f_srvpub : option Z;
  f_srvsec : option Z; f_clisec : option Z; f_clipub : option Z
}.

Definition get (m : files) (f : file) : option Z :=
  match f with
  | DbPri => f_dbpri m | DbPub => f_dbpub m | DbTmp => f_dbtmp m | SrvPub => f_srvpub m
  | SrvSec => f_srvsec m | CliSec => f_clisec m | CliPub => f_clipub m
  end.

Definition upd (f : file) (v : option Z) (m : files) : files :=
  let w g := if file_eqb g f then v else get m g in
  {| f_dbpri := w DbPri; f_dbpub := w DbPub; f_dbtmp := w DbTmp; f_srvpub := w SrvPub;
     f_srvsec := w SrvSec; f_clisec := w CliSec; f_clipub := w CliPub |}.

Record state := {
  fmodes : files;
  umask : Z;                  (* process umask *)
  saved_umask : Z;            (* local `old_umask` of create_server_keys *)
  saved_mode : option Z       (* local `st_mode` of copy_pri_to_pub *)
}.

Definition modes (s : state) (f : file) : option Z := get (fmodes s) f.

Definition set_modes (s : state) (m : files) : state :=
  {| fmodes := m; umask := umask s; saved_umask := saved_umask s; saved_mode := saved_mode s |}.

(* mode of a file created by open(..., O_CREAT, req) under [u] *)
Definition mode_after_open (u req : Z) : Z := Z.land req (Z.lnot u).

Inductive op :=
  | Unlink (f : file)                 (* os.unlink / os.remove / rmtree: file gone *)
  | OpenCreate (f : file) (req : Z)   (* open(f, O_CREAT, req): create if missing *)
  | MkTemp (f : file)                 (* mkstemp: fresh file, mode 0o600 whatever the umask *)
  | Chmod (f : file) (m : Z)          (* os.chmod(f, m) *)
  | StatMode (f : file)               (* st_mode = os.stat(f).st_mode *)
  | ChmodSaved (f : file)             (* os.chmod(f, st_mode) *)
  | CopyFile (src dst : file) (req : Z) (* shutil.copyfile: open(dst,'wb') — content only *)
  | CopyMode (src dst : file)         (* shutil.copymode (second half of shutil.copy) *)
  | Rename (src dst : file)           (* os.rename: dst replaced by src, src gone *)
  | SetUmask (m : Z)                  (* old_umask = os.umask(m) *)
  | RestoreUmask.                     (* os.umask(old_umask) *)

Definition create_if_missing (s : state) (f : file) (req : Z) : state :=
  match modes s f with
  | Some _ => s
  | None => set_modes s (upd f (Some (mode_after_open (umask s) req)) (fmodes s))
  end.

Definition step (s : state) (o : op) : state :=
  match o with
  | Unlink f => set_modes s (upd f None (fmodes s))
  | OpenCreate f req => create_if_missing s f req
  | MkTemp f => set_modes s (upd f (Some 384) (fmodes s))
  | Chmod f m =>
      match modes s f with
      | Some _ => set_modes s (upd f (Some m) (fmodes s))
      | None => s           (* would raise; never happens in the sequences below *)
      end
  | StatMode f =>
      {| fmodes := fmodes s; umask := umask s; saved_umask := saved_umask s;
         saved_mode := modes s f |}
  | ChmodSaved f =>
      match modes s f, saved_mode s with
      | Some _, Some m => set_modes s (upd f (Some m) (fmodes s))
      | _, _ => s
      end
  | CopyFile _ dst req => create_if_missing s dst req
  | CopyMode src dst =>
      match modes s src, modes s dst with
      | Some m, Some _ => set_modes s (upd dst (Some m) (fmodes s))
      | _, _ => s
      end
  | Rename src dst =>
      set_modes s (upd src None (upd dst (modes s src) (fmodes s)))
  | SetUmask m =>
      {| fmodes := fmodes s; umask := m; saved_umask := umask s; saved_mode := saved_mode s |}
  | RestoreUmask =>
      {| fmodes := fmodes s; umask := saved_umask s; saved_umask := saved_umask s;
         saved_mode := saved_mode s |}
  end.

Definition run (ops : list op) (s : state) : state := fold_left step ops s.

(* ---- the operation sequences the code performs ---- *)

(* on_workflow_start(is_restart) followed by copy_pri_to_pub.
   [req_db]: creation mode sqlite3 asks for (external; 0o644 in practice),
   [req_py]: creation mode of Python's open() (external; 0o666). *)
Definition db_seq (is_restart : bool) (req_db req_py : Z) : list op :=
  (if is_restart then [] else [Unlink DbPri]) ++
  [ OpenCreate DbPri req_db;          (* get_pri_dao(): sqlite creates the file *)
    Chmod DbPri PERM_PRIVATE;         (* os.chmod(self.pri_path, PERM_PRIVATE) *)
    (* copy_pri_to_pub *)
    MkTemp DbTmp;
    OpenCreate DbPub req_py;          (* open(pub, "a").close() *)
    StatMode DbPub;
    CopyFile DbPri DbTmp req_py;      (* shutil.copy = copyfile + copymode *)
    CopyMode DbPri DbTmp;
    Rename DbTmp DbPub;
    ChmodSaved DbPub ].

(* key_housekeeping(create=True): remove_keys_on_server; create_server_keys *)
Definition keys_seq (req_py : Z) : list op :=
  [ Unlink CliPub; Unlink CliSec; Unlink SrvPub; Unlink SrvSec;
    SetUmask KEY_UMASK;
    OpenCreate SrvPub req_py;         (* zmq.auth.create_certificates *)
    OpenCreate SrvSec req_py;
    CopyFile SrvSec CliSec req_py;    (* shutil.copyfile(server private, client private) *)
    CopyFile SrvPub CliPub req_py;
    RestoreUmask ].

(* Scheduler.install() creates the keys, Scheduler.configure() the databases *)
Definition startup_seq (is_restart : bool) (req_db req_py : Z) : list op :=
  keys_seq req_py ++ db_seq is_restart req_db req_py.

Definition private_files : list file := [DbPri; SrvSec; CliSec].

(* "not readable or writable (or executable) by group or other" *)
Definition go_bits : Z := 63.   (* 0o077 *)
Definition owner_only (m : Z) : bool := Z.land m go_bits =? 0.
Definition file_private (s : state) (f : file) : bool :=
  match modes s f with Some m => owner_only m | None => false end.

(* ---- correspondence interface ---- *)
Definition observed : list file := [DbPri; DbPub; SrvPub; SrvSec; CliSec; CliPub].

Definition init_state (u : Z) (init : list (option Z)) : state :=
  {| fmodes :=
       {| f_dbpri := nth 0 init None; f_dbpub := nth 1 init None; f_dbtmp := None;
          f_srvpub := nth 2 init None; f_srvsec := nth 3 init None;
          f_clisec := nth 4 init None; f_clipub := nth 5 init None |};
     umask := u; saved_umask := 0; saved_mode := None |}.

Record case := {
  c_umask : Z;
  c_restart : bool;
  c_init : list (option Z);        (* modes of [observed] before start-up *)
  c_impl : list (option Z);        (* modes of [observed] after start-up (implementation) *)
  c_impl_umask : Z                 (* process umask after start-up (implementation) *)
}.

Definition sqlite_req : Z := 420.  (* 0o644, SQLITE_DEFAULT_FILE_PERMISSIONS *)
Definition python_req : Z := 438.  (* 0o666, CPython open() *)

Definition model_out (c : case) : list (option Z) * Z :=
  let s := run (startup_seq (c_restart c) sqlite_req python_req)
               (init_state (c_umask c) (c_init c)) in
  (map (modes s) observed, umask s).

Definition check_case (c : case) : bool :=
  let '(ms, u) := model_out c in
  list_eqb (option_eqb Z.eqb) ms (c_impl c) && (u =? c_impl_umask c).
