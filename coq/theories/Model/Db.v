(* Model/Db.v — executable model of the run-database write path:
   cylc/flow/rundb.py  (CylcWorkflowDAOTable.add_delete_item / add_insert_item /
   add_update_item, CylcWorkflowDAO.execute_queued_items / _execute_stmt,
   n_tries, MAX_TRIES) and cylc/flow/workflow_db_mgr.py
   (WorkflowDatabaseManager.process_queued_ops, recover_pub_from_pri,
   copy_pri_to_pub).  Hand model, tied to the source by the C21 correspondence
   stream (real DAO/manager on temporary sqlite files with fault injection).

   Abstractions: tables are numbered by their position in
   sorted(TABLES_ATTRS); columns by position; cell values are [option Z]
   (None = SQL NULL; the harness maps Z to a value of the column's declared
   type, so sqlite's type affinity never converts anything).  Only the
   (set_args, where_args) form of update items is modelled, and updates do not
   assign primary-key columns (no caller in workflow_db_mgr does), so that an
   SQL statement can only fail for an external reason (lock, I/O, crash): the
   [fault] argument of [exec_queued]. *)
From Coq Require Import List Bool Arith ZArith Lia.
From Cylc Require Import Base.Util.
Import ListNotations.

Definition val := option Z.
Definition row := list val.
Definition table := list row.          (* a bag of rows; order is irrelevant *)
Definition db := list table.           (* indexed by table number *)
Definition tschema := (nat * list nat)%type.   (* number of columns, primary-key columns *)
Definition schema := list tschema.

(* the string 'CYLC_TEMPLATE_VARS' that _execute_stmt filters on *)
Definition magic : Z := (-1)%Z.

(* SQL `==`: NULL equals nothing *)
Definition veq (a b : val) : bool :=
  match a, b with Some x, Some y => Z.eqb x y | _, _ => false end.
(* structural equality (used to compare with the observed table contents) *)
Definition val_eqb (a b : val) : bool := option_eqb Z.eqb a b.
Definition row_eqb (a b : row) : bool := list_eqb val_eqb a b.

Fixpoint upd_nth {A} (n : nat) (f : A -> A) (l : list A) : list A :=
  match l, n with
  | [], _ => []
  | x :: r, 0 => f x :: r
  | x :: r, S n' => x :: upd_nth n' f r
  end.
Definition set_nth {A} (n : nat) (a : A) (l : list A) : list A := upd_nth n (fun _ => a) l.

(* ---------- single-row SQL statements ---------- *)
Inductive pkind :=
| PDel (cols : list nat) (args : list val)          (* DELETE FROM t WHERE c1==? AND ... *)
| PIns (r : row)                                     (* INSERT OR REPLACE INTO t VALUES(...) *)
| PUpd (scols wcols : list nat) (args : list val).  (* UPDATE t SET s1=?,.. WHERE w1==? AND .. *)
Definition prim := (nat * pkind)%type.               (* table number, statement *)

Definition cell (c : nat) (r : row) : val := nth c r None.
Definition match_where (cols : list nat) (args : list val) (r : row) : bool :=
  forallb (fun ca => veq (cell (fst ca) r) (snd ca)) (combine cols args).
Definition pk_conflict (pk : list nat) (r r' : row) : bool :=
  forallb (fun c => veq (cell c r) (cell c r')) pk.
Definition set_cols (scols : list nat) (sargs : list val) (r : row) : row :=
  fold_left (fun r ca => set_nth (fst ca) (snd ca) r) (combine scols sargs) r.

Definition apply_tbl (ts : tschema) (t : table) (p : pkind) : table :=
  match p with
  | PDel cols args => filter (fun r => negb (match_where cols args r)) t
  | PIns r =>
      match snd ts with
      | [] => t ++ [r]
      | pk => filter (fun r' => negb (pk_conflict pk r' r)) t ++ [r]
      end
  | PUpd sc wc args =>
      let sargs := firstn (length sc) args in
      let wargs := skipn (length sc) args in
      map (fun r => if match_where wc wargs r then set_cols sc sargs r else r) t
  end.

Definition tschema_of (sch : schema) (t : nat) : tschema := nth t sch (0, []).
Definition apply_prim (sch : schema) (d : db) (p : prim) : db :=
  upd_nth (fst p) (fun t => apply_tbl (tschema_of sch (fst p)) t (snd p)) d.
Definition run (sch : schema) (d : db) (ps : list prim) : db :=
  fold_left (apply_prim sch) ps d.

(* ---------- executemany statements, as built by execute_queued_items ---------- *)
Inductive skind := SDel (cols : list nat) | SIns | SUpd (scols wcols : list nat).
Record stmt := { s_tbl : nat; s_kind : skind; s_args : list (list val) }.

Definition is_magic_row (a : list val) : bool :=
  match a with Some z :: _ => Z.eqb z magic | _ => false end.
(* `if stmt_args_list and stmt_args_list[0]: keep i if i[0] != 'CYLC_TEMPLATE_VARS'` *)
Definition filter_args (l : list (list val)) : list (list val) :=
  match l with
  | (_ :: _) :: _ => filter (fun a => negb (is_magic_row a)) l
  | _ => l
  end.
Definition prim_of (k : skind) (a : list val) : pkind :=
  match k with SDel c => PDel c a | SIns => PIns a | SUpd s w => PUpd s w a end.
Definition flat_stmt (s : stmt) : list prim :=
  map (fun a => (s_tbl s, prim_of (s_kind s) a)) (filter_args (s_args s)).
Definition flat (ss : list stmt) : list prim := flat_map flat_stmt ss.

(* ---------- per-table queues (CylcWorkflowDAOTable) ---------- *)
Record tqueue := {
  q_del : list (list nat * list (list val));              (* delete_queues: stmt -> args list *)
  q_ins : list row;                                        (* insert_queue *)
  q_upd : list ((list nat * list nat) * list (list val))  (* update_queues: stmt -> args list *)
}.
Definition queues := list tqueue.
Definition tq_empty : tqueue := {| q_del := []; q_ins := []; q_upd := [] |}.

(* dict keyed by statement text, in first-insertion order *)
Fixpoint aq_add {K} (eqb : K -> K -> bool) (k : K) (a : list val)
         (q : list (K * list (list val))) : list (K * list (list val)) :=
  match q with
  | [] => [(k, [a])]
  | (k', l) :: r => if eqb k k' then (k', l ++ [a]) :: r else (k', l) :: aq_add eqb k a r
  end.

(* database operations as queued by the manager (table, dicts keyed by column number) *)
Inductive op :=
| ODel (t : nat) (w : list (nat * val))
| OInsL (t : nat) (l : list val)
| OInsD (t : nat) (d : list (nat * val))
| OUpd (t : nat) (s w : list (nat * val)).
Definition op_tbl (o : op) : nat :=
  match o with ODel t _ | OInsL t _ | OInsD t _ | OUpd t _ _ => t end.

(* `for column in self.columns: if column.name in args` *)
Definition dict_cols (ncols : nat) (d : list (nat * val)) : list nat :=
  filter (fun c => mem Nat.eqb c (map fst d)) (seq 0 ncols).
Definition dict_get (d : list (nat * val)) (c : nat) : val :=
  match assoc Nat.eqb c d with Some v => v | None => None end.
Definition key2_eqb (a b : list nat * list nat) : bool :=
  list_eqb Nat.eqb (fst a) (fst b) && list_eqb Nat.eqb (snd a) (snd b).

Definition enq_tbl (ncols : nat) (o : op) (q : tqueue) : tqueue :=
  match o with
  | ODel _ w =>
      let cs := dict_cols ncols w in
      {| q_del := aq_add (list_eqb Nat.eqb) cs (map (dict_get w) cs) (q_del q);
         q_ins := q_ins q; q_upd := q_upd q |}
  | OInsL _ l =>
      {| q_del := q_del q;
         q_ins := q_ins q ++ [firstn ncols (l ++ repeat None (ncols - length l))];
         q_upd := q_upd q |}
  | OInsD _ d =>
      {| q_del := q_del q;
         q_ins := q_ins q ++ [map (dict_get d) (seq 0 ncols)];
         q_upd := q_upd q |}
  | OUpd _ s w =>
      let sc := dict_cols ncols s in
      let wc := dict_cols ncols w in
      {| q_del := q_del q; q_ins := q_ins q;
         q_upd := aq_add key2_eqb (sc, wc) (map (dict_get s) sc ++ map (dict_get w) wc) (q_upd q) |}
  end.

Definition enq (sch : schema) (qs : queues) (o : op) : queues :=
  upd_nth (op_tbl o) (enq_tbl (fst (tschema_of sch (op_tbl o))) o) qs.
Definition enq_all (sch : schema) (qs : queues) (ops : list op) : queues :=
  fold_left (enq sch) ops qs.

(* sql_queue of execute_queued_items: per table (sorted), deletes by statement,
   one insert statement, updates by statement *)
Definition tq_stmts (t : nat) (q : tqueue) : list stmt :=
  map (fun ka => {| s_tbl := t; s_kind := SDel (fst ka); s_args := snd ka |}) (q_del q)
  ++ (match q_ins q with [] => [] | l => [{| s_tbl := t; s_kind := SIns; s_args := l |}] end)
  ++ map (fun ka => {| s_tbl := t; s_kind := SUpd (fst (fst ka)) (snd (fst ka)); s_args := snd ka |})
         (q_upd q).
Fixpoint stmts_from (t : nat) (qs : queues) : list stmt :=
  match qs with [] => [] | q :: r => tq_stmts t q ++ stmts_from (S t) r end.
Definition stmts (qs : queues) : list stmt := stmts_from 0 qs.

(* ---------- the data access object ---------- *)
Record dao := { d_db : db; d_q : queues; d_tries : nat }.
Inductive outcome := OOk | ONoop | ORaised | ORetry.

(* A fault (k, j): the k-th _execute_stmt call of this execute_queued_items
   raises sqlite3.Error after j of its rows were executed (k = number of
   statements: the commit raises).  [exec_loop] is the `for stmt, stmt_args in
   sql_queue: self._execute_stmt(...)` loop followed by `self.conn.commit()`
   on the connection's working copy [w] of the database; it returns the
   working copy and whether the fault fired. *)
Definition fault := option (nat * nat).

Fixpoint exec_loop (sch : schema) (w : db) (ss : list stmt) (k j : nat) : db * bool :=
  match ss with
  | [] => (w, Nat.eqb k 0)                       (* commit *)
  | s :: r =>
      match k with
      | 0 => (run sch w (firstn j (flat_stmt s)), true)
      | S k' => exec_loop sch (run sch w (flat_stmt s)) r k' j
      end
  end.

Definition exec_txn (sch : schema) (d : db) (ss : list stmt) (f : fault) : db * bool :=
  match f with
  | None => (run sch d (flat ss), false)
  | Some (k, j) => exec_loop sch d ss k j
  end.

Definition clear_queues (qs : queues) : queues := map (fun _ => tq_empty) qs.

Definition exec_queued (sch : schema) (is_public : bool) (f : fault) (d : dao)
  : dao * outcome :=
  match stmts (d_q d) with
  | [] => (d, ONoop)              (* nothing executed: `if self.conn is None: return` *)
  | ss =>
      let '(w, failed) := exec_txn sch (d_db d) ss f in
      if failed then
        (* the working copy is discarded: rollback() for the public DAO,
           close() without commit for the private one; queues are kept *)
        if is_public
        then ({| d_db := d_db d; d_q := d_q d; d_tries := S (d_tries d) |}, ORetry)
        else (d, ORaised)
      else ({| d_db := w; d_q := clear_queues (d_q d); d_tries := 0 |}, OOk)
  end.

(* ---------- the manager ---------- *)
Record mgr := { m_pri : dao; m_pub : dao }.
Inductive event :=
| EvProcess (ops : list op) (fpri fpub : fault)   (* process_queued_ops *)
| EvHealth.                                            (* recover_pub_from_pri *)

Definition with_q (d : dao) (q : queues) : dao :=
  {| d_db := d_db d; d_q := q; d_tries := d_tries d |}.

Definition process (sch : schema) (ops : list op) (fpri fpub : fault) (m : mgr)
  : mgr * outcome :=
  let pri1 := with_q (m_pri m) (enq_all sch (d_q (m_pri m)) ops) in
  let pub1 := with_q (m_pub m) (enq_all sch (d_q (m_pub m)) ops) in
  let '(pri2, o) := exec_queued sch false fpri pri1 in
  match o with
  | ORaised => ({| m_pri := pri2; m_pub := pub1 |}, ORaised)
  | _ => let '(pub2, o2) := exec_queued sch true fpub pub1 in
         ({| m_pri := pri2; m_pub := pub2 |}, o2)
  end.

(* recover_pub_from_pri: the file is copied, the public DAO's retained queues
   are dropped (everything in them is already in the private DB), n_tries reset *)
Definition health (max : nat) (m : mgr) : mgr :=
  if Nat.leb max (d_tries (m_pub m))
  then {| m_pri := m_pri m;
          m_pub := {| d_db := d_db (m_pri m); d_q := clear_queues (d_q (m_pub m)); d_tries := 0 |} |}
  else m.

Definition step (max : nat) (sch : schema) (m : mgr) (e : event) : mgr * outcome :=
  match e with
  | EvProcess ops fpri fpub => process sch ops fpri fpub m
  | EvHealth => (health max m, ONoop)
  end.

Definition init_dao (sch : schema) : dao :=
  {| d_db := map (fun _ => []) sch; d_q := map (fun _ => tq_empty) sch; d_tries := 0 |}.
Definition init_mgr (sch : schema) : mgr := {| m_pri := init_dao sch; m_pub := init_dao sch |}.

(* ---------- correspondence interface ---------- *)
(* what the harness observes after each event *)
Record obs := {
  o_raised : bool;                  (* process_queued_ops raised sqlite3.Error *)
  o_tries : nat;                    (* pub_dao.n_tries *)
  o_npri : nat;                     (* statements pending in the private DAO's queues *)
  o_npub : nat;                     (* statements pending in the public DAO's queues *)
  o_pri : list (nat * table);       (* non-empty tables of the private DB file *)
  o_pub : list (nat * table)        (* non-empty tables of the public DB file *)
}.
Record case := { c_max : nat; c_schema : schema; c_events : list event; c_obs : list obs }.

Fixpoint remove1 {A} (eqb : A -> A -> bool) (x : A) (l : list A) : option (list A) :=
  match l with
  | [] => None
  | y :: r => if eqb x y then Some r
              else match remove1 eqb x r with Some r' => Some (y :: r') | None => None end
  end.
Fixpoint perm_eqb {A} (eqb : A -> A -> bool) (l1 l2 : list A) : bool :=
  match l1 with
  | [] => match l2 with [] => true | _ => false end
  | x :: r => match remove1 eqb x l2 with Some l2' => perm_eqb eqb r l2' | None => false end
  end.

Definition db_matches (d : db) (o : list (nat * table)) : bool :=
  forallb (fun t => perm_eqb row_eqb (nth t d [])
                      (match assoc Nat.eqb t o with Some x => x | None => [] end))
          (seq 0 (length d))
  && forallb (fun e => Nat.ltb (fst e) (length d)) o.

Definition obs_matches (m : mgr) (oc : outcome) (o : obs) : bool :=
  Bool.eqb (o_raised o) (match oc with ORaised => true | _ => false end)
  && Nat.eqb (o_tries o) (d_tries (m_pub m))
  && Nat.eqb (o_npri o) (length (stmts (d_q (m_pri m))))
  && Nat.eqb (o_npub o) (length (stmts (d_q (m_pub m))))
  && db_matches (d_db (m_pri m)) (o_pri o)
  && db_matches (d_db (m_pub m)) (o_pub o).

Fixpoint check_run (max : nat) (sch : schema) (m : mgr) (es : list event) (os : list obs) : bool :=
  match es, os with
  | [], [] => true
  | e :: es', o :: os' =>
      let '(m', oc) := step max sch m e in
      obs_matches m' oc o && check_run max sch m' es' os'
  | _, _ => false
  end.

Definition check_case (c : case) : bool :=
  check_run (c_max c) (c_schema c) (init_mgr (c_schema c)) (c_events c) (c_obs c).

(* debugging aid: the model's own observations *)
Definition nonempty_tables (d : db) : list (nat * table) :=
  filter (fun e => match snd e with [] => false | _ => true end) (combine (seq 0 (length d)) d).
Fixpoint model_run (max : nat) (sch : schema) (m : mgr) (es : list event)
  : list (outcome * nat * nat * nat * list (nat * table) * list (nat * table)) :=
  match es with
  | [] => []
  | e :: es' =>
      let '(m', oc) := step max sch m e in
      (oc, d_tries (m_pub m'), length (stmts (d_q (m_pri m'))), length (stmts (d_q (m_pub m'))),
       nonempty_tables (d_db (m_pri m')), nonempty_tables (d_db (m_pub m')))
      :: model_run max sch m' es'
  end.
Definition model_out (c : case) := model_run (c_max c) (c_schema c) (init_mgr (c_schema c)) (c_events c).
