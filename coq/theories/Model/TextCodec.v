(* Model/TextCodec.v — compact transport of text from the harness into case
   files: a Coq string literal in which printable ASCII stands for itself and
   every other code point (and the backslash) is written  \<decimal>;  .
   [dec] turns it into the list of code points the models work on.
   Shared by Model/Shell.v (C41) and Model/Parsec.v (C36). *)
From Coq Require Import String Ascii ZArith List.
Import ListNotations.
Open Scope Z_scope.

Fixpoint dec_aux (s : string) (num : option Z) : list Z :=
  match s with
  | EmptyString => []
  | String a r =>
      let c := Z.of_N (N_of_ascii a) in
      match num with
      | None => if c =? 92 then dec_aux r (Some 0) else c :: dec_aux r None
      | Some n => if c =? 59 then n :: dec_aux r None
                  else dec_aux r (Some (10 * n + (c - 48)))
      end
  end.

Definition dec (s : string) : list Z := dec_aux s None.
