(* Model/Xtrig.v — executable hand model of cylc/flow/xtrigger_mgr.py
   (XtriggerManager.call_xtriggers_async / callback / housekeep; sat_xtrig,
   active, t_next_call, _get_xtrigs; the synchronous wall_clock case), tied to
   the source by the C33 correspondence stream "xtrig".

   Signatures, labels and tasks are numbered by the harness (the signature of a
   label for a task — function name + templated args — is computed by the real
   get_xtrig_ctx().get_signature()).  Times are integers (virtual clock). *)
From Coq Require Import List Bool ZArith Lia.
From Cylc Require Import Base.Util.
Import ListNotations.
Open Scope Z_scope.

Definition sig := nat.

Record entry := {
  e_label : nat;
  e_sig : sig;
  e_clock : option Z;      (* Some trigger_time for a wall_clock label *)
  e_intvl : Z;             (* ctx.intvl *)
  e_sat : bool             (* itask.state.xtriggers[label] *)
}.

Record xtask := { x_id : nat; x_entries : list entry }.

Record xstate := {
  s_tnext : list (sig * Z);     (* t_next_call *)
  s_sat : list sig;             (* keys of sat_xtrig *)
  s_active : list sig;          (* active *)
  s_tasks : list xtask
}.

Inductive xop :=
| XCall (tid : nat) (now : Z)            (* call_xtriggers_async(itask) at time() = now *)
| XCallback (s : sig) (ok : bool)        (* callback(ctx): ok = the function returned (True, results) *)
| XHousekeep (tids : list nat).          (* housekeep([tasks with these ids]) *)

(* what a step makes visible (also the ghost events the theorems talk about) *)
Inductive xevent :=
| EvSubmit (s : sig) (now intvl : Z)     (* proc_pool.put_command *)
| EvSucceed (s : sig)                    (* recorded in sat_xtrig *)
| EvForget (s : sig)                     (* removed from sat_xtrig / t_next_call by housekeep *)
| EvBadCallback (s : sig).               (* callback for a signature that is not active: ValueError *)

Definition smem (s : sig) (l : list sig) : bool := mem Nat.eqb s l.

Fixpoint set_tnext (s : sig) (t : Z) (l : list (sig * Z)) : list (sig * Z) :=
  match l with
  | [] => [(s, t)]
  | (k, v) :: r => if Nat.eqb s k then (k, t) :: r else (k, v) :: set_tnext s t r
  end.

Definition mark (label : nat) (es : list entry) : list entry :=
  map (fun e => if Nat.eqb (e_label e) label
                then {| e_label := e_label e; e_sig := e_sig e; e_clock := e_clock e;
                        e_intvl := e_intvl e; e_sat := true |}
                else e) es.

(* loop state of call_xtriggers_async: manager fields + this task's entries *)
Record cstate := {
  c_tnext : list (sig * Z); c_sat : list sig; c_active : list sig;
  c_entries : list entry; c_events : list xevent
}.

(* one iteration of `for label, sig, ctx, _ in self._get_xtrigs(itask, unsat_only=True)` *)
Definition call_entry (now : Z) (c : cstate) (e : entry) : cstate :=
  let s := e_sig e in
  let satisfied :=
    {| c_tnext := c_tnext c; c_sat := c_sat c; c_active := c_active c;
       c_entries := mark (e_label e) (c_entries c); c_events := c_events c |} in
  match e_clock e with
  | Some trig =>
      if smem s (c_sat c) then satisfied
      else if Z.ltb trig now then      (* _wall_clock: time() > trigger_time *)
        {| c_tnext := c_tnext c; c_sat := c_sat c ++ [s]; c_active := c_active c;
           c_entries := mark (e_label e) (c_entries c); c_events := c_events c ++ [EvSucceed s] |}
      else c
  | None =>
      if smem s (c_sat c) then satisfied
      else if smem s (c_active c) then c
      else
        let too_soon := match assoc Nat.eqb s (c_tnext c) with
                        | Some t => Z.ltb now t
                        | None => false
                        end in
        if too_soon then c
        else {| c_tnext := set_tnext s (now + e_intvl e) (c_tnext c); c_sat := c_sat c;
                c_active := c_active c ++ [s]; c_entries := c_entries c;
                c_events := c_events c ++ [EvSubmit s now (e_intvl e)] |}
  end.

Definition unsat (es : list entry) : list entry := filter (fun e => negb (e_sat e)) es.

Definition find_task (tid : nat) (ts : list xtask) : option xtask :=
  find (fun t => Nat.eqb (x_id t) tid) ts.

Definition set_task (tid : nat) (es : list entry) (ts : list xtask) : list xtask :=
  map (fun t => if Nat.eqb (x_id t) tid then {| x_id := tid; x_entries := es |} else t) ts.

Fixpoint remove_first (s : sig) (l : list sig) : list sig :=
  match l with
  | [] => []
  | x :: r => if Nat.eqb x s then r else x :: remove_first s r
  end.

Definition needed_sigs (tids : list nat) (ts : list xtask) : list sig :=
  flat_map (fun t => if mem Nat.eqb (x_id t) tids then map e_sig (unsat (x_entries t)) else []) ts.

Definition xstep (st : xstate) (o : xop) : xstate * list xevent :=
  match o with
  | XCall tid now =>
      match find_task tid (s_tasks st) with
      | None => (st, [])
      | Some t =>
          let c0 := {| c_tnext := s_tnext st; c_sat := s_sat st; c_active := s_active st;
                       c_entries := x_entries t; c_events := [] |} in
          let c := fold_left (call_entry now) (unsat (x_entries t)) c0 in
          ({| s_tnext := c_tnext c; s_sat := c_sat c; s_active := c_active c;
              s_tasks := set_task tid (c_entries c) (s_tasks st) |}, c_events c)
      end
  | XCallback s ok =>
      if smem s (s_active st) then
        let act := remove_first s (s_active st) in
        if ok then
          ({| s_tnext := s_tnext st;
              s_sat := if smem s (s_sat st) then s_sat st else s_sat st ++ [s];
              s_active := act; s_tasks := s_tasks st |}, [EvSucceed s])
        else
          ({| s_tnext := s_tnext st; s_sat := s_sat st; s_active := act; s_tasks := s_tasks st |}, [])
      else (st, [EvBadCallback s])
  | XHousekeep tids =>
      let need := needed_sigs tids (s_tasks st) in
      let gone := filter (fun s => negb (smem s need)) (s_sat st) in
      ({| s_tnext := filter (fun kv => negb (smem (fst kv) gone)) (s_tnext st);
          s_sat := filter (fun s => smem s need) (s_sat st);
          s_active := s_active st; s_tasks := s_tasks st |},
       map EvForget gone)
  end.

Fixpoint xrun (st : xstate) (ops : list xop) : xstate * list xevent :=
  match ops with
  | [] => (st, [])
  | o :: r => let (st1, ev1) := xstep st o in
              let (st2, ev2) := xrun st1 r in (st2, ev1 ++ ev2)
  end.

Definition xinit (ts : list xtask) : xstate :=
  {| s_tnext := []; s_sat := []; s_active := []; s_tasks := ts |}.

(* ---- correspondence interface ---- *)
Record xobserved := {
  xo_submitted : list sig;              (* put_command calls during the op, in order *)
  xo_error : bool;                      (* the op raised (callback of a non-active signature) *)
  xo_active : list sig;                 (* .active, in order *)
  xo_sat : list sig;                    (* sorted keys of .sat_xtrig *)
  xo_tnext : list (sig * Z);            (* sorted items of .t_next_call *)
  xo_flags : list (nat * list (nat * bool))   (* per task: (label, satisfied) in dict order *)
}.

Record case := { c_tasks : list xtask; c_trace : list (xop * xobserved) }.

Definition nsorted (l : list nat) : list nat := sort_by Nat.leb l.
Definition tsorted (l : list (sig * Z)) : list (sig * Z) := sort_by (fun a b => Nat.leb (fst a) (fst b)) l.

Definition submitted (evs : list xevent) : list sig :=
  flat_map (fun e => match e with EvSubmit s _ _ => [s] | _ => [] end) evs.
Definition errored (evs : list xevent) : bool :=
  existsb (fun e => match e with EvBadCallback _ => true | _ => false end) evs.

Definition flags (ts : list xtask) : list (nat * list (nat * bool)) :=
  map (fun t => (x_id t, map (fun e => (e_label e, e_sat e)) (x_entries t))) ts.

Definition xobs_ok (st : xstate) (evs : list xevent) (ob : xobserved) : bool :=
  list_eqb Nat.eqb (submitted evs) (xo_submitted ob)
  && Bool.eqb (errored evs) (xo_error ob)
  && list_eqb Nat.eqb (s_active st) (xo_active ob)
  && list_eqb Nat.eqb (nsorted (s_sat st)) (xo_sat ob)
  && list_eqb (pair_eqb Nat.eqb Z.eqb) (tsorted (s_tnext st)) (xo_tnext ob)
  && list_eqb (pair_eqb Nat.eqb (list_eqb (pair_eqb Nat.eqb Bool.eqb))) (flags (s_tasks st)) (xo_flags ob).

Fixpoint check_trace (st : xstate) (tr : list (xop * xobserved)) : bool :=
  match tr with
  | [] => true
  | (o, ob) :: r => let (st', evs) := xstep st o in xobs_ok st' evs ob && check_trace st' r
  end.

Definition check_case (c : case) : bool := check_trace (xinit (c_tasks c)) (c_trace c).

Fixpoint model_trace (st : xstate) (ops : list xop) :=
  match ops with
  | [] => []
  | o :: r => let (st', evs) := xstep st o in
              (submitted evs, s_active st', nsorted (s_sat st'), tsorted (s_tnext st'), flags (s_tasks st'))
              :: model_trace st' r
  end.
Definition model_out (c : case) := model_trace (xinit (c_tasks c)) (map fst (c_trace c)).
