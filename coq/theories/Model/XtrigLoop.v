(* Model/XtrigLoop.v — executable hand model of the xtrigger section of
   Scheduler._main_loop (cylc/flow/scheduler.py) on top of Model/Xtrig.v:

     self.proc_pool.process()                 # delivers xtrigger callbacks
     for itask in self.pool.get_tasks():
         if not waiting or itask.state.is_queued or itask.state.is_runahead: continue
         if itask.state.xtriggers and not itask.state.xtriggers_all_satisfied():
             self.xtrigger_mgr.call_xtriggers_async(itask)
         ...
     if self.xtrigger_mgr.do_housekeeping:
         self.xtrigger_mgr.housekeep(self.pool.get_tasks())      # EVERY pooled task

   tied to the source by the C33 correspondence stream "xtloop" (real Scheduler
   in process).  Which tasks are in the pool and whether each is waiting /
   queued / runahead-limited is data observed on the run. *)
From Coq Require Import List Bool ZArith Lia.
From Cylc Require Import Base.Util Model.Xtrig.
Import ListNotations.
Open Scope Z_scope.

Record lstate := { l_x : xstate; l_due : bool (* xtrigger_mgr.do_housekeeping *) }.

Inductive lop :=
| LAdd (t : xtask)                       (* a task proxy enters the pool (xtriggers unsatisfied) *)
| LCallback (s : sig) (ok : bool)        (* proc_pool.process() delivers an xtrigger function result *)
| LPass (now : Z) (pool : list (nat * bool)) (pool_hk : list nat).
    (* one main-loop pass: [pool] = the pooled task ids in pool order, each with
       "waiting and not queued and not runahead-limited"; [pool_hk] = the ids of
       ALL pooled tasks when housekeeping is reached *)

Definition is_succeed (e : xevent) : bool := match e with EvSucceed _ => true | _ => false end.
Definition has_succeed (evs : list xevent) : bool := existsb is_succeed evs.

(* itask.state.xtriggers and not itask.state.xtriggers_all_satisfied() *)
Definition needs_call (st : xstate) (tid : nat) : bool :=
  match find_task tid (s_tasks st) with
  | Some t => match unsat (x_entries t) with [] => false | _ => true end
  | None => false
  end.

Fixpoint pass_calls (st : xstate) (now : Z) (pool : list (nat * bool))
  : xstate * list xevent * list nat :=
  match pool with
  | [] => (st, [], [])
  | (tid, elig) :: r =>
      if elig && needs_call st tid then
        let (st1, ev1) := xstep st (XCall tid now) in
        let '(st2, ev2, c2) := pass_calls st1 now r in
        (st2, ev1 ++ ev2, tid :: c2)
      else pass_calls st now r
  end.

Definition add_task (t : xtask) (ts : list xtask) : list xtask :=
  filter (fun u => negb (Nat.eqb (x_id u) (x_id t))) ts ++ [t].

(* [hk_all] = true: the code as it is (housekeep gets every pooled task).
   [hk_all] = false: the variant that passes only the tasks whose xtriggers were
   checked in this pass — used to show why every pooled task must be passed. *)
Definition lstep (hk_all : bool) (st : lstate) (o : lop)
  : lstate * list xevent * (list nat * option (list nat)) :=
  match o with
  | LAdd t =>
      ({| l_x := {| s_tnext := s_tnext (l_x st); s_sat := s_sat (l_x st); s_active := s_active (l_x st);
                    s_tasks := add_task t (s_tasks (l_x st)) |};
          l_due := l_due st |}, [], ([], None))
  | LCallback s ok =>
      let (x', evs) := xstep (l_x st) (XCallback s ok) in
      ({| l_x := x'; l_due := l_due st || has_succeed evs |}, evs, ([], None))
  | LPass now pool pool_hk =>
      let '(x1, ev1, called) := pass_calls (l_x st) now pool in
      if l_due st || has_succeed ev1 then
        let arg := if hk_all then pool_hk else called in
        let (x2, ev2) := xstep x1 (XHousekeep arg) in
        ({| l_x := x2; l_due := false |}, ev1 ++ ev2, (called, Some arg))
      else ({| l_x := x1; l_due := false |}, ev1, (called, None))
  end.

Fixpoint lrun (hk_all : bool) (st : lstate) (ops : list lop) : lstate * list xevent :=
  match ops with
  | [] => (st, [])
  | o :: r => let '(st1, ev1, _) := lstep hk_all st o in
              let (st2, ev2) := lrun hk_all st1 r in (st2, ev1 ++ ev2)
  end.

Definition linit : lstate := {| l_x := xinit []; l_due := false |}.

(* ---- correspondence interface ---- *)
Record lobserved := {
  lo_called : list nat;                    (* call_xtriggers_async(itask) calls of the pass, in order *)
  lo_submitted : list sig;                 (* put_command calls, in order *)
  lo_hk : option (list nat);               (* the ids housekeep() was given, if it ran *)
  lo_active : list sig;
  lo_sat : list sig;
  lo_tnext : list (sig * Z);
  lo_due : bool;
  lo_flags : list (nat * list (nat * bool))    (* (task, [(label, satisfied)]) of the tasks looked at *)
}.

Definition case := list (lop * option lobserved).   (* LAdd carries no observation *)

Definition task_flags (st : xstate) (tid : nat) : list (nat * bool) :=
  match find_task tid (s_tasks st) with
  | Some t => map (fun e => (e_label e, e_sat e)) (x_entries t)
  | None => []
  end.

Definition lobs_ok (st : lstate) (evs : list xevent) (r : list nat * option (list nat)) (ob : lobserved) : bool :=
  list_eqb Nat.eqb (fst r) (lo_called ob)
  && list_eqb Nat.eqb (submitted evs) (lo_submitted ob)
  && option_eqb (list_eqb Nat.eqb) (option_map nsorted (snd r)) (option_map nsorted (lo_hk ob))
  && list_eqb Nat.eqb (s_active (l_x st)) (lo_active ob)
  && list_eqb Nat.eqb (nsorted (s_sat (l_x st))) (lo_sat ob)
  && list_eqb (pair_eqb Nat.eqb Z.eqb) (tsorted (s_tnext (l_x st))) (lo_tnext ob)
  && Bool.eqb (l_due st) (lo_due ob)
  && forallb (fun tf => list_eqb (pair_eqb Nat.eqb Bool.eqb) (task_flags (l_x st) (fst tf)) (snd tf)) (lo_flags ob).

Fixpoint check_trace (st : lstate) (tr : case) : bool :=
  match tr with
  | [] => true
  | (o, ob) :: r =>
      let '(st', evs, res) := lstep true st o in
      match ob with
      | Some ob => lobs_ok st' evs res ob
      | None => true
      end && check_trace st' r
  end.

Definition check_case (c : case) : bool := check_trace linit c.

Fixpoint model_trace (st : lstate) (ops : list lop) :=
  match ops with
  | [] => []
  | o :: r => let '(st', evs, res) := lstep true st o in
              (res, submitted evs, s_active (l_x st'), nsorted (s_sat (l_x st')), tsorted (s_tnext (l_x st')), l_due st')
              :: model_trace st' r
  end.
Definition model_out (c : case) := model_trace linit (map fst c).
