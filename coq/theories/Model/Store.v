(* Model/Store.v — executable model of the task-proxy part of cylc/flow/data_store_mgr.py
   (class DataStoreMgr and the module-level apply_delta), for C25.

   What is modelled, literally:
   * a task-proxy node is a record of *optional* fields (protobuf `optional`
     presence: HasField); a delta element carries only the fields that were set;
   * MergeFrom overrides exactly the present scalar fields, merges the `outputs`
     map key by key, and *appends* repeated fields (prerequisites, edges);
     apply_delta first clears the fields of CLEAR_FIELD_MAP that the element sets
     (Gen/StoreTables.v: read from the source);
   * apply_delta = added (dict.update) ; updated (merge, skipped when the id is
     unknown) ; pruned (delete when present);
   * the scheduler side runs the same apply_delta on its own batch *before*
     serialising it, and `data[key].update({e.id: e for e in delta.added})`
     stores the batch's own message objects: the first merge into such a node
     therefore also changes the `added` element that is about to be published
     ([alias_added]; with RESET_PROTOBUF_TYPES the node is replaced by a copy
     after that first merge);
   * the pending stores `added` / `updated`, store_node_fetcher (added first,
     then data), the delta_task_* functions, in particular the rule of
     delta_task_state "set the field only if it differs from the store or from
     the pending delta";
   * update_data_structure (dedupe of pruned ids, batch, apply, publish, clear),
     update_workflow_states (batch, apply, publish, *no* clear),
     initiate_data_model, Scheduler._publish_deltas and the publish queue;
   * the client: starts empty, applies every queued delta with apply_delta,
     clearing first when the delta says `reloaded`.
   Not modelled (taken from the run as data): which nodes the n-window walk
   creates / prunes, jobs, families, the workflow element, edge pruning,
   protobuf encoding.  Names, states, output labels and edge ids are numbered
   by the harness. *)
From Coq Require Import List Bool NArith.
From Cylc Require Import Base.Util Gen.StoreTables.
Import ListNotations.

Definition id := N.
Definition prereq := (bool * list bool)%type.      (* satisfied, satisfaction of each condition *)

Record node := mkNode {
  n_state : option N; n_held : option bool; n_queued : option bool; n_runahead : option bool;
  n_flows : option (list N);
  n_outputs : list (N * bool);       (* map label -> satisfied *)
  n_prereqs : list prereq;           (* repeated, in CLEAR_FIELD_MAP *)
  n_edges : list N }.                (* repeated, not in CLEAR_FIELD_MAP *)

Definition empty_node : node := mkNode None None None None None [] [] [].

(* the pool side: what the scheduler reads from a TaskProxy when it calls delta_task_* *)
Record pv := mkPv {
  p_state : N; p_held : bool; p_queued : bool; p_runahead : bool; p_flows : list N;
  p_outputs : list (N * bool); p_prereqs : list prereq }.

(* ---- protobuf merge ---- *)
Definition oor {A} (u n : option A) : option A := match u with Some _ => u | None => n end.
Definition okeys (l : list (N * bool)) : list N := map fst l.
Definition not_in_keys (b : list (N * bool)) (kv : N * bool) : bool := negb (mem N.eqb (fst kv) (okeys b)).
(* map merge: every key of [b] overrides; representation: b's entries, then a's other entries *)
Definition merge_outs (a b : list (N * bool)) : list (N * bool) := b ++ filter (not_in_keys b) a.
Definition nonempty {A} (l : list A) : bool := match l with [] => false | _ => true end.

(* `for field, _ in element.ListFields(): if field.name in CLEAR_FIELD_MAP[key]: ClearField` *)
Definition clear_listed (n u : node) : node :=
  mkNode (n_state n) (n_held n) (n_queued n) (n_runahead n) (n_flows n)
    (if clear_outputs && nonempty (n_outputs u) then [] else n_outputs n)
    (if clear_prerequisites && nonempty (n_prereqs u) then [] else n_prereqs n)
    (if clear_edges && nonempty (n_edges u) then [] else n_edges n).

Definition merge_from (n u : node) : node :=
  mkNode (oor (n_state u) (n_state n)) (oor (n_held u) (n_held n)) (oor (n_queued u) (n_queued n))
    (oor (n_runahead u) (n_runahead n)) (oor (n_flows u) (n_flows n))
    (merge_outs (n_outputs n) (n_outputs u)) (n_prereqs n ++ n_prereqs u) (n_edges n ++ n_edges u).

(* one `updated` element applied to a store node *)
Definition upd_node (n u : node) : node := merge_from (clear_listed n u) u.

(* ---- stores: dicts with insertion order ---- *)
Definition store := list (id * node).
Fixpoint sget {A} (i : id) (s : list (id * A)) : option A :=
  match s with [] => None | (j, n) :: r => if N.eqb i j then Some n else sget i r end.
Fixpoint sset {A} (i : id) (n : A) (s : list (id * A)) : list (id * A) :=
  match s with
  | [] => [(i, n)]
  | (j, m) :: r => if N.eqb i j then (i, n) :: r else (j, m) :: sset i n r
  end.
Fixpoint sdel {A} (i : id) (s : list (id * A)) : list (id * A) :=
  match s with [] => [] | (j, m) :: r => if N.eqb i j then sdel i r else (j, m) :: sdel i r end.
Definition shas {A} (i : id) (s : list (id * A)) : bool := match sget i s with Some _ => true | None => false end.

(* ---- deltas ---- *)
Record delta := mkDelta {
  d_added : list (id * node); d_updated : list (id * node); d_pruned : list id; d_reloaded : bool }.
Definition empty_delta : delta := mkDelta [] [] [] false.

Definition add_step (s : store) (e : id * node) : store := sset (fst e) (snd e) s.
Definition upd_step (s : store) (e : id * node) : store :=
  match sget (fst e) s with
  | Some n => sset (fst e) (upd_node n (snd e)) s
  | None => s                      (* KeyError: `continue` *)
  end.
Definition prune_step (s : store) (i : id) : store := sdel i s.

(* the module-level apply_delta(TASK_PROXIES, delta, data) *)
Definition apply_delta (d : delta) (s : store) : store :=
  fold_left prune_step (d_pruned d) (fold_left upd_step (d_updated d) (fold_left add_step (d_added d) s)).

(* the updated elements addressed to [i], in order *)
Definition sel (i : id) (l : list (id * node)) : list node :=
  map snd (filter (fun e => N.eqb (fst e) i) l).

(* what the scheduler's own apply_delta does to the `added` elements of its batch:
   the object stored for id i is the *last* added element with that id; the first
   merge into it happens in place (all of them without RESET_PROTOBUF_TYPES) *)
Definition alias_merges (l : list node) : list node := if reset_task_proxies then firstn 1 l else l.
Fixpoint alias_added (added updated : list (id * node)) : list (id * node) :=
  match added with
  | [] => []
  | (i, a) :: r =>
      (if mem N.eqb i (map fst r) then (i, a)
       else (i, fold_left upd_node (alias_merges (sel i updated)) a)) :: alias_added r updated
  end.
Definition alias_delta (d : delta) : delta :=
  mkDelta (alias_added (d_added d) (d_updated d)) (d_updated d) (d_pruned d) (d_reloaded d).

(* the client (cylc-uiserver's _apply_all_delta): clear on `reloaded`, then apply_delta *)
Definition client_apply (r : store) (d : delta) : store :=
  apply_delta d (if d_reloaded d then [] else r).
Definition replica (q : list delta) : store := fold_left client_apply q [].

(* ---- the manager ---- *)
Record mgr := mkMgr {
  s_data : store;              (* self.data[workflow_id][TASK_PROXIES] *)
  s_added : store;             (* self.added[TASK_PROXIES] *)
  s_updated : store;           (* self.updated[TASK_PROXIES] *)
  s_batch : delta;             (* self.deltas[TASK_PROXIES] *)
  s_dedupe : list id;          (* self.pruned_task_proxies *)
  s_pending : bool;            (* self.updates_pending (as far as task-proxy deltas set it) *)
  s_pub : delta;               (* the task-proxy part of self.publish_deltas *)
  s_pubpend : bool;            (* self.publish_pending *)
  s_queue : list delta;        (* everything put on server.publish_queue so far *)
  s_err : bool }.              (* the recorded run did something the model cannot follow *)

Definition init_pub : delta := mkDelta [] [] [] true.
Definition init_mgr (q : list delta) : mgr :=
  mkMgr [] [] [] empty_delta [] false init_pub true q false.

Definition fetch (s : mgr) (i : id) : option node :=      (* store_node_fetcher *)
  match sget i (s_added s) with Some n => Some n | None => sget i (s_data s) end.
Definition pending_delta (s : mgr) (i : id) : node :=     (* updated.setdefault(id, PbTaskProxy(id=id)) *)
  match sget i (s_updated s) with Some u => u | None => empty_node end.
Definition set_updated (s : mgr) (i : id) (u : node) : mgr :=
  mkMgr (s_data s) (s_added s) (sset i u (s_updated s)) (s_batch s) (s_dedupe s) true
        (s_pub s) (s_pubpend s) (s_queue s) (s_err s).
Definition set_added (s : mgr) (i : id) (a : node) : mgr :=
  mkMgr (s_data s) (sset i a (s_added s)) (s_updated s) (s_batch s) (s_dedupe s) true
        (s_pub s) (s_pubpend s) (s_queue s) (s_err s).

Definition getb (o : option bool) : bool := match o with Some b => b | None => false end.
(* `if getattr(tproxy, field) != val or getattr(tp_delta, field) != val: setattr(tp_delta, field, val)` *)
Definition rule_flag (on : bool) (t d : option bool) (v : bool) : option bool :=
  if on then (if negb (Bool.eqb (getb t) v) || negb (Bool.eqb (getb d) v) then Some v else d) else d.
Definition rule_state (t d : option N) (v : N) : option N :=
  if negb (option_eqb N.eqb t (Some v)) || negb (option_eqb N.eqb d (Some v)) then Some v else d.

(* _process_internal_task_proxy(itask, tproxy) *)
Definition process (p : pv) (n : node) : node :=
  mkNode (Some (p_state p)) (n_held n) (n_queued n) (n_runahead n) (Some (p_flows p))
         (merge_outs (n_outputs n) (p_outputs p)) (p_prereqs p) (n_edges n).

Inductive op :=
| OpInit (fresh : bool)                                  (* initiate_data_model(reloaded = negb fresh) *)
| OpGhost (i : id) (held : bool) (p : option pv)         (* generate_ghost_task created a node *)
| OpHist (i : id) (p : pv)                               (* apply_task_proxy_db_history on a pending node *)
| OpState (i : id) (p : pv)                              (* delta_task_state *)
| OpHeld (i : id) (b : bool)                             (* delta_task_held *)
| OpFlows (i : id) (f : list N)                          (* _delta_task_flow_nums *)
| OpOutputs (i : id) (p : pv)                            (* delta_task_outputs *)
| OpPrereqs (i : id) (p : pv)                            (* delta_task_prerequisite *)
| OpFromProxy (i : id) (p : pv)                          (* delta_from_task_proxy *)
| OpEdge (c p : id) (e : N)                              (* generate_edge *)
| OpPrune (ids dd : list id)                             (* prune_data_store: ids pruned, pruned_task_proxies *)
| OpUpdate (published : bool)                            (* update_data_structure *)
| OpWfStates                                             (* update_workflow_states *)
| OpPut (forced : bool).                                 (* publish_queue.put(publish_deltas) *)

Definition with_err (s : mgr) : mgr :=
  mkMgr (s_data s) (s_added s) (s_updated s) (s_batch s) (s_dedupe s) (s_pending s)
        (s_pub s) (s_pubpend s) (s_queue s) true.

(* batch_deltas + apply_delta_batch + get_publish_deltas *)
Definition batch_apply_publish (s : mgr) (upd : store) (dd : list id) : mgr :=
  let b := mkDelta (d_added (s_batch s) ++ s_added s) (d_updated (s_batch s) ++ upd)
                   (d_pruned (s_batch s)) false in
  let b' := alias_delta b in
  mkMgr (apply_delta b (s_data s)) (s_added s) upd b' dd (s_pending s) b' true (s_queue s) (s_err s).

Definition dedupe (s : mgr) : store :=
  filter (fun e => negb (mem N.eqb (fst e) (s_dedupe s)
                         && (shas (fst e) (s_data s) || shas (fst e) (s_added s)))) (s_updated s).

Definition step (s : mgr) (o : op) : mgr :=
  match o with
  | OpInit fresh => init_mgr (if fresh then [] else s_queue s)
  | OpGhost i held p =>
      if shas i (s_data s) || shas i (s_added s) then with_err s
      else let g := mkNode None (Some held) None None (Some []) [] [] [] in
           set_added s i (match p with Some p => process p g | None => g end)
  | OpHist i p =>
      match sget i (s_added s) with Some a => set_added s i (process p a) | None => with_err s end
  | OpState i p =>
      match fetch s i with
      | None => s
      | Some t =>
          let d := pending_delta s i in
          set_updated s i
            (mkNode (rule_state (n_state t) (n_state d) (p_state p))
                    (rule_flag rule_is_held (n_held t) (n_held d) (p_held p))
                    (rule_flag rule_is_queued (n_queued t) (n_queued d) (p_queued p))
                    (rule_flag rule_is_runahead (n_runahead t) (n_runahead d) (p_runahead p))
                    (n_flows d) (n_outputs d) (n_prereqs d) (n_edges d))
      end
  | OpHeld i b =>
      match fetch s i with
      | None => s
      | Some _ => let d := pending_delta s i in
                  set_updated s i (mkNode (n_state d) (Some b) (n_queued d) (n_runahead d) (n_flows d)
                                          (n_outputs d) (n_prereqs d) (n_edges d))
      end
  | OpFlows i f =>
      let d := pending_delta s i in
      set_updated s i (mkNode (n_state d) (n_held d) (n_queued d) (n_runahead d) (Some f)
                              (n_outputs d) (n_prereqs d) (n_edges d))
  | OpOutputs i p =>
      match fetch s i with
      | None => s
      | Some _ => let d := pending_delta s i in
                  set_updated s i (mkNode (n_state d) (n_held d) (n_queued d) (n_runahead d) (n_flows d)
                                          (merge_outs (n_outputs d) (p_outputs p)) (n_prereqs d) (n_edges d))
      end
  | OpPrereqs i p =>
      match fetch s i with
      | None => s
      | Some _ => let d := pending_delta s i in
                  set_updated s i (mkNode (n_state d) (n_held d) (n_queued d) (n_runahead d) (n_flows d)
                                          (n_outputs d) (p_prereqs p) (n_edges d))
      end
  | OpFromProxy i p =>
      match fetch s i with
      | None => s
      | Some _ => set_updated s i (process p (pending_delta s i))
      end
  | OpEdge c p e =>
      let dc := pending_delta s c in
      let s1 := set_updated s c (mkNode (n_state dc) (n_held dc) (n_queued dc) (n_runahead dc) (n_flows dc)
                                        (n_outputs dc) (n_prereqs dc) (n_edges dc ++ [e])) in
      let dp := pending_delta s1 p in
      set_updated s1 p (mkNode (n_state dp) (n_held dp) (n_queued dp) (n_runahead dp) (n_flows dp)
                               (n_outputs dp) (n_prereqs dp) (n_edges dp ++ [e]))
  | OpPrune ids dd =>
      let b := s_batch s in
      mkMgr (s_data s) (s_added s) (s_updated s)
            (mkDelta (d_added b) (d_updated b) (d_pruned b ++ ids) (d_reloaded b)) dd
            (s_pending s || nonempty ids) (s_pub s) (s_pubpend s) (s_queue s) (s_err s)
  | OpUpdate published =>
      let s1 := if published then batch_apply_publish s (dedupe s) []
                else (if s_pending s then with_err s else s) in
      (* updates_pending := follow-on (not modelled); clear_delta_batch; clear_delta_store *)
      mkMgr (s_data s1) [] [] empty_delta (s_dedupe s1) false (s_pub s1) (s_pubpend s1) (s_queue s1) (s_err s1)
  | OpWfStates => batch_apply_publish s (s_updated s) (s_dedupe s)
  | OpPut forced =>
      if forced then
        mkMgr (s_data s) (s_added s) (s_updated s) (s_batch s) (s_dedupe s) (s_pending s)
              (s_pub s) (s_pubpend s) (s_queue s ++ [s_pub s]) (s_err s)
      else if s_pubpend s then
        mkMgr (s_data s) (s_added s) (s_updated s) (s_batch s) (s_dedupe s) (s_pending s)
              (s_pub s) false (s_queue s ++ [s_pub s]) (s_err s)
      else s
  end.

Definition run (s : mgr) (ops : list op) : mgr := fold_left step ops s.

(* ---- correspondence with a recorded run ---- *)
Definition prereq_eqb (a b : prereq) : bool := Bool.eqb (fst a) (fst b) && list_eqb Bool.eqb (snd a) (snd b).
Definition outs_eqb (a b : list (N * bool)) : bool :=
  Nat.eqb (List.length a) (List.length b)
  && forallb (fun kv => option_eqb Bool.eqb (assoc N.eqb (fst kv) a) (Some (snd kv))) b.
(* the property's fields *)
Definition view_eqb (a b : node) : bool :=
  option_eqb N.eqb (n_state a) (n_state b) && option_eqb Bool.eqb (n_held a) (n_held b)
  && option_eqb Bool.eqb (n_queued a) (n_queued b) && option_eqb Bool.eqb (n_runahead a) (n_runahead b)
  && option_eqb (list_eqb N.eqb) (n_flows a) (n_flows b) && outs_eqb (n_outputs a) (n_outputs b)
  && list_eqb prereq_eqb (n_prereqs a) (n_prereqs b).
Definition node_eqb (a b : node) : bool := view_eqb a b && list_eqb N.eqb (n_edges a) (n_edges b).
Definition is_empty_node (a : node) : bool := node_eqb a empty_node.

Definition store_view_eqb (m r : store) : bool :=
  Nat.eqb (List.length m) (List.length r)
  && forallb (fun e => match sget (fst e) m with Some n => view_eqb n (snd e) | None => false end) r.

(* published elements are compared per id, in order, ignoring elements that set none of
   the modelled fields (other delta functions create those) *)
Definition sel_ne (i : id) (l : list (id * node)) : list node :=
  filter (fun n => negb (is_empty_node n)) (sel i l).
Definition elems_eqb (a b : list (id * node)) : bool :=
  forallb (fun i => list_eqb node_eqb (sel_ne i a) (sel_ne i b)) (map fst a ++ map fst b).
Definition ids_eqb (a b : list id) : bool :=
  forallb (fun i => mem N.eqb i b) a && forallb (fun i => mem N.eqb i a) b.
Definition delta_eqb (a b : delta) : bool :=
  elems_eqb (d_added a) (d_added b) && elems_eqb (d_updated a) (d_updated b)
  && ids_eqb (d_pruned a) (d_pruned b) && Bool.eqb (d_reloaded a) (d_reloaded b).

Inductive event :=
| EOp (o : op)
| EPut (forced : bool) (seen : delta)        (* a put on the real publish queue and what it carried *)
| ECheck (data rep : store).                 (* a snapshot: the real store and the real client replica *)

(* [rep] is the client replica kept incrementally: every accepted put appends s_pub to
   s_queue and applies it to rep (replica (q ++ [d]) = client_apply (replica q) d:
   Proofs/StoreProofs.v, replica_snoc), so rep = replica (s_queue s) throughout *)
Fixpoint check_events (s : mgr) (rep : store) (evs : list event) : bool :=
  match evs with
  | [] => negb (s_err s)
  | EOp (OpInit fresh) :: r => check_events (step s (OpInit fresh)) (if fresh then [] else rep) r
  | EOp o :: r => check_events (step s o) rep r
  | EPut forced seen :: r =>
      let ok_pending := forced || s_pubpend s in
      let s' := step s (OpPut forced) in
      ok_pending && delta_eqb (s_pub s) seen && check_events s' (client_apply rep (s_pub s)) r
  | ECheck data rp :: r =>
      store_view_eqb (s_data s) data && store_view_eqb rep rp && check_events s rep r
  end.

Definition case := list event.
Definition check_case (c : case) : bool := check_events (init_mgr []) [] c.

(* debugging aid: index of the first failing event and the model's state there *)
Fixpoint first_bad (k : nat) (s : mgr) (rep : store) (evs : list event) : option (nat * mgr * store) :=
  match evs with
  | [] => if s_err s then Some (k, s, rep) else None
  | EOp (OpInit fresh) :: r => first_bad (S k) (step s (OpInit fresh)) (if fresh then [] else rep) r
  | EOp o :: r => first_bad (S k) (step s o) rep r
  | EPut forced seen :: r =>
      if (forced || s_pubpend s) && delta_eqb (s_pub s) seen
      then first_bad (S k) (step s (OpPut forced)) (client_apply rep (s_pub s)) r
      else Some (k, s, rep)
  | ECheck data rp :: r =>
      if store_view_eqb (s_data s) data && store_view_eqb rep rp then first_bad (S k) s rep r
      else Some (k, s, rep)
  end.
Definition model_out (c : case) : option (nat * (store * store * delta)) :=
  match first_bad 0 (init_mgr []) [] c with
  | Some (k, s, rep) => Some (k, (s_data s, rep, s_pub s))
  | None => None
  end.

(* ---- how the Scheduler drives the manager (scheduler.py / commands.py) ---- *)
Definition is_delta_op (o : op) : bool :=
  match o with OpInit _ | OpUpdate _ | OpWfStates | OpPut _ => false | _ => true end.
Inductive sop :=
| SDelta (o : op)              (* any delta_* / ghost / edge / prune call (is_delta_op) *)
| SUpdate (published : bool)   (* Scheduler.update_data_structure: _publish_deltas; update_data_structure; _publish_deltas *)
| SWfState                     (* Scheduler._update_workflow_state: _publish_deltas; update_workflow_states; _publish_deltas *)
| SReload                      (* reload_workflow: _update_workflow_state(); initiate_data_model(reloaded=True) *)
| SStartPut.                   (* run_scheduler: publish_queue.put(publish_deltas) before the main loop *)
Definition expand1 (o : sop) : list op :=
  match o with
  | SDelta o => if is_delta_op o then [o] else []
  | SUpdate b => [OpPut false; OpUpdate b; OpPut false]
  | SWfState => [OpPut false; OpWfStates; OpPut false]
  | SReload => [OpPut false; OpWfStates; OpPut false; OpInit false]
  | SStartPut => [OpPut true]
  end.
Definition expand (p : list sop) : list op := flat_map expand1 p.
Definition sched_run (p : list sop) : mgr := run (init_mgr []) (expand p).
(* what has been handed to get_publish_deltas but not yet put on the queue *)
Definition outstanding (s : mgr) : list delta := if s_pubpend s then [s_pub s] else [].

(* ---- the task pool next to the manager: every pool mutation with the data-store calls
        that the scheduler makes for it (task_pool.py, task_events_mgr.py, task_job_mgr.py) ---- *)
Definition pool := list (id * pv).

(* what data[id] will be after the next batch: store_node_fetcher's node merged with the pending delta *)
Definition eff (s : mgr) (i : id) : option node :=
  option_map (fun t => upd_node t (pending_delta s i)) (fetch s i).

Definition keys_within (a b : list (N * bool)) : bool :=      (* every label of a is a label of b *)
  forallb (fun kv => mem N.eqb (fst kv) (okeys b)) a.

Inductive pop :=
| PAdd (i : id) (p : pv) (h0 : bool)        (* add_to_pool + create_data_store_elements; h0: id is in tasks_to_hold *)
| PState (i : id) (st : N) (h q r : bool)   (* TaskState.reset(...) then delta_task_state(itask) *)
| POutputs (i : id) (outs : list (N * bool))(* output completion then delta_task_output(s) *)
| PPrereqs (i : id) (ps : list prereq)      (* satisfy_me / set prerequisites then delta_task_prerequisite *)
| PFlows (i : id) (f : list N)              (* merge_flows then delta_task_flow_nums *)
| PRemove (i : id)                          (* TaskPool.remove *)
| POther (o : op)                           (* data-store calls about ids that are not in the pool; edges *)
| PUpdate (ids dd : list id).               (* Scheduler.update_data_structure; ids: what prune_data_store prunes *)

Definition other_ok (pl : pool) (s : mgr) (o : op) : bool :=
  match o with
  | OpGhost j _ _ | OpHist j _ | OpState j _ | OpHeld j _ | OpOutputs j _ | OpPrereqs j _ | OpFromProxy j _ =>
      negb (shas j pl)
  | OpFlows j _ => negb (shas j pl) && match fetch s j with Some _ => true | None => false end
  | OpEdge _ _ _ => true
  | _ => false
  end.

Definition set_flags (p : pv) (st : N) (h q r : bool) : pv :=
  mkPv st h q r (p_flows p) (p_outputs p) (p_prereqs p).
Definition set_outputs (p : pv) (o : list (N * bool)) : pv :=
  mkPv (p_state p) (p_held p) (p_queued p) (p_runahead p) (p_flows p) o (p_prereqs p).
Definition set_prereqs (p : pv) (ps : list prereq) : pv :=
  mkPv (p_state p) (p_held p) (p_queued p) (p_runahead p) (p_flows p) (p_outputs p) ps.
Definition set_flows (p : pv) (f : list N) : pv :=
  mkPv (p_state p) (p_held p) (p_queued p) (p_runahead p) f (p_outputs p) (p_prereqs p).

Definition pstep (st : pool * mgr) (o : pop) : option (pool * mgr) :=
  let (pl, s) := st in
  match o with
  | PAdd i p h0 =>
      if shas i pl then None else
      match eff s i with
      | None => Some (sset i p pl, step (step s (OpGhost i h0 (Some p))) (OpState i p))
      | Some n =>
          (* generate_ghost_task: the node exists (n-window ghost): delta_from_task_proxy.  The ghost was made
             from the same task definition: same output labels, same number of prerequisites *)
          if keys_within (n_outputs n) (p_outputs p) && (nonempty (p_prereqs p) || negb (nonempty (n_prereqs n)))
          then Some (sset i p pl, step (step s (OpFromProxy i p)) (OpState i p)) else None
      end
  | PState i st' h q r =>
      match sget i pl with
      | Some p => let p' := set_flags p st' h q r in Some (sset i p' pl, step s (OpState i p'))
      | None => None
      end
  | POutputs i outs =>
      match sget i pl with
      | Some p => if keys_within (p_outputs p) outs
                  then let p' := set_outputs p outs in Some (sset i p' pl, step s (OpOutputs i p')) else None
      | None => None
      end
  | PPrereqs i ps =>
      match sget i pl with
      | Some p => if nonempty ps || negb (nonempty (p_prereqs p))
                  then let p' := set_prereqs p ps in Some (sset i p' pl, step s (OpPrereqs i p')) else None
      | None => None
      end
  | PFlows i f =>
      match sget i pl with
      | Some p => Some (sset i (set_flows p f) pl, step s (OpFlows i f))
      | None => None
      end
  | PRemove i => Some (sdel i pl, s)
  | POther o => if other_ok pl s o then Some (pl, step s o) else None
  | PUpdate ids dd =>
      if forallb (fun j => negb (shas j pl)) (ids ++ dd)
      then Some (pl, run s [OpPut false; OpPrune ids dd; OpUpdate true; OpPut false]) else None
  end.

Fixpoint prun (st : pool * mgr) (prog : list pop) : option (pool * mgr) :=
  match prog with
  | [] => Some st
  | o :: r => match pstep st o with Some st' => prun st' r | None => None end
  end.
