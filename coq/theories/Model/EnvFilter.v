(* Model/EnvFilter.v — executable model of how a task's runtime environment is
   assembled before the job file is written (cylc/flow/config.py):
   WorkflowConfig.compute_inheritance (parsec.util.replicate over the linearised
   ancestors, root first) restricted to the [environment] and
   [environment filter] items, and WorkflowConfig.filter_env.
   Hand model, tied to the source by the "cfgenv" stream of C41, which parses
   generated flow.cylc files with the real WorkflowConfig, writes the environment
   section with the real JobFileWriter and evaluates it in /bin/bash.
   Environments are ordered association lists (OrderedDictWithDefaults). *)
From Coq Require Import List ZArith Bool Lia.
From Cylc Require Import Base.Util Model.Shell.
Import ListNotations.
Open Scope Z_scope.

(* dict[key] = val : replace in place, or append *)
Fixpoint set_key (e : conf) (k v : str) : conf :=
  match e with
  | [] => [(k, v)]
  | (k', v') :: r => if str_eqb k' k then (k', v) :: r else (k', v') :: set_key r k v
  end.

(* replicate(target, source) on a flat section of string items *)
Definition merge (target source : conf) : conf :=
  fold_left (fun t kv => set_key t (fst kv) (snd kv)) source target.

(* one runtime namespace as written in the (sparse) configuration *)
Record ns := {
  n_env : option conf;            (* [[[environment]]], if the section is present *)
  n_incl : option (list str);     (* [[[environment filter]]] include, if set *)
  n_excl : option (list str)      (* [[[environment filter]]] exclude, if set *)
}.

(* the more specific namespace's list item replaces the inherited one *)
Definition override {A} (inherited : option A) (own : option A) : option A :=
  match own with Some x => Some x | None => inherited end.

(* compute_inheritance: [hier] = linearised ancestors, root first, the namespace last *)
Definition inherited_env (hier : list ns) : option conf :=
  fold_left (fun acc n =>
               match n_env n with
               | None => acc
               | Some e => Some (merge (match acc with Some a => a | None => [] end) e)
               end) hier None.
Definition inherited_incl (hier : list ns) : option (list str) :=
  fold_left (fun acc n => override acc (n_incl n)) hier None.
Definition inherited_excl (hier : list ns) : option (list str) :=
  fold_left (fun acc n => override acc (n_excl n)) hier None.

Definition in_list (k : str) (l : list str) : bool := mem str_eqb k l.

(* `(not fincl or key in fincl) and key not in fexcl` *)
Definition keep (incl excl : list str) (k : str) : bool :=
  (match incl with [] => true | _ => in_list k incl end) && negb (in_list k excl).

(* filter_env for one namespace *)
Definition filter_env (incl excl : list str) (e : conf) : conf :=
  match incl, excl with
  | [], [] => e                                    (* no filtering to do *)
  | _, _ => filter (fun kv => keep incl excl (fst kv)) e
  end.

Definition opt_list {A} (o : option (list A)) : list A := match o with Some l => l | None => [] end.

(* the environment the job file writer receives for the namespace *)
Definition task_env (hier : list ns) : conf :=
  match inherited_env hier with
  | None => []                                     (* no environment to filter *)
  | Some e => filter_env (opt_list (inherited_incl hier)) (opt_list (inherited_excl hier)) e
  end.

(* ---------- correspondence interface ---------- *)
Definition conf_eqb (a b : conf) : bool :=
  list_eqb (fun p q => str_eqb (fst p) (fst q) && str_eqb (snd p) (snd q)) a b.

Record case := {
  f_hier : list ns;          (* linearised ancestors of the namespace, root first *)
  f_env : conf;              (* cfg['runtime'][ns]['environment'] of the real WorkflowConfig *)
  f_shell : Shell.case       (* the job-file section written for f_env, and bash's values *)
}.

Definition model_out (c : case) := (task_env (f_hier c), Shell.model_out (f_shell c)).

Definition check_case (c : case) : bool :=
  conf_eqb (task_env (f_hier c)) (f_env c) &&
  conf_eqb (Shell.c_conf (f_shell c)) (f_env c) &&
  Shell.check_case (f_shell c).
