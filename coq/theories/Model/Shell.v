(* Model/Shell.v — executable model of
   (a) cylc/flow/job_file.py: JobFileWriter._write_runtime_environment and
       _get_variable_value_definition (how a task environment value is quoted), and
   (b) the fragment of bash that evaluates what (a) emits: an assignment
       `name=word` where word is an optional unquoted tilde-prefix followed by one
       double-quoted string.
   Hand model.  (a) is tied to the source by comparing the rendered section text
   with the text the real JobFileWriter writes; (b) by sourcing that text in the
   real /bin/bash and comparing the resulting variable values.

   Text is a list of Unicode code points. *)
From Coq Require Import List ZArith Bool Lia.
From Cylc Require Import Base.Util.
Import ListNotations.
Open Scope Z_scope.

Definition str := list Z.
Definition str_eqb (a b : str) : bool := list_eqb Z.eqb a b.

Definition c_nl : Z := 10.
Definition c_sp : Z := 32.
Definition c_dq : Z := 34.       (* '' *)
Definition c_dollar : Z := 36.   (* $ *)
Definition c_slash : Z := 47.    (* / *)
Definition c_eq : Z := 61.       (* = *)
Definition c_bs : Z := 92.       (* \ *)
Definition c_bt : Z := 96.       (* ` *)
Definition c_lbrace : Z := 123.  (* { *)
Definition c_rbrace : Z := 125.  (* } *)
Definition c_tilde : Z := 126.   (* ~ *)

Inductive res (A : Type) := Ok (a : A) | Unsupported.
Arguments Ok {A} a. Arguments Unsupported {A}.
Definition rmap {A B} (f : A -> B) (r : res A) : res B :=
  match r with Ok a => Ok (f a) | Unsupported => Unsupported end.
Definition rbind {A B} (r : res A) (f : A -> res B) : res B :=
  match r with Ok a => f a | Unsupported => Unsupported end.

(* ================= (a) the job file writer ================= *)

(* Python 3 `\s` on str (= str.isspace) *)
Definition is_space (c : Z) : bool :=
  ((9 <=? c) && (c <=? 13)) || ((28 <=? c) && (c <=? 32)) || (c =? 133) || (c =? 160) ||
  (c =? 5760) || ((8192 <=? c) && (c <=? 8202)) || (c =? 8232) || (c =? 8233) ||
  (c =? 8239) || (c =? 8287) || (c =? 12288).

(* the emitted word, structurally *)
Inductive word :=
| WQuoted (v : str)                      (*  ''v''            *)
| WTildeSlash (run tail : str)           (*  ~run/''tail''    *)
| WTildeOnly (run : str) (nl : bool).    (*  ~run  (value had a final newline when nl) *)

(* the maximal prefix without '/' and whitespace, and what stopped it *)
Fixpoint split_run (s : str) : str * option (Z * str) :=
  match s with
  | [] => ([], None)
  | c :: r =>
      if (c =? c_slash) || is_space c then ([], Some (c, r))
      else let '(run, stop) := split_run r in (c :: run, stop)
  end.

Definition has_nl (s : str) : bool := mem Z.eqb c_nl s.

(* _get_variable_value_definition(value, {}) :
     1. value is '~', a run without '/' and whitespace, a '/', then anything up to
        the end (no newline, except one final newline which is dropped):  head''tail''
     2. value is '~' followed only by non-whitespace (a final newline allowed):  value
     3. otherwise:  ''value''  *)
Definition definition (v : str) : word :=
  match v with
  | c :: r =>
      if c =? c_tilde then
        match split_run r with
        | (run, None) => WTildeOnly run false
        | (run, Some (d, rest)) =>
            if d =? c_slash then
              if has_nl rest then
                if has_nl (removelast rest) || negb (last rest 0 =? c_nl) then WQuoted v
                else WTildeSlash run (removelast rest)
              else WTildeSlash run rest
            else
              match rest with
              | [] => if d =? c_nl then WTildeOnly run true else WQuoted v
              | _ => WQuoted v
              end
        end
      else WQuoted v
  | [] => WQuoted []
  end.

Definition render (w : word) : str :=
  match w with
  | WQuoted v => [c_dq] ++ v ++ [c_dq]
  | WTildeSlash run tail => [c_tilde] ++ run ++ [c_slash; c_dq] ++ tail ++ [c_dq]
  | WTildeOnly run nl => [c_tilde] ++ run ++ (if nl then [c_nl] else [])
  end.

Definition conf := list (str * str).     (* (name, value) in configuration order *)

(* ''\n\ncylc__job__inst__user_env() {''  and  ''\n    # TASK RUNTIME ENVIRONMENT:'' *)
Definition txt_open : str :=
  [10;10;99;121;108;99;95;95;106;111;98;95;95;105;110;115;116;95;95;117;115;101;114;95;101;110;118;40;41;32;123].
Definition txt_comment : str :=
  [10;32;32;32;32;35;32;84;65;83;75;32;82;85;78;84;73;77;69;32;69;78;86;73;82;79;78;77;69;78;84;58].
Definition txt_export : str := [10;32;32;32;32;101;120;112;111;114;116].   (* ''\n    export'' *)
Definition txt_indent : str := [10;32;32;32;32].
Definition txt_close : str := [10;125].                                   (* ''\n}'' *)

(* the assignments of the section, in emission order *)
Definition assignments (c : conf) : list (str * word) :=
  map (fun nv => (fst nv, definition (snd nv))) c.

Definition render_section (c : conf) : str :=
  match c with
  | [] => []
  | _ =>
      txt_open ++ txt_comment ++ txt_export ++
      flat_map (fun nv => c_sp :: fst nv) c ++
      flat_map (fun nw => txt_indent ++ fst nw ++ [c_eq] ++ render (snd nw)) (assignments c) ++
      txt_close
  end.

(* ================= (b) bash ================= *)
Definition env := list (str * str).
Definition lookup (e : env) (n : str) : str :=
  match assoc str_eqb n e with Some v => v | None => [] end.
Definition update (e : env) (n v : str) : env := (n, v) :: e.

Definition is_alpha_us (c : Z) : bool :=
  ((65 <=? c) && (c <=? 90)) || ((97 <=? c) && (c <=? 122)) || (c =? 95).
Definition is_digit (c : Z) : bool := (48 <=? c) && (c <=? 57).
Definition name_start := is_alpha_us.
Definition name_char (c : Z) : bool := is_alpha_us c || is_digit c.

(* inside double quotes: $ ` \ '' are special; the model supports \-escapes and
   $NAME / ${NAME}; everything else special is Unsupported *)
Inductive dqstate := Plain | Esc | Dollar | Name (acc : str) | Brace (acc : str).

Fixpoint dq (e : env) (st : dqstate) (s : str) : res str :=
  match s with
  | [] =>
      match st with
      | Plain => Ok []
      | Name acc => Ok (lookup e acc)
      | _ => Unsupported
      end
  | c :: r =>
      let plain := fun _ : unit =>
        if c =? c_bs then dq e Esc r
        else if c =? c_dollar then dq e Dollar r
        else if (c =? c_bt) || (c =? c_dq) then Unsupported
        else rmap (cons c) (dq e Plain r) in
      match st with
      | Plain => plain tt
      | Esc =>
          if (c =? c_dollar) || (c =? c_bt) || (c =? c_dq) || (c =? c_bs)
          then rmap (cons c) (dq e Plain r)
          else if c =? c_nl then dq e Plain r
          else rmap (fun t => c_bs :: c :: t) (dq e Plain r)
      | Dollar =>
          if name_start c then dq e (Name [c]) r
          else if c =? c_lbrace then dq e (Brace []) r
          else Unsupported
      | Name acc =>
          if name_char c then dq e (Name (acc ++ [c])) r
          else rmap (app (lookup e acc)) (plain tt)
      | Brace acc =>
          if c =? c_rbrace then
            match acc with
            | [] => Unsupported
            | _ => rmap (app (lookup e acc)) (dq e Plain r)
            end
          else if (match acc with [] => name_start c | _ => name_char c end)
          then dq e (Brace (acc ++ [c])) r
          else Unsupported
      end
  end.

(* tilde-prefix: ~ -> $HOME, ~login -> that user's home directory, or unchanged if
   there is no such user; other forms (~+ ~- ~N, odd characters) Unsupported *)
Definition login_char (c : Z) : bool := name_char c || (c =? 46) || (c =? 45).
Definition safe_login (s : str) : bool :=
  match s with
  | [] => false
  | c :: r => name_start c && forallb login_char r
  end.

Definition s_HOME : str := [72; 79; 77; 69].

Definition tilde_expand (e : env) (users : list (str * str)) (run : str) : res str :=
  match run with
  | [] => match assoc str_eqb s_HOME e with Some h => Ok h | None => Unsupported end
  | _ =>
      if safe_login run then
        Ok (match assoc str_eqb run users with Some h => h | None => c_tilde :: run end)
      else Unsupported
  end.

Definition eval_word (e : env) (users : list (str * str)) (w : word) : res str :=
  match w with
  | WQuoted v => dq e Plain v
  | WTildeSlash run tail =>
      rbind (tilde_expand e users run) (fun h =>
      rmap (fun t => h ++ c_slash :: t) (dq e Plain tail))
  | WTildeOnly run _ => tilde_expand e users run
  end.

(* the body of cylc__job__inst__user_env: assignments evaluated in order *)
Fixpoint run_assignments (e : env) (users : list (str * str)) (a : list (str * word)) : res env :=
  match a with
  | [] => Ok e
  | (n, w) :: r =>
      match eval_word e users w with
      | Ok v => run_assignments (update e n v) users r
      | Unsupported => Unsupported
      end
  end.

Definition run_section (e : env) (users : list (str * str)) (c : conf) : res env :=
  run_assignments e users (assignments c).

(* ================= correspondence interface ================= *)
Record case := {
  c_env0 : env;                     (* initial environment of the bash process (HOME ...) *)
  c_users : list (str * str);       (* login -> home directory (passwd) *)
  c_conf : conf;
  c_text : str;                     (* what the real JobFileWriter wrote *)
  c_vals : option (list str)        (* value of each configured variable after sourcing
                                       the section in bash; None = bash failed *)
}.

Definition model_vals (c : case) : res (list str) :=
  rmap (fun e => map (fun nv => lookup e (fst nv)) (c_conf c))
       (run_section (c_env0 c) (c_users c) (c_conf c)).

Definition model_out (c : case) := (render_section (c_conf c), model_vals c).

Definition check_case (c : case) : bool :=
  str_eqb (render_section (c_conf c)) (c_text c) &&
  match model_vals c, c_vals c with
  | Ok l, Some l' => list_eqb str_eqb l l'
  | _, _ => false
  end.
