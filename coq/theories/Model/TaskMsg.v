(* Model/TaskMsg.v — executable hand model of single-task job-message
   processing (shared by C09, C10, C02):

     TaskEventsManager.process_message / _process_message_check /
       _process_message_{started,succeeded,expired,failed,submit_failed,submitted} /
       _retry_task                                   (cylc/flow/task_events_mgr.py)
     TaskOutputs.set_message_complete / get_incomplete_implied (task_outputs.py)
     TaskState.reset / is_gt / is_gte                           (task_state.py)
     TaskActionTimer.next                                 (task_action_timer.py)
     TaskJobManager.prep_submit_task_jobs (status/submit_num part),
       _set_retry_timers, _submit_task_job_callback          (task_job_mgr.py)

   for an unforced message to a non-transient live-mode task.  The status
   order, the implied-output table and the "received message would move the
   status backwards" guards come from Gen/TaskMsgTables.v, which is regenerated
   from /repo on every run.  Tied to the code by the "taskmsg" correspondence
   stream (status, submit number, outputs, timers, effects after every op).

   Not modelled (no influence on the observed fields): event handlers, DB
   and data-store writes, job poll timers, logging; vacation messages. *)
From Coq Require Import List Bool Arith ZArith Lia.
From Cylc Require Import Base.Util Gen.TaskMsgTables.
Import ListNotations.

(* ---------- vocabulary ---------- *)
Inductive out := Std (s : stdout) | Custom (k : nat).
Notation OExpired := (Std SoExpired).
Notation OSubmitted := (Std SoSubmitted).
Notation OSubmitFailed := (Std SoSubmitFailed).
Notation OStarted := (Std SoStarted).
Notation OSucceeded := (Std SoSucceeded).
Notation OFailed := (Std SoFailed).
Notation OCustom := Custom.

(* message texts, as process_message distinguishes them:
   MFailed = "failed", "failed/SIG", "aborted/REASON" (task_output = failed);
   MSubFail = "submission failed"; MCustom k = the message of custom output k
   (registered iff k < cf_k); MOther = any text that is no output message *)
Inductive msg := MSubmitted | MStarted | MSucceeded | MFailed | MSubFail | MExpired
               | MCustom (k : nat) | MOther.
Inductive flag := Received | Polled | Internal.

Inductive effect :=
| ESpawn (o : out)        (* spawn_children(itask, o) *)
| EPoll                   (* process_message returned True: poll to confirm *)
| ERetry (submit : bool). (* _retry_task: retry xtrigger set, back to waiting *)

(* TaskActionTimer: only len(delays) and num matter for next() *)
Record timer := { tm_len : nat; tm_num : nat }.

Record task := {
  st : status;
  sn : nat;                  (* itask.submit_num *)
  outs : list out;           (* completed outputs *)
  texec : option timer;      (* try_timers['execution-retry'] *)
  tsub : option timer;       (* try_timers['submission-retry'] *)
  cf_n : nat;                (* len(execution retry delays) *)
  cf_m : nat;                (* len(submission retry delays) *)
  cf_k : nat                 (* number of custom outputs *)
}.

Definition set_st (t : task) (s : status) : task :=
  {| st := s; sn := sn t; outs := outs t; texec := texec t; tsub := tsub t;
     cf_n := cf_n t; cf_m := cf_m t; cf_k := cf_k t |}.
Definition set_outs (t : task) (o : list out) : task :=
  {| st := st t; sn := sn t; outs := o; texec := texec t; tsub := tsub t;
     cf_n := cf_n t; cf_m := cf_m t; cf_k := cf_k t |}.
Definition set_texec (t : task) (x : option timer) : task :=
  {| st := st t; sn := sn t; outs := outs t; texec := x; tsub := tsub t;
     cf_n := cf_n t; cf_m := cf_m t; cf_k := cf_k t |}.
Definition set_tsub (t : task) (x : option timer) : task :=
  {| st := st t; sn := sn t; outs := outs t; texec := texec t; tsub := x;
     cf_n := cf_n t; cf_m := cf_m t; cf_k := cf_k t |}.

Definition fresh (n m k : nat) : task :=
  {| st := Waiting; sn := 0; outs := []; texec := None; tsub := None;
     cf_n := n; cf_m := m; cf_k := k |}.

(* ---------- decidable equalities ---------- *)
Definition status_eqb (a b : status) : bool := Nat.eqb (status_rank a) (status_rank b).
Definition stdout_eqb (a b : stdout) : bool :=
  match a, b with
  | SoExpired, SoExpired | SoSubmitted, SoSubmitted | SoSubmitFailed, SoSubmitFailed
  | SoStarted, SoStarted | SoSucceeded, SoSucceeded | SoFailed, SoFailed => true
  | _, _ => false
  end.
Definition out_eqb (a b : out) : bool :=
  match a, b with
  | Std x, Std y => stdout_eqb x y
  | Custom x, Custom y => Nat.eqb x y
  | _, _ => false
  end.
Definition flag_received (f : flag) : bool := match f with Received => true | _ => false end.
Definition msg_is_expired (m : msg) : bool := match m with MExpired => true | _ => false end.

(* ---------- TaskState.is_gt / is_gte, TaskOutputs ---------- *)
Definition is_gt (t : task) (s : status) : bool := status_rank s <? status_rank (st t).
Definition is_gte (t : task) (s : status) : bool := status_rank s <=? status_rank (st t).

Definition is_complete (t : task) (o : out) : bool := mem out_eqb o (outs t).
(* set_message_complete for a registered output: (task, "was newly completed") *)
Definition complete (t : task) (o : out) : task * bool :=
  if is_complete t o then (t, false) else (set_outs t (o :: outs t), true).

(* the output (if any) whose message is the task_output part of the text *)
Definition msg_std (m : msg) : option stdout :=
  match m with
  | MSubmitted => Some SoSubmitted | MStarted => Some SoStarted
  | MSucceeded => Some SoSucceeded | MFailed => Some SoFailed
  | MExpired => Some SoExpired
  | MSubFail | MCustom _ | MOther => None     (* "submission failed" is no output message *)
  end.
Definition msg_out (t : task) (m : msg) : option out :=
  match m with
  | MCustom k => if k <? cf_k t then Some (Custom k) else None
  | _ => match msg_std m with Some s => Some (Std s) | None => None end
  end.
(* `if task_output not in {submit-failed, failed}: set_message_complete(task_output)` *)
Definition complete_msg (t : task) (m : msg) : task * bool :=
  match msg_out t m with
  | Some (Std s) => if mem stdout_eqb s deferred_outputs then (t, false) else complete t (Std s)
  | Some o => complete t o
  | None => (t, false)
  end.
(* get_incomplete_implied(task_output), evaluated once before the loop *)
Definition implied (t : task) (m : msg) : list stdout :=
  match msg_std m with
  | Some s => filter (fun o => negb (is_complete t (Std o))) (implied_std s)
  | None => []
  end.
Definition std_msg (s : stdout) : msg :=
  match s with
  | SoExpired => MExpired | SoSubmitted => MSubmitted | SoSubmitFailed => MOther
  | SoStarted => MStarted | SoSucceeded => MSucceeded | SoFailed => MFailed
  end.

(* ---------- TaskActionTimer.next() ---------- *)
Definition timer_next (x : timer) : option timer :=
  if tm_num x <? tm_len x then Some {| tm_len := tm_len x; tm_num := S (tm_num x) |} else None.
Definition timer_lined_up (x : option timer) : bool :=
  match x with Some y => 0 <? tm_num y | None => false end.
Definition retry_lined_up (t : task) : bool :=
  timer_lined_up (tsub t) || timer_lined_up (texec t).

(* ---------- _process_message_check (not transient, not forced, live mode) ---------- *)
Definition check (t : task) (m : msg) (f : flag) (n : Z) : bool :=
  if flag_received f && negb (Z.eqb n (Z.of_nat (sn t))) then false
  else if status_eqb (st t) Waiting && negb (msg_is_expired m) && retry_lined_up t then false
  else true.

(* the "already past that state" guard of a received message *)
Definition guarded (t : task) (f : flag) (g : gmsg) : bool :=
  flag_received f &&
  match guard_of g with
  | Some (CGt, s) => is_gt t s
  | Some (CGte, s) => is_gte t s
  | None => false
  end.

(* state_reset(status): changes only the status here *)
Definition started_core (t : task) : task :=
  let t1 := set_st t Running in
  match tsub t1 with
  | Some x => set_tsub t1 (Some {| tm_len := tm_len x; tm_num := 0 |})
  | None => t1
  end.

(* _process_message_failed: (task, no_retries, effects) *)
Definition failed_core (t : task) : task * list effect :=
  match match texec t with Some x => timer_next x | None => None end with
  | None =>
      let t1 := if status_eqb (st t) Failed then t
                else fst (complete (set_st t Failed) OFailed) in
      (t1, [ESpawn OFailed])
  | Some x' => (set_st (set_texec t (Some x')) Waiting, [ERetry false])
  end.
Definition subfail_core (t : task) : task * list effect :=
  match match tsub t with Some x => timer_next x | None => None end with
  | None =>
      let t1 := if status_eqb (st t) SubmitFailed then t
                else fst (complete (set_st t SubmitFailed) OSubmitFailed) in
      (t1, [ESpawn OSubmitFailed])
  | Some x' => (set_st (set_tsub t (Some x')) Waiting, [ERetry true])
  end.

(* the if/elif chain of process_message after the implied outputs *)
Definition core (t : task) (m : msg) (f : flag) (completed : bool) : task * list effect :=
  match m with
  | MStarted =>
      if guarded t f GStarted then (t, [EPoll])
      else (started_core t, [ESpawn OStarted])
  | MSucceeded =>
      if guarded t f GSucceeded then (t, [EPoll])
      else (set_st t Succeeded, [ESpawn OSucceeded])
  | MExpired =>
      if guarded t f GExpired then (t, [EPoll])
      else (set_st t Expired, [ESpawn OExpired])
  | MFailed =>
      if guarded t f GFailed then (t, [EPoll]) else failed_core t
  | MSubFail =>
      if guarded t f GSubFail then (t, [EPoll]) else subfail_core t
  | MSubmitted =>
      if guarded t f GSubmitted then (t, [EPoll])
      else ((if status_eqb (st t) Preparing then set_st t Submitted else t), [ESpawn OSubmitted])
  | MCustom k => if completed then (t, [ESpawn (Custom k)]) else (t, [])
  | MOther => (t, [])
  end.

(* process_message, parametrised by the recursive call used for implied
   outputs (FLAG_INTERNAL, same submit number; its return value is dropped) *)
Definition not_poll (e : effect) : bool := match e with EPoll => false | _ => true end.
Definition pm_gen (rec : task -> msg -> Z -> task * list effect)
           (t : task) (m : msg) (f : flag) (n : Z) : task * list effect :=
  if negb (check t m f n) then (t, [])
  else
    let p1 := complete_msg t m in
    let p2 :=
      fold_left (fun acc o =>
                   let r := rec (fst acc) (std_msg o) n in
                   (fst r, snd acc ++ filter not_poll (snd r)))
                (implied (fst p1) m) (fst p1, []) in
    let p3 := core (fst p2) m f (snd p1) in
    (fst p3, snd p2 ++ snd p3).

(* the implied-output recursion is at most two deep (failed -> started -> submitted) *)
Definition pm0 (t : task) (m : msg) (n : Z) : task * list effect :=
  pm_gen (fun t _ _ => (t, [])) t m Internal n.
Definition pm1 (t : task) (m : msg) (n : Z) : task * list effect :=
  pm_gen pm0 t m Internal n.
Definition process_message (t : task) (m : msg) (f : flag) (n : Z) : task * list effect :=
  pm_gen pm1 t m f n.

(* ---------- job preparation / submission result ---------- *)
(* prep_submit_task_jobs + _set_retry_timers (set_delays keeps num) *)
Definition set_retry_timer (x : option timer) (len : nat) : option timer :=
  match x with
  | Some y => Some {| tm_len := len; tm_num := tm_num y |}
  | None => Some {| tm_len := len; tm_num := 0 |}
  end.
Definition prep_raw (t : task) : task :=
  let t1 := if status_eqb (st t) Preparing then t
            else {| st := Preparing; sn := S (sn t); outs := outs t; texec := texec t;
                    tsub := tsub t; cf_n := cf_n t; cf_m := cf_m t; cf_k := cf_k t |} in
  set_tsub (set_texec t1 (set_retry_timer (texec t1) (cf_n t1))) (set_retry_timer (tsub t1) (cf_m t1)).

Inductive op :=
| OpPrep                                  (* released to job preparation *)
| OpSubRes (ok : bool)                    (* _submit_task_job_callback *)
| OpMsg (m : msg) (f : flag) (rel : Z).   (* message for submit number sn + rel *)

(* only waiting (or still preparing) tasks are sent to job preparation *)
Definition preppable (t : task) : bool :=
  status_eqb (st t) Waiting || status_eqb (st t) Preparing.

Definition step (t : task) (o : op) : task * list effect :=
  match o with
  | OpPrep => if preppable t then (prep_raw t, []) else (t, [])
  | OpSubRes ok =>
      process_message t (if ok then MSubmitted else MSubFail) Internal (Z.of_nat (sn t))
  | OpMsg m f rel => process_message t m f (Z.of_nat (sn t) + rel)%Z
  end.

Fixpoint run (t : task) (ops : list op) : task * list (task * list effect) :=
  match ops with
  | [] => (t, [])
  | o :: r =>
      let p := step t o in
      let q := run (fst p) r in
      (fst q, p :: snd q)
  end.
Definition final (t : task) (ops : list op) : task := fst (run t ops).

(* ---------- correspondence interface ---------- *)
Record obs := {
  o_st : status; o_sn : nat; o_outs : list out;
  o_exec : option (nat * nat); o_sub : option (nat * nat);
  o_eff : list effect
}.
Record case := { c_n : nat; c_m : nat; c_k : nat; c_ops : list op; c_impl : list obs }.

Definition std_universe : list stdout :=
  [SoExpired; SoSubmitted; SoSubmitFailed; SoStarted; SoSucceeded; SoFailed].
Definition universe (k : nat) : list out := map Std std_universe ++ map Custom (seq 0 k).
Definition canon_outs (t : task) : list out :=
  filter (fun o => is_complete t o) (universe (S (cf_k t))).
Definition timer_obs (x : option timer) : option (nat * nat) :=
  match x with Some y => Some (tm_len y, tm_num y) | None => None end.

Definition effect_eqb (a b : effect) : bool :=
  match a, b with
  | ESpawn x, ESpawn y => out_eqb x y
  | EPoll, EPoll => true
  | ERetry x, ERetry y => Bool.eqb x y
  | _, _ => false
  end.
Definition natpair_eqb (a b : nat * nat) : bool := pair_eqb Nat.eqb Nat.eqb a b.

Definition obs_of (te : task * list effect) : obs :=
  let '(t, e) := te in
  {| o_st := st t; o_sn := sn t; o_outs := canon_outs t;
     o_exec := timer_obs (texec t); o_sub := timer_obs (tsub t); o_eff := e |}.
Definition obs_eqb (a b : obs) : bool :=
  status_eqb (o_st a) (o_st b) && Nat.eqb (o_sn a) (o_sn b) &&
  list_eqb out_eqb (o_outs a) (o_outs b) &&
  option_eqb natpair_eqb (o_exec a) (o_exec b) &&
  option_eqb natpair_eqb (o_sub a) (o_sub b) &&
  list_eqb effect_eqb (o_eff a) (o_eff b).

Definition model_out (c : case) : list obs :=
  map obs_of (snd (run (fresh (c_n c) (c_m c) (c_k c)) (c_ops c))).
Definition check_case (c : case) : bool := list_eqb obs_eqb (model_out c) (c_impl c).
