(* Model/GraphAst.v — C14: graph ASTs, what they mean (reference semantics),
   and how they are rendered to tokens (logical lines, then physical text).
   Definitions only; the theorems are in Proofs/GraphParseProofs.v and
   Props/C14.v.

   graph  = list of chains
   chain  = head expression  =>  group  =>  group ...      (0 or more groups)
   group  = node & node & ...    where a node may carry "!" (suicide), ":qual", "?"
   A non-final group is also the left side of the next arrow. *)
From Coq Require Import List Bool Arith String.
From Cylc Require Import Base.Util Gen.FamTables Model.GraphBase Model.GraphExpr Model.FamTrig
  Model.GraphParse.
Import ListNotations.

Record rnode := mkR { r_s : bool; r_n : node }.
Definition group := list rnode.
Record chain := mkChain { ch_head : lexpr; ch_groups : list group }.
Definition graph := list chain.

(* ---------------- printing to logical lines ---------------- *)
Definition print_r (r : rnode) : list tok := if r_s r then [TBang; TN (r_n r)] else [TN (r_n r)].
Definition print_g (g : group) : list tok := join_toks TAnd (map print_r g).
Definition print_chain (c : chain) : list tok :=
  print_e (ch_head c) ++ flat_map (fun g => TArrow :: print_g g) (ch_groups c).

(* a group read as the left side of the next arrow / as the head of a cut line *)
Definition group_expr (g : group) : lexpr := big_op true (map (fun r => LN (r_n r)) g).

(* ---------------- reference semantics ---------------- *)
(* optionality assertions: (task, output other than "finished", optional?) *)
Definition oassert := (name * string * bool)%type.

Definition expand_assert (n : name) (out : string) (optional : bool) : list oassert :=
  if String.eqb out TASK_OUTPUT_FINISHED
  then [(n, TASK_OUTPUT_SUCCEEDED, true); (n, TASK_OUTPUT_FAILED, true)]
  else [(n, out, optional)].

(* a node of a head expression: names its output (default succeeded) *)
Definition head_node_asserts (n : node) : list oassert :=
  expand_assert (n_name n) (task_out n) (n_opt n).

(* a node on the right of an arrow.  [infer]: is ":succeeded" inferred for a
   plain name here?  Reference: yes unless the group ends its chain. *)
Definition rnode_asserts (infer : bool) (r : rnode) : list oassert :=
  if r_s r then []
  else match n_qual (r_n r) with
       | Some q => expand_assert (n_name (r_n r)) (std_name q) (n_opt (r_n r))
       | None =>
           if n_opt (r_n r) then [(n_name (r_n r), TASK_OUTPUT_SUCCEEDED, true)]
           else if infer then [(n_name (r_n r), TASK_OUTPUT_SUCCEEDED, false)]
           else []
       end.

Fixpoint groups_asserts (gs : list group) : list oassert :=
  match gs with
  | [] => []
  | g :: r =>
      flat_map (rnode_asserts (negb (is_nil r))) g ++ groups_asserts r
  end.

Definition chain_asserts (c : chain) : list oassert :=
  flat_map head_node_asserts (nodes_e (ch_head c)) ++ groups_asserts (ch_groups c).

Definition graph_asserts (g : graph) : list oassert := flat_map chain_asserts g.

(* trigger assertions: (task, stored expression, suicide?) *)
Definition tassert := (name * list tok * bool)%type.

Fixpoint has_or_par (e : lexpr) : bool :=
  match e with
  | LN _ => false
  | LPar _ | LOr _ _ => true
  | LAnd a b => has_or_par a || has_or_par b
  end.

Fixpoint and_pieces (e : lexpr) : list lexpr :=
  match e with
  | LAnd a b => and_pieces a ++ and_pieces b
  | _ => [e]
  end.

(* a left side without | and ( ) is split on &: one trigger per conjunct *)
Definition left_pieces (e : lexpr) : list lexpr := if has_or_par e then [e] else and_pieces e.

(* the expression stored for a left piece: qualifiers standardised, succeeded
   explicit, "?" dropped, finished = (succeeded|failed) *)
Definition stored_expr (p : lexpr) : list tok := print_e (expand_e [] p).

Definition pair_trigs (l : lexpr) (g : group) : list tassert :=
  flat_map (fun p => map (fun r => (n_name (r_n r), stored_expr p, r_s r)) g) (left_pieces l).

Fixpoint chain_trigs (l : lexpr) (gs : list group) : list tassert :=
  match gs with
  | [] => []
  | g :: r => pair_trigs l g ++ chain_trigs (group_expr g) r
  end.

Definition graph_trigs (g : graph) : list tassert :=
  flat_map (fun c => chain_trigs (ch_head c) (ch_groups c)) g.

(* the tasks the graph defines: head nodes without offset, all right-hand nodes *)
Definition chain_tasks (c : chain) : list name :=
  map n_name (filter (fun n => Nat.eqb (n_off n) 0) (nodes_e (ch_head c)))
  ++ flat_map (map (fun r => n_name (r_n r))) (ch_groups c).
Definition graph_tasks (g : graph) : list name := flat_map chain_tasks g.

(* ---------------- well-formedness ---------------- *)
Definition oassert_guard (a : oassert) : bool :=
  let '(_, o, b) := a in
  negb ((String.eqb o TASK_OUTPUT_EXPIRED || String.eqb o TASK_OUTPUT_SUBMIT_FAILED) && negb b).

(* two assertions do not contradict each other *)
Definition ocompat (a a' : oassert) : bool :=
  let '(n, o, b) := a in
  let '(n', o', b') := a' in
  negb (Nat.eqb n n')
  || ((negb (String.eqb o o') || Bool.eqb b b')
      && (negb (option_eqb String.eqb (opposite o) (Some o')) || (b && b'))).

Definition tcompat (a a' : tassert) : bool :=
  let '(n, e, s) := a in
  let '(n', e', s') := a' in
  negb (Nat.eqb n n' && toks_eqb e e') || Bool.eqb s s'.

(* a node may not say ":finish?" *)
Definition node_fin_ok (n : node) : bool :=
  negb (String.eqb (task_out n) TASK_OUTPUT_FINISHED && n_opt n).

Definition rnode_ok (r : rnode) : bool :=
  Nat.eqb (n_off (r_n r)) 0 && node_accepted [] (r_n r)
  && (r_s r || node_fin_ok (r_n r)).

Fixpoint groups_ok (gs : list group) : bool :=
  match gs with
  | [] => true
  | g :: r =>
      negb (is_nil g) && forallb rnode_ok g
      && (is_nil r || forallb (fun x => negb (r_s x) && node_fin_ok (r_n x)) g)
      && groups_ok r
  end.

Definition chain_ok (c : chain) : bool :=
  wf_lvl 0 (ch_head c)
  && forallb (fun n => node_accepted [] n && node_fin_ok n) (nodes_e (ch_head c))
  && groups_ok (ch_groups c).

Definition wf_graph (g : graph) : bool :=
  forallb chain_ok g
  && forallb oassert_guard (graph_asserts g)
  && forallb (fun a => forallb (ocompat a) (graph_asserts g)) (graph_asserts g)
  && forallb (fun a => forallb (tcompat a) (graph_trigs g)) (graph_trigs g).

(* the hypothesis that excludes the end-of-chain finding: a plain node that
   ends some chain and is inside another one is also the head node of a chain *)
Definition plain (n : node) : bool :=
  match n_qual n with None => negb (n_opt n) | Some _ => false end.

Definition final_pieces (c : chain) : list (list tok) :=
  match rev (ch_groups c) with
  | g :: _ => map print_r g
  | [] => split_on is_and (print_e (ch_head c))
  end.

Fixpoint inner_groups (gs : list group) : list group :=
  match gs with
  | [] => []
  | [_] => []
  | g :: r => g :: inner_groups r
  end.

Definition inner_plain_nodes (g : graph) : list node :=
  flat_map (fun c => flat_map (fun gr => map r_n (filter (fun r => negb (r_s r) && plain (r_n r)) gr))
                        (inner_groups (ch_groups c))) g.

Definition eoc_safe (g : graph) : bool :=
  forallb (fun n =>
             negb (mem toks_eqb [TN n] (flat_map final_pieces g))
             || mem node_eqb n (flat_map (fun c => nodes_e (ch_head c)) g))
          (inner_plain_nodes g).

(* ---------------- presentation 1: chains vs pairs, line order, duplicates ---------------- *)
(* cut a chain after the groups flagged true (the last group is never cut) *)
Fixpoint cut_groups (h : lexpr) (acc : list group) (gs : list group) (flags : list bool) : list chain :=
  match gs with
  | [] => [mkChain h (rev acc)]
  | g :: r =>
      let cut := match flags with f :: _ => f | [] => false end in
      let fl := match flags with _ :: t => t | [] => [] end in
      if cut && negb (is_nil r)
      then mkChain h (rev (g :: acc)) :: cut_groups (group_expr g) [] r fl
      else cut_groups h (g :: acc) r fl
  end.

Definition cut_chain (c : chain) (flags : list bool) : list chain :=
  cut_groups (ch_head c) [] (ch_groups c) flags.

Fixpoint cut_graph (g : graph) (cuts : list (list bool)) : graph :=
  match g with
  | [] => []
  | c :: r =>
      cut_chain c (match cuts with f :: _ => f | [] => [] end)
      ++ cut_graph r (match cuts with _ :: t => t | [] => [] end)
  end.

(* select lines by index: any order, with repetitions; every line at least once *)
Definition arrange (sel : list nat) (ls : graph) : graph :=
  flat_map (fun i => match nth_error ls i with Some c => [c] | None => [] end) sel.
Definition covers (sel : list nat) (n : nat) : bool :=
  forallb (fun i => mem Nat.eqb i sel) (seq 0 n).

(* ---------------- presentation 2: physical text ---------------- *)
(* One physical line that carries tokens: leading blanks, then each token
   followed by optional blanks, then an optional comment. *)
Record pline := mkPl { pl_lead : list nat; pl_toks : list (tok * list nat); pl_com : option nat }.
(* a physical line without tokens: blanks and/or a comment *)
Record filler := mkFi { fi_ws : list nat; fi_com : option nat }.

Definition print_ws (l : list nat) : list tok := map TWs l.
Definition print_com (c : option nat) : list tok := match c with Some k => [TCom k] | None => [] end.
Definition print_pline (p : pline) : list tok :=
  print_ws (pl_lead p) ++ flat_map (fun tw => fst tw :: print_ws (snd tw)) (pl_toks p) ++ print_com (pl_com p).
Definition print_filler (f : filler) : list tok := print_ws (fi_ws f) ++ print_com (fi_com f).

Definition pline_toks (p : pline) : list tok := map fst (pl_toks p).

(* a logical line laid out on one or more physical lines (continuation at an
   operator), each followed by any number of fillers *)
Definition layout := list (pline * list filler).

Definition layout_toks (l : layout) : list tok := flat_map (fun pf => pline_toks (fst pf)) l.

Definition print_layout_lines (l : layout) : list (list tok) :=
  flat_map (fun pf => print_pline (fst pf) :: map print_filler (snd pf)) l.

(* the whole text: fillers, then the laid-out logical lines; physical lines are
   separated by newlines *)
Definition text_lines (pre : list filler) (ls : list layout) : list (list tok) :=
  map print_filler pre ++ flat_map print_layout_lines ls.

Fixpoint join_nl (ls : list (list tok)) : list tok :=
  match ls with
  | [] => []
  | [x] => x
  | x :: r => x ++ TNl :: join_nl r
  end.

Definition render_text (pre : list filler) (ls : list layout) : list tok := join_nl (text_lines pre ls).

(* a layout is a legal presentation of a logical line [toks]:
   - its tokens are exactly toks, every physical segment non-empty;
   - each boundary between two segments is at a continuation operator: the
     first segment ends with one or the second starts with one, not both;
   - [toks] itself neither starts nor ends with an operator, has no && / ||,
     and a blank never separates two node texts (there are none adjacent). *)
Fixpoint seg_ok (segs : list (list tok)) : bool :=
  match segs with
  | [] => true
  | s :: r =>
      negb (is_nil s)
      && match r with
         | [] => true
         | s2 :: _ => xorb (ends_cont s) (starts_cont s2)
                      && negb (ends_bad s || starts_bad s2)
         end
      && seg_ok r
  end.

Definition clean_tok (t : tok) : bool :=
  match t with TWs _ | TCom _ | TNl => false | _ => true end.

Definition line_ok (toks : list tok) : bool :=
  negb (is_nil toks) && forallb clean_tok toks
  && negb (starts_cont toks) && negb (ends_cont toks)
  && negb (adj_nodes toks).

Definition layout_ok (toks : list tok) (l : layout) : bool :=
  toks_eqb (layout_toks l) toks && seg_ok (map (fun pf => pline_toks (fst pf)) l).

(* ---------------- "the parser state means exactly the graph" ---------------- *)
Definition oassert_eqb (a b : oassert) : bool :=
  let '(n, o, x) := a in let '(n', o', x') := b in
  Nat.eqb n n' && String.eqb o o' && Bool.eqb x x'.
Definition tassert_eqb (a b : tassert) : bool :=
  let '(n, e, s) := a in let '(n', e', s') := b in
  Nat.eqb n n' && toks_eqb e e' && Bool.eqb s s'.

(* the non-empty triggers recorded for the tasks, as assertions *)
Definition state_trigs (st : pstate) : list tassert :=
  flat_map (fun nt => map (fun t => (fst nt, tg_expr t, tg_suicide t)) (nonempty_trigs (snd nt)))
           (ps_trig st).

(* recorded optionality, as assertions; None if an entry is not of the form
   (b, b, fixed) that explicit (non-family) settings produce *)
Definition state_asserts (st : pstate) : list (option oassert) :=
  map (fun kv => match kv with
                 | ((n, o), (b, d, f)) => if Bool.eqb b d && f then Some (n, o, b) else None
                 end) (ps_opt st).

Definition state_means (st : pstate) (g : graph) : bool :=
  (* optionality map = the graph's assertions *)
  forallb (fun oa => match oa with
                     | Some a => mem oassert_eqb a (graph_asserts g)
                     | None => false end) (state_asserts st)
  && forallb (fun a => mem (option_eqb oassert_eqb) (Some a) (state_asserts st)) (graph_asserts g)
  (* triggers = the graph's trigger assertions *)
  && forallb (fun a => mem tassert_eqb a (graph_trigs g)) (state_trigs st)
  && forallb (fun a => mem tassert_eqb a (state_trigs st)) (graph_trigs g)
  (* tasks *)
  && forallb (fun n => mem Nat.eqb n (graph_tasks g)) (map fst (ps_trig st))
  && forallb (fun n => mem Nat.eqb n (map fst (ps_trig st))) (graph_tasks g).

Definition outcome_means (r : res pstate) (g : graph) : bool :=
  match r with Ok st => state_means st g | _ => false end.

(* ---------------- correspondence interface (C14) ----------------
   One AST in several renderings, each with the implementation's outcome.
   Besides model = implementation on every rendering, a case whose AST is
   flagged well-formed must satisfy [wf_graph], [eoc_safe] and every rendering's
   model outcome must mean exactly the AST (the statement of the C14 theorem,
   checked on the generated cases as well). *)
Record acase := mkAcase {
  ac_ast : option (graph * bool);                 (* AST, expected well-formed & safe? *)
  ac_rend : list (list tok * ioutcome)
}.

Definition acase_model (c : acase) : list (res pstate) := map (fun ti => parse [] (fst ti)) (ac_rend c).

Definition check_acase (c : acase) : bool :=
  let rs := map (fun ti => (parse [] (fst ti), snd ti)) (ac_rend c) in
  forallb (fun x => outcome_matches (fst x) (snd x)) rs
  && match ac_ast c with
     | Some (g, true) =>
         wf_graph g && eoc_safe g && forallb (fun x => outcome_means (fst x) g) rs
     | Some (g, false) => negb (wf_graph g && eoc_safe g)
     | None => true
     end.
