(* Model/Flow.v — executable hand model of cylc/flow/flow_mgr.py (FlowMgr.get_flow,
   cli_to_flow_nums, load_from_db) together with the workflow_flows table of the
   run database (rundb.select_workflow_flows_max_flow_num / select_workflow_flows,
   workflow_db_mgr.put_insert_workflow_flows + process_queued_ops), tied to the
   source by the C08 correspondence stream "flowmgr".  Also the list-level view of
   the flow-number set union used when flows merge. *)
From Coq Require Import List Bool ZArith Lia.
From Cylc Require Import Base.Util.
Import ListNotations.
Open Scope Z_scope.

Record fstate := {
  f_counter : option Z;    (* FlowMgr.counter; None after load_from_db on an empty table (MAX() = NULL) *)
  f_flows : list Z;        (* keys of FlowMgr.flows *)
  f_pending : list Z;      (* queued INSERTs into workflow_flows (db_inserts_map) *)
  f_db : list Z            (* flow_num column of workflow_flows *)
}.

Definition f_init : fstate :=
  {| f_counter := Some 0; f_flows := []; f_pending := []; f_db := [] |}.

Definition zmem (x : Z) (l : list Z) : bool := mem Z.eqb x l.

(* `self.counter += 1; while self.counter in self.flows: self.counter += 1`
   [c] is the candidate; fuel bounds the number of skips *)
Fixpoint next_free (fuel : nat) (c : Z) (flows : list Z) : option Z :=
  match fuel with
  | O => None
  | S f => if zmem c flows then next_free f (c + 1) flows else Some c
  end.

Inductive fres := RNum (n : Z) | RTypeError | ROutOfFuel.

(* FlowMgr.get_flow *)
Definition get_flow (st : fstate) (flow_num : option Z) : fstate * fres :=
  let record n cnt :=
    if zmem n (f_flows st) then
      ({| f_counter := cnt; f_flows := f_flows st; f_pending := f_pending st; f_db := f_db st |}, RNum n)
    else
      ({| f_counter := cnt; f_flows := f_flows st ++ [n];
          f_pending := f_pending st ++ [n]; f_db := f_db st |}, RNum n) in
  match flow_num with
  | Some n => record n (f_counter st)
  | None =>
      match f_counter st with
      | None => (st, RTypeError)          (* None += 1 *)
      | Some c =>
          match next_free (S (length (f_flows st))) (c + 1) (f_flows st) with
          | Some n => record n (Some n)
          | None => (st, ROutOfFuel)
          end
      end
  end.

Definition zmax_list (l : list Z) : option Z :=
  match l with
  | [] => None
  | x :: r => Some (fold_left Z.max r x)
  end.

Definition zunion (a b : list Z) : list Z :=
  fold_left (fun acc x => if zmem x acc then acc else acc ++ [x]) b a.

(* process_queued_ops: INSERT OR REPLACE of the queued rows *)
Definition flush (st : fstate) : fstate :=
  {| f_counter := f_counter st; f_flows := f_flows st; f_pending := [];
     f_db := zunion (f_db st) (f_pending st) |}.

(* clean stop + restart: queued rows are written at shutdown; a new FlowMgr does
   load_from_db(flow_nums in the task pool) *)
Definition restart (st : fstate) (selected : list Z) : fstate :=
  let db := zunion (f_db st) (f_pending st) in
  {| f_counter := zmax_list db;
     f_flows := filter (fun x => zmem x selected) db;
     f_pending := []; f_db := db |}.

Inductive cli := CNone | CNew | CNums (l : list Z).

Inductive fop :=
| OGet (flow_num : option Z)       (* get_flow(flow_num) *)
| OCli (c : cli)                   (* cli_to_flow_nums(--flow=...) *)
| OFlush
| ORestart (selected : list Z).

(* results: OGet -> [n]; OCli -> the returned set, sorted *)
Inductive fobs := ObNums (l : list Z) | ObTypeError | ObUnit | ObFuel.

Definition zsorted (l : list Z) : list Z := sort_by Z.leb (dedup Z.eqb l).

Fixpoint get_all (st : fstate) (l : list Z) (acc : list Z) : fstate * list Z :=
  match l with
  | [] => (st, acc)
  | n :: r => let (st', res) := get_flow st (Some n) in
              match res with
              | RNum m => get_all st' r (acc ++ [m])
              | _ => (st', acc)
              end
  end.

Definition fstep (st : fstate) (o : fop) : fstate * fobs :=
  match o with
  | OGet fn =>
      let (st', r) := get_flow st fn in
      (st', match r with RNum n => ObNums [n] | RTypeError => ObTypeError | ROutOfFuel => ObFuel end)
  | OCli CNone => (st, ObNums [])
  | OCli CNew =>
      let (st', r) := get_flow st None in
      (st', match r with RNum n => ObNums [n] | RTypeError => ObTypeError | ROutOfFuel => ObFuel end)
  | OCli (CNums l) => let (st', res) := get_all st l [] in (st', ObNums (zsorted res))
  | OFlush => (flush st, ObUnit)
  | ORestart sel => (restart st sel, ObUnit)
  end.

Fixpoint frun (st : fstate) (ops : list fop) : fstate * list fobs :=
  match ops with
  | [] => (st, [])
  | o :: r => let (st', ob) := fstep st o in
              let (st'', obs) := frun st' r in (st'', ob :: obs)
  end.

(* ---- merging: the flow numbers of an instance after a merge ---- *)
Definition flow_union (mine other : list Z) : list Z := zsorted (mine ++ other).

(* ---- correspondence interface ---- *)
Definition zlist_eqb := list_eqb Z.eqb.

Definition fobs_eqb (a b : fobs) : bool :=
  match a, b with
  | ObNums x, ObNums y => zlist_eqb x y
  | ObTypeError, ObTypeError => true
  | ObUnit, ObUnit => true
  | _, _ => false
  end.

(* per op the implementation reports: result; counter; sorted keys of .flows;
   sorted flow_num column of the table *)
Record fobserved := { fo_res : fobs; fo_counter : option Z; fo_flows : list Z; fo_db : list Z }.

Record case := { c_trace : list (fop * fobserved) }.

Fixpoint check_trace (st : fstate) (tr : list (fop * fobserved)) : bool :=
  match tr with
  | [] => true
  | (o, ob) :: r =>
      let (st', res) := fstep st o in
      fobs_eqb res (fo_res ob)
      && option_eqb Z.eqb (f_counter st') (fo_counter ob)
      && zlist_eqb (zsorted (f_flows st')) (fo_flows ob)
      && zlist_eqb (zsorted (f_db st')) (fo_db ob)
      && check_trace st' r
  end.

Definition check_case (c : case) : bool := check_trace f_init (c_trace c).

Fixpoint model_trace (st : fstate) (ops : list fop) :=
  match ops with
  | [] => []
  | o :: r => let (st', res) := fstep st o in
              (res, f_counter st', zsorted (f_flows st'), zsorted (f_db st')) :: model_trace st' r
  end.
Definition model_out (c : case) := model_trace f_init (map fst (c_trace c)).
