(* Model/PointAlg.v — executable model of the cycle point / interval algebra:
   cylc/flow/cycling/__init__.py (PointBase / IntervalBase: __cmp__, __eq__,
   __lt__ ..., __hash__, __add__, __sub__) and cylc/flow/cycling/integer.py
   (IntegerPoint, IntegerInterval), plus the datetime classes
   (cylc/flow/cycling/iso8601.py: ISO8601Point / ISO8601Interval) over an
   abstract calendar.

   A point *is* its string value (PointBase.value); the integer it denotes is
   obtained by Python's int(), modelled by [parse_int] on the ASCII fragment
   [+-]?[0-9]+ (no whitespace, no underscores, no non-ASCII digits: the
   correspondence stream only sends such strings to this model).  str(int) is
   [show_z].  hash(point) = hash(point.value): the model identifies a hash
   with the string it is computed from.

   Hand model, tied to the source by the correspondence streams of C18. *)
From Coq Require Import List ZArith String Ascii Bool DecimalString.
From Cylc Require Import Base.Util.
Import ListNotations.
Local Open Scope Z_scope.

(* ------------------------------------------------------------------ *)
(* int(str) and str(int)                                               *)
(* ------------------------------------------------------------------ *)
Definition parse_uint (s : string) : option Z :=
  option_map Z.of_uint (NilZero.uint_of_string s).

(* Python int(s) for s over [+-0-9] (other characters: ValueError) *)
Definition parse_int (s : string) : option Z :=
  match s with
  | String "+"%char r => parse_uint r
  | _ => option_map Z.of_int (NilZero.int_of_string s)
  end.

(* Python str(z) *)
Definition show_z (z : Z) : string := NilZero.string_of_int (Z.to_int z).

(* ------------------------------------------------------------------ *)
(* outcomes                                                            *)
(* ------------------------------------------------------------------ *)
Inductive err := ValueError | PointParsingError | IntervalParsingError | OtherError.
Inductive res (A : Type) := Ok (a : A) | Err (e : err).
Arguments Ok {A} a. Arguments Err {A} e.

Definition err_eqb (a b : err) : bool :=
  match a, b with
  | ValueError, ValueError | PointParsingError, PointParsingError
  | IntervalParsingError, IntervalParsingError | OtherError, OtherError => true
  | _, _ => false
  end.

Definition bind {A B} (r : res A) (f : A -> res B) : res B :=
  match r with Ok a => f a | Err e => Err e end.

Definition cmp_to_Z (c : comparison) : Z :=
  match c with Lt => -1 | Eq => 0 | Gt => 1 end.

(* ------------------------------------------------------------------ *)
(* IntegerInterval                                                     *)
(* ------------------------------------------------------------------ *)
(* REC_INTERVAL = ^[-+]?P\d+$ and  int(value.replace("P", "")) *)
Definition iparse (s : string) : option Z :=
  match s with
  | String "P"%char r => parse_uint r
  | String "+"%char (String "P"%char r) => parse_uint r
  | String "-"%char (String "P"%char r) => option_map Z.opp (parse_uint r)
  | _ => None
  end.

(* IntegerInterval.from_integer *)
Definition from_integer (z : Z) : string :=
  if z <? 0 then ("-P" ++ show_z (Z.abs z))%string else ("P" ++ show_z z)%string.

(* IntegerInterval(value): the constructor validates *)
Definition mk_interval (s : string) : res Z :=
  match iparse s with Some d => Ok d | None => Err IntervalParsingError end.

(* IntervalBase.__cmp__ for two IntegerIntervals *)
Definition icmp (i j : string) : res comparison :=
  if String.eqb i j then Ok Eq else
  match iparse i, iparse j with
  | Some x, Some y => Ok (x ?= y)
  | _, _ => Err ValueError
  end.

(* ------------------------------------------------------------------ *)
(* IntegerPoint                                                        *)
(* ------------------------------------------------------------------ *)
Definition pint (s : string) : res Z :=
  match parse_int s with Some x => Ok x | None => Err ValueError end.

(* IntegerPoint(int) *)
Definition of_int (z : Z) : string := show_z z.

(* PointBase.__cmp__ (same TYPE): equal strings short-circuit to 0, otherwise
   IntegerPoint._cmp = cmp(int(self), int(other)) *)
Definition pcmp (a b : string) : res comparison :=
  if String.eqb a b then Ok Eq else
  bind (pint a) (fun x => bind (pint b) (fun y => Ok (x ?= y))).

Definition is_eq (c : comparison) := match c with Eq => true | _ => false end.
Definition is_lt (c : comparison) := match c with Lt => true | _ => false end.
Definition is_gt (c : comparison) := match c with Gt => true | _ => false end.

Definition p_eq a b := bind (pcmp a b) (fun c => Ok (is_eq c)).            (* __eq__: cmp == 0 *)
Definition p_lt a b := bind (pcmp a b) (fun c => Ok (is_lt c)).            (* __lt__: cmp == -1 *)
Definition p_le a b := bind (pcmp a b) (fun c => Ok (negb (is_gt c))).     (* __le__: cmp <= 0 *)
Definition p_gt a b := bind (pcmp a b) (fun c => Ok (is_gt c)).            (* __gt__: cmp == 1 *)
Definition p_ge a b := bind (pcmp a b) (fun c => Ok (negb (is_lt c))).     (* __ge__: cmp >= 0 *)
(* __hash__ = hash(self.value): equal iff the strings are equal *)
Definition p_hash_eq (a b : string) : bool := String.eqb a b.

(* IntegerPoint.standardise: value = str(int(value)) *)
Definition pstd (a : string) : res string :=
  match parse_int a with Some x => Ok (show_z x) | None => Err PointParsingError end.

(* point + interval, point - interval, point - point *)
Definition padd (p : string) (d : Z) : res string := bind (pint p) (fun x => Ok (show_z (x + d))).
Definition psub (p : string) (d : Z) : res string := bind (pint p) (fun x => Ok (show_z (x - d))).
Definition psubp (p q : string) : res string :=
  bind (pint p) (fun x => bind (pint q) (fun y => Ok (from_integer (x - y)))).

(* sorted(points): a stable insertion sort using __lt__ (Python's sort only
   uses <; for a total preorder every stable sort gives this result).  A
   ValueError in any comparison propagates. *)
Fixpoint pinsert (x : string) (l : list string) : res (list string) :=
  match l with
  | [] => Ok [x]
  | y :: r =>
      bind (p_lt y x) (fun b =>
        if b then bind (pinsert x r) (fun r' => Ok (y :: r')) else Ok (x :: l))
  end.
(* x stood before every element of l in the input, so it moves right only
   past elements that are strictly smaller: equal elements keep their order. *)
Fixpoint psort (l : list string) : res (list string) :=
  match l with
  | [] => Ok []
  | x :: r => bind (psort r) (fun r' => pinsert x r')
  end.

(* ------------------------------------------------------------------ *)
(* Datetime points over an abstract calendar                           *)
(* ------------------------------------------------------------------ *)
(* What is assumed of metomi.isodatetime + the workflow's cycle point format:
     inst s   : the instant (seconds on a fixed time line of the calendar in
                use) denoted by the point string s, None if it does not parse;
     fmt z    : the dump of instant z in the workflow's format and time zone;
     resol    : resolution of that format in seconds (60 for CCYYMMDDThhmm);
     isecs i  : exact length in seconds of interval string i (None: does not
                parse or is not fixed-length: months / years).
   ISO8601Point caches by string; the caches are functions of the strings and
   the calendar mode, so they do not appear here. *)
Section Iso.
  Variable inst : string -> option Z.
  Variable fmt : Z -> string.
  Variable resol : Z.
  Variable isecs : string -> option Z.

  Definition gfloor (z : Z) : Z := resol * (z / resol).

  (* str(point_parse(value)) *)
  Definition dstd (s : string) : res string :=
    match inst s with Some z => Ok (fmt (gfloor z)) | None => Err PointParsingError end.

  (* PointBase.__cmp__ / ISO8601Point._iso_point_cmp *)
  Definition dcmp (a b : string) : res comparison :=
    if String.eqb a b then Ok Eq else
    match inst a, inst b with
    | Some x, Some y => Ok (x ?= y)
    | _, _ => Err OtherError
    end.

  Definition dadd (p i : string) : res string :=
    match inst p, isecs i with
    | Some x, Some d => Ok (fmt (gfloor (x + d)))
    | _, _ => Err OtherError
    end.
  Definition dsub (p i : string) : res string :=
    match inst p, isecs i with
    | Some x, Some d => Ok (fmt (gfloor (x - d)))
    | _, _ => Err OtherError
    end.
  (* point - point: the length of the resulting interval *)
  Definition dsubp (p q : string) : res Z :=
    match inst p, inst q with
    | Some x, Some y => Ok (x - y)
    | _, _ => Err OtherError
    end.
End Iso.

(* ------------------------------------------------------------------ *)
(* correspondence interface                                            *)
(* ------------------------------------------------------------------ *)
Inductive op :=
| ICmp (a b : string)            (* IntegerPoint(a) vs IntegerPoint(b): cmp, ==, !=, <, <=, >, >=, hash== *)
| IStd (a : string)              (* standardise once, twice *)
| IArith (p : string) (i : string) (q : string)
                                 (* p+i, (p+i)-i, p-i, i+p (IntervalBase.add), p-q, q+(p-q) *)
| ISort (l : list string)        (* sorted(points) *)
| VCmp (i j : string)            (* IntegerInterval i vs j: cmp, ==, <, <=, >, >=, hash== *)
| VArith (i j : string) (k : Z)  (* i+j, i-j, -i, abs(i), i*k, bool(i) *)
| DCmp (a b : string)            (* ISO8601Point: as ICmp *)
| DStd (a : string)
| DArith (p : string) (i : string) (q : string)
                                 (* p+i, (p+i)-i, p-i, i+p, len(p-q) *)
.

Inductive out := OErr (e : err) | OVals (zs : list Z) (ss : list string).

Definition out_eqb (a b : out) : bool :=
  match a, b with
  | OErr x, OErr y => err_eqb x y
  | OVals z1 s1, OVals z2 s2 => list_eqb Z.eqb z1 z2 && list_eqb String.eqb s1 s2
  | _, _ => false
  end.

Definition b2z (b : bool) : Z := if b then 1 else 0.

Definition cmp_outputs (c : comparison) (heq : bool) : list Z :=
  [cmp_to_Z c; b2z (is_eq c); b2z (negb (is_eq c)); b2z (is_lt c); b2z (negb (is_gt c));
   b2z (is_gt c); b2z (negb (is_lt c)); b2z heq].

Definition lift {A} (r : res A) (f : A -> out) : out :=
  match r with Ok a => f a | Err e => OErr e end.

Record case := {
  c_op : op;
  c_inst : list (string * option Z);   (* datetime only: instants of the strings involved *)
  c_fmt : list (Z * string);           (* datetime only: dump of the instants involved *)
  c_isecs : list (string * option Z);  (* datetime only: lengths of the intervals involved *)
  c_resol : Z;                         (* datetime only *)
  c_impl : out
}.

Definition tbl_inst (c : case) (s : string) : option Z :=
  match assoc String.eqb s (c_inst c) with Some o => o | None => None end.
Definition tbl_fmt (c : case) (z : Z) : string :=
  match assoc Z.eqb z (c_fmt c) with Some s => s | None => "?"%string end.
Definition tbl_isecs (c : case) (s : string) : option Z :=
  match assoc String.eqb s (c_isecs c) with Some o => o | None => None end.

Definition model_out (c : case) : out :=
  match c_op c with
  | ICmp a b => lift (pcmp a b) (fun k => OVals (cmp_outputs k (p_hash_eq a b)) [])
  | IStd a => lift (pstd a) (fun s1 => lift (pstd s1) (fun s2 => OVals [] [s1; s2]))
  | IArith p i q =>
      lift (mk_interval i) (fun d =>
      lift (padd p d) (fun s1 =>
      lift (psub s1 d) (fun s2 =>
      lift (psub p d) (fun s3 =>
      lift (padd p d) (fun s4 =>
      lift (psubp p q) (fun i5 =>
      lift (mk_interval i5) (fun d5 =>
      lift (padd q d5) (fun s6 =>
        OVals [] [s1; s2; s3; s4; i5; s6]))))))))
  | ISort l => lift (psort l) (fun l' => OVals [] l')
  | VCmp i j =>
      lift (mk_interval i) (fun _ => lift (mk_interval j) (fun _ =>
      lift (icmp i j) (fun k => OVals (cmp_outputs k (String.eqb i j)) [])))
  | VArith i j k =>
      lift (mk_interval i) (fun x => lift (mk_interval j) (fun y =>
        OVals [b2z (negb (x =? 0))]
              [from_integer (x + y); from_integer (x - y); from_integer (x * -1);
               from_integer (Z.abs x); from_integer (x * k)]))
  | DCmp a b =>
      lift (dcmp (tbl_inst c) a b) (fun k => OVals (cmp_outputs k (String.eqb a b)) [])
  | DStd a =>
      let std := dstd (tbl_inst c) (tbl_fmt c) (c_resol c) in
      lift (std a) (fun s1 => lift (std s1) (fun s2 => OVals [] [s1; s2]))
  | DArith p i q =>
      let add := dadd (tbl_inst c) (tbl_fmt c) (c_resol c) (tbl_isecs c) in
      let sub := dsub (tbl_inst c) (tbl_fmt c) (c_resol c) (tbl_isecs c) in
      lift (add p i) (fun s1 =>
      lift (sub s1 i) (fun s2 =>
      lift (sub p i) (fun s3 =>
      lift (add p i) (fun s4 =>
      lift (dsubp (tbl_inst c) p q) (fun len =>
        OVals [len] [s1; s2; s3; s4])))))
  end.

Definition check_case (c : case) : bool := out_eqb (model_out c) (c_impl c).

(* ------------------------------------------------------------------ *)
(* Several configurations in one process (iso8601.init called again)   *)
(* ------------------------------------------------------------------ *)
(* ISO8601Point._iso_point_cmp / _iso_point_add / _iso_point_sub_interval are
   functools.lru_cache'd on (string, string, CALENDAR.mode): the calendar mode
   is the only item of the configuration in the key.  [keyf] is the part of a
   configuration that goes into the key (the code as it stands: [cf_cal]).
   Exceptions are not cached.  The cache size (10000) is never reached by the
   correspondence runs and is not modelled.  point_parse itself is keyed on the
   string, the dump format and the assumed time zone, i.e. on everything
   [cf_inst] depends on, so standardise needs no cache here. *)
Record config := {
  cf_cal : Z;                       (* calendar mode *)
  cf_inst : string -> option Z;     (* parse under this configuration *)
  cf_fmt : Z -> string;             (* dump under this configuration *)
  cf_resol : Z
}.

Inductive rop :=
| RCmp (a b : string) | RStd (a : string) | RAdd (p i : string) | RSub (p i : string).
Inductive rout := ROCmp (c : comparison) | ROStr (s : string) | ROErr (e : err).

Definition rout_eqb (x y : rout) : bool :=
  match x, y with
  | ROCmp a, ROCmp b => Z.eqb (cmp_to_Z a) (cmp_to_Z b)
  | ROStr a, ROStr b => String.eqb a b
  | ROErr a, ROErr b => err_eqb a b
  | _, _ => false
  end.

Definition of_cmp (r : res comparison) : rout := match r with Ok c => ROCmp c | Err e => ROErr e end.
Definition of_str (r : res string) : rout := match r with Ok s => ROStr s | Err e => ROErr e end.

Section Reinit.
  Variable isecs : string -> option Z.    (* interval lengths do not depend on the configuration *)
  Variable keyf : config -> Z.

  (* what the operation means under configuration c: no cache *)
  Definition pure_rop (c : config) (o : rop) : rout :=
    match o with
    | RCmp a b => of_cmp (dcmp (cf_inst c) a b)
    | RStd a => of_str (dstd (cf_inst c) (cf_fmt c) (cf_resol c) a)
    | RAdd p i => of_str (dadd (cf_inst c) (cf_fmt c) (cf_resol c) isecs p i)
    | RSub p i => of_str (dsub (cf_inst c) (cf_fmt c) (cf_resol c) isecs p i)
    end.

  (* cache entries: (which function, arg 1, arg 2, key part of the configuration, result) *)
  Definition centry := (Z * string * string * Z * rout)%type.

  Fixpoint clookup (kind : Z) (a b : string) (k : Z) (cache : list centry) : option rout :=
    match cache with
    | [] => None
    | (kind', a', b', k', r) :: rest =>
        if Z.eqb kind kind' && String.eqb a a' && String.eqb b b' && Z.eqb k k' then Some r
        else clookup kind a b k rest
    end.

  Definition is_rerr (r : rout) : bool := match r with ROErr _ => true | _ => false end.

  Definition cached (kind : Z) (a b : string) (c : config) (cache : list centry) (o : rop)
    : rout * list centry :=
    match clookup kind a b (keyf c) cache with
    | Some r => (r, cache)
    | None =>
        let r := pure_rop c o in
        (r, if is_rerr r then cache else (kind, a, b, keyf c, r) :: cache)
    end.

  Definition run_rop (c : config) (cache : list centry) (o : rop) : rout * list centry :=
    match o with
    | RCmp a b =>
        (* PointBase.__cmp__: equal value strings never reach _iso_point_cmp *)
        if String.eqb a b then (ROCmp Eq, cache) else cached 0 a b c cache o
    | RStd _ => (pure_rop c o, cache)
    | RAdd p i => cached 1 p i c cache o
    | RSub p i => cached 2 p i c cache o
    end.

  Fixpoint run_scenario (cache : list centry) (steps : list (config * rop)) : list rout :=
    match steps with
    | [] => []
    | (c, o) :: rest =>
        let '(r, cache') := run_rop c cache o in r :: run_scenario cache' rest
    end.
End Reinit.

(* correspondence interface of the re-initialisation stream *)
Record rconfig := {
  rc_cal : Z;
  rc_inst : list (string * option Z);
  rc_fmt : list (Z * string);
  rc_resol : Z
}.

Definition config_of (r : rconfig) : config :=
  {| cf_cal := rc_cal r;
     cf_inst := fun s => match assoc String.eqb s (rc_inst r) with Some o => o | None => None end;
     cf_fmt := fun z => match assoc Z.eqb z (rc_fmt r) with Some s => s | None => "?"%string end;
     cf_resol := rc_resol r |}.

Record rcase := {
  r_configs : list rconfig;
  r_isecs : list (string * option Z);
  r_steps : list (nat * rop);           (* configuration in force (index), operation *)
  r_impl : list rout
}.

Definition dummy_config : config :=
  {| cf_cal := 0; cf_inst := fun _ => None; cf_fmt := fun _ => "?"%string; cf_resol := 1 |}.

Definition rmodel_out (c : rcase) : list rout :=
  let cfgs := map config_of (r_configs c) in
  run_scenario (fun s => match assoc String.eqb s (r_isecs c) with Some o => o | None => None end)
               cf_cal []
               (map (fun '(i, o) => (nth i cfgs dummy_config, o)) (r_steps c)).

Definition check_rcase (c : rcase) : bool := list_eqb rout_eqb (rmodel_out c) (r_impl c).
