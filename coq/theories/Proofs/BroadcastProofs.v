(* Proofs/BroadcastProofs.v — lemmas about Model/Broadcast.v *)
From Coq Require Import List ZArith NArith Bool Arith Lia.
From Cylc Require Import Base.Util Model.C3 Model.Broadcast.
Import ListNotations.

(* ---------- keys and paths ---------- *)
Lemma key_eqb_spec a b : key_eqb a b = true <-> a = b.
Proof.
  destruct a, b; cbn; try (split; [discriminate|intros E; inversion E]); try tauto.
  - rewrite Z.eqb_eq. split; [intros ->; reflexivity|intros E; inversion E; auto].
  - rewrite N.eqb_eq. split; [intros ->; reflexivity|intros E; inversion E; auto].
Qed.
Lemma key_eqb_refl a : key_eqb a a = true.
Proof. apply key_eqb_spec. reflexivity. Qed.
Lemma key_eqb_neq a b : a <> b -> key_eqb a b = false.
Proof. intros H. destruct (key_eqb a b) eqn:E; [|reflexivity]. apply key_eqb_spec in E. congruence. Qed.
Lemma key_eqb_false a b : key_eqb a b = false -> a <> b.
Proof. intros H ->. rewrite key_eqb_refl in H. discriminate. Qed.
Lemma key_eqb_sym a b : key_eqb a b = key_eqb b a.
Proof.
  destruct (key_eqb a b) eqn:E.
  - apply key_eqb_spec in E. subst. symmetry. apply key_eqb_refl.
  - symmetry. apply key_eqb_neq. intros ->. rewrite key_eqb_refl in E. discriminate.
Qed.
Lemma path_eqb_spec a b : path_eqb a b = true <-> a = b.
Proof. apply list_eqb_spec. apply key_eqb_spec. Qed.
Lemma path_eqb_refl a : path_eqb a a = true.
Proof. apply path_eqb_spec. reflexivity. Qed.
Lemma path_eqb_neq a b : a <> b -> path_eqb a b = false.
Proof. intros H. destruct (path_eqb a b) eqn:E; [|reflexivity]. apply path_eqb_spec in E. congruence. Qed.
Lemma path_eqb_cons k q k' q' :
  path_eqb (k :: q) (k' :: q') = key_eqb k k' && path_eqb q q'.
Proof. reflexivity. Qed.

Definition orelse {A} (a b : option A) : option A :=
  match a with Some v => Some v | None => b end.
Lemma orelse_none_r {A} (a : option A) : orelse a None = a.
Proof. destruct a; reflexivity. Qed.
Lemma orelse_assoc {A} (a b c : option A) : orelse a (orelse b c) = orelse (orelse a b) c.
Proof. destruct a; reflexivity. Qed.

(* ---------- association lists ---------- *)
Section Assoc.
  Context {B : Type}.
  Implicit Types l : list (key * B).

  Lemma assoc_notin k l : ~ In k (map fst l) -> assoc key_eqb k l = None.
  Proof.
    induction l as [|[k' t] r IH]; cbn; [reflexivity|]. intros H.
    rewrite key_eqb_neq by (intros ->; apply H; now left). apply IH. tauto.
  Qed.
  Lemma assoc_some_in k l t : assoc key_eqb k l = Some t -> In (k, t) l.
  Proof.
    induction l as [|[k' t'] r IH]; cbn; [discriminate|].
    destruct (key_eqb k k') eqn:E.
    - apply key_eqb_spec in E. subst. intros [= ->]. now left.
    - intros H. right. auto.
  Qed.
  Lemma assoc_in_nodup k l t : NoDup (map fst l) -> In (k, t) l -> assoc key_eqb k l = Some t.
  Proof.
    induction l as [|[k' t'] r IH]; cbn; [tauto|]. intros Hnd [E|Hin].
    - inversion E; subst. now rewrite key_eqb_refl.
    - inversion Hnd as [|? ? Hk Hr]; subst.
      rewrite key_eqb_neq; [auto|]. intros ->. apply Hk.
      change k' with (fst (k', t)). now apply in_map.
  Qed.
  Lemma assoc_app k l1 l2 :
    assoc key_eqb k (l1 ++ l2) = orelse (assoc key_eqb k l1) (assoc key_eqb k l2).
  Proof.
    induction l1 as [|[k' t] r IH]; cbn; [reflexivity|].
    destruct (key_eqb k k'); [reflexivity|apply IH].
  Qed.
End Assoc.

Lemma assoc_upsert_same k t l : assoc key_eqb k (upsert k t l) = Some t.
Proof.
  induction l as [|[k' t'] r IH]; cbn; [now rewrite key_eqb_refl|].
  destruct (key_eqb k k') eqn:E; cbn; [now rewrite key_eqb_refl|now rewrite E].
Qed.
Lemma assoc_upsert_other k k' t l :
  key_eqb k' k = false -> assoc key_eqb k' (upsert k t l) = assoc key_eqb k' l.
Proof.
  intros H. induction l as [|[k0 t0] r IH]; cbn; [now rewrite H|].
  destruct (key_eqb k k0) eqn:E; cbn.
  - apply key_eqb_spec in E. subst. now rewrite H.
  - destruct (key_eqb k' k0); auto.
Qed.
Lemma upsert_keys k t l :
  map fst (upsert k t l) = if mem key_eqb k (map fst l) then map fst l else map fst l ++ [k].
Proof.
  induction l as [|[k0 t0] r IH]; cbn; [reflexivity|].
  destruct (key_eqb k k0) eqn:E; cbn.
  - apply key_eqb_spec in E. now subst.
  - rewrite IH. destruct (mem key_eqb k (map fst r)); reflexivity.
Qed.
Lemma mem_key_In k l : mem key_eqb k l = true <-> In k l.
Proof. apply mem_In. apply key_eqb_spec. Qed.
Lemma NoDup_snoc {A} (x : A) l : NoDup l -> ~ In x l -> NoDup (l ++ [x]).
Proof.
  induction l as [|y r IH]; cbn; intros Hn Hx; [repeat constructor; tauto|].
  inversion Hn as [|? ? Hy Hr]; subst. constructor.
  - rewrite in_app_iff. cbn. intros [H|[H|[]]]; [tauto|]. subst. tauto.
  - apply IH; tauto.
Qed.
Lemma upsert_nodup k t l : NoDup (map fst l) -> NoDup (map fst (upsert k t l)).
Proof.
  intros H. rewrite upsert_keys. destruct (mem key_eqb k (map fst l)) eqn:E; [exact H|].
  assert (~ In k (map fst l)) by (rewrite <- mem_key_In; congruence).
  apply NoDup_snoc; auto.
Qed.

(* ---------- induction on trees ---------- *)
Section TreeInd.
  Variable P : tree -> Prop.
  Hypothesis HL : forall v, P (Leaf v).
  Hypothesis HN : forall kids, Forall (fun kt => P (snd kt)) kids -> P (Node kids).
  Fixpoint tree_ind2 (t : tree) : P t :=
    match t with
    | Leaf v => HL v
    | Node kids =>
        HN kids ((fix go (l : dict) : Forall (fun kt => P (snd kt)) l :=
                    match l with
                    | [] => Forall_nil _
                    | kt :: r => Forall_cons kt (tree_ind2 (snd kt)) (go r)
                    end) kids)
    end.
End TreeInd.

(* well-formed: keys of every dict are unique (Python dicts) *)
Inductive wf : tree -> Prop :=
| wf_leaf v : wf (Leaf v)
| wf_node kids : NoDup (map fst kids) -> Forall (fun kt => wf (snd kt)) kids -> wf (Node kids).

(* conforming to a schema [s]: s p = true iff the path p is a section (dict) *)
Definition sub (s : path -> bool) (k : key) : path -> bool := fun q => s (k :: q).
Inductive conf : (path -> bool) -> tree -> Prop :=
| conf_leaf s v : s [] = false -> conf s (Leaf v)
| conf_node s kids : s [] = true ->
    Forall (fun kt => conf (sub s (fst kt)) (snd kt)) kids -> conf s (Node kids).

Lemma conf_ext s s' t : (forall q, s q = s' q) -> conf s t -> conf s' t.
Proof.
  revert s s'. induction t as [v|kids IH] using tree_ind2; intros s s' E H; inversion H; subst.
  - constructor. now rewrite <- E.
  - constructor; [now rewrite <- E|].
    rewrite Forall_forall in *. intros kt Hin.
    eapply IH; [exact Hin| |apply H3; exact Hin]. intros q. unfold sub. apply E.
Qed.

Lemma wf_node_inv kids : wf (Node kids) ->
  NoDup (map fst kids) /\ Forall (fun kt => wf (snd kt)) kids.
Proof. intros H; inversion H; auto. Qed.
Lemma conf_node_inv s kids : conf s (Node kids) ->
  s [] = true /\ Forall (fun kt => conf (sub s (fst kt)) (snd kt)) kids.
Proof. intros H; inversion H; auto. Qed.

Lemma wf_kid kids k t : wf (Node kids) -> assoc key_eqb k kids = Some t -> wf t.
Proof.
  intros H E. apply wf_node_inv in H. destruct H as [_ F]. rewrite Forall_forall in F.
  apply assoc_some_in in E. exact (F _ E).
Qed.
Lemma conf_kid s kids k t : conf s (Node kids) -> assoc key_eqb k kids = Some t -> conf (sub s k) t.
Proof.
  intros H E. apply conf_node_inv in H. destruct H as [_ F]. rewrite Forall_forall in F.
  apply assoc_some_in in E. exact (F _ E).
Qed.

Lemma wf_upsert k t l : wf (Node l) -> wf t -> wf (Node (upsert k t l)).
Proof.
  intros H Ht. apply wf_node_inv in H. destruct H as [Hn F]. constructor; [now apply upsert_nodup|].
  clear Hn. induction l as [|[k0 t0] r IH]; cbn.
  - repeat constructor. exact Ht.
  - inversion F; subst. destruct (key_eqb k k0); constructor; auto.
Qed.
Lemma conf_upsert s k t l : conf s (Node l) -> conf (sub s k) t -> conf s (Node (upsert k t l)).
Proof.
  intros H Ht. apply conf_node_inv in H. destruct H as [Hs F]. constructor; [exact Hs|].
  clear Hs. induction l as [|[k0 t0] r IH]; cbn.
  - repeat constructor. exact Ht.
  - inversion F; subst. destruct (key_eqb k k0); constructor; auto.
Qed.

(* ---------- get_leaf ---------- *)
Lemma get_leaf_node k q kids :
  get_leaf (k :: q) (Node kids) =
  match assoc key_eqb k kids with Some t => get_leaf q t | None => None end.
Proof. reflexivity. Qed.
Lemma get_leaf_nil_node kids : get_leaf [] (Node kids) = None.
Proof. reflexivity. Qed.
Lemma get_leaf_empty q : get_leaf q (Node []) = None.
Proof. destruct q; reflexivity. Qed.
Lemma get_leaf_cons_leaf k q v : get_leaf (k :: q) (Leaf v) = None.
Proof. reflexivity. Qed.

(* a leaf path of a conforming tree is a leaf path of the schema *)
Fixpoint leafpath (s : path -> bool) (p : path) : Prop :=
  match p with
  | [] => s [] = false
  | k :: q => s [] = true /\ leafpath (sub s k) q
  end.
Lemma get_leaf_leafpath p : forall s t v, conf s t -> get_leaf p t = Some v -> leafpath s p.
Proof.
  induction p as [|k q IH]; intros s t v Hc E; destruct t as [v'|kids]; cbn in *; try discriminate.
  - now inversion Hc.
  - destruct (assoc key_eqb k kids) as [t'|] eqn:Ea; [|discriminate].
    split; [now inversion Hc|]. eapply IH; [eapply conf_kid; eauto|exact E].
Qed.
Lemma leafpath_not_section p : forall s, leafpath s p -> s p = false.
Proof. induction p as [|k q IH]; intros s; cbn; [auto|]. intros [_ H]. exact (IH _ H). Qed.

(* ---------- addict ---------- *)
Lemma add1_leaf v k acc : add1 (Leaf v) k acc = upsert k (Leaf v) acc.
Proof. reflexivity. Qed.
Lemma add1_node sk k acc :
  add1 (Node sk) k acc = upsert k (Node (addict (kids_of (assoc key_eqb k acc)) sk)) acc.
Proof. reflexivity. Qed.
Lemma addict_cons tgt k sv r : addict tgt ((k, sv) :: r) = addict (add1 sv k tgt) r.
Proof. reflexivity. Qed.
Lemma addict_nil tgt : addict tgt [] = tgt.
Proof. reflexivity. Qed.

Definition add1_ok (sv : tree) : Prop :=
  forall s k acc, wf sv -> wf (Node acc) -> conf s (Node acc) -> conf (sub s k) sv ->
    wf (Node (add1 sv k acc)) /\ conf s (Node (add1 sv k acc)) /\
    forall p, get_leaf p (Node (add1 sv k acc)) =
              orelse (get_leaf p (Node [(k, sv)])) (get_leaf p (Node acc)).

Definition addict_ok (src : dict) : Prop :=
  forall s tgt, wf (Node src) -> wf (Node tgt) -> conf s (Node tgt) -> conf s (Node src) ->
    wf (Node (addict tgt src)) /\ conf s (Node (addict tgt src)) /\
    forall p, get_leaf p (Node (addict tgt src)) =
              orelse (get_leaf p (Node src)) (get_leaf p (Node tgt)).

Lemma addict_ok_of_kids src :
  Forall (fun kt => add1_ok (snd kt)) src -> addict_ok src.
Proof.
  induction src as [|[k sv] r IH]; intros F s tgt Hws Hwt Hct Hcs.
  - rewrite addict_nil. repeat split; auto. intros p. destruct p; reflexivity.
  - inversion F as [|? ? Hsv Hr]; subst. cbn in Hsv.
    apply wf_node_inv in Hws. destruct Hws as [Hnd Fw]. cbn in Hnd.
    inversion Hnd as [|? ? Hk Hnd']; subst. inversion Fw as [|? ? Hwsv Fw']; subst. cbn in Hwsv.
    apply conf_node_inv in Hcs. destruct Hcs as [Hs0 Fc]. inversion Fc as [|? ? Hcsv Fc']; subst.
    cbn in Hcsv.
    destruct (Hsv s k tgt Hwsv Hwt Hct Hcsv) as (W1 & C1 & G1).
    rewrite addict_cons.
    destruct (IH Hr s (add1 sv k tgt) (wf_node _ Hnd' Fw') W1 C1 (conf_node _ _ Hs0 Fc'))
      as (W2 & C2 & G2).
    repeat split; auto. intros p. rewrite G2, G1.
    destruct p as [|k' q]; [reflexivity|]. rewrite !get_leaf_node. cbn [assoc].
    destruct (key_eqb k' k) eqn:E.
    + apply key_eqb_spec in E. subst k'. rewrite (assoc_notin k r Hk). reflexivity.
    + destruct (assoc key_eqb k' r) as [t|]; [|reflexivity]. destruct (get_leaf q t); reflexivity.
Qed.

Lemma add1_ok_all sv : add1_ok sv.
Proof.
  induction sv as [v|sk IH] using tree_ind2; intros s k acc Hwsv Hwa Hca Hcsv.
  - rewrite add1_leaf. split; [apply wf_upsert; auto|]. split; [apply conf_upsert; auto|].
    intros p. destruct p as [|k' q]; [reflexivity|]. rewrite !get_leaf_node. cbn [assoc].
    destruct (key_eqb k' k) eqn:E.
    + apply key_eqb_spec in E. subst k'. rewrite assoc_upsert_same.
      destruct q as [|k2 q2]; [reflexivity|]. cbn [get_leaf orelse].
      destruct (assoc key_eqb k acc) as [t|] eqn:Ea; [|reflexivity].
      pose proof (conf_kid _ _ _ _ Hca Ea) as Hct.
      inversion Hcsv; subst. destruct t as [v'|kids]; [reflexivity|].
      inversion Hct; subst. congruence.
    + rewrite assoc_upsert_other by exact E. reflexivity.
  - rewrite add1_node.
    set (sub0 := kids_of (assoc key_eqb k acc)).
    assert (Hsub : wf (Node sub0) /\ conf (sub s k) (Node sub0)).
    { unfold sub0. destruct (assoc key_eqb k acc) as [t|] eqn:Ea; cbn.
      - pose proof (conf_kid _ _ _ _ Hca Ea) as Hct. pose proof (wf_kid _ _ _ Hwa Ea) as Hwt.
        destruct t as [v'|kids]; [|auto].
        inversion Hct; subst. inversion Hcsv; subst. congruence.
      - split; [constructor; constructor|]. constructor; [now inversion Hcsv|constructor]. }
    destruct Hsub as [Hw0 Hc0].
    destruct (addict_ok_of_kids sk IH (sub s k) sub0 Hwsv Hw0 Hc0 Hcsv) as (W & C & G).
    split; [apply wf_upsert; auto|]. split; [apply conf_upsert; auto|].
    intros p. destruct p as [|k' q]; [reflexivity|]. rewrite !get_leaf_node. cbn [assoc].
    destruct (key_eqb k' k) eqn:E.
    + apply key_eqb_spec in E. subst k'. rewrite assoc_upsert_same. rewrite G.
      unfold sub0. destruct (assoc key_eqb k acc) as [t|] eqn:Ea; cbn [kids_of].
      * pose proof (conf_kid _ _ _ _ Hca Ea) as Hct.
        destruct t as [v'|kids]; [|reflexivity].
        inversion Hct; subst. inversion Hcsv; subst. congruence.
      * rewrite get_leaf_empty. reflexivity.
    + rewrite assoc_upsert_other by exact E. reflexivity.
Qed.

Lemma addict_spec src : addict_ok src.
Proof. apply addict_ok_of_kids. apply Forall_forall. intros kt _. apply add1_ok_all. Qed.

(* ---------- flatten / chain ---------- *)
Lemma In_flatten t : wf t -> forall p v, In (p, v) (flatten t) <-> get_leaf p t = Some v.
Proof.
  induction t as [v0|kids IH] using tree_ind2; intros Hw p v.
  - cbn. destruct p; cbn; split.
    + intros [E|[]]. inversion E; reflexivity.
    + intros [= ->]. now left.
    + intros [E|[]]. inversion E.
    + discriminate.
  - apply wf_node_inv in Hw. destruct Hw as [Hnd Fw]. rewrite Forall_forall in IH, Fw.
    cbn [flatten]. rewrite in_flat_map. split.
    + intros (kt & Hin & Hm). apply in_map_iff in Hm. destruct Hm as ([q v'] & E & Hq).
      cbn in E. inversion E; subst. rewrite get_leaf_node.
      destruct kt as [k t]. cbn in *. rewrite (assoc_in_nodup k kids t Hnd Hin).
      apply (IH (k, t) Hin (Fw _ Hin)). exact Hq.
    + destruct p as [|k q]; [discriminate|]. rewrite get_leaf_node.
      destruct (assoc key_eqb k kids) as [t|] eqn:Ea; [|discriminate]. intros E.
      apply assoc_some_in in Ea. exists (k, t). split; [exact Ea|].
      apply in_map_iff. exists (q, v). split; [reflexivity|].
      apply (IH (k, t) Ea (Fw _ Ea)). exact E.
Qed.

Lemma get_leaf_chain p : forall q v, get_leaf q (chain p v) = if path_eqb q p then Some v else None.
Proof.
  induction p as [|k p IH]; intros q v; cbn [chain].
  - destruct q; reflexivity.
  - destruct q as [|k' q]; [reflexivity|]. rewrite get_leaf_node. cbn [assoc].
    rewrite path_eqb_cons. destruct (key_eqb k' k); cbn; [apply IH|reflexivity].
Qed.
Lemma wf_chain p v : wf (chain p v).
Proof.
  induction p as [|k p IH]; cbn; constructor.
  - cbn. constructor; [intros []|constructor].
  - constructor; [exact IH|constructor].
Qed.
Lemma conf_chain p : forall s v, leafpath s p -> conf s (chain p v).
Proof.
  induction p as [|k p IH]; intros s v; cbn.
  - intros H. now constructor.
  - intros [H0 H]. constructor; [exact H0|]. constructor; [|constructor]. cbn. apply IH. exact H.
Qed.
Lemma flatten_chain p v : flatten (chain p v) = [(p, v)].
Proof. induction p as [|k p IH]; cbn; [reflexivity|]. rewrite IH. reflexivity. Qed.
Lemma first_leaf_chain p v : first_leaf (chain p v) = Some (p, v).
Proof. induction p as [|k p IH]; cbn; [reflexivity|]. rewrite IH. reflexivity. Qed.

(* ---------- "last writer wins" over lists of records / of trees ---------- *)
Definition lastm (p : path) (recs : list (path * val)) (base : option val) : option val :=
  fold_left (fun acc r => if path_eqb p (fst r) then Some (snd r) else acc) recs base.
Definition apply_leaf (p : path) (ts : list tree) (base : option val) : option val :=
  fold_left (fun acc t => orelse (get_leaf p t) acc) ts base.

Lemma lastm_app p l1 l2 b : lastm p (l1 ++ l2) b = lastm p l2 (lastm p l1 b).
Proof. apply fold_left_app. Qed.
Lemma apply_leaf_app p l1 l2 b : apply_leaf p (l1 ++ l2) b = apply_leaf p l2 (apply_leaf p l1 b).
Proof. apply fold_left_app. Qed.
Lemma lastm_nomatch p l b : (forall r, In r l -> path_eqb p (fst r) = false) -> lastm p l b = b.
Proof.
  revert b. induction l as [|r l IH]; intros b H; cbn; [reflexivity|].
  rewrite (H r) by now left. apply IH. intros r' Hr. apply H. now right.
Qed.
Lemma lastm_cons p r l b :
  lastm p (r :: l) b = lastm p l (if path_eqb p (fst r) then Some (snd r) else b).
Proof. reflexivity. Qed.
Lemma lastm_map_cons k p l b :
  lastm p (map (fun pv => (k :: fst pv, snd pv)) l) b =
  match p with
  | k' :: q => if key_eqb k' k then lastm q l b else b
  | [] => b
  end.
Proof.
  revert b. induction l as [|r l IH]; intros b; cbn [map].
  - destruct p as [|k' q]; [reflexivity|]. destruct (key_eqb k' k); reflexivity.
  - rewrite lastm_cons, IH. destruct p as [|k' q]; [reflexivity|]. cbn [fst snd].
    rewrite path_eqb_cons. destruct (key_eqb k' k); reflexivity.
Qed.

Lemma lastm_flatten t : wf t -> forall p b, lastm p (flatten t) b = orelse (get_leaf p t) b.
Proof.
  induction t as [v0|kids IH] using tree_ind2; intros Hw p b.
  - cbn. destruct p; reflexivity.
  - apply wf_node_inv in Hw. destruct Hw as [Hnd Fw]. cbn [flatten].
    destruct p as [|k q].
    { rewrite get_leaf_nil_node. cbn [orelse]. clear IH Hnd Fw. revert b.
      induction kids as [|kt r IHr]; intros b; cbn [flat_map]; [reflexivity|].
      rewrite lastm_app, lastm_map_cons. apply IHr. }
    rewrite get_leaf_node. revert b.
    induction kids as [|[k0 t0] r IHr]; intros b; [reflexivity|].
    cbn [flat_map]. rewrite lastm_app, lastm_map_cons. cbn [fst snd assoc].
    inversion IH as [|? ? IH0 IHrest]; subst. inversion Fw as [|? ? Hw0 Fw']; subst.
    cbn in Hnd. inversion Hnd as [|? ? Hk Hnd']; subst. cbn [snd] in IH0, Hw0.
    destruct (key_eqb k k0) eqn:E.
    + apply key_eqb_spec in E. subst k0. rewrite (IH0 Hw0).
      rewrite (IHr IHrest Hnd' Fw'). rewrite (assoc_notin k r Hk). reflexivity.
    + apply (IHr IHrest Hnd' Fw').
Qed.

(* ---------- steps on the in-memory dict, observed on the leaves ---------- *)
Definition inv (S : path -> bool) (m : dict) : Prop := wf (Node m) /\ conf S (Node m).
Definition leafstep (S : path -> bool) (f : dict -> dict) (ts : list tree) : Prop :=
  forall m, inv S m ->
    inv S (f m) /\ forall p, get_leaf p (Node (f m)) = apply_leaf p ts (get_leaf p (Node m)).

Lemma leafstep_id S : leafstep S (fun m => m) [].
Proof. intros m H. split; [exact H|reflexivity]. Qed.
Lemma leafstep_comp S f g a b :
  leafstep S f a -> leafstep S g b -> leafstep S (fun m => g (f m)) (a ++ b).
Proof.
  intros Hf Hg m Hm. destruct (Hf m Hm) as [I1 G1]. destruct (Hg (f m) I1) as [I2 G2].
  split; [exact I2|]. intros p. rewrite G2, G1, apply_leaf_app. reflexivity.
Qed.
Lemma leafstep_fold {X} S (step : dict -> X -> dict) (g : X -> list tree) l :
  (forall x, In x l -> leafstep S (fun m => step m x) (g x)) ->
  leafstep S (fun m => fold_left step l m) (flat_map g l).
Proof.
  induction l as [|x r IH]; intros H; cbn [fold_left flat_map].
  - apply leafstep_id.
  - apply (leafstep_comp S (fun m => step m x) (fun m => fold_left step r m)).
    + apply H. now left.
    + apply IH. intros y Hy. apply H. now right.
Qed.
Lemma leafstep_addict S src :
  wf (Node src) -> conf S (Node src) -> leafstep S (fun m => addict m src) [Node src].
Proof.
  intros Hw Hc m [Hwm Hcm]. destruct (addict_spec src S m Hw Hwm Hcm Hc) as (W & C & G).
  split; [split; assumption|]. intros p. rewrite G. reflexivity.
Qed.
Lemma leafstep_same_leaves S f ts ts' :
  (forall p b, apply_leaf p ts b = apply_leaf p ts' b) -> leafstep S f ts -> leafstep S f ts'.
Proof. intros E H m Hm. destruct (H m Hm) as [I G]. split; [exact I|]. intros p. rewrite G. apply E. Qed.

(* ---------- put_broadcast, in-memory side ---------- *)
(* schema of the whole .broadcasts dict: point and namespace levels are
   dicts, below them the setting schema [sect] applies *)
Definition full (sect : path -> bool) (p : path) : bool :=
  match p with _ :: _ :: rest => sect rest | _ => true end.
Definition wrap (m : msetting) : tree := Node [(fst (fst m), Node [(snd (fst m), snd m)])].

Lemma wf_single k t : wf t -> wf (Node [(k, t)]).
Proof. intros H. constructor; cbn; [constructor; [intros []|constructor]|repeat constructor; exact H]. Qed.
Lemma wf_wrap m : wf (snd m) -> wf (wrap m).
Proof. intros H. apply wf_single. apply wf_single. exact H. Qed.
Lemma conf_wrap sect m : conf sect (snd m) -> conf (full sect) (wrap m).
Proof.
  intros H. destruct m as [[p ns] t]. cbn in *. unfold wrap; cbn [fst snd].
  constructor; [reflexivity|]. constructor; [|constructor]. cbn [fst snd].
  constructor; [reflexivity|]. constructor; [|constructor]. cbn [fst snd].
  eapply conf_ext; [|exact H]. reflexivity.
Qed.
Lemma get_leaf_wrap q m :
  get_leaf q (wrap m) =
  match q with
  | p :: ns :: r => if key_eqb p (fst (fst m)) && key_eqb ns (snd (fst m))
                    then get_leaf r (snd m) else None
  | _ => None
  end.
Proof.
  destruct m as [[p0 ns0] t]. unfold wrap. cbn [fst snd].
  destruct q as [|p q]; [reflexivity|]. rewrite get_leaf_node. cbn [assoc].
  destruct (key_eqb p p0); cbn [andb]; [|destruct q; reflexivity].
  destruct q as [|ns r]; [reflexivity|]. rewrite get_leaf_node. cbn [assoc].
  destruct (key_eqb ns ns0); reflexivity.
Qed.

Definition setting_ok (sect : path -> bool) (s : option tree) : Prop :=
  match s with Some t => wf t /\ conf sect t | None => True end.

Definition ns_trees tr t p (ns : key) : list tree :=
  if ns_known tr ns then [wrap (p, ns, t)] else [].
Definition pt_trees tr t nss (pt : option key) : list tree :=
  match pt with None => [] | Some p => flat_map (ns_trees tr t p) nss end.
Definition setting_trees tr pts nss (s : option tree) : list tree :=
  match s with None => [] | Some t => flat_map (pt_trees tr t nss) pts end.
Definition put_trees tr pts nss ss : list tree := flat_map (setting_trees tr pts nss) ss.

Lemma map_flat_map {A B C} (f : B -> C) (g : A -> list B) l :
  map f (flat_map g l) = flat_map (fun x => map f (g x)) l.
Proof. induction l as [|x r IH]; cbn; [reflexivity|]. now rewrite map_app, IH. Qed.
Lemma flat_map_ext' {A B} (f g : A -> list B) l :
  (forall x, f x = g x) -> flat_map f l = flat_map g l.
Proof. intros H. induction l as [|x r IH]; cbn; [reflexivity|]. now rewrite H, IH. Qed.

Lemma put_trees_mods tr pts nss ss : put_trees tr pts nss ss = map wrap (put_mods tr pts nss ss).
Proof.
  unfold put_trees, put_mods. rewrite map_flat_map. apply flat_map_ext'. intros [t|]; [|reflexivity].
  cbn [setting_trees]. rewrite map_flat_map. apply flat_map_ext'. intros [p|]; [|reflexivity].
  cbn [pt_trees]. rewrite map_flat_map. apply flat_map_ext'. intros ns. unfold ns_trees.
  destruct (ns_known tr ns); reflexivity.
Qed.

Lemma leafstep_put_ns sect tr t p ns : wf t -> conf sect t ->
  leafstep (full sect) (fun m => put_ns tr t p m ns) (ns_trees tr t p ns).
Proof.
  intros Hw Hc. unfold put_ns, ns_trees. destruct (ns_known tr ns); [|apply leafstep_id].
  apply (leafstep_addict (full sect) [(p, Node [(ns, t)])]).
  - apply (wf_wrap (p, ns, t)). exact Hw.
  - apply (conf_wrap sect (p, ns, t)). exact Hc.
Qed.

Lemma leafstep_put_pt sect tr t nss pt : wf t -> conf sect t ->
  leafstep (full sect) (fun m => put_pt tr t nss m pt) (pt_trees tr t nss pt).
Proof.
  intros Hw Hc. destruct pt as [p|]; cbn [put_pt pt_trees]; [|apply leafstep_id].
  apply (leafstep_same_leaves _ _ ([Node [(p, Node [])]] ++ flat_map (ns_trees tr t p) nss)).
  { intros q b. rewrite apply_leaf_app. f_equal. cbn.
    destruct q as [|k q]; [reflexivity|]. cbn [get_leaf assoc].
    destruct (key_eqb k p); [|reflexivity]. rewrite get_leaf_empty. reflexivity. }
  apply (leafstep_comp (full sect) (fun m => addict m [(p, Node [])])
           (fun m => fold_left (put_ns tr t p) nss m)).
  - apply leafstep_addict.
    + apply wf_single. constructor; constructor.
    + constructor; [reflexivity|]. constructor; [|constructor]. constructor; [reflexivity|constructor].
  - apply leafstep_fold. intros ns _. apply leafstep_put_ns; assumption.
Qed.

Lemma leafstep_put_setting sect tr pts nss s : setting_ok sect s ->
  leafstep (full sect) (fun m => put_setting tr pts nss m s) (setting_trees tr pts nss s).
Proof.
  destruct s as [t|]; cbn [put_setting setting_trees setting_ok]; [|intros _; apply leafstep_id].
  intros [Hw Hc]. apply leafstep_fold. intros pt _. apply leafstep_put_pt; assumption.
Qed.

Lemma leafstep_put_mem sect tr pts nss ss : Forall (setting_ok sect) ss ->
  leafstep (full sect) (put_mem tr pts nss ss) (put_trees tr pts nss ss).
Proof.
  intros F. unfold put_mem, put_trees.
  apply (leafstep_fold (full sect) (put_setting tr pts nss) (setting_trees tr pts nss)).
  rewrite Forall_forall in F. intros s Hs. apply leafstep_put_setting. auto.
Qed.

(* ---------- the broadcast_states table ---------- *)
Lemma passoc_app p (l1 l2 : db) :
  assoc path_eqb p (l1 ++ l2) = orelse (assoc path_eqb p l1) (assoc path_eqb p l2).
Proof.
  induction l1 as [|[p' v] r IH]; cbn; [reflexivity|].
  destruct (path_eqb p p'); [reflexivity|apply IH].
Qed.
Lemma passoc_notin p (l : db) : ~ In p (map fst l) -> assoc path_eqb p l = None.
Proof.
  induction l as [|[p' v] r IH]; cbn; [reflexivity|]. intros H.
  rewrite path_eqb_neq by (intros ->; apply H; now left). apply IH. tauto.
Qed.

Lemma db_get_delete p q d :
  db_get p (db_delete q d) = if path_eqb p q then None else db_get p d.
Proof.
  unfold db_get, db_delete. induction d as [|[p0 v0] r IH]; cbn [filter assoc fst].
  - destruct (path_eqb p q); reflexivity.
  - destruct (path_eqb p0 q) eqn:E0; cbn [negb].
    + rewrite IH. apply path_eqb_spec in E0. subst p0.
      destruct (path_eqb p q); reflexivity.
    + cbn [assoc]. rewrite IH. destruct (path_eqb p p0) eqn:E1; [|reflexivity].
      apply path_eqb_spec in E1. subst p0. now rewrite E0.
Qed.
Lemma db_get_insert p q v d :
  db_get p (db_insert q v d) = if path_eqb p q then Some v else db_get p d.
Proof.
  unfold db_insert. unfold db_get at 1. rewrite passoc_app. fold (db_get p (db_delete q d)).
  rewrite db_get_delete. cbn [assoc]. destruct (path_eqb p q); [reflexivity|].
  cbn. now rewrite orelse_none_r.
Qed.
Lemma db_get_put p recs : forall d, db_get p (db_put recs d) = lastm p recs (db_get p d).
Proof.
  induction recs as [|r l IH]; intros d; [reflexivity|].
  cbn [db_put fold_left]. fold (db_put l (db_insert (fst r) (snd r) d)).
  rewrite IH, db_get_insert. reflexivity.
Qed.
Lemma mem_path_In p l : mem path_eqb p l = true <-> In p l.
Proof. apply mem_In. apply path_eqb_spec. Qed.
Lemma db_get_del p recs : forall d,
  db_get p (db_del recs d) = if mem path_eqb p (map fst recs) then None else db_get p d.
Proof.
  induction recs as [|r l IH]; intros d; [reflexivity|].
  cbn [db_del fold_left]. fold (db_del l (db_delete (fst r) d)).
  rewrite IH, db_get_delete. cbn [map mem].
  destruct (path_eqb p (fst r)); cbn [orb]; [destruct (mem path_eqb p (map fst l)); reflexivity|reflexivity].
Qed.

Lemma db_delete_keys q d : forall x, In x (map fst (db_delete q d)) -> In x (map fst d) /\ x <> q.
Proof.
  intros x H. apply in_map_iff in H. destruct H as ([p v] & <- & Hin). unfold db_delete in Hin.
  apply filter_In in Hin. destruct Hin as [Hin Hne]. cbn in *. split.
  - change p with (fst (p, v)). now apply in_map.
  - intros ->. rewrite path_eqb_refl in Hne. discriminate.
Qed.
Lemma NoDup_map_filter {A B} (f : A -> B) (g : A -> bool) l :
  NoDup (map f l) -> NoDup (map f (filter g l)).
Proof.
  induction l as [|x r IH]; cbn; [auto|]. intros H. inversion H as [|? ? Hx Hr]; subst.
  destruct (g x); cbn; [constructor|]; auto.
  intros Hin. apply Hx. apply in_map_iff in Hin. destruct Hin as (y & E & Hy).
  apply filter_In in Hy. rewrite <- E. apply in_map. tauto.
Qed.
Lemma db_nodup_delete q d : NoDup (map fst d) -> NoDup (map fst (db_delete q d)).
Proof. apply NoDup_map_filter. Qed.
Lemma db_nodup_insert q v d : NoDup (map fst d) -> NoDup (map fst (db_insert q v d)).
Proof.
  intros H. unfold db_insert. rewrite map_app. cbn. apply NoDup_snoc; [now apply db_nodup_delete|].
  intros Hin. apply db_delete_keys in Hin. tauto.
Qed.
Lemma db_nodup_put recs : forall d, NoDup (map fst d) -> NoDup (map fst (db_put recs d)).
Proof.
  induction recs as [|r l IH]; intros d H; [exact H|]. cbn [db_put fold_left].
  apply IH. now apply db_nodup_insert.
Qed.
Lemma db_nodup_del recs : forall d, NoDup (map fst d) -> NoDup (map fst (db_del recs d)).
Proof.
  induction recs as [|r l IH]; intros d H; [exact H|]. cbn [db_del fold_left].
  apply IH. now apply db_nodup_delete.
Qed.

(* ---------- insertion sort: stable, a permutation ---------- *)
Section Sort.
  Context {A : Type} (leb : A -> A -> bool).
  Lemma In_insert_by x y l : In y (insert_by leb x l) <-> y = x \/ In y l.
  Proof.
    induction l as [|z r IH]; cbn; [intuition|].
    destruct (leb x z); cbn; [intuition|]. rewrite IH. intuition.
  Qed.
  Lemma In_sort_by y l : In y (sort_by leb l) <-> In y l.
  Proof.
    induction l as [|x r IH]; [cbn; tauto|].
    change (sort_by leb (x :: r)) with (insert_by leb x (sort_by leb r)).
    rewrite In_insert_by, IH. cbn. intuition.
  Qed.
  Lemma filter_insert_by (f : A -> bool) x l :
    (forall y, f x = true -> f y = true -> leb x y = true) ->
    filter f (insert_by leb x l) = if f x then x :: filter f l else filter f l.
  Proof.
    intros H. induction l as [|y r IH]; cbn; [reflexivity|].
    destruct (leb x y) eqn:E; cbn; [reflexivity|].
    rewrite IH. destruct (f x) eqn:Fx; destruct (f y) eqn:Fy; try reflexivity.
    rewrite (H y eq_refl Fy) in E. discriminate.
  Qed.
  Lemma filter_sort_by (f : A -> bool) l :
    (forall x y, f x = true -> f y = true -> leb x y = true) ->
    filter f (sort_by leb l) = filter f l.
  Proof.
    intros H. induction l as [|x r IH]; [reflexivity|].
    change (sort_by leb (x :: r)) with (insert_by leb x (sort_by leb r)).
    rewrite filter_insert_by by (intros y; apply H). cbn [filter]. now rewrite IH.
  Qed.
End Sort.

Lemma lex_cmp_refl a : lex_cmp a a = Eq.
Proof. induction a as [|x a IH]; cbn; [reflexivity|]. now rewrite Z.compare_refl. Qed.

Definition samek (pt ns : key) (m : msetting) : bool :=
  key_eqb pt (fst (fst m)) && key_eqb ns (snd (fst m)).
Lemma samek_leb pt ns x y : samek pt ns x = true -> samek pt ns y = true -> ms_leb x y = true.
Proof.
  unfold samek. rewrite !andb_true_iff, !key_eqb_spec. intros [E1 E2] [E3 E4].
  unfold ms_leb. rewrite <- E1, <- E2, <- E3, <- E4, !lex_cmp_refl. reflexivity.
Qed.

(* ---------- records written by a put: all leaves of every setting ---------- *)
Lemma expand_paths m r : In r (expand m) -> exists q, fst r = fst (fst m) :: snd (fst m) :: q.
Proof.
  unfold expand. destruct (snd m); [intros []|]. intros H. apply in_map_iff in H.
  destruct H as (qv & <- & _). eexists. reflexivity.
Qed.
Lemma lastm_expand_other p m b :
  (match p with pt :: ns :: _ => samek pt ns m | _ => false end) = false ->
  lastm p (expand m) b = b.
Proof.
  intros H. apply lastm_nomatch. intros r Hr. apply expand_paths in Hr. destruct Hr as [q ->].
  destruct p as [|pt [|ns p]]; try reflexivity.
  - rewrite path_eqb_cons. destruct (key_eqb pt _); reflexivity.
  - rewrite !path_eqb_cons. unfold samek in H.
    destruct (key_eqb pt _); [|reflexivity]. destruct (key_eqb ns _); [discriminate|reflexivity].
Qed.
Lemma map_prefix2 (a b : key) (l : list (path * val)) :
  map (fun qv => (a :: b :: fst qv, snd qv)) l =
  map (fun pv => (a :: fst pv, snd pv)) (map (fun pv => (b :: fst pv, snd pv)) l).
Proof. induction l as [|x r IH]; cbn; [reflexivity|]. now rewrite IH. Qed.
Lemma lastm_expand p m b : wf (snd m) -> (exists kids, snd m = Node kids) ->
  lastm p (expand m) b = orelse (get_leaf p (wrap m)) b.
Proof.
  intros Hw [kids Hk]. rewrite get_leaf_wrap. unfold expand. rewrite Hk. rewrite <- Hk.
  rewrite map_prefix2, lastm_map_cons. destruct p as [|pt r0]; [reflexivity|].
  destruct (key_eqb pt (fst (fst m))); cbn [andb]; [|destruct r0; reflexivity].
  rewrite lastm_map_cons. destruct r0 as [|ns r]; [reflexivity|].
  destruct (key_eqb ns (snd (fst m))); [|reflexivity].
  apply lastm_flatten. exact Hw.
Qed.

Definition ms_ok (m : msetting) : Prop := wf (snd m) /\ exists kids, snd m = Node kids.

Lemma lastm_expand_all p ms : Forall ms_ok ms -> forall b,
  lastm p (flat_map expand ms) b = apply_leaf p (map wrap ms) b.
Proof.
  induction 1 as [|m r [Hw Hk] _ IH]; intros b; [reflexivity|].
  cbn [flat_map map]. rewrite lastm_app, lastm_expand by assumption.
  rewrite IH. reflexivity.
Qed.

Lemma lastm_expand_filter p ms b :
  lastm p (flat_map expand ms) b =
  match p with
  | pt :: ns :: _ => lastm p (flat_map expand (filter (samek pt ns) ms)) b
  | _ => b
  end.
Proof.
  revert b. induction ms as [|m r IH]; intros b.
  - destruct p as [|pt [|ns q]]; reflexivity.
  - cbn [flat_map]. rewrite lastm_app, IH. destruct p as [|pt [|ns q]].
    + now rewrite lastm_expand_other.
    + now rewrite lastm_expand_other.
    + cbn [filter]. destruct (samek pt ns m) eqn:E.
      * cbn [flat_map]. now rewrite lastm_app.
      * now rewrite lastm_expand_other.
Qed.

Lemma lastm_expand_sorted p ms b :
  lastm p (flat_map expand (sort_by ms_leb ms)) b = lastm p (flat_map expand ms) b.
Proof.
  rewrite (lastm_expand_filter p (sort_by ms_leb ms)), (lastm_expand_filter p ms).
  destruct p as [|pt [|ns q]]; try reflexivity.
  rewrite filter_sort_by; [reflexivity|]. intros x y. apply samek_leb.
Qed.

Lemma db_get_put_expand p ms d : Forall ms_ok ms ->
  db_get p (db_put (flat_map expand (sort_by ms_leb ms)) d) =
  apply_leaf p (map wrap ms) (db_get p d).
Proof.
  intros F. rewrite db_get_put, lastm_expand_sorted. now apply lastm_expand_all.
Qed.

(* ---------- filter-map on dicts (drop_leaves, prune) ---------- *)
Definition fmap (f : key -> tree -> option tree) (kids : dict) : dict :=
  flat_map (fun kt => match f (fst kt) (snd kt) with
                      | Some t' => [(fst kt, t')] | None => [] end) kids.
Definition get_leaf_o (p : path) (o : option tree) : option val :=
  match o with Some t => get_leaf p t | None => None end.

Lemma fmap_keys_in f kids k : In k (map fst (fmap f kids)) -> In k (map fst kids).
Proof.
  induction kids as [|[k0 t0] r IH]; cbn; [tauto|].
  unfold fmap in *. cbn [flat_map fst snd]. rewrite map_app, in_app_iff. intros [H|H]; [|auto].
  destruct (f k0 t0); cbn in H; [destruct H as [H|[]]; auto|tauto].
Qed.
Lemma fmap_nodup f kids : NoDup (map fst kids) -> NoDup (map fst (fmap f kids)).
Proof.
  induction kids as [|[k0 t0] r IH]; cbn; [constructor|]. intros H.
  inversion H as [|? ? Hk Hr]; subst. unfold fmap in *. cbn [flat_map fst snd].
  destruct (f k0 t0); cbn; [constructor|]; auto.
  intros Hin. apply Hk. exact (fmap_keys_in f r k0 Hin).
Qed.
Lemma fmap_assoc f kids k : NoDup (map fst kids) ->
  assoc key_eqb k (fmap f kids) =
  match assoc key_eqb k kids with Some t => f k t | None => None end.
Proof.
  induction kids as [|[k0 t0] r IH]; cbn; [reflexivity|]. intros H.
  inversion H as [|? ? Hk Hr]; subst. unfold fmap in *. cbn [flat_map fst snd].
  rewrite assoc_app. destruct (key_eqb k k0) eqn:E.
  - apply key_eqb_spec in E. subst k0. destruct (f k t0) as [t'|]; cbn [assoc].
    + now rewrite key_eqb_refl.
    + cbn [orelse]. apply assoc_notin. intros Hin. apply Hk. exact (fmap_keys_in f r k Hin).
  - destruct (f k0 t0); cbn [assoc]; [rewrite E|]; cbn [orelse]; auto.
Qed.
Lemma fmap_forall (Q : key * tree -> Prop) f kids :
  (forall k t t', In (k, t) kids -> f k t = Some t' -> Q (k, t')) -> Forall Q (fmap f kids).
Proof.
  induction kids as [|[k0 t0] r IH]; intros H; [constructor|].
  unfold fmap in *. cbn [flat_map fst snd]. apply Forall_app. split.
  - destruct (f k0 t0) eqn:E; [|constructor]. constructor; [|constructor].
    apply (H k0 t0); [now left|exact E].
  - apply IH. intros k t t' Hin. apply H. now right.
Qed.

Lemma drop_leaves_node P kids :
  drop_leaves P (Node kids) = Some (Node (fmap (fun k t => drop_leaves (sub P k) t) kids)).
Proof. reflexivity. Qed.
Lemma prune_node kids :
  prune (Node kids) = match fmap (fun _ t => prune t) kids with
                      | [] => None | l => Some (Node l) end.
Proof. reflexivity. Qed.

Lemma drop_leaves_spec t : forall P, wf t ->
  (forall t', drop_leaves P t = Some t' -> wf t' /\ forall s, conf s t -> conf s t') /\
  forall p, get_leaf_o p (drop_leaves P t) = if P p then None else get_leaf p t.
Proof.
  induction t as [v|kids IH] using tree_ind2; intros P Hw.
  - cbn [drop_leaves]. split.
    + intros t'. destruct (P []); [discriminate|]. intros [= <-]. split; [constructor|auto].
    + intros p. destruct p as [|k q]; cbn.
      * destruct (P []); reflexivity.
      * destruct (P []); cbn; destruct (P (k :: q)); reflexivity.
  - rewrite drop_leaves_node. apply wf_node_inv in Hw. destruct Hw as [Hnd Fw].
    rewrite Forall_forall in IH, Fw. split.
    + intros t' [= <-]. split.
      * constructor; [now apply fmap_nodup|]. apply fmap_forall. intros k t t2 Hin E. cbn.
        destruct (IH (k, t) Hin (sub P k) (Fw _ Hin)) as [H1 _]. apply (H1 t2 E).
      * intros s Hc. apply conf_node_inv in Hc. destruct Hc as [Hs Fc]. rewrite Forall_forall in Fc.
        constructor; [exact Hs|]. apply fmap_forall. intros k t t2 Hin E. cbn.
        destruct (IH (k, t) Hin (sub P k) (Fw _ Hin)) as [H1 _].
        apply (H1 t2 E). apply (Fc (k, t) Hin).
    + intros p. cbn [get_leaf_o]. destruct p as [|k q]; [cbn; destruct (P []); reflexivity|].
      rewrite !get_leaf_node, fmap_assoc by exact Hnd.
      destruct (assoc key_eqb k kids) as [t|] eqn:Ea; [|destruct (P (k :: q)); reflexivity].
      apply assoc_some_in in Ea.
      destruct (IH (k, t) Ea (sub P k) (Fw _ Ea)) as [_ H2]. cbn in H2.
      specialize (H2 q). unfold get_leaf_o in H2.
      destruct (drop_leaves (sub P k) t); exact H2.
Qed.

Lemma prune_spec t : wf t ->
  (forall t', prune t = Some t' -> wf t' /\ forall s, conf s t -> conf s t') /\
  forall p, get_leaf_o p (prune t) = get_leaf p t.
Proof.
  induction t as [v|kids IH] using tree_ind2; intros Hw.
  - cbn [prune]. split; [intros t' [= <-]; split; [constructor|auto]|reflexivity].
  - rewrite prune_node. apply wf_node_inv in Hw. destruct Hw as [Hnd Fw].
    rewrite Forall_forall in IH, Fw.
    assert (Hl : wf (Node (fmap (fun _ t => prune t) kids)) /\
                 forall s, conf s (Node kids) -> conf s (Node (fmap (fun _ t => prune t) kids))).
    { split.
      - constructor; [now apply fmap_nodup|]. apply fmap_forall. intros k t t2 Hin E. cbn.
        destruct (IH (k, t) Hin (Fw _ Hin)) as [H1 _]. apply (H1 t2 E).
      - intros s Hc. apply conf_node_inv in Hc. destruct Hc as [Hs Fc]. rewrite Forall_forall in Fc.
        constructor; [exact Hs|]. apply fmap_forall. intros k t t2 Hin E. cbn.
        destruct (IH (k, t) Hin (Fw _ Hin)) as [H1 _]. apply (H1 t2 E). apply (Fc (k, t) Hin). }
    assert (Hg : forall p, get_leaf p (Node (fmap (fun _ t => prune t) kids)) = get_leaf p (Node kids)).
    { intros p. destruct p as [|k q]; [reflexivity|].
      rewrite !get_leaf_node, fmap_assoc by exact Hnd.
      destruct (assoc key_eqb k kids) as [t|] eqn:Ea; [|reflexivity].
      apply assoc_some_in in Ea. destruct (IH (k, t) Ea (Fw _ Ea)) as [_ H2]. cbn in H2.
      specialize (H2 q). unfold get_leaf_o in H2. destruct (prune t); exact H2. }
    destruct (fmap (fun _ t => prune t) kids) as [|kt l] eqn:El.
    + split; [discriminate|]. intros p. rewrite <- Hg. cbn. now rewrite get_leaf_empty.
    + split; [intros t' [= <-]; exact Hl|]. intros p. cbn [get_leaf_o]. apply Hg.
Qed.

Lemma clear_mem_wf P m : wf (Node m) ->
  wf (Node (clear_mem P m)) /\
  (forall S, conf S (Node m) -> conf S (Node (clear_mem P m))) /\
  forall p, get_leaf p (Node (clear_mem P m)) = if P p then None else get_leaf p (Node m).
Proof.
  intros Hw. unfold clear_mem, prune_root.
  destruct (drop_leaves_spec (Node m) P Hw) as [D1 D2].
  rewrite drop_leaves_node in *. cbn [kids_of].
  set (m1 := fmap (fun k t => drop_leaves (sub P k) t) m) in *.
  destruct (D1 _ eq_refl) as [Hw1 Hc1].
  destruct (prune_spec (Node m1) Hw1) as [P1 P2].
  destruct (prune (Node m1)) as [t2|] eqn:Ep.
  - destruct (P1 _ eq_refl) as [Hw2 Hc2].
    rewrite prune_node in Ep. destruct (fmap _ m1) as [|kt l]; [discriminate|].
    injection Ep as <-. cbn [kids_of]. split; [exact Hw2|]. split; [intros S Hc; auto|].
    intros p. specialize (P2 p). cbn [get_leaf_o] in P2. rewrite P2.
    specialize (D2 p). cbn [get_leaf_o] in D2. exact D2.
  - cbn [kids_of]. split; [constructor; constructor|]. split.
    + intros S Hc. constructor; [now inversion Hc|constructor].
    + intros p. specialize (P2 p). cbn [get_leaf_o] in P2. rewrite get_leaf_empty.
      specialize (D2 p). cbn [get_leaf_o] in D2. rewrite <- D2. exact P2.
Qed.

Lemma clear_mem_spec S P m : inv S m ->
  inv S (clear_mem P m) /\
  forall p, get_leaf p (Node (clear_mem P m)) = if P p then None else get_leaf p (Node m).
Proof.
  intros [Hw Hc]. destruct (clear_mem_wf P m Hw) as (W & C & G).
  split; [split; auto|exact G].
Qed.

(* ---------- restart: load ---------- *)
Lemma passoc_in_nodup p v (d : db) : NoDup (map fst d) -> In (p, v) d -> assoc path_eqb p d = Some v.
Proof.
  induction d as [|[p' v'] r IH]; cbn; [tauto|]. intros Hnd [E|Hin].
  - inversion E; subst. now rewrite path_eqb_refl.
  - inversion Hnd as [|? ? Hk Hr]; subst.
    rewrite path_eqb_neq; [auto|]. intros ->. apply Hk.
    change p' with (fst (p', v)). now apply in_map.
Qed.

Lemma load_app d r : load (d ++ [r]) = load_row (load d) r.
Proof. unfold load. rewrite fold_left_app. reflexivity. Qed.

Lemma load_spec S d : S [] = true -> NoDup (map fst d) ->
  (forall r, In r d -> leafpath S (fst r)) ->
  inv S (load d) /\ forall p, get_leaf p (Node (load d)) = db_get p d.
Proof.
  intros HS. induction d as [|r d IH] using rev_ind; intros Hnd Hl.
  - split; [split; [constructor; constructor|constructor; [exact HS|constructor]]|].
    intros p. cbn. apply get_leaf_empty.
  - rewrite map_app in Hnd. cbn in Hnd.
    assert (Hnd' : NoDup (map fst d) /\ ~ In (fst r) (map fst d)).
    { apply NoDup_remove in Hnd. rewrite app_nil_r in Hnd. exact Hnd. }
    destruct Hnd' as [Hnd' Hnot].
    destruct IH as [[Hw Hc] G]; [exact Hnd'|intros r' Hr'; apply Hl; apply in_or_app; now left|].
    rewrite load_app. unfold load_row. destruct r as [p0 v0]. cbn [fst snd] in *.
    assert (Hlp : leafpath S p0) by (apply (Hl (p0, v0)); apply in_or_app; right; now left).
    destruct p0 as [|k q]; [cbn in Hlp; congruence|].
    cbn [chain kids_of].
    destruct (addict_spec [(k, chain q v0)] S (load d)) as (W & C & G2); auto.
    { apply (wf_chain (k :: q) v0). } { apply (conf_chain (k :: q) S v0 Hlp). }
    split; [split; assumption|]. intros p. rewrite G2, G.
    change (Node [(k, chain q v0)]) with (chain (k :: q) v0). rewrite get_leaf_chain.
    unfold db_get. rewrite passoc_app. cbn [assoc].
    destruct (path_eqb p (k :: q)) eqn:E; cbn [orelse].
    + apply path_eqb_spec in E. subst p. now rewrite (passoc_notin _ d Hnot).
    + destruct (assoc path_eqb p d); reflexivity.
Qed.

(* ---------- the change iterator ---------- *)
(* [ci] writes all leaves of the settings it is given, provided they are [good] *)
Definition ci_ok (ci : iter) (good : tree -> Prop) : Prop :=
  forall ms, Forall (fun m => good (snd m)) ms ->
    ci ms = (flat_map expand (sort_by ms_leb ms), false).

(* a setting with exactly one leaf, as the CLI produces them *)
Definition single (t : tree) : Prop :=
  exists kids pv, t = Node kids /\ first_leaf t = Some pv /\ flatten t = [pv].

Lemma single_chain k q v : single (chain (k :: q) v).
Proof.
  exists [(k, chain q v)], (k :: q, v). split; [reflexivity|].
  split; [apply first_leaf_chain|apply flatten_chain].
Qed.

Lemma change_walk_single ms : Forall (fun m => single (snd m)) ms ->
  change_walk first_leaf ms = (flat_map expand ms, false).
Proof.
  induction 1 as [|[[p ns] t] r (kids & [q v] & Ht & Hf & Hfl) _ IH]; [reflexivity|].
  cbn [snd] in *. cbn [change_walk flat_map]. rewrite IH. subst t. rewrite Hf.
  assert (E : expand (p, ns, Node kids) = [(p :: ns :: q, v)])
    by (unfold expand; cbn [fst snd]; rewrite Hfl; reflexivity).
  rewrite E. reflexivity.
Qed.

Lemma ci_ok_pre_fix : ci_ok change_iter_pre_fix single.
Proof.
  intros ms F. unfold change_iter_pre_fix. apply change_walk_single.
  rewrite Forall_forall in *. intros m Hm. apply F. now apply In_sort_by in Hm.
Qed.
Lemma ci_ok_fixed : ci_ok change_iter_fixed (fun _ => True).
Proof. intros ms _. reflexivity. Qed.
Lemma ci_ok_current : ci_ok change_iter (fun _ => True).
Proof. exact ci_ok_fixed. Qed.

(* ---------- one operation preserves "DB = memory on the leaves" ---------- *)
Definition Inv (sect : path -> bool) (st : state) : Prop :=
  inv (full sect) (s_mem st) /\ NoDup (map fst (s_db st)) /\
  forall p, db_get p (s_db st) = get_leaf p (Node (s_mem st)).

Definition put_setting_ok (sect : path -> bool) (good : tree -> Prop) (s : option tree) : Prop :=
  match s with Some t => wf t /\ conf sect t /\ good t | None => True end.
Definition op_ok (sect : path -> bool) (good : tree -> Prop) (o : op) : Prop :=
  match o with Put _ _ ss => Forall (put_setting_ok sect good) ss | _ => True end.

Lemma put_mods_In tr pts nss ss m : In m (put_mods tr pts nss ss) -> In (Some (snd m)) ss.
Proof.
  unfold put_mods. rewrite in_flat_map. intros ([t|] & Hs & H); [|destruct H].
  apply in_flat_map in H. destruct H as ([p|] & _ & H); [|destruct H].
  apply in_flat_map in H. destruct H as (ns & _ & H).
  destruct (ns_known tr ns); [|destruct H]. destruct H as [<-|[]]. exact Hs.
Qed.

Lemma conf_node_shape s t : s [] = true -> conf s t -> exists kids, t = Node kids.
Proof. intros Hs H. inversion H; subst; [congruence|eauto]. Qed.

Lemma leafpath_full_len sect p : sect [] = true -> leafpath (full sect) p ->
  exists pt ns k rest, p = pt :: ns :: k :: rest.
Proof.
  intros Hs H. destruct p as [|pt [|ns [|k rest]]]; cbn in H.
  - discriminate.
  - destruct H as [_ H]. discriminate.
  - destruct H as [_ [_ H]]. unfold sub, full in H. congruence.
  - eauto.
Qed.

Lemma put_inv ci good sect tr pts nss ss st :
  ci_ok ci good -> sect [] = true -> Inv sect st -> Forall (put_setting_ok sect good) ss ->
  Inv sect (fst (put_with ci tr pts nss ss st)).
Proof.
  intros Hci Hs (Hinv & Hnd & Heq) F. unfold put_with.
  assert (Fm : forall m, In m (put_mods tr pts nss ss) ->
                 wf (snd m) /\ conf sect (snd m) /\ good (snd m)).
  { intros m Hm. apply put_mods_In in Hm. rewrite Forall_forall in F. exact (F _ Hm). }
  rewrite Hci by (apply Forall_forall; intros m Hm; apply (Fm m Hm)).
  cbn [fst s_mem s_db].
  destruct (leafstep_put_mem sect tr pts nss ss) with (m := s_mem st) as [I G]; [|exact Hinv|].
  { rewrite Forall_forall in *. intros s Hin. specialize (F s Hin). destruct s; cbn in *; tauto. }
  split; [exact I|]. split; [now apply db_nodup_put|].
  intros p. cbn [s_mem s_db]. rewrite G, put_trees_mods, db_get_put_expand, Heq; [reflexivity|].
  apply Forall_forall. intros m Hm. destruct (Fm m Hm) as (Hw & Hc & _).
  split; [exact Hw|]. exact (conf_node_shape sect _ Hs Hc).
Qed.

Lemma clear_recs_paths sect P m : sect [] = true -> inv (full sect) m -> forall p,
  In p (map fst (flat_map expand (sort_by ms_leb
         (flat_map split_ms (filter (fun pv => P (fst pv)) (flatten (Node m)))))))
  <-> (P p = true /\ exists v, get_leaf p (Node m) = Some v).
Proof.
  intros Hs [Hw Hc] p. split.
  - intros H. apply in_map_iff in H. destruct H as (r & <- & Hr).
    apply in_flat_map in Hr. destruct Hr as (ms & Hms & Hr). apply In_sort_by in Hms.
    apply in_flat_map in Hms. destruct Hms as ([p0 v0] & Hpv & Hsp).
    apply filter_In in Hpv. destruct Hpv as [Hfl HP]. cbn [fst] in HP.
    apply (In_flatten _ Hw) in Hfl.
    unfold split_ms in Hsp. cbn [fst snd] in Hsp.
    destruct p0 as [|pt [|ns rest]]; [destruct Hsp|destruct Hsp|]. destruct Hsp as [<-|[]].
    unfold expand in Hr. cbn [fst snd] in Hr.
    destruct (chain rest v0) eqn:Ech; [destruct Hr|]. rewrite <- Ech, flatten_chain in Hr.
    destruct Hr as [<-|[]]. cbn [fst]. split; [exact HP|eauto].
  - intros [HP [v Hv]].
    pose proof (get_leaf_leafpath _ _ _ _ Hc Hv) as Hlp.
    destruct (leafpath_full_len sect p Hs Hlp) as (pt & ns & k & rest & ->).
    apply in_map_iff. exists (pt :: ns :: k :: rest, v). split; [reflexivity|].
    apply in_flat_map. exists (pt, ns, chain (k :: rest) v). split.
    + apply In_sort_by. apply in_flat_map. exists (pt :: ns :: k :: rest, v). split.
      * apply filter_In. split; [apply (In_flatten _ Hw); exact Hv|exact HP].
      * now left.
    + unfold expand. cbn [fst snd chain]. change (Node [(k, chain rest v)]) with (chain (k :: rest) v).
      rewrite flatten_chain. now left.
Qed.

Lemma clear_ms_good sect (good : tree -> Prop) P m :
  (forall k q v, good (chain (k :: q) v)) -> sect [] = true -> inv (full sect) m ->
  Forall (fun ms => good (snd ms))
    (flat_map split_ms (filter (fun pv => P (fst pv)) (flatten (Node m)))).
Proof.
  intros Hg Hs [Hw Hc]. apply Forall_forall. intros ms Hms.
  apply in_flat_map in Hms. destruct Hms as ([p0 v0] & Hpv & Hsp).
  apply filter_In in Hpv. destruct Hpv as [Hfl _]. apply (In_flatten _ Hw) in Hfl.
  pose proof (get_leaf_leafpath _ _ _ _ Hc Hfl) as Hlp.
  destruct (leafpath_full_len sect p0 Hs Hlp) as (pt & ns & k & rest & ->).
  unfold split_ms in Hsp. cbn [fst snd] in Hsp. destruct Hsp as [<-|[]]. cbn [snd]. apply Hg.
Qed.

Lemma clear_inv ci good sect pts nss cancel st :
  ci_ok ci good -> (forall k q v, good (chain (k :: q) v)) -> sect [] = true ->
  Inv sect st -> Inv sect (fst (clear_with ci pts nss cancel st)).
Proof.
  intros Hci Hg Hs (Hinv & Hnd & Heq). unfold clear_with.
  set (P := targeted pts nss (cancel_keys cancel)).
  rewrite Hci by (apply (clear_ms_good sect good P); assumption).
  cbn [fst s_mem s_db].
  destruct (clear_mem_spec (full sect) P (s_mem st) Hinv) as [I G].
  split; [exact I|]. split; [now apply db_nodup_del|].
  intros p. cbn [s_mem s_db]. rewrite G, db_get_del, Heq.
  destruct (mem path_eqb p _) eqn:Em.
  - apply mem_path_In in Em. apply (clear_recs_paths sect P _ Hs Hinv) in Em.
    destruct Em as [-> _]. reflexivity.
  - destruct (P p) eqn:HP; [|reflexivity].
    destruct (get_leaf p (Node (s_mem st))) as [v|] eqn:Ev; [|reflexivity].
    assert (Hin : In p (map fst (flat_map expand (sort_by ms_leb (flat_map split_ms
              (filter (fun pv => P (fst pv)) (flatten (Node (s_mem st)))))))))
      by (apply (clear_recs_paths sect P _ Hs Hinv); eauto).
    apply mem_path_In in Hin. congruence.
Qed.

Lemma step_inv ci good sect tr st o :
  ci_ok ci good -> (forall k q v, good (chain (k :: q) v)) -> sect [] = true ->
  Inv sect st -> op_ok sect good o -> Inv sect (fst (step_with ci tr st o)).
Proof.
  intros Hci Hg Hs HI Ho. destruct o as [pts nss ss|pts nss c|c|]; cbn [step_with].
  - eapply put_inv; eauto.
  - eapply clear_inv; eauto.
  - unfold expire_with. destruct (filter _ _); [exact HI|]. eapply clear_inv; eauto.
  - exact HI.
Qed.

Lemma Inv_init sect : Inv sect init.
Proof.
  split; [split; [constructor; constructor|constructor; [reflexivity|constructor]]|].
  split; [constructor|]. intros p. cbn. now rewrite get_leaf_empty.
Qed.

Lemma run_inv ci good sect tr h :
  ci_ok ci good -> (forall k q v, good (chain (k :: q) v)) -> sect [] = true ->
  Forall (op_ok sect good) h -> Inv sect (run_with ci tr h).
Proof.
  intros Hci Hg Hs. unfold run_with. generalize (Inv_init sect). generalize init.
  induction h as [|o h IH]; intros st HI F; [exact HI|].
  inversion F; subst. cbn [fold_left]. apply IH; [|assumption]. eapply step_inv; eauto.
Qed.

(* the state reloaded from the DB has the same leaves as the in-memory state *)
Lemma roundtrip_gen ci good sect tr h :
  ci_ok ci good -> (forall k q v, good (chain (k :: q) v)) -> sect [] = true ->
  Forall (op_ok sect good) h ->
  let st := run_with ci tr h in
  forall p, get_leaf p (Node (load (s_db st))) = get_leaf p (Node (s_mem st)).
Proof.
  intros Hci Hg Hs F st p. destruct (run_inv ci good sect tr h Hci Hg Hs F) as ((Hw & Hc) & Hnd & Heq).
  fold st in Hw, Hc, Hnd, Heq.
  destruct (load_spec (full sect) (s_db st)) as [_ G]; [reflexivity|exact Hnd| |].
  - intros [p0 v0] Hin. cbn [fst]. apply (get_leaf_leafpath p0 (full sect) (Node (s_mem st)) v0 Hc).
    rewrite <- Heq. apply passoc_in_nodup; assumption.
  - rewrite G. apply Heq.
Qed.

(* ---------- clear / expire on the leaves ---------- *)
Lemma clear_with_mem ci pts nss cancel st :
  s_mem (fst (clear_with ci pts nss cancel st)) =
  clear_mem (targeted pts nss (cancel_keys cancel)) (s_mem st).
Proof. unfold clear_with. destruct (ci _). reflexivity. Qed.

Lemma clear_exact ci pts nss cancel st : wf (Node (s_mem st)) -> forall p,
  get_leaf p (Node (s_mem (fst (clear_with ci pts nss cancel st)))) =
  if targeted pts nss (cancel_keys cancel) p then None else get_leaf p (Node (s_mem st)).
Proof.
  intros Hw p. rewrite clear_with_mem.
  destruct (clear_mem_wf (targeted pts nss (cancel_keys cancel)) (s_mem st) Hw) as (_ & _ & G).
  apply G.
Qed.

Lemma get_leaf_absent_key k q m : ~ In k (map fst m) -> get_leaf (k :: q) (Node m) = None.
Proof. intros H. rewrite get_leaf_node, assoc_notin by exact H. reflexivity. Qed.

Lemma expire_exact ci cutoff st : wf (Node (s_mem st)) -> forall pt ns rest,
  get_leaf (pt :: ns :: rest) (Node (s_mem (fst (expire_with ci cutoff st)))) =
  if expired cutoff pt then None else get_leaf (pt :: ns :: rest) (Node (s_mem st)).
Proof.
  intros Hw pt ns rest. unfold expire_with.
  destruct (filter (expired cutoff) (map fst (s_mem st))) as [|k0 l] eqn:Ef.
  - cbn [fst]. destruct (expired cutoff pt) eqn:Ex; [|reflexivity].
    apply get_leaf_absent_key. intros Hin.
    assert (In pt (filter (expired cutoff) (map fst (s_mem st)))) by (apply filter_In; auto).
    rewrite Ef in H. destruct H.
  - rewrite clear_exact by exact Hw. rewrite <- Ef. cbn [targeted cancel_keys flat_map sel sel_path].
    rewrite !andb_true_r. unfold sel. rewrite Ef. rewrite <- Ef.
    destruct (mem key_eqb pt (filter (expired cutoff) (map fst (s_mem st)))) eqn:Em.
    + apply mem_key_In in Em. apply filter_In in Em. destruct Em as [_ ->]. reflexivity.
    + destruct (expired cutoff pt) eqn:Ex; [|reflexivity].
      apply get_leaf_absent_key. intros Hin.
      assert (Hf : In pt (filter (expired cutoff) (map fst (s_mem st)))) by (apply filter_In; auto).
      apply mem_key_In in Hf. congruence.
Qed.

(* ---------- get_broadcast: precedence ---------- *)
Definition prec_order (anc : list key) (cycle : key) : list (key * key) :=
  map (pair KStar) (rev anc) ++ map (pair cycle) (rev anc).
(* the last defined of a list of options, starting from [b] *)
Definition last_defined (l : list (option val)) (b : option val) : option val :=
  fold_left (fun acc o => orelse o acc) l b.

Lemma apply_leaf_last p ts b : apply_leaf p ts b = last_defined (map (get_leaf p) ts) b.
Proof. revert b. induction ts as [|t r IH]; intros b; cbn; [reflexivity|apply IH]. Qed.

Lemma flat_map_single {A B} (f : A -> B) l : flat_map (fun x => [f x]) l = map f l.
Proof. induction l as [|x r IH]; cbn; [reflexivity|now rewrite IH]. Qed.

Lemma fold_addict_spec sect srcs : sect [] = true ->
  Forall (fun s => wf (Node s) /\ conf sect (Node s)) srcs ->
  forall p, get_leaf p (Node (fold_left addict srcs [])) = apply_leaf p (map Node srcs) None.
Proof.
  intros Hs F p.
  destruct (leafstep_fold sect addict (fun s => [Node s]) srcs) with (m := @nil (key * tree)) as [_ G].
  - intros s Hin. rewrite Forall_forall in F. destruct (F s Hin) as [Hw Hc].
    apply leafstep_addict; assumption.
  - split; [constructor; constructor|constructor; [exact Hs|constructor]].
  - rewrite G, flat_map_single. cbn. now rewrite get_leaf_empty.
Qed.

Lemma sources_ok sect m anc cycle : inv (full sect) m ->
  Forall (fun s => wf (Node s) /\ conf sect (Node s)) (bc_sources m anc cycle).
Proof.
  intros [Hw Hc]. unfold bc_sources. apply Forall_forall. intros s Hin.
  apply in_flat_map in Hin. destruct Hin as (c & _ & Hin).
  destruct (assoc key_eqb c m) as [[v|nsd]|] eqn:Ec; [destruct Hin| |destruct Hin].
  apply in_flat_map in Hin. destruct Hin as (ns & _ & Hin).
  destruct (assoc key_eqb ns nsd) as [[v|s']|] eqn:En; [destruct Hin| |destruct Hin].
  destruct Hin as [<-|[]].
  pose proof (wf_kid _ _ _ Hw Ec) as Hw1. pose proof (conf_kid _ _ _ _ Hc Ec) as Hc1.
  split; [exact (wf_kid _ _ _ Hw1 En)|].
  eapply conf_ext; [|exact (conf_kid _ _ _ _ Hc1 En)]. reflexivity.
Qed.

Lemma sources_leaves sect m anc c p b : inv (full sect) m -> sect [] = true ->
  apply_leaf p (map Node
    match assoc key_eqb c m with
    | Some (Node nsd) =>
        flat_map (fun ns => match assoc key_eqb ns nsd with Some (Node s) => [s] | _ => [] end) anc
    | _ => []
    end) b =
  last_defined (map (fun ns => get_leaf (c :: ns :: p) (Node m)) anc) b.
Proof.
  intros [Hw Hc] Hs. destruct (assoc key_eqb c m) as [[v|nsd]|] eqn:Ec.
  - pose proof (conf_kid _ _ _ _ Hc Ec) as H. inversion H; subst. discriminate.
  - pose proof (conf_kid _ _ _ _ Hc Ec) as Hc1.
    revert b. induction anc as [|ns r IH]; intros b; [reflexivity|].
    cbn [flat_map map]. rewrite map_app, apply_leaf_app, IH. unfold last_defined. cbn [fold_left].
    f_equal. rewrite get_leaf_node, Ec. cbv beta iota. rewrite get_leaf_node.
    destruct (assoc key_eqb ns nsd) as [[v|s]|] eqn:En; cbn; try reflexivity.
    pose proof (conf_kid _ _ _ _ Hc1 En) as H. inversion H; subst. unfold sub, full in *. congruence.
  - unfold apply_leaf. cbn [map fold_left]. revert b.
    induction anc as [|ns r IH]; intros b; [reflexivity|].
    cbn [map]. unfold last_defined. cbn [fold_left]. rewrite get_leaf_node, Ec. cbn [orelse].
    apply IH.
Qed.

Lemma last_defined_app l1 l2 b : last_defined (l1 ++ l2) b = last_defined l2 (last_defined l1 b).
Proof. apply fold_left_app. Qed.

Lemma get_broadcast_precedence sect m anc cycle : inv (full sect) m -> sect [] = true -> forall p,
  get_leaf p (Node (get_broadcast m anc cycle)) =
  last_defined (map (fun cn => get_leaf (fst cn :: snd cn :: p) (Node m)) (prec_order anc cycle)) None.
Proof.
  intros Hi Hs p. unfold get_broadcast.
  rewrite (fold_addict_spec sect) by (auto using sources_ok).
  unfold bc_sources. cbn [flat_map]. rewrite app_nil_r, map_app, apply_leaf_app.
  rewrite !(sources_leaves sect) by assumption.
  unfold prec_order. rewrite map_app, last_defined_app, !map_map. reflexivity.
Qed.

Lemma rtconfig_overrides sect static m anc cycle :
  inv (full sect) m -> sect [] = true -> wf (Node static) -> conf sect (Node static) -> forall p,
  get_leaf p (Node (updated_rtconfig static m anc cycle)) =
  orelse (get_leaf p (Node (get_broadcast m anc cycle))) (get_leaf p (Node static)).
Proof.
  intros Hi Hs Hws Hcs p. unfold updated_rtconfig.
  assert (Hg : inv sect (get_broadcast m anc cycle)).
  { unfold get_broadcast.
    destruct (leafstep_fold sect addict (fun s => [Node s]) (bc_sources m anc cycle))
      with (m := @nil (key * tree)) as [I _]; [| |exact I].
    - intros s Hin. pose proof (sources_ok sect m anc cycle Hi) as F. rewrite Forall_forall in F.
      destruct (F s Hin). apply leafstep_addict; assumption.
    - split; [constructor; constructor|constructor; [exact Hs|constructor]]. }
  destruct Hg as [Hwg Hcg].
  destruct (addict_spec (get_broadcast m anc cycle) sect static Hwg Hws Hcs Hcg) as (_ & _ & G).
  apply G.
Qed.

Lemma own_cycle_task_wins sect m task rest cycle p v :
  inv (full sect) m -> sect [] = true ->
  get_leaf (cycle :: task :: p) (Node m) = Some v ->
  get_leaf p (Node (get_broadcast m (task :: rest) cycle)) = Some v.
Proof.
  intros Hi Hs E. rewrite (get_broadcast_precedence sect) by assumption.
  assert (Ep : prec_order (task :: rest) cycle =
               (map (pair KStar) (rev (task :: rest)) ++ map (pair cycle) (rev rest))
               ++ [(cycle, task)]).
  { unfold prec_order. cbn [rev]. rewrite (map_app (pair cycle)). cbn [map]. now rewrite app_assoc. }
  rewrite Ep, map_app, last_defined_app. unfold last_defined at 1. cbn [map fold_left fst snd].
  now rewrite E.
Qed.
