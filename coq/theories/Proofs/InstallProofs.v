(* Proofs/InstallProofs.v — lemmas for C48 over Model/Install.v. *)
From Coq Require Import List NArith Bool Arith Lia.
From Cylc Require Import Base.Util Model.Install.
Import ListNotations.
Open Scope N_scope.

(* ---- lists of N: maximum ---- *)
Definition lmax (l : list N) : N := fold_right N.max 0 l.

Lemma lmax_ge : forall l k, In k l -> k <= lmax l.
Proof.
  induction l as [|x l IH]; intros k H; [destruct H|].
  change (lmax (x :: l)) with (N.max x (lmax l)).
  destruct H as [->|H]; [lia|]. specialize (IH k H). lia.
Qed.

Lemma lmax_in : forall l, l <> [] -> In (lmax l) l.
Proof.
  induction l as [|x l IH]; intros H; [congruence|].
  change (lmax (x :: l)) with (N.max x (lmax l)). destruct l as [|y l'].
  - left. change (lmax []) with 0. lia.
  - assert (G : In (lmax (y :: l')) (y :: l')) by (apply IH; discriminate).
    destruct (N.max_spec x (lmax (y :: l'))) as [[_ E]|[_ E]]; rewrite E; [right; exact G|left; reflexivity].
Qed.

Lemma lmax_unique : forall l m, (forall k, In k l -> k <= m) -> In m l -> lmax l = m.
Proof.
  intros l m Hle Hin. apply N.le_antisymm.
  - destruct l as [|x l']; [destruct Hin|]. apply Hle. apply lmax_in. discriminate.
  - apply lmax_ge. exact Hin.
Qed.

Lemma maxnum_lmax : forall s, maxnum s = lmax (nums s).
Proof. reflexivity. Qed.

(* ---- membership ---- *)
Lemma has_num_In : forall s k, has_num s k = true <-> In k (nums s).
Proof. intros. unfold has_num. apply mem_In. intros x y. apply N.eqb_eq. Qed.

Lemma has_num_false : forall s k, has_num s k = false <-> ~ In k (nums s).
Proof.
  intros s k. rewrite <- has_num_In. destruct (has_num s k); split; intros; congruence.
Qed.

Lemma has_name_In : forall s j, has_name s j = true <-> In j (names s).
Proof. intros. unfold has_name. apply mem_In. intros x y. apply Nat.eqb_eq. Qed.

Lemma nums_remove : forall k l,
  map fst (remove_key N.eqb k l) = filter (fun x => negb (N.eqb x k)) (map fst l).
Proof.
  intros k l. unfold remove_key. induction l as [|[a c] l IH]; [reflexivity|].
  cbn [filter map fst]. destruct (N.eqb a k); cbn [negb map fst]; rewrite IH; reflexivity.
Qed.

Lemma In_remove : forall k l x,
  In x (map fst (remove_key N.eqb k l)) <-> In x (map fst l) /\ x <> k.
Proof.
  intros k l x. rewrite nums_remove, filter_In, negb_true_iff, N.eqb_neq. tauto.
Qed.

Lemma In_remove_pair : forall k l (e : N * nat),
  In e (remove_key N.eqb k l) <-> In e l /\ fst e <> k.
Proof.
  intros k l e. unfold remove_key. rewrite filter_In, negb_true_iff, N.eqb_neq. tauto.
Qed.

Lemma nums_restamp : forall k c l, map fst (restamp N.eqb k c l) = map fst l.
Proof.
  intros k c l. unfold restamp. induction l as [|[a d] l IH]; [reflexivity|].
  cbn [map fst]. rewrite IH. destruct (N.eqb a k) eqn:E; [apply N.eqb_eq in E; subst|]; reflexivity.
Qed.

Lemma names_restamp : forall j c l, map fst (restamp Nat.eqb j c l) = map fst l.
Proof.
  intros j c l. unfold restamp. induction l as [|[a d] l IH]; [reflexivity|].
  cbn [map fst]. rewrite IH. destruct (Nat.eqb a j) eqn:E; [apply Nat.eqb_eq in E; subst|]; reflexivity.
Qed.

Arguments has_num : simpl never.
Arguments has_name : simpl never.
Arguments next_num : simpl never.
Arguments finish_install : simpl never.
Arguments tidy : simpl never.
Arguments clean_num : simpl never.
Arguments maxnum : simpl never.
Arguments dir_exists : simpl never.

(* ---- the invariants ---- *)
(* a runN link whose target exists points at the highest numbered run *)
Definition inv (s : st) : Prop :=
  forall t, runN s = Some t -> In t (nums s) -> forall k, In k (nums s) -> k <= t.

(* runN never dangles *)
Definition linked (s : st) : Prop := forall t, runN s = Some t -> In t (nums s).

Lemma inv_empty : inv empty.
Proof. intros t H. discriminate. Qed.

Lemma linked_empty : linked empty.
Proof. intros t H. discriminate. Qed.

Lemma inv_max : forall s t, inv s -> runN s = Some t -> In t (nums s) -> t = maxnum s.
Proof.
  intros s t I R H. symmetry. apply lmax_unique; [apply (I t R H) | exact H].
Qed.

(* ---- get_next_rundir_number is fresh ---- *)
Lemma next_num_eq : forall s, inv s -> next_num s = N.succ (maxnum s).
Proof.
  intros s I. unfold next_num. destruct (runN s) as [t|] eqn:R; [|reflexivity].
  destruct (has_num s t) eqn:H; [|reflexivity].
  apply has_num_In in H. rewrite (inv_max s t I R H). reflexivity.
Qed.

Lemma next_above : forall s, inv s -> forall k, In k (nums s) -> k < next_num s.
Proof.
  intros s I k H. rewrite (next_num_eq s I). pose proof (lmax_ge _ _ H) as G.
  rewrite <- maxnum_lmax in G. lia.
Qed.

Lemma next_fresh : forall s, inv s -> ~ In (next_num s) (nums s).
Proof. intros s I H. pose proof (next_above s I _ H). lia. Qed.

(* ---- finish_install and tidy only touch the source link / reset to empty ---- *)
Lemma finish_install_fields : forall s src,
  let s' := fst (finish_install s src) in
  numbered s' = numbered s /\ runN s' = runN s /\ named s' = named s /\ flat s' = flat s.
Proof.
  intros s src. unfold finish_install. destruct (source s) as [s0|]; [destruct (Nat.eqb s0 src)|]; cbn; auto.
Qed.

Lemma tidy_cases : forall s, tidy s = empty \/ tidy s = s.
Proof. intros s. unfold tidy. destruct (_ && _); auto. Qed.

Lemma inv_ext : forall s s', numbered s' = numbered s -> runN s' = runN s -> inv s -> inv s'.
Proof. intros s s' E1 E2 I. unfold inv, nums in *. rewrite E1, E2. exact I. Qed.

Lemma linked_ext : forall s s', numbered s' = numbered s -> runN s' = runN s -> linked s -> linked s'.
Proof. intros s s' E1 E2 I. unfold linked, nums in *. rewrite E1, E2. exact I. Qed.

Lemma inv_tidy : forall s, inv s -> inv (tidy s).
Proof. intros s I. destruct (tidy_cases s) as [-> | ->]; [apply inv_empty | exact I]. Qed.

Lemma linked_tidy : forall s, linked s -> linked (tidy s).
Proof. intros s I. destruct (tidy_cases s) as [-> | ->]; [apply linked_empty | exact I]. Qed.

Lemma inv_no_runN : forall s, runN s = None -> inv s.
Proof. intros s R t H. congruence. Qed.

Lemma linked_no_runN : forall s, runN s = None -> linked s.
Proof. intros s R t H. congruence. Qed.

(* ---- what a numbered install does ---- *)
(* the three guards of [install] in one place *)
Lemma install_result : forall s src c,
  (created s (Install src c) = None /\
   numbered (fst (install s src c)) = numbered s /\
   (runN (fst (install s src c)) = runN s \/ runN (fst (install s src c)) = None)) \/
  (created s (Install src c) = Some (next_num s) /\ has_num s (next_num s) = false /\
   numbered (fst (install s src c)) = numbered s ++ [(next_num s, c)] /\
   runN (fst (install s src c)) = Some (next_num s)).
Proof.
  intros s src c. unfold install, created.
  destruct (is_nil (named s)); cbn; [|left; auto].
  change (flat (set_runN s None)) with (flat s).
  change (has_num (set_runN s None) (next_num s)) with (has_num s (next_num s)).
  destruct (is_some (flat s)); cbn; [left; auto|].
  destruct (has_num s (next_num s)) eqn:H; cbn; [left; auto|].
  right. match goal with |- context [finish_install ?x src] =>
    destruct (finish_install_fields x src) as (E1 & E2 & _) end.
  rewrite E1, E2. cbn. auto.
Qed.

Lemma install_named_fields : forall s j src c,
  numbered (fst (install_named s j src c)) = numbered s /\
  runN (fst (install_named s j src c)) = runN s.
Proof.
  intros s j src c. unfold install_named.
  destruct (reserved_name j); [auto|]. destruct (negb (is_nil (numbered s))); [auto|].
  destruct (is_some (flat s)); [auto|]. destruct (has_name s j); [auto|].
  match goal with |- context [finish_install ?x src] =>
    destruct (finish_install_fields x src) as (E1 & E2 & _) end.
  rewrite E1, E2. auto.
Qed.

Lemma install_flat_fields : forall s src c,
  numbered (fst (install_flat s src c)) = numbered s /\
  runN (fst (install_flat s src c)) = runN s.
Proof.
  intros s src c. unfold install_flat. destruct (dir_exists s); [auto|].
  match goal with |- context [finish_install ?x src] =>
    destruct (finish_install_fields x src) as (E1 & E2 & _) end.
  rewrite E1, E2. auto.
Qed.

Lemma reinstall_fields : forall s t c,
  nums (fst (reinstall s t c)) = nums s /\ runN (fst (reinstall s t c)) = runN s.
Proof.
  intros s t c. unfold reinstall, nums. destruct t as [k|j| |]; cbn.
  - destruct (negb (has_num s k)); [auto|]. destruct (is_some (flat s)); cbn; [auto|].
    rewrite nums_restamp. auto.
  - destruct (negb (has_name s j)); [auto|]. destruct (is_some (flat s)); cbn; auto.
  - auto.
  - destruct (flat s); cbn; auto.
Qed.

(* ---- preservation of [inv] by every operation, manual ones included ---- *)
Lemma inv_clean_num : forall s k, inv s -> inv (clean_num s k).
Proof.
  intros s k I. unfold clean_num. destruct (has_num s k); [|exact I].
  apply inv_tidy. intros t R Ht j Hj. cbn in *. unfold nums in *. cbn in *.
  apply In_remove in Ht. apply In_remove in Hj.
  destruct (runN s) as [t0|] eqn:R0; [|discriminate].
  destruct (N.eqb t0 k); [discriminate|]. inversion R; subst t0.
  apply (I t R0); tauto.
Qed.

Lemma inv_step : forall s o, inv s -> inv (fst (step s o)).
Proof.
  intros s o I. destruct o as [src c|j src c|src c|t c|t| |k]; cbn [step fst].
  - destruct (install_result s src c) as [(_ & E & [R|R])|(_ & Hf & E & R)].
    + eapply inv_ext; eauto.
    + apply inv_no_runN. exact R.
    + intros t Rt Ht j Hj. rewrite R in Rt. inversion Rt; subst t.
      unfold nums in Hj. rewrite E, map_app in Hj. apply in_app_or in Hj.
      destruct Hj as [Hj|[<-|[]]]; [|cbn; lia].
      pose proof (next_above s I j Hj). lia.
  - destruct (install_named_fields s j src c) as [E1 E2]. eapply inv_ext; eauto.
  - destruct (install_flat_fields s src c) as [E1 E2]. eapply inv_ext; eauto.
  - destruct (reinstall_fields s t c) as [E1 E2]. unfold inv. rewrite E1, E2. exact I.
  - destruct t as [k|j| |]; cbn [clean].
    + apply inv_clean_num. exact I.
    + destruct (has_name s j); [|exact I]. apply inv_tidy. eapply inv_ext; [| |exact I]; reflexivity.
    + destruct (runN s) as [t|] eqn:R; [|exact I].
      destruct (has_num s t); [apply inv_clean_num; exact I|exact I].
    + apply inv_empty.
  - apply inv_no_runN. reflexivity.
  - intros t R Ht j Hj. cbn in *. unfold nums in *. cbn in *.
    apply In_remove in Ht. apply In_remove in Hj. apply (I t R); tauto.
Qed.

Lemma inv_run : forall ops s, inv s -> inv (run s ops).
Proof.
  induction ops as [|o r IH]; intros s I; [exact I|]. cbn. apply IH. apply inv_step. exact I.
Qed.

(* ---- runN never dangles unless a run dir is removed by hand ---- *)
Definition manual_rm (o : op) : bool := match o with RmRun _ => true | _ => false end.

Lemma linked_clean_num : forall s k, linked s -> linked (clean_num s k).
Proof.
  intros s k L. unfold clean_num. destruct (has_num s k); [|exact L].
  apply linked_tidy. intros t R. cbn in *. unfold nums. cbn. apply In_remove.
  destruct (runN s) as [t0|] eqn:R0; [|discriminate].
  destruct (N.eqb t0 k) eqn:E; [discriminate|]. inversion R; subst t0.
  apply N.eqb_neq in E. split; [apply L; exact R0|exact E].
Qed.

Lemma linked_step : forall s o, manual_rm o = false -> linked s -> linked (fst (step s o)).
Proof.
  intros s o M L. destruct o as [src c|j src c|src c|t c|t| |k]; cbn [step fst];
    try discriminate; try (apply linked_no_runN; reflexivity).
  - destruct (install_result s src c) as [(_ & E & [R|R])|(_ & Hf & E & R)].
    + eapply linked_ext; eauto.
    + apply linked_no_runN. exact R.
    + intros t Rt. rewrite R in Rt. inversion Rt; subst t. unfold nums. rewrite E, map_app.
      apply in_or_app. right. left. reflexivity.
  - destruct (install_named_fields s j src c) as [E1 E2]. eapply linked_ext; eauto.
  - destruct (install_flat_fields s src c) as [E1 E2]. eapply linked_ext; eauto.
  - destruct (reinstall_fields s t c) as [E1 E2]. unfold linked. rewrite E1, E2. exact L.
  - destruct t as [k|j| |]; cbn [clean].
    + apply linked_clean_num. exact L.
    + destruct (has_name s j); [|exact L]. apply linked_tidy. eapply linked_ext; [| |exact L]; reflexivity.
    + destruct (runN s) as [t|] eqn:R; [|exact L].
      destruct (has_num s t); [apply linked_clean_num; exact L|exact L].
    + apply linked_empty.
Qed.

Lemma linked_run : forall ops s,
  forallb (fun o => negb (manual_rm o)) ops = true -> linked s -> linked (run s ops).
Proof.
  induction ops as [|o r IH]; intros s F L; [exact L|]. cbn in *.
  apply andb_prop in F. destruct F as [F1 F2]. apply IH; [exact F2|].
  apply linked_step; [|exact L]. destruct (manual_rm o); [discriminate|reflexivity].
Qed.

(* ---- an install that creates run K ---- *)
Lemma created_only_install : forall s o k, created s o = Some k ->
  exists src c, o = Install src c.
Proof. intros s o k H. destruct o; try discriminate. eauto. Qed.

Lemma created_spec : forall s o k, created s o = Some k ->
  k = next_num s /\ ~ In k (nums s) /\
  runN (fst (step s o)) = Some k /\
  (exists c, numbered (fst (step s o)) = numbered s ++ [(k, c)]).
Proof.
  intros s o k H. destruct (created_only_install s o k H) as (src & c & ->).
  cbn [step fst]. destruct (install_result s src c) as [(E & _)|(E & Hf & En & R)].
  - rewrite E in H. discriminate.
  - rewrite E in H. inversion H; subst k. apply has_num_false in Hf. eauto.
Qed.

(* ---- no install overwrites or removes an existing run dir (any state) ---- *)
Definition is_install (o : op) : bool :=
  match o with Install _ _ | InstallNamed _ _ _ | InstallFlat _ _ => true | _ => false end.

Lemma finish_install_all : forall s src,
  let s' := fst (finish_install s src) in
  numbered s' = numbered s /\ runN s' = runN s /\ named s' = named s /\ flat s' = flat s.
Proof. exact finish_install_fields. Qed.

Lemma install_keeps : forall s o, is_install o = true ->
  let s' := fst (step s o) in
  (exists extra, numbered s' = numbered s ++ extra /\
                 forall e, In e extra -> ~ In (fst e) (nums s)) /\
  (exists extra, named s' = named s ++ extra /\
                 forall e, In e extra -> ~ In (fst e) (names s)) /\
  (forall c, flat s = Some c -> flat s' = Some c).
Proof.
  intros s o Hi. destruct o as [src c|j src c|src c| | | | ]; try discriminate; cbn [step fst].
  - unfold install.
    destruct (is_nil (named s)); cbn.
    2:{ repeat split; try (exists []; rewrite app_nil_r; split; [reflexivity|intros e []]); auto. }
    change (flat (set_runN s None)) with (flat s).
    change (has_num (set_runN s None) (next_num s)) with (has_num s (next_num s)).
    destruct (is_some (flat s)); cbn.
    { repeat split; try (exists []; rewrite app_nil_r; split; [reflexivity|intros e []]); auto. }
    destruct (has_num s (next_num s)) eqn:H; cbn.
    { repeat split; try (exists []; rewrite app_nil_r; split; [reflexivity|intros e []]); auto. }
    match goal with |- context [finish_install ?x src] =>
      destruct (finish_install_fields x src) as (E1 & E2 & E3 & E4) end.
    rewrite E1, E3, E4. cbn. repeat split.
    + exists [(next_num s, c)]. split; [reflexivity|]. intros e [<-|[]]. cbn.
      apply has_num_false. exact H.
    + exists []. rewrite app_nil_r. split; [reflexivity|intros e []].
    + auto.
  - unfold install_named.
    destruct (reserved_name j).
    { repeat split; try (exists []; rewrite app_nil_r; split; [reflexivity|intros e []]); auto. }
    destruct (negb (is_nil (numbered s))).
    { repeat split; try (exists []; rewrite app_nil_r; split; [reflexivity|intros e []]); auto. }
    destruct (is_some (flat s)).
    { repeat split; try (exists []; rewrite app_nil_r; split; [reflexivity|intros e []]); auto. }
    destruct (has_name s j) eqn:H.
    { repeat split; try (exists []; rewrite app_nil_r; split; [reflexivity|intros e []]); auto. }
    match goal with |- context [finish_install ?x src] =>
      destruct (finish_install_fields x src) as (E1 & E2 & E3 & E4) end.
    rewrite E1, E3, E4. cbn. repeat split.
    + exists []. rewrite app_nil_r. split; [reflexivity|intros e []].
    + exists [(j, c)]. split; [reflexivity|]. intros e [<-|[]]. cbn.
      rewrite <- has_name_In. rewrite H. discriminate.
    + auto.
  - unfold install_flat. destruct (dir_exists s) eqn:D.
    { repeat split; try (exists []; rewrite app_nil_r; split; [reflexivity|intros e []]); auto. }
    match goal with |- context [finish_install ?x src] =>
      destruct (finish_install_fields x src) as (E1 & E2 & E3 & E4) end.
    rewrite E1, E3, E4. cbn. repeat split.
    + exists []. rewrite app_nil_r. split; [reflexivity|intros e []].
    + exists []. rewrite app_nil_r. split; [reflexivity|intros e []].
    + intros c0 F. unfold dir_exists in D. rewrite F in D. cbn in D.
      rewrite !orb_true_r in D. cbn in D. rewrite ?orb_true_r in D. discriminate.
Qed.

(* ---- numbers are never re-used while the highest run is never removed ---- *)
Definition removes_top (s : st) (o : op) : bool :=
  match o with
  | Clean (TNum k) | RmRun k => negb (is_nil (numbered s)) && N.eqb k (maxnum s)
  | Clean TRunN => match runN s with Some t => has_num s t | None => false end
  | Clean TAll => negb (is_nil (numbered s))
  | _ => false
  end.

Fixpoint safe (s : st) (ops : list op) : bool :=
  match ops with
  | [] => true
  | o :: r => negb (removes_top s o) && safe (fst (step s o)) r
  end.

Fixpoint created_list (s : st) (ops : list op) : list N :=
  match ops with
  | [] => []
  | o :: r => match created s o with Some k => [k] | None => [] end
              ++ created_list (fst (step s o)) r
  end.

(* each element exceeds the bound and its predecessor *)
Fixpoint increasing_from (b : N) (l : list N) : Prop :=
  match l with
  | [] => True
  | k :: r => b < k /\ increasing_from k r
  end.

Lemma maxnum_remove_other : forall s k (l' : list (N * nat)),
  map fst l' = filter (fun x => negb (N.eqb x k)) (nums s) ->
  (nums s = [] \/ k <> maxnum s) ->
  lmax (map fst l') = maxnum s.
Proof.
  intros s k l' E H. rewrite E. destruct (nums s) as [|x l] eqn:En.
  - rewrite maxnum_lmax, En. reflexivity.
  - destruct H as [H|H]; [discriminate|].
    apply lmax_unique.
    + intros j Hj. apply filter_In in Hj. destruct Hj as [Hj _].
      rewrite maxnum_lmax, En. apply lmax_ge. exact Hj.
    + apply filter_In. split.
      * rewrite maxnum_lmax, En. apply lmax_in. discriminate.
      * apply negb_true_iff. apply N.eqb_neq. congruence.
Qed.

Lemma is_nil_nums : forall s, is_nil (numbered s) = true <-> nums s = [].
Proof. intros s. unfold nums. destruct (numbered s); cbn; split; intros; congruence. Qed.

Lemma maxnum_tidy : forall s, maxnum (tidy s) = maxnum s.
Proof.
  intros s. unfold tidy. destruct (is_nil (numbered s)) eqn:E; cbn; [|reflexivity].
  destruct (_ && _); [|reflexivity]. apply is_nil_nums in E. unfold maxnum. rewrite E. reflexivity.
Qed.

Lemma maxnum_clean_num : forall s k,
  (negb (is_nil (numbered s)) && N.eqb k (maxnum s)) = false ->
  maxnum (clean_num s k) = maxnum s.
Proof.
  intros s k H. unfold clean_num. destruct (has_num s k); [|reflexivity].
  rewrite maxnum_tidy. unfold maxnum at 1, nums at 1. cbn.
  apply (maxnum_remove_other s k); [apply nums_remove|].
  apply andb_false_iff in H. destruct H as [H|H].
  - left. apply is_nil_nums. apply negb_false_iff. exact H.
  - right. apply N.eqb_neq. exact H.
Qed.

(* a safe step that creates nothing does not lower the highest number *)
Lemma safe_step_max : forall s o, inv s -> removes_top s o = false -> created s o = None ->
  maxnum (fst (step s o)) = maxnum s.
Proof.
  intros s o I S C. destruct o as [src c|j src c|src c|t c|t| |k]; cbn [step fst].
  - destruct (install_result s src c) as [(_ & E & _)|(E & _)].
    + unfold maxnum, nums. rewrite E. reflexivity.
    + rewrite E in C. discriminate.
  - destruct (install_named_fields s j src c) as [E _]. unfold maxnum, nums. rewrite E. reflexivity.
  - destruct (install_flat_fields s src c) as [E _]. unfold maxnum, nums. rewrite E. reflexivity.
  - destruct (reinstall_fields s t c) as [E _]. unfold maxnum. rewrite E. reflexivity.
  - destruct t as [k|j| |]; cbn [clean removes_top] in *.
    + apply maxnum_clean_num. exact S.
    + destruct (has_name s j); [|reflexivity]. rewrite maxnum_tidy. reflexivity.
    + destruct (runN s) as [t|] eqn:R; [|reflexivity]. rewrite S. reflexivity.
    + apply negb_false_iff, is_nil_nums in S. unfold maxnum. rewrite S. reflexivity.
  - reflexivity.
  - cbn [removes_top] in S. unfold maxnum at 1, nums at 1. cbn.
    apply (maxnum_remove_other s k); [apply nums_remove|].
    apply andb_false_iff in S. destruct S as [H|H].
    + left. apply is_nil_nums. apply negb_false_iff. exact H.
    + right. apply N.eqb_neq. exact H.
Qed.

Lemma created_max : forall s o k, inv s -> created s o = Some k ->
  maxnum (fst (step s o)) = k /\ maxnum s < k.
Proof.
  intros s o k I C. destruct (created_spec s o k C) as (-> & Hf & R & c & E).
  split.
  - unfold maxnum, nums. rewrite E, map_app. apply lmax_unique.
    + intros j Hj. apply in_app_or in Hj. destruct Hj as [Hj|[<-|[]]]; [|cbn; lia].
      pose proof (next_above s I j Hj). lia.
    + apply in_or_app. right. left. reflexivity.
  - rewrite (next_num_eq s I). lia.
Qed.

Lemma no_reuse_gen : forall ops s b, inv s -> b <= maxnum s -> safe s ops = true ->
  increasing_from b (created_list s ops).
Proof.
  induction ops as [|o r IH]; intros s b I B S; [exact Logic.I|].
  cbn in S. apply andb_prop in S. destruct S as [S1 S2]. apply negb_true_iff in S1.
  cbn [created_list]. pose proof (inv_step s o I) as I'.
  destruct (created s o) as [k|] eqn:C.
  - destruct (created_max s o k I C) as [M1 M2]. cbn. split; [lia|].
    apply IH; [exact I'| rewrite M1; lia | exact S2].
  - cbn. apply IH; [exact I'| rewrite (safe_step_max s o I S1 C); exact B | exact S2].
Qed.

(* strictly increasing implies pairwise distinct *)
Lemma increasing_from_bound : forall l b x, increasing_from b l -> In x l -> b < x.
Proof.
  induction l as [|k r IH]; intros b x H Hx; [destruct Hx|].
  destruct H as [H1 H2]. destruct Hx as [<-|Hx]; [exact H1|].
  specialize (IH k x H2 Hx). lia.
Qed.

Lemma increasing_NoDup : forall l b, increasing_from b l -> NoDup l.
Proof.
  induction l as [|k r IH]; intros b H; [constructor|].
  destruct H as [H1 H2]. constructor; [|eapply IH; eauto].
  intros Hin. pose proof (increasing_from_bound r k k H2 Hin). lia.
Qed.

(* ---- unique keys are preserved, so "the stamp of run k" is well defined ---- *)
Lemma NoDup_filter {A} (f : A -> bool) l : NoDup l -> NoDup (filter f l).
Proof.
  induction 1 as [|x l Hx Hn IH]; cbn; [constructor|].
  destruct (f x); [constructor; [|exact IH]|exact IH].
  intros H. apply filter_In in H. tauto.
Qed.

Lemma NoDup_snoc {A} (l : list A) x : ~ In x l -> NoDup l -> NoDup (l ++ [x]).
Proof.
  intros Hx Hn. induction Hn as [|y l Hy Hn IH]; cbn; [constructor; [intros []|constructor]|].
  constructor.
  - intros H. apply in_app_or in H. destruct H as [H|[H|[]]]; [tauto|]. subst. apply Hx. left. reflexivity.
  - apply IH. intros H. apply Hx. right. exact H.
Qed.

Lemma nodup_step : forall s o, NoDup (nums s) -> NoDup (nums (fst (step s o))).
Proof.
  intros s o N. destruct o as [src c|j src c|src c|t c|t| |k]; cbn [step fst].
  - destruct (install_result s src c) as [(_ & E & _)|(_ & Hf & E & _)]; unfold nums; rewrite E; [exact N|].
    rewrite map_app. cbn. apply NoDup_snoc; [apply has_num_false; exact Hf | exact N].
  - destruct (install_named_fields s j src c) as [E _]. unfold nums. rewrite E. exact N.
  - destruct (install_flat_fields s src c) as [E _]. unfold nums. rewrite E. exact N.
  - destruct (reinstall_fields s t c) as [E _]. rewrite E. exact N.
  - assert (T : forall s', NoDup (nums s') -> NoDup (nums (tidy s'))).
    { intros s' H. destruct (tidy_cases s') as [-> | ->]; [constructor|exact H]. }
    assert (CN : forall k, NoDup (nums (clean_num s k))).
    { intros k. unfold clean_num. destruct (has_num s k); [|exact N]. apply T.
      unfold nums. cbn. rewrite nums_remove. apply NoDup_filter. exact N. }
    destruct t as [k|j| |]; cbn [clean].
    + apply CN.
    + destruct (has_name s j); [|exact N]. apply T. exact N.
    + destruct (runN s) as [t|]; [|exact N]. destruct (has_num s t); [apply CN|exact N].
    + constructor.
  - exact N.
  - unfold nums. cbn. rewrite nums_remove. apply NoDup_filter. exact N.
Qed.

(* a numbered install that reports success has created a run dir *)
Lemma finish_install_ok_or_source : forall s src,
  snd (finish_install s src) = Ok \/ snd (finish_install s src) = ESource.
Proof.
  intros s src. unfold finish_install. destruct (source s) as [s0|]; [destruct (Nat.eqb s0 src)|]; cbn; auto.
Qed.

Lemma install_ok_created : forall s src c,
  snd (step s (Install src c)) = Ok -> created s (Install src c) = Some (next_num s).
Proof.
  intros s src c. cbn [step]. unfold install, created.
  destruct (is_nil (named s)); cbn; [|discriminate].
  change (flat (set_runN s None)) with (flat s).
  change (has_num (set_runN s None) (next_num s)) with (has_num s (next_num s)).
  destruct (is_some (flat s)); cbn; [discriminate|].
  destruct (has_num s (next_num s)); cbn; [discriminate|]. reflexivity.
Qed.

(* ---- statements about reachable states ---- *)
Theorem fresh_reachable : forall ops o k,
  let s := run empty ops in
  created s o = Some k ->
  k = next_num s /\ ~ In k (nums s) /\ (forall j, In j (nums s) -> j < k) /\
  (forall t, runN s = Some t -> In t (nums s) -> t < k) /\
  (forallb (fun o => negb (manual_rm o)) ops = true -> forall t, runN s = Some t -> t < k).
Proof.
  intros ops o k s C. pose proof (inv_run ops empty inv_empty) as I. fold s in I.
  destruct (created_spec s o k C) as (-> & Hf & _).
  repeat split; auto.
  - apply next_above. exact I.
  - intros t R Ht. apply next_above; assumption.
  - intros F t R. apply next_above; [exact I|].
    apply (linked_run ops empty F linked_empty). exact R.
Qed.

Theorem runN_latest_after_install : forall ops o k,
  let s := run empty ops in
  created s o = Some k ->
  let s' := fst (step s o) in
  runN s' = Some k /\ In k (nums s') /\ (forall j, In j (nums s') -> j <= k).
Proof.
  intros ops o k s C s'. pose proof (inv_run ops empty inv_empty) as I. fold s in I.
  destruct (created_spec s o k C) as (E & Hf & R & c & En). subst s'.
  assert (Hin : In k (nums (fst (step s o)))).
  { unfold nums. rewrite En, map_app. apply in_or_app. right. left. reflexivity. }
  repeat split; auto.
  apply (inv_step s o I k R Hin).
Qed.

Theorem runN_invariant : forall ops,
  let s := run empty ops in
  (forall t, runN s = Some t -> In t (nums s) -> forall k, In k (nums s) -> k <= t) /\
  (forallb (fun o => negb (manual_rm o)) ops = true ->
   forall t, runN s = Some t -> In t (nums s) /\ forall k, In k (nums s) -> k <= t).
Proof.
  intros ops s. pose proof (inv_run ops empty inv_empty) as I. fold s in I. split; [exact I|].
  intros F t R. pose proof (linked_run ops empty F linked_empty t R) as L. fold s in L.
  split; [exact L|]. apply (I t R L).
Qed.

Theorem no_overwrite : forall s o, is_install o = true ->
  let s' := fst (step s o) in
  (forall k c, In (k, c) (numbered s) -> In (k, c) (numbered s')) /\
  (forall j c, In (j, c) (named s) -> In (j, c) (named s')) /\
  (forall c, flat s = Some c -> flat s' = Some c) /\
  (forall k c c', In (k, c) (numbered s) -> In (k, c') (numbered s') -> NoDup (nums s) -> c' = c) /\
  (NoDup (nums s) -> NoDup (nums s')).
Proof.
  intros s o Hi s'. destruct (install_keeps s o Hi) as ((ex1 & E1 & F1) & (ex2 & E2 & F2) & F3).
  fold s' in E1, E2, F3. repeat split.
  - intros k c H. rewrite E1. apply in_or_app. left. exact H.
  - intros j c H. rewrite E2. apply in_or_app. left. exact H.
  - exact F3.
  - intros k c c' H H' N. rewrite E1 in H'. apply in_app_or in H'. destruct H' as [H'|H'].
    + clear - H H' N. unfold nums in N. induction (numbered s) as [|[a d] l IH]; [destruct H|].
      cbn in N. inversion N as [|? ? Na Nl]; subst.
      destruct H as [H|H], H' as [H'|H'].
      * congruence.
      * inversion H; subst. exfalso. apply Na. apply (in_map fst) in H'. exact H'.
      * inversion H'; subst. exfalso. apply Na. apply (in_map fst) in H. exact H.
      * apply IH; assumption.
    + exfalso. apply (F1 _ H'). cbn. apply (in_map fst) in H. exact H.
  - intros N. apply nodup_step. exact N.
Qed.

Theorem no_reuse : forall ops, safe empty ops = true ->
  increasing_from 0 (created_list empty ops) /\ NoDup (created_list empty ops).
Proof.
  intros ops S.
  assert (H : increasing_from 0 (created_list empty ops)).
  { apply no_reuse_gen; [apply inv_empty| |exact S]. cbv. discriminate. }
  split; [exact H|]. eapply increasing_NoDup; eauto.
Qed.
