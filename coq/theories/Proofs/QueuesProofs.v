(* Proofs/QueuesProofs.v — lemmas about Model/Queues.v (C05) *)
From Coq Require Import List Bool Arith Lia Permutation.
From Cylc Require Import Base.Util Model.Queues.
Import ListNotations.

(* ================================================================== *)
(* small facts                                                         *)
Lemma mem_nat_In x l : mem Nat.eqb x l = true <-> In x l.
Proof. apply mem_In. intros a b. rewrite Nat.eqb_eq. tauto. Qed.

Lemma mem_nat_false x l : mem Nat.eqb x l = false <-> ~ In x l.
Proof. rewrite <- mem_nat_In. destruct (mem Nat.eqb x l); split; congruence. Qed.

Lemma In_rm t x l : In t (rm x l) <-> In t l /\ t <> x.
Proof.
  unfold rm. rewrite filter_In. rewrite negb_true_iff, Nat.eqb_neq. tauto.
Qed.

Lemma In_set_add t x l : In t (set_add x l) <-> In t l \/ t = x.
Proof.
  unfold set_add. destruct (mem Nat.eqb x l) eqn:E.
  - apply mem_nat_In in E. split; [tauto|]. intros [H| ->]; auto.
  - rewrite in_app_iff. cbn. intuition.
Qed.

Lemma NoDup_snoc {A} (x : A) l : NoDup l -> ~ In x l -> NoDup (l ++ [x]).
Proof.
  induction 1 as [|y l Hy Hnd IH]; cbn; intros Hx.
  - constructor; [tauto|constructor].
  - constructor.
    + rewrite in_app_iff. cbn. intuition.
    + apply IH. tauto.
Qed.

Lemma NoDup_set_add x l : NoDup l -> NoDup (set_add x l).
Proof.
  intros H. unfold set_add. destruct (mem Nat.eqb x l) eqn:E; [exact H|].
  apply mem_nat_false in E. now apply NoDup_snoc.
Qed.

Lemma NoDup_rm x l : NoDup l -> NoDup (rm x l).
Proof. intros H. unfold rm. now apply NoDup_filter. Qed.

(* ================================================================== *)
(* PART A — one queue: LimitedTaskQueue.release                        *)

Definition nonheld (held : list nat) (t : task) : bool := negb (is_held held t).

(* what the loop does: it pops a prefix; the released tasks are the non-held
   ones of that prefix, the passed-over ones the held ones *)
Lemma pop_loop_split limit held : forall dq n rel h rest,
  pop_loop limit n held dq = (rel, h, rest) ->
  exists popped, dq = popped ++ rest
    /\ rel = filter (nonheld held) popped
    /\ h = filter (is_held held) popped.
Proof.
  induction dq as [|t r IH]; intros n rel h rest; cbn [pop_loop].
  - intros [= <- <- <-]. exists []. auto.
  - destruct (Nat.eqb limit 0 || Nat.ltb n limit).
    + destruct (is_held held t) eqn:Eh.
      * destruct (pop_loop limit n held r) as [[rel' h'] rest'] eqn:E.
        intros [= <- <- <-]. destruct (IH _ _ _ _ E) as [p [-> [-> ->]]].
        exists (t :: p). cbn [filter app]. unfold nonheld. rewrite Eh. cbn [negb]. auto.
      * destruct (pop_loop limit (S n) held r) as [[rel' h'] rest'] eqn:E.
        intros [= <- <- <-]. destruct (IH _ _ _ _ E) as [p [-> [-> ->]]].
        exists (t :: p). cbn [filter app]. unfold nonheld. rewrite Eh. cbn [negb]. auto.
    + intros [= <- <- <-]. exists []. auto.
Qed.

(* unlimited queue: everything not held is released *)
Lemma pop_loop_unlimited held : forall dq n,
  pop_loop 0 n held dq = (filter (nonheld held) dq, filter (is_held held) dq, []).
Proof.
  induction dq as [|t r IH]; intros n; cbn [pop_loop]; [reflexivity|].
  cbn [Nat.eqb orb]. unfold nonheld at 1. cbn [filter].
  destruct (is_held held t) eqn:Eh; cbn [negb]; rewrite IH; reflexivity.
Qed.

(* limited queue: exactly the first (limit - n) non-held tasks, in queue order *)
Lemma pop_loop_limited limit held : limit <> 0 -> forall dq n rel h rest,
  pop_loop limit n held dq = (rel, h, rest) ->
  rel = firstn (limit - n) (filter (nonheld held) dq).
Proof.
  intros Hl. induction dq as [|t r IH]; intros n rel h rest; cbn [pop_loop].
  - intros [= <- <- <-]. now rewrite firstn_nil.
  - destruct (Nat.eqb_spec limit 0) as [|_]; [contradiction|]. cbn [orb].
    destruct (Nat.ltb_spec n limit) as [Hlt|Hge].
    + cbn [filter]. unfold nonheld at 1. destruct (is_held held t) eqn:Eh; cbn [negb].
      * destruct (pop_loop limit n held r) as [[rel' h'] rest'] eqn:E.
        intros [= <- <- <-]. eapply IH; eauto.
      * destruct (pop_loop limit (S n) held r) as [[rel' h'] rest'] eqn:E.
        intros [= <- <- <-]. replace (limit - n) with (S (limit - S n)) by lia.
        cbn [firstn]. f_equal. eapply IH; eauto.
    + intros [= <- <- <-]. replace (limit - n) with 0 by lia. reflexivity.
Qed.

(* the loop only stops early when the limit is reached *)
Lemma pop_loop_maximal limit held : forall dq n rel h rest,
  pop_loop limit n held dq = (rel, h, rest) ->
  rest = [] \/ (limit <> 0 /\ limit <= n + length rel).
Proof.
  induction dq as [|t r IH]; intros n rel h rest; cbn [pop_loop].
  - intros [= <- <- <-]. auto.
  - destruct (Nat.eqb_spec limit 0) as [Hz|Hnz]; cbn [orb].
    + destruct (is_held held t).
      * destruct (pop_loop limit n held r) as [[rel' h'] rest'] eqn:E.
        intros [= <- <- <-]. destruct (IH _ _ _ _ E) as [?|[? ?]]; [auto|contradiction].
      * destruct (pop_loop limit (S n) held r) as [[rel' h'] rest'] eqn:E.
        intros [= <- <- <-]. destruct (IH _ _ _ _ E) as [?|[? ?]]; [auto|contradiction].
    + destruct (Nat.ltb_spec n limit) as [Hlt|Hge].
      * destruct (is_held held t).
        -- destruct (pop_loop limit n held r) as [[rel' h'] rest'] eqn:E.
           intros [= <- <- <-]. destruct (IH _ _ _ _ E) as [?|[? ?]]; auto.
        -- destruct (pop_loop limit (S n) held r) as [[rel' h'] rest'] eqn:E.
           intros [= <- <- <-]. destruct (IH _ _ _ _ E) as [?|[? ?]]; auto.
           right. split; auto. cbn [length]. lia.
      * intros [= <- <- <-]. right. split; auto. cbn. lia.
Qed.

(* the limit: a limited queue never takes the count above max(limit, before) *)
Lemma pop_loop_limit limit held : limit <> 0 -> forall dq n rel h rest,
  pop_loop limit n held dq = (rel, h, rest) ->
  n + length rel <= Nat.max limit n.
Proof.
  intros Hl dq n rel h rest E. rewrite (pop_loop_limited limit held Hl _ _ _ _ _ E).
  pose proof (firstn_le_length (limit - n) (filter (nonheld held) dq)).
  rewrite firstn_length. lia.
Qed.

(* nothing is lost or duplicated *)
Lemma filter_partition_perm {A} (f : A -> bool) l :
  Permutation l (filter (fun x => negb (f x)) l ++ filter f l).
Proof.
  induction l as [|x l IH]; cbn; [constructor|].
  destruct (f x); cbn.
  - apply Permutation_cons_app. exact IH.
  - now constructor.
Qed.

Lemma requeue_perm front h rest : Permutation (requeue front h rest) (h ++ rest).
Proof. destruct front; cbn; [reflexivity|apply Permutation_app_comm]. Qed.

Lemma pop_loop_conserves limit held front dq n rel h rest :
  pop_loop limit n held dq = (rel, h, rest) ->
  Permutation dq (rel ++ requeue front h rest).
Proof.
  intros E. destruct (pop_loop_split _ _ _ _ _ _ _ E) as [p [-> [-> ->]]].
  rewrite requeue_perm. rewrite app_assoc. apply Permutation_app_tail.
  apply (filter_partition_perm (is_held held) p).
Qed.

(* with the fix (front = true) the remaining queue is the old queue minus the
   released tasks, order untouched *)
Lemma pop_loop_order_fixed limit held dq n rel h rest :
  pop_loop limit n held dq = (rel, h, rest) ->
  exists popped, dq = popped ++ rest /\
    requeue true h rest = filter (is_held held) popped ++ rest /\
    rel = filter (nonheld held) popped.
Proof.
  intros E. destruct (pop_loop_split _ _ _ _ _ _ _ E) as [p [-> [-> ->]]].
  exists p. auto.
Qed.

(* ================================================================== *)
(* PART B — active counters, the manager, invariants                   *)

Lemma count_incr n a m : count (incr n a) m = if Nat.eqb m n then S (count a m) else count a m.
Proof.
  unfold count. induction a as [|[k c] r IH]; cbn.
  - destruct (Nat.eqb_spec m n); reflexivity.
  - destruct (Nat.eqb_spec n k) as [->|Hnk]; cbn.
    + destruct (Nat.eqb_spec m k); reflexivity.
    + destruct (Nat.eqb_spec m k) as [->|Hmk].
      * destruct (Nat.eqb_spec k n); [congruence|reflexivity].
      * exact IH.
Qed.

Lemma n_active_incr_notin M n a : ~ In n M -> n_active M (incr n a) = n_active M a.
Proof.
  unfold n_active, sum_nat. induction M as [|m M IH]; cbn; [reflexivity|].
  intros H. rewrite count_incr. destruct (Nat.eqb_spec m n) as [->|_]; [tauto|].
  rewrite IH; tauto.
Qed.

Lemma n_active_incr_in M n a : NoDup M -> In n M -> n_active M (incr n a) = S (n_active M a).
Proof.
  unfold n_active, sum_nat. induction 1 as [|m M Hm Hnd IH]; cbn; [tauto|].
  intros [->|Hin]; rewrite count_incr.
  - rewrite Nat.eqb_refl. fold (sum_nat (map (count (incr n a)) M)). fold (n_active M (incr n a)).
    rewrite n_active_incr_notin by exact Hm. reflexivity.
  - destruct (Nat.eqb_spec m n) as [->|_]; [tauto|]. rewrite IH by exact Hin. lia.
Qed.

Definition incr_all (rel : list task) (a : counter) : counter :=
  fold_left (fun a t => incr (t_name t) a) rel a.

Lemma n_active_incr_all_in M : NoDup M -> forall rel a,
  Forall (fun t => In (t_name t) M) rel ->
  n_active M (incr_all rel a) = n_active M a + length rel.
Proof.
  intros Hnd. induction rel as [|t r IH]; intros a H; cbn; [lia|].
  inversion H; subst. unfold incr_all in IH. rewrite IH by assumption.
  rewrite n_active_incr_in by assumption. lia.
Qed.

Lemma n_active_incr_all_notin M : forall rel a,
  Forall (fun t => ~ In (t_name t) M) rel ->
  n_active M (incr_all rel a) = n_active M a.
Proof.
  induction rel as [|t r IH]; intros a H; cbn; [reflexivity|].
  inversion H; subst. unfold incr_all in IH. rewrite IH by assumption.
  now apply n_active_incr_notin.
Qed.

(* queue-level well-formedness *)
Definition deque_ok (q : queue) : Prop :=
  Forall (fun t => In (t_name t) (q_members q)) (q_deque q).

Lemma Forall_filter {A} (P : A -> Prop) f l : Forall P l -> Forall P (filter f l).
Proof. rewrite !Forall_forall. intros H x Hx. apply filter_In in Hx. apply H; tauto. Qed.

Lemma release_queue_spec front held q a rel q' a' :
  release_queue front held q a = (rel, q', a') ->
  deque_ok q ->
  q_name q' = q_name q /\ q_limit q' = q_limit q /\ q_members q' = q_members q
  /\ deque_ok q' /\ Forall (fun t => In (t_name t) (q_members q)) rel
  /\ a' = incr_all rel a
  /\ Permutation (q_deque q) (rel ++ q_deque q').
Proof.
  unfold release_queue.
  destruct (pop_loop (q_limit q) (n_active (q_members q) a) held (q_deque q)) as [[r h] rest] eqn:E.
  intros [= <- <- <-] Hok. cbn.
  pose proof (pop_loop_conserves _ _ front _ _ _ _ _ E) as Hp.
  assert (Hall : Forall (fun t => In (t_name t) (q_members q)) (r ++ requeue front h rest)).
  { unfold deque_ok in Hok. rewrite Forall_forall in *. intros x Hx. apply Hok.
    eapply Permutation_in; [symmetry; exact Hp|exact Hx]. }
  apply Forall_app in Hall. destruct Hall as [H1 H2].
  repeat split; auto.
Qed.

Lemma release_queue_limit front held q a rel q' a' :
  release_queue front held q a = (rel, q', a') ->
  deque_ok q -> NoDup (q_members q) -> q_limit q <> 0 ->
  n_active (q_members q) a' <= Nat.max (q_limit q) (n_active (q_members q) a).
Proof.
  intros E Hok Hnd Hl.
  destruct (release_queue_spec _ _ _ _ _ _ _ E Hok) as (_ & _ & _ & _ & Hrel & -> & _).
  rewrite n_active_incr_all_in by assumption.
  unfold release_queue in E.
  destruct (pop_loop (q_limit q) (n_active (q_members q) a) held (q_deque q)) as [[r h] rest] eqn:Ep.
  injection E as <- _ _. eapply pop_loop_limit; eauto.
Qed.

(* manager-level well-formedness *)
Definition disjoint (a b : list name) : Prop := forall x, In x a -> ~ In x b.

Fixpoint pairwise_disjoint (qs : list queue) : Prop :=
  match qs with
  | [] => True
  | q :: r => (forall q', In q' r -> disjoint (q_members q) (q_members q')) /\ pairwise_disjoint r
  end.

Record wf (qs : list queue) : Prop := {
  wf_names : NoDup (map q_name qs);
  wf_nodup : Forall (fun q => NoDup (q_members q)) qs;
  wf_deque : Forall deque_ok qs;
  wf_disj : pairwise_disjoint qs
}.

Lemma release_all_shape front held : forall qs a rel qs' a',
  release_all front held qs a = (rel, qs', a') ->
  Forall deque_ok qs ->
  map q_name qs' = map q_name qs /\ map q_members qs' = map q_members qs
  /\ map q_limit qs' = map q_limit qs /\ Forall deque_ok qs'
  /\ a' = incr_all rel a
  /\ Forall (fun t => exists q, In q qs /\ In (t_name t) (q_members q)) rel.
Proof.
  induction qs as [|q r IH]; intros a rel qs' a'; cbn [release_all].
  - intros [= <- <- <-] _. repeat split; constructor.
  - destruct (release_queue front held q a) as [[rel1 q1] a1] eqn:E1.
    destruct (release_all front held r a1) as [[rel2 r2] a2] eqn:E2.
    intros [= <- <- <-] Hok. inversion Hok as [|? ? Hq Hr]; subst.
    destruct (release_queue_spec _ _ _ _ _ _ _ E1 Hq) as (Hn & Hl & Hm & Hok1 & Hrel1 & -> & _).
    destruct (IH _ _ _ _ E2 Hr) as (Hn2 & Hm2 & Hl2 & Hok2 & -> & Hrel2).
    cbn. repeat split; try congruence.
    + constructor; assumption.
    + unfold incr_all. now rewrite fold_left_app.
    + apply Forall_app. split.
      * eapply Forall_impl; [|exact Hrel1]. cbn. intros t Ht. exists q. split; [now left|exact Ht].
      * eapply Forall_impl; [|exact Hrel2]. cbn. intros t [q0 [Hq0 Ht]]. exists q0. split; [now right|exact Ht].
Qed.

(* a set of names disjoint from every queue of [qs] keeps its active count *)
Lemma release_all_foreign front held qs a rel qs' a' M :
  release_all front held qs a = (rel, qs', a') ->
  Forall deque_ok qs ->
  (forall q, In q qs -> disjoint M (q_members q)) ->
  n_active M a' = n_active M a.
Proof.
  intros E Hok Hd.
  destruct (release_all_shape _ _ _ _ _ _ _ E Hok) as (_ & _ & _ & _ & -> & Hrel).
  apply n_active_incr_all_notin. eapply Forall_impl; [|exact Hrel].
  cbn. intros t [q [Hq Ht]] Hin. exact (Hd q Hq _ Hin Ht).
Qed.

(* IndepQueueManager.release_tasks respects every queue's limit *)
Lemma release_all_limit front held : forall qs a rel qs' a',
  release_all front held qs a = (rel, qs', a') ->
  wf qs ->
  forall q, In q qs -> q_limit q <> 0 ->
  n_active (q_members q) a' <= Nat.max (q_limit q) (n_active (q_members q) a).
Proof.
  induction qs as [|q0 r IH]; intros a rel qs' a' E W q Hin Hl; [destruct Hin|].
  cbn [release_all] in E.
  destruct (release_queue front held q0 a) as [[rel1 q1] a1] eqn:E1.
  destruct (release_all front held r a1) as [[rel2 r2] a2] eqn:E2.
  injection E as <- <- <-.
  destruct W as [Wn Wnd Wdq Wdj]. cbn in Wn, Wdj.
  inversion Wn as [|? ? Hn0 Hnr]; subst. inversion Wnd as [|? ? Hnd0 Hndr]; subst.
  inversion Wdq as [|? ? Hok0 Hokr]; subst. destruct Wdj as [Hd0 Hdr].
  destruct Hin as [<-|Hin].
  - (* the head queue: later queues do not touch its members *)
    rewrite (release_all_foreign _ _ _ _ _ _ _ (q_members q0) E2 Hokr) by (intros q' Hq'; apply Hd0; exact Hq').
    eapply release_queue_limit; eauto.
  - (* a later queue: the head's releases do not touch its members *)
    assert (Hwr : wf r) by (constructor; assumption).
    pose proof (IH _ _ _ _ E2 Hwr q Hin Hl) as H.
    destruct (release_queue_spec _ _ _ _ _ _ _ E1 Hok0) as (_ & _ & _ & _ & Hrel1 & -> & _).
    rewrite (n_active_incr_all_notin (q_members q)) in H; [exact H|].
    eapply Forall_impl; [|exact Hrel1]. cbn. intros t Ht Hq. exact (Hd0 q Hin _ Ht Hq).
Qed.

(* ---- the invariant over all op sequences ---- *)
Lemma pairwise_disjoint_ext qs qs' :
  map q_members qs' = map q_members qs -> pairwise_disjoint qs -> pairwise_disjoint qs'.
Proof.
  revert qs'. induction qs as [|q r IH]; intros [|q' r']; cbn; try discriminate; auto.
  intros [= Hm Hr] [Hd Hp]. split; [|auto].
  intros q2 Hq2. rewrite Hm.
  apply (in_map q_members) in Hq2. rewrite Hr in Hq2. apply in_map_iff in Hq2.
  destruct Hq2 as [q3 [<- Hq3]]. auto.
Qed.

Lemma wf_ext qs qs' :
  map q_name qs' = map q_name qs -> map q_members qs' = map q_members qs ->
  Forall deque_ok qs' -> wf qs -> wf qs'.
Proof.
  intros Hn Hm Hok [Wn Wnd Wdq Wdj]. constructor.
  - now rewrite Hn.
  - rewrite Forall_forall in *. intros q Hq. apply (in_map q_members) in Hq.
    rewrite Hm in Hq. apply in_map_iff in Hq. destruct Hq as [q0 [<- Hq0]]. auto.
  - exact Hok.
  - eapply pairwise_disjoint_ext; eauto.
Qed.

Lemma push_queue_ok t q : deque_ok q -> deque_ok (push_queue t q).
Proof.
  unfold push_queue, deque_ok. destruct (mem Nat.eqb (t_name t) (q_members q)) eqn:E; [|auto].
  cbn. intros H. apply Forall_app. split; [exact H|]. constructor; [|constructor].
  now apply mem_nat_In.
Qed.

Lemma push_queue_fields t q :
  q_name (push_queue t q) = q_name q /\ q_members (push_queue t q) = q_members q.
Proof. unfold push_queue. destruct (mem _ _ _); auto. Qed.

Lemma push_if_limited_shape t a : forall qs b qs',
  push_if_limited t a qs = (b, qs') -> Forall deque_ok qs ->
  map q_name qs' = map q_name qs /\ map q_members qs' = map q_members qs /\ Forall deque_ok qs'.
Proof.
  induction qs as [|q r IH]; intros b qs'; cbn [push_if_limited].
  - intros [= <- <-] _. auto.
  - intros E Hok. inversion Hok as [|? ? Hq Hr]; subst.
    destruct (negb (Nat.eqb (q_limit q) 0) && Nat.leb (q_limit q) (n_active (q_members q) a)
              && mem Nat.eqb (t_name t) (q_members q)) eqn:C.
    + injection E as <- <-. cbn. repeat split; auto. constructor; [|exact Hr].
      unfold deque_ok. cbn. apply Forall_app. split; [exact Hq|].
      constructor; [|constructor]. apply andb_true_iff in C. apply mem_nat_In. tauto.
    + destruct (push_if_limited t a r) as [b' r'] eqn:E'. injection E as <- <-.
      destruct (IH _ _ eq_refl Hr) as (H1 & H2 & H3). cbn. repeat split; try congruence.
      constructor; assumption.
Qed.

Lemma remove_last_sub id : forall dq dq', remove_last id dq = Some dq' ->
  forall t, In t dq' -> In t dq.
Proof.
  induction dq as [|x r IH]; intros dq'; cbn; [discriminate|].
  destruct (remove_last id r) as [r'|] eqn:E.
  - intros [= <-] t [<-|H]; [now left|right; eauto].
  - destruct (Nat.eqb (t_id x) id); [|discriminate]. intros [= <-] t H. now right.
Qed.

Lemma remove_task_shape id : forall qs b qs',
  remove_task id qs = (b, qs') -> Forall deque_ok qs ->
  map q_name qs' = map q_name qs /\ map q_members qs' = map q_members qs /\ Forall deque_ok qs'.
Proof.
  induction qs as [|q r IH]; intros b qs'; cbn [remove_task].
  - intros [= <- <-] _. auto.
  - intros E Hok. inversion Hok as [|? ? Hq Hr]; subst.
    destruct (remove_last id (q_deque q)) as [dq|] eqn:C.
    + injection E as <- <-. cbn. repeat split; auto. constructor; [|exact Hr].
      unfold deque_ok in *. cbn. rewrite Forall_forall in *. intros t Ht.
      apply Hq. eapply remove_last_sub; eauto.
    + destruct (remove_task id r) as [b' r'] eqn:E'. injection E as <- <-.
      destruct (IH _ _ eq_refl Hr) as (H1 & H2 & H3). cbn. repeat split; try congruence.
      constructor; assumption.
Qed.

(* adopt_tasks: precondition — the orphans are not members of another queue *)
Definition adopt_ok (orphans : list name) (qs : list queue) : Prop :=
  forall q, In q qs -> q_name q <> q_default -> forall x, In x orphans -> ~ In x (q_members q).

Definition op_ok (qs : list queue) (o : op) : Prop :=
  match o with OAdopt os => adopt_ok os qs | _ => True end.

Lemma In_fold_set_add os : forall l x,
  In x (fold_left (fun acc o => set_add o acc) os l) <-> In x l \/ In x os.
Proof.
  induction os as [|o r IH]; intros l x; cbn; [tauto|].
  rewrite IH, In_set_add. intuition.
Qed.

Lemma NoDup_fold_set_add os : forall l, NoDup l -> NoDup (fold_left (fun acc o => set_add o acc) os l).
Proof. induction os as [|o r IH]; intros l H; cbn; [exact H|]. apply IH. now apply NoDup_set_add. Qed.

Lemma adopt_wf os qs : wf qs -> adopt_ok os qs -> wf (adopt os qs).
Proof.
  intros [Wn Wnd Wdq Wdj] Hok.
  assert (Hname : map q_name (adopt os qs) = map q_name qs).
  { unfold adopt. rewrite map_map. apply map_ext. intros q. destruct (Nat.eqb _ _); reflexivity. }
  constructor.
  - now rewrite Hname.
  - unfold adopt. rewrite Forall_forall in *. intros q Hq. apply in_map_iff in Hq.
    destruct Hq as [q0 [<- Hq0]]. destruct (Nat.eqb _ _); cbn; [|auto].
    apply NoDup_fold_set_add. auto.
  - unfold adopt. rewrite Forall_forall in *. intros q Hq. apply in_map_iff in Hq.
    destruct Hq as [q0 [<- Hq0]]. specialize (Wdq _ Hq0). destruct (Nat.eqb _ _); [|auto].
    unfold deque_ok in *. cbn. eapply Forall_impl; [|exact Wdq]. cbn. intros t Ht.
    apply In_fold_set_add. auto.
  - clear Wnd Wdq Hname. induction qs as [|q r IH]; cbn; [exact I|].
    cbn in Wn, Wdj. inversion Wn as [|? ? Hq Hr]; subst. destruct Wdj as [Hd Hp].
    split.
    + intros q' Hq'. apply in_map_iff in Hq'. destruct Hq' as [q2 [<- Hq2]].
      assert (Hne : q_name q2 <> q_name q).
      { intros Heq. apply Hq. rewrite <- Heq. now apply in_map. }
      destruct (Nat.eqb_spec (q_name q) q_default) as [E1|E1];
      destruct (Nat.eqb_spec (q_name q2) q_default) as [E2|E2]; cbn; try congruence.
      * intros x Hx. apply In_fold_set_add in Hx. destruct Hx as [Hx|Hx]; [now apply Hd|].
        apply (Hok q2); auto. now right.
      * intros x Hx Hx2. apply In_fold_set_add in Hx2. destruct Hx2 as [Hx2|Hx2]; [exact (Hd _ Hq2 _ Hx Hx2)|].
        apply (Hok q (or_introl eq_refl) E1 x Hx2 Hx).
      * now apply Hd.
    + apply IH; auto. intros q' Hq'. apply Hok. now right.
Qed.

Theorem step_wf front st o :
  wf (st_queues st) -> op_ok (st_queues st) o -> wf (st_queues (fst (step front st o))).
Proof.
  intros W Hok. destruct o as [t|t a|a|id|id b|os]; cbn [step].
  - cbn. eapply wf_ext; [| |  |exact W].
    + rewrite map_map. apply map_ext. intros q. apply push_queue_fields.
    + rewrite map_map. apply map_ext. intros q. apply push_queue_fields.
    + destruct W as [_ _ Wdq _]. rewrite Forall_forall in *. intros q Hq.
      apply in_map_iff in Hq. destruct Hq as [q0 [<- Hq0]]. apply push_queue_ok. auto.
  - destruct (push_if_limited t a (st_queues st)) as [b qs] eqn:E. cbn.
    destruct (push_if_limited_shape _ _ _ _ _ E (wf_deque _ W)) as (H1 & H2 & H3).
    eapply wf_ext; eauto.
  - destruct (release_all front (st_held st) (st_queues st) a) as [[rel qs] a'] eqn:E. cbn.
    destruct (release_all_shape _ _ _ _ _ _ _ E (wf_deque _ W)) as (H1 & H2 & _ & H3 & _).
    eapply wf_ext; eauto.
  - destruct (remove_task id (st_queues st)) as [b qs] eqn:E. cbn.
    destruct (remove_task_shape _ _ _ _ E (wf_deque _ W)) as (H1 & H2 & H3).
    eapply wf_ext; eauto.
  - cbn. exact W.
  - cbn. apply adopt_wf; assumption.
Qed.

(* histories: every op admissible in the state it is applied to *)
Fixpoint ops_ok (front : bool) (st : state) (ops : list op) : Prop :=
  match ops with
  | [] => True
  | o :: r => op_ok (st_queues st) o /\ ops_ok front (fst (step front st o)) r
  end.

Theorem run_wf front : forall ops st,
  wf (st_queues st) -> ops_ok front st ops -> wf (st_queues (run front st ops)).
Proof.
  induction ops as [|o r IH]; intros st W H; cbn; [exact W|].
  destruct H as [H1 H2]. apply IH; [|exact H2]. now apply step_wf.
Qed.

(* a queued task sits in exactly one deque: the one of the queue owning its name *)
Lemma wf_unique_queue qs : wf qs -> forall q1 q2 t1 t2,
  In q1 qs -> In q2 qs -> In t1 (q_deque q1) -> In t2 (q_deque q2) -> t_name t1 = t_name t2 ->
  q_name q1 = q_name q2.
Proof.
  intros [Wn Wnd Wdq Wdj]. induction qs as [|q r IH]; intros q1 q2 t1 t2 H1 H2 Ht1 Ht2 Hn; [destruct H1|].
  cbn in Wn, Wdj. inversion Wn; subst. inversion Wnd; subst. inversion Wdq; subst. destruct Wdj as [Hd Hp].
  assert (Hmem : forall q0 t, In q0 (q :: r) -> In t (q_deque q0) -> In (t_name t) (q_members q0)).
  { intros q0 t Hq0 Ht. rewrite Forall_forall in Wdq. specialize (Wdq _ Hq0).
    unfold deque_ok in Wdq. rewrite Forall_forall in Wdq. auto. }
  pose proof (Hmem _ _ H1 Ht1) as M1. pose proof (Hmem _ _ H2 Ht2) as M2. rewrite Hn in M1.
  destruct H1 as [<-|H1], H2 as [<-|H2]; auto.
  - exfalso. exact (Hd _ H2 _ M1 M2).
  - exfalso. exact (Hd _ H1 _ M2 M1).
  - eapply IH; eauto.
Qed.

(* ================================================================== *)
(* PART C — _make_indep: every name in exactly one queue                *)

Definition mems (qs : qconfig) (q : qname) : list name :=
  match assoc Nat.eqb q qs with Some c => qc_members c | None => [] end.

(* specification: the last non-default queue listing t ... *)
Fixpoint owner_nd (qs : qconfig) (t : name) : option qname :=
  match qs with
  | [] => None
  | (q, c) :: r =>
      match owner_nd r t with
      | Some q' => Some q'
      | None => if negb (Nat.eqb q q_default) && mem Nat.eqb t (qc_members c) then Some q else None
      end
  end.
(* ... else the default queue (if it lists t: it lists every task name) *)
Definition owner (qs : qconfig) (t : name) : option qname :=
  match owner_nd qs t with
  | Some q => Some q
  | None => if mem Nat.eqb t (mems qs q_default) then Some q_default else None
  end.

Lemma has_queue_In q (qs : qconfig) : has_queue q qs = true <-> In q (map fst qs).
Proof.
  unfold has_queue. induction qs as [|[k c] r IH]; cbn; [split; [discriminate|tauto]|].
  destruct (Nat.eqb_spec q k) as [->|Hne]; [tauto|].
  rewrite IH. split; [auto|]. intros [H|H]; [congruence|exact H].
Qed.

Lemma assoc_snoc_in q (qs : qconfig) e : In q (map fst qs) ->
  assoc Nat.eqb q (qs ++ [e]) = assoc Nat.eqb q qs.
Proof.
  induction qs as [|[k c] r IH]; cbn; [tauto|].
  destruct (Nat.eqb_spec q k) as [->|Hne]; [reflexivity|].
  intros [H|H]; [congruence|auto].
Qed.

Lemma assoc_snoc_notin q (qs : qconfig) e : ~ In q (map fst qs) ->
  assoc Nat.eqb q (qs ++ [e]) = if Nat.eqb q (fst e) then Some (snd e) else None.
Proof.
  induction qs as [|[k c] r IH]; cbn.
  - destruct e as [k c]. cbn. reflexivity.
  - destruct (Nat.eqb_spec q k) as [->|Hne]; [tauto|]. intros H. apply IH. tauto.
Qed.

Lemma mems_upd f q' qs q :
  mems (upd_members f q' qs) q =
    if Nat.eqb q q' && has_queue q qs then f (mems qs q) else mems qs q.
Proof.
  unfold mems, has_queue. induction qs as [|[k c] r IH]; cbn.
  - now rewrite andb_false_r.
  - destruct (Nat.eqb_spec k q') as [E1|Hk]; cbn.
    + subst k. destruct (Nat.eqb_spec q q') as [E2|Hq]; cbn; [reflexivity|].
      cbn in IH. exact IH.
    + destruct (Nat.eqb_spec q k) as [E2|Hq]; cbn.
      * subst k. destruct (Nat.eqb_spec q q'); [contradiction|reflexivity].
      * exact IH.
Qed.

Lemma names_upd f q qs : map fst (upd_members f q qs) = map fst qs.
Proof.
  unfold upd_members. rewrite map_map. apply map_ext. intros [k c]. cbn.
  destruct (Nat.eqb k q); reflexivity.
Qed.

Lemma owner_nd_snoc P e t :
  owner_nd (P ++ [e]) t =
    if negb (Nat.eqb (fst e) q_default) && mem Nat.eqb t (qc_members (snd e))
    then Some (fst e) else owner_nd P t.
Proof.
  induction P as [|[k c] r IH]; cbn.
  - destruct e as [k c]; cbn. destruct (_ && _); reflexivity.
  - rewrite IH. destruct (negb (Nat.eqb (fst e) q_default) && mem Nat.eqb t (qc_members (snd e))); reflexivity.
Qed.

Lemma owner_nd_in P t q : owner_nd P t = Some q -> In q (map fst P) /\ q <> q_default.
Proof.
  induction P as [|[k c] r IH]; cbn; [discriminate|].
  destruct (owner_nd r t) as [q'|].
  - intros [= ->]. destruct (IH eq_refl). auto.
  - destruct (Nat.eqb_spec k q_default) as [|Hk]; cbn; [discriminate|].
    destruct (mem Nat.eqb t (qc_members c)); [|discriminate].
    intros [= <-]. auto.
Qed.

(* ---- the inner loop over the members of one non-default queue ---- *)
Section Inner.
  Variable P : qconfig.           (* queues processed before this one *)
  Variable d : qconf.             (* the default queue's input config *)
  Variable q : qname.             (* the queue being processed *)
  Variable ms : list name.        (* its members *)
  Hypothesis Hq0 : q <> q_default.
  Hypothesis HqP : ~ In q (map fst P).
  Hypothesis HdP : In q_default (map fst P).

  Record inner_inv (ms1 : list name) (st : qconfig * seen_map) : Prop := {
    ii_names : map fst (fst st) = map fst P ++ [q];
    ii_seen : forall t, assoc Nat.eqb t (snd st) = if mem Nat.eqb t ms1 then Some q else owner_nd P t;
    ii_other : forall q0 t, q0 <> q_default -> q0 <> q ->
       (In t (mems (fst st) q0) <-> owner_nd P t = Some q0 /\ ~ In t ms1);
    ii_self : forall t, In t (mems (fst st) q) <-> In t ms;
    ii_default : forall t, In t (mems (fst st) q_default) <->
       In t (qc_members d) /\ owner_nd P t = None /\ ~ In t ms1
  }.

  Lemma has_of_names (qs : qconfig) q0 : map fst qs = map fst P ++ [q] ->
    (In q0 (map fst P) \/ q0 = q) -> has_queue q0 qs = true.
  Proof.
    intros Hn H. apply has_queue_In. rewrite Hn, in_app_iff. cbn. destruct H as [H| ->]; auto.
  Qed.

  Lemma inner_step ms1 st x :
    inner_inv ms1 st -> In x ms -> ~ In x ms1 ->
    inner_inv (ms1 ++ [x]) (indep_step q st x).
  Proof.
    intros [Hn Hs Ho Hself Hd] Hx Hx1. destruct st as [qs seen]. cbn [fst snd] in *.
    assert (Hsx : assoc Nat.eqb x seen = owner_nd P x).
    { rewrite Hs. apply mem_nat_false in Hx1. now rewrite Hx1. }
    assert (Hmem1 : forall t, mem Nat.eqb t (ms1 ++ [x]) = mem Nat.eqb t ms1 || Nat.eqb t x).
    { intros t. destruct (mem Nat.eqb t (ms1 ++ [x])) eqn:E.
      - apply mem_nat_In in E. apply in_app_iff in E. symmetry. apply orb_true_iff.
        destruct E as [E|[E|[]]]; [left; now apply mem_nat_In|right; subst; apply Nat.eqb_refl].
      - apply mem_nat_false in E. rewrite in_app_iff in E. cbn in E. symmetry. apply orb_false_iff. split.
        + apply mem_nat_false. tauto.
        + apply Nat.eqb_neq. intros ->. tauto. }
    assert (Hin1 : forall t, In t (ms1 ++ [x]) <-> In t ms1 \/ t = x).
    { intros t. rewrite in_app_iff. cbn. intuition. }
    assert (Hhd : has_queue q_default qs = true) by (apply has_of_names; auto).
    assert (Hhq : has_queue q qs = true) by (apply has_of_names; auto).
    unfold indep_step. rewrite Hsx.
    destruct (owner_nd P x) as [oldq|] eqn:Eo.
    - (* x was claimed by an earlier queue: taken away from it *)
      destruct (owner_nd_in _ _ _ Eo) as [HoP Ho0].
      assert (Hoq : oldq <> q) by (intros ->; contradiction).
      assert (Hho : has_queue oldq qs = true) by (apply has_of_names; auto).
      assert (Hho' : has_queue oldq (upd_members (rm x) q_default qs) = true).
      { apply has_queue_In. rewrite names_upd. now apply has_queue_In. }
      constructor; cbn [fst snd].
      + now rewrite !names_upd.
      + intros t. cbn [assoc]. rewrite Hmem1.
        destruct (Nat.eqb_spec t x) as [->|Hne].
        * now rewrite orb_true_r.
        * rewrite orb_false_r. apply Hs.
      + intros q0 t H0 Hq. rewrite !mems_upd.
        destruct (Nat.eqb_spec q0 q_default) as [|_]; [contradiction|]. cbn [andb].
        rewrite Hin1.
        destruct (Nat.eqb_spec q0 oldq) as [->|Hne]; cbn [andb].
        * rewrite Hho'. rewrite In_rm, Ho by assumption.
          split; [intros [[H1 H2] H3]; split; [exact H1|tauto]|].
          intros [H1 H2]. repeat split; auto.
        * rewrite Ho by assumption. split; [intros [H1 H2]; split; [exact H1|]|tauto].
          intros [H| ->]; [tauto|congruence].
      + intros t. rewrite !mems_upd.
        destruct (Nat.eqb_spec q oldq) as [E|_]; [congruence|]. cbn [andb].
        destruct (Nat.eqb_spec q q_default) as [|_]; [contradiction|]. cbn [andb]. apply Hself.
      + intros t. rewrite !mems_upd.
        destruct (Nat.eqb_spec q_default oldq) as [E|_]; [congruence|]. cbn [andb].
        rewrite Nat.eqb_refl, Hhd. cbn [andb]. rewrite In_rm, Hd, Hin1. tauto.
    - (* x not claimed before *)
      assert (Hhq' : has_queue q (upd_members (rm x) q_default qs) = true).
      { apply has_queue_In. rewrite names_upd. now apply has_queue_In. }
      constructor; cbn [fst snd].
      + now rewrite !names_upd.
      + intros t. cbn [assoc]. rewrite Hmem1.
        destruct (Nat.eqb_spec t x) as [->|Hne].
        * now rewrite orb_true_r.
        * rewrite orb_false_r. apply Hs.
      + intros q0 t H0 Hq. rewrite !mems_upd.
        destruct (Nat.eqb_spec q0 q) as [|_]; [contradiction|]. cbn [andb].
        destruct (Nat.eqb_spec q0 q_default) as [|_]; [contradiction|]. cbn [andb].
        rewrite Ho, Hin1 by assumption.
        split; [intros [H1 H2]; split; [exact H1|]|tauto].
        intros [H| ->]; [tauto|congruence].
      + intros t. rewrite !mems_upd. rewrite Nat.eqb_refl, Hhq'. cbn [andb].
        destruct (Nat.eqb_spec q q_default) as [|_]; [contradiction|]. cbn [andb].
        rewrite In_set_add, Hself. split; [intros [H| ->]; auto|auto].
      + intros t. rewrite !mems_upd.
        destruct (Nat.eqb_spec q_default q) as [E|_]; [congruence|]. cbn [andb].
        rewrite Nat.eqb_refl, Hhd. cbn [andb]. rewrite In_rm, Hd, Hin1. tauto.
  Qed.

  Lemma inner_loop : forall ms2 ms1 st,
    NoDup (ms1 ++ ms2) -> (forall x, In x ms2 -> In x ms) ->
    inner_inv ms1 st -> inner_inv (ms1 ++ ms2) (fold_left (indep_step q) ms2 st).
  Proof.
    induction ms2 as [|x r IH]; intros ms1 st Hnd Hsub Hinv; cbn [fold_left].
    - now rewrite app_nil_r.
    - replace (ms1 ++ x :: r) with ((ms1 ++ [x]) ++ r) in * by (rewrite <- app_assoc; reflexivity).
      apply IH; [exact Hnd| |].
      + intros y Hy. apply Hsub. now right.
      + apply inner_step; [exact Hinv|apply Hsub; now left|].
        rewrite <- app_assoc in Hnd. cbn in Hnd. apply NoDup_remove_2 in Hnd.
        intros H. apply Hnd. apply in_app_iff. now left.
  Qed.
End Inner.

(* ---- the outer loop over the queues ---- *)
Record outer_inv (d : qconf) (P : qconfig) (st : qconfig * seen_map) : Prop := {
  oi_names : map fst (fst st) = map fst P;
  oi_seen : forall t, assoc Nat.eqb t (snd st) = owner_nd P t;
  oi_other : forall q0 t, q0 <> q_default -> (In t (mems (fst st) q0) <-> owner_nd P t = Some q0);
  oi_default : forall t, In t (mems (fst st) q_default) <-> In t (qc_members d) /\ owner_nd P t = None
}.

Lemma mems_snoc_old (qs : qconfig) e q0 : In q0 (map fst qs) -> mems (qs ++ [e]) q0 = mems qs q0.
Proof. intros H. unfold mems. now rewrite assoc_snoc_in. Qed.

Lemma mems_notin (qs : qconfig) q0 : ~ In q0 (map fst qs) -> mems qs q0 = [].
Proof.
  intros H. unfold mems. destruct (assoc Nat.eqb q0 qs) eqn:E; [|reflexivity].
  exfalso. apply H. apply has_queue_In. unfold has_queue. now rewrite E.
Qed.

Lemma outer_step d P st e :
  In q_default (map fst P) -> ~ In (fst e) (map fst P) -> NoDup (qc_members (snd e)) ->
  outer_inv d P st -> outer_inv d (P ++ [e]) (indep_queue st e).
Proof.
  intros HdP HeP Hnd Hinv. destruct st as [qs seen]. destruct e as [q c]. cbn [fst snd] in *.
  assert (Hq0 : q <> q_default) by (intros ->; contradiction).
  unfold indep_queue. cbn [fst snd]. destruct (Nat.eqb_spec q q_default) as [|_]; [contradiction|].
  destruct Hinv as [Hn Hs Ho Hd]. cbn [fst snd] in *.
  assert (HeQ : ~ In q (map fst qs)) by now rewrite Hn.
  assert (Hstart : inner_inv P d q (qc_members c) [] (qs ++ [(q, c)], seen)).
  { constructor; cbn [fst snd mem].
    - rewrite map_app, Hn. reflexivity.
    - exact Hs.
    - intros q0 t H0 Hq. destruct (in_dec Nat.eq_dec q0 (map fst qs)) as [Hi|Hi].
      + rewrite mems_snoc_old by exact Hi. rewrite Ho by exact H0. cbn. tauto.
      + unfold mems. rewrite assoc_snoc_notin by exact Hi. cbn [fst].
        destruct (Nat.eqb_spec q0 q); [contradiction|]. cbn. split; [tauto|].
        intros [H _]. apply owner_nd_in in H. rewrite <- Hn in H. tauto.
    - intros t. unfold mems. rewrite assoc_snoc_notin by exact HeQ. cbn [fst snd].
      rewrite Nat.eqb_refl. tauto.
    - intros t. rewrite mems_snoc_old by (now rewrite Hn). rewrite Hd. cbn. tauto. }
  pose proof (inner_loop P d q (qc_members c) Hq0 HeP HdP (qc_members c) [] _ Hnd (fun x H => H) Hstart) as Hend.
  cbn [app] in Hend.
  destruct Hend as [Hn' Hs' Ho' Hself' Hd'].
  assert (Hown : forall t, owner_nd (P ++ [(q, c)]) t =
                           if mem Nat.eqb t (qc_members c) then Some q else owner_nd P t).
  { intros t. rewrite owner_nd_snoc. cbn [fst snd].
    destruct (Nat.eqb_spec q q_default); [contradiction|reflexivity]. }
  constructor.
  - rewrite Hn', map_app. reflexivity.
  - intros t. rewrite Hs', Hown. reflexivity.
  - intros q0 t H0. rewrite Hown. destruct (Nat.eq_dec q0 q) as [->|Hne].
    + rewrite Hself'. destruct (mem Nat.eqb t (qc_members c)) eqn:E.
      * apply mem_nat_In in E. tauto.
      * apply mem_nat_false in E. split; [tauto|]. intros H. apply owner_nd_in in H. tauto.
    + rewrite Ho' by assumption. destruct (mem Nat.eqb t (qc_members c)) eqn:E.
      * apply mem_nat_In in E. split; [tauto|congruence].
      * apply mem_nat_false in E. tauto.
  - intros t. rewrite Hd', Hown. destruct (mem Nat.eqb t (qc_members c)) eqn:E.
    + apply mem_nat_In in E. split; [tauto|]. intros [_ H]. discriminate.
    + apply mem_nat_false in E. tauto.
Qed.

Lemma outer_loop d : forall rest P st,
  In q_default (map fst P) -> NoDup (map fst (P ++ rest)) ->
  Forall (fun e => NoDup (qc_members (snd e))) rest ->
  outer_inv d P st -> outer_inv d (P ++ rest) (fold_left indep_queue rest st).
Proof.
  induction rest as [|e r IH]; intros P st HdP Hnd Hm Hinv; cbn [fold_left].
  - now rewrite app_nil_r.
  - replace (P ++ e :: r) with ((P ++ [e]) ++ r) in * by (rewrite <- app_assoc; reflexivity).
    inversion Hm; subst.
    apply IH; auto.
    + rewrite map_app, in_app_iff. now left.
    + apply outer_step; auto.
      rewrite <- app_assoc in Hnd. cbn in Hnd. rewrite map_app in Hnd. cbn in Hnd.
      apply NoDup_remove_2 in Hnd. intros H. apply Hnd. apply in_app_iff. now left.
Qed.

(* the partition theorem *)
Theorem make_indep_partition d rest :
  let in_queues := (q_default, d) :: rest in
  NoDup (map fst in_queues) ->
  Forall (fun e => NoDup (qc_members (snd e))) rest ->
  forall q t, In t (mems (make_indep in_queues) q) <-> owner in_queues t = Some q.
Proof.
  intros in_queues Hnd Hm q t. unfold make_indep, in_queues. cbn [fold_left].
  unfold indep_queue at 2. cbn [fst snd app]. rewrite Nat.eqb_refl.
  assert (H0 : outer_inv d [(q_default, d)] ([(q_default, d)], [])).
  { constructor; cbn [fst snd map assoc owner_nd].
    - reflexivity.
    - intros t0. rewrite Nat.eqb_refl. reflexivity.
    - intros q0 t0 Hq0. rewrite Nat.eqb_refl. cbn [negb andb]. unfold mems. cbn [assoc].
      destruct (Nat.eqb_spec q0 q_default); [contradiction|]. cbn. split; [tauto|discriminate].
    - intros t0. rewrite Nat.eqb_refl. cbn [negb andb]. unfold mems. cbn [assoc]. tauto. }
  pose proof (outer_loop d rest [(q_default, d)] _ (or_introl eq_refl) Hnd Hm H0) as [Hn Hs Ho Hd].
  cbn [app] in *. unfold owner.
  assert (Hmd : mems ((q_default, d) :: rest) q_default = qc_members d) by reflexivity.
  rewrite Hmd.
  destruct (Nat.eq_dec q q_default) as [->|Hq].
  - rewrite Hd. destruct (owner_nd ((q_default, d) :: rest) t) as [q'|] eqn:E.
    + apply owner_nd_in in E. split; [intros [_ H]; discriminate|]. intros [= ->]. tauto.
    + destruct (mem Nat.eqb t (qc_members d)) eqn:Em.
      * apply mem_nat_In in Em. tauto.
      * apply mem_nat_false in Em. split; [tauto|discriminate].
  - rewrite Ho by exact Hq. destruct (owner_nd ((q_default, d) :: rest) t) as [q'|]; [tauto|].
    destruct (mem Nat.eqb t (qc_members d)); split; intros H; try discriminate H; inversion H; subst; contradiction.
Qed.

(* consequences in the words of the property *)
Corollary make_indep_at_most_one d rest :
  let in_queues := (q_default, d) :: rest in
  NoDup (map fst in_queues) ->
  Forall (fun e => NoDup (qc_members (snd e))) rest ->
  forall t q1 q2, In t (mems (make_indep in_queues) q1) -> In t (mems (make_indep in_queues) q2) -> q1 = q2.
Proof.
  intros in_queues Hnd Hm t q1 q2 H1 H2.
  apply (make_indep_partition d rest Hnd Hm) in H1. apply (make_indep_partition d rest Hnd Hm) in H2.
  congruence.
Qed.

Corollary make_indep_exactly_one d rest :
  let in_queues := (q_default, d) :: rest in
  NoDup (map fst in_queues) ->
  Forall (fun e => NoDup (qc_members (snd e))) rest ->
  forall t, In t (qc_members d) ->
  exists q, In t (mems (make_indep in_queues) q) /\
            forall q', In t (mems (make_indep in_queues) q') -> q' = q.
Proof.
  intros in_queues Hnd Hm t Ht.
  assert (Ho : exists q, owner in_queues t = Some q).
  { unfold owner. destruct (owner_nd in_queues t); [eauto|].
    apply mem_nat_In in Ht. unfold in_queues at 1. unfold mems. cbn [assoc]. rewrite Nat.eqb_refl.
    rewrite Ht. eauto. }
  destruct Ho as [q Hq]. exists q. split.
  - now apply (make_indep_partition d rest Hnd Hm).
  - intros q' H'. apply (make_indep_partition d rest Hnd Hm) in H'. unfold in_queues in *. congruence.
Qed.

(* _expand_families yields duplicate-free membership lists *)
Lemma expand_members_NoDup all d ms : NoDup (expand_members all d ms).
Proof.
  unfold expand_members.
  assert (G : forall ms acc, NoDup acc -> NoDup (fold_left
    (fun acc m => match assoc Nat.eqb m d with
       | Some fm => fold_left (fun acc f => if negb (is_family d f) && mem Nat.eqb f all then set_add f acc else acc) fm acc
       | None => if mem Nat.eqb m all then set_add m acc else acc end) ms acc)).
  { induction ms0 as [|m r IH]; intros acc H; cbn [fold_left]; [exact H|].
    apply IH. destruct (assoc Nat.eqb m d) as [fm|].
    - clear IH. revert acc H. induction fm as [|f fr IHf]; intros acc H; cbn [fold_left]; [exact H|].
      apply IHf. destruct (_ && _); [now apply NoDup_set_add|exact H].
    - destruct (mem Nat.eqb m all); [now apply NoDup_set_add|exact H]. }
  apply G. constructor.
Qed.

Lemma expand_families_NoDup all d qc :
  Forall (fun e => NoDup (qc_members (snd e))) (expand_families all d qc).
Proof.
  unfold expand_families. apply Forall_forall. intros e He. apply in_map_iff in He.
  destruct He as [e0 [<- _]]. cbn. apply expand_members_NoDup.
Qed.

Lemma expand_families_names all d qc : map fst (expand_families all d qc) = map fst qc.
Proof. unfold expand_families. rewrite map_map. reflexivity. Qed.

(* the initial state built from a partitioned config is well-formed *)
Lemma init_state_wf (qs : qconfig) :
  NoDup (map fst qs) ->
  Forall (fun e => NoDup (qc_members (snd e))) qs ->
  (forall t q1 q2, In t (mems qs q1) -> In t (mems qs q2) -> q1 = q2) ->
  wf (st_queues (init_state qs)).
Proof.
  intros Hn Hnd Hu. unfold init_state. cbn [st_queues]. constructor.
  - rewrite map_map. cbn. exact Hn.
  - rewrite Forall_forall in *. intros q Hq. apply in_map_iff in Hq. destruct Hq as [e [<- He]]. cbn. auto.
  - apply Forall_forall. intros q Hq. apply in_map_iff in Hq. destruct Hq as [e [<- He]].
    unfold deque_ok. cbn. constructor.
  - revert Hn Hu. clear Hnd. induction qs as [|[k c] r IH]; cbn [map]; intros Hn Hu; [exact I|].
    inversion Hn as [|? ? Hk Hr]; subst. split.
    + intros q' Hq'. apply in_map_iff in Hq'. destruct Hq' as [[k' c'] [<- He]]. cbn.
      intros x Hx Hx'.
      assert (Hk' : In k' (map fst r)) by (apply in_map_iff; exists (k', c'); auto).
      assert (k = k').
      { apply (Hu x).
        - unfold mems. cbn [assoc]. now rewrite Nat.eqb_refl.
        - unfold mems. cbn [assoc]. destruct (Nat.eqb_spec k' k) as [->|_]; [contradiction|].
          clear - Hr He Hx'. induction r as [|[k2 c2] r2 IHr]; [destruct He|]. cbn [assoc].
          cbn in Hr. inversion Hr; subst. destruct He as [[= -> ->]|He].
          + now rewrite Nat.eqb_refl.
          + destruct (Nat.eqb_spec k' k2) as [->|_].
            * exfalso. apply H1. apply in_map_iff. exists (k2, c'). auto.
            * auto. }
      subst. contradiction.
    + apply IH; [exact Hr|]. intros t q1 q2 H1 H2.
      assert (G : forall q0, In t (mems r q0) -> In t (mems ((k, c) :: r) q0)).
      { intros q0 H. unfold mems in *. cbn [assoc]. destruct (Nat.eqb_spec q0 k) as [->|_]; [|exact H].
        destruct (assoc Nat.eqb k r) eqn:E; [|destruct H].
        exfalso. apply Hk. apply has_queue_In. unfold has_queue. now rewrite E. }
      apply (Hu t); auto.
Qed.

(* ================================================================== *)
(* PART D — glue: the constructor, reachable states, order             *)

Lemma make_indep_inv d rest :
  NoDup (map fst ((q_default, d) :: rest)) ->
  Forall (fun e => NoDup (qc_members (snd e))) rest ->
  outer_inv d ((q_default, d) :: rest) (fold_left indep_queue ((q_default, d) :: rest) ([], [])).
Proof.
  intros Hnd Hm. cbn [fold_left]. unfold indep_queue at 2. cbn [fst snd app]. rewrite Nat.eqb_refl.
  assert (H0 : outer_inv d [(q_default, d)] ([(q_default, d)], [])).
  { constructor; cbn [fst snd map assoc owner_nd].
    - reflexivity.
    - intros t0. rewrite Nat.eqb_refl. reflexivity.
    - intros q0 t0 Hq0. rewrite Nat.eqb_refl. cbn [negb andb]. unfold mems. cbn [assoc].
      destruct (Nat.eqb_spec q0 q_default); [contradiction|]. cbn. split; [tauto|discriminate].
    - intros t0. rewrite Nat.eqb_refl. cbn [negb andb]. unfold mems. cbn [assoc]. tauto. }
  exact (outer_loop d rest [(q_default, d)] _ (or_introl eq_refl) Hnd Hm H0).
Qed.

Lemma make_indep_names d rest :
  NoDup (map fst ((q_default, d) :: rest)) ->
  Forall (fun e => NoDup (qc_members (snd e))) rest ->
  map fst (make_indep ((q_default, d) :: rest)) = map fst ((q_default, d) :: rest).
Proof. intros H1 H2. exact (oi_names _ _ _ (make_indep_inv d rest H1 H2)). Qed.

Definition members_nodup (qs : qconfig) : Prop := Forall (fun e => NoDup (qc_members (snd e))) qs.

Lemma upd_members_nodup f q qs :
  (forall l, NoDup l -> NoDup (f l)) -> members_nodup qs -> members_nodup (upd_members f q qs).
Proof.
  intros Hf H. unfold members_nodup, upd_members in *. rewrite Forall_forall in *.
  intros e He. apply in_map_iff in He. destruct He as [e0 [<- He0]].
  destruct (Nat.eqb (fst e0) q); cbn; auto.
Qed.

Lemma indep_step_nodup q st x : members_nodup (fst st) -> members_nodup (fst (indep_step q st x)).
Proof.
  destruct st as [qs seen]. cbn [fst]. intros H. unfold indep_step.
  destruct (assoc Nat.eqb x seen); cbn [fst].
  - apply upd_members_nodup; [apply NoDup_rm|]. apply upd_members_nodup; [apply NoDup_rm|exact H].
  - apply upd_members_nodup; [apply NoDup_set_add|]. apply upd_members_nodup; [apply NoDup_rm|exact H].
Qed.

Lemma indep_queue_nodup st e :
  members_nodup (fst st) -> NoDup (qc_members (snd e)) -> members_nodup (fst (indep_queue st e)).
Proof.
  destruct st as [qs seen]. cbn [fst]. intros H He. unfold indep_queue.
  assert (H' : members_nodup (qs ++ [e])) by (apply Forall_app; split; [exact H|constructor; [exact He|constructor]]).
  destruct (Nat.eqb (fst e) q_default); [exact H'|].
  generalize (qc_members (snd e)) as ms. intros ms.
  assert (G : forall ms st0, members_nodup (fst st0) -> members_nodup (fst (fold_left (indep_step (fst e)) ms st0))).
  { induction ms0 as [|x r IH]; intros st0 H0; cbn [fold_left]; [exact H0|]. apply IH. now apply indep_step_nodup. }
  apply (G ms (qs ++ [e], seen)). exact H'.
Qed.

Lemma make_indep_nodup inq : members_nodup inq -> members_nodup (make_indep inq).
Proof.
  unfold make_indep.
  assert (G : forall l st, members_nodup (fst st) -> members_nodup l ->
                           members_nodup (fst (fold_left indep_queue l st))).
  { induction l as [|e r IH]; intros st H Hl; cbn [fold_left]; [exact H|].
    inversion Hl; subst. apply IH; [|assumption]. now apply indep_queue_nodup. }
  intros H. apply G; [constructor|exact H].
Qed.

(* what IndepQueueManager.__init__ hands to _make_indep *)
Definition prepared (all : list name) (d : descendants) (c0 : qconf) (rest : qconfig) : qconfig :=
  expand_families all d
    ((q_default, {| qc_limit := qc_limit c0; qc_members := dedup Nat.eqb all |}) :: rest).

Lemma map_default_id (all : list name) (rest : qconfig) :
  ~ In q_default (map fst rest) ->
  map (fun e : qname * qconf => if Nat.eqb (fst e) q_default
        then (fst e, {| qc_limit := qc_limit (snd e); qc_members := dedup Nat.eqb all |})
        else e) rest = rest.
Proof.
  induction rest as [|[k c] r IH]; cbn [map fst snd]; [reflexivity|].
  intros H. cbn in H. destruct (Nat.eqb_spec k q_default) as [->|_]; [tauto|].
  f_equal. apply IH. tauto.
Qed.

Lemma init_config_default_first all d c0 rest :
  NoDup (map fst ((q_default, c0) :: rest)) ->
  init_config all d ((q_default, c0) :: rest) = Some (make_indep (prepared all d c0 rest)).
Proof.
  intros Hnd. unfold init_config, set_default_members, has_queue. cbn [assoc].
  rewrite Nat.eqb_refl. cbn [map fst snd]. rewrite Nat.eqb_refl.
  inversion Hnd as [|? ? H0 _]; subst.
  rewrite map_default_id by exact H0. reflexivity.
Qed.

Lemma prepared_shape all d c0 rest :
  exists d', prepared all d c0 rest = (q_default, d') :: expand_families all d rest.
Proof. unfold prepared, expand_families. cbn [map fst snd]. eauto. Qed.

Theorem init_config_partition all d c0 rest :
  NoDup (map fst ((q_default, c0) :: rest)) ->
  forall q t, In t (mems (make_indep (prepared all d c0 rest)) q) <-> owner (prepared all d c0 rest) t = Some q.
Proof.
  intros Hnd. destruct (prepared_shape all d c0 rest) as [d' E]. rewrite E.
  apply make_indep_partition.
  - cbn [map fst]. rewrite expand_families_names. exact Hnd.
  - apply expand_families_NoDup.
Qed.

Theorem init_state_reachable_wf all d c0 rest front ops :
  NoDup (map fst ((q_default, c0) :: rest)) ->
  let st0 := init_state (make_indep (prepared all d c0 rest)) in
  ops_ok front st0 ops -> wf (st_queues (run front st0 ops)).
Proof.
  intros Hnd st0 Hops. apply run_wf; [|exact Hops].
  destruct (prepared_shape all d c0 rest) as [d' E].
  assert (Hn : NoDup (map fst ((q_default, d') :: expand_families all d rest))).
  { cbn [map fst]. rewrite expand_families_names. exact Hnd. }
  unfold st0. rewrite E. apply init_state_wf.
  - rewrite make_indep_names; [exact Hn|exact Hn|apply expand_families_NoDup].
  - apply make_indep_nodup. rewrite <- E. apply expand_families_NoDup.
  - intros t q1 q2. apply make_indep_at_most_one; [exact Hn|apply expand_families_NoDup].
Qed.

(* ---- order ---- *)
Inductive sublist {A} : list A -> list A -> Prop :=
| sl_nil : forall l, sublist [] l
| sl_take : forall x s l, sublist s l -> sublist (x :: s) (x :: l)
| sl_skip : forall x s l, sublist s l -> sublist s (x :: l).

Lemma sublist_refl {A} (l : list A) : sublist l l.
Proof. induction l; constructor; auto. Qed.

Lemma sublist_filter_app {A} (f : A -> bool) p r : sublist (filter f p ++ r) (p ++ r).
Proof.
  induction p as [|x p IH]; cbn; [apply sublist_refl|].
  destruct (f x); cbn; constructor; exact IH.
Qed.

Lemma release_queue_fifo front held q a rel q' a' :
  release_queue front held q a = (rel, q', a') ->
  let n := n_active (q_members q) a in
  exists popped rest,
    q_deque q = popped ++ rest
    /\ rel = filter (nonheld held) popped
    /\ q_deque q' = requeue front (filter (is_held held) popped) rest
    /\ (rest = [] \/ (q_limit q <> 0 /\ q_limit q <= n + length rel))
    /\ rel = (if Nat.eqb (q_limit q) 0 then filter (nonheld held) (q_deque q)
              else firstn (q_limit q - n) (filter (nonheld held) (q_deque q))).
Proof.
  intros E n. unfold release_queue in E. fold n in E.
  destruct (pop_loop (q_limit q) n held (q_deque q)) as [[r h] rest] eqn:Ep.
  injection E as <- <- _. cbn [q_deque].
  destruct (pop_loop_split _ _ _ _ _ _ _ Ep) as [p [Hd [Hr Hh]]].
  exists p, rest. repeat split; auto.
  - now rewrite Hh.
  - eapply pop_loop_maximal; eauto.
  - destruct (Nat.eqb_spec (q_limit q) 0) as [Hz|Hnz].
    + rewrite Hz, pop_loop_unlimited in Ep. now injection Ep as <- _ _.
    + eapply pop_loop_limited; eauto.
Qed.

Lemma release_queue_order_fixed held q a rel q' a' :
  release_queue true held q a = (rel, q', a') -> sublist (q_deque q') (q_deque q).
Proof.
  intros E. destruct (release_queue_fifo _ _ _ _ _ _ _ E) as (p & rest & -> & _ & -> & _).
  cbn [requeue]. apply sublist_filter_app.
Qed.
