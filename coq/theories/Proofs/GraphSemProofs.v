(* Proofs/GraphSemProofs.v — C14: the assertions applied for the printed lines
   of well-formed chains are the chains' reference assertions (with the code's
   end-of-chain rule), and cutting chains / reordering / duplicating lines does
   not change them when the graph is [eoc_safe]. *)
From Coq Require Import List Bool Arith String Lia.
From Cylc Require Import Base.Util Gen.FamTables Model.GraphBase Model.GraphExpr Model.FamTrig
  Model.GraphParse Model.GraphAst Proofs.GraphExprProofs Proofs.FamTrigProofs Proofs.GraphStoreProofs
  Proofs.GraphPairProofs Proofs.GraphLinesProofs.
Import ListNotations.

(* ================= membership in the action lists ================= *)
Lemma in_right_actions_opt E expr atoms r x :
  In (AOpt x) (right_actions E expr atoms r)
  <-> In x (rnode_asserts (negb (mem toks_eqb (print_r r) E) || is_nil expr) r).
Proof.
  unfold right_actions. rewrite in_app_iff, in_map_iff. split.
  - intros [H|[y [[= <-] Hy]]]; [|exact Hy].
    destruct (Nat.eqb (n_off (r_n r)) 0); [destruct H as [H|[]]; discriminate|destruct H].
  - intros H. right. eauto.
Qed.

Lemma in_right_actions_trig E expr atoms r m t :
  In (ATrig m t) (right_actions E expr atoms r)
  <-> (n_off (r_n r) = 0 /\ m = n_name (r_n r) /\ t = mkTrig expr atoms (r_s r)).
Proof.
  unfold right_actions. rewrite in_app_iff, in_map_iff. split.
  - intros [H|[y [Hy _]]]; [|discriminate].
    destruct (Nat.eqb (n_off (r_n r)) 0) eqn:E0; [|destruct H].
    destruct H as [[= <- <-]|[]]. apply Nat.eqb_eq in E0. auto.
  - intros [H0 [-> ->]]. left. rewrite H0. now left.
Qed.

Lemma stored_expr_nonempty p : is_nil (stored_expr p) = false.
Proof.
  unfold stored_expr. destruct (print_e (expand_e [] p)) eqn:E; [exfalso; eapply print_e_nonempty; eauto|reflexivity].
Qed.

Lemma left_pieces_nonempty L : exists p, In p (left_pieces L).
Proof.
  unfold left_pieces. destruct (has_or_par L); [exists L; now left|].
  induction L; cbn; eauto. destruct IHL1 as [p Hp]. exists p. apply in_or_app. now left.
Qed.

(* the code's rule: ":succeeded" is inferred for a plain right-hand node unless
   its text ends some line's chain *)
Definition rnode_asserts_E (E : list (list tok)) (r : rnode) : list oassert :=
  rnode_asserts (negb (mem toks_eqb (print_r r) E)) r.

Definition chain_asserts_E (E : list (list tok)) (c : chain) : list oassert :=
  flat_map head_node_asserts (nodes_e (ch_head c))
  ++ flat_map (flat_map (rnode_asserts_E E)) (ch_groups c).

Lemma head_asserts_auto n :
  rnode_asserts true (mkR false n) = head_node_asserts n.
Proof.
  unfold rnode_asserts, head_node_asserts, task_out, expand_assert. cbn [r_s r_n].
  destruct (n_qual n); [reflexivity|]. rewrite succeeded_not_finished. destruct (n_opt n); reflexivity.
Qed.

Lemma in_auto_opt E n x : In (AOpt x) (auto_actions E n) <-> In x (head_node_asserts n).
Proof.
  unfold auto_actions. rewrite in_right_actions_opt. cbn [is_nil]. rewrite orb_true_r.
  now rewrite head_asserts_auto.
Qed.

Lemma in_main_opt E L G x :
  In (AOpt x) (main_actions E L G) <-> exists r, In r G /\ In x (rnode_asserts_E E r).
Proof.
  unfold main_actions, rnode_asserts_E. rewrite in_flat_map. split.
  - intros [p [Hp H]]. apply in_flat_map in H. destruct H as [r [Hr H]].
    apply in_right_actions_opt in H. rewrite stored_expr_nonempty, orb_false_r in H. eauto.
  - intros [r [Hr H]]. destruct (left_pieces_nonempty L) as [p Hp]. exists p. split; [exact Hp|].
    apply in_flat_map. exists r. split; [exact Hr|]. apply in_right_actions_opt.
    now rewrite stored_expr_nonempty, orb_false_r.
Qed.

Lemma chain_mains_groups : forall (gs : list group) L G,
  (exists L', In (PMain L' G) (chain_mains L gs)) <-> In G gs.
Proof.
  induction gs as [|g r IH]; intros L G; cbn [chain_mains In].
  - split; [intros [L' []]|tauto].
  - split.
    + intros [L' [[= _ <-]|H]]; [now left|]. right. apply (IH (group_expr g)). eauto.
    + intros [<-|H]; [exists L; now left|]. apply (IH (group_expr g)) in H. destruct H as [L' H]. eauto.
Qed.

Lemma chain_mains_no_auto : forall (gs : list group) L n, ~ In (PAuto n) (chain_mains L gs).
Proof.
  induction gs as [|g r IH]; intros L n; cbn [chain_mains In]; [tauto|].
  intros [H|H]; [discriminate|]. exact (IH _ _ H).
Qed.

Lemma chain_oasserts E c x :
  In x (act_oasserts (flat_map (acts_of E) (chain_descs c))) <-> In x (chain_asserts_E E c).
Proof.
  rewrite in_act_oasserts, in_flat_map. unfold chain_asserts_E, chain_descs.
  rewrite in_app_iff, !in_flat_map. split.
  - intros [d [Hd Hx]]. apply in_app_or in Hd. destruct Hd as [Hd|Hd].
    + apply in_map_iff in Hd. destruct Hd as [n [<- Hn]]. left. exists n. split; [exact Hn|].
      now apply (in_auto_opt E).
    + destruct d as [n|L G].
      * exfalso. exact (chain_mains_no_auto _ _ _ Hd).
      * cbn [acts_of] in Hx. apply in_main_opt in Hx. destruct Hx as [r [Hr Hx]].
        right. exists G. split; [apply (chain_mains_groups _ (ch_head c)); eauto|].
        apply in_flat_map. eauto.
  - intros [[n [Hn Hx]]|[G [HG Hx]]].
    + exists (PAuto n). split; [apply in_or_app; left; now apply in_map|]. now apply in_auto_opt.
    + apply (chain_mains_groups _ (ch_head c)) in HG. destruct HG as [L' HL].
      exists (PMain L' G). split; [apply in_or_app; now right|].
      cbn [acts_of]. apply in_main_opt. apply in_flat_map in Hx. exact Hx.
Qed.

(* ================= triggers and tasks of a chain ================= *)
Lemma chain_trigs_mains : forall (gs : list group) L x,
  In x (chain_trigs L gs) <-> exists L' G, In (PMain L' G) (chain_mains L gs) /\ In x (pair_trigs L' G).
Proof.
  induction gs as [|g r IH]; intros L x; cbn [chain_trigs chain_mains In].
  - split; [tauto|intros [L' [G [[] _]]]].
  - rewrite in_app_iff, (IH (group_expr g)). split.
    + intros [H|[L' [G [H1 H2]]]]; [exists L, g; auto|exists L', G; auto].
    + intros [L' [G [[[= <- <-]|H1] H2]]]; [now left|right; eauto].
Qed.

Lemma in_main_trig E L G n e s :
  (forall r, In r G -> n_off (r_n r) = 0) ->
  In (n, e, s) (act_tasserts (main_actions E L G)) <-> In (n, e, s) (pair_trigs L G).
Proof.
  intros Hoff. rewrite in_act_tasserts. unfold main_actions, pair_trigs. rewrite in_flat_map. split.
  - intros [t [Ht [<- <-]]]. apply in_flat_map in Ht. destruct Ht as [p [Hp Ht]].
    apply in_flat_map in Ht. destruct Ht as [r [Hr Ht]]. apply in_right_actions_trig in Ht.
    destruct Ht as [_ [-> ->]]. exists p. split; [exact Hp|]. apply in_map_iff. exists r. auto.
  - intros [p [Hp H]]. apply in_map_iff in H. destruct H as [r [[= <- <- <-] Hr]].
    exists (mkTrig (stored_expr p) (left_atoms p) (r_s r)). split; [|auto].
    apply in_flat_map. exists p. split; [exact Hp|]. apply in_flat_map. exists r. split; [exact Hr|].
    apply in_right_actions_trig. auto.
Qed.

Definition groups_off0 (gs : list group) : Prop := forall g r, In g gs -> In r g -> n_off (r_n r) = 0.

Lemma groups_ok_off0 gs : groups_ok gs = true -> groups_off0 gs.
Proof.
  induction gs as [|g rest IH]; intros Hok g' r Hg Hr; [destruct Hg|].
  cbn [groups_ok] in Hok. apply andb_true_iff in Hok. destruct Hok as [Hok Hrest].
  apply andb_true_iff in Hok. destruct Hok as [Hok _]. apply andb_true_iff in Hok. destruct Hok as [_ Hg0].
  destruct Hg as [<-|Hg]; [|exact (IH Hrest g' r Hg Hr)].
  rewrite forallb_forall in Hg0. specialize (Hg0 r Hr). unfold rnode_ok in Hg0.
  apply andb_true_iff in Hg0. destruct Hg0 as [Hg0 _]. apply andb_true_iff in Hg0. destruct Hg0 as [H0 _].
  now apply Nat.eqb_eq.
Qed.

Lemma chain_tasserts E c n e s :
  groups_off0 (ch_groups c) -> e <> [] ->
  (In (n, e, s) (act_tasserts (flat_map (acts_of E) (chain_descs c)))
   <-> In (n, e, s) (chain_trigs (ch_head c) (ch_groups c))).
Proof.
  intros Hoff He. rewrite chain_trigs_mains. rewrite in_act_tasserts. split.
  - intros [t [Ht [He' Hs]]]. apply in_flat_map in Ht. destruct Ht as [d [Hd Ht]].
    unfold chain_descs in Hd. apply in_app_or in Hd. destruct Hd as [Hd|Hd].
    + apply in_map_iff in Hd. destruct Hd as [m [<- _]]. cbn [acts_of] in Ht. unfold auto_actions in Ht.
      apply in_right_actions_trig in Ht. destruct Ht as [_ [_ ->]]. cbn in He'. congruence.
    + destruct d as [m|L G]; [exfalso; exact (chain_mains_no_auto _ _ _ Hd)|].
      exists L, G. split; [exact Hd|]. apply (in_main_trig E).
      * intros r Hr. apply (Hoff G r); [|exact Hr]. apply (chain_mains_groups _ (ch_head c)). eauto.
      * apply in_act_tasserts. eauto.
  - intros [L [G [Hd H]]]. apply (in_main_trig E) in H.
    + apply in_act_tasserts in H. destruct H as [t [Ht R]]. exists t. split; [|exact R].
      apply in_flat_map. exists (PMain L G). split; [apply in_or_app; now right|exact Ht].
    + intros r Hr. apply (Hoff G r); [|exact Hr]. apply (chain_mains_groups _ (ch_head c)). eauto.
Qed.

Lemma chain_tasks_acts E c n :
  groups_off0 (ch_groups c) ->
  (In n (act_tasks (flat_map (acts_of E) (chain_descs c))) <-> In n (chain_tasks c)).
Proof.
  intros Hoff. rewrite in_act_tasks. unfold chain_tasks. rewrite in_app_iff. split.
  - intros [t Ht]. apply in_flat_map in Ht. destruct Ht as [d [Hd Ht]].
    unfold chain_descs in Hd. apply in_app_or in Hd. destruct Hd as [Hd|Hd].
    + apply in_map_iff in Hd. destruct Hd as [m [<- Hm]]. cbn [acts_of] in Ht. unfold auto_actions in Ht.
      apply in_right_actions_trig in Ht. cbn [r_n] in Ht. destruct Ht as [H0 [-> _]].
      left. apply in_map. apply filter_In. split; [exact Hm|now apply Nat.eqb_eq].
    + destruct d as [m|L G]; [exfalso; exact (chain_mains_no_auto _ _ _ Hd)|].
      cbn [acts_of] in Ht. unfold main_actions in Ht. apply in_flat_map in Ht. destruct Ht as [p [_ Ht]].
      apply in_flat_map in Ht. destruct Ht as [r [Hr Ht]]. apply in_right_actions_trig in Ht.
      destruct Ht as [_ [-> _]]. right. apply in_flat_map. exists G.
      split; [apply (chain_mains_groups _ (ch_head c)); eauto|].
      apply (in_map (fun r => n_name (r_n r))). exact Hr.
  - intros [H|H].
    + apply in_map_iff in H. destruct H as [m [<- Hm]]. apply filter_In in Hm. destruct Hm as [Hm H0].
      apply Nat.eqb_eq in H0. exists (mkTrig [] [] false).
      apply in_flat_map. exists (PAuto m). split; [apply in_or_app; left; now apply in_map|].
      cbn [acts_of]. unfold auto_actions. apply in_right_actions_trig. auto.
    + apply in_flat_map in H. destruct H as [G [HG H]]. apply in_map_iff in H. destruct H as [r [<- Hr]].
      pose proof HG as HG'. apply (chain_mains_groups _ (ch_head c)) in HG'. destruct HG' as [L HL].
      destruct (left_pieces_nonempty L) as [p Hp].
      exists (mkTrig (stored_expr p) (left_atoms p) (r_s r)).
      apply in_flat_map. exists (PMain L G). split; [apply in_or_app; now right|].
      cbn [acts_of]. unfold main_actions. apply in_flat_map. exists p. split; [exact Hp|].
      apply in_flat_map. exists r. split; [exact Hr|]. apply in_right_actions_trig.
      split; [exact (Hoff G r HG Hr)|auto].
Qed.

(* ================= chains vs pairs: cutting a chain into lines ================= *)
Inductive cut_of : lexpr -> list group -> list chain -> Prop :=
| cut_done h gs : cut_of h gs [mkChain h gs]
| cut_at h gs1 gi gs2 rest :
    gs2 <> [] -> cut_of (group_expr gi) gs2 rest ->
    cut_of h (gs1 ++ gi :: gs2) (mkChain h (gs1 ++ [gi]) :: rest).

(* a presentation of g as lines: every chain cut somewhere (or not at all), the
   lines in any order, any line repeated any number of times *)
Definition presents (g ls : graph) : Prop :=
  exists parts, Forall2 (fun c p => cut_of (ch_head c) (ch_groups c) p) g parts
                /\ (forall c, In c ls <-> In c (List.concat parts)).

Lemma cut_of_first h gs lines : cut_of h gs lines -> exists l rest, lines = l :: rest /\ ch_head l = h.
Proof. intros H. destruct H; eauto. Qed.

Definition head_ok (h : lexpr) : bool :=
  wf_lvl 0 h && forallb (fun n => node_accepted [] n && node_fin_ok n) (nodes_e h).

Definition inner_ok (g : group) : bool := forallb (fun x => negb (r_s x) && node_fin_ok (r_n x)) g.

Lemma groups_ok_app gs1 gi gs2 : gs2 <> [] -> groups_ok (gs1 ++ gi :: gs2) = true ->
  groups_ok (gs1 ++ [gi]) = true /\ groups_ok gs2 = true /\ inner_ok gi = true
  /\ gi <> [] /\ forallb rnode_ok gi = true.
Proof.
  intros Hne. induction gs1 as [|g r IH]; cbn [app groups_ok]; intros H.
  - apply andb_true_iff in H. destruct H as [H Hr]. apply andb_true_iff in H. destruct H as [H Hmid].
    apply andb_true_iff in H. destruct H as [Hn Hg]. destruct gs2; [congruence|]. cbn [is_nil orb] in Hmid.
    rewrite Hn, Hg. cbn. repeat split; auto. destruct gi; [discriminate|discriminate].
  - apply andb_true_iff in H. destruct H as [H Hr]. apply andb_true_iff in H. destruct H as [H Hmid].
    apply andb_true_iff in H. destruct H as [Hn Hg].
    destruct (IH Hr) as [H1 [H2 [H3 [H4 H5]]]]. rewrite Hn, Hg, H1. cbn [andb].
    assert (Hm : (is_nil (r ++ [gi]) || inner_ok g) = true).
    { destruct (r ++ gi :: gs2) eqn:E; [destruct r; discriminate|]. cbn [is_nil orb] in Hmid.
      unfold inner_ok. rewrite Hmid. apply orb_true_r. }
    unfold inner_ok in Hm. rewrite Hm. auto.
Qed.

Lemma group_expr_head_ok gi : gi <> [] -> inner_ok gi = true -> forallb rnode_ok gi = true ->
  head_ok (group_expr gi) = true.
Proof.
  intros Hne Hin Hok. unfold head_ok. apply andb_true_iff. split.
  - unfold group_expr. apply big_op_wf.
    + destruct gi; [congruence|discriminate].
    + intros x Hx. apply in_map_iff in Hx. destruct Hx as [r [<- _]]. reflexivity.
  - rewrite nodes_group_expr by exact Hne. apply forallb_forall. intros n Hn.
    apply in_map_iff in Hn. destruct Hn as [r [<- Hr]].
    unfold inner_ok in Hin. rewrite forallb_forall in Hin, Hok. specialize (Hin r Hr). specialize (Hok r Hr).
    apply andb_true_iff in Hin. destruct Hin as [_ Hf]. unfold rnode_ok in Hok.
    apply andb_true_iff in Hok. destruct Hok as [Hok _]. apply andb_true_iff in Hok. destruct Hok as [_ Ha].
    now rewrite Ha, Hf.
Qed.

Lemma chain_ok_split h gs : chain_ok (mkChain h gs) = (head_ok h && groups_ok gs).
Proof. unfold chain_ok, head_ok. cbn. reflexivity. Qed.

(* (C1) every line of a cut well-formed chain is well formed *)
Lemma cut_chain_ok h gs lines : cut_of h gs lines ->
  head_ok h = true -> groups_ok gs = true -> forall l, In l lines -> chain_ok l = true.
Proof.
  induction 1 as [h gs|h gs1 gi gs2 rest Hne Hcut IH]; intros Hh Hg l Hl.
  - destruct Hl as [<-|[]]. now rewrite chain_ok_split, Hh, Hg.
  - destruct (groups_ok_app gs1 gi gs2 Hne Hg) as [H1 [H2 [H3 [H4 H5]]]].
    destruct Hl as [<-|Hl]; [now rewrite chain_ok_split, Hh, H1|].
    apply IH; auto. now apply group_expr_head_ok.
Qed.

(* (C2) triggers *)
Lemma chain_trigs_app : forall gs1 h gi gs2,
  chain_trigs h (gs1 ++ gi :: gs2) = chain_trigs h (gs1 ++ [gi]) ++ chain_trigs (group_expr gi) gs2.
Proof.
  induction gs1 as [|g r IH]; intros h gi gs2; cbn [app chain_trigs].
  - now rewrite app_nil_r.
  - rewrite IH. now rewrite app_assoc.
Qed.

Lemma cut_trigs h gs lines : cut_of h gs lines ->
  flat_map (fun c => chain_trigs (ch_head c) (ch_groups c)) lines = chain_trigs h gs.
Proof.
  induction 1 as [h gs|h gs1 gi gs2 rest Hne Hcut IH]; cbn [flat_map ch_head ch_groups].
  - now rewrite app_nil_r.
  - rewrite IH. symmetry. apply chain_trigs_app.
Qed.

(* (C3) tasks *)
Lemma in_chain_tasks c n :
  In n (chain_tasks c)
  <-> ((exists x, In x (nodes_e (ch_head c)) /\ n_off x = 0 /\ n = n_name x)
       \/ (exists g r, In g (ch_groups c) /\ In r g /\ n = n_name (r_n r))).
Proof.
  unfold chain_tasks. rewrite in_app_iff, in_map_iff, in_flat_map. split.
  - intros [[x [<- Hx]]|[g [Hg Hn]]].
    + apply filter_In in Hx. destruct Hx as [Hx H0]. apply Nat.eqb_eq in H0. left. eauto.
    + apply in_map_iff in Hn. destruct Hn as [r [<- Hr]]. right. eauto.
  - intros [[x [Hx [H0 ->]]]|[g [r [Hg [Hr ->]]]]].
    + left. exists x. split; [reflexivity|]. apply filter_In. split; [exact Hx|now apply Nat.eqb_eq].
    + right. exists g. split; [exact Hg|]. apply (in_map (fun r => n_name (r_n r))). exact Hr.
Qed.

Lemma cut_tasks h gs lines : cut_of h gs lines -> groups_ok gs = true ->
  forall n, (exists l, In l lines /\ In n (chain_tasks l)) <-> In n (chain_tasks (mkChain h gs)).
Proof.
  induction 1 as [h gs|h gs1 gi gs2 rest Hne Hcut IH]; intros Hg n.
  - split; [intros [l [[<-|[]] H]]; exact H|intros H; exists (mkChain h gs); split; [now left|exact H]].
  - destruct (groups_ok_app gs1 gi gs2 Hne Hg) as [H1 [H2 [H3 [H4 H5]]]].
    specialize (IH H2 n). rewrite in_chain_tasks in IH. cbn [ch_head ch_groups] in IH.
    rewrite in_chain_tasks. cbn [ch_head ch_groups].
    assert (Hoff : forall r, In r gi -> n_off (r_n r) = 0).
    { intros r Hr. rewrite forallb_forall in H5. specialize (H5 r Hr). unfold rnode_ok in H5.
      apply andb_true_iff in H5. destruct H5 as [H5 _]. apply andb_true_iff in H5. destruct H5 as [H5 _].
      now apply Nat.eqb_eq. }
    split.
    + intros [l [[<-|Hl] H]].
      * rewrite in_chain_tasks in H. cbn [ch_head ch_groups] in H.
        destruct H as [H|[g [r [Hgm [Hr ->]]]]]; [now left|]. right. exists g, r.
        split; [|auto]. apply in_app_or in Hgm. apply in_or_app.
        destruct Hgm as [Hgm|[<-|[]]]; [now left|right; now left].
      * assert (Hx : exists l, In l rest /\ In n (chain_tasks l)) by eauto.
        apply IH in Hx. destruct Hx as [[x [Hx [_ ->]]]|[g [r [Hgm [Hr ->]]]]].
        -- rewrite nodes_group_expr in Hx by exact H4. apply in_map_iff in Hx. destruct Hx as [r [<- Hr]].
           right. exists gi, r. split; [apply in_or_app; right; now left|auto].
        -- right. exists g, r. split; [apply in_or_app; right; now right|auto].
    + intros [H|[g [r [Hgm [Hr ->]]]]].
      * exists (mkChain h (gs1 ++ [gi])). split; [now left|]. rewrite in_chain_tasks. now left.
      * apply in_app_or in Hgm. destruct Hgm as [Hgm|[<-|Hgm]].
        -- exists (mkChain h (gs1 ++ [gi])). split; [now left|]. rewrite in_chain_tasks. right.
           exists g, r. split; [apply in_or_app; now left|auto].
        -- exists (mkChain h (gs1 ++ [gi])). split; [now left|]. rewrite in_chain_tasks. right.
           exists gi, r. split; [apply in_or_app; right; now left|auto].
        -- assert (Hx : (exists x, In x (nodes_e (group_expr gi)) /\ n_off x = 0 /\ n_name (r_n r) = n_name x)
                        \/ (exists g0 r0, In g0 gs2 /\ In r0 g0 /\ n_name (r_n r) = n_name (r_n r0)))
             by (right; eauto).
           apply IH in Hx. destruct Hx as [l [Hl Hx]]. exists l. split; [now right|exact Hx].
Qed.

(* (C4) optionality assertions *)
Lemma groups_asserts_app : forall gs1 gs2, gs2 <> [] ->
  groups_asserts (gs1 ++ gs2) = flat_map (flat_map (rnode_asserts true)) gs1 ++ groups_asserts gs2.
Proof.
  induction gs1 as [|g r IH]; intros gs2 Hne; [reflexivity|].
  cbn [app groups_asserts flat_map]. rewrite (IH gs2 Hne), <- app_assoc.
  destruct (r ++ gs2) eqn:E; [apply app_eq_nil in E; destruct E; congruence|reflexivity].
Qed.

Lemma groups_asserts_snoc gs gl :
  groups_asserts (gs ++ [gl]) = flat_map (flat_map (rnode_asserts true)) gs ++ flat_map (rnode_asserts false) gl.
Proof. rewrite groups_asserts_app by discriminate. cbn. now rewrite app_nil_r. Qed.

Lemma rnode_asserts_mono b r a : In a (rnode_asserts b r) -> In a (rnode_asserts true r).
Proof.
  unfold rnode_asserts. destruct (r_s r); [tauto|]. destruct (n_qual (r_n r)); [tauto|].
  destruct (n_opt (r_n r)); [tauto|]. destruct b; [tauto|intros []].
Qed.

Lemma rnode_asserts_true_cases r a : In a (rnode_asserts true r) ->
  In a (rnode_asserts false r)
  \/ (r_s r = false /\ plain (r_n r) = true /\ a = (n_name (r_n r), TASK_OUTPUT_SUCCEEDED, false)).
Proof.
  unfold rnode_asserts, plain. destruct (r_s r); [tauto|]. destruct (n_qual (r_n r)); [tauto|].
  destruct (n_opt (r_n r)); [tauto|]. intros [<-|[]]. right. auto.
Qed.

Lemma rnode_asserts_E_cases E r a : In a (rnode_asserts true r) ->
  In a (rnode_asserts_E E r)
  \/ (r_s r = false /\ plain (r_n r) = true /\ mem toks_eqb [TN (r_n r)] E = true
      /\ a = (n_name (r_n r), TASK_OUTPUT_SUCCEEDED, false)).
Proof.
  intros H. unfold rnode_asserts_E. destruct (mem toks_eqb (print_r r) E) eqn:Em; cbn [negb]; [|now left].
  destruct (rnode_asserts_true_cases r a H) as [H1|[H1 [H2 H3]]]; [now left|].
  right. unfold print_r in Em. rewrite H1 in Em. auto.
Qed.

Lemma head_asserts_group_expr gi : gi <> [] -> inner_ok gi = true ->
  flat_map head_node_asserts (nodes_e (group_expr gi)) = flat_map (rnode_asserts true) gi.
Proof.
  intros Hne Hin. rewrite nodes_group_expr by exact Hne. rewrite flat_map_map.
  apply flat_map_ext_in. intros r Hr. rewrite <- head_asserts_auto.
  unfold inner_ok in Hin. rewrite forallb_forall in Hin. specialize (Hin r Hr).
  apply andb_true_iff in Hin. destruct Hin as [Hs _]. apply negb_true_iff in Hs.
  destruct r as [s n]. cbn in Hs. now subst s.
Qed.

Lemma final_pieces_snoc h gs gl : final_pieces (mkChain h (gs ++ [gl])) = map print_r gl.
Proof. unfold final_pieces. cbn [ch_groups]. now rewrite rev_app_distr. Qed.

Lemma final_pieces_app h gs1 gs2 h' : gs2 <> [] ->
  final_pieces (mkChain h (gs1 ++ gs2)) = final_pieces (mkChain h' gs2).
Proof.
  intros Hne. unfold final_pieces. cbn [ch_groups]. rewrite rev_app_distr.
  destruct (rev gs2) eqn:E; [|reflexivity].
  apply (f_equal (@rev group)) in E. rewrite rev_involutive in E. cbn in E. congruence.
Qed.

Lemma exists_last_or_nil {A} (l : list A) : l = [] \/ exists l' x, l = l' ++ [x].
Proof. destruct l as [|a r]; [now left|]. right. destruct (exists_last (l := a :: r)) as [l' [x E]]; [discriminate|eauto]. Qed.

(* one uncut line: its E-assertions against the reference *)
Lemma line_groups_sub E : forall gs,
  (forall x, In x (final_pieces (mkChain (LN (mkNode 0 0 None false)) gs)) -> gs <> [] -> mem toks_eqb x E = true) ->
  forall a, In a (flat_map (flat_map (rnode_asserts_E E)) gs) -> In a (groups_asserts gs).
Proof.
  intros gs. destruct (exists_last_or_nil gs) as [->|[inner [gl ->]]]; [intros _ a []|].
  intros HE a Ha. rewrite groups_asserts_snoc. rewrite flat_map_app in Ha. apply in_app_or in Ha.
  apply in_or_app. destruct Ha as [Ha|Ha].
  - left. apply in_flat_map in Ha. destruct Ha as [g [Hg Ha]]. apply in_flat_map in Ha. destruct Ha as [r [Hr Ha]].
    apply in_flat_map. exists g. split; [exact Hg|]. apply in_flat_map. exists r. split; [exact Hr|].
    eapply rnode_asserts_mono; eauto.
  - right. cbn [flat_map] in Ha. rewrite app_nil_r in Ha. apply in_flat_map in Ha. destruct Ha as [r [Hr Ha]].
    apply in_flat_map. exists r. split; [exact Hr|]. unfold rnode_asserts_E in Ha.
    rewrite (HE (print_r r)) in Ha; [exact Ha| |destruct inner; discriminate].
    rewrite final_pieces_snoc. now apply in_map.
Qed.

Definition ref_chain (h : lexpr) (gs : list group) : list oassert :=
  flat_map head_node_asserts (nodes_e h) ++ groups_asserts gs.

Lemma inner_groups_removelast gs : inner_groups gs = removelast gs.
Proof. induction gs as [|g r IH]; [reflexivity|]. destruct r; [reflexivity|]. cbn [inner_groups removelast] in *. now rewrite IH. Qed.

Lemma in_groups_E E (gs : list group) g r a :
  In g gs -> In r g -> In a (rnode_asserts_E E r) -> In a (flat_map (flat_map (rnode_asserts_E E)) gs).
Proof. intros Hg Hr Ha. apply in_flat_map. exists g. split; [exact Hg|]. apply in_flat_map. eauto. Qed.

Lemma cut_asserts_sub E h gs lines : cut_of h gs lines -> groups_ok gs = true ->
  (forall l x, In l lines -> ch_groups l <> [] -> In x (final_pieces l) -> mem toks_eqb x E = true) ->
  forall l a, In l lines -> In a (chain_asserts_E E l) -> In a (ref_chain h gs).
Proof.
  induction 1 as [h gs|h gs1 gi gs2 rest Hne Hcut IH]; intros Hg HE l a Hl Ha.
  - destruct Hl as [<-|[]]. unfold chain_asserts_E in Ha. cbn [ch_head ch_groups] in Ha.
    apply in_app_or in Ha. apply in_or_app. destruct Ha as [Ha|Ha]; [now left|right].
    apply (line_groups_sub E gs); [|exact Ha].
    intros x Hx Hgs. apply (HE (mkChain h gs) x); [now left|exact Hgs|].
    pose proof (final_pieces_app h [] gs (LN (mkNode 0 0 None false)) Hgs) as Hf. cbn [app] in Hf.
    rewrite Hf. exact Hx.
  - destruct (groups_ok_app gs1 gi gs2 Hne Hg) as [H1 [H2 [H3 [H4 H5]]]].
    unfold ref_chain. rewrite groups_asserts_app by discriminate.
    cbn [groups_asserts]. destruct gs2 as [|g2 gs2']; [congruence|]. cbn [is_nil negb].
    destruct Hl as [<-|Hl].
    + unfold chain_asserts_E in Ha. cbn [ch_head ch_groups] in Ha.
      apply in_app_or in Ha. destruct Ha as [Ha|Ha]; [apply in_or_app; now left|].
      apply in_or_app. right. rewrite flat_map_app in Ha. apply in_app_or in Ha. destruct Ha as [Ha|Ha].
      * apply in_or_app. left. apply in_flat_map in Ha. destruct Ha as [g [Hgm Ha]].
        apply in_flat_map in Ha. destruct Ha as [r [Hr Ha]].
        apply in_flat_map. exists g. split; [exact Hgm|]. apply in_flat_map. exists r. split; [exact Hr|].
        eapply rnode_asserts_mono; eauto.
      * apply in_or_app. right. apply in_or_app. left. cbn [flat_map] in Ha. rewrite app_nil_r in Ha.
        apply in_flat_map in Ha. destruct Ha as [r [Hr Ha]]. apply in_flat_map. exists r. split; [exact Hr|].
        eapply rnode_asserts_mono; eauto.
    + assert (Hx : In a (ref_chain (group_expr gi) (g2 :: gs2'))).
      { apply (IH H2) with (l := l); auto. intros l' x Hl' Hn' Hx. apply (HE l' x); auto. now right. }
      unfold ref_chain in Hx. rewrite (head_asserts_group_expr gi H4 H3) in Hx.
      apply in_or_app. right. apply in_or_app. right. exact Hx.
Qed.

Lemma line_groups_sup E : forall gs,
  (forall x, In x (final_pieces (mkChain (LN (mkNode 0 0 None false)) gs)) -> gs <> [] -> mem toks_eqb x E = true) ->
  forall a, In a (groups_asserts gs) ->
  In a (flat_map (flat_map (rnode_asserts_E E)) gs)
  \/ (exists g r, In g (inner_groups gs) /\ In r g /\ r_s r = false /\ plain (r_n r) = true
        /\ mem toks_eqb [TN (r_n r)] E = true /\ a = (n_name (r_n r), TASK_OUTPUT_SUCCEEDED, false)).
Proof.
  intros gs. destruct (exists_last_or_nil gs) as [->|[inner [gl ->]]]; [intros _ a []|].
  intros HE a Ha. rewrite groups_asserts_snoc in Ha. apply in_app_or in Ha.
  rewrite inner_groups_removelast, removelast_last.
  destruct Ha as [Ha|Ha].
  - apply in_flat_map in Ha. destruct Ha as [g [Hg Ha]]. apply in_flat_map in Ha. destruct Ha as [r [Hr Ha]].
    destruct (rnode_asserts_E_cases E r a Ha) as [H|[H1 [H2 [H3 H4]]]].
    + left. apply (in_groups_E E _ g r); auto. apply in_or_app. now left.
    + right. exists g, r. auto 8.
  - left. apply in_flat_map in Ha. destruct Ha as [r [Hr Ha]].
    apply (in_groups_E E _ gl r); [apply in_or_app; right; now left|exact Hr|].
    unfold rnode_asserts_E. rewrite (HE (print_r r)); [exact Ha| |destruct inner; discriminate].
    rewrite final_pieces_snoc. now apply in_map.
Qed.

Lemma cut_asserts_sup E h gs lines : cut_of h gs lines -> groups_ok gs = true ->
  (forall l x, In l lines -> ch_groups l <> [] -> In x (final_pieces l) -> mem toks_eqb x E = true) ->
  forall a, In a (ref_chain h gs) ->
  (exists l, In l lines /\ In a (chain_asserts_E E l))
  \/ (exists g r, In g (inner_groups gs) /\ In r g /\ r_s r = false /\ plain (r_n r) = true
        /\ mem toks_eqb [TN (r_n r)] E = true /\ a = (n_name (r_n r), TASK_OUTPUT_SUCCEEDED, false)).
Proof.
  induction 1 as [h gs|h gs1 gi gs2 rest Hne Hcut IH]; intros Hg HE a Ha.
  - unfold ref_chain in Ha. apply in_app_or in Ha. destruct Ha as [Ha|Ha].
    + left. exists (mkChain h gs). split; [now left|]. unfold chain_asserts_E. apply in_or_app. now left.
    + destruct (line_groups_sup E gs) with (a := a) as [H|H]; auto.
      * intros x Hx Hgs. apply (HE (mkChain h gs) x); [now left|exact Hgs|].
        pose proof (final_pieces_app h [] gs (LN (mkNode 0 0 None false)) Hgs) as Hf. cbn [app] in Hf.
    rewrite Hf. exact Hx.
      * left. exists (mkChain h gs). split; [now left|]. unfold chain_asserts_E. apply in_or_app. now right.
  - destruct (groups_ok_app gs1 gi gs2 Hne Hg) as [H1 [H2 [H3 [H4 H5]]]].
    unfold ref_chain in Ha. rewrite groups_asserts_app in Ha by discriminate.
    assert (Hn : is_nil gs2 = false) by (destruct gs2; [congruence|reflexivity]).
    cbn [groups_asserts] in Ha. rewrite Hn in Ha. cbn [negb] in Ha.
    apply in_app_or in Ha. destruct Ha as [Ha|Ha].
    + left. exists (mkChain h (gs1 ++ [gi])). split; [now left|]. unfold chain_asserts_E. apply in_or_app. now left.
    + apply in_app_or in Ha. destruct Ha as [Ha|Ha].
      * apply in_flat_map in Ha. destruct Ha as [g [Hgm Ha]]. apply in_flat_map in Ha. destruct Ha as [r [Hr Ha]].
        destruct (rnode_asserts_E_cases E r a Ha) as [H|[Ha1 [Ha2 [Ha3 Ha4]]]].
        -- left. exists (mkChain h (gs1 ++ [gi])). split; [now left|]. unfold chain_asserts_E.
           apply in_or_app. right. cbn [ch_groups]. apply (in_groups_E E _ g r); auto. apply in_or_app. now left.
        -- right. exists g, r. split; [|auto 6]. rewrite inner_groups_removelast.
           rewrite removelast_app by discriminate. apply in_or_app. now left.
      * assert (Hx : In a (ref_chain (group_expr gi) gs2)).
        { unfold ref_chain. rewrite (head_asserts_group_expr gi H4 H3). exact Ha. }
        destruct (IH H2) with (a := a) as [[l [Hl Hla]]|[g [r [Hgi R]]]]; auto.
        -- intros l' x Hl' Hn' Hx'. apply (HE l' x); auto. now right.
        -- left. exists l. split; [now right|exact Hla].
        -- right. exists g, r. split; [|exact R]. rewrite inner_groups_removelast in *.
           rewrite removelast_app by discriminate. apply in_or_app. right.
           destruct gs2; [congruence|]. cbn [removelast]. destruct gs2; [destruct Hgi|]. now right.
Qed.

(* (C5) what ends the lines of a cut chain *)
Lemma cut_final h gs lines : cut_of h gs lines -> groups_ok gs = true ->
  forall l x, In l lines -> In x (final_pieces l) ->
  In x (final_pieces (mkChain h gs))
  \/ (exists l2 m, In l2 lines /\ x = [TN m] /\ In m (nodes_e (ch_head l2))).
Proof.
  induction 1 as [h gs|h gs1 gi gs2 rest Hne Hcut IH]; intros Hg l x Hl Hx.
  - destruct Hl as [<-|[]]. now left.
  - destruct (groups_ok_app gs1 gi gs2 Hne Hg) as [H1 [H2 [H3 [H4 H5]]]].
    destruct Hl as [<-|Hl].
    + right. rewrite final_pieces_snoc in Hx. apply in_map_iff in Hx. destruct Hx as [r [<- Hr]].
      destruct (cut_of_first _ _ _ Hcut) as [l2 [rest' [-> Hh]]].
      exists l2, (r_n r). split; [right; now left|]. split.
      * unfold inner_ok in H3. rewrite forallb_forall in H3. specialize (H3 r Hr).
        apply andb_true_iff in H3. destruct H3 as [Hs _]. apply negb_true_iff in Hs.
        unfold print_r. now rewrite Hs.
      * rewrite Hh, nodes_group_expr by exact H4. now apply in_map.
    + destruct (IH H2 l x Hl Hx) as [H|[l2 [m [Hl2 R]]]].
      * left. rewrite (final_pieces_app h (gs1 ++ [gi]) gs2 (group_expr gi) Hne) in H || idtac.
        replace (gs1 ++ gi :: gs2) with ((gs1 ++ [gi]) ++ gs2) by (now rewrite <- app_assoc).
        now rewrite (final_pieces_app h (gs1 ++ [gi]) gs2 (group_expr gi) Hne).
      * right. exists l2, m. split; [now right|exact R].
Qed.

Lemma head_asserts_plain n : plain n = true ->
  head_node_asserts n = [(n_name n, TASK_OUTPUT_SUCCEEDED, false)].
Proof.
  unfold plain, head_node_asserts, task_out, expand_assert. destruct (n_qual n); [discriminate|].
  intros H. apply negb_true_iff in H. now rewrite H, succeeded_not_finished.
Qed.

Lemma Forall2_in_l {A B} (R : A -> B -> Prop) l1 l2 a :
  Forall2 R l1 l2 -> In a l1 -> exists b, In b l2 /\ R a b.
Proof.
  induction 1 as [|x y l1' l2' Hxy HF IH]; intros Hin; [destruct Hin|].
  destruct Hin as [<-|Hin]; [exists y; split; [now left|exact Hxy]|].
  destruct (IH Hin) as [b [Hb HR]]. exists b. split; [now right|exact HR].
Qed.
Lemma Forall2_in_r {A B} (R : A -> B -> Prop) l1 l2 b :
  Forall2 R l1 l2 -> In b l2 -> exists a, In a l1 /\ R a b.
Proof.
  induction 1 as [|x y l1' l2' Hxy HF IH]; intros Hin; [destruct Hin|].
  destruct Hin as [<-|Hin]; [exists x; split; [now left|exact Hxy]|].
  destruct (IH Hin) as [a [Ha HR]]. exists a. split; [now right|exact HR].
Qed.

Lemma chain_ok_parts c : chain_ok c = true -> head_ok (ch_head c) = true /\ groups_ok (ch_groups c) = true.
Proof. destruct c. rewrite chain_ok_split. intros H. now apply andb_true_iff in H. Qed.

(* every line of a presentation is a well-formed chain *)
Lemma presents_lines_ok g ls : (forall c, In c g -> chain_ok c = true) -> presents g ls ->
  forall l, In l ls -> chain_ok l = true.
Proof.
  intros Hok [parts [HF Hin]] l Hl. apply Hin in Hl. apply in_concat in Hl. destruct Hl as [p [Hp Hl]].
  destruct (Forall2_in_r _ _ _ _ HF Hp) as [c [Hc Hcut]].
  destruct (chain_ok_parts c (Hok c Hc)). eapply cut_chain_ok; eauto.
Qed.

(* optionality: the lines' assertions (with the code's end-of-chain rule) are the graph's *)
Lemma presents_asserts g ls E :
  (forall c, In c g -> chain_ok c = true) -> eoc_safe g = true -> presents g ls ->
  (forall x, mem toks_eqb x E = true <-> exists l, In l ls /\ In x (final_pieces l)) ->
  forall a, (exists l, In l ls /\ In a (chain_asserts_E E l)) <-> In a (graph_asserts g).
Proof.
  intros Hok Hsafe [parts [HF Hin]] HE a.
  assert (HEp : forall p, In p parts -> forall l x, In l p -> ch_groups l <> [] -> In x (final_pieces l) ->
                  mem toks_eqb x E = true).
  { intros p Hp l x Hl _ Hx. apply HE. exists l. split; [|exact Hx]. apply Hin. apply in_concat. eauto. }
  unfold graph_asserts. rewrite in_flat_map. split.
  - intros [l [Hl Ha]]. apply Hin in Hl. apply in_concat in Hl. destruct Hl as [p [Hp Hl]].
    destruct (Forall2_in_r _ _ _ _ HF Hp) as [c [Hc Hcut]]. exists c. split; [exact Hc|].
    destruct (chain_ok_parts c (Hok c Hc)) as [_ Hg].
    exact (cut_asserts_sub E _ _ _ Hcut Hg (HEp p Hp) l a Hl Ha).
  - intros [c [Hc Ha]]. destruct (Forall2_in_l _ _ _ _ HF Hc) as [p [Hp Hcut]].
    destruct (chain_ok_parts c (Hok c Hc)) as [_ Hg].
    destruct (cut_asserts_sup E _ _ _ Hcut Hg (HEp p Hp) a Ha) as [[l [Hl Hla]]|[g0 [r [Hg0 [Hr [Hs [Hpl [Hm ->]]]]]]]].
    + exists l. split; [|exact Hla]. apply Hin. apply in_concat. eauto.
    + (* the inferred ":succeeded" of a plain inner node whose text ends some line *)
      assert (Hhead : exists l2, In l2 ls /\ In (r_n r) (nodes_e (ch_head l2))).
      { apply HE in Hm. destruct Hm as [l' [Hl' Hx]]. apply Hin in Hl'. apply in_concat in Hl'.
        destruct Hl' as [p' [Hp' Hl']]. destruct (Forall2_in_r _ _ _ _ HF Hp') as [c' [Hc' Hcut']].
        destruct (chain_ok_parts c' (Hok c' Hc')) as [_ Hg'].
        destruct (cut_final _ _ _ Hcut' Hg' l' _ Hl' Hx) as [Hf|[l2 [m [Hl2 [[= <-] Hm2]]]]].
        - (* ends an original chain: eoc_safe makes it a head node of g *)
          unfold eoc_safe in Hsafe. rewrite forallb_forall in Hsafe.
          assert (Hi : In (r_n r) (inner_plain_nodes g)).
          { unfold inner_plain_nodes. apply in_flat_map. exists c. split; [exact Hc|].
            apply in_flat_map. exists g0. split; [exact Hg0|]. apply in_map. apply filter_In.
            split; [exact Hr|]. now rewrite Hs, Hpl. }
          specialize (Hsafe _ Hi). apply orb_true_iff in Hsafe. destruct Hsafe as [Hsafe|Hsafe].
          + apply negb_true_iff in Hsafe. exfalso.
            assert (Hmem : mem toks_eqb [TN (r_n r)] (flat_map final_pieces g) = true).
            { apply (mem_spec toks_eqb toks_eqb_true). apply in_flat_map. exists c'. destruct c'. auto. }
            congruence.
          + apply (mem_spec node_eqb node_eqb_true) in Hsafe. apply in_flat_map in Hsafe.
            destruct Hsafe as [c2 [Hc2 Hn2]]. destruct (Forall2_in_l _ _ _ _ HF Hc2) as [p2 [Hp2 Hcut2]].
            destruct (cut_of_first _ _ _ Hcut2) as [l2 [rest2 [-> Hh2]]].
            exists l2. split; [apply Hin; apply in_concat; exists (l2 :: rest2); split; [exact Hp2|now left]|].
            now rewrite Hh2.
        - exists l2. split; [apply Hin; apply in_concat; eauto|exact Hm2]. }
      destruct Hhead as [l2 [Hl2 Hn2]]. exists l2. split; [exact Hl2|].
      unfold chain_asserts_E. apply in_or_app. left. apply in_flat_map. exists (r_n r). split; [exact Hn2|].
      rewrite (head_asserts_plain _ Hpl). now left.
Qed.

Lemma presents_trigs g ls : presents g ls ->
  forall x, (exists l, In l ls /\ In x (chain_trigs (ch_head l) (ch_groups l))) <-> In x (graph_trigs g).
Proof.
  intros [parts [HF Hin]] x. unfold graph_trigs. rewrite in_flat_map. split.
  - intros [l [Hl Hx]]. apply Hin in Hl. apply in_concat in Hl. destruct Hl as [p [Hp Hl]].
    destruct (Forall2_in_r _ _ _ _ HF Hp) as [c [Hc Hcut]]. exists c. split; [exact Hc|].
    rewrite <- (cut_trigs _ _ _ Hcut). apply in_flat_map. eauto.
  - intros [c [Hc Hx]]. destruct (Forall2_in_l _ _ _ _ HF Hc) as [p [Hp Hcut]].
    rewrite <- (cut_trigs _ _ _ Hcut) in Hx. apply in_flat_map in Hx. destruct Hx as [l [Hl Hx]].
    exists l. split; [apply Hin; apply in_concat; eauto|exact Hx].
Qed.

Lemma presents_tasks g ls : (forall c, In c g -> chain_ok c = true) -> presents g ls ->
  forall n, (exists l, In l ls /\ In n (chain_tasks l)) <-> In n (graph_tasks g).
Proof.
  intros Hok [parts [HF Hin]] n. unfold graph_tasks. rewrite in_flat_map. split.
  - intros [l [Hl Hx]]. apply Hin in Hl. apply in_concat in Hl. destruct Hl as [p [Hp Hl]].
    destruct (Forall2_in_r _ _ _ _ HF Hp) as [c [Hc Hcut]]. exists c. split; [exact Hc|].
    destruct (chain_ok_parts c (Hok c Hc)) as [_ Hg].
    assert (Hx' : exists l, In l p /\ In n (chain_tasks l)) by eauto.
    apply (cut_tasks _ _ _ Hcut Hg) in Hx'. destruct c. exact Hx'.
  - intros [c [Hc Hx]]. destruct (Forall2_in_l _ _ _ _ HF Hc) as [p [Hp Hcut]].
    destruct (chain_ok_parts c (Hok c Hc)) as [_ Hg].
    assert (Hx' : In n (chain_tasks (mkChain (ch_head c) (ch_groups c)))) by (destruct c; exact Hx).
    apply (cut_tasks _ _ _ Hcut Hg) in Hx'. destruct Hx' as [l [Hl Hx']].
    exists l. split; [apply Hin; apply in_concat; eauto|exact Hx'].
Qed.
