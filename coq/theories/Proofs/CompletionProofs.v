(* Proofs/CompletionProofs.v — lemmas about Model/Completion.v *)
From Coq Require Import List Bool Arith Lia.
From Cylc Require Import Base.Util Model.BExpr Model.Completion Proofs.BExprProofs.
Import ListNotations.

(* ---------- the parts list ---------- *)
Definition parts0 (t : tdef) : list bexpr :=
  match conj_list (map BVar (required t)) with Some c => [c] | None => [] end.

Definition parts1 (t : tdef) : list bexpr :=
  if fail_tolerated t then
    match parts0 t with
    | c :: _ => [BOr (BAnd c (BVar SUCCEEDED)) (BVar FAILED)]
    | [] => [BOr (BVar SUCCEEDED) (BVar FAILED)]
    end
  else parts0 t.

Lemma default_parts_eq t :
  default_parts t =
  parts1 t ++ (if submit_fail_tolerated t then [BVar SUBMIT_FAILED] else [])
           ++ (if expiry_tolerated t then [BVar EXPIRED] else []).
Proof.
  unfold default_parts, parts1, parts0.
  destruct (submit_fail_tolerated t), (expiry_tolerated t); cbn;
    rewrite ?app_nil_r, <- ?app_assoc; reflexivity.
Qed.

Lemma parts0_eval t s :
  existsb (eval s) (parts0 t) = nonempty (required t) && forallb s (required t).
Proof.
  unfold parts0. destruct (required t) as [|r0 rs] eqn:E; cbn; [reflexivity|].
  rewrite eval_fold_and, forallb_eval_vars. cbn. now rewrite orb_false_r.
Qed.

Lemma parts0_shape t :
  (required t = [] /\ parts0 t = []) \/
  (required t <> [] /\ exists c, parts0 t = [c] /\ forall s, eval s c = forallb s (required t)).
Proof.
  unfold parts0. destruct (required t) as [|r0 rs] eqn:E; cbn; [left; auto|].
  right. split; [discriminate|]. eexists. split; [reflexivity|].
  intros s. rewrite eval_fold_and, forallb_eval_vars. reflexivity.
Qed.

Lemma parts1_eval t s :
  existsb (eval s) (parts1 t) =
  if fail_tolerated t then (forallb s (required t) && s SUCCEEDED) || s FAILED
  else nonempty (required t) && forallb s (required t).
Proof.
  unfold parts1. destruct (fail_tolerated t); [|apply parts0_eval].
  destruct (parts0_shape t) as [[Hr ->]|[Hr [c [-> Hc]]]]; cbn.
  - rewrite Hr. cbn. now rewrite orb_false_r.
  - rewrite Hc. now rewrite orb_false_r.
Qed.

Lemma parts1_nonempty t :
  nonempty (parts1 t) = fail_tolerated t || nonempty (required t).
Proof.
  unfold parts1. destruct (fail_tolerated t); cbn.
  - destruct (parts0 t); reflexivity.
  - destruct (parts0_shape t) as [[-> ->]|[Hr [c [-> _]]]]; cbn; [reflexivity|].
    destruct (required t); [congruence|reflexivity].
Qed.

Lemma nonempty_app {A} (a b : list A) : nonempty (a ++ b) = nonempty a || nonempty b.
Proof. destruct a; cbn; reflexivity. Qed.

Lemma default_parts_nonempty t :
  nonempty (default_parts t) =
  (fail_tolerated t || nonempty (required t)) || submit_fail_tolerated t || expiry_tolerated t.
Proof.
  rewrite default_parts_eq, !nonempty_app, parts1_nonempty.
  destruct (submit_fail_tolerated t), (expiry_tolerated t); cbn;
    rewrite ?orb_false_r, ?orb_true_r; reflexivity.
Qed.

Lemma default_parts_eval t s :
  existsb (eval s) (default_parts t) =
  ((fail_tolerated t || nonempty (required t)) &&
     (if fail_tolerated t then (forallb s (required t) && s SUCCEEDED) || s FAILED
      else forallb s (required t)))
  || (submit_fail_tolerated t && s SUBMIT_FAILED)
  || (expiry_tolerated t && s EXPIRED).
Proof.
  rewrite default_parts_eq, !existsb_app, parts1_eval.
  destruct (fail_tolerated t), (submit_fail_tolerated t), (expiry_tolerated t);
    cbn [existsb eval app];
    destruct (forallb s (required t)), (nonempty (required t)),
    (s SUCCEEDED), (s FAILED), (s SUBMIT_FAILED), (s EXPIRED); reflexivity.
Qed.

(* ---------- main theorem: default expression = documented rule ---------- *)
Lemma default_expr_semantics t s :
  eval s (completion_expr t None) = spec_complete t s.
Proof.
  unfold completion_expr, default_expr, spec_complete.
  pose proof (default_parts_nonempty t) as Hne.
  pose proof (default_parts_eval t s) as Hev.
  destruct (disj_list (default_parts t)) as [d|] eqn:Ed.
  - rewrite (eval_disj_list s _ _ Ed), Hev.
    destruct (default_parts t) as [|p ps]; [discriminate|]. cbn in Hne.
    rewrite <- Hne. reflexivity.
  - destruct (default_parts t) as [|p ps]; [|discriminate]. cbn in Hne.
    rewrite <- Hne. cbn. reflexivity.
Qed.

(* ---------- every name in the default expression is a registered output ---------- *)
Definition registered (t : tdef) (a : nat) : Prop := assoc Nat.eqb a t <> None.

Definition std_registered (t : tdef) : Prop :=
  registered t EXPIRED /\ registered t SUBMIT_FAILED /\ registered t SUCCEEDED /\ registered t FAILED.

Lemma assoc_In_fst {B} a (t : list (nat * B)) : In a (map fst t) -> assoc Nat.eqb a t <> None.
Proof.
  induction t as [|[k v] r IH]; cbn; [tauto|].
  destruct (Nat.eqb_spec a k); [discriminate|]. intros [E|H]; [congruence|auto].
Qed.

Lemma required_registered t a : In a (required t) -> registered t a.
Proof.
  unfold required, registered. intros H. apply assoc_In_fst.
  apply in_map_iff in H. destruct H as [p [<- Hp]]. apply filter_In in Hp.
  apply in_map. tauto.
Qed.

Lemma parts0_vars t e a : In e (parts0 t) -> In a (vars e) -> In a (required t).
Proof.
  unfold parts0. destruct (conj_list (map BVar (required t))) as [c|] eqn:E; [|intros []].
  intros [<-|[]] Ha. rewrite (vars_conj_list _ _ _ E) in Ha.
  destruct Ha as [y [Hy Ha]]. apply in_map_iff in Hy. destruct Hy as [x [<- Hx]].
  cbn in Ha. destruct Ha as [<-|[]]. exact Hx.
Qed.

Lemma default_parts_vars t e a :
  In e (default_parts t) -> In a (vars e) ->
  In a (required t) \/ In a [EXPIRED; SUBMIT_FAILED; SUCCEEDED; FAILED].
Proof.
  rewrite default_parts_eq. intros He Ha.
  apply in_app_or in He. destruct He as [He|He].
  - unfold parts1 in He. destruct (fail_tolerated t).
    + destruct (parts0 t) as [|c cs] eqn:E0.
      * destruct He as [<-|[]]. cbn in Ha. right. cbn. intuition.
      * destruct He as [<-|[]]. cbn in Ha. rewrite <- app_assoc in Ha.
        apply in_app_or in Ha. destruct Ha as [Ha|Ha].
        -- left. eapply parts0_vars; [|exact Ha]. rewrite E0. now left.
        -- right. cbn in *. intuition.
    + left. eapply parts0_vars; eauto.
  - apply in_app_or in He. destruct He as [He|He].
    + destruct (submit_fail_tolerated t); [|destruct He].
      destruct He as [<-|[]]. cbn in Ha. right. cbn. intuition.
    + destruct (expiry_tolerated t); [|destruct He].
      destruct He as [<-|[]]. cbn in Ha. right. cbn. intuition.
Qed.

Lemma completion_expr_vars t a :
  std_registered t -> In a (vars (completion_expr t None)) -> registered t a.
Proof.
  intros (H0 & H2 & H4 & H5) Ha. unfold completion_expr, default_expr in Ha.
  destruct (disj_list (default_parts t)) as [d|] eqn:Ed.
  - rewrite (vars_disj_list _ _ _ Ed) in Ha. destruct Ha as [e [He Ha]].
    destruct (default_parts_vars t e a He Ha) as [H|H].
    + now apply required_registered.
    + cbn in H. destruct H as [<-|[<-|[<-|[<-|[]]]]]; assumption.
  - cbn in Ha. destruct Ha as [<-|[<-|[<-|[<-|[]]]]]; assumption.
Qed.

(* is_complete never raises on a default expression and computes the rule *)
Lemma is_complete_default t done :
  std_registered t ->
  is_complete t None done = Some (spec_complete t (env_of done)).
Proof.
  intros Hstd. unfold is_complete. rewrite <- default_expr_semantics.
  apply evalo_total. intros a Ha.
  pose proof (completion_expr_vars t a Hstd Ha) as Hr. unfold registered in Hr.
  unfold completed_env, env_of. destruct (assoc Nat.eqb a t); [reflexivity|congruence].
Qed.

(* user expressions: the value is the truth value over the completed set
   whenever all names are registered outputs *)
Lemma is_complete_user t e done :
  (forall a, In a (vars e) -> registered t a) ->
  is_complete t (Some e) done = Some (eval (env_of done) e).
Proof.
  intros H. unfold is_complete. cbn. apply evalo_total. intros a Ha.
  specialize (H a Ha). unfold registered in H.
  unfold completed_env, env_of. destruct (assoc Nat.eqb a t); [reflexivity|congruence].
Qed.

(* ---------- retention ---------- *)
Lemma retention st out_final complete :
  status_final st = true ->
  remove_if_complete st false out_final (Some complete) =
  if complete then Removed else Retained out_final.
Proof. unfold remove_if_complete. intros ->. cbn. reflexivity. Qed.

Lemma not_final_retained st compat out_final complete :
  status_final st = false ->
  remove_if_complete st compat out_final complete = Retained false.
Proof. unfold remove_if_complete. intros ->. reflexivity. Qed.

(* ---------- consequences in the words of the property ---------- *)
Lemma forallb_In s (l : list nat) : forallb s l = true <-> forall a, In a l -> s a = true.
Proof. apply forallb_forall. Qed.

(* a complete task has all its required outputs, unless one of the tolerated
   outcomes happened and is optional *)
Lemma complete_implies t s :
  nonempty (default_parts t) = true ->
  spec_complete t s = true ->
  (forall a, In a (required t) -> s a = true)
  \/ (fail_tolerated t = true /\ s FAILED = true)
  \/ (submit_fail_tolerated t = true /\ s SUBMIT_FAILED = true)
  \/ (expiry_tolerated t = true /\ s EXPIRED = true).
Proof.
  rewrite default_parts_nonempty. unfold spec_complete. intros ->. cbn [negb].
  rewrite !orb_true_iff, !andb_true_iff.
  intros [[[_ H]|H]|H]; [|tauto|tauto].
  destruct (fail_tolerated t).
  - rewrite orb_true_iff, andb_true_iff in H. destruct H as [[H _]|H]; [|tauto].
    left. now apply forallb_In.
  - left. now apply forallb_In.
Qed.

(* with success required (neither succeeded nor failed optional) failure is not tolerated *)
Lemma failure_not_tolerated t s :
  fail_tolerated t = false -> nonempty (required t) = true ->
  submit_fail_tolerated t = false \/ s SUBMIT_FAILED = false ->
  expiry_tolerated t = false \/ s EXPIRED = false ->
  (spec_complete t s = true <-> forall a, In a (required t) -> s a = true).
Proof.
  intros Hf Hr Hs He. unfold spec_complete. rewrite Hf, Hr. cbn.
  rewrite <- forallb_In.
  destruct Hs as [->| ->], He as [->| ->]; cbn; rewrite ?andb_false_r, ?orb_false_r; tauto.
Qed.
