(* Proofs/GraphShapeProofs.v — C14: the printed line of a well-formed chain has
   the shape that stage 3 (check for && / || / bad nodes) and the layout
   conditions ask for.  A small automaton reads operand / operator alternation. *)
From Coq Require Import List Bool Arith String Lia.
From Cylc Require Import Base.Util Gen.FamTables Model.GraphBase Model.GraphExpr Model.FamTrig
  Model.GraphParse Model.GraphAst Proofs.FamTrigProofs Proofs.GraphPairProofs.
Import ListNotations.

Inductive sst := SExp | SAft | SNode.

Definition step (s : sst) (t : tok) : option sst :=
  match s, t with
  | SExp, TN _ => Some SAft
  | SExp, TLp => Some SExp
  | SExp, TBang => Some SNode
  | SAft, TAnd | SAft, TOr | SAft, TArrow => Some SExp
  | SAft, TRp => Some SAft
  | SNode, TN _ => Some SAft
  | _, _ => None
  end.

Fixpoint scan (s : sst) (l : list tok) : option sst :=
  match l with
  | [] => Some s
  | t :: r => match step s t with Some s' => scan s' r | None => None end
  end.

Lemma scan_app s a b : scan s (a ++ b) = match scan s a with Some s' => scan s' b | None => None end.
Proof. revert s. induction a as [|t r IH]; intros s; cbn; [reflexivity|]. destruct (step s t); auto. Qed.

Lemma scan_print_e e : scan SExp (print_e e) = Some SAft.
Proof.
  induction e; cbn [print_e].
  - reflexivity.
  - change (TLp :: print_e e ++ [TRp]) with ([TLp] ++ print_e e ++ [TRp]).
    rewrite scan_app. cbn [scan step]. rewrite scan_app, IHe. reflexivity.
  - rewrite scan_app, IHe1. cbn. exact IHe2.
  - rewrite scan_app, IHe1. cbn. exact IHe2.
Qed.

Lemma scan_print_r r : scan SExp (print_r r) = Some SAft.
Proof. unfold print_r. destruct (r_s r); reflexivity. Qed.

Lemma scan_print_g (g : group) : g <> [] -> scan SExp (print_g g) = Some SAft.
Proof.
  unfold print_g. induction g as [|r rest IH]; [congruence|]. intros _. destruct rest as [|r2 rest'].
  - cbn. apply scan_print_r.
  - cbn [map] in *. rewrite join_toks_cons2, scan_app, scan_print_r. cbn. apply IH. discriminate.
Qed.

Lemma scan_print_chain c : (forall g, In g (ch_groups c) -> g <> []) ->
  scan SExp (print_chain c) = Some SAft.
Proof.
  unfold print_chain. rewrite scan_app, scan_print_e. induction (ch_groups c) as [|g r IH]; intros H; [reflexivity|].
  cbn [flat_map]. change ((TArrow :: print_g g) ++ ?x) with ([TArrow] ++ print_g g ++ x).
  rewrite scan_app. cbn [scan step]. rewrite scan_app, scan_print_g by (apply H; now left). apply IH. intros g' Hg'. apply H. now right.
Qed.

(* what an accepted token list looks like *)
Lemma has_double_cons2 p a b r : has_double p (a :: b :: r) = (p a && p b) || has_double p (b :: r).
Proof. reflexivity. Qed.
Lemma adj_nodes_cons2 a b r :
  adj_nodes (a :: b :: r) = match a, b with TN _, TN _ => true | _, _ => adj_nodes (b :: r) end.
Proof. destruct a; reflexivity. Qed.

Lemma scan_facts : forall l s s', scan s l = Some s' ->
  has_double is_and l = false /\ has_double is_or l = false /\ adj_nodes l = false
  /\ forallb clean_tok l = true.
Proof.
  induction l as [|t r IH]; intros s s' H; [cbn; auto|].
  cbn [scan] in H. destruct (step s t) as [s1|] eqn:Es; [|discriminate].
  destruct (IH s1 s' H) as [H1 [H2 [H3 H4]]].
  assert (Hc : clean_tok t = true) by (destruct s, t; cbn in Es; try discriminate; reflexivity).
  cbn [forallb]. rewrite Hc, H4. cbn [andb].
  destruct r as [|t2 r2]; [destruct t; cbn; auto|].
  cbn [scan] in H. destruct (step s1 t2) as [s2|] eqn:Es2; [|discriminate].
  rewrite !has_double_cons2, adj_nodes_cons2, H1, H2, H3.
  destruct s, t; cbn in Es; try discriminate; inversion Es; subst s1;
    destruct t2; cbn in Es2; try discriminate; cbn; auto.
Qed.

Lemma scan_starts l s' : scan SExp l = Some s' -> starts_cont l = false.
Proof. destruct l as [|t r]; [reflexivity|]. cbn. destruct t; cbn; try discriminate; reflexivity. Qed.

Lemma scan_ends : forall l s, scan s l = Some SAft -> l <> [] -> ends_cont l = false.
Proof.
  intros l. induction l as [|t r IH] using rev_ind; [congruence|]. intros s H _.
  rewrite scan_app in H. destruct (scan s r) as [s1|]; [|discriminate]. cbn in H.
  destruct (step s1 t) as [s2|] eqn:Es; [|discriminate]. inversion H; subst s2.
  unfold ends_cont. rewrite rev_app_distr. cbn.
  destruct s1, t; cbn in Es; try discriminate; reflexivity.
Qed.

Lemma groups_ok_nonempty gs : groups_ok gs = true -> forall g, In g gs -> g <> [].
Proof.
  induction gs as [|x r IH]; [intros _ g []|]. cbn [groups_ok]. intros H g Hg.
  apply andb_true_iff in H. destruct H as [H Hr]. apply andb_true_iff in H. destruct H as [H _].
  apply andb_true_iff in H. destruct H as [Hn _].
  destruct Hg as [<-|Hg]; [destruct x; [discriminate|discriminate]|auto].
Qed.

Lemma print_chain_nonempty c : print_chain c <> [].
Proof. unfold print_chain. pose proof (print_e_nonempty (ch_head c)). destruct (print_e (ch_head c)); [congruence|discriminate]. Qed.

Lemma print_chain_line_ok c : chain_ok c = true ->
  line_ok (print_chain c) = true
  /\ has_double is_and (print_chain c) = false /\ has_double is_or (print_chain c) = false.
Proof.
  intros Hok. assert (Hg : groups_ok (ch_groups c) = true).
  { unfold chain_ok in Hok. apply andb_true_iff in Hok. tauto. }
  pose proof (scan_print_chain c (groups_ok_nonempty _ Hg)) as Hs.
  destruct (scan_facts _ _ _ Hs) as [H1 [H2 [H3 H4]]].
  split; [|auto]. unfold line_ok. rewrite H3, H4, (scan_starts _ _ Hs).
  rewrite (scan_ends _ _ Hs (print_chain_nonempty c)).
  pose proof (print_chain_nonempty c). destruct (print_chain c); [congruence|reflexivity].
Qed.

Lemma check_lines_ok (ls : list (list tok)) :
  (forall l, In l ls -> has_double is_and l = false /\ has_double is_or l = false /\ adj_nodes l = false) ->
  check_lines ls = Ok tt.
Proof.
  intros H. unfold check_lines.
  assert (H1 : existsb (fun l => has_double is_and l || has_double is_or l) ls = false).
  { apply not_true_is_false. intros E. apply existsb_exists in E. destruct E as [l [Hl E]].
    destruct (H l Hl) as [Ha [Ho _]]. rewrite Ha, Ho in E. discriminate. }
  rewrite H1. destruct (rev ls) as [|lst others] eqn:Er; [reflexivity|].
  assert (Hin : forall x, In x (lst :: others) -> In x ls) by (intros x Hx; apply in_rev; now rewrite Er).
  destruct (H lst (Hin lst (or_introl eq_refl))) as [_ [_ Ha]]. rewrite Ha.
  assert (H2 : existsb adj_nodes others = false).
  { apply not_true_is_false. intros E. apply existsb_exists in E. destruct E as [l [Hl E]].
    destruct (H l (Hin l (or_intror Hl))) as [_ [_ Ha']]. congruence. }
  now rewrite H2.
Qed.
