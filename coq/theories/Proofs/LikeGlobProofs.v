(* Proofs/LikeGlobProofs.v — lemmas about Model/LikeGlob.v *)
From Coq Require Import List ZArith Bool Arith Lia.
From Cylc Require Import Base.Util Model.LikeGlob.
Import ListNotations.
Open Scope Z_scope.

(* ---------- relating two token lists ---------- *)
Definition kind (t : tok) : nat :=
  match t with TStar => 0%nat | TBad | TFuel => 1%nat | _ => 2%nat end.

Definition tok_rel (eq1 eq2 : Z -> Z -> bool) (P : Z -> Prop) (t1 t2 : tok) : Prop :=
  kind t1 = kind t2 /\
  (kind t1 = 2%nat -> forall x, P x -> tok1 eq1 t1 x = tok1 eq2 t2 x).

Lemma tmatch_star eq p s :
  tmatch eq (TStar :: p) s =
  tmatch eq p s || match s with [] => false | _ :: s' => tmatch eq (TStar :: p) s' end.
Proof. destruct s; reflexivity. Qed.

Lemma tmatch_single eq t p s :
  kind t = 2%nat ->
  tmatch eq (t :: p) s =
  match s with [] => false | x :: s' => tok1 eq t x && tmatch eq p s' end.
Proof. destruct t; cbn; intros H; try discriminate; reflexivity. Qed.

Lemma tmatch_dead eq t p s : kind t = 1%nat -> tmatch eq (t :: p) s = false.
Proof. destruct t; cbn; intros H; try discriminate; reflexivity. Qed.

Lemma kind_cases t : kind t = 0%nat /\ t = TStar \/ kind t = 1%nat \/ kind t = 2%nat.
Proof. destruct t; cbn; auto. Qed.

Lemma tmatch_rel eq1 eq2 (P : Z -> Prop) p1 p2 :
  Forall2 (tok_rel eq1 eq2 P) p1 p2 ->
  forall s, Forall P s -> tmatch eq1 p1 s = tmatch eq2 p2 s.
Proof.
  induction 1 as [|t1 t2 p1 p2 [Hk Hs] _ IH]; intros s HP.
  - reflexivity.
  - destruct (kind_cases t1) as [[K1 ->]|[K1|K1]].
    + assert (t2 = TStar) as -> by (destruct t2; cbn in Hk; congruence).
      induction s as [|x s IHs].
      * rewrite !tmatch_star. now rewrite IH.
      * rewrite (tmatch_star eq1), (tmatch_star eq2).
        rewrite (IH _ HP). f_equal. apply IHs. now inversion HP.
    + rewrite tmatch_dead by exact K1. rewrite tmatch_dead by congruence. reflexivity.
    + rewrite (tmatch_single eq1) by exact K1.
      rewrite (tmatch_single eq2) by congruence.
      destruct s as [|x s]; [reflexivity|].
      inversion HP as [|? ? Hx Hrest]; subst.
      rewrite (Hs K1 x Hx). f_equal. now apply IH.
Qed.

(* ---------- patterns without '*' : exact equality ---------- *)
Lemma mem_Z_In x l : mem Z.eqb x l = true <-> In x l.
Proof. apply mem_In. intros a b. rewrite Z.eqb_eq. split; auto. Qed.

Lemma mem_Z_false x l : mem Z.eqb x l = false <-> ~ In x l.
Proof. rewrite <- mem_Z_In. destruct (mem Z.eqb x l); split; congruence. Qed.

Lemma spec_glob_nostar p s : has_star p = false -> spec_glob p s = str_eqb p s.
Proof.
  unfold has_star, spec_glob, str_eqb. revert s.
  induction p as [|c p IH]; intros s H.
  - destruct s; reflexivity.
  - cbn in H. apply orb_false_iff in H. destruct H as [Hc Hp].
    cbn [map]. unfold spec_tok at 1.
    assert (E : (c =? c_star) = false) by (rewrite Z.eqb_sym; exact Hc).
    rewrite E. rewrite tmatch_single by reflexivity.
    destruct s as [|x s]; [reflexivity|]. cbn [tok1 list_eqb]. now rewrite IH.
Qed.

Lemma str_eqb_eq a b : str_eqb a b = true <-> a = b.
Proof. apply list_eqb_spec. intros x y. apply Z.eqb_eq. Qed.

(* ---------- LIKE after translation agrees with the spec on safe patterns ---------- *)
(* [safe p s]: p has no '_' / '%', and no character of p equals a character of s
   only up to ASCII case *)
Definition safe (p s : str) : Prop :=
  (forall c, In c p -> c <> c_us /\ c <> c_pct) /\
  (forall a b, In a p -> In b s -> fold_ascii a = fold_ascii b -> a = b).

Lemma like_translate_spec p s : safe p s -> sqlite_like (translate p) s = spec_glob p s.
Proof.
  intros [Hw Hc]. unfold sqlite_like, spec_glob, translate.
  apply tmatch_rel with (P := fun b => In b s); [|apply Forall_forall; auto].
  rewrite map_map.
  assert (G : forall q, (forall c, In c q -> In c p) ->
              Forall2 (tok_rel eq_nocase Z.eqb (fun b => In b s))
                (map (fun c => like_tok (if c =? c_star then c_pct else c)) q) (map spec_tok q)).
  { induction q as [|c q IH]; intros Hq; cbn [map]; constructor.
    - unfold like_tok, spec_tok. destruct (Z.eqb_spec c c_star) as [->|Hne].
      + cbn. split; [reflexivity|discriminate].
      + destruct (Hw c (Hq c (or_introl eq_refl))) as [H1 H2].
        destruct (Z.eqb_spec c c_pct); [congruence|].
        destruct (Z.eqb_spec c c_us); [congruence|].
        split; [reflexivity|]. intros _ x Hx. cbn [tok1]. unfold eq_nocase.
        destruct (Z.eqb_spec (fold_ascii c) (fold_ascii x)) as [E|E].
        * rewrite (Hc c x (Hq c (or_introl eq_refl)) Hx E). symmetry. apply Z.eqb_refl.
        * destruct (Z.eqb_spec c x) as [->|]; congruence.
    - apply IH. intros c' Hc'. apply Hq. now right. }
  apply G. auto.
Qed.

(* what the code does = what the property says, for one name *)
Definition pat_safe (pat : option str) (names : list str) : Prop :=
  match pat with
  | None => True
  | Some p => p <> [] /\ (has_star p = true -> forall s, In s names -> safe p s)
  end.

Lemma legacy_code_match_spec pat names s :
  pat_safe pat names -> In s names -> legacy_code_match pat s = spec_match pat s.
Proof.
  destruct pat as [p|]; [|reflexivity]. intros [Hne Hs] Hin.
  destruct p as [|c p]; [congruence|]. cbn [legacy_code_match spec_match].
  destruct (has_star (c :: p)) eqn:E.
  - apply like_translate_spec. auto.
  - symmetry. now apply spec_glob_nostar.
Qed.

(* ---------- select_from ---------- *)
Lemma select_from_ext f g i rows :
  (forall r, In r rows -> f r = g r) -> select_from f i rows = select_from g i rows.
Proof.
  revert i; induction rows as [|r rows IH]; intros i H; cbn; [reflexivity|].
  rewrite (H r (or_introl eq_refl)). rewrite IH; [reflexivity|]. intros; apply H; now right.
Qed.

Lemma select_from_In f k rows i :
  In i (select_from f k rows) <->
  (k <= i)%nat /\ exists r, nth_error rows (i - k) = Some r /\ f r = true.
Proof.
  revert k; induction rows as [|r rows IH]; intros k; cbn [select_from].
  - split; [intros []|]. intros [_ [r [H _]]]. destruct (i - k)%nat; discriminate.
  - assert (Hrest : In i (select_from f (S k) rows) <->
              (S k <= i)%nat /\ exists r0, nth_error rows (i - S k) = Some r0 /\ f r0 = true)
      by apply IH.
    destruct (f r) eqn:Ef.
    + cbn [In]. rewrite Hrest. split.
      * intros [<-|[Hle [r0 [Hn Hf]]]].
        -- split; [lia|]. exists r. rewrite Nat.sub_diag. auto.
        -- split; [lia|]. exists r0. replace (i - k)%nat with (S (i - S k)) by lia. auto.
      * intros [Hle [r0 [Hn Hf]]]. destruct (Nat.eq_dec k i) as [->|Hne]; [now left|right].
        split; [lia|]. exists r0. replace (i - k)%nat with (S (i - S k)) in Hn by lia. auto.
    + rewrite Hrest. split.
      * intros [Hle [r0 [Hn Hf]]]. split; [lia|]. exists r0.
        replace (i - k)%nat with (S (i - S k)) by lia. auto.
      * intros [Hle [r0 [Hn Hf]]]. destruct (Nat.eq_dec k i) as [->|Hne].
        -- rewrite Nat.sub_diag in Hn. cbn in Hn. congruence.
        -- split; [lia|]. exists r0. replace (i - k)%nat with (S (i - S k)) in Hn by lia. auto.
Qed.

Lemma select_from_lb f k rows i : In i (select_from f k rows) -> (k <= i)%nat.
Proof. intros H. apply select_from_In in H. tauto. Qed.

Lemma select_from_NoDup f k rows : NoDup (select_from f k rows).
Proof.
  revert k; induction rows as [|r rows IH]; intros k; cbn; [constructor|].
  destruct (f r); [|apply IH]. constructor; [|apply IH].
  intros H. apply select_from_lb in H. lia.
Qed.

(* ---------- the query ---------- *)
Lemma legacy_query_exact_restricted q rows :
  pat_safe (q_task q) (map r_name rows) ->
  pat_safe (q_cycle q) (map r_cycle rows) ->
  legacy_code_query q rows = spec_query q rows.
Proof.
  intros Ht Hc. unfold legacy_code_query, spec_query, run_query_with.
  destruct (polling_ok q); [|reflexivity]. f_equal.
  apply select_from_ext. intros r Hr. unfold row_ok.
  rewrite (legacy_code_match_spec _ _ _ Ht (in_map r_name _ _ Hr)).
  rewrite (legacy_code_match_spec _ _ _ Hc (in_map r_cycle _ _ Hr)). reflexivity.
Qed.

Lemma query_result m q rows l :
  run_query_with m q rows = Some l ->
  NoDup l /\
  forall i, In i l <-> exists r, nth_error rows i = Some r /\ row_ok m q r = true.
Proof.
  unfold run_query_with. destruct (polling_ok q); [|discriminate]. intros [= <-].
  split; [apply select_from_NoDup|]. intros i. rewrite select_from_In.
  rewrite Nat.sub_0_r. split; [tauto|]. intros H; split; [lia|exact H].
Qed.

Definition no_flow (q : query) : query :=
  {| q_task := q_task q; q_cycle := q_cycle q; q_sel := q_sel q;
     q_trigger := q_trigger q; q_message := q_message q; q_flow := None |}.

Lemma row_ok_flow m q r f :
  q_flow q = Some f ->
  row_ok m q r = row_ok m (no_flow q) r && mem Z.eqb f (r_flows r).
Proof.
  intros Hf. unfold row_ok, sel_ok, no_flow. cbn. rewrite Hf. cbn.
  now rewrite andb_true_r.
Qed.

Lemma flow_filter m q rows f l :
  q_flow q = Some f -> run_query_with m q rows = Some l ->
  forall i, In i l <->
    exists r, nth_error rows i = Some r /\ In f (r_flows r) /\ row_ok m (no_flow q) r = true.
Proof.
  intros Hf Hq i. destruct (query_result _ _ _ _ Hq) as [_ H]. rewrite H.
  split; intros [r [Hn Hr]]; exists r.
  - rewrite (row_ok_flow _ _ _ _ Hf) in Hr. apply andb_true_iff in Hr.
    rewrite mem_Z_In in Hr. tauto.
  - rewrite (row_ok_flow _ _ _ _ Hf). rewrite andb_true_iff, mem_Z_In. tauto.
Qed.

(* ---------- _selector_in_outputs ---------- *)
Lemma sid_mem_In x l : sid_mem x l = true <-> In x l.
Proof. apply mem_In. intros a b. rewrite Nat.eqb_eq. split; auto. Qed.

Lemma selector_in_outputs_spec x outs :
  selector_in_outputs x outs = true <->
  In x outs \/ ((x = s_finished \/ x = s_finish) /\ (In s_succeeded outs \/ In s_failed outs)).
Proof.
  unfold selector_in_outputs.
  rewrite orb_true_iff, andb_true_iff, !orb_true_iff, !sid_mem_In, !Nat.eqb_eq. tauto.
Qed.

(* ---------- the proposed fix: GLOB on the escaped pattern is exact ---------- *)
Definition esc_tok (c : Z) : tok :=
  if c =? c_star then TStar
  else if (c =? c_qm) || (c =? c_lb) then TSet false [(c, c)]
  else TLit c.

Lemma glob_toks_escape p : forall fuel,
  (List.length (glob_escape p) < fuel)%nat ->
  glob_toks fuel (glob_escape p) = map esc_tok p.
Proof.
  induction p as [|c p IH]; intros fuel Hf.
  - destruct fuel; [cbn in Hf; lia|reflexivity].
  - unfold glob_escape in *. cbn [flat_map map]. fold (glob_escape p) in *.
    cbn [flat_map] in Hf. unfold esc_tok at 1.
    destruct (Z.eqb_spec c c_qm) as [->|Hq]; [|destruct (Z.eqb_spec c c_lb) as [->|Hl]].
    + cbn [orb app] in *. destruct fuel as [|fuel]; [cbn in Hf; lia|].
      cbn. rewrite IH; [reflexivity|]. cbn in Hf. unfold glob_escape. lia.
    + cbn [orb app] in *. destruct fuel as [|fuel]; [cbn in Hf; lia|].
      cbn. rewrite IH; [reflexivity|]. cbn in Hf. unfold glob_escape. lia.
    + cbn [orb app] in *. destruct fuel as [|fuel]; [cbn in Hf; lia|].
      cbn [glob_toks].
      destruct (Z.eqb_spec c c_star) as [->|Hs].
      * rewrite IH; [reflexivity|]. cbn in Hf. unfold glob_escape. lia.
      * destruct (Z.eqb_spec c c_qm); [congruence|]. destruct (Z.eqb_spec c c_lb); [congruence|].
        rewrite IH; [reflexivity|]. cbn in Hf. unfold glob_escape. lia.
Qed.

Lemma glob_escape_exact p s : sqlite_glob (glob_escape p) s = spec_glob p s.
Proof.
  unfold sqlite_glob, spec_glob. rewrite glob_toks_escape by lia.
  apply tmatch_rel with (P := fun _ => True); [|apply Forall_forall; auto].
  induction p as [|c p IH]; cbn [map]; constructor; [|exact IH].
  unfold esc_tok, spec_tok. destruct (Z.eqb_spec c c_star); [split; [reflexivity|discriminate]|].
  destruct ((c =? c_qm) || (c =? c_lb)); (split; [reflexivity|]); intros _ x _; [|reflexivity].
  cbn. unfold in_range. cbn [fst snd]. rewrite orb_false_r.
  destruct (Z.eqb_spec c x) as [->|Hne].
  - rewrite Z.leb_refl. reflexivity.
  - destruct (Z.leb_spec c x), (Z.leb_spec x c); cbn; try reflexivity. lia.
Qed.

(* ---------- the current code (GLOB on the escaped pattern) is exact ---------- *)
(* the empty pattern is the caller's "not given" (`if task:`), not a pattern *)
Definition pat_nonempty (pat : option str) : Prop := pat <> Some [].

Lemma code_match_spec pat s : pat_nonempty pat -> code_match pat s = spec_match pat s.
Proof.
  destruct pat as [p|]; [|reflexivity]. intros Hne.
  destruct p as [|c p]; [exfalso; apply Hne; reflexivity|]. cbn [code_match spec_match].
  destruct (has_star (c :: p)) eqn:E.
  - apply glob_escape_exact.
  - symmetry. now apply spec_glob_nostar.
Qed.

Lemma query_exact q rows :
  pat_nonempty (q_task q) -> pat_nonempty (q_cycle q) ->
  code_query q rows = spec_query q rows.
Proof.
  intros Ht Hc. unfold code_query, spec_query, run_query_with.
  destruct (polling_ok q); [|reflexivity]. f_equal.
  apply select_from_ext. intros r _. unfold row_ok.
  now rewrite (code_match_spec _ _ Ht), (code_match_spec _ _ Hc).
Qed.
