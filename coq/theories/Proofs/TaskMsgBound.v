(* Proofs/TaskMsgBound.v - retries and the submission bound (C02) *)
From Coq Require Import List Bool Arith ZArith Lia.
From Cylc Require Import Base.Util Gen.TaskMsgTables Model.TaskMsg Proofs.TaskMsgProofs Proofs.TaskMsgInv Proofs.TaskMsgEdges.
Import ListNotations.

(* ====================================================================== *)
(* Part 8: retries and the submission bound (C02)                          *)
(* ====================================================================== *)
Definition num_of (x : option timer) : nat := match x with Some y => tm_num y | None => 0 end.
Definition started_zone (s : status) : bool := rk Running <=? rk s.
(* how many more submissions the retry timers allow *)
Definition bud (s : status) (e sb N M : nat) : nat :=
  let A := (N - e) * (M + 1) in
  if started_zone s then A
  else if status_eqb s Waiting then 1 + (M - sb) + A
  else (M - sb) + A.
Definition budget (t : task) : nat :=
  bud (st t) (num_of (texec t)) (num_of (tsub t)) (cf_n t) (cf_m t).
Definition cbud (c : ctl) (N M : nat) : nat :=
  bud (c_st c) (num_of (c_exec c)) (num_of (c_sub c)) N M.

(* environment hypothesis of the bound: expiry only for waiting tasks; a
   polled/internal "submission failed" is not delivered once the job started *)
Definition env2_msg (m : msg) (r : bool) (a : status) : bool :=
  match m with
  | MExpired => status_eqb a Waiting
  | MSubFail => r || negb (started_zone a)
  | _ => true
  end.
Definition env_c02 (t : task) (o : op) : bool :=
  match o with
  | OpPrep => true
  | OpSubRes ok => ok || negb (started_zone (st t))
  | OpMsg m f _ => env2_msg m (flag_received f) (st t)
  end.
Fixpoint env_run (t : task) (ops : list op) : bool :=
  match ops with
  | [] => true
  | o :: r => env_c02 t o && env_run (fst (step t o)) r
  end.

Lemma A_step N M e : e < N -> 1 + M + (N - S e) * (M + 1) = (N - e) * (M + 1).
Proof. intros H. replace (N - e) with (S (N - S e)) by lia. rewrite Nat.mul_succ_l. lia. Qed.

Lemma next_of_num x y' len : timer_ok x len -> next_of x = Some y' ->
  num_of x < len /\ tm_num y' = S (num_of x).
Proof.
  intros Hx. unfold next_of. destruct x as [y|]; [|discriminate]. intros H.
  destruct (Hx y eq_refl) as [Hl _]. unfold timer_next in H.
  destruct (tm_num y <? tm_len y) eqn:E; [|discriminate]. apply Nat.ltb_lt in E.
  injection H as <-. cbn. lia.
Qed.
Lemma num_of_reset x : num_of (reset_sub x) = 0.
Proof. destruct x; reflexivity. Qed.

Lemma ctl_budget c hs ht m r N M :
  timer_ok (c_exec c) N -> timer_ok (c_sub c) M -> env2_msg m r (c_st c) = true ->
  cbud (ctl_next c hs ht m r) N M <= cbud c N M.
Proof.
  intros TE TS Env. destruct c as [s xe xs]. cbn [c_st c_exec c_sub] in *.
  unfold ctl_next, cbud, mid_st, mid_sub. cbn [c_st c_exec c_sub].
  assert (LE : num_of xe <= N) by (destruct xe as [y|]; cbn; [destruct (TE y eq_refl)|]; lia).
  assert (LS : num_of xs <= M) by (destruct xs as [y|]; cbn; [destruct (TS y eq_refl)|]; lia).
  destruct m; cbn [env2_msg] in Env.
  - (* submitted *)
    destruct (r && (rk Submitted <=? rk s)); cbn [c_st c_exec c_sub]; [lia|].
    destruct s; cbn; lia.
  - (* started *)
    destruct (r && (rk Running <? rk (if hs then s else psub_st s))); cbn [c_st c_exec c_sub].
    + destruct hs; [lia|]. destruct s; cbn; lia.
    + rewrite num_of_reset. unfold bud. destruct s; cbn; lia.
  - (* succeeded *)
    unfold bud. destruct ht; cbn [started_zone rk Nat.leb]; rewrite ?num_of_reset; destruct s; cbn; lia.
  - (* failed *)
    destruct (r && (rk Failed <? rk (if ht then if hs then s else psub_st s else Running))) eqn:G;
      cbn [c_st c_exec c_sub].
    + apply andb_true_iff in G. destruct G as [_ G]. apply Nat.ltb_lt in G.
      destruct ht; [|cbn in G; lia]. destruct hs; [lia|]. destruct s; cbn in G |- *; lia.
    + destruct (next_of xe) as [x'|] eqn:NX; cbn [c_st c_exec c_sub].
      * destruct (next_of_num _ _ _ TE NX) as [L1 L2]. cbn [num_of]. rewrite L2.
        pose proof (A_step N M (num_of xe) L1) as AS.
        unfold bud. cbn [started_zone rk Nat.leb status_eqb Nat.eqb].
        destruct ht; rewrite ?num_of_reset; destruct s; cbn [started_zone rk Nat.leb status_eqb Nat.eqb]; lia.
      * unfold bud. cbn [started_zone rk Nat.leb].
        destruct s; cbn [started_zone rk Nat.leb status_eqb Nat.eqb]; lia.
  - (* submission failed *)
    destruct (r && (rk SubmitFailed <? rk s)) eqn:G; cbn [c_st c_exec c_sub]; [lia|].
    assert (NS : started_zone s = false).
    { destruct r; cbn [orb andb] in *; [|apply negb_true_iff in Env; exact Env].
      apply Nat.ltb_ge in G. unfold started_zone. apply Nat.leb_gt. cbn in *. lia. }
    destruct (next_of xs) as [x'|] eqn:NX; cbn [c_st c_exec c_sub].
    + destruct (next_of_num _ _ _ TS NX) as [L1 L2]. cbn [num_of]. rewrite L2.
      unfold bud. rewrite NS. cbn [started_zone rk Nat.leb status_eqb Nat.eqb].
      destruct (status_eqb s Waiting); lia.
    + unfold bud. rewrite NS. cbn [started_zone rk Nat.leb status_eqb Nat.eqb].
      destruct (status_eqb s Waiting); lia.
  - (* expired *)
    apply status_eqb_eq in Env. subst s. cbn. lia.
  - apply Nat.le_refl.
  - apply Nat.le_refl.
Qed.

Lemma pm_budget t m f n : wf t -> env2_msg m (flag_received f) (st t) = true ->
  let t' := fst (process_message t m f n) in
  sn t' + budget t' <= sn t + budget t.
Proof.
  intros W Env. cbn zeta.
  destruct (check t m f n) eqn:C; [|rewrite pm_ignored by exact C; cbn [fst]; lia].
  destruct (pm_frame t m f n) as (Hsn & Hn & Hm & _).
  unfold budget. rewrite Hsn, Hn, Hm.
  rewrite (wfp_st t m f n C), (wfp_exec t m f n C), (wfp_sub t m f n C).
  pose proof (ctl_budget (ctl_of t) (hs t) (ht t) m (flag_received f) (cf_n t) (cf_m t)
                         (wf_exec t W) (wf_sub t W) Env) as H.
  unfold cbud in H. cbn [ctl_of c_st c_exec c_sub] in H. lia.
Qed.

Lemma prep_budget t : wf t -> preppable t = true ->
  sn (prep_raw t) + budget (prep_raw t) <= sn t + budget t.
Proof.
  intros W P. unfold preppable in P. apply orb_true_iff in P.
  unfold prep_raw, budget. destruct (status_eqb (st t) Preparing) eqn:E.
  - cbn. destruct (texec t), (tsub t); cbn; lia.
  - destruct P as [P|P]; [|congruence]. apply status_eqb_eq in P. rewrite P. cbn.
    destruct (texec t), (tsub t); cbn; lia.
Qed.

Lemma step_budget t o : wf t -> env_c02 t o = true ->
  sn (fst (step t o)) + budget (fst (step t o)) <= sn t + budget t.
Proof.
  intros W Env. destruct o as [|ok|m f rel]; cbn [step env_c02] in *.
  - destruct (preppable t) eqn:P; cbn [fst]; [apply prep_budget; assumption|lia].
  - apply pm_budget; [exact W|]. destruct ok; [reflexivity|exact Env].
  - apply pm_budget; assumption.
Qed.

Lemma run_budget ops : forall t, wf t -> env_run t ops = true ->
  sn (final t ops) + budget (final t ops) <= sn t + budget t.
Proof.
  induction ops as [|o r IH]; intros t W E; [cbn; lia|].
  cbn [env_run] in E. apply andb_true_iff in E. destruct E as [E1 E2].
  rewrite final_cons. pose proof (step_budget t o W E1). 
  pose proof (IH _ (wf_step t o W) E2). lia.
Qed.

Theorem submit_bound n m k ops :
  env_run (fresh n m k) ops = true ->
  sn (final (fresh n m k) ops) <= (n + 1) * (m + 1).
Proof.
  intros E. pose proof (run_budget ops _ (wf_fresh n m k) E) as H.
  unfold budget at 2 in H. cbn in H. rewrite Nat.sub_0_r in H. 
  assert ((n + 1) * (m + 1) = 1 + m + n * (m + 1)) by lia. lia.
Qed.

(* the bound fails without the hypothesis: failed submit results after 'started' *)
Definition sfstart_ops : list op :=
  [OpPrep; OpMsg MStarted Received 0%Z; OpSubRes false;
   OpPrep; OpMsg MStarted Received 0%Z; OpSubRes false; OpPrep].
Lemma submit_bound_needs_env : sn (final (fresh 0 1 0) sfstart_ops) = 3 /\ (0 + 1) * (1 + 1) = 2.
Proof. vm_compute. auto. Qed.

(* ---------- failed / submit-failed output only when no retry is left ---------- *)
Lemma pm_failed_only_exhausted t m f n :
  let p := process_message t m f n in
  (In (ESpawn OFailed) (snd p) \/ (In OFailed (outs (fst p)) /\ ~ In OFailed (outs t))) ->
  no_next (texec t) = true.
Proof.
  cbn zeta. destruct (check t m f n) eqn:C; [|rewrite pm_ignored by exact C; cbn; tauto].
  rewrite (pm_eff t m f n C), (wfp_outs t m f n C). unfold no_next.
  intros [H|[[H|H] N]]; [| tauto |].
  - unfold eff_next, imp_eff in H.
    destruct m; destruct (hs t), (ht t);
      repeat match goal with
             | H : context [match next_of ?x with _ => _ end] |- _ => destruct (next_of x) eqn:?
             | H : context [if ?b then _ else _] |- _ => destruct b eqn:?
             end; cbn in H; auto;
      repeat match goal with H : _ \/ _ |- _ => destruct H end; try discriminate; try tauto; congruence.
  - destruct m; cbn [adds] in H;
      try (cbn in H; repeat match goal with H : _ \/ _ |- _ => destruct H end; try discriminate; try tauto; congruence).
    + unfold fail_final, no_next in H. destruct (next_of (texec t)); [|reflexivity].
      rewrite andb_false_r in H. cbn in H. intuition congruence.
    + destruct (subfail_final t (flag_received f)); cbn in H; intuition congruence.
    + destruct (k <? cf_k t); cbn in H; intuition congruence.
Qed.

Lemma pm_subfailed_only_exhausted t m f n :
  let p := process_message t m f n in
  (In (ESpawn OSubmitFailed) (snd p) \/ (In OSubmitFailed (outs (fst p)) /\ ~ In OSubmitFailed (outs t))) ->
  no_next (tsub t) = true.
Proof.
  cbn zeta. destruct (check t m f n) eqn:C; [|rewrite pm_ignored by exact C; cbn; tauto].
  rewrite (pm_eff t m f n C), (wfp_outs t m f n C). unfold no_next.
  intros [H|[[H|H] N]]; [| tauto |].
  - unfold eff_next, imp_eff in H.
    destruct m; destruct (hs t), (ht t);
      repeat match goal with
             | H : context [match next_of ?x with _ => _ end] |- _ => destruct (next_of x) eqn:?
             | H : context [if ?b then _ else _] |- _ => destruct b eqn:?
             end; cbn in H; auto;
      repeat match goal with H : _ \/ _ |- _ => destruct H end; try discriminate; try tauto; congruence.
  - destruct m; cbn [adds] in H;
      try (cbn in H; repeat match goal with H : _ \/ _ |- _ => destruct H end; try discriminate; try tauto; congruence).
    + destruct (fail_final t (flag_received f)); cbn in H; intuition congruence.
    + unfold subfail_final, no_next in H. destruct (next_of (tsub t)); [|reflexivity].
      rewrite andb_false_r in H. cbn in H. intuition congruence.
    + destruct (k <? cf_k t); cbn in H; intuition congruence.
Qed.

(* a retry effect is exactly one successful next() of the corresponding timer *)
Lemma pm_retry_effect t m f n b :
  In (ERetry b) (snd (process_message t m f n)) ->
  let t' := fst (process_message t m f n) in
  st t' = Waiting /\
  exists x', next_of (if b then tsub t else texec t) = Some x' /\
             (if b then tsub t' else texec t') = Some x'.
Proof.
  cbn zeta. destruct (check t m f n) eqn:C; [|rewrite pm_ignored by exact C; intros []].
  rewrite (pm_eff t m f n C), (wfp_st t m f n C), (wfp_exec t m f n C), (wfp_sub t m f n C).
  unfold eff_next, imp_eff, ctl_next, ctl_of, mid_st. cbn [c_st c_exec c_sub].
  destruct m; destruct (hs t), (ht t);
    repeat match goal with
           | |- context [match next_of ?x with _ => _ end] => destruct (next_of x) eqn:?
           | |- context [if ?b then _ else _] => destruct b eqn:?
           end; cbn; intros H;
    repeat match goal with H : _ \/ _ |- _ => destruct H end; try discriminate; try tauto;
    (split; [reflexivity|eexists; split; [eassumption|reflexivity]]).
Qed.

(* a new submission starts only from waiting, and after the first one only
   with a retry lined up *)
Lemma step_new_submission t o : wf t ->
  sn (fst (step t o)) <> sn t ->
  o = OpPrep /\ st t = Waiting /\ sn (fst (step t o)) = S (sn t) /\
  (sn t = 0 \/ retry_lined_up t = true).
Proof.
  intros W. destruct o as [|ok|m f rel]; cbn [step].
  - unfold preppable. destruct (status_eqb (st t) Waiting) eqn:E1; cbn [orb fst].
    + apply status_eqb_eq in E1. unfold prep_raw. rewrite E1. cbn. intros _.
      repeat split; auto. destruct (sn t) eqn:Z; [left; reflexivity|right].
      apply (wf_wait t W E1). lia.
    + destruct (status_eqb (st t) Preparing) eqn:E2; cbn [fst]; [|congruence].
      unfold prep_raw. rewrite E2. cbn. congruence.
  - destruct (pm_frame t (if ok then MSubmitted else MSubFail) Internal (Z.of_nat (sn t))) as [H _]. congruence.
  - destruct (pm_frame t m f (Z.of_nat (sn t) + rel)) as [H _]. congruence.
Qed.
