(* Proofs/GraphStoreProofs.v — C14: what a sequence of _set_output_opt /
   _set_triggers calls (without families) leaves in the parser state.
   If the assertions are pairwise compatible the calls all succeed, in any
   order and with any repetitions, and the state contains exactly the
   assertions. *)
From Coq Require Import List Bool Arith String Lia.
From Cylc Require Import Base.Util Gen.FamTables Model.GraphBase Model.GraphExpr Model.FamTrig
  Model.GraphParse Model.GraphAst Proofs.FamTrigProofs.
Import ListNotations.

(* ================= decidable equalities ================= *)
Lemma node_eqb_true a b : node_eqb a b = true <-> a = b.
Proof.
  destruct a as [n1 o1 q1 p1], b as [n2 o2 q2 p2]. unfold node_eqb. cbn.
  rewrite !andb_true_iff, !Nat.eqb_eq, Bool.eqb_true_iff.
  split.
  - intros [[[-> ->] Hq] ->]. f_equal.
    destruct q1, q2; cbn in Hq; try discriminate; [apply String.eqb_eq in Hq; now subst|reflexivity].
  - intros [= -> -> -> ->]. repeat split; auto.
    destruct q2; cbn; [apply String.eqb_refl|reflexivity].
Qed.

Lemma tok_eqb_true a b : tok_eqb a b = true <-> a = b.
Proof.
  destruct a, b; cbn; try (split; [discriminate|intros [=]]); try tauto.
  - rewrite node_eqb_true. split; [now intros ->|now intros [= ->]].
  - rewrite Nat.eqb_eq. split; [now intros ->|now intros [= ->]].
  - rewrite Nat.eqb_eq. split; [now intros ->|now intros [= ->]].
Qed.

Lemma toks_eqb_true a b : toks_eqb a b = true <-> a = b.
Proof. apply list_eqb_spec. apply tok_eqb_true. Qed.

Lemma toks_eqb_refl a : toks_eqb a a = true.
Proof. now apply toks_eqb_true. Qed.

Lemma toks_eqb_false a b : a <> b -> toks_eqb a b = false.
Proof. intros H. destruct (toks_eqb a b) eqn:E; [apply toks_eqb_true in E; contradiction|reflexivity]. Qed.

(* ================= optionality store ================= *)
Definition apply_o (om : optmap) (a : oassert) : res optmap :=
  let '(n, o, b) := a in set_opt1 om n o b false.

Definition om_inv (om : optmap) : Prop :=
  forall k v, assoc optkey_eqb k om = Some v -> exists b, v = (b, b, true).

Definition om_has (om : optmap) (a : oassert) : Prop :=
  let '(n, o, b) := a in assoc optkey_eqb (n, o) om = Some (b, b, true).

Lemma ocompat_same n o b b' : ocompat (n, o, b) (n, o, b') = true -> b = b'.
Proof.
  unfold ocompat. rewrite Nat.eqb_refl, String.eqb_refl. cbn.
  intros H. apply andb_true_iff in H. destruct H as [H _]. now apply Bool.eqb_prop.
Qed.

Lemma ocompat_opp n o o' b b' :
  ocompat (n, o, b) (n, o', b') = true -> opposite o = Some o' -> b = true /\ b' = true.
Proof.
  unfold ocompat. rewrite Nat.eqb_refl. cbn. intros H Ho. rewrite Ho in H. cbn in H.
  rewrite String.eqb_refl in H. cbn in H.
  apply andb_true_iff in H. destruct H as [_ H]. now apply andb_true_iff in H.
Qed.

Lemma opposite_neq o p : opposite o = Some p -> String.eqb p o = false.
Proof.
  unfold opposite.
  destruct (String.eqb o TASK_OUTPUT_SUCCEEDED) eqn:E1;
    [apply String.eqb_eq in E1; subst; intros [= <-]; reflexivity|].
  destruct (String.eqb o TASK_OUTPUT_FAILED) eqn:E2;
    [apply String.eqb_eq in E2; subst; intros [= <-]; reflexivity|].
  destruct (String.eqb o TASK_OUTPUT_SUBMITTED) eqn:E3;
    [apply String.eqb_eq in E3; subst; intros [= <-]; reflexivity|].
  destruct (String.eqb o TASK_OUTPUT_SUBMIT_FAILED) eqn:E4;
    [apply String.eqb_eq in E4; subst; intros [= <-]; reflexivity|discriminate].
Qed.

Lemma assoc_single_opt k k' (v : optval) :
  assoc optkey_eqb k [(k', v)] = if optkey_eqb k k' then Some v else None.
Proof. reflexivity. Qed.

Lemma set_opt1_ok om n o b :
  om_inv om -> oassert_guard (n, o, b) = true ->
  (forall a', om_has om a' -> ocompat (n, o, b) a' = true) ->
  exists om', set_opt1 om n o b false = Ok om' /\ om_inv om'
              /\ (forall a', om_has om' a' <-> (om_has om a' \/ a' = (n, o, b)))
              /\ (om' = om \/ (assoc optkey_eqb (n, o) om = None /\ om' = om ++ [((n, o), (b, b, true))])).
Proof.
  intros Hinv Hg Hc. unfold set_opt1.
  unfold oassert_guard in Hg. apply negb_true_iff in Hg. rewrite Hg.
  destruct (assoc optkey_eqb (n, o) om) as [[[po pd] pf]|] eqn:Ek.
  - (* already set *)
    destruct (Hinv _ _ Ek) as [b0 Hb0]. inversion Hb0; subst po pd pf. clear Hb0.
    assert (Hb : b = b0) by (apply (ocompat_same n o); apply (Hc (n, o, b0)); exact Ek).
    subst b0. cbn [orb negb]. rewrite Bool.eqb_reflx. cbn [bind].
    assert (Hres : forall a', om_has om a' <-> om_has om a' \/ a' = (n, o, b)).
    { intros a'. split; [tauto|]. intros [H| ->]; [exact H|exact Ek]. }
    destruct (opposite o) as [opp|] eqn:Eo; [|exists om; auto 6].
    destruct (assoc optkey_eqb (n, opp) om) as [[[oo od] ofx]|] eqn:Eopp; [|exists om; auto 6].
    destruct (Hinv _ _ Eopp) as [b1 Hb1]. inversion Hb1; subst oo od ofx. clear Hb1.
    rewrite Ek. cbn [orb negb].
    destruct (ocompat_opp n o opp b b1 (Hc (n, opp, b1) Eopp) Eo) as [-> ->].
    cbn. exists om. auto 6.
  - (* new entry *)
    cbn [bind negb].
    set (om1 := om ++ [((n, o), (b, b, true))]).
    assert (Hinv1 : om_inv om1).
    { intros k v Hk. unfold om1 in Hk.
      destruct (assoc optkey_eqb k om) as [x|] eqn:Ex.
      - rewrite (assoc_app_some _ _ _ _ _ Ex) in Hk. inversion Hk; subst. eauto.
      - rewrite (assoc_app_none _ _ _ _ Ex) in Hk. rewrite assoc_single_opt in Hk.
        destruct (optkey_eqb k (n, o)); inversion Hk. eauto. }
    assert (Hself : assoc optkey_eqb (n, o) om1 = Some (b, b, true)).
    { unfold om1. rewrite (assoc_app_none _ _ _ _ Ek). rewrite assoc_single_opt.
      now rewrite (proj2 (optkey_eqb_true _ _) eq_refl). }
    assert (Hres : forall a', om_has om1 a' <-> om_has om a' \/ a' = (n, o, b)).
    { intros [[n' o'] b']. unfold om_has, om1.
      destruct (assoc optkey_eqb (n', o') om) as [x|] eqn:Ex.
      - rewrite (assoc_app_some _ _ _ _ _ Ex). split; [tauto|].
        intros [H|H]; [exact H|]. inversion H; subst. congruence.
      - rewrite (assoc_app_none _ _ _ _ Ex), assoc_single_opt.
        destruct (optkey_eqb (n', o') (n, o)) eqn:Ekk.
        + apply optkey_eqb_true in Ekk. inversion Ekk; subst.
          split; [intros [= ->]; now right|intros [H|H]; [discriminate|now inversion H]].
        + split; [discriminate|]. intros [H|H]; [discriminate|].
          inversion H; subst. rewrite (proj2 (optkey_eqb_true _ _) eq_refl) in Ekk. discriminate. }
    destruct (opposite o) as [opp|] eqn:Eo; [|exists om1; auto 6].
    assert (Hoppk : assoc optkey_eqb (n, opp) om1 = assoc optkey_eqb (n, opp) om).
    { unfold om1. destruct (assoc optkey_eqb (n, opp) om) as [x|] eqn:Ex.
      - now apply assoc_app_some.
      - rewrite (assoc_app_none _ _ _ _ Ex), assoc_single_opt.
        unfold optkey_eqb. cbn. rewrite Nat.eqb_refl, (opposite_neq _ _ Eo). reflexivity. }
    fold om1. rewrite Hoppk.
    destruct (assoc optkey_eqb (n, opp) om) as [[[oo od] ofx]|] eqn:Eopp; [|exists om1; auto 6].
    destruct (Hinv _ _ Eopp) as [b1 Hb1]. inversion Hb1; subst oo od ofx. clear Hb1.
    rewrite Hself. cbn [orb negb].
    destruct (ocompat_opp n o opp b b1 (Hc (n, opp, b1) Eopp) Eo) as [-> ->].
    cbn. exists om1. auto 6.
Qed.

Lemma opt_fold_ok : forall (l : list oassert) om,
  om_inv om -> forallb oassert_guard l = true ->
  (forall x y, (om_has om x \/ In x l) -> (om_has om y \/ In y l) -> ocompat x y = true) ->
  exists om', fold_res apply_o l om = Ok om' /\ om_inv om'
              /\ (forall a, om_has om' a <-> (om_has om a \/ In a l)).
Proof.
  induction l as [|[[n o] b] r IH]; intros om Hinv Hg Hc.
  - exists om. cbn. repeat split; auto; tauto.
  - cbn [forallb] in Hg. apply andb_true_iff in Hg. destruct Hg as [Hg1 Hg2].
    destruct (set_opt1_ok om n o b Hinv Hg1) as [om1 [E1 [Hinv1 [Hres1 _]]]].
    { intros a' Ha'. apply Hc; [right; now left|now left]. }
    destruct (IH om1 Hinv1 Hg2) as [om2 [E2 [Hinv2 Hres2]]].
    { intros x y Hx Hy. apply Hc.
      - destruct Hx as [Hx|Hx]; [apply Hres1 in Hx; destruct Hx as [Hx| ->]; [now left|right; now left]|right; now right].
      - destruct Hy as [Hy|Hy]; [apply Hres1 in Hy; destruct Hy as [Hy| ->]; [now left|right; now left]|right; now right]. }
    exists om2. cbn [fold_res apply_o]. rewrite E1. cbn [bind]. split; [exact E2|]. split; [exact Hinv2|].
    intros a. rewrite Hres2, Hres1. cbn [In]. intuition congruence.
Qed.

(* _set_output_opt itself (with the suicide and ":finished" special cases) is a
   fold of [apply_o] over the expanded assertions *)
Lemma set_opt_as_fold om m o optional (suicide : bool) :
  (String.eqb o TASK_OUTPUT_FINISHED && optional && negb suicide) = false ->
  set_opt om m o optional suicide false
  = fold_res apply_o (if suicide then [] else expand_assert m o optional) om.
Proof.
  intros H. unfold set_opt, expand_assert. destruct suicide; [reflexivity|].
  destruct (String.eqb o TASK_OUTPUT_FINISHED); cbn in H.
  - rewrite andb_true_r in H. subst optional. cbn [fold_res apply_o].
    destruct (set_opt1 om m TASK_OUTPUT_SUCCEEDED true false); cbn [bind]; try reflexivity.
    destruct (set_opt1 a m TASK_OUTPUT_FAILED true false); reflexivity.
  - cbn [fold_res apply_o]. destruct (set_opt1 om m o optional false); reflexivity.
Qed.

(* ================= trigger store ================= *)
Definition tm_inv (tm : trigmap) : Prop :=
  NoDup (map fst tm) /\ forall n l, In (n, l) tm -> NoDup (map tg_expr l).

(* task n has a trigger with expression e and suicide flag s *)
Definition tm_has (tm : trigmap) (a : tassert) : Prop :=
  let '(n, e, s) := a in
  exists l t, assoc Nat.eqb n tm = Some l /\ find_trig e l = Some t /\ tg_suicide t = s.

Definition tm_task (tm : trigmap) (n : name) : Prop := assoc Nat.eqb n tm <> None.

Lemma find_put_same t l : find_trig (tg_expr t) (put_trig t l) = Some t.
Proof.
  induction l as [|t' r IH]; cbn; [now rewrite toks_eqb_refl|].
  destruct (toks_eqb (tg_expr t) (tg_expr t')) eqn:E; cbn; [now rewrite toks_eqb_refl|now rewrite E].
Qed.

Lemma find_put_other t l e : e <> tg_expr t -> find_trig e (put_trig t l) = find_trig e l.
Proof.
  intros Hne. induction l as [|t' r IH]; cbn.
  - now rewrite (toks_eqb_false _ _ Hne).
  - destruct (toks_eqb (tg_expr t) (tg_expr t')) eqn:E; cbn.
    + apply toks_eqb_true in E. rewrite <- E. now rewrite (toks_eqb_false _ _ Hne).
    + destruct (toks_eqb e (tg_expr t')); auto.
Qed.

Lemma put_trig_exprs t l :
  forall e, In e (map tg_expr (put_trig t l)) <-> (In e (map tg_expr l) \/ e = tg_expr t).
Proof.
  induction l as [|t' r IH]; intros e; cbn; [intuition|].
  destruct (toks_eqb (tg_expr t) (tg_expr t')) eqn:E; cbn.
  - apply toks_eqb_true in E. rewrite E. intuition.
  - rewrite IH. intuition.
Qed.

Lemma put_trig_nodup t l : NoDup (map tg_expr l) -> NoDup (map tg_expr (put_trig t l)).
Proof.
  induction l as [|t' r IH]; cbn; intros H; [repeat constructor; intros []|].
  inversion H as [|? ? Hnotin Hnd]; subst.
  destruct (toks_eqb (tg_expr t) (tg_expr t')) eqn:E; cbn.
  - apply toks_eqb_true in E. rewrite E. now constructor.
  - constructor; [|auto]. rewrite put_trig_exprs. intros [H1|H1]; [contradiction|].
    rewrite H1, toks_eqb_refl in E. discriminate.
Qed.

Lemma upd_keys {V} m (v : V) l :
  forall k, In k (map fst (upd Nat.eqb m v l)) <-> (In k (map fst l) \/ k = m).
Proof.
  induction l as [|[k' v'] r IH]; intros k; cbn; [intuition|].
  destruct (Nat.eqb m k') eqn:E; cbn.
  - apply Nat.eqb_eq in E. subst. intuition.
  - rewrite IH. intuition.
Qed.

Lemma upd_nodup {V} m (v : V) l : NoDup (map fst l) -> NoDup (map fst (upd Nat.eqb m v l)).
Proof.
  induction l as [|[k' v'] r IH]; cbn; intros H; [repeat constructor; intros []|].
  inversion H as [|? ? Hnotin Hnd]; subst.
  destruct (Nat.eqb m k') eqn:E; cbn.
  - apply Nat.eqb_eq in E. subst. now constructor.
  - constructor; [|auto]. rewrite upd_keys. intros [H1|H1]; [contradiction|].
    subst. rewrite Nat.eqb_refl in E. discriminate.
Qed.

Lemma upd_in {V} m (v : V) l k x :
  NoDup (map fst l) ->
  In (k, x) (upd Nat.eqb m v l) -> (k = m /\ x = v) \/ (k <> m /\ In (k, x) l).
Proof.
  induction l as [|[k' v'] r IH]; cbn; intros Hnd.
  - intros [[= <- <-]|[]]. now left.
  - inversion Hnd as [|? ? Hnotin Hnd']; subst.
    destruct (Nat.eqb m k') eqn:E; cbn.
    + apply Nat.eqb_eq in E. subst k'. intros [[= <- <-]|H]; [now left|].
      right. split; [|now right]. intros ->. apply Hnotin.
      apply in_map_iff. exists (m, x). auto.
    + intros [[= <- <-]|H].
      * right. split; [|now left]. intros ->. rewrite Nat.eqb_refl in E. discriminate.
      * destruct (IH Hnd' H) as [H1|[H1 H2]]; [now left|right; split; auto].
Qed.

Lemma assoc_in_nodup {V} n (l : list (name * V)) x :
  NoDup (map fst l) -> In (n, x) l -> assoc Nat.eqb n l = Some x.
Proof.
  induction l as [|[k v] r IH]; cbn; intros Hnd Hin; [tauto|].
  inversion Hnd as [|? ? Hnotin Hnd']; subst.
  destruct Hin as [[= -> ->]|Hin]; [now rewrite Nat.eqb_refl|].
  destruct (Nat.eqb n k) eqn:E; [|auto].
  apply Nat.eqb_eq in E. subst. exfalso. apply Hnotin. apply in_map_iff. exists (k, x). auto.
Qed.

Lemma assoc_some_in {V} n (l : list (name * V)) x : assoc Nat.eqb n l = Some x -> In (n, x) l.
Proof.
  induction l as [|[k v] r IH]; cbn; [discriminate|].
  destruct (Nat.eqb n k) eqn:E; [apply Nat.eqb_eq in E; subst; intros [= ->]; now left|auto].
Qed.

Lemma find_trig_in_nodup t l : NoDup (map tg_expr l) -> In t l -> find_trig (tg_expr t) l = Some t.
Proof.
  induction l as [|t' r IH]; cbn; intros Hnd Hin; [tauto|].
  inversion Hnd as [|? ? Hnotin Hnd']; subst.
  destruct Hin as [->|Hin]; [now rewrite toks_eqb_refl|].
  destruct (toks_eqb (tg_expr t) (tg_expr t')) eqn:E; [|auto].
  apply toks_eqb_true in E. exfalso. apply Hnotin. rewrite <- E. now apply in_map.
Qed.

Lemma find_trig_some e l t : find_trig e l = Some t -> In t l /\ tg_expr t = e.
Proof.
  induction l as [|t' r IH]; cbn; [discriminate|].
  destruct (toks_eqb e (tg_expr t')) eqn:E.
  - apply toks_eqb_true in E. intros [= ->]. auto.
  - intros H. destruct (IH H). auto.
Qed.

Lemma set_trig_ok tm n t :
  tm_inv tm ->
  (forall s', tg_expr t <> [] -> tm_has tm (n, tg_expr t, s') -> s' = tg_suicide t) ->
  exists tm', set_trig tm n t = Ok tm' /\ tm_inv tm'
    /\ (forall n' e s, e <> [] ->
          (tm_has tm' (n', e, s) <-> (tm_has tm (n', e, s) \/ (n', e, s) = (n, tg_expr t, tg_suicide t))))
    /\ (forall n', tm_task tm' n' <-> (tm_task tm n' \/ n' = n)).
Proof.
  intros [Hk Hl] Hc. unfold set_trig.
  set (cur := match assoc Nat.eqb n tm with Some l => l | None => [] end).
  assert (Hcur : NoDup (map tg_expr cur)).
  { unfold cur. destruct (assoc Nat.eqb n tm) as [l|] eqn:E; [|constructor].
    apply (Hl n). now apply assoc_some_in. }
  assert (Hclash : match find_trig (tg_expr t) cur with
                   | Some t0 => negb (is_nil (tg_expr t)) && xorb (tg_suicide t) (tg_suicide t0)
                   | None => false end = false).
  { destruct (find_trig (tg_expr t) cur) as [t0|] eqn:Ef; [|reflexivity].
    destruct (tg_expr t) as [|x r] eqn:Ee; [reflexivity|]. cbn [is_nil negb andb].
    assert (tg_suicide t0 = tg_suicide t).
    { apply Hc; [discriminate|]. unfold tm_has. unfold cur in Ef.
      destruct (assoc Nat.eqb n tm) as [l|] eqn:E; [|discriminate]. exists l, t0. auto. }
    rewrite H. apply xorb_nilpotent. }
  rewrite Hclash. eexists. split; [reflexivity|].
  set (tm' := upd Nat.eqb n (put_trig t cur) tm).
  split; [|split].
  - split; [now apply upd_nodup|].
    intros k l Hin. apply (upd_in _ _ _ _ _ Hk) in Hin. destruct Hin as [[-> ->]|[_ Hin]].
    + now apply put_trig_nodup.
    + eapply Hl; eauto.
  - intros n' e s He. unfold tm_has.
    destruct (Nat.eq_dec n' n) as [->|Hne].
    + unfold tm'. rewrite assoc_upd_same.
      split.
      * intros [l [t1 [[= <-] [Hf Hs]]]].
        destruct (list_eq_dec (fun a b => match Bool.bool_dec (tok_eqb a b) true with
                     | left H => left (proj1 (tok_eqb_true a b) H)
                     | right H => right (fun E => H (proj2 (tok_eqb_true a b) E)) end) e (tg_expr t))
          as [->|Hee].
        -- rewrite find_put_same in Hf. inversion Hf; subst. now right.
        -- rewrite find_put_other in Hf by exact Hee. left.
           unfold cur in Hf. destruct (assoc Nat.eqb n tm) as [l0|]; [|discriminate]. eauto.
      * intros [[l [t1 [Ha [Hf Hs]]]]|[= -> ->]].
        -- destruct (toks_eqb e (tg_expr t)) eqn:Ee.
           ++ apply toks_eqb_true in Ee. subst e.
              assert (Hst : s = tg_suicide t).
              { apply Hc; [exact He|]. unfold tm_has. eauto. }
              exists (put_trig t cur), t. split; [reflexivity|]. split; [apply find_put_same|auto].
           ++ exists (put_trig t cur), t1. split; [reflexivity|]. split; [|exact Hs].
              unfold cur. rewrite Ha.
              rewrite find_put_other; [exact Hf|]. intros ->. rewrite toks_eqb_refl in Ee. discriminate.
        -- exists (put_trig t cur), t. split; [reflexivity|]. split; [apply find_put_same|reflexivity].
    + unfold tm'. rewrite (assoc_upd_other n n' _ tm Hne).
      split; [intros H; now left|]. intros [H|[= E _ _]]; [exact H|contradiction].
  - intros n'. unfold tm_task, tm'. destruct (Nat.eq_dec n' n) as [->|Hne].
    + rewrite assoc_upd_same. split; [now right|discriminate].
    + rewrite (assoc_upd_other n n' _ tm Hne). split; [now left|]. intros [H|H]; [exact H|contradiction].
Qed.
