(* Proofs/BExprProofs.v — lemmas about Model/BExpr.v *)
From Coq Require Import List Bool Arith Lia.
From Cylc Require Import Base.Util Model.BExpr.
Import ListNotations.

Lemma mem_nat_In x l : mem Nat.eqb x l = true <-> In x l.
Proof. apply mem_In. intros a b. apply Nat.eqb_eq. Qed.

Lemma mem_nat_false x l : mem Nat.eqb x l = false <-> ~ In x l.
Proof. rewrite <- mem_nat_In. destruct (mem Nat.eqb x l); split; congruence. Qed.

(* ---------- joins ---------- *)
Lemma eval_fold_and s r e :
  eval s (fold_left BAnd r e) = eval s e && forallb (eval s) r.
Proof.
  revert e; induction r as [|x r IH]; intros e; cbn; [now rewrite andb_true_r|].
  rewrite IH. cbn. now rewrite andb_assoc.
Qed.

Lemma eval_fold_or s r e :
  eval s (fold_left BOr r e) = eval s e || existsb (eval s) r.
Proof.
  revert e; induction r as [|x r IH]; intros e; cbn; [now rewrite orb_false_r|].
  rewrite IH. cbn. now rewrite orb_assoc.
Qed.

Lemma eval_conj_list s es c :
  conj_list es = Some c -> eval s c = forallb (eval s) es.
Proof. destruct es as [|e r]; cbn; [discriminate|]. intros [= <-]. apply eval_fold_and. Qed.

Lemma eval_disj_list s es d :
  disj_list es = Some d -> eval s d = existsb (eval s) es.
Proof. destruct es as [|e r]; cbn; [discriminate|]. intros [= <-]. apply eval_fold_or. Qed.

Lemma forallb_eval_vars s l : forallb (eval s) (map BVar l) = forallb s l.
Proof. induction l as [|x l IH]; cbn; [reflexivity|]. now rewrite IH. Qed.

Lemma vars_fold (op : bexpr -> bexpr -> bexpr) r e :
  (forall a b, vars (op a b) = vars a ++ vars b) ->
  forall x, In x (vars (fold_left op r e)) <-> In x (vars e) \/ exists y, In y r /\ In x (vars y).
Proof.
  intros Hop. revert e; induction r as [|y r IH]; intros e x; cbn.
  - split; [auto|]. intros [H|[y [[] _]]]; exact H.
  - rewrite IH, Hop, in_app_iff. split.
    + intros [[H|H]|[z [Hz Hx]]]; eauto.
    + intros [H|[z [[<-|Hz] Hx]]]; eauto.
Qed.

Lemma vars_conj_list es c x :
  conj_list es = Some c -> (In x (vars c) <-> exists y, In y es /\ In x (vars y)).
Proof.
  destruct es as [|e r]; cbn; [discriminate|]. intros [= <-].
  rewrite vars_fold by reflexivity. split.
  - intros [H|[y [Hy Hx]]]; eauto.
  - intros [y [[<-|Hy] Hx]]; eauto.
Qed.

Lemma vars_disj_list es c x :
  disj_list es = Some c -> (In x (vars c) <-> exists y, In y es /\ In x (vars y)).
Proof.
  destruct es as [|e r]; cbn; [discriminate|]. intros [= <-].
  rewrite vars_fold by reflexivity. split.
  - intros [H|[y [Hy Hx]]]; eauto.
  - intros [y [[<-|Hy] Hx]]; eauto.
Qed.

(* ---------- partial vs total evaluation ---------- *)
(* when every name the expression mentions is bound, Python's short-circuit
   evaluation never raises and computes the ordinary truth value *)
Lemma evalo_total rho s e :
  (forall a, In a (vars e) -> rho a = Some (s a)) ->
  evalo rho e = Some (eval s e).
Proof.
  induction e as [a|l IHl r IHr|l IHl r IHr]; cbn; intros H.
  - apply H. now left.
  - rewrite IHl by (intros a Ha; apply H, in_or_app; now left).
    destruct (eval s l); cbn; [|reflexivity].
    apply IHr. intros a Ha; apply H, in_or_app; now right.
  - rewrite IHl by (intros a Ha; apply H, in_or_app; now left).
    destruct (eval s l); cbn; [reflexivity|].
    apply IHr. intros a Ha; apply H, in_or_app; now right.
Qed.

(* a successful partial evaluation agrees with any total completion of the
   environment *)
Lemma evalo_sound rho s e b :
  (forall a v, rho a = Some v -> s a = v) ->
  evalo rho e = Some b -> eval s e = b.
Proof.
  intros Hs. revert b; induction e as [a|l IHl r IHr|l IHl r IHr]; cbn; intros b.
  - apply Hs.
  - destruct (evalo rho l) as [[|]|]; try discriminate.
    + rewrite (IHl true eq_refl). cbn. apply IHr.
    + rewrite (IHl false eq_refl). cbn. congruence.
  - destruct (evalo rho l) as [[|]|]; try discriminate.
    + rewrite (IHl true eq_refl). cbn. congruence.
    + rewrite (IHl false eq_refl). cbn. apply IHr.
Qed.

(* the value only depends on the atoms that occur *)
Lemma eval_ext s1 s2 e :
  (forall a, In a (vars e) -> s1 a = s2 a) -> eval s1 e = eval s2 e.
Proof.
  induction e as [a|l IHl r IHr|l IHl r IHr]; cbn; intros H.
  - apply H. now left.
  - rewrite IHl, IHr; auto; intros a Ha; apply H, in_or_app; auto.
  - rewrite IHl, IHr; auto; intros a Ha; apply H, in_or_app; auto.
Qed.

Lemma evalo_ext r1 r2 e :
  (forall a, In a (vars e) -> r1 a = r2 a) -> evalo r1 e = evalo r2 e.
Proof.
  induction e as [a|l IHl r IHr|l IHl r IHr]; cbn; intros H.
  - apply H. now left.
  - rewrite IHl, IHr; auto; intros a Ha; apply H, in_or_app; auto.
  - rewrite IHl, IHr; auto; intros a Ha; apply H, in_or_app; auto.
Qed.

(* ---------- monotonicity: and/or expressions have no negation ---------- *)
Definition le_env (s1 s2 : nat -> bool) : Prop := forall a, s1 a = true -> s2 a = true.

Lemma eval_mono s1 s2 e : le_env s1 s2 -> eval s1 e = true -> eval s2 e = true.
Proof.
  intros Hle. induction e as [a|l IHl r IHr|l IHl r IHr]; cbn.
  - apply Hle.
  - rewrite !andb_true_iff. intros [H1 H2]. auto.
  - rewrite !orb_true_iff. intros [H|H]; auto.
Qed.

Lemma eval_mono_false s1 s2 e : le_env s1 s2 -> eval s2 e = false -> eval s1 e = false.
Proof.
  intros Hle H. destruct (eval s1 e) eqn:E; [|reflexivity].
  rewrite (eval_mono _ _ _ Hle E) in H. discriminate.
Qed.

Lemma uses_In e a : uses e a = true <-> In a (vars e).
Proof. apply mem_nat_In. Qed.
