(* Proofs/EnvFilterProofs.v — lemmas about Model/EnvFilter.v *)
From Coq Require Import List ZArith Bool Lia.
From Cylc Require Import Base.Util Model.Shell Model.EnvFilter.
Import ListNotations.

(* order-preserving sub-sequence *)
Inductive sublist {A} : list A -> list A -> Prop :=
| sl_nil : sublist [] []
| sl_keep : forall x s l, sublist s l -> sublist (x :: s) (x :: l)
| sl_drop : forall x s l, sublist s l -> sublist s (x :: l).

Lemma filter_sublist {A} (f : A -> bool) l : sublist (filter f l) l.
Proof. induction l as [|x l IH]; cbn; [constructor|]. destruct (f x); now constructor. Qed.

Lemma filter_all_true {A} (f : A -> bool) l : (forall x, f x = true) -> filter f l = l.
Proof. intros H. induction l as [|x l IH]; cbn; [reflexivity|]. now rewrite H, IH. Qed.

Lemma filter_env_is_filter incl excl e :
  filter_env incl excl e = filter (fun kv => keep incl excl (fst kv)) e.
Proof.
  unfold filter_env. destruct incl as [|i incl]; [|reflexivity].
  destruct excl as [|x excl]; [|reflexivity].
  symmetry. apply filter_all_true. intros kv. reflexivity.
Qed.

Lemma filter_env_sublist incl excl e : sublist (filter_env incl excl e) e.
Proof. rewrite filter_env_is_filter. apply filter_sublist. Qed.

Lemma filter_env_In incl excl e k v :
  In (k, v) (filter_env incl excl e) <-> In (k, v) e /\ keep incl excl k = true.
Proof. rewrite filter_env_is_filter, filter_In. reflexivity. Qed.

Lemma filter_env_order incl excl l1 a l2 b l3 :
  keep incl excl (fst a) = true -> keep incl excl (fst b) = true ->
  filter_env incl excl (l1 ++ a :: l2 ++ b :: l3) =
  filter_env incl excl l1 ++ a :: filter_env incl excl l2 ++ b :: filter_env incl excl l3.
Proof.
  intros Ha Hb. rewrite !filter_env_is_filter.
  rewrite filter_app. cbn [filter]. rewrite Ha. rewrite filter_app. cbn [filter]. rewrite Hb.
  reflexivity.
Qed.

(* inheritance keeps the order of what is already there and appends new keys *)
Lemma set_key_keys e k v : exists extra, map fst (set_key e k v) = map fst e ++ extra.
Proof.
  induction e as [|[k' v'] r [extra IH]]; cbn.
  - now exists [k].
  - destruct (str_eqb k' k); cbn.
    + exists []. now rewrite app_nil_r.
    + exists extra. now rewrite IH.
Qed.

Lemma merge_keys source : forall target,
  exists extra, map fst (merge target source) = map fst target ++ extra.
Proof.
  unfold merge. induction source as [|[k v] s IH]; intros target; cbn.
  - exists []. now rewrite app_nil_r.
  - destruct (IH (set_key target k v)) as [e2 H2]. destruct (set_key_keys target k v) as [e1 H1].
    exists (e1 ++ e2). cbn [fst snd] in *. rewrite H2, H1. now rewrite app_assoc.
Qed.
