(* Proofs/StoreProofs.v — lemmas about Model/Store.v (C25). *)
From Coq Require Import List Bool NArith Lia.
From Cylc Require Import Base.Util Gen.StoreTables Model.Store.
Import ListNotations.

(* ------------------------------------------------------------------ *)
(* 1. task-proxy nodes under MergeFrom: a monoid                        *)
(* ------------------------------------------------------------------ *)
Lemma Neqb_eq a b : N.eqb a b = true <-> a = b.
Proof. apply N.eqb_eq. Qed.

Lemma oor_assoc {A} (a b c : option A) : oor a (oor b c) = oor (oor a b) c.
Proof. destruct a, b; reflexivity. Qed.
Lemma oor_none_r {A} (a : option A) : oor a None = a.
Proof. destruct a; reflexivity. Qed.
Lemma oor_self {A} (a : option A) : oor a a = a.
Proof. destruct a; reflexivity. Qed.

Lemma filter_all_true {A} (f : A -> bool) l : (forall x, In x l -> f x = true) -> filter f l = l.
Proof.
  induction l as [|x r IH]; intros H; cbn; [reflexivity|].
  rewrite (H x (or_introl eq_refl)). f_equal. apply IH. intros y Hy. apply H. right; exact Hy.
Qed.
Lemma filter_all_false {A} (f : A -> bool) l : (forall x, In x l -> f x = false) -> filter f l = [].
Proof.
  induction l as [|x r IH]; intros H; cbn; [reflexivity|].
  rewrite (H x (or_introl eq_refl)). apply IH. intros y Hy. apply H. right; exact Hy.
Qed.
Lemma filter_filter {A} (f g : A -> bool) l : filter f (filter g l) = filter (fun x => g x && f x) l.
Proof.
  induction l as [|x r IH]; cbn; [reflexivity|].
  destruct (g x); cbn; [destruct (f x); cbn; rewrite IH; reflexivity|exact IH].
Qed.
Lemma filter_ext_in' {A} (f g : A -> bool) l : (forall x, In x l -> f x = g x) -> filter f l = filter g l.
Proof. apply filter_ext_in. Qed.

Lemma mem_keys_in k (b : list (N * bool)) : mem N.eqb k (okeys b) = true <-> exists v, In (k, v) b.
Proof.
  unfold okeys. rewrite (mem_In N.eqb Neqb_eq). rewrite in_map_iff. split.
  - intros [[k' v] [E H]]; cbn in E; subst. exists v; exact H.
  - intros [v H]. exists (k, v). split; [reflexivity|exact H].
Qed.

Lemma mem_app {A} (eqb : A -> A -> bool) x l1 l2 : mem eqb x (l1 ++ l2) = mem eqb x l1 || mem eqb x l2.
Proof. induction l1 as [|y r IH]; cbn; [reflexivity|]. rewrite IH, orb_assoc. reflexivity. Qed.

Lemma mem_keys_filter k (b a : list (N * bool)) :
  mem N.eqb k (okeys (filter (not_in_keys b) a)) = negb (mem N.eqb k (okeys b)) && mem N.eqb k (okeys a).
Proof.
  induction a as [|[k' v] r IH]; [cbn; rewrite andb_false_r; reflexivity|].
  cbn [filter]. destruct (not_in_keys b (k', v)) eqn:E; unfold not_in_keys in E; cbn [fst] in E.
  - cbn [okeys map mem fst]. fold (okeys (filter (not_in_keys b) r)). fold (okeys r). rewrite IH.
    destruct (N.eqb k k') eqn:E2; cbn; [|reflexivity].
    apply N.eqb_eq in E2; subst. rewrite E; reflexivity.
  - rewrite IH. cbn [okeys map mem fst]. fold (okeys r).
    destruct (N.eqb k k') eqn:E2; cbn; [|reflexivity].
    apply N.eqb_eq in E2; subst. apply negb_false_iff in E. rewrite E; reflexivity.
Qed.

Lemma merge_outs_nil_r a : merge_outs a [] = a.
Proof. unfold merge_outs; cbn. apply filter_all_true. reflexivity. Qed.
Lemma merge_outs_nil_l b : merge_outs [] b = b.
Proof. unfold merge_outs; cbn. apply app_nil_r. Qed.
Lemma merge_outs_self a : merge_outs a a = a.
Proof.
  unfold merge_outs. rewrite filter_all_false; [apply app_nil_r|].
  intros [k v] H. unfold not_in_keys; cbn. apply negb_false_iff. apply mem_keys_in. exists v; exact H.
Qed.
Lemma okeys_app a b : okeys (a ++ b) = okeys a ++ okeys b.
Proof. apply map_app. Qed.
Lemma nik_merge b c x : not_in_keys (c ++ filter (not_in_keys c) b) x = not_in_keys b x && not_in_keys c x.
Proof.
  destruct x as [k v].
  assert (H : forall l, not_in_keys l (k, v) = negb (mem N.eqb k (okeys l))) by reflexivity.
  rewrite !H, okeys_app, mem_app, mem_keys_filter.
  destruct (mem N.eqb k (okeys b)), (mem N.eqb k (okeys c)); reflexivity.
Qed.
Lemma merge_outs_assoc a b c : merge_outs (merge_outs a b) c = merge_outs a (merge_outs b c).
Proof.
  unfold merge_outs. rewrite filter_app, <- app_assoc. f_equal. f_equal.
  rewrite filter_filter. apply filter_ext_in'. intros x _. symmetry. apply nik_merge.
Qed.

(* the tables this development was proved for (Gen/StoreTables.v) *)
Lemma tables : clear_outputs = false /\ clear_prerequisites = true /\ clear_edges = false
               /\ reset_task_proxies = true
               /\ rule_is_held = true /\ rule_is_queued = true /\ rule_is_runahead = true.
Proof. repeat split; reflexivity. Qed.

Ltac nproj := cbn [n_state n_held n_queued n_runahead n_flows n_outputs n_prereqs n_edges].

Definition selp {A} (u n : list A) : list A := if nonempty u then u else n.
Lemma upd_node_eq n u :
  upd_node n u = mkNode (oor (n_state u) (n_state n)) (oor (n_held u) (n_held n)) (oor (n_queued u) (n_queued n))
                        (oor (n_runahead u) (n_runahead n)) (oor (n_flows u) (n_flows n))
                        (merge_outs (n_outputs n) (n_outputs u)) (selp (n_prereqs u) (n_prereqs n))
                        (n_edges n ++ n_edges u).
Proof.
  unfold upd_node, merge_from, clear_listed, selp; cbn.
  change clear_outputs with false; change clear_prerequisites with true; change clear_edges with false; cbn.
  destruct (n_prereqs u); cbn; [rewrite app_nil_r|]; reflexivity.
Qed.

Lemma selp_assoc {A} (a b c : list A) : selp a (selp b c) = selp (selp a b) c.
Proof. unfold selp. destruct a, b; reflexivity. Qed.
Lemma selp_self {A} (a : list A) : selp a a = a.
Proof. unfold selp; destruct a; reflexivity. Qed.

Lemma upd_assoc n u v : upd_node (upd_node n u) v = upd_node n (upd_node u v).
Proof.
  rewrite !upd_node_eq; nproj. rewrite !oor_assoc, merge_outs_assoc, selp_assoc, app_assoc. reflexivity.
Qed.
Lemma upd_empty_r n : upd_node n empty_node = n.
Proof.
  rewrite upd_node_eq; unfold empty_node; nproj. rewrite merge_outs_nil_r, app_nil_r.
  destruct n; reflexivity.
Qed.
Lemma upd_empty_l u : upd_node empty_node u = u.
Proof.
  rewrite upd_node_eq; unfold empty_node; nproj. rewrite !oor_none_r, merge_outs_nil_l. unfold selp.
  destruct u as [a b c d e f g h]; nproj. destruct g; reflexivity.
Qed.
Lemma fold_upd l n : fold_left upd_node l n = upd_node n (fold_left upd_node l empty_node).
Proof.
  revert n. induction l as [|u r IH]; intros n; cbn; [symmetry; apply upd_empty_r|].
  rewrite IH. rewrite (IH (upd_node empty_node u)). rewrite upd_empty_l, upd_assoc. reflexivity.
Qed.

(* everything but the repeated non-cleared field *)
Definition strip (n : node) : node :=
  mkNode (n_state n) (n_held n) (n_queued n) (n_runahead n) (n_flows n) (n_outputs n) (n_prereqs n) [].
Lemma strip_upd a b : strip (upd_node a b) = upd_node (strip a) (strip b).
Proof. rewrite !upd_node_eq; reflexivity. Qed.
Lemma strip_idem a : strip (strip a) = strip a.
Proof. reflexivity. Qed.
Lemma strip_upd_self u : strip (upd_node u u) = strip u.
Proof.
  rewrite upd_node_eq; unfold strip; nproj. rewrite !oor_self, merge_outs_self, selp_self. reflexivity.
Qed.
Lemma strip_fold l n : strip (fold_left upd_node l n) = fold_left upd_node (map strip l) (strip n).
Proof. revert n; induction l as [|u r IH]; intros n; cbn; [reflexivity|]. rewrite IH, strip_upd. reflexivity. Qed.

(* ------------------------------------------------------------------ *)
(* 2. stores and the closed form of apply_delta                         *)
(* ------------------------------------------------------------------ *)
Lemma sget_sset {A} i j (n : A) s : sget i (sset j n s) = if N.eqb i j then Some n else sget i s.
Proof.
  induction s as [|[k m] r IH]; cbn.
  - destruct (N.eqb i j); reflexivity.
  - destruct (N.eqb j k) eqn:E; cbn.
    + apply N.eqb_eq in E; subst. destruct (N.eqb i k); reflexivity.
    + rewrite IH. destruct (N.eqb i k) eqn:E2; [|reflexivity].
      apply N.eqb_eq in E2; subst. rewrite N.eqb_sym, E. reflexivity.
Qed.
Lemma sget_sdel {A} i j (s : list (id * A)) : sget i (sdel j s) = if N.eqb i j then None else sget i s.
Proof.
  induction s as [|[k m] r IH]; cbn.
  - destruct (N.eqb i j); reflexivity.
  - destruct (N.eqb j k) eqn:E; cbn.
    + rewrite IH. apply N.eqb_eq in E; subst. destruct (N.eqb i k); reflexivity.
    + rewrite IH. destruct (N.eqb i k) eqn:E2; [|reflexivity].
      apply N.eqb_eq in E2; subst. rewrite N.eqb_sym, E. reflexivity.
Qed.

(* the last element with id i *)
Fixpoint last_of (i : id) (l : list (id * node)) : option node :=
  match l with
  | [] => None
  | (j, a) :: r => match last_of i r with Some x => Some x | None => if N.eqb j i then Some a else None end
  end.

Lemma sget_adds i l s :
  sget i (fold_left add_step l s) = match last_of i l with Some a => Some a | None => sget i s end.
Proof.
  revert s; induction l as [|[j a] r IH]; intros s; cbn; [reflexivity|].
  rewrite IH. destruct (last_of i r); [reflexivity|].
  unfold add_step; cbn. rewrite sget_sset, N.eqb_sym. destruct (N.eqb j i); reflexivity.
Qed.

Lemma sel_cons_same i u l : sel i ((i, u) :: l) = u :: sel i l.
Proof. unfold sel; cbn. rewrite N.eqb_refl. reflexivity. Qed.
Lemma sel_cons_other i j u l : N.eqb j i = false -> sel i ((j, u) :: l) = sel i l.
Proof. intros E. unfold sel; cbn. rewrite E. reflexivity. Qed.

Lemma sget_upds i l s :
  sget i (fold_left upd_step l s) = option_map (fold_left upd_node (sel i l)) (sget i s).
Proof.
  revert s; induction l as [|[j u] r IH]; intros s; cbn [fold_left].
  - cbn. destruct (sget i s); reflexivity.
  - rewrite IH. unfold upd_step; cbn [fst snd].
    destruct (N.eqb j i) eqn:E.
    + apply N.eqb_eq in E; subst. rewrite sel_cons_same.
      destruct (sget i s) as [n|] eqn:G; [rewrite sget_sset, N.eqb_refl|rewrite G]; reflexivity.
    + rewrite (sel_cons_other _ _ _ _ E).
      destruct (sget j s) as [n|]; [|reflexivity]. rewrite sget_sset, N.eqb_sym, E. reflexivity.
Qed.

Lemma sget_prunes i l s :
  sget i (fold_left prune_step l s) = if mem N.eqb i l then None else sget i s.
Proof.
  revert s; induction l as [|j r IH]; intros s; cbn; [reflexivity|].
  rewrite IH. unfold prune_step. rewrite sget_sdel.
  destruct (N.eqb i j); cbn; [destruct (mem N.eqb i r); reflexivity|reflexivity].
Qed.

Definition base_of (i : id) (added : list (id * node)) (s : store) : option node :=
  match last_of i added with Some a => Some a | None => sget i s end.

Lemma apply_get i d s :
  sget i (apply_delta d s) =
  if mem N.eqb i (d_pruned d) then None
  else option_map (fold_left upd_node (sel i (d_updated d))) (base_of i (d_added d) s).
Proof. unfold apply_delta, base_of. rewrite sget_prunes, sget_upds, sget_adds. reflexivity. Qed.

(* equality of stores up to the non-cleared repeated field, and plain *)
Definition seq (a b : store) : Prop := forall i, option_map strip (sget i a) = option_map strip (sget i b).
Definition seq_strict (a b : store) : Prop := forall i, sget i a = sget i b.
Lemma seq_refl a : seq a a. Proof. intros i; reflexivity. Qed.
Lemma seq_trans a b c : seq a b -> seq b c -> seq a c.
Proof. intros H1 H2 i. rewrite H1. apply H2. Qed.
Lemma seq_sym a b : seq a b -> seq b a.
Proof. intros H i. symmetry. apply H. Qed.

Lemma omap_strip_fold l (o o' : option node) :
  option_map strip o = option_map strip o' ->
  option_map strip (option_map (fold_left upd_node l) o) = option_map strip (option_map (fold_left upd_node l) o').
Proof.
  destruct o as [n|], o' as [n'|]; cbn; try discriminate; [|reflexivity].
  intros E. assert (E' : strip n = strip n') by congruence. rewrite !strip_fold, E'. reflexivity.
Qed.

(* apply_delta respects the equivalence *)
Lemma apply_congr d a b : seq a b -> seq (apply_delta d a) (apply_delta d b).
Proof.
  intros H i. rewrite !apply_get. destruct (mem N.eqb i (d_pruned d)); [reflexivity|].
  apply omap_strip_fold. unfold base_of. destruct (last_of i (d_added d)); [reflexivity|apply H].
Qed.

(* ---- the aliasing of the batch's added elements ---- *)
Lemma last_of_none_mem i l : last_of i l = None <-> mem N.eqb i (map fst l) = false.
Proof.
  induction l as [|[j a] r IH]; cbn; [tauto|].
  destruct (last_of i r) eqn:E.
  - split; [discriminate|]. intros H. apply orb_false_iff in H. destruct H as [_ H].
    apply IH in H. discriminate.
  - rewrite (N.eqb_sym i j). destruct (N.eqb j i); cbn; [split; discriminate|]. tauto.
Qed.

Lemma last_of_alias i l us :
  last_of i (alias_added l us) =
  option_map (fold_left upd_node (alias_merges (sel i us))) (last_of i l).
Proof.
  induction l as [|[j a] r IH]; cbn [alias_added last_of]; [reflexivity|].
  destruct (mem N.eqb j (map fst r)) eqn:M; cbn [last_of]; rewrite IH.
  - destruct (last_of i r) eqn:E; cbn; [reflexivity|].
    destruct (N.eqb j i) eqn:E2; [|reflexivity].
    apply N.eqb_eq in E2; subst. apply last_of_none_mem in E. congruence.
  - destruct (last_of i r) eqn:E; cbn; [reflexivity|].
    destruct (N.eqb j i) eqn:E2; [|reflexivity].
    apply N.eqb_eq in E2; subst. reflexivity.
Qed.

Lemma alias_absorbed l a :
  strip (fold_left upd_node l (fold_left upd_node (alias_merges l) a)) = strip (fold_left upd_node l a).
Proof.
  unfold alias_merges. change reset_task_proxies with true. cbn iota.
  destruct l as [|u r]; [reflexivity|]. cbn.
  rewrite !strip_fold. f_equal. rewrite upd_assoc, strip_upd, strip_upd_self, <- strip_upd. reflexivity.
Qed.

Lemma apply_alias d s : seq (apply_delta (alias_delta d) s) (apply_delta d s).
Proof.
  intros i. rewrite !apply_get. unfold alias_delta; cbn [d_pruned d_updated d_added].
  destruct (mem N.eqb i (d_pruned d)); [reflexivity|].
  unfold base_of. rewrite last_of_alias.
  destruct (last_of i (d_added d)) as [a|]; cbn; [|reflexivity].
  f_equal. apply alias_absorbed.
Qed.

(* applying the same (not `reloaded`) delta twice changes nothing but the non-cleared repeated field *)
Lemma fold_twice l n : strip (fold_left upd_node l (fold_left upd_node l n)) = strip (fold_left upd_node l n).
Proof.
  rewrite (fold_upd l n). rewrite (fold_upd l (upd_node n _)).
  rewrite upd_assoc, strip_upd, strip_upd_self, <- strip_upd. reflexivity.
Qed.
Lemma apply_twice d s : seq (apply_delta d (apply_delta d s)) (apply_delta d s).
Proof.
  intros i. rewrite (apply_get i d (apply_delta d s)).
  destruct (mem N.eqb i (d_pruned d)) eqn:P; [rewrite apply_get, P; reflexivity|].
  unfold base_of at 1. destruct (last_of i (d_added d)) as [a|] eqn:L.
  - rewrite apply_get, P. unfold base_of. rewrite L. reflexivity.
  - rewrite (apply_get i d s), P. unfold base_of. rewrite L.
    destruct (sget i s) as [n|]; cbn; [|reflexivity]. f_equal. apply fold_twice.
Qed.

Lemma replica_snoc q d : replica (q ++ [d]) = client_apply (replica q) d.
Proof. unfold replica. rewrite fold_left_app. reflexivity. Qed.

Lemma client_congr d a b : seq a b -> seq (client_apply a d) (client_apply b d).
Proof. intros H. unfold client_apply. destruct (d_reloaded d); [apply seq_refl|apply apply_congr, H]. Qed.
Lemma client_twice d r : seq (client_apply (client_apply r d) d) (client_apply r d).
Proof. unfold client_apply. destruct (d_reloaded d); [apply seq_refl|apply apply_twice]. Qed.

(* ------------------------------------------------------------------ *)
(* 3. the client replica equals the scheduler's store                   *)
(* ------------------------------------------------------------------ *)
Definition INV (s : mgr) : Prop :=
  seq (replica (s_queue s ++ outstanding s)) (s_data s)
  /\ (s_pubpend s = false -> exists q, s_queue s = q ++ [s_pub s]).

Lemma INV_init : INV (init_mgr []).
Proof.
  split; [|discriminate]. unfold outstanding; cbn. intros i. reflexivity.
Qed.

Lemma step_delta_frame s o : is_delta_op o = true ->
  s_data (step s o) = s_data s /\ s_queue (step s o) = s_queue s
  /\ s_pub (step s o) = s_pub s /\ s_pubpend (step s o) = s_pubpend s.
Proof.
  destruct o; cbn [is_delta_op]; try discriminate; intros _; cbn [step].
  - destruct (shas i (s_data s) || shas i (s_added s)); [repeat split|]. destruct p; repeat split.
  - destruct (sget i (s_added s)); repeat split.
  - destruct (fetch s i); repeat split.
  - destruct (fetch s i); repeat split.
  - repeat split.
  - destruct (fetch s i); repeat split.
  - destruct (fetch s i); repeat split.
  - destruct (fetch s i); repeat split.
  - repeat split.
  - repeat split.
Qed.

Lemma INV_delta s o : is_delta_op o = true -> INV s -> INV (step s o).
Proof.
  intros D [H K]. destruct (step_delta_frame s o D) as (E1 & E2 & E3 & E4).
  unfold INV, outstanding. rewrite E1, E2, E3, E4. split; assumption.
Qed.

Lemma INV_put s f : INV s -> INV (step s (OpPut f)) /\ (f = false -> s_pubpend (step s (OpPut f)) = false).
Proof.
  intros [H K]. unfold INV, outstanding in *. destruct f; cbn [step].
  - (* forced: the same delta once more *)
    split; [|discriminate]. cbn [s_data s_queue s_pub s_pubpend]. split.
    + destruct (s_pubpend s) eqn:P.
      * rewrite replica_snoc, replica_snoc.
        eapply seq_trans; [apply client_twice|]. rewrite <- replica_snoc. exact H.
      * rewrite app_nil_r in *. destruct (K eq_refl) as [q Q]. rewrite Q in *.
        rewrite replica_snoc, replica_snoc. eapply seq_trans; [apply client_twice|].
        rewrite <- replica_snoc. exact H.
    + intros _. exists (s_queue s). reflexivity.
  - destruct (s_pubpend s) eqn:P.
    + cbn [s_data s_queue s_pub s_pubpend]. split; [split|reflexivity].
      * rewrite app_nil_r. exact H.
      * intros _. exists (s_queue s). reflexivity.
    + rewrite P. split; [split; assumption|reflexivity].
Qed.

Lemma INV_batch s upd dd : INV s -> s_pubpend s = false -> INV (batch_apply_publish s upd dd).
Proof.
  intros [H K] P. unfold INV, outstanding in *. rewrite P in H. rewrite app_nil_r in H.
  unfold batch_apply_publish. cbn [s_data s_queue s_pub s_pubpend]. split; [|discriminate].
  rewrite replica_snoc. unfold client_apply. cbn [alias_delta d_reloaded].
  eapply seq_trans; [apply apply_alias|]. apply apply_congr. exact H.
Qed.

Lemma INV_update s b : INV s -> s_pubpend s = false -> INV (step s (OpUpdate b)).
Proof.
  intros I P. cbn [step]. destruct b.
  - pose proof (INV_batch s (dedupe s) [] I P) as [H K]. split; [exact H|exact K].
  - destruct I as [H K]. destruct (s_pending s); split; cbn; assumption.
Qed.

Lemma INV_wfstates s : INV s -> s_pubpend s = false -> INV (step s OpWfStates).
Proof. intros I P. apply INV_batch; assumption. Qed.

Lemma INV_reinit s : INV s -> INV (step s (OpInit false)).
Proof.
  intros _. cbn [step]. unfold INV, init_mgr, outstanding. cbn [s_data s_queue s_pub s_pubpend].
  split; [|discriminate]. rewrite replica_snoc. unfold client_apply, init_pub; cbn. apply seq_refl.
Qed.

Lemma run_app s a b : run s (a ++ b) = run (run s a) b.
Proof. unfold run. apply fold_left_app. Qed.

Lemma INV_sop s o : INV s -> INV (run s (expand1 o)).
Proof.
  intros I. destruct o as [o|b| | |]; cbn [expand1].
  - destruct (is_delta_op o) eqn:D; cbn; [apply INV_delta; assumption|exact I].
  - cbn [run fold_left]. destruct (INV_put s false I) as [I1 P1].
    pose proof (INV_update _ b I1 (P1 eq_refl)) as I2. apply (INV_put _ false I2).
  - cbn [run fold_left]. destruct (INV_put s false I) as [I1 P1].
    pose proof (INV_wfstates _ I1 (P1 eq_refl)) as I2. apply (INV_put _ false I2).
  - cbn [run fold_left]. destruct (INV_put s false I) as [I1 P1].
    pose proof (INV_wfstates _ I1 (P1 eq_refl)) as I2. destruct (INV_put _ false I2) as [I3 _].
    apply INV_reinit. exact I3.
  - cbn [run fold_left]. apply (INV_put s true I).
Qed.

Lemma INV_run p s : INV s -> INV (run s (expand p)).
Proof.
  revert s; induction p as [|o r IH]; intros s I; [exact I|].
  unfold expand; cbn [flat_map]. rewrite run_app. apply IH. apply INV_sop. exact I.
Qed.

Theorem replica_equals_store p :
  let s := sched_run p in seq (replica (s_queue s ++ outstanding s)) (s_data s).
Proof. cbn. apply (INV_run p (init_mgr []) INV_init). Qed.

(* after Scheduler.update_data_structure / _update_workflow_state nothing is outstanding *)
Lemma nothing_outstanding s o : (exists b, o = SUpdate b) \/ o = SWfState ->
  INV s -> outstanding (run s (expand1 o)) = [].
Proof.
  intros [[b ->]| ->] I; cbn [expand1 run fold_left]; unfold outstanding.
  - destruct (INV_put s false I) as [I1 P1]. pose proof (INV_update _ b I1 (P1 eq_refl)) as I2.
    destruct (INV_put _ false I2) as [_ P3]. rewrite (P3 eq_refl). reflexivity.
  - destruct (INV_put s false I) as [I1 P1]. pose proof (INV_wfstates _ I1 (P1 eq_refl)) as I2.
    destruct (INV_put _ false I2) as [_ P3]. rewrite (P3 eq_refl). reflexivity.
Qed.

Theorem replica_equals_store_after_update p o :
  (exists b, o = SUpdate b) \/ o = SWfState ->
  let s := sched_run (p ++ [o]) in seq (replica (s_queue s)) (s_data s).
Proof.
  intros Ho. cbn. unfold sched_run, expand. rewrite flat_map_app, run_app. cbn [flat_map]. rewrite app_nil_r.
  pose proof (INV_run p (init_mgr []) INV_init) as I. fold (expand p) in *.
  pose proof (INV_sop _ o I) as [H _]. rewrite (nothing_outstanding _ o Ho I), app_nil_r in H. exact H.
Qed.

(* ------------------------------------------------------------------ *)
(* 4. the store reflects the pool                                       *)
(* ------------------------------------------------------------------ *)
Definition reflects (n : node) (p : pv) : Prop :=
  n_state n = Some (p_state p) /\ getb (n_held n) = p_held p /\ getb (n_queued n) = p_queued p
  /\ getb (n_runahead n) = p_runahead p /\ n_flows n = Some (p_flows p)
  /\ (forall k, assoc N.eqb k (n_outputs n) = assoc N.eqb k (p_outputs p))
  /\ n_prereqs n = p_prereqs p.

(* the rule of delta_task_state never loses an update *)
Lemma rule_flag_ok t d v : getb (oor (rule_flag true t d v) t) = v.
Proof.
  unfold rule_flag. destruct (Bool.eqb (getb t) v) eqn:E1; cbn; [|reflexivity].
  destruct (Bool.eqb (getb d) v) eqn:E2; cbn; [|reflexivity].
  apply eqb_prop in E1, E2. destruct d; cbn in *; assumption.
Qed.
Lemma opt_eqb_N a b : option_eqb N.eqb a b = true <-> a = b.
Proof.
  destruct a, b; cbn; try (split; [discriminate|intros E; inversion E]); [|tauto].
  rewrite N.eqb_eq. split; [intros ->; reflexivity|intros E; inversion E; reflexivity].
Qed.
Lemma rule_state_ok t d v : oor (rule_state t d v) t = Some v.
Proof.
  unfold rule_state. destruct (option_eqb N.eqb t (Some v)) eqn:E1; cbn; [|reflexivity].
  destruct (option_eqb N.eqb d (Some v)) eqn:E2; cbn; [|reflexivity].
  apply opt_eqb_N in E2; subst. reflexivity.
Qed.

Lemma assoc_app {B} k (a b : list (N * B)) :
  assoc N.eqb k (a ++ b) = match assoc N.eqb k a with Some v => Some v | None => assoc N.eqb k b end.
Proof. induction a as [|[k' v] r IH]; cbn; [reflexivity|]. destruct (N.eqb k k'); [reflexivity|exact IH]. Qed.
Lemma assoc_none_mem k (b : list (N * bool)) : assoc N.eqb k b = None <-> mem N.eqb k (okeys b) = false.
Proof.
  induction b as [|[k' v] r IH]; cbn; [tauto|].
  destruct (N.eqb k k'); cbn; [split; discriminate|exact IH].
Qed.
Lemma assoc_filter_nik k (b a : list (N * bool)) :
  assoc N.eqb k (filter (not_in_keys b) a) = if mem N.eqb k (okeys b) then None else assoc N.eqb k a.
Proof.
  induction a as [|[k' v] r IH]; cbn [filter]; [cbn; destruct (mem N.eqb k (okeys b)); reflexivity|].
  destruct (not_in_keys b (k', v)) eqn:E; unfold not_in_keys in E; cbn [fst] in E; cbn [assoc].
  - destruct (N.eqb k k') eqn:E2; [|exact IH]. apply N.eqb_eq in E2; subst.
    apply negb_true_iff in E. rewrite E. reflexivity.
  - rewrite IH. destruct (N.eqb k k') eqn:E2; [|reflexivity]. apply N.eqb_eq in E2; subst.
    apply negb_false_iff in E. rewrite E. reflexivity.
Qed.
Lemma assoc_merge_outs k a b :
  assoc N.eqb k (merge_outs a b) = match assoc N.eqb k b with Some v => Some v | None => assoc N.eqb k a end.
Proof.
  unfold merge_outs. rewrite assoc_app. destruct (assoc N.eqb k b) eqn:E; [reflexivity|].
  rewrite assoc_filter_nik. apply assoc_none_mem in E. rewrite E. reflexivity.
Qed.
Lemma keys_within_spec a b : keys_within a b = true ->
  forall k, assoc N.eqb k b = None -> assoc N.eqb k a = None.
Proof.
  unfold keys_within. rewrite forallb_forall. intros H k Hb.
  destruct (assoc N.eqb k a) eqn:E; [|reflexivity]. exfalso.
  assert (M : mem N.eqb k (okeys a) = true).
  { destruct (mem N.eqb k (okeys a)) eqn:M; [reflexivity|]. apply assoc_none_mem in M. congruence. }
  apply mem_keys_in in M. destruct M as [v Hv]. specialize (H _ Hv). cbn in H.
  apply assoc_none_mem in Hb. congruence.
Qed.

(* ---- key uniqueness of the pending stores ---- *)
Lemma in_keys_sset {A} i j (n : A) s : In j (map fst (sset i n s)) -> j = i \/ In j (map fst s).
Proof.
  induction s as [|[k m] r IH]; cbn; [intros [E|[]]; left; auto|].
  destruct (N.eqb i k) eqn:E; cbn.
  - apply N.eqb_eq in E; subst. intros [H|H]; auto.
  - intros [H|H]; [right; left; exact H|]. destruct (IH H); auto.
Qed.
Lemma NoDup_sset {A} i (n : A) s : NoDup (map fst s) -> NoDup (map fst (sset i n s)).
Proof.
  induction s as [|[k m] r IH]; cbn; intros H.
  - constructor; [intros []|constructor].
  - inversion H as [|x l Hn Hr]; subst. destruct (N.eqb i k) eqn:E; cbn.
    + apply N.eqb_eq in E; subst. constructor; assumption.
    + constructor; [|apply IH; exact Hr]. intros Hin. apply in_keys_sset in Hin.
      destruct Hin as [->|Hin]; [rewrite N.eqb_refl in E; discriminate|contradiction].
Qed.
Lemma sget_none_notin {A} i (s : list (id * A)) : sget i s = None <-> ~ In i (map fst s).
Proof.
  induction s as [|[k m] r IH]; cbn; [tauto|].
  destruct (N.eqb i k) eqn:E.
  - apply N.eqb_eq in E; subst. split; [discriminate|intros H; exfalso; apply H; left; reflexivity].
  - rewrite IH. apply N.eqb_neq in E. split; [intros H [H1|H1]; [congruence|contradiction]|tauto].
Qed.
Lemma last_of_nodup i l : NoDup (map fst l) -> last_of i l = sget i l.
Proof.
  induction l as [|[j a] r IH]; cbn; [reflexivity|]. intros H. inversion H as [|x l' Hn Hr]; subst.
  rewrite (IH Hr), (N.eqb_sym i j). destruct (N.eqb j i) eqn:E.
  - apply N.eqb_eq in E; subst. apply sget_none_notin in Hn. rewrite Hn. reflexivity.
  - destruct (sget i r); reflexivity.
Qed.
Lemma sel_nodup i l : NoDup (map fst l) ->
  sel i l = match sget i l with Some u => [u] | None => [] end.
Proof.
  induction l as [|[j a] r IH]; [reflexivity|]. intros H. cbn [map fst] in H.
  inversion H as [|x l' Hn Hr]; subst. cbn [sget].
  rewrite (N.eqb_sym i j). destruct (N.eqb j i) eqn:E.
  - apply N.eqb_eq in E; subst. rewrite sel_cons_same, (IH Hr).
    apply sget_none_notin in Hn. rewrite Hn. reflexivity.
  - rewrite (sel_cons_other _ _ _ _ E). apply IH, Hr.
Qed.
Lemma sel_filter i f l : (forall e, In e l -> fst e = i -> f e = true) -> sel i (filter f l) = sel i l.
Proof.
  induction l as [|[j a] r IH]; intros H; cbn [filter]; [reflexivity|].
  assert (Hr : forall e, In e r -> fst e = i -> f e = true) by (intros e He; apply H; right; exact He).
  destruct (N.eqb j i) eqn:E.
  - apply N.eqb_eq in E; subst. rewrite (H (i, a) (or_introl eq_refl) eq_refl).
    rewrite !sel_cons_same, (IH Hr). reflexivity.
  - rewrite (sel_cons_other _ _ _ _ E). destruct (f (j, a)); [rewrite (sel_cons_other _ _ _ _ E)|]; apply IH, Hr.
Qed.

(* ---- frame lemmas for the effective node ---- *)
Lemma eff_set_updated_same s i u t : fetch s i = Some t -> eff (set_updated s i u) i = Some (upd_node t u).
Proof.
  intros F. unfold eff, fetch, pending_delta, set_updated in *; cbn [s_added s_data s_updated].
  rewrite F, sget_sset, N.eqb_refl. reflexivity.
Qed.
Lemma eff_set_updated_other s i u j : j <> i -> eff (set_updated s i u) j = eff s j.
Proof.
  intros N. unfold eff, fetch, pending_delta, set_updated; cbn [s_added s_data s_updated].
  rewrite sget_sset. apply N.eqb_neq in N. rewrite N. reflexivity.
Qed.
Lemma eff_set_added_other s i a j : j <> i -> eff (set_added s i a) j = eff s j.
Proof.
  intros N. unfold eff, fetch, pending_delta, set_added; cbn [s_added s_data s_updated].
  rewrite sget_sset. apply N.eqb_neq in N. rewrite N. reflexivity.
Qed.
Lemma eff_set_added_same s i a : eff (set_added s i a) i = Some (upd_node a (pending_delta s i)).
Proof.
  unfold eff, fetch, pending_delta, set_added; cbn [s_added s_data s_updated].
  rewrite sget_sset, N.eqb_refl. reflexivity.
Qed.
Lemma fetch_set_updated s i u j : fetch (set_updated s i u) j = fetch s j.
Proof. reflexivity. Qed.
Lemma pending_set_updated s i u j :
  pending_delta (set_updated s i u) j = if N.eqb j i then u else pending_delta s j.
Proof. unfold pending_delta, set_updated; cbn [s_updated]. rewrite sget_sset. destruct (N.eqb j i); reflexivity. Qed.
Lemma fetch_set_added s i a j : fetch (set_added s i a) j = if N.eqb j i then Some a else fetch s j.
Proof. unfold fetch, set_added; cbn [s_added s_data]. rewrite sget_sset. destruct (N.eqb j i); reflexivity. Qed.
Lemma pending_set_added s i a j : pending_delta (set_added s i a) j = pending_delta s j.
Proof. reflexivity. Qed.

(* ---- the invariant ---- *)
Definition Jrest (s : mgr) : Prop :=
  (s_batch s = empty_delta /\ s_dedupe s = [])
  /\ (NoDup (map fst (s_added s)) /\ NoDup (map fst (s_updated s)))
  /\ (forall i, fetch s i = None -> strip (pending_delta s i) = empty_node).
Definition Jpool (pl : pool) (s : mgr) : Prop :=
  forall i p, sget i pl = Some p -> exists n, eff s i = Some n /\ reflects n p.
Definition J (pl : pool) (s : mgr) : Prop := Jrest s /\ Jpool pl s.

Lemma Jrest_set_updated s i u :
  Jrest s -> (fetch s i <> None \/ strip u = strip (pending_delta s i)) -> Jrest (set_updated s i u).
Proof.
  intros (A & (D1 & D2) & E) H. split; [exact A|]. split.
  - split; [exact D1|]. unfold set_updated; cbn [s_updated]. apply NoDup_sset, D2.
  - intros j Fj. rewrite fetch_set_updated in Fj. rewrite pending_set_updated.
    destruct (N.eqb j i) eqn:Eq; [|apply E, Fj]. apply N.eqb_eq in Eq; subst.
    destruct H as [H|H]; [contradiction|]. rewrite H. apply E, Fj.
Qed.
Lemma Jrest_set_added s i a : Jrest s -> Jrest (set_added s i a).
Proof.
  intros (A & (D1 & D2) & E). split; [exact A|]. split.
  - split; [|exact D2]. unfold set_added; cbn [s_added]. apply NoDup_sset, D1.
  - intros j Fj. rewrite fetch_set_added in Fj. rewrite pending_set_added.
    destruct (N.eqb j i); [discriminate|apply E, Fj].
Qed.
Lemma Jrest_with_err s : Jrest s -> Jrest (with_err s).
Proof. intros H; exact H. Qed.

Definition is_plain_delta (o : op) : bool :=
  match o with OpInit _ | OpUpdate _ | OpWfStates | OpPut _ | OpPrune _ _ => false | _ => true end.

Lemma strip_edges_only a b c d e f g h h' : strip (mkNode a b c d e f g h) = strip (mkNode a b c d e f g h').
Proof. reflexivity. Qed.

Lemma Jrest_step s o : is_plain_delta o = true ->
  (forall i f, o = OpFlows i f -> fetch s i <> None) -> Jrest s -> Jrest (step s o).
Proof.
  intros D HF Jr. destruct o; cbn [is_plain_delta] in D; try discriminate; cbn [step].
  - destruct (shas i (s_data s) || shas i (s_added s)); [exact Jr|]. apply Jrest_set_added, Jr.
  - destruct (sget i (s_added s)); [apply Jrest_set_added, Jr|exact Jr].
  - destruct (fetch s i) eqn:F; [|exact Jr]. apply Jrest_set_updated; [exact Jr|left; congruence].
  - destruct (fetch s i) eqn:F; [|exact Jr]. apply Jrest_set_updated; [exact Jr|left; congruence].
  - apply Jrest_set_updated; [exact Jr|left; apply (HF i f eq_refl)].
  - destruct (fetch s i) eqn:F; [|exact Jr]. apply Jrest_set_updated; [exact Jr|left; congruence].
  - destruct (fetch s i) eqn:F; [|exact Jr]. apply Jrest_set_updated; [exact Jr|left; congruence].
  - destruct (fetch s i) eqn:F; [|exact Jr]. apply Jrest_set_updated; [exact Jr|left; congruence].
  - apply Jrest_set_updated; [apply Jrest_set_updated; [exact Jr|]|]; right.
    + destruct (pending_delta s c); reflexivity.
    + destruct (pending_delta (set_updated s c _) p); reflexivity.
Qed.

Lemma reflects_strip n p : reflects (strip n) p <-> reflects n p.
Proof. unfold reflects, strip; cbn. tauto. Qed.
Lemma reflects_strip_eq n n' p : strip n = strip n' -> reflects n p -> reflects n' p.
Proof.
  intros E H. apply (proj1 (reflects_strip n' p)). rewrite <- E. apply (proj2 (reflects_strip n p)), H.
Qed.

(* an operation aimed at an id outside the pool leaves the pool's effective nodes alone (up to edges) *)
Lemma eff_other s o j : is_plain_delta o = true ->
  (forall i, match o with
             | OpGhost i' _ _ | OpHist i' _ | OpState i' _ | OpHeld i' _ | OpFlows i' _ | OpOutputs i' _
             | OpPrereqs i' _ | OpFromProxy i' _ => i = i' -> j <> i
             | _ => True end) ->
  option_map strip (eff (step s o) j) = option_map strip (eff s j).
Proof.
  intros D H. destruct o; cbn [is_plain_delta] in D; try discriminate; cbn [step];
    try (specialize (H i eq_refl)).
  - destruct (shas i (s_data s) || shas i (s_added s)); [reflexivity|]. rewrite eff_set_added_other; auto.
  - destruct (sget i (s_added s)); [rewrite eff_set_added_other; auto|reflexivity].
  - destruct (fetch s i); [rewrite eff_set_updated_other; auto|reflexivity].
  - destruct (fetch s i); [rewrite eff_set_updated_other; auto|reflexivity].
  - rewrite eff_set_updated_other; auto.
  - destruct (fetch s i); [rewrite eff_set_updated_other; auto|reflexivity].
  - destruct (fetch s i); [rewrite eff_set_updated_other; auto|reflexivity].
  - destruct (fetch s i); [rewrite eff_set_updated_other; auto|reflexivity].
  - (* OpEdge: only the edges of the pending deltas change *)
    cbv zeta. unfold eff. rewrite !fetch_set_updated. destruct (fetch s j) as [t|]; cbn [option_map]; [|reflexivity].
    f_equal. rewrite !strip_upd. f_equal.
    rewrite !pending_set_updated.
    destruct (N.eqb j p) eqn:E1; destruct (N.eqb p c) eqn:E2; destruct (N.eqb j c) eqn:E3;
      try (apply N.eqb_eq in E1); try (apply N.eqb_eq in E2); try (apply N.eqb_eq in E3); subst;
      try rewrite N.eqb_refl in *; try discriminate;
      try (destruct (pending_delta s c); reflexivity); try (destruct (pending_delta s p); reflexivity);
      try reflexivity.
Qed.

Lemma eff_some s i n : eff s i = Some n ->
  exists t, fetch s i = Some t /\ n = upd_node t (pending_delta s i).
Proof. unfold eff. destruct (fetch s i) as [t|]; cbn; [|discriminate]. intros E; inversion E. eauto. Qed.
Lemma eff_none s i : eff s i = None -> fetch s i = None.
Proof. unfold eff. destruct (fetch s i); cbn; [discriminate|reflexivity]. Qed.

Lemma Jpool_sset pl s s' i p' :
  Jpool pl s ->
  (forall j, j <> i -> option_map strip (eff s' j) = option_map strip (eff s j)) ->
  (exists n, eff s' i = Some n /\ reflects n p') ->
  Jpool (sset i p' pl) s'.
Proof.
  intros Jp Hother Hi j p0 G. rewrite sget_sset in G. destruct (N.eqb j i) eqn:E.
  - apply N.eqb_eq in E; subst. inversion G; subst. exact Hi.
  - apply N.eqb_neq in E. destruct (Jp j p0 G) as (n & En & Rn).
    specialize (Hother j E). rewrite En in Hother. cbn in Hother.
    destruct (eff s' j) as [n'|]; cbn in Hother; [|discriminate].
    exists n'. split; [reflexivity|]. apply (reflects_strip_eq n n'); [congruence|exact Rn].
Qed.

Ltac tables := change rule_is_held with true; change rule_is_queued with true; change rule_is_runahead with true.

Lemma selp_nil_inv {A} (u n : list A) : selp u n = [] -> n = [] \/ (u = [] /\ n = []).
Proof. unfold selp. destruct u; cbn; [intros ->; auto|discriminate]. Qed.
Lemma selp_nil {A} (u n : list A) : selp u n = [] -> selp [] n = [].
Proof. unfold selp. destruct u; cbn; [auto|discriminate]. Qed.

Definition reflects_rest (n : node) (p : pv) : Prop :=
  n_flows n = Some (p_flows p)
  /\ (forall k, assoc N.eqb k (n_outputs n) = assoc N.eqb k (p_outputs p))
  /\ n_prereqs n = p_prereqs p.
Lemma reflects_rest_of n p : reflects n p -> reflects_rest n p.
Proof. unfold reflects, reflects_rest. tauto. Qed.

(* delta_task_state *)
Lemma state_reflects s i t p st h q r :
  fetch s i = Some t -> reflects_rest (upd_node t (pending_delta s i)) p ->
  exists n, eff (step s (OpState i (set_flags p st h q r))) i = Some n /\ reflects n (set_flags p st h q r).
Proof.
  intros F R. cbn [step]. rewrite F. rewrite (eff_set_updated_same _ _ _ t F). eexists; split; [reflexivity|].
  unfold reflects, reflects_rest in *. rewrite upd_node_eq in *. cbn [n_state n_held n_queued n_runahead n_flows n_outputs n_prereqs n_edges
    p_state p_held p_queued p_runahead p_flows p_outputs p_prereqs set_flags] in *. tables.
  destruct R as (R5 & R6 & R7).
  repeat split; try assumption; try apply rule_flag_ok; apply rule_state_ok.
Qed.
Lemma set_flags_id p : set_flags p (p_state p) (p_held p) (p_queued p) (p_runahead p) = p.
Proof. destruct p; reflexivity. Qed.

(* delta_task_outputs *)
Lemma outputs_reflects s i t p outs :
  fetch s i = Some t -> reflects (upd_node t (pending_delta s i)) p -> keys_within (p_outputs p) outs = true ->
  exists n, eff (step s (OpOutputs i (set_outputs p outs))) i = Some n /\ reflects n (set_outputs p outs).
Proof.
  intros F R K. cbn [step]. rewrite F. rewrite (eff_set_updated_same _ _ _ t F). eexists; split; [reflexivity|].
  unfold reflects in *. rewrite upd_node_eq in *. cbn [n_state n_held n_queued n_runahead n_flows n_outputs n_prereqs n_edges
    p_state p_held p_queued p_runahead p_flows p_outputs p_prereqs set_outputs] in *.
  destruct R as (R1 & R2 & R3 & R4 & R5 & R6 & R7).
  repeat split; try assumption. intros k. rewrite !assoc_merge_outs.
  destruct (assoc N.eqb k outs) eqn:E; [reflexivity|].
  pose proof (keys_within_spec _ _ K k E) as Hp. specialize (R6 k). rewrite assoc_merge_outs in R6.
  rewrite R6. exact Hp.
Qed.

(* delta_task_prerequisite *)
Lemma prereqs_reflects s i t p ps :
  fetch s i = Some t -> reflects (upd_node t (pending_delta s i)) p ->
  nonempty ps || negb (nonempty (p_prereqs p)) = true ->
  exists n, eff (step s (OpPrereqs i (set_prereqs p ps))) i = Some n /\ reflects n (set_prereqs p ps).
Proof.
  intros F R K. cbn [step]. rewrite F. rewrite (eff_set_updated_same _ _ _ t F). eexists; split; [reflexivity|].
  unfold reflects in *. rewrite upd_node_eq in *. cbn [n_state n_held n_queued n_runahead n_flows n_outputs n_prereqs n_edges
    p_state p_held p_queued p_runahead p_flows p_outputs p_prereqs set_prereqs] in *.
  destruct R as (R1 & R2 & R3 & R4 & R5 & R6 & R7).
  repeat split; try assumption.
  destruct ps as [|x ps']; [|reflexivity]. cbn in K. destruct (p_prereqs p); [|discriminate].
  apply selp_nil in R7. exact R7.
Qed.

(* delta_task_flow_nums *)
Lemma flows_reflects s i t p f :
  fetch s i = Some t -> reflects (upd_node t (pending_delta s i)) p ->
  exists n, eff (step s (OpFlows i f)) i = Some n /\ reflects n (set_flows p f).
Proof.
  intros F R. cbn [step]. rewrite (eff_set_updated_same _ _ _ t F). eexists; split; [reflexivity|].
  unfold reflects in *. rewrite upd_node_eq in *. cbn [n_state n_held n_queued n_runahead n_flows n_outputs n_prereqs n_edges
    p_state p_held p_queued p_runahead p_flows p_outputs p_prereqs set_flows oor] in *.
  destruct R as (R1 & R2 & R3 & R4 & R5 & R6 & R7).
  repeat split; assumption.
Qed.

(* add_to_pool: a new node ... *)
Lemma add_new_reflects s i p h0 :
  fetch s i = None -> strip (pending_delta s i) = empty_node ->
  exists n, eff (step (step s (OpGhost i h0 (Some p))) (OpState i p)) i = Some n /\ reflects n p.
Proof.
  intros F E.
  assert (Fa : sget i (s_added s) = None) by (unfold fetch in F; destruct (sget i (s_added s)); [discriminate|reflexivity]).
  assert (Fd : sget i (s_data s) = None) by (unfold fetch in F; rewrite Fa in F; exact F).
  set (a := process p (mkNode None (Some h0) None None (Some []) [] [] [])).
  assert (S1 : step s (OpGhost i h0 (Some p)) = set_added s i a)
    by (cbn [step]; unfold shas; rewrite Fa, Fd; reflexivity).
  rewrite S1. set (s1 := set_added s i a).
  assert (F1 : fetch s1 i = Some a) by (unfold s1; rewrite fetch_set_added, N.eqb_refl; reflexivity).
  assert (R : reflects_rest (upd_node a (pending_delta s1 i)) p).
  { unfold s1. rewrite pending_set_added.
    destruct (pending_delta s i) as [d1 d2 d3 d4 d5 d6 d7 d8]. unfold strip, empty_node in E; cbn in E.
    inversion E; subst. unfold reflects_rest, a, process. rewrite upd_node_eq. nproj. cbn [oor selp nonempty].
    repeat split. intros k. rewrite merge_outs_nil_r, merge_outs_nil_l. reflexivity. }
  pose proof (state_reflects s1 i a p (p_state p) (p_held p) (p_queued p) (p_runahead p) F1 R) as H.
  rewrite set_flags_id in H. exact H.
Qed.

(* ... or an n-window ghost that becomes active *)
Lemma add_existing_reflects s i p n :
  eff s i = Some n -> keys_within (n_outputs n) (p_outputs p) = true ->
  nonempty (p_prereqs p) || negb (nonempty (n_prereqs n)) = true ->
  exists n', eff (step (step s (OpFromProxy i p)) (OpState i p)) i = Some n' /\ reflects n' p.
Proof.
  intros En K1 K2. destruct (eff_some _ _ _ En) as (t & F & ->).
  set (d := pending_delta s i) in *.
  assert (S1 : step s (OpFromProxy i p) = set_updated s i (process p d)) by (cbn [step]; rewrite F; reflexivity).
  rewrite S1. set (s1 := set_updated s i (process p d)).
  assert (F1 : fetch s1 i = Some t) by exact F.
  assert (R : reflects_rest (upd_node t (pending_delta s1 i)) p).
  { unfold s1. rewrite pending_set_updated, N.eqb_refl.
    unfold reflects_rest, process. rewrite upd_node_eq in *. nproj. cbn [oor]. nproj. cbn in K1, K2.
    repeat split.
    - intros k. rewrite !assoc_merge_outs. destruct (assoc N.eqb k (p_outputs p)) eqn:E; [reflexivity|].
      pose proof (keys_within_spec _ _ K1 k E) as H. rewrite assoc_merge_outs in H. exact H.
    - destruct (p_prereqs p) as [|x r]; [|reflexivity]. cbn in K2.
      destruct (selp (n_prereqs d) (n_prereqs t)) eqn:S; [|discriminate]. apply selp_nil in S. exact S. }
  pose proof (state_reflects s1 i t p (p_state p) (p_held p) (p_queued p) (p_runahead p) F1 R) as H.
  rewrite set_flags_id in H. exact H.
Qed.

(* agreement on the fields that J talks about *)
Definition core (s : mgr) := (s_data s, s_added s, s_updated s, s_batch s, s_dedupe s).
Lemma core_fields s s' : core s = core s' ->
  s_data s = s_data s' /\ s_added s = s_added s' /\ s_updated s = s_updated s'
  /\ s_batch s = s_batch s' /\ s_dedupe s = s_dedupe s'.
Proof. unfold core. intros E. repeat split; congruence. Qed.
Lemma core_eff s s' : core s = core s' -> forall i, eff s i = eff s' i.
Proof.
  intros E i. destruct (core_fields _ _ E) as (E1 & E2 & E3 & _).
  unfold eff, fetch, pending_delta. rewrite E1, E2, E3. reflexivity.
Qed.
Lemma J_core pl s s' : core s = core s' -> J pl s -> J pl s'.
Proof.
  intros E. destruct (core_fields _ _ E) as (E1 & E2 & E3 & E4 & E5).
  unfold J, Jrest, Jpool, eff, fetch, pending_delta. rewrite E1, E2, E3, E4, E5. tauto.
Qed.
Lemma core_put s f : core (step s (OpPut f)) = core s.
Proof. cbn [step]. destruct f; [reflexivity|]. destruct (s_pubpend s); reflexivity. Qed.

Lemma forallb_not_in pl l i (p : pv) :
  forallb (fun j => negb (shas j pl)) l = true -> sget i pl = Some p -> mem N.eqb i l = false.
Proof.
  rewrite forallb_forall. intros H G. destruct (mem N.eqb i l) eqn:M; [|reflexivity].
  apply (mem_In N.eqb Neqb_eq) in M. specialize (H i M). unfold shas in H. rewrite G in H. discriminate.
Qed.

Lemma update_J pl s ids dd :
  J pl s -> forallb (fun j => negb (shas j pl)) (ids ++ dd) = true ->
  let s' := run s [OpPut false; OpPrune ids dd; OpUpdate true; OpPut false] in
  J pl s' /\ (forall i, eff s' i = sget i (s_data s')) /\ (forall i p, sget i pl = Some p -> eff s' i = eff s i).
Proof.
  intros Js Hn. cbn [run fold_left].
  set (s0 := step s (OpPut false)).
  assert (J0 : J pl s0) by (apply (J_core pl s s0); [symmetry; apply core_put|exact Js]).
  assert (Heq : forall i, eff s0 i = eff s i).
  { intros i. apply core_eff. apply core_put. }
  destruct J0 as [((B & Dd) & (N1 & N2) & E) Jp].
  set (s1 := step s0 (OpPrune ids dd)). set (s2 := step s1 (OpUpdate true)).
  assert (C3 : core (step s2 (OpPut false)) = core s2) by apply core_put.
  assert (Hdata : forall i p, sget i pl = Some p -> sget i (s_data s2) = eff s0 i).
  { intros i p G. unfold s2, s1. cbn [step batch_apply_publish s_data s_added s_updated s_batch s_dedupe].
    rewrite B. cbn [d_added d_updated d_pruned empty_delta app].
    rewrite apply_get. cbn [d_pruned d_updated d_added].
    assert (Mi : mem N.eqb i ids = false).
    { apply (forallb_not_in pl ids i p); [|exact G]. rewrite forallb_app in Hn. apply andb_true_iff in Hn. tauto. }
    assert (Md : mem N.eqb i dd = false).
    { apply (forallb_not_in pl dd i p); [|exact G]. rewrite forallb_app in Hn. apply andb_true_iff in Hn. tauto. }
    rewrite Mi. unfold dedupe. cbn [s_dedupe s_updated s_data s_added].
    rewrite sel_filter.
    2:{ intros [j a] _ Ee. cbn [fst] in *. subst j. rewrite Md. reflexivity. }
    unfold base_of. rewrite (last_of_nodup i _ N1), (sel_nodup i _ N2).
    unfold eff, fetch, pending_delta.
    destruct (sget i (s_added s0)) as [a|]; cbn [option_map].
    - destruct (sget i (s_updated s0)); cbn [fold_left]; [reflexivity|rewrite upd_empty_r; reflexivity].
    - destruct (sget i (s_data s0)); cbn [option_map]; [|reflexivity].
      destruct (sget i (s_updated s0)); cbn [fold_left]; [reflexivity|rewrite upd_empty_r; reflexivity]. }
  assert (Heff2 : forall i, eff s2 i = sget i (s_data s2)).
  { assert (A2 : s_added s2 = []) by reflexivity. assert (U2 : s_updated s2 = []) by reflexivity.
    intros i. unfold eff, fetch, pending_delta. rewrite A2, U2. cbn [sget].
    destruct (sget i (s_data s2)); cbn [option_map]; [rewrite upd_empty_r|]; reflexivity. }
  assert (J2 : J pl s2).
  { split.
    - split; [split; reflexivity|]. split; [split; constructor|].
      intros i _. reflexivity.
    - intros i p G. rewrite Heff2, (Hdata i p G). apply Jp, G. }
  split; [apply (J_core pl s2); [symmetry; exact C3|exact J2]|]. split.
  - intros i. rewrite (core_eff _ _ C3 i). destruct (core_fields _ _ C3) as (C31 & _). rewrite C31. apply Heff2.
  - intros i p G. rewrite (core_eff _ _ C3 i), Heff2, (Hdata i p G). apply Heq.
Qed.

Definition target (o : op) : option id :=
  match o with
  | OpGhost i _ _ | OpHist i _ | OpState i _ | OpHeld i _ | OpFlows i _ | OpOutputs i _
  | OpPrereqs i _ | OpFromProxy i _ => Some i
  | _ => None
  end.
Lemma eff_other' s o j : is_plain_delta o = true -> (forall i, target o = Some i -> j <> i) ->
  option_map strip (eff (step s o) j) = option_map strip (eff s j).
Proof.
  intros D H. apply eff_other; [exact D|]. intros i.
  destruct o; try exact I; intros ->; apply H; reflexivity.
Qed.

Lemma other_ok_spec pl s o : other_ok pl s o = true ->
  is_plain_delta o = true
  /\ (forall i, target o = Some i -> shas i pl = false)
  /\ (forall i f, o = OpFlows i f -> fetch s i <> None).
Proof.
  destruct o; cbn [other_ok is_plain_delta target]; try discriminate; intros H;
    (split; [reflexivity|]); (split; [|try (intros ? ? E; discriminate E)]);
    try (intros j E; inversion E; subst; apply negb_true_iff; exact H);
    try (intros j E; discriminate E).
  - intros j E; inversion E; subst. apply andb_true_iff in H. destruct H as [H _]. apply negb_true_iff; exact H.
  - intros j g E; inversion E; subst. apply andb_true_iff in H. destruct H as [_ H].
    destruct (fetch s j); [discriminate|discriminate].
Qed.

Lemma pstep_J pl s o pl' s' : J pl s -> pstep (pl, s) o = Some (pl', s') -> J pl' s'.
Proof.
  intros [Jr Jp] H. destruct o as [i p h0|i st h q r|i outs|i ps|i f|i|o|ids dd]; unfold pstep in H.
  - (* PAdd *)
    destruct (shas i pl) eqn:Sh; [discriminate|].
    destruct (eff s i) as [n|] eqn:En.
    + destruct (keys_within (n_outputs n) (p_outputs p) && (nonempty (p_prereqs p) || negb (nonempty (n_prereqs n)))) eqn:K;
        [|discriminate]. apply andb_true_iff in K. destruct K as [K1 K2].
      injection H as <- <-. change (J (sset i p pl) (step (step s (OpFromProxy i p)) (OpState i p))). split.
      * apply Jrest_step; [reflexivity|intros ? ? E; discriminate E|].
        apply Jrest_step; [reflexivity|intros ? ? E; discriminate E|exact Jr].
      * apply (Jpool_sset pl s); [exact Jp| |apply (add_existing_reflects s i p n En K1 K2)].
        intros j Nj. rewrite eff_other'; [|reflexivity|intros k E; inversion E; subst; exact Nj].
        apply eff_other'; [reflexivity|intros k E; inversion E; subst; exact Nj].
    + injection H as <- <-. change (J (sset i p pl) (step (step s (OpGhost i h0 (Some p))) (OpState i p))). split.
      * apply Jrest_step; [reflexivity|intros ? ? E; discriminate E|].
        apply Jrest_step; [reflexivity|intros ? ? E; discriminate E|exact Jr].
      * apply (Jpool_sset pl s); [exact Jp| |].
        -- intros j Nj. rewrite eff_other'; [|reflexivity|intros k E; inversion E; subst; exact Nj].
           apply eff_other'; [reflexivity|intros k E; inversion E; subst; exact Nj].
        -- apply add_new_reflects; [apply eff_none, En|]. destruct Jr as (_ & _ & E). apply E, eff_none, En.
  - (* PState *)
    destruct (sget i pl) as [p|] eqn:G; [|discriminate]. injection H as <- <-.
    change (J (sset i (set_flags p st h q r) pl) (step s (OpState i (set_flags p st h q r)))).
    destruct (Jp i p G) as (n & En & Rn). destruct (eff_some _ _ _ En) as (t & F & ->). split.
    + apply Jrest_step; [reflexivity|intros ? ? E; discriminate E|exact Jr].
    + apply (Jpool_sset pl s); [exact Jp| |apply (state_reflects s i t p st h q r F (reflects_rest_of _ _ Rn))].
      intros j Nj. apply eff_other'; [reflexivity|intros k E; inversion E; subst; exact Nj].
  - (* POutputs *)
    destruct (sget i pl) as [p|] eqn:G; [|discriminate].
    destruct (keys_within (p_outputs p) outs) eqn:K; [|discriminate]. injection H as <- <-.
    change (J (sset i (set_outputs p outs) pl) (step s (OpOutputs i (set_outputs p outs)))).
    destruct (Jp i p G) as (n & En & Rn). destruct (eff_some _ _ _ En) as (t & F & ->). split.
    + apply Jrest_step; [reflexivity|intros ? ? E; discriminate E|exact Jr].
    + apply (Jpool_sset pl s); [exact Jp| |apply (outputs_reflects s i t p outs F Rn K)].
      intros j Nj. apply eff_other'; [reflexivity|intros k E; inversion E; subst; exact Nj].
  - (* PPrereqs *)
    destruct (sget i pl) as [p|] eqn:G; [|discriminate].
    destruct (nonempty ps || negb (nonempty (p_prereqs p))) eqn:K; [|discriminate]. injection H as <- <-.
    change (J (sset i (set_prereqs p ps) pl) (step s (OpPrereqs i (set_prereqs p ps)))).
    destruct (Jp i p G) as (n & En & Rn). destruct (eff_some _ _ _ En) as (t & F & ->). split.
    + apply Jrest_step; [reflexivity|intros ? ? E; discriminate E|exact Jr].
    + apply (Jpool_sset pl s); [exact Jp| |apply (prereqs_reflects s i t p ps F Rn K)].
      intros j Nj. apply eff_other'; [reflexivity|intros k E; inversion E; subst; exact Nj].
  - (* PFlows *)
    destruct (sget i pl) as [p|] eqn:G; [|discriminate]. injection H as <- <-.
    change (J (sset i (set_flows p f) pl) (step s (OpFlows i f))).
    destruct (Jp i p G) as (n & En & Rn). destruct (eff_some _ _ _ En) as (t & F & ->). split.
    + apply Jrest_step; [reflexivity|intros ? ? E; inversion E; subst; congruence|exact Jr].
    + apply (Jpool_sset pl s); [exact Jp| |apply (flows_reflects s i t p f F Rn)].
      intros j Nj. apply eff_other'; [reflexivity|intros k E; inversion E; subst; exact Nj].
  - (* PRemove *)
    injection H as <- <-. split; [exact Jr|].
    intros j p G. rewrite sget_sdel in G. destruct (N.eqb j i); [discriminate|]. apply Jp, G.
  - (* POther *)
    destruct (other_ok pl s o) eqn:K; [|discriminate]. injection H as <- <-.
    change (J pl (step s o)).
    destruct (other_ok_spec _ _ _ K) as (D & T & FL). split.
    + apply Jrest_step; assumption.
    + intros j p G. destruct (Jp j p G) as (n & En & Rn).
      assert (E : option_map strip (eff (step s o) j) = option_map strip (eff s j)).
      { apply eff_other'; [exact D|]. intros k Tk Ejk; subst. specialize (T _ Tk). unfold shas in T.
        rewrite G in T. discriminate. }
      rewrite En in E. cbn in E. destruct (eff (step s o) j) as [n'|]; cbn in E; [|discriminate].
      exists n'. split; [reflexivity|]. apply (reflects_strip_eq n n'); [congruence|exact Rn].
  - (* PUpdate *)
    destruct (forallb (fun j => negb (shas j pl)) (ids ++ dd)) eqn:K; [|discriminate].
    injection H as <- <-. apply (update_J pl s ids dd (conj Jr Jp) K).
Qed.

Lemma J_init : J [] (init_mgr []).
Proof.
  split.
  - split; [split; reflexivity|]. split; [split; constructor|]. intros i _. reflexivity.
  - intros i p G. discriminate G.
Qed.

Lemma prun_J prog : forall pl s pl' s', J pl s -> prun (pl, s) prog = Some (pl', s') -> J pl' s'.
Proof.
  induction prog as [|o r IH]; intros pl s pl' s' Js H; cbn [prun] in H.
  - inversion H; subst. exact Js.
  - destruct (pstep (pl, s) o) as [[pl1 s1]|] eqn:E; [|discriminate].
    apply (IH pl1 s1 pl' s'); [apply (pstep_J pl s o); assumption|exact H].
Qed.

(* at any time: what the store will hold for a pooled task after the next batch is the pool's view *)
Theorem pool_reflected_pending prog pl s :
  prun ([], init_mgr []) prog = Some (pl, s) ->
  forall i p, sget i pl = Some p -> exists n, eff s i = Some n /\ reflects n p.
Proof. intros H. destruct (prun_J prog _ _ _ _ J_init H) as [_ Jp]. exact Jp. Qed.

Lemma prun_app st a b : prun st (a ++ b) = match prun st a with Some st' => prun st' b | None => None end.
Proof. revert st; induction a as [|o r IH]; intros st; cbn [prun app]; [reflexivity|]. destruct (pstep st o); [apply IH|reflexivity]. Qed.

(* after update_data_structure: the store itself *)
Theorem pool_reflected prog ids dd pl s :
  prun ([], init_mgr []) (prog ++ [PUpdate ids dd]) = Some (pl, s) ->
  forall i p, sget i pl = Some p -> exists n, sget i (s_data s) = Some n /\ reflects n p.
Proof.
  rewrite prun_app. destruct (prun ([], init_mgr []) prog) as [[pl0 s0]|] eqn:E; [|discriminate].
  cbn [prun pstep]. destruct (forallb (fun j => negb (shas j pl0)) (ids ++ dd)) eqn:K; [|discriminate].
  intros H; inversion H; subst; clear H. intros i p G.
  pose proof (prun_J prog _ _ _ _ J_init E) as J0.
  destruct (update_J pl s0 ids dd J0 K) as ([_ Jp] & Hd & _). cbv zeta in Hd.
  destruct (Jp i p G) as (n & En & Rn). rewrite Hd in En. eauto.
Qed.
