(* Proofs/ParsecProofs.v — lemmas about Model/Parsec.v *)
From Coq Require Import List ZArith Bool Arith Lia.
From Cylc Require Import Base.Util Model.Parsec.
Import ListNotations.
Open Scope Z_scope.

(* ---------- rstrip ---------- *)
Lemma rstrip_idem s : rstrip (rstrip s) = rstrip s.
Proof.
  induction s as [|c r IH]; [reflexivity|]. cbn [rstrip].
  destruct (rstrip r) as [|x r'] eqn:E.
  - destruct (is_space c) eqn:Ec; [reflexivity|]. cbn. now rewrite Ec.
  - cbn [rstrip]. change (rstrip (x :: r')) with (rstrip (x :: r')) in *.
    assert (H : rstrip (x :: r') = x :: r') by exact IH.
    cbn [rstrip] in H. rewrite H. reflexivity.
Qed.

Lemma map_rstrip_fix l : (forall x, In x l -> rstrip x = x) -> map rstrip l = l.
Proof.
  induction l as [|x l IH]; intros H; [reflexivity|]. cbn.
  rewrite (H x (or_introl eq_refl)). rewrite IH; [reflexivity|]. intros; apply H; now right.
Qed.

(* ---------- trailing backslashes ---------- *)
Lemma strip_bs_id p : ends_bs p = false -> strip_bs p = p.
Proof.
  unfold ends_bs. induction p as [|c r IH]; [reflexivity|]. intros H.
  destruct r as [|d r'].
  - cbn in *. now rewrite H.
  - assert (Hr : strip_bs (d :: r') = d :: r') by (apply IH; exact H).
    cbn [strip_bs] in *. rewrite Hr. reflexivity.
Qed.

Lemma bad_continuation_rstripped l : rstrip l = l -> bad_continuation l = false.
Proof. intros H. unfold bad_continuation. rewrite H, Nat.eqb_refl. reflexivity. Qed.

(* ---------- text <-> lines ---------- *)
Lemma split_acc_line x : forall cur rest,
  has_char c_nl x = false ->
  split_acc cur (x ++ c_nl :: rest) = (rev cur ++ x) :: split_acc [] rest.
Proof.
  unfold has_char. induction x as [|c x IH]; intros cur rest H.
  - cbn. now rewrite app_nil_r.
  - cbn [mem] in H. apply orb_false_iff in H. destruct H as [Hc Hx].
    cbn [app split_acc]. rewrite Z.eqb_sym in Hc. rewrite Hc.
    rewrite IH by exact Hx. cbn [rev]. now rewrite <- app_assoc.
Qed.

Lemma split_dump l :
  l <> [] -> (forall x, In x l -> has_char c_nl x = false) -> split_lines (dump l) = l.
Proof.
  intros Hne H. unfold dump, split_lines. destruct l as [|x0 l0]; [congruence|].
  clear Hne. remember (x0 :: l0) as l eqn:E. clear E x0 l0.
  induction l as [|x l IH]; [reflexivity|]. cbn [flat_map].
  rewrite <- app_assoc. cbn [app]. rewrite split_acc_line by (apply H; now left).
  cbn [rev app]. f_equal. apply IH. intros; apply H; now right.
Qed.

(* ---------- the stages are the identity on good lines ---------- *)
Lemma inline_id f fs l :
  (forall x, In x l -> include_match x = None) -> inline (S f) fs l = Ok l.
Proof.
  induction l as [|x l IH]; intros H; [reflexivity|].
  cbn [inline]. rewrite (H x (or_introl eq_refl)).
  cbn [inline] in IH. rewrite IH; [reflexivity|]. intros; apply H; now right.
Qed.

Lemma cat_id l : forall p,
  (forall x, In x (p :: l) -> ends_bs x = false /\ rstrip x = x) ->
  cat (Some p) l = Ok (p :: l).
Proof.
  induction l as [|x l IH]; intros p H.
  - cbn. rewrite strip_bs_id; [reflexivity|]. apply H. now left.
  - cbn [cat]. destruct (H p (or_introl eq_refl)) as [Hp _]. rewrite Hp.
    destruct (H x (or_intror (or_introl eq_refl))) as [_ Hx].
    rewrite (bad_continuation_rstripped x Hx).
    rewrite IH; [reflexivity|]. intros y Hy. apply H. now right.
Qed.

Lemma concatenate_id l :
  (forall x, In x l -> ends_bs x = false /\ rstrip x = x) -> concatenate l = Ok l.
Proof.
  unfold concatenate. destruct l as [|x l]; intros H; [reflexivity|].
  cbn [cat]. destruct (H x (or_introl eq_refl)) as [_ Hx].
  rewrite (bad_continuation_rstripped x Hx). now apply cat_id.
Qed.

(* ---------- what read_and_proc returns is rstripped ---------- *)
Lemma proc_lines_rstripped fuel fs J lines L :
  proc_lines fuel fs J lines = Ok L -> forall x, In x L -> rstrip x = x.
Proof.
  unfold proc_lines.
  destruct (inline fuel fs lines) as [l1|]; [|discriminate]. cbn [rbind].
  destruct (jinja_step J l1) as [l2|]; [|discriminate]. cbn [rbind].
  destruct (concatenate l2) as [l3|]; [|discriminate]. cbn [rmap].
  intros [= <-] x Hx. apply in_map_iff in Hx. destruct Hx as [y [<- _]]. apply rstrip_idem.
Qed.

(* ---------- idempotence ---------- *)
(* the excluding hypotheses, as one decidable predicate on the processed lines *)
Definition line_ok (l : str) : bool :=
  negb (has_char c_nl l) && negb (ends_bs l) &&
  match include_match l with None => true | Some _ => false end.
Definition good_lines (L : list str) : bool :=
  forallb line_ok L &&
  match L with f :: _ => negb (is_jinja_shebang f) | [] => true end.

Lemma good_lines_spec L : good_lines L = true ->
  (forall x, In x L -> has_char c_nl x = false /\ ends_bs x = false /\ include_match x = None) /\
  (forall f r, L = f :: r -> is_jinja_shebang f = false).
Proof.
  unfold good_lines. intros H. apply andb_true_iff in H. destruct H as [H1 H2]. split.
  - intros x Hx. rewrite forallb_forall in H1. specialize (H1 x Hx). unfold line_ok in H1.
    apply andb_true_iff in H1. destruct H1 as [H1 H3]. apply andb_true_iff in H1.
    destruct H1 as [Ha Hb]. apply negb_true_iff in Ha, Hb.
    destruct (include_match x); [discriminate|]. auto.
  - intros f r ->. now apply negb_true_iff in H2.
Qed.

Lemma proc_lines_fix f fs J L :
  good_lines L = true -> (forall x, In x L -> rstrip x = x) ->
  proc_lines (S f) fs J L = Ok L.
Proof.
  intros Hg Hr. destruct (good_lines_spec L Hg) as [H1 H2].
  unfold proc_lines. rewrite inline_id by (intros x Hx; apply H1; exact Hx). cbn [rbind].
  assert (Hj : jinja_step J L = Ok L).
  { unfold jinja_step. destruct L as [|x r]; [reflexivity|]. now rewrite (H2 x r eq_refl). }
  rewrite Hj. cbn [rbind].
  rewrite concatenate_id by (intros x Hx; split; [apply H1|apply Hr]; exact Hx). cbn [rmap].
  now rewrite map_rstrip_fix.
Qed.

Lemma idempotent f fs J text L :
  read_and_proc (S f) fs J text = Ok L -> L <> [] -> good_lines L = true ->
  read_and_proc (S f) fs J (dump L) = Ok L.
Proof.
  intros Hrun Hne Hg. unfold read_and_proc in *.
  destruct (good_lines_spec L Hg) as [H1 _].
  rewrite split_dump by (try exact Hne; intros x Hx; apply H1; exact Hx).
  apply proc_lines_fix; [exact Hg|]. exact (proc_lines_rstripped _ _ _ _ _ Hrun).
Qed.

(* the empty file: the dump is one empty line, which parses to the same (empty) configuration *)
Lemma dump_nil_lines f fs J : read_and_proc (S f) fs J (dump []) = Ok [[]].
Proof. reflexivity. Qed.

Lemma parse_idempotent f fs J text L :
  read_and_proc (S f) fs J text = Ok L -> good_lines L = true ->
  parse (S f) fs J (dump L) = parse (S f) fs J text.
Proof.
  intros Hrun Hg. unfold parse. rewrite Hrun. destruct L as [|x r].
  - rewrite dump_nil_lines. reflexivity.
  - rewrite (idempotent f fs J text (x :: r) Hrun) by (try discriminate; exact Hg). reflexivity.
Qed.

(* the same for any function of the processed lines that does not distinguish "no
   lines" from "one empty line" (parse() only looks at the processed lines) *)
Lemma any_parser_idempotent {C} (P : list str -> C) f fs J text L :
  P [[]] = P [] ->
  read_and_proc (S f) fs J text = Ok L -> good_lines L = true ->
  rmap P (read_and_proc (S f) fs J (dump L)) = rmap P (read_and_proc (S f) fs J text).
Proof.
  intros HP Hrun Hg. rewrite Hrun. destruct L as [|x r].
  - rewrite dump_nil_lines. cbn. now rewrite HP.
  - rewrite (idempotent f fs J text (x :: r) Hrun) by (try discriminate; exact Hg). reflexivity.
Qed.
