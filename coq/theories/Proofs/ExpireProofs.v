(* C32 -- lemmas about Model/Expire.v (all Qed). *)
From Coq Require Import List ZArith NArith Bool Lia.
From Cylc Require Import Base.Util Model.Expire.
Import ListNotations.
Local Open Scope Z_scope.

(* ---------------------------------------------------------------- basics *)
Lemma status_eqb_eq a b : status_eqb a b = true <-> a = b.
Proof. destruct a, b; simpl; split; intro H; try reflexivity; try discriminate. Qed.

Lemma status_eqb_refl a : status_eqb a a = true.
Proof. destruct a; reflexivity. Qed.

Lemma memN_In x l : mem N.eqb x l = true <-> In x l.
Proof.
  induction l as [|y l IH]; simpl.
  - split; [discriminate | tauto].
  - rewrite orb_true_iff, IH, N.eqb_eq. split; intros [H|H]; auto.
Qed.

Lemma memN_false x l : mem N.eqb x l = false <-> ~ In x l.
Proof. rewrite <- memN_In. destruct (mem N.eqb x l); split; intro H; congruence. Qed.

Lemma ids_app a b : ids (a ++ b) = ids a ++ ids b.
Proof. unfold ids. apply map_app. Qed.

Lemma in_ids t l : In t l -> In (t_id t) (ids l).
Proof. unfold ids. apply in_map. Qed.

Lemma in_ids_inv i l : In i (ids l) -> exists t, In t l /\ t_id t = i.
Proof. unfold ids. rewrite in_map_iff. intros [t [H1 H2]]. eauto. Qed.

(* the expiry decision, spelled out *)
Lemma eligible_iff now t :
  eligible now t = true <->
  t_manual t = false /\ t_status t = Waiting /\ exists x, t_expire t = Some x /\ x <= now.
Proof.
  unfold eligible, clock_expire.
  rewrite !andb_true_iff, negb_true_iff, status_eqb_eq.
  split.
  - intros [[Hm Hs] Hc]. destruct (t_expire t) as [x|]; [|discriminate].
    rewrite andb_true_iff, !negb_true_iff in Hc. destruct Hc as [_ Hc].
    apply Z.ltb_ge in Hc. eauto.
  - intros [Hm [Hs [x [Hx Hle]]]]. rewrite Hx, Hs. simpl.
    repeat split; auto. rewrite negb_true_iff. apply Z.ltb_ge. lia.
Qed.

Lemma mark_expired_id t : t_id (mark_expired t) = t_id t.
Proof. reflexivity. Qed.

Lemma mark_expired_status t : t_status (mark_expired t) = Expired.
Proof. reflexivity. Qed.

Lemma mark_expired_not_eligible now t : eligible now (mark_expired t) = false.
Proof. unfold eligible. simpl. rewrite andb_false_r. reflexivity. Qed.

Lemma expired_not_eligible now t : t_status t = Expired -> eligible now t = false.
Proof. intro H. unfold eligible. rewrite H. simpl. rewrite andb_false_r. reflexivity. Qed.

Lemma new_task_id e i : t_id (new_task e i) = i.
Proof. reflexivity. Qed.

(* ---------------------------------------------------------------- events *)
Lemma expired_ids_app a b : expired_ids (a ++ b) = expired_ids a ++ expired_ids b.
Proof. unfold expired_ids. apply flat_map_app. Qed.

Lemma in_expired_ids i evs : In i (expired_ids evs) <-> In (EvExpired i) evs.
Proof.
  unfold expired_ids. rewrite in_flat_map. split.
  - intros [ev [H1 H2]]. destruct ev; simpl in H2; try tauto. destruct H2 as [<-|[]]. exact H1.
  - intro H. exists (EvExpired i). split; [exact H | simpl; auto].
Qed.

Definition is_child_ev (ev : event) : bool :=
  match ev with EvSpawn _ _ | EvSat _ _ | EvNoSpawn _ _ => true | _ => false end.

Lemma spawn_list_evs e p : forall cs pool gone ts evs,
  spawn_list e p pool gone cs = (ts, evs) ->
  (forall ev, In ev evs -> exists c, In c cs /\ (ev = EvSpawn p c \/ ev = EvSat p c \/ ev = EvNoSpawn p c)) /\
  (forall c, In c cs -> In (EvSpawn p c) evs \/ In (EvSat p c) evs \/ In (EvNoSpawn p c) evs) /\
  (forall c, In (EvSpawn p c) evs <-> In (new_task e c) ts) /\
  (forall t, In t ts -> exists c, In c cs /\ t = new_task e c /\ ~ In c pool /\ ~ In c gone).
Proof.
  induction cs as [|c rest IH]; intros pool gone ts evs H; simpl in H.
  - inversion H; subst. repeat split; try (intros; simpl in *; tauto).
  - destruct (mem N.eqb c pool) eqn:Ep.
    + destruct (spawn_list e p pool gone rest) as [ts0 evs0] eqn:E0. inversion H; subst; clear H.
      destruct (IH _ _ _ _ E0) as [A [B [C D]]]. repeat split.
      * intros ev [<-|Hin]; [exists c; simpl; auto|]. destruct (A _ Hin) as [c' [H1 H2]]. exists c'. simpl; auto.
      * intros c' [<-|Hin]; [right; left; simpl; auto|]. destruct (B _ Hin) as [H|[H|H]]; simpl; auto.
      * intros [Hd|Hin]; [discriminate|]. apply C; exact Hin.
      * intro Hin. right. apply C; exact Hin.
      * intros t Hin. destruct (D _ Hin) as [c' [H1 H2]]. exists c'. simpl; auto.
    + destruct (mem N.eqb c gone) eqn:Eg.
      * destruct (spawn_list e p pool gone rest) as [ts0 evs0] eqn:E0. inversion H; subst; clear H.
        destruct (IH _ _ _ _ E0) as [A [B [C D]]]. repeat split.
        -- intros ev [<-|Hin]; [exists c; simpl; auto|]. destruct (A _ Hin) as [c' [H1 H2]]. exists c'. simpl; auto.
        -- intros c' [<-|Hin]; [right; right; simpl; auto|]. destruct (B _ Hin) as [H|[H|H]]; simpl; auto.
        -- intros [Hd|Hin]; [discriminate|]. apply C; exact Hin.
        -- intro Hin. right. apply C; exact Hin.
        -- intros t Hin. destruct (D _ Hin) as [c' [H1 H2]]. exists c'. simpl; auto.
      * destruct (spawn_list e p (c :: pool) gone rest) as [ts0 evs0] eqn:E0. inversion H; subst; clear H.
        destruct (IH _ _ _ _ E0) as [A [B [C D]]]. repeat split.
        -- intros ev [<-|Hin]; [exists c; simpl; auto|]. destruct (A _ Hin) as [c' [H1 H2]]. exists c'. simpl; auto.
        -- intros c' [<-|Hin]; [left; simpl; auto|]. destruct (B _ Hin) as [H|[H|H]]; simpl; auto.
        -- intros [Hd|Hin]; [inversion Hd; subst; left; reflexivity|]. right. apply C; exact Hin.
        -- intros [Hd|Hin].
           ++ left. f_equal. change c with (t_id (new_task e c)). rewrite Hd. reflexivity.
           ++ right. apply C; exact Hin.
        -- intros t [<-|Hin].
           ++ exists c. apply memN_false in Ep. apply memN_false in Eg. simpl; auto.
           ++ destruct (D _ Hin) as [c' [H1 [H2 [H3 H4]]]]. exists c'. simpl in *. repeat split; auto.
Qed.

(* the ids of the tasks created by one spawn_list are pairwise distinct *)
Lemma spawn_list_distinct e p : forall cs pool gone ts evs,
  spawn_list e p pool gone cs = (ts, evs) ->
  forall t u, In t ts -> In u ts -> t_id t = t_id u -> t = u.
Proof.
  intros cs pool gone ts evs H t u Ht Hu Hid.
  destruct (proj2 (proj2 (proj2 (spawn_list_evs e p cs pool gone ts evs H))) t Ht) as [c [_ [-> _]]].
  destruct (proj2 (proj2 (proj2 (spawn_list_evs e p cs pool gone ts evs H))) u Hu) as [c' [_ [-> _]]].
  simpl in Hid. subst. reflexivity.
Qed.

(* ---------------------------------------------------------------- well-formed pools *)
(* ids are unique; nothing in the pool is recorded as gone *)
Definition WF (p : list task) (gone : list N) : Prop :=
  NoDup (ids p) /\ (forall i, In i (ids p) -> ~ In i gone).

Lemma nodup_app_iff {A} (a b : list A) :
  NoDup (a ++ b) <-> NoDup a /\ NoDup b /\ (forall x, In x a -> ~ In x b).
Proof.
  induction a as [|x a IH]; simpl.
  - split; [intro H; repeat split; auto; constructor | tauto].
  - split.
    + intro H. inversion H as [|? ? Hx Hn]; subst. apply IH in Hn. destruct Hn as [Ha [Hb Hd]].
      rewrite in_app_iff in Hx. repeat split; auto.
      * constructor; tauto.
      * intros y [<-|Hy]; [tauto | apply Hd; exact Hy].
    + intros [Ha [Hb Hd]]. inversion Ha as [|? ? Hx Hn]; subst. constructor.
      * rewrite in_app_iff. intros [H|H]; [tauto | apply (Hd x); auto].
      * apply IH. repeat split; auto.
Qed.

Lemma nodup_N_spec l : nodup_N l = true -> NoDup l.
Proof.
  induction l as [|x l IH]; simpl; intro H; [constructor|].
  apply andb_true_iff in H. destruct H as [H1 H2]. apply negb_true_iff, memN_false in H1.
  constructor; auto.
Qed.

Lemma NoDup_ids_inj l : NoDup (ids l) -> forall t u, In t l -> In u l -> t_id t = t_id u -> t = u.
Proof.
  induction l as [|x l IH]; simpl; intros Hn t u Ht Hu Hid; [tauto|].
  inversion Hn as [|? ? Hx Hn']; subst.
  destruct Ht as [<-|Ht], Hu as [<-|Hu]; auto.
  - exfalso. apply Hx. rewrite Hid. apply in_ids; assumption.
  - exfalso. apply Hx. rewrite <- Hid. apply in_ids; assumption.
Qed.

Lemma wf_state_WF p g : wf_state p g = true -> WF p g.
Proof.
  unfold wf_state. rewrite andb_true_iff, forallb_forall. intros [H1 H2]. split.
  - apply nodup_N_spec, H1.
  - intros i Hi. apply memN_false. apply negb_true_iff. apply H2. exact Hi.
Qed.

Lemma WF_inj p g : WF p g -> forall t u, In t p -> In u p -> t_id t = t_id u -> t = u.
Proof. intros [H _]. apply NoDup_ids_inj, H. Qed.

(* ---------------------------------------------------------------- one expiring task *)
Definition optl {A} (o : option A) : list A := match o with Some x => [x] | None => [] end.

Definition step_one (e : env) (t : task) (pool gone : list N)
  : option task * list task * list N * list event :=
  let t1 := mark_expired t in
  let '(kids, evk) := spawn_on_output e t1 O_EXPIRED pool gone in
  if complete t1 then
    let '(succ, evn) := removal_spawn e t1 (pool ++ ids kids) gone in
    (None, kids ++ succ, t_id t :: gone, EvExpired (t_id t) :: evk ++ evn ++ [EvRemove (t_id t)])
  else (Some t1, kids, gone, EvExpired (t_id t) :: evk).

Lemma pass_go_cons e now done t rest fresh gone evs :
  pass_go e now done (t :: rest) fresh gone evs =
  if eligible now t then
    let '(k, nw, g, ev) := step_one e t (ids done ++ ids (t :: rest) ++ ids fresh) gone in
    pass_go e now (done ++ optl k) rest (fresh ++ nw) g (evs ++ ev)
  else pass_go e now (done ++ [t]) rest fresh gone evs.
Proof.
  simpl. destruct (eligible now t); [|reflexivity].
  unfold step_one.
  destruct (spawn_on_output e (mark_expired t) O_EXPIRED _ gone) as [kids evk].
  destruct (complete (mark_expired t)).
  - destruct (removal_spawn e (mark_expired t) _ gone) as [succ evn]. simpl.
    rewrite app_nil_r. reflexivity.
  - reflexivity.
Qed.

(* remove() never spawns the successor of a task that has just expired: state_reset(expired)
   cleared is_runahead *)
Lemma removal_spawn_expired e t pool gone : removal_spawn e (mark_expired t) pool gone = ([], []).
Proof. unfold removal_spawn. simpl. rewrite andb_false_r. reflexivity. Qed.

Definition child_of (e : env) (t : task) (ev : event) : Prop :=
  exists c, In c (children e (t_id t) O_EXPIRED) /\ t_flow t = true /\
            (ev = EvSpawn (t_id t) c \/ ev = EvSat (t_id t) c \/ ev = EvNoSpawn (t_id t) c).

Lemma step_one_spec e t pool gone k nw g ev :
  step_one e t pool gone = (k, nw, g, ev) ->
  exists evk,
    ev = EvExpired (t_id t) :: evk ++ (if complete (mark_expired t) then [EvRemove (t_id t)] else []) /\
    k = (if complete (mark_expired t) then None else Some (mark_expired t)) /\
    g = (if complete (mark_expired t) then t_id t :: gone else gone) /\
    (forall x, In x evk -> child_of e t x) /\
    (t_flow t = true -> t_flow_wait t = false -> forall c, In c (children e (t_id t) O_EXPIRED) ->
       In (EvSpawn (t_id t) c) evk \/ In (EvSat (t_id t) c) evk \/ In (EvNoSpawn (t_id t) c) evk) /\
    (forall c, In (EvSpawn (t_id t) c) evk <-> In (new_task e c) nw) /\
    (forall u, In u nw -> exists c, In c (children e (t_id t) O_EXPIRED) /\ u = new_task e c /\
                                   ~ In c pool /\ ~ In c gone) /\
    (forall u v, In u nw -> In v nw -> t_id u = t_id v -> u = v).
Proof.
  unfold step_one, spawn_on_output. simpl (t_flow (mark_expired t)). simpl (t_flow_wait (mark_expired t)).
  simpl (t_id (mark_expired t)).
  set (cs := if t_flow t then children e (t_id t) O_EXPIRED else []).
  destruct (t_flow_wait t && negb (match cs with [] => true | _ => false end)) eqn:Efw.
  - (* flow wait: nothing spawned *)
    intro H. exists []. destruct (complete (mark_expired t)) eqn:Ec.
    + rewrite removal_spawn_expired in H. inversion H; subst; clear H. simpl.
      repeat split; try (intros; simpl in *; tauto).
      intros Hf Hw. rewrite Hw in Efw. discriminate.
    + inversion H; subst; clear H. simpl.
      repeat split; try (intros; simpl in *; tauto).
      intros Hf Hw. rewrite Hw in Efw. discriminate.
  - destruct (spawn_list e (t_id t) pool gone cs) as [kids evk] eqn:Es.
    destruct (spawn_list_evs _ _ _ _ _ _ _ Es) as [A [B [C D]]].
    pose proof (spawn_list_distinct _ _ _ _ _ _ _ Es) as Dist.
    assert (Hcs : forall c, In c cs -> In c (children e (t_id t) O_EXPIRED) /\ t_flow t = true).
    { subst cs. destruct (t_flow t); simpl; intros c Hc; [auto|tauto]. }
    intro H. exists evk. destruct (complete (mark_expired t)) eqn:Ec.
    + rewrite removal_spawn_expired in H. inversion H; subst; clear H.
      rewrite app_nil_r. simpl. repeat split; auto.
      * intros x Hx. destruct (A _ Hx) as [c [H1 H2]]. destruct (Hcs _ H1). exists c. auto.
      * intros Hf _ c Hc. apply B. subst cs. rewrite Hf. exact Hc.
      * apply C.
      * apply C.
      * intros u Hu. destruct (D _ Hu) as [c [H1 H2]]. exists c. split; [apply Hcs; exact H1 | exact H2].
    + inversion H; subst; clear H. rewrite app_nil_r. repeat split; auto.
      * intros x Hx. destruct (A _ Hx) as [c [H1 H2]]. destruct (Hcs _ H1). exists c. auto.
      * intros Hf _ c Hc. apply B. subst cs. rewrite Hf. exact Hc.
      * apply C.
      * apply C.
      * intros u Hu. destruct (D _ Hu) as [c [H1 H2]]. exists c. split; [apply Hcs; exact H1 | exact H2].
Qed.

Lemma spawn_list_nodup e p : forall cs pool gone ts evs,
  spawn_list e p pool gone cs = (ts, evs) ->
  NoDup (ids ts) /\ (forall c, In c (ids ts) -> ~ In c pool /\ ~ In c gone).
Proof.
  induction cs as [|c rest IH]; intros pool gone ts evs H; simpl in H.
  - inversion H; subst. simpl. split; [constructor | tauto].
  - destruct (mem N.eqb c pool) eqn:Ep.
    + destruct (spawn_list e p pool gone rest) as [ts0 evs0] eqn:E0. inversion H; subst. eapply IH; eauto.
    + destruct (mem N.eqb c gone) eqn:Eg.
      * destruct (spawn_list e p pool gone rest) as [ts0 evs0] eqn:E0. inversion H; subst. eapply IH; eauto.
      * destruct (spawn_list e p (c :: pool) gone rest) as [ts0 evs0] eqn:E0. inversion H; subst; clear H.
        destruct (IH _ _ _ _ E0) as [A B]. apply memN_false in Ep. apply memN_false in Eg. simpl. split.
        -- constructor; [|exact A]. intro Hc. destruct (B _ Hc) as [Hn _]. apply Hn. simpl; auto.
        -- intros c' [<-|Hc']; [auto|]. destruct (B _ Hc') as [H1 H2]. split; [|exact H2].
           intro Hp. apply H1. simpl; auto.
Qed.

Lemma step_one_nodup e t pool gone k nw g ev :
  step_one e t pool gone = (k, nw, g, ev) ->
  NoDup (ids nw) /\ (forall c, In c (ids nw) -> ~ In c pool /\ ~ In c gone).
Proof.
  unfold step_one, spawn_on_output.
  destruct (t_flow_wait (mark_expired t) && _).
  - destruct (complete (mark_expired t)).
    + rewrite removal_spawn_expired. intro H; inversion H; subst. simpl. split; [constructor|tauto].
    + intro H; inversion H; subst. simpl. split; [constructor|tauto].
  - destruct (spawn_list e (t_id (mark_expired t)) pool gone _) as [kids evk] eqn:Es.
    pose proof (spawn_list_nodup _ _ _ _ _ _ _ Es) as Hn.
    destruct (complete (mark_expired t)).
    + rewrite removal_spawn_expired. intro H; inversion H; subst. rewrite app_nil_r. exact Hn.
    + intro H; inversion H; subst. exact Hn.
Qed.

Lemma WF_step_keep done t rest fresh nw gone t' :
  t_id t' = t_id t ->
  WF (done ++ (t :: rest) ++ fresh) gone ->
  NoDup (ids nw) ->
  (forall c, In c (ids nw) -> ~ In c (ids done ++ ids (t :: rest) ++ ids fresh) /\ ~ In c gone) ->
  WF ((done ++ [t']) ++ rest ++ (fresh ++ nw)) gone.
Proof.
  intros Hid [Hn Hg] Hnw Hd. unfold WF in *.
  assert (E : ids ((done ++ [t']) ++ rest ++ fresh ++ nw) = ids (done ++ (t :: rest) ++ fresh) ++ ids nw).
  { rewrite !ids_app. simpl. rewrite Hid. rewrite <- !app_assoc. simpl. rewrite <- !app_assoc. reflexivity. }
  rewrite E. split.
  - apply nodup_app_iff. repeat split; auto. intros x Hx Hx'. destruct (Hd _ Hx') as [H _]. apply H.
    rewrite !ids_app in Hx. exact Hx.
  - intros i Hi. apply in_app_iff in Hi. destruct Hi as [Hi|Hi]; [apply Hg; exact Hi | apply Hd; exact Hi].
Qed.

Lemma WF_step_drop done t rest fresh nw gone :
  WF (done ++ (t :: rest) ++ fresh) gone ->
  NoDup (ids nw) ->
  (forall c, In c (ids nw) -> ~ In c (ids done ++ ids (t :: rest) ++ ids fresh) /\ ~ In c gone) ->
  WF ((done ++ []) ++ rest ++ (fresh ++ nw)) (t_id t :: gone).
Proof.
  intros [Hn Hg] Hnw Hd. unfold WF in *.
  rewrite !ids_app in *. simpl in *. rewrite app_nil_r.
  apply NoDup_remove in Hn. destruct Hn as [Hn Ht].
  assert (E : ids done ++ ids rest ++ ids fresh ++ ids nw = (ids done ++ ids rest ++ ids fresh) ++ ids nw)
    by (rewrite <- !app_assoc; reflexivity).
  rewrite E. split.
  - apply nodup_app_iff. repeat split; auto. intros x Hx Hx'. destruct (Hd _ Hx') as [H _]. apply H.
    rewrite !in_app_iff in *; simpl; rewrite ?in_app_iff; tauto.
  - intros i Hi [<-|Hgi].
    + apply in_app_iff in Hi. destruct Hi as [Hi|Hi]; [exact (Ht Hi)|].
      destruct (Hd _ Hi) as [H _]. apply H. rewrite !in_app_iff; simpl; rewrite ?in_app_iff; tauto.
    + apply in_app_iff in Hi. destruct Hi as [Hi|Hi].
      * apply (Hg i); [|exact Hgi]. rewrite !in_app_iff in *; simpl; rewrite ?in_app_iff; tauto.
      * destruct (Hd _ Hi) as [_ H]. exact (H Hgi).
Qed.

(* ---------------------------------------------------------------- the whole pass *)
(* what becomes of a task of the pool in one pass *)
Definition keep (now : Z) (t : task) : option task :=
  if eligible now t then (if complete (mark_expired t) then None else Some (mark_expired t)) else Some t.

Definition keepl (now : Z) (l : list task) : list task := flat_map (fun t => optl (keep now t)) l.

Definition removed_by (now : Z) (todo : list task) (i : N) : Prop :=
  exists t, In t todo /\ t_id t = i /\ eligible now t = true /\ complete (mark_expired t) = true.

Definition pass_ev (x : event) : bool :=
  match x with EvExpired _ | EvSpawn _ _ | EvSat _ _ | EvNoSpawn _ _ | EvRemove _ => true | _ => false end.

Lemma in_ev_app_cons {A} (x y : A) a b : In x (y :: a ++ b) <-> x = y \/ In x a \/ In x b.
Proof. simpl. rewrite in_app_iff. intuition congruence. Qed.

Lemma pass_go_spec e now : forall todo done fresh gone evs p' g' evs',
  WF (done ++ todo ++ fresh) gone ->
  pass_go e now done todo fresh gone evs = (p', g', evs') ->
  exists fresh' nevs,
    p' = done ++ keepl now todo ++ fresh ++ fresh' /\
    evs' = evs ++ nevs /\
    WF p' g' /\
    (forall i, In i g' <-> In i gone \/ removed_by now todo i) /\
    expired_ids nevs = map t_id (filter (eligible now) todo) /\
    (forall x, In x nevs -> is_child_ev x = true ->
       exists t, In t todo /\ eligible now t = true /\ child_of e t x) /\
    (forall t, In t todo -> eligible now t = true -> t_flow t = true -> t_flow_wait t = false ->
       forall c, In c (children e (t_id t) O_EXPIRED) ->
       In (EvSpawn (t_id t) c) nevs \/ In (EvSat (t_id t) c) nevs \/ In (EvNoSpawn (t_id t) c) nevs) /\
    (forall u, In u fresh' <-> exists p c, u = new_task e c /\ In (EvSpawn p c) nevs) /\
    (forall x, In x nevs -> pass_ev x = true) /\
    (forall i, In (EvRemove i) nevs <-> removed_by now todo i).
Proof.
  induction todo as [|t rest IH]; intros done fresh gone evs p' g' evs' Hwf H.
  - simpl in H. inversion H; subst; clear H. exists [], []. simpl. rewrite !app_nil_r.
    simpl in Hwf. destruct Hwf as [Hwf1 Hwf2].
    repeat split; auto; try (intros; simpl in *; tauto).
    + intros [Hi|[t [[] _]]]. exact Hi.
    + intros [p [c [_ []]]].
    + intros [t [[] _]].
  - rewrite pass_go_cons in H. destruct (eligible now t) eqn:El.
    + destruct (step_one e t (ids done ++ ids (t :: rest) ++ ids fresh) gone) as [[[k nw] g] ev] eqn:Es.
      destruct (step_one_spec _ _ _ _ _ _ _ _ Es) as [evk [Hev [Hk [Hg [Hsound [Hcompl [Hsp [Hnw _]]]]]]]].
      destruct (step_one_nodup _ _ _ _ _ _ _ _ Es) as [Hnd Hdis].
      assert (Hwf' : WF ((done ++ optl k) ++ rest ++ (fresh ++ nw)) g).
      { destruct (complete (mark_expired t)); subst k g; simpl optl.
        - apply WF_step_drop; auto.
        - apply (WF_step_keep done t rest fresh nw gone (mark_expired t)); auto. }
      destruct (IH _ _ _ _ _ _ _ Hwf' H) as [fresh' [nevs [Hp [He [Hw [Hgn [Hex [Hs [Hc [Hf [Hnx Hrm]]]]]]]]]]].
      exists (nw ++ fresh'), (ev ++ nevs).
      assert (Hnoev : forall x, In x ev -> x = EvExpired (t_id t) \/ In x evk \/ x = EvRemove (t_id t)).
      { intros x Hx. rewrite Hev in Hx. apply in_ev_app_cons in Hx. destruct Hx as [Hx|[Hx|Hx]]; auto.
        destruct (complete (mark_expired t)); simpl in Hx; [destruct Hx as [<-|[]]; auto | tauto]. }
      assert (Hevk_child : forall x, In x evk -> is_child_ev x = true).
      { intros x Hx. destruct (Hsound _ Hx) as [c [_ [_ [Hq|[Hq|Hq]]]]]; subst x; reflexivity. }
      repeat split.
      * (* pool *)
        rewrite Hp. simpl keepl. unfold keep at 1. rewrite El. rewrite Hk.
        destruct (complete (mark_expired t)); simpl; rewrite <- !app_assoc; reflexivity.
      * rewrite He. rewrite <- app_assoc. reflexivity.
      * apply Hw.
      * apply Hw.
      * (* gone -> *)
        intro Hi. apply Hgn in Hi. destruct Hi as [Hi|[u [Hu1 Hu2]]].
        -- rewrite Hg in Hi. destruct (complete (mark_expired t)) eqn:Ec.
           ++ destruct Hi as [<-|Hi]; [|auto]. right. exists t. simpl; auto.
           ++ auto.
        -- right. exists u. simpl; tauto.
      * (* gone <- *)
        intros [Hi|[u [[<-|Hu1] [Hu2 [Hu3 Hu4]]]]]; apply Hgn.
        -- left. rewrite Hg. destruct (complete (mark_expired t)); simpl; auto.
        -- left. rewrite Hg, Hu4. simpl; auto.
        -- right. exists u. auto.
      * (* expired ids *)
        rewrite expired_ids_app, Hex. simpl filter. rewrite El. simpl map. f_equal.
        rewrite Hev. simpl. f_equal.
        rewrite expired_ids_app.
        assert (E1 : expired_ids evk = []).
        { clear -Hevk_child. induction evk as [|x l IHl]; [reflexivity|].
          simpl. pose proof (Hevk_child x (or_introl eq_refl)) as Hx.
          destruct x; simpl in Hx; try discriminate; simpl; apply IHl; intros y Hy; apply Hevk_child; simpl; auto. }
        rewrite E1. destruct (complete (mark_expired t)); reflexivity.
      * (* soundness *)
        intros x Hx Hcx. apply in_app_iff in Hx. destruct Hx as [Hx|Hx].
        -- destruct (Hnoev _ Hx) as [Hq|[Hx'|Hq]]; try (subst x; discriminate).
           exists t. simpl. repeat split; auto.
        -- destruct (Hs _ Hx Hcx) as [u [Hu1 Hu2]]. exists u. simpl; tauto.
      * (* completeness *)
        intros u [<-|Hu] Hue Hfl Hfw c Hc0.
        -- destruct (Hcompl Hfl Hfw c Hc0) as [Hx|[Hx|Hx]]; [left|right;left|right;right];
             apply in_app_iff; left; rewrite Hev; apply in_ev_app_cons; auto.
        -- destruct (Hc u Hu Hue Hfl Hfw c Hc0) as [Hx|[Hx|Hx]]; [left|right;left|right;right];
             apply in_app_iff; right; exact Hx.
      * (* fresh -> *)
        intro Hu. apply in_app_iff in Hu. destruct Hu as [Hu|Hu].
        -- destruct (Hnw _ Hu) as [c [_ [-> _]]]. exists (t_id t), c. split; [reflexivity|].
           apply in_app_iff. left. rewrite Hev. apply in_ev_app_cons. right; left. apply Hsp. exact Hu.
        -- apply Hf in Hu. destruct Hu as [p [c [-> Hin]]]. exists p, c. split; [reflexivity|].
           apply in_app_iff. right. exact Hin.
      * (* fresh <- *)
        intros [p [c [-> Hin]]]. apply in_app_iff in Hin. apply in_app_iff. destruct Hin as [Hin|Hin].
        -- left. destruct (Hnoev _ Hin) as [Hd|[Hx|Hd]]; try discriminate.
           destruct (Hsound _ Hx) as [c' [_ [_ [Hd|[Hd|Hd]]]]]; inversion Hd; subst.
           apply Hsp. exact Hx.
        -- right. apply Hf. exists p, c. auto.
      * (* kinds of events *)
        intros x Hin. apply in_app_iff in Hin. destruct Hin as [Hin|Hin]; [|exact (Hnx _ Hin)].
        destruct (Hnoev _ Hin) as [Hd|[Hx|Hd]]; try (subst x; reflexivity).
        pose proof (Hevk_child _ Hx) as Hc'. destruct x; simpl in Hc'; try discriminate; reflexivity.
      * (* removes -> *)
        intro Hin. apply in_app_iff in Hin. destruct Hin as [Hin|Hin].
        -- rewrite Hev in Hin. apply in_ev_app_cons in Hin. destruct Hin as [Hd|[Hx|Hx]]; [discriminate| |].
           ++ pose proof (Hevk_child _ Hx) as Hc'. discriminate.
           ++ destruct (complete (mark_expired t)) eqn:Ec; simpl in Hx; [|tauto].
              destruct Hx as [Hd|[]]. inversion Hd; subst. exists t. simpl; auto.
        -- apply Hrm in Hin. destruct Hin as [u [Hu1 Hu2]]. exists u. simpl; tauto.
      * (* removes <- *)
        intros [u [[<-|Hu1] [Hu2 [Hu3 Hu4]]]]; apply in_app_iff.
        -- left. rewrite Hev, Hu4, <- Hu2. apply in_ev_app_cons. right; right. simpl; auto.
        -- right. apply Hrm. exists u. auto.
    + (* not eligible: untouched *)
      assert (Hwf' : WF ((done ++ [t]) ++ rest ++ fresh) gone).
      { rewrite <- app_assoc. exact Hwf. }
      destruct (IH _ _ _ _ _ _ _ Hwf' H) as [fresh' [nevs [Hp [He [Hw [Hgn [Hex [Hs [Hc [Hf [Hnx Hrm]]]]]]]]]]].
      exists fresh', nevs. repeat split; auto; try apply Hw.
      * rewrite Hp. simpl keepl. unfold keep at 1. rewrite El. simpl. rewrite <- !app_assoc. reflexivity.
      * intro Hi. apply Hgn in Hi. destruct Hi as [Hi|[u [Hu1 Hu2]]]; [auto|]. right. exists u. simpl; tauto.
      * intros [Hi|[u [[<-|Hu1] [Hu2 [Hu3 Hu4]]]]]; apply Hgn; [auto | congruence | right; exists u; auto].
      * rewrite Hex. simpl. rewrite El. reflexivity.
      * intros x Hx Hcx. destruct (Hs _ Hx Hcx) as [u [Hu1 Hu2]]. exists u. simpl; tauto.
      * intros u [<-|Hu] Hue; [congruence|]. apply Hc; auto.
      * apply Hf.
      * apply Hf.
      * intro Hin. apply Hrm in Hin. destruct Hin as [u [Hu1 Hu2]]. exists u. simpl; tauto.
      * intros [u [[<-|Hu1] [Hu2 [Hu3 Hu4]]]]; [congruence|]. apply Hrm. exists u. auto.
Qed.

(* ---------------------------------------------------------------- theorems about one pass *)
Lemma in_keepl now u l : In u (keepl now l) <-> exists t, In t l /\ keep now t = Some u.
Proof.
  unfold keepl. rewrite in_flat_map. split.
  - intros [t [Ht Hu]]. exists t. split; [exact Ht|]. destruct (keep now t); simpl in Hu; [|tauto].
    destruct Hu as [<-|[]]. reflexivity.
  - intros [t [Ht Hk]]. exists t. split; [exact Ht|]. rewrite Hk. simpl; auto.
Qed.

Lemma pass_spec e now pool gone p' g' evs :
  WF pool gone ->
  clock_expire_tasks e now pool gone = (p', g', evs) ->
  exists fresh',
    p' = keepl now pool ++ fresh' /\
    WF p' g' /\
    (forall i, In i g' <-> In i gone \/ removed_by now pool i) /\
    expired_ids evs = map t_id (filter (eligible now) pool) /\
    (forall x, In x evs -> is_child_ev x = true ->
       exists t, In t pool /\ eligible now t = true /\ child_of e t x) /\
    (forall t, In t pool -> eligible now t = true -> t_flow t = true -> t_flow_wait t = false ->
       forall c, In c (children e (t_id t) O_EXPIRED) ->
       In (EvSpawn (t_id t) c) evs \/ In (EvSat (t_id t) c) evs \/ In (EvNoSpawn (t_id t) c) evs) /\
    (forall u, In u fresh' <-> exists p c, u = new_task e c /\ In (EvSpawn p c) evs) /\
    (forall x, In x evs -> pass_ev x = true) /\
    (forall i, In (EvRemove i) evs <-> removed_by now pool i).
Proof.
  intros Hwf H. unfold clock_expire_tasks in H.
  assert (Hwf0 : WF ([] ++ pool ++ []) gone) by (simpl; rewrite app_nil_r; exact Hwf).
  destruct (pass_go_spec _ _ _ _ _ _ _ _ _ _ Hwf0 H) as [fresh' [nevs [Hp [He [Hw R]]]]].
  simpl in Hp, He. subst evs. exists fresh'. split; [exact Hp|]. split; [exact Hw|]. exact R.
Qed.

(* (a) exactly the eligible tasks expire, in pool order *)
Lemma pass_expired_list e now pool gone p' g' evs :
  WF pool gone -> clock_expire_tasks e now pool gone = (p', g', evs) ->
  expired_ids evs = map t_id (filter (eligible now) pool).
Proof. intros Hwf H. destruct (pass_spec _ _ _ _ _ _ _ Hwf H) as [f [_ [_ [_ [E _]]]]]. exact E. Qed.

Lemma pass_expires_iff e now pool gone p' g' evs :
  WF pool gone -> clock_expire_tasks e now pool gone = (p', g', evs) ->
  forall i, In (EvExpired i) evs <->
            exists t, In t pool /\ t_id t = i /\ t_manual t = false /\ t_status t = Waiting /\
                      exists x, t_expire t = Some x /\ x <= now.
Proof.
  intros Hwf H i. rewrite <- in_expired_ids, (pass_expired_list _ _ _ _ _ _ _ Hwf H), in_map_iff.
  split.
  - intros [t [Hid Ht]]. apply filter_In in Ht. destruct Ht as [Ht El]. apply eligible_iff in El.
    exists t. tauto.
  - intros [t [Ht [Hid El]]]. exists t. split; [exact Hid|]. apply filter_In. split; [exact Ht|].
    apply eligible_iff. exact El.
Qed.

(* (e) a task that is not eligible -- in particular every task that is not waiting -- is left as it is *)
Lemma pass_ineligible_kept e now pool gone p' g' evs :
  WF pool gone -> clock_expire_tasks e now pool gone = (p', g', evs) ->
  forall t, In t pool -> eligible now t = false -> In t p'.
Proof.
  intros Hwf H t Ht El. destruct (pass_spec _ _ _ _ _ _ _ Hwf H) as [f [Hp _]]. rewrite Hp.
  apply in_app_iff. left. apply in_keepl. exists t. split; [exact Ht|]. unfold keep. rewrite El. reflexivity.
Qed.

Lemma not_waiting_ineligible now t : t_status t <> Waiting -> eligible now t = false.
Proof.
  intro H. unfold eligible. destruct (status_eqb (t_status t) Waiting) eqn:E.
  - apply status_eqb_eq in E. contradiction.
  - rewrite andb_false_r. reflexivity.
Qed.

Lemma pass_members e now pool gone p' g' evs :
  WF pool gone -> clock_expire_tasks e now pool gone = (p', g', evs) ->
  forall u, In u p' ->
    (In u pool /\ eligible now u = false) \/
    (exists t, In t pool /\ eligible now t = true /\ complete (mark_expired t) = false /\ u = mark_expired t) \/
    (exists p c, u = new_task e c /\ In (EvSpawn p c) evs).
Proof.
  intros Hwf H u Hu. destruct (pass_spec _ _ _ _ _ _ _ Hwf H) as [f [Hp [_ [_ [_ [_ [_ [Hf _]]]]]]]].
  rewrite Hp in Hu. apply in_app_iff in Hu. destruct Hu as [Hu|Hu].
  - apply in_keepl in Hu. destruct Hu as [t [Ht Hk]]. unfold keep in Hk.
    destruct (eligible now t) eqn:El.
    + destruct (complete (mark_expired t)) eqn:Ec; [discriminate|]. inversion Hk; subst.
      right; left. exists t. auto.
    + inversion Hk; subst. left. auto.
  - right; right. apply Hf. exact Hu.
Qed.

Lemma pass_expired_fate e now pool gone p' g' evs :
  WF pool gone -> clock_expire_tasks e now pool gone = (p', g', evs) ->
  forall t, In t pool -> eligible now t = true ->
    if complete (mark_expired t) then In (t_id t) g' /\ ~ In (t_id t) (ids p') /\ In (EvRemove (t_id t)) evs
    else In (mark_expired t) p'.
Proof.
  intros Hwf H t Ht El.
  destruct (pass_spec _ _ _ _ _ _ _ Hwf H) as [f [Hp [Hw [Hg [_ [_ [_ [_ [_ Hrm]]]]]]]]].
  destruct (complete (mark_expired t)) eqn:Ec.
  - assert (Hr : removed_by now pool (t_id t)) by (exists t; auto).
    assert (Hin : In (t_id t) g') by (apply Hg; right; exact Hr).
    split; [exact Hin|]. split; [|apply Hrm; exact Hr].
    intro Hc. destruct Hw as [_ Hd]. exact (Hd _ Hc Hin).
  - rewrite Hp. apply in_app_iff. left. apply in_keepl. exists t. split; [exact Ht|].
    unfold keep. rewrite El, Ec. reflexivity.
Qed.

Lemma pass_WF e now pool gone p' g' evs :
  WF pool gone -> clock_expire_tasks e now pool gone = (p', g', evs) -> WF p' g'.
Proof. intros Hwf H. destruct (pass_spec _ _ _ _ _ _ _ Hwf H) as [f [_ [Hw _]]]. exact Hw. Qed.

Lemma pass_gone_mono e now pool gone p' g' evs :
  WF pool gone -> clock_expire_tasks e now pool gone = (p', g', evs) -> forall i, In i gone -> In i g'.
Proof. intros Hwf H i Hi. destruct (pass_spec _ _ _ _ _ _ _ Hwf H) as [f [_ [_ [Hg _]]]]. apply Hg. auto. Qed.

(* (d) the expired output reaches exactly the :expired children of the expiring instance *)
Lemma pass_spawn_sound e now pool gone p' g' evs :
  WF pool gone -> clock_expire_tasks e now pool gone = (p', g', evs) ->
  forall p c, In (EvSpawn p c) evs ->
    In (EvExpired p) evs /\ In c (children e p O_EXPIRED) /\ In (new_task e c) p' /\
    exists t, In t pool /\ t_id t = p /\ t_flow t = true.
Proof.
  intros Hwf H p c Hin.
  destruct (pass_spec _ _ _ _ _ _ _ Hwf H) as [f [Hp [_ [_ [_ [Hs [_ [Hf _]]]]]]]].
  destruct (Hs _ Hin eq_refl) as [t [Ht [El [c' [Hc' [Hfl Hev]]]]]].
  assert (E : p = t_id t /\ c = c') by (destruct Hev as [Hd|[Hd|Hd]]; inversion Hd; auto).
  destruct E as [-> ->]. split.
  - apply (pass_expires_iff _ _ _ _ _ _ _ Hwf H). exists t. apply eligible_iff in El. tauto.
  - split; [exact Hc'|]. split.
    + rewrite Hp. apply in_app_iff. right. apply Hf. eauto.
    + exists t. auto.
Qed.

Lemma pass_child_events_sound e now pool gone p' g' evs :
  WF pool gone -> clock_expire_tasks e now pool gone = (p', g', evs) ->
  forall p c, In (EvSpawn p c) evs \/ In (EvSat p c) evs \/ In (EvNoSpawn p c) evs ->
    In (EvExpired p) evs /\ In c (children e p O_EXPIRED).
Proof.
  intros Hwf H p c Hin.
  destruct (pass_spec _ _ _ _ _ _ _ Hwf H) as [f [_ [_ [_ [_ [Hs _]]]]]].
  assert (Hx : exists x, In x evs /\ is_child_ev x = true /\
                         (x = EvSpawn p c \/ x = EvSat p c \/ x = EvNoSpawn p c)).
  { destruct Hin as [Hi|[Hi|Hi]]; eexists; (split; [exact Hi|]); split; auto. }
  destruct Hx as [x [Hxi [Hxc Hxe]]].
  destruct (Hs _ Hxi Hxc) as [t [Ht [El [c' [Hc' [Hfl Hev]]]]]].
  assert (E : p = t_id t /\ c = c').
  { destruct Hxe as [Hq|[Hq|Hq]]; subst x; destruct Hev as [Hd|[Hd|Hd]]; inversion Hd; auto. }
  destruct E as [-> ->]. split; [|exact Hc'].
  apply (pass_expires_iff _ _ _ _ _ _ _ Hwf H). exists t. apply eligible_iff in El. tauto.
Qed.

Lemma pass_children_complete e now pool gone p' g' evs :
  WF pool gone -> clock_expire_tasks e now pool gone = (p', g', evs) ->
  forall t, In t pool -> eligible now t = true -> t_flow t = true -> t_flow_wait t = false ->
  forall c, In c (children e (t_id t) O_EXPIRED) ->
    In (EvSpawn (t_id t) c) evs \/ In (EvSat (t_id t) c) evs \/ In (EvNoSpawn (t_id t) c) evs.
Proof.
  intros Hwf H. destruct (pass_spec _ _ _ _ _ _ _ Hwf H) as [f [_ [_ [_ [_ [_ [Hc _]]]]]]]. exact Hc.
Qed.

Lemma pass_event_kinds e now pool gone p' g' evs :
  WF pool gone -> clock_expire_tasks e now pool gone = (p', g', evs) ->
  forall x, In x evs -> pass_ev x = true.
Proof.
  intros Hwf H. destruct (pass_spec _ _ _ _ _ _ _ Hwf H) as [f [_ [_ [_ [_ [_ [_ [_ [Hk _]]]]]]]]]. exact Hk.
Qed.

(* the expiry pass never spawns the parentless successor of a task it removes *)
Lemma pass_no_successor e now pool gone p' g' evs :
  WF pool gone -> clock_expire_tasks e now pool gone = (p', g', evs) ->
  forall i s, ~ In (EvNext i s) evs.
Proof.
  intros Hwf H i s Hin. pose proof (pass_event_kinds _ _ _ _ _ _ _ Hwf H _ Hin) as Hk. discriminate.
Qed.

(* (b) a task that expired in one pass does not expire in the next one, whatever the clock does *)
Lemma pass_twice e now pool gone p1 g1 ev1 e2 now2 p2 g2 ev2 :
  WF pool gone ->
  clock_expire_tasks e now pool gone = (p1, g1, ev1) ->
  clock_expire_tasks e2 now2 p1 g1 = (p2, g2, ev2) ->
  forall i, In (EvExpired i) ev1 -> ~ In (EvExpired i) ev2.
Proof.
  intros Hwf H1 H2 i Hi1 Hi2.
  pose proof (pass_WF _ _ _ _ _ _ _ Hwf H1) as Hw1.
  apply (pass_expires_iff _ _ _ _ _ _ _ Hwf H1) in Hi1. destruct Hi1 as [t [Ht [Hid El]]].
  apply (pass_expires_iff _ _ _ _ _ _ _ Hw1 H2) in Hi2. destruct Hi2 as [u [Hu [Hidu Elu]]].
  apply eligible_iff in El. apply eligible_iff in Elu.
  pose proof (pass_expired_fate _ _ _ _ _ _ _ Hwf H1 t Ht El) as Hfate.
  assert (Hcase : (In (t_id t) g1) \/ In (mark_expired t) p1).
  { destruct (complete (mark_expired t)); tauto. }
  destruct Hcase as [Hg|Hm].
  - destruct Hw1 as [_ Hd]. apply (Hd (t_id u)); [apply in_ids; exact Hu | congruence].
  - assert (u = mark_expired t) by (apply (WF_inj _ _ Hw1); auto; simpl; congruence).
    subst u. rewrite mark_expired_not_eligible in Elu. discriminate.
Qed.

(* ---------------------------------------------------------------- the step system *)
Lemma ids_upd i f l : (forall t, t_id (f t) = t_id t) -> ids (upd i f l) = ids l.
Proof.
  intro Hf. unfold ids, upd. rewrite map_map. apply map_ext. intro t.
  destruct (N.eqb (t_id t) i); [apply Hf | reflexivity].
Qed.

Lemma in_upd i f l u :
  In u (upd i f l) <-> exists t, In t l /\ u = (if N.eqb (t_id t) i then f t else t).
Proof.
  unfold upd. rewrite in_map_iff. split; intros [t [H1 H2]]; exists t; auto.
Qed.

Lemma find_task_some i l t : find_task i l = Some t -> In t l /\ t_id t = i.
Proof.
  unfold find_task. intro H. apply find_some in H. destruct H as [H1 H2]. apply N.eqb_eq in H2. auto.
Qed.

Lemma pool_ok_iff p : pool_ok p = true <-> forall t, In t p -> task_ok t = true.
Proof. unfold pool_ok. apply forallb_forall. Qed.

Ltac crush_task t :=
  destruct t as [ci cs cm ch cq cr cx cfl cfw co cc ciq cpr ctr]; simpl in *;
  destruct cs, cm, cpr, ctr, ciq, cq; simpl in *; try reflexivity; try discriminate; auto.

Lemma task_ok_expired t :
  task_ok t = true -> t_status t = Expired ->
  t_inq t = false /\ t_queued t = false /\ t_prep t = false /\ t_trig t = false.
Proof. intros H Hs. unfold task_ok in H. rewrite Hs in H. crush_task t. Qed.

Lemma task_ok_waiting_auto t :
  task_ok t = true -> t_status t = Waiting -> t_manual t = false -> t_prep t = false /\ t_trig t = false.
Proof. intros H Hs Hm. unfold task_ok in H. rewrite Hs, Hm in H. crush_task t. Qed.

Lemma task_ok_mark_expired now t : task_ok t = true -> eligible now t = true -> task_ok (mark_expired t) = true.
Proof.
  intros H El. apply eligible_iff in El. destruct El as [Hm [Hs _]].
  destruct (task_ok_waiting_auto _ H Hs Hm) as [Hp Ht].
  unfold task_ok. simpl. rewrite Hm, Hp, Ht. reflexivity.
Qed.

Lemma task_ok_new e i : task_ok (new_task e i) = true.
Proof. reflexivity. Qed.

Lemma task_ok_queue_if_ready r t : task_ok t = true -> task_ok (queue_if_ready r t) = true.
Proof.
  intro H. unfold queue_if_ready.
  destruct (status_eqb (t_status t) Waiting) eqn:Es; simpl; [|exact H].
  destruct (negb (t_queued t) && negb (t_runahead t) && negb (t_manual t) && ready_to_run r t); [|exact H].
  apply status_eqb_eq in Es. unfold task_ok in *. simpl. rewrite Es in *. crush_task t.
Qed.

Lemma task_ok_queue_or_trigger l t : task_ok (queue_or_trigger l t) = true.
Proof. unfold task_ok, queue_or_trigger. simpl. rewrite !orb_true_r. reflexivity. Qed.

Lemma task_ok_set_held b t : task_ok t = true -> task_ok (set_held b t) = true.
Proof. intro H. exact H. Qed.

Lemma task_ok_set_runahead b t : task_ok t = true -> task_ok (set_runahead b t) = true.
Proof. intro H. exact H. Qed.

Lemma task_ok_release_held r t : task_ok t = true -> task_ok (release_held r t) = true.
Proof.
  intro H. unfold release_held. destruct (t_held t); [|exact H].
  destruct (negb (t_runahead (set_held false t)) && ready_to_run r (set_held false t)
            && negb (t_queued (set_held false t))) eqn:E; [|exact H].
  unfold ready_to_run in E. simpl in E.
  destruct (status_eqb (t_status t) Waiting) eqn:Es.
  - apply status_eqb_eq in Es. unfold task_ok in *. simpl. rewrite Es in *. crush_task t.
  - rewrite !andb_false_r in E. simpl in E. rewrite ?andb_false_r in E. discriminate.
Qed.

Lemma task_ok_job_msg s o t :
  msg_status_ok s = true -> t_prep t = false -> task_ok t = true -> task_ok (job_msg s o t) = true.
Proof.
  intros Hs Hp H. unfold task_ok in *. simpl. rewrite Hp in *.
  destruct s; simpl in Hs; try discriminate; crush_task t.
Qed.

Lemma task_ok_submit t : task_ok (submit_task t) = true.
Proof. reflexivity. Qed.

Definition Good (st : state) : Prop := WF (s_pool st) (s_gone st) /\ pool_ok (s_pool st) = true.

Lemma WF_upd i f p g : (forall t, t_id (f t) = t_id t) -> WF p g -> WF (upd i f p) g.
Proof. intros Hf [A B]. unfold WF. rewrite (ids_upd _ _ _ Hf). auto. Qed.

Lemma pool_ok_upd i f p :
  (forall t, In t p -> t_id t = i -> task_ok t = true -> task_ok (f t) = true) ->
  pool_ok p = true -> pool_ok (upd i f p) = true.
Proof.
  intros Hf H. rewrite pool_ok_iff in *. intros u Hu. apply in_upd in Hu. destruct Hu as [t [Ht ->]].
  destruct (N.eqb (t_id t) i) eqn:E; [|auto]. apply N.eqb_eq in E. apply Hf; auto.
Qed.

Lemma pass_pool_ok e now pool gone p' g' evs :
  WF pool gone -> pool_ok pool = true -> clock_expire_tasks e now pool gone = (p', g', evs) -> pool_ok p' = true.
Proof.
  intros Hwf Hok H. rewrite pool_ok_iff in *. intros u Hu.
  destruct (pass_members _ _ _ _ _ _ _ Hwf H u Hu) as [[Hin _]|[[t [Ht [El [_ ->]]]]|[p [c [-> _]]]]].
  - auto.
  - apply (task_ok_mark_expired now); auto.
  - apply task_ok_new.
Qed.

Lemma ids_filter_incl (f : task -> bool) l i : In i (ids (filter f l)) -> In i (ids l).
Proof.
  intro H. apply in_ids_inv in H. destruct H as [t [Ht <-]]. apply filter_In in Ht. apply in_ids. tauto.
Qed.

Lemma NoDup_ids_filter (f : task -> bool) l : NoDup (ids l) -> NoDup (ids (filter f l)).
Proof.
  induction l as [|x l IH]; simpl; intro H; [constructor|].
  inversion H as [|? ? Hx Hn]; subst. destruct (f x); simpl; auto.
  constructor; auto. intro Hc. apply Hx. eapply ids_filter_incl; eauto.
Qed.

Lemma removal_spawn_spec e t pool gone succ evn :
  removal_spawn e t pool gone = (succ, evn) ->
  (succ = [] /\ evn = []) \/
  (exists s, succ = [new_task e s] /\ evn = [EvNext (t_id t) s] /\ ~ In s pool /\ ~ In s gone /\
             t_flow t = true /\ t_runahead t = true /\ assoc N.eqb (t_id t) (e_next e) = Some s).
Proof.
  unfold removal_spawn. destruct (t_flow t && t_runahead t) eqn:E.
  - destruct (assoc N.eqb (t_id t) (e_next e)) as [s|] eqn:Ea.
    + destruct (mem N.eqb s pool || mem N.eqb s gone) eqn:Em.
      * intro H; inversion H; auto.
      * intro H; inversion H; subst. right. exists s. apply orb_false_iff in Em. destruct Em as [E1 E2].
        apply memN_false in E1. apply memN_false in E2. apply andb_true_iff in E. tauto.
    + intro H; inversion H; auto.
  - intro H; inversion H; auto.
Qed.

Theorem step_good st o st' : Good st -> step st o = Some st' -> Good st'.
Proof.
  intros [Hwf Hok] H. destruct st as [p g lg]. simpl in *. destruct o; simpl in H.
  - (* OPass *)
    destruct (clock_expire_tasks e now p g) as [[p' g'] evs] eqn:E. inversion H; subst; clear H.
    split; simpl; [eapply pass_WF; eauto | eapply pass_pool_ok; eauto].
  - (* OQueue *)
    inversion H; subst; clear H. split; simpl.
    + apply WF_upd; auto. intro t. unfold queue_if_ready. destruct (_ && _); reflexivity.
    + apply pool_ok_upd; auto. intros t _ _. apply task_ok_queue_if_ready.
  - (* OReleaseSubmit *)
    destruct (forallb (releasable p) released); [|discriminate]. inversion H; subst; clear H. split; simpl.
    + destruct Hwf as [A B]. unfold WF.
      assert (E : ids (map (fun t => if in_pre_prep released t then submit_task t else t) p) = ids p).
      { unfold ids. rewrite map_map. apply map_ext. intro t. destruct (in_pre_prep released t); reflexivity. }
      rewrite E. auto.
    + rewrite pool_ok_iff in *. intros u Hu. apply in_map_iff in Hu. destruct Hu as [t [<- Ht]].
      destruct (in_pre_prep released t); [apply task_ok_submit | auto].
  - (* OManual *)
    destruct (find_task i p) as [t|] eqn:Ef; [|discriminate].
    assert (Hres : st' = mkState (upd i (queue_or_trigger limited) p) g (lg ++ [EvManual i])).
    { destruct (t_status t); try discriminate; inversion H; reflexivity. }
    subst st'. split; simpl.
    + apply WF_upd; auto.
    + apply pool_ok_upd; auto. intros u _ _ _. apply task_ok_queue_or_trigger.
  - (* OHold *)
    inversion H; subst; clear H. split; simpl.
    + apply WF_upd; auto.
    + apply pool_ok_upd; auto.
  - (* ORelease *)
    inversion H; subst; clear H. split; simpl.
    + apply WF_upd; auto. intro t. unfold release_held. destruct (t_held t); [|reflexivity].
      destruct (_ && _); reflexivity.
    + apply pool_ok_upd; auto. intros t _ _. apply task_ok_release_held.
  - (* ORunahead *)
    inversion H; subst; clear H. split; simpl.
    + apply WF_upd; auto.
    + apply pool_ok_upd; auto.
  - (* OMsg *)
    destruct (find_task i p) as [t|] eqn:Ef; [|discriminate].
    destruct (msg_status_ok s && negb (t_prep t)) eqn:Eg; [|discriminate].
    inversion H; subst; clear H. apply andb_true_iff in Eg. destruct Eg as [Eg1 Eg2].
    apply negb_true_iff in Eg2. apply find_task_some in Ef. destruct Ef as [Ht Hid].
    split; simpl.
    + apply WF_upd; auto.
    + apply pool_ok_upd; auto. intros u Hu Hidu Hoku.
      assert (u = t) by (apply (WF_inj _ _ Hwf); auto; congruence). subst u.
      apply task_ok_job_msg; auto.
  - (* OSpawn *)
    destruct (mem N.eqb i (ids p) || mem N.eqb i g) eqn:Em; [discriminate|]. inversion H; subst; clear H.
    apply orb_false_iff in Em. destruct Em as [E1 E2]. apply memN_false in E1. apply memN_false in E2.
    split; simpl.
    + destruct Hwf as [A B]. unfold WF. rewrite ids_app. simpl. split.
      * apply nodup_app_iff. repeat split; auto.
        -- constructor; [simpl; tauto | constructor].
        -- intros x Hx [<-|[]]. exact (E1 Hx).
      * intros x Hx. apply in_app_iff in Hx. destruct Hx as [Hx|[<-|[]]]; auto.
    + rewrite pool_ok_iff in *. intros u Hu. apply in_app_iff in Hu.
      destruct Hu as [Hu|[<-|[]]]; [auto | apply task_ok_new].
  - (* ORemove *)
    destruct (find_task i p) as [t|] eqn:Ef; [|discriminate].
    destruct (removal_spawn e t (ids p) g) as [succ evn] eqn:Er. inversion H; subst; clear H.
    apply find_task_some in Ef. destruct Ef as [Ht Hid]. subst i.
    set (keepf := fun u : task => negb (N.eqb (t_id u) (t_id t))).
    assert (Hnot : ~ In (t_id t) (ids (filter keepf p))).
    { intro Hc. apply in_ids_inv in Hc. destruct Hc as [u [Hu Hidu]]. apply filter_In in Hu.
      destruct Hu as [_ Hk]. unfold keepf in Hk. apply negb_true_iff, N.eqb_neq in Hk. contradiction. }
    destruct Hwf as [A B].
    split; simpl.
    + unfold WF. rewrite ids_app.
      destruct (removal_spawn_spec _ _ _ _ _ _ Er) as [[-> ->]|[s [-> [-> [Hs1 [Hs2 _]]]]]]; simpl.
      * rewrite app_nil_r. split; [apply NoDup_ids_filter; exact A|].
        intros x Hx [<-|Hg]; [exact (Hnot Hx) | exact (B _ (ids_filter_incl _ _ _ Hx) Hg)].
      * split.
        -- apply nodup_app_iff. repeat split.
           ++ apply NoDup_ids_filter; exact A.
           ++ constructor; [simpl; tauto | constructor].
           ++ intros x Hx [<-|[]]. apply Hs1. eapply ids_filter_incl; eauto.
        -- intros x Hx. apply in_app_iff in Hx. destruct Hx as [Hx|[<-|[]]].
           ++ intros [<-|Hg]; [exact (Hnot Hx) | exact (B _ (ids_filter_incl _ _ _ Hx) Hg)].
           ++ intros [Heq|Hg]; [|exact (Hs2 Hg)]. apply Hs1. rewrite <- Heq. apply in_ids; exact Ht.
    + rewrite pool_ok_iff in *. intros u Hu. apply in_app_iff in Hu. destruct Hu as [Hu|Hu].
      * apply filter_In in Hu. apply Hok. tauto.
      * destruct (removal_spawn_spec _ _ _ _ _ _ Er) as [[-> _]|[s [-> _]]]; simpl in Hu; [tauto|].
        destruct Hu as [<-|[]]. apply task_ok_new.
Qed.

(* ---------------------------------------------------------------- (c) no job for an expired task *)
Definition submit_ok (ev : event) : Prop :=
  match ev with EvSubmit _ s => s <> Expired | _ => True end.

Lemma release_submit_not_expired released p t :
  (exists g, WF p g) -> pool_ok p = true -> forallb (releasable p) released = true ->
  In t p -> in_pre_prep released t = true -> t_status t <> Expired.
Proof.
  intros [g Hw] Hok Hrel Ht Hpre Hs.
  rewrite pool_ok_iff in Hok. destruct (task_ok_expired _ (Hok _ Ht) Hs) as [Hi [_ [Hp Htr]]].
  unfold in_pre_prep in Hpre. rewrite Hp, Htr in Hpre. simpl in Hpre. apply memN_In in Hpre.
  rewrite forallb_forall in Hrel. specialize (Hrel _ Hpre). unfold releasable in Hrel.
  destruct (find_task (t_id t) p) as [t0|] eqn:Ef; [|discriminate].
  apply find_task_some in Ef. destruct Ef as [Ht0 Hid0].
  assert (t0 = t) by (apply (WF_inj _ _ Hw); auto). subst t0.
  rewrite Hi, Hp in Hrel. discriminate.
Qed.

Lemma step_log_ok st o st' :
  Good st -> step st o = Some st' ->
  (forall ev, In ev (s_log st) -> submit_ok ev) -> (forall ev, In ev (s_log st') -> submit_ok ev).
Proof.
  intros [Hwf Hok] H Hlog. destruct st as [p g lg]. simpl in *. destruct o; simpl in H.
  - destruct (clock_expire_tasks e now p g) as [[p' g'] evs] eqn:E. inversion H; subst; clear H. simpl.
    intros ev Hev. apply in_app_iff in Hev. destruct Hev as [Hev|Hev]; [auto|].
    pose proof (pass_event_kinds _ _ _ _ _ _ _ Hwf E _ Hev) as Hk. destruct ev; simpl in *; auto; discriminate.
  - inversion H; subst; auto.
  - destruct (forallb (releasable p) released) eqn:Er; [|discriminate]. inversion H; subst; clear H. simpl.
    intros ev Hev. apply in_app_iff in Hev. destruct Hev as [Hev|Hev]; [auto|].
    apply in_flat_map in Hev. destruct Hev as [t [Ht Hin]].
    destruct (in_pre_prep released t) eqn:Ep; simpl in Hin; [|tauto]. destruct Hin as [<-|[]]. simpl.
    eapply release_submit_not_expired; eauto.
  - destruct (find_task i p) as [t|]; [|discriminate].
    assert (Hres : s_log st' = lg ++ [EvManual i]).
    { destruct (t_status t); try discriminate; inversion H; reflexivity. }
    rewrite Hres. intros ev Hev. apply in_app_iff in Hev. destruct Hev as [Hev|[<-|[]]]; simpl; auto.
  - inversion H; subst; auto.
  - inversion H; subst; auto.
  - inversion H; subst; auto.
  - destruct (find_task i p) as [t|]; [|discriminate].
    destruct (msg_status_ok s && negb (t_prep t)); [|discriminate]. inversion H; subst; auto.
  - destruct (mem N.eqb i (ids p) || mem N.eqb i g); [discriminate|]. inversion H; subst; auto.
  - destruct (find_task i p) as [t|]; [|discriminate].
    destruct (removal_spawn e t (ids p) g) as [succ evn] eqn:Er. inversion H; subst; clear H. simpl.
    intros ev Hev. apply in_app_iff in Hev. destruct Hev as [Hev|Hev]; [auto|].
    apply in_app_iff in Hev.
    destruct (removal_spawn_spec _ _ _ _ _ _ Er) as [[_ ->]|[s [_ [-> _]]]]; simpl in Hev.
    + destruct Hev as [[]|[<-|[]]]. exact I.
    + destruct Hev as [[<-|[]]|[<-|[]]]; exact I.
Qed.

Lemma run_good st os st' : Good st -> run st os = Some st' -> Good st'.
Proof.
  revert st. induction os as [|o os IH]; intros st Hg H; simpl in H.
  - inversion H; subst; exact Hg.
  - destruct (step st o) as [st1|] eqn:E; [|discriminate]. eapply IH; [|exact H]. eapply step_good; eauto.
Qed.

Theorem run_never_submits_expired st os st' :
  Good st -> run st os = Some st' ->
  (forall ev, In ev (s_log st) -> submit_ok ev) -> forall ev, In ev (s_log st') -> submit_ok ev.
Proof.
  revert st. induction os as [|o os IH]; intros st Hg H Hl; simpl in H.
  - inversion H; subst; exact Hl.
  - destruct (step st o) as [st1|] eqn:E; [|discriminate].
    apply (IH st1); [eapply step_good; eauto | exact H | eapply step_log_ok; eauto].
Qed.

(* an expired task stays expired until it is triggered manually, a job message arrives for it,
   or it is removed *)
Definition touches (o : op) (i : N) : bool :=
  match o with
  | OManual j _ | OMsg j _ _ | ORemove _ j => N.eqb i j
  | _ => false
  end.

Lemma in_pre_prep_expired released p g t :
  WF p g -> pool_ok p = true -> forallb (releasable p) released = true -> In t p ->
  t_status t = Expired -> in_pre_prep released t = false.
Proof.
  intros Hw Hok Hrel Ht Hs. destruct (in_pre_prep released t) eqn:E; [|reflexivity].
  exfalso. eapply release_submit_not_expired; eauto.
Qed.

Lemma expired_stable st o st' t :
  Good st -> step st o = Some st' -> In t (s_pool st) -> t_status t = Expired -> touches o (t_id t) = false ->
  exists t', In t' (s_pool st') /\ t_id t' = t_id t /\ t_status t' = Expired.
Proof.
  intros [Hwf Hok] H Ht Hs Hto. destruct st as [p g lg]. simpl in *. destruct o; simpl in H, Hto.
  - destruct (clock_expire_tasks e now p g) as [[p' g'] evs] eqn:E. inversion H; subst; clear H. simpl.
    exists t. split; [|auto]. eapply pass_ineligible_kept; eauto. apply expired_not_eligible; exact Hs.
  - inversion H; subst; clear H. simpl. exists t. split; [|auto]. apply in_upd. exists t. split; [exact Ht|].
    destruct (N.eqb (t_id t) i); [|reflexivity]. unfold queue_if_ready. rewrite Hs. reflexivity.
  - destruct (forallb (releasable p) released) eqn:Er; [|discriminate]. inversion H; subst; clear H. simpl.
    exists t. split; [|auto]. apply in_map_iff. exists t. split; [|exact Ht].
    rewrite (in_pre_prep_expired _ _ _ _ Hwf Hok Er Ht Hs). reflexivity.
  - destruct (find_task i p) as [t0|]; [|discriminate].
    assert (Hres : s_pool st' = upd i (queue_or_trigger limited) p).
    { destruct (t_status t0); try discriminate; inversion H; reflexivity. }
    rewrite Hres. exists t. split; [|auto]. apply in_upd. exists t. split; [exact Ht|].
    rewrite Hto. reflexivity.
  - inversion H; subst; clear H. simpl. destruct (N.eqb (t_id t) i) eqn:E.
    + exists (set_held true t). split; [|auto]. apply in_upd. exists t. rewrite E. auto.
    + exists t. split; [|auto]. apply in_upd. exists t. rewrite E. auto.
  - inversion H; subst; clear H. simpl. destruct (N.eqb (t_id t) i) eqn:E.
    + exists (release_held ready t). split.
      * apply in_upd. exists t. rewrite E. auto.
      * unfold release_held, ready_to_run. destruct (t_held t); [|auto]. simpl. rewrite Hs. simpl.
        rewrite !andb_false_r. simpl. auto.
    + exists t. split; [|auto]. apply in_upd. exists t. rewrite E. auto.
  - inversion H; subst; clear H. simpl. destruct (N.eqb (t_id t) i) eqn:E.
    + exists (set_runahead b t). split; [|auto]. apply in_upd. exists t. rewrite E. auto.
    + exists t. split; [|auto]. apply in_upd. exists t. rewrite E. auto.
  - destruct (find_task i p) as [t0|]; [|discriminate].
    destruct (msg_status_ok s && negb (t_prep t0)); [|discriminate]. inversion H; subst; clear H. simpl.
    exists t. split; [|auto]. apply in_upd. exists t. rewrite Hto. auto.
  - destruct (mem N.eqb i (ids p) || mem N.eqb i g); [discriminate|]. inversion H; subst; clear H. simpl.
    exists t. split; [|auto]. apply in_app_iff. auto.
  - destruct (find_task i p) as [t0|]; [|discriminate].
    destruct (removal_spawn e t0 (ids p) g) as [succ evn]. inversion H; subst; clear H. simpl.
    exists t. split; [|auto]. apply in_app_iff. left. apply filter_In. split; [exact Ht|]. rewrite Hto. reflexivity.
Qed.

(* ---------------------------------------------------------------- (b) at most one expiry per instance *)
Definition no_revive (o : op) : bool :=
  match o with OManual _ _ | OMsg _ _ _ => false | _ => true end.

Definition Logged (st : state) : Prop :=
  NoDup (expired_ids (s_log st)) /\
  forall i, In i (expired_ids (s_log st)) ->
    In i (s_gone st) \/ exists t, In t (s_pool st) /\ t_id t = i /\ t_status t = Expired.

Lemma step_gone_mono st o st' : Good st -> step st o = Some st' -> forall i, In i (s_gone st) -> In i (s_gone st').
Proof.
  intros [Hwf Hok] H i Hi. destruct st as [p g lg]. simpl in *. destruct o; simpl in H.
  - destruct (clock_expire_tasks e now p g) as [[p' g'] evs] eqn:E. inversion H; subst; clear H. simpl.
    eapply pass_gone_mono; eauto.
  - inversion H; subst; auto.
  - destruct (forallb (releasable p) released); [|discriminate]. inversion H; subst; auto.
  - destruct (find_task i0 p) as [t|]; [|discriminate].
    destruct (t_status t); try discriminate; inversion H; subst; auto.
  - inversion H; subst; auto.
  - inversion H; subst; auto.
  - inversion H; subst; auto.
  - destruct (find_task i0 p) as [t|]; [|discriminate].
    destruct (msg_status_ok s && negb (t_prep t)); [|discriminate]. inversion H; subst; auto.
  - destruct (mem N.eqb i0 (ids p) || mem N.eqb i0 g); [discriminate|]. inversion H; subst; auto.
  - destruct (find_task i0 p) as [t|]; [|discriminate].
    destruct (removal_spawn e t (ids p) g) as [succ evn]. inversion H; subst; simpl; auto.
Qed.

Definition is_pass (o : op) : bool := match o with OPass _ _ => true | _ => false end.

Lemma step_expired_ids_same st o st' :
  is_pass o = false -> step st o = Some st' -> expired_ids (s_log st') = expired_ids (s_log st).
Proof.
  intros Hp H. destruct st as [p g lg]. simpl in *. destruct o; simpl in H; try discriminate.
  - inversion H; subst; auto.
  - destruct (forallb (releasable p) released); [|discriminate]. inversion H; subst; clear H. simpl.
    rewrite expired_ids_app.
    assert (E : expired_ids (flat_map (fun t => if in_pre_prep released t then [EvSubmit (t_id t) (t_status t)] else []) p) = []).
    { induction p as [|x l IH]; [reflexivity|]. simpl. rewrite expired_ids_app, IH.
      destruct (in_pre_prep released x); reflexivity. }
    rewrite E, app_nil_r. reflexivity.
  - destruct (find_task i p) as [t|]; [|discriminate].
    assert (Hres : s_log st' = lg ++ [EvManual i]).
    { destruct (t_status t); try discriminate; inversion H; reflexivity. }
    rewrite Hres, expired_ids_app. simpl. rewrite app_nil_r. reflexivity.
  - inversion H; subst; auto.
  - inversion H; subst; auto.
  - inversion H; subst; auto.
  - destruct (find_task i p) as [t|]; [|discriminate].
    destruct (msg_status_ok s && negb (t_prep t)); [|discriminate]. inversion H; subst; auto.
  - destruct (mem N.eqb i (ids p) || mem N.eqb i g); [discriminate|]. inversion H; subst; auto.
  - destruct (find_task i p) as [t|]; [|discriminate].
    destruct (removal_spawn e t (ids p) g) as [succ evn] eqn:Er. inversion H; subst; clear H. simpl.
    rewrite !expired_ids_app.
    destruct (removal_spawn_spec _ _ _ _ _ _ Er) as [[_ ->]|[s [_ [-> _]]]]; simpl; rewrite app_nil_r; reflexivity.
Qed.

Lemma step_remove_gone st e i st' : step st (ORemove e i) = Some st' -> In i (s_gone st').
Proof.
  destruct st as [p g lg]. simpl. destruct (find_task i p) as [t|]; [|discriminate].
  destruct (removal_spawn e t (ids p) g) as [succ evn]. intro H; inversion H; subst; simpl; auto.
Qed.

Lemma step_logged st o st' :
  Good st -> Logged st -> no_revive o = true -> step st o = Some st' -> Logged st'.
Proof.
  intros Hg [Hnd HL] Hnr H. destruct (is_pass o) eqn:Ep.
  - (* the expiry pass *)
    destruct o; try discriminate. destruct Hg as [Hwf Hok]. destruct st as [p g lg]. simpl in *.
    destruct (clock_expire_tasks e now p g) as [[p' g'] evs] eqn:E. inversion H; subst; clear H.
    unfold Logged. simpl.
    rewrite expired_ids_app, (pass_expired_list _ _ _ _ _ _ _ Hwf E).
    assert (Hnew : forall i, In i (map t_id (filter (eligible now) p)) ->
                             exists t, In t p /\ t_id t = i /\ eligible now t = true).
    { intros i Hi. apply in_map_iff in Hi. destruct Hi as [t [Hid Ht]]. apply filter_In in Ht. exists t. tauto. }
    split.
    + apply nodup_app_iff. repeat split; auto.
      * change (NoDup (ids (filter (eligible now) p))). apply NoDup_ids_filter. apply Hwf.
      * intros i Hold Hni. destruct (Hnew _ Hni) as [t [Ht [Hid El]]].
        apply eligible_iff in El. destruct El as [_ [Hs _]].
        destruct (HL _ Hold) as [Hgn|[u [Hu [Hidu Hsu]]]].
        -- destruct Hwf as [_ Hd]. apply (Hd i); [rewrite <- Hid; apply in_ids; exact Ht | exact Hgn].
        -- assert (u = t) by (apply (WF_inj _ _ Hwf); auto; congruence). subst u. congruence.
    + intros i Hi. apply in_app_iff in Hi. destruct Hi as [Hi|Hi].
      * destruct (HL _ Hi) as [Hgn|[u [Hu [Hidu Hsu]]]].
        -- left. eapply pass_gone_mono; eauto.
        -- right. exists u. split; [|auto]. eapply pass_ineligible_kept; eauto.
           apply expired_not_eligible; exact Hsu.
      * destruct (Hnew _ Hi) as [t [Ht [Hid El]]].
        pose proof (pass_expired_fate _ _ _ _ _ _ _ Hwf E t Ht El) as Hf.
        destruct (complete (mark_expired t)).
        -- left. rewrite <- Hid. tauto.
        -- right. exists (mark_expired t). auto.
  - (* anything else *)
    unfold Logged. rewrite (step_expired_ids_same _ _ _ Ep H). split; [exact Hnd|].
    intros i Hi. destruct (HL _ Hi) as [Hgn|[t [Ht [Hid Hs]]]].
    + left. eapply step_gone_mono; eauto.
    + destruct (touches o (t_id t)) eqn:Et.
      * destruct o; simpl in Et, Hnr; try discriminate. apply N.eqb_eq in Et. subst i0.
        left. rewrite <- Hid. eapply step_remove_gone; eauto.
      * right. destruct (expired_stable _ _ _ _ Hg H Ht Hs Et) as [t' [H1 [H2 H3]]].
        exists t'. split; [auto|]. split; [congruence | auto].
Qed.

Theorem run_expires_once st os st' :
  Good st -> Logged st -> forallb no_revive os = true -> run st os = Some st' ->
  NoDup (expired_ids (s_log st')).
Proof.
  revert st. induction os as [|o os IH]; intros st Hg HL Hnr H; simpl in *.
  - inversion H; subst. apply HL.
  - apply andb_true_iff in Hnr. destruct Hnr as [Hn1 Hn2].
    destruct (step st o) as [st1|] eqn:E; [|discriminate].
    apply (IH st1); auto; [eapply step_good; eauto | eapply step_logged; eauto].
Qed.

(* ---------------------------------------------------------------- more about (d), and the successor *)
Lemma pass_no_flow_no_children e now pool gone p' g' evs :
  WF pool gone -> clock_expire_tasks e now pool gone = (p', g', evs) ->
  forall t, In t pool -> t_flow t = false ->
  forall c, ~ (In (EvSpawn (t_id t) c) evs \/ In (EvSat (t_id t) c) evs \/ In (EvNoSpawn (t_id t) c) evs).
Proof.
  intros Hwf H t Ht Hfl c Hin.
  destruct (pass_spec _ _ _ _ _ _ _ Hwf H) as [f [_ [_ [_ [_ [Hs _]]]]]].
  assert (Hx : exists x, In x evs /\ is_child_ev x = true /\
                         (x = EvSpawn (t_id t) c \/ x = EvSat (t_id t) c \/ x = EvNoSpawn (t_id t) c)).
  { destruct Hin as [Hi|[Hi|Hi]]; eexists; (split; [exact Hi|]); split; auto. }
  destruct Hx as [x [Hxi [Hxc Hxe]]].
  destruct (Hs _ Hxi Hxc) as [u [Hu [El [c' [Hc' [Hflu Hev]]]]]].
  assert (E : t_id u = t_id t).
  { destruct Hxe as [Hq|[Hq|Hq]]; subst x; destruct Hev as [Hd|[Hd|Hd]]; inversion Hd; auto. }
  assert (u = t) by (apply (WF_inj _ _ Hwf); auto). subst u. congruence.
Qed.

(* TaskPool.remove spawns the next parentless instance of a runahead-limited task ... *)
Lemma remove_spawns_successor st e i st' t s :
  Good st -> step st (ORemove e i) = Some st' ->
  In t (s_pool st) -> t_id t = i -> t_flow t = true -> t_runahead t = true ->
  assoc N.eqb i (e_next e) = Some s -> ~ In s (ids (s_pool st)) -> ~ In s (s_gone st) ->
  In (new_task e s) (s_pool st') /\ In (EvNext i s) (s_log st').
Proof.
  intros [Hwf Hok] H Ht Hid Hfl Hra Hnx Hs1 Hs2. destruct st as [p g lg]. simpl in *.
  destruct (find_task i p) as [t0|] eqn:Ef; [|discriminate].
  apply find_task_some in Ef. destruct Ef as [Ht0 Hid0].
  assert (t0 = t) by (apply (WF_inj _ _ Hwf); auto; congruence). subst t0.
  unfold removal_spawn in H. rewrite Hfl, Hra, Hid, Hnx in H. simpl in H.
  apply memN_false in Hs1. apply memN_false in Hs2. rewrite Hs1, Hs2 in H. simpl in H.
  inversion H; subst; clear H. simpl. split.
  - apply in_app_iff. right. simpl; auto.
  - apply in_app_iff. right. simpl; auto.
Qed.

(* ... but the expiry pass removes such a task without its successor (pass_no_successor); witness *)
Definition succ_env : env := mkEnv [] [(0%N, 1%N)] [(0%N, 0); (1%N, 86400)] [(0%N, CVar 0%N); (1%N, CVar 0%N)] [].
Definition succ_task : task :=
  mkTask 0%N Waiting false false false true (Some 0) true false [] (CVar 0%N) false false false.

Lemma succ_witness :
  clock_expire_tasks succ_env 0 [succ_task] [] = ([], [0%N], [EvExpired 0%N; EvRemove 0%N]).
Proof. vm_compute. reflexivity. Qed.

(* ---------------------------------------------------------------- manual triggers are exempt *)
Lemma manual_not_eligible now t : t_manual t = true -> eligible now t = false.
Proof. intro H. unfold eligible. rewrite H. reflexivity. Qed.

(* whatever the state of the target (any status that `cylc trigger` acts on, queued or not, in a
   queue or not, held, runahead-limited, freshly spawned; queue full or not) *)
Lemma qot_spec limited t :
  let t' := queue_or_trigger limited t in
  t_manual t' = true /\ t_status t' = Waiting /\ t_id t' = t_id t /\
  t_held t' = t_held t /\ t_runahead t' = t_runahead t /\ t_expire t' = t_expire t /\
  (forall now, eligible now t' = false).
Proof. simpl. repeat split. Qed.

Lemma step_log_ext st o st' : step st o = Some st' -> exists nw, s_log st' = s_log st ++ nw.
Proof.
  destruct st as [p g lg]. destruct o; simpl; intro H.
  - destruct (clock_expire_tasks e now p g) as [[p' g'] evs]. inversion H; subst; simpl; eauto.
  - inversion H; subst; simpl. exists []. rewrite app_nil_r; reflexivity.
  - destruct (forallb (releasable p) released); [|discriminate]. inversion H; subst; simpl; eauto.
  - destruct (find_task i p) as [t|]; [|discriminate].
    destruct (t_status t); try discriminate; inversion H; subst; simpl; eauto.
  - inversion H; subst; simpl. exists []. rewrite app_nil_r; reflexivity.
  - inversion H; subst; simpl. exists []. rewrite app_nil_r; reflexivity.
  - inversion H; subst; simpl. exists []. rewrite app_nil_r; reflexivity.
  - destruct (find_task i p) as [t|]; [|discriminate].
    destruct (msg_status_ok s && negb (t_prep t)); [|discriminate]. inversion H; subst; simpl.
    exists []. rewrite app_nil_r; reflexivity.
  - destruct (mem N.eqb i (ids p) || mem N.eqb i g); [discriminate|]. inversion H; subst; simpl.
    exists []. rewrite app_nil_r; reflexivity.
  - destruct (find_task i p) as [t|]; [|discriminate].
    destruct (removal_spawn e t (ids p) g) as [succ evn]. inversion H; subst; simpl; eauto.
Qed.

Lemma run_log_ext os : forall st st', run st os = Some st' -> exists nw, s_log st' = s_log st ++ nw.
Proof.
  induction os as [|o os IH]; intros st st' H; simpl in H.
  - inversion H; subst. exists []. rewrite app_nil_r; reflexivity.
  - destruct (step st o) as [st1|] eqn:E; [|discriminate].
    destruct (step_log_ext _ _ _ E) as [n1 H1]. destruct (IH _ _ H) as [n2 H2].
    exists (n1 ++ n2). rewrite H2, H1, app_assoc. reflexivity.
Qed.

Definition manual_after (st : state) (i : N) : Prop :=
  exists t', In t' (s_pool st) /\ t_id t' = i /\ t_manual t' = true.

Lemma upd_keeps_manual i j f p t :
  In t p -> t_id t = i -> t_manual t = true ->
  (forall u, t_id (f u) = t_id u) -> (forall u, t_manual u = true -> t_manual (f u) = true) ->
  exists t', In t' (upd j f p) /\ t_id t' = i /\ t_manual t' = true.
Proof.
  intros Ht Hid Hm Hfi Hfm. exists (if N.eqb (t_id t) j then f t else t). split.
  - apply in_upd. exists t. auto.
  - destruct (N.eqb (t_id t) j); [rewrite Hfi; auto | auto].
Qed.

Lemma manual_step st o st' t :
  Good st -> step st o = Some st' -> In t (s_pool st) -> t_manual t = true ->
  exists nw, s_log st' = s_log st ++ nw /\ ~ In (EvExpired (t_id t)) nw /\
    ((exists s, In (EvSubmit (t_id t) s) nw) \/ In (EvRemove (t_id t)) nw \/ manual_after st' (t_id t)).
Proof.
  intros [Hwf Hok] H Ht Hm. destruct st as [p g lg]. simpl in *. destruct o; simpl in H.
  - (* OPass *)
    destruct (clock_expire_tasks e now p g) as [[p' g'] evs] eqn:E. inversion H; subst; clear H. simpl.
    exists evs. split; [reflexivity|]. split.
    + intro Hin. apply (pass_expires_iff _ _ _ _ _ _ _ Hwf E) in Hin.
      destruct Hin as [u [Hu [Hid [Hmu _]]]].
      assert (u = t) by (apply (WF_inj _ _ Hwf); auto). subst u. congruence.
    + right; right. exists t. split; [|auto].
      eapply pass_ineligible_kept; eauto. apply manual_not_eligible; exact Hm.
  - (* OQueue *)
    inversion H; subst; clear H. simpl. exists []. rewrite app_nil_r. split; [reflexivity|]. split; [tauto|].
    right; right. apply (upd_keeps_manual (t_id t) _ _ _ t); auto.
    + intro u. unfold queue_if_ready. destruct (_ && _); reflexivity.
    + intros u Hu. unfold queue_if_ready. destruct (_ && _); simpl; exact Hu.
  - (* OReleaseSubmit *)
    destruct (forallb (releasable p) released); [|discriminate]. inversion H; subst; clear H. simpl.
    eexists. split; [reflexivity|]. split.
    + intro Hin. apply in_flat_map in Hin. destruct Hin as [u [_ Hu]].
      destruct (in_pre_prep released u); simpl in Hu; [destruct Hu as [Hd|[]]; discriminate | tauto].
    + destruct (in_pre_prep released t) eqn:Ep.
      * left. exists (t_status t). apply in_flat_map. exists t. rewrite Ep. simpl; auto.
      * right; right. exists t. split; [|auto]. apply in_map_iff. exists t. rewrite Ep. auto.
  - (* OManual *)
    destruct (find_task i p) as [t0|]; [|discriminate].
    assert (Hres : st' = mkState (upd i (queue_or_trigger limited) p) g (lg ++ [EvManual i])).
    { destruct (t_status t0); try discriminate; inversion H; reflexivity. }
    subst st'. simpl. eexists. split; [reflexivity|]. split.
    + intros [Hd|[]]. discriminate.
    + right; right. apply (upd_keeps_manual (t_id t) _ _ _ t); auto.
  - inversion H; subst; clear H. simpl. exists []. rewrite app_nil_r. split; [reflexivity|]. split; [tauto|].
    right; right. apply (upd_keeps_manual (t_id t) _ _ _ t); auto.
  - inversion H; subst; clear H. simpl. exists []. rewrite app_nil_r. split; [reflexivity|]. split; [tauto|].
    right; right. apply (upd_keeps_manual (t_id t) _ _ _ t); auto.
    + intro u. unfold release_held. destruct (t_held u); [|reflexivity]. destruct (_ && _); reflexivity.
    + intros u Hu. unfold release_held. destruct (t_held u); [|exact Hu]. destruct (_ && _); simpl; exact Hu.
  - inversion H; subst; clear H. simpl. exists []. rewrite app_nil_r. split; [reflexivity|]. split; [tauto|].
    right; right. apply (upd_keeps_manual (t_id t) _ _ _ t); auto.
  - destruct (find_task i p) as [t0|]; [|discriminate].
    destruct (msg_status_ok s && negb (t_prep t0)); [|discriminate]. inversion H; subst; clear H. simpl.
    exists []. rewrite app_nil_r. split; [reflexivity|]. split; [tauto|].
    right; right. apply (upd_keeps_manual (t_id t) _ _ _ t); auto.
  - destruct (mem N.eqb i (ids p) || mem N.eqb i g); [discriminate|]. inversion H; subst; clear H. simpl.
    exists []. rewrite app_nil_r. split; [reflexivity|]. split; [tauto|].
    right; right. exists t. split; [apply in_app_iff; auto | auto].
  - (* ORemove *)
    destruct (find_task i p) as [t0|]; [|discriminate].
    destruct (removal_spawn e t0 (ids p) g) as [succ evn] eqn:Er. inversion H; subst; clear H. simpl.
    eexists. split; [reflexivity|]. split.
    + intro Hin. apply in_app_iff in Hin.
      destruct (removal_spawn_spec _ _ _ _ _ _ Er) as [[_ ->]|[s [_ [-> _]]]]; simpl in Hin.
      * destruct Hin as [[]|[Hd|[]]]. discriminate.
      * destruct Hin as [[Hd|[]]|[Hd|[]]]; discriminate.
    + destruct (N.eqb (t_id t) i) eqn:Ei.
      * apply N.eqb_eq in Ei. right; left. apply in_app_iff. right. rewrite Ei. simpl; auto.
      * right; right. exists t. split; [|auto]. apply in_app_iff. left. apply filter_In.
        split; [exact Ht|]. rewrite Ei. reflexivity.
Qed.

Lemma split_after {A} (n1 : list A) : forall n2 pre x post,
  n1 ++ n2 = pre ++ x :: post -> ~ In x n1 -> exists pre2, pre = n1 ++ pre2 /\ n2 = pre2 ++ x :: post.
Proof.
  induction n1 as [|a n1 IH]; intros n2 pre x post H Hn; simpl in *.
  - exists pre. auto.
  - destruct pre as [|b pre]; simpl in H.
    + inversion H; subst. exfalso. apply Hn; auto.
    + inversion H; subst. destruct (IH _ _ _ _ H2) as [pre2 [-> ->]]; [tauto|]. exists pre2. auto.
Qed.

(* a task that carries the manual flag does not expire before a job has been submitted for it
   (or it has been removed), whatever else happens *)
Theorem manual_exempt_until_submitted os : forall st st' t,
  Good st -> run st os = Some st' -> In t (s_pool st) -> t_manual t = true ->
  exists nw, s_log st' = s_log st ++ nw /\
    forall pre post, nw = pre ++ EvExpired (t_id t) :: post ->
      (exists s, In (EvSubmit (t_id t) s) pre) \/ In (EvRemove (t_id t)) pre.
Proof.
  induction os as [|o os IH]; intros st st' t Hg H Ht Hm; simpl in H.
  - inversion H; subst. exists []. rewrite app_nil_r. split; [reflexivity|].
    intros pre post Hd. destruct pre; discriminate.
  - destruct (step st o) as [st1|] eqn:E; [|discriminate].
    destruct (manual_step _ _ _ _ Hg E Ht Hm) as [n1 [H1 [Hne Hc]]].
    assert (Hg1 : Good st1) by (eapply step_good; eauto).
    destruct Hc as [Hs|[Hr|[t1 [Ht1 [Hid1 Hm1]]]]].
    + destruct (run_log_ext _ _ _ H) as [n2 H2]. exists (n1 ++ n2).
      split; [rewrite H2, H1, app_assoc; reflexivity|].
      intros pre post Hsp. destruct (split_after _ _ _ _ _ Hsp Hne) as [pre2 [-> _]].
      left. destruct Hs as [s Hs]. exists s. apply in_app_iff; auto.
    + destruct (run_log_ext _ _ _ H) as [n2 H2]. exists (n1 ++ n2).
      split; [rewrite H2, H1, app_assoc; reflexivity|].
      intros pre post Hsp. destruct (split_after _ _ _ _ _ Hsp Hne) as [pre2 [-> _]].
      right. apply in_app_iff; auto.
    + destruct (IH _ _ _ Hg1 H Ht1 Hm1) as [n2 [H2 Hn2]]. exists (n1 ++ n2).
      split; [rewrite H2, H1, app_assoc; reflexivity|].
      intros pre post Hsp. destruct (split_after _ _ _ _ _ Hsp Hne) as [pre2 [-> Hn]].
      rewrite Hid1 in Hn2. destruct (Hn2 _ _ Hn) as [[s Hs]|Hr].
      * left. exists s. apply in_app_iff; auto.
      * right. apply in_app_iff; auto.
Qed.

(* `cylc trigger` on a target in any state, then anything: the target does not expire before a job
   has been submitted for it *)
Theorem trigger_exempt st i limited st1 os st2 :
  Good st -> step st (OManual i limited) = Some st1 -> run st1 os = Some st2 ->
  exists nw, s_log st2 = s_log st1 ++ nw /\
    forall pre post, nw = pre ++ EvExpired i :: post ->
      (exists s, In (EvSubmit i s) pre) \/ In (EvRemove i) pre.
Proof.
  intros Hg H Hrun. assert (Hg1 : Good st1) by (eapply step_good; eauto).
  destruct st as [p g lg]. simpl in H.
  destruct (find_task i p) as [t0|] eqn:Ef; [|discriminate].
  assert (Hres : st1 = mkState (upd i (queue_or_trigger limited) p) g (lg ++ [EvManual i])).
  { destruct (t_status t0); try discriminate; inversion H; reflexivity. }
  apply find_task_some in Ef. destruct Ef as [Ht0 Hid0].
  assert (Hin : In (queue_or_trigger limited t0) (s_pool st1)).
  { subst st1. simpl. apply in_upd. exists t0. split; [exact Ht0|]. rewrite Hid0, N.eqb_refl. reflexivity. }
  destruct (manual_exempt_until_submitted os st1 st2 _ Hg1 Hrun Hin eq_refl) as [nw [Hl Hn]].
  exists nw. split; [exact Hl|]. simpl in Hn. rewrite Hid0 in Hn. exact Hn.
Qed.
