(* Proofs/PlatformProofs.v — lemmas about Model/Platform.v *)
From Coq Require Import List Bool Arith Lia.
From Cylc Require Import Base.Util Model.Platform.
Import ListNotations.

Lemma mem_nat_In x l : mem Nat.eqb x l = true <-> In x l.
Proof. apply mem_In. intros a b. rewrite Nat.eqb_eq. split; auto. Qed.

Lemma is_bad_In bad h : is_bad bad h = true <-> In h bad.
Proof. apply mem_nat_In. Qed.

Lemma is_bad_false bad h : is_bad bad h = false <-> ~ In h bad.
Proof. rewrite <- is_bad_In. destruct (is_bad bad h); split; congruence. Qed.

Lemma good_hosts_In bad hosts h :
  In h (good_hosts bad hosts) <-> In h hosts /\ ~ In h bad.
Proof.
  unfold good_hosts. rewrite filter_In, negb_true_iff, is_bad_false. tauto.
Qed.

Lemma good_hosts_nil bad hosts :
  good_hosts bad hosts = [] <-> (forall h, In h hosts -> In h bad).
Proof.
  split.
  - intros E h Hh. destruct (is_bad bad h) eqn:B; [now apply is_bad_In|].
    assert (In h (good_hosts bad hosts)) by (apply good_hosts_In; split; [auto|now apply is_bad_false]).
    rewrite E in H. destruct H.
  - intros H. destruct (good_hosts bad hosts) as [|x l] eqn:E; [reflexivity|].
    assert (Hx : In x (good_hosts bad hosts)) by (rewrite E; now left).
    apply good_hosts_In in Hx. destruct Hx as [H1 H2]. elim H2. auto.
Qed.

Lemma all_bad_true bad hosts : all_bad bad hosts = true <-> (forall h, In h hosts -> In h bad).
Proof.
  unfold all_bad. rewrite forallb_forall. split; intros H h Hh; [apply is_bad_In|apply is_bad_In]; auto.
Qed.

Lemma all_bad_false bad hosts :
  all_bad bad hosts = false <-> exists h, In h hosts /\ ~ In h bad.
Proof.
  split.
  - intros E. induction hosts as [|x l IH]; cbn in E; [discriminate|].
    destruct (is_bad bad x) eqn:B; cbn in E.
    + destruct (IH E) as [h [H1 H2]]. exists h. split; [now right|exact H2].
    + exists x. split; [now left|now apply is_bad_false].
  - intros [h [H1 H2]]. destruct (all_bad bad hosts) eqn:E; [|reflexivity].
    elim H2. eapply all_bad_true; eauto.
Qed.

(* ---------- find on the reversed list = last match ---------- *)
Lemma find_first {A} (f : A -> bool) l x :
  find f l = Some x ->
  exists a b, l = a ++ x :: b /\ f x = true /\ forall y, In y a -> f y = false.
Proof.
  induction l as [|y l IH]; cbn; [discriminate|].
  destruct (f y) eqn:E.
  - intros [= <-]. exists [], l. cbn. split; [reflexivity|]. split; [exact E|intros ? []].
  - intros H. destruct (IH H) as (a & b & -> & Hx & Ha).
    exists (y :: a), b. split; [reflexivity|]. split; [exact Hx|].
    intros z [<-|Hz]; auto.
Qed.

Lemma find_skip {A} (f : A -> bool) a b :
  (forall y, In y a -> f y = false) -> find f (a ++ b) = find f b.
Proof.
  induction a as [|y a IH]; cbn; intros H; [reflexivity|].
  rewrite (H y (or_introl eq_refl)). apply IH. intros z Hz. apply H. now right.
Qed.

Lemma find_none_iff {A} (f : A -> bool) l :
  find f l = None <-> forall y, In y l -> f y = false.
Proof.
  split; [apply find_none|].
  induction l as [|y l IH]; cbn; intros H; [reflexivity|].
  rewrite (H y (or_introl eq_refl)). apply IH. intros z Hz. apply H. now right.
Qed.

Lemma find_rev_last {A} (f : A -> bool) l x :
  find f (rev l) = Some x <->
  exists pre post, l = pre ++ x :: post /\ f x = true /\ forall y, In y post -> f y = false.
Proof.
  split.
  - intros H. destruct (find_first _ _ _ H) as (a & b & E & Hx & Ha).
    exists (rev b), (rev a). split.
    + rewrite <- (rev_involutive l), E, rev_app_distr. cbn. now rewrite <- app_assoc.
    + split; [exact Hx|]. intros y Hy. apply Ha. apply (proj2 (in_rev a y)). exact Hy.
  - intros (pre & post & -> & Hx & Hp). rewrite rev_app_distr. cbn. rewrite <- app_assoc.
    rewrite find_skip; [cbn; now rewrite Hx|]. intros y Hy. apply Hp. apply (proj2 (in_rev post y)). exact Hy.
Qed.

Lemma find_rev_none {A} (f : A -> bool) l :
  find f (rev l) = None <-> forall y, In y l -> f y = false.
Proof.
  rewrite find_none_iff. split; intros H y Hy; apply H; [apply (proj1 (in_rev l y)); exact Hy|apply (proj2 (in_rev l y)); exact Hy].
Qed.

Section Proofs.
  Variable pmatch gmatch : pat -> name -> bool.
  Variable clash : pat -> bool.
  Variable jobless : name -> bool.
  Variable local : pat.
  Variable local_name : name.

  Notation resolve := (resolve pmatch clash jobless local local_name).
  Notation last_match := (last_match pmatch).

  (* the platform pattern [d] is the last-defined one that matches [n] *)
  Definition last_defined (ps : list pdef) (n : name) (d : pdef) : Prop :=
    exists pre post, ps = pre ++ d :: post /\ pmatch (d_pat d) n = true /\
                     forall q, In q post -> pmatch (d_pat q) n = false.

  Lemma last_match_spec ps n d : last_match ps n = Some d <-> last_defined ps n d.
  Proof. unfold Platform.last_match, last_defined. exact (find_rev_last (fun d0 => pmatch (d_pat d0) n) ps d). Qed.

  Lemma last_match_none ps n :
    last_match ps n = None <-> forall q, In q ps -> pmatch (d_pat q) n = false.
  Proof. unfold Platform.last_match. exact (find_rev_none (fun d0 => pmatch (d_pat d0) n) ps). Qed.

  Lemma last_defined_unique ps n d d' : last_defined ps n d -> last_defined ps n d' -> d = d'.
  Proof.
    intros H H'. apply last_match_spec in H. apply last_match_spec in H'. congruence.
  Qed.

  (* what a successful lookup returns *)
  Lemma resolve_ok ps n rp :
    resolve ps n = Ok rp ->
    (forall q, In q ps -> clash (d_pat q) = false) /\
    ((exists d, last_defined ps n d /\ rp = fill d n) \/
     ((forall q, In q ps -> pmatch (d_pat q) n = false) /\ jobless n = true /\ r_name rp = local_name)).
  Proof.
    unfold Platform.resolve. destruct (existsb (fun d => clash (d_pat d)) ps) eqn:Ec; [discriminate|].
    intros H. split.
    { intros q Hq. destruct (clash (d_pat q)) eqn:E; [|reflexivity].
      assert (existsb (fun d => clash (d_pat d)) ps = true) by (apply existsb_exists; eauto). congruence. }
    destruct (last_match ps n) as [d|] eqn:El.
    - inversion H; subst. left. exists d. split; [now apply last_match_spec|reflexivity].
    - right. split; [now apply last_match_none|].
      destruct (jobless n); [|discriminate]. split; [reflexivity|].
      destruct (find (fun d => Nat.eqb (d_pat d) local) ps); [|discriminate].
      inversion H; reflexivity.
  Qed.

  Lemma resolve_last_defined ps n d :
    (forall q, In q ps -> clash (d_pat q) = false) -> last_defined ps n d ->
    resolve ps n = Ok (fill d n).
  Proof.
    intros Hc Hl. unfold Platform.resolve.
    assert (E : existsb (fun d => clash (d_pat d)) ps = false).
    { destruct (existsb (fun d0 => clash (d_pat d0)) ps) eqn:E; [|reflexivity].
      apply existsb_exists in E. destruct E as [q [Hq E]]. rewrite (Hc q Hq) in E. discriminate. }
    rewrite E. apply last_match_spec in Hl. now rewrite Hl.
  Qed.

  Lemma resolve_err ps n e : resolve ps n = Err e -> e = ELookup.
  Proof.
    unfold Platform.resolve. destruct (existsb _ ps); [congruence|].
    destruct (last_match ps n); [discriminate|]. destruct (jobless n); [|congruence].
    destruct (find _ ps); [discriminate|congruence].
  Qed.

  Lemma fill_hosts_nonempty d n : r_hosts (fill d n) <> [].
  Proof. unfold fill. cbn. destruct (d_hosts d); discriminate. Qed.

  Section WithCfg.
    Variable cfg : config.
    Notation resolve_member := (resolve_member pmatch gmatch clash jobless local local_name cfg).
    Notation candidates := (candidates pmatch gmatch clash jobless local local_name cfg).
    Notation group_names := (group_names pmatch gmatch clash jobless local local_name cfg).
    Notation last_group := (last_group gmatch cfg).

    (* a member is usable when its platform has a host outside the bad set *)
    Definition usable (bad : list name) (m : name) : Prop :=
      exists rp h, resolve_member m = Ok rp /\ In h (r_hosts rp) /\ ~ In h bad.

    Lemma resolve_member_err m e : resolve_member m = Err e -> e = ELookup \/ e = ENested.
    Proof.
      unfold Platform.resolve_member. destruct (last_group m); [intros [= <-]; auto|].
      intros H. left. eapply resolve_err; eauto.
    Qed.

    Lemma candidates_spec bad ms l :
      candidates bad ms = Ok l ->
      (forall m, In m ms -> exists rp, resolve_member m = Ok rp) /\
      (forall m, In m l <-> In m ms /\ usable bad m).
    Proof.
      revert l; induction ms as [|m r IH]; cbn [Platform.candidates]; intros l.
      - intros [= <-]. split; [intros ? []|]. intros m. cbn. tauto.
      - destruct (resolve_member m) as [rp|e] eqn:Er; cbn [bind]; [|discriminate].
        destruct (candidates bad r) as [l'|e] eqn:Ec; cbn [bind]; [|discriminate].
        destruct (IH _ eq_refl) as [IH1 IH2]. intros [= <-]. split.
        + intros x [<-|Hx]; eauto.
        + intros x. destruct (all_bad bad (r_hosts rp)) eqn:Eb.
          * rewrite IH2. split; [intros [H1 H2]; split; [now right|exact H2]|].
            intros [[<-|H1] H2]; [|tauto]. exfalso.
            destruct H2 as (rp' & h & Hr & Hh & Hb). rewrite Er in Hr. inversion Hr; subst.
            apply Hb. eapply all_bad_true; eauto.
          * cbn [In]. rewrite IH2. split.
            -- intros [<-|[H1 H2]]; [|tauto]. split; [now left|].
               apply all_bad_false in Eb. destruct Eb as [h [Hh Hb]]. exists rp, h. auto.
            -- intros [[<-|H1] H2]; [now left|right; tauto].
    Qed.

    Lemma candidates_err bad ms e : candidates bad ms = Err e -> e = ELookup \/ e = ENested.
    Proof.
      induction ms as [|m r IH]; cbn [Platform.candidates]; [discriminate|].
      destruct (resolve_member m) as [rp|e'] eqn:Er; cbn [bind].
      - destruct (candidates bad r) as [l'|e'']; cbn [bind]; [discriminate|].
        intros [= <-]. now apply IH.
      - intros [= <-]. eapply resolve_member_err; eauto.
    Qed.

    Lemma candidates_total bad ms :
      (forall m, In m ms -> exists rp, resolve_member m = Ok rp) ->
      exists l, candidates bad ms = Ok l.
    Proof.
      induction ms as [|m r IH]; cbn [Platform.candidates]; intros H; [eauto|].
      destruct (H m (or_introl eq_refl)) as [rp ->]. cbn [bind].
      destruct IH as [l ->]; [intros x Hx; apply H; now right|]. cbn [bind]. eauto.
    Qed.

    Section WithSelect.
      Variable select : list name -> name.
      Hypothesis select_in : forall l, l <> [] -> In (select l) l.

      Notation pick := (pick select).
      Notation get_host := (get_host select).
      Notation from_group := (from_group pmatch gmatch clash jobless local local_name cfg select).
      Notation from_name := (from_name pmatch gmatch clash jobless local local_name cfg select).

      Lemma pick_in m l h : l <> [] -> pick m l = Ok h -> In h l.
      Proof.
        intros Hl. destruct m; cbn; intros [= <-].
        - destruct l; [congruence|now left].
        - now apply select_in.
      Qed.

      Lemma pick_err m l e : pick m l = Err e -> e = ECylc /\ m = Other.
      Proof. destruct m; cbn; intros [= <-]; auto. Qed.

      (* ---- host selection ---- *)
      Lemma get_host_sound rp bad h :
        get_host rp bad = Ok h -> In h (r_hosts rp) /\ ~ In h bad.
      Proof.
        unfold Platform.get_host. destruct (good_hosts bad (r_hosts rp)) as [|x l] eqn:E; [discriminate|].
        intros H. apply good_hosts_In. rewrite E. eapply pick_in; [discriminate|exact H].
      Qed.

      Lemma get_host_nohosts rp bad :
        get_host rp bad = Err ENoHosts <-> (forall h, In h (r_hosts rp) -> In h bad).
      Proof.
        unfold Platform.get_host. rewrite <- good_hosts_nil.
        destruct (good_hosts bad (r_hosts rp)) as [|x l]; [tauto|].
        split; [|discriminate]. intros H. apply pick_err in H. destruct H; discriminate.
      Qed.

      Lemma get_host_complete rp bad :
        (exists h, In h (r_hosts rp) /\ ~ In h bad) -> r_method rp <> Other ->
        exists h, get_host rp bad = Ok h.
      Proof.
        intros [h Hh] Hm. unfold Platform.get_host.
        destruct (good_hosts bad (r_hosts rp)) as [|x l] eqn:E.
        - apply good_hosts_In in Hh. rewrite E in Hh. destruct Hh.
        - destruct (r_method rp); cbn; eauto. congruence.
      Qed.

      (* the deterministic answer is one of the allowed answers *)
      Lemma get_host_allowed rp bad :
        host_ok (host_allowed rp bad) (get_host rp bad) = true.
      Proof.
        unfold host_allowed, Platform.get_host.
        destruct (good_hosts bad (r_hosts rp)) as [|x l]; [reflexivity|].
        destruct (r_method rp); cbn [Platform.pick pick_allowed host_ok].
        - cbn. now rewrite Nat.eqb_refl.
        - apply (proj2 (mem_nat_In _ _)). apply select_in. discriminate.
        - reflexivity.
      Qed.

      (* ---- platform selection from a group ---- *)
      Lemma group_names_ok g bad l :
        group_names g bad = Ok l ->
        l <> [] /\ (forall m, In m l -> In m (g_members g)) /\
        (bad <> [] -> forall m, In m l -> usable bad m).
      Proof.
        unfold Platform.group_names. destruct bad as [|b bad'].
        - destruct (g_members g) as [|m r] eqn:E; [discriminate|]. intros [= <-].
          split; [discriminate|]. split; [auto|congruence].
        - destruct (candidates (b :: bad') (g_members g)) as [l'|e] eqn:Ec; cbn [bind]; [|discriminate].
          destruct l' as [|x l'']; [discriminate|]. intros [= <-].
          destruct (candidates_spec _ _ _ Ec) as [_ H2].
          split; [discriminate|]. split; intros; apply H2; auto.
      Qed.

      Lemma from_group_sound g bad n :
        from_group g bad = Ok n ->
        In n (g_members g) /\ (bad <> [] -> usable bad n).
      Proof.
        unfold Platform.from_group. destruct (group_names g bad) as [l|e] eqn:Eg; cbn [bind]; [|discriminate].
        intros H. destruct (group_names_ok _ _ _ Eg) as (Hne & Hm & Hu).
        pose proof (pick_in _ _ _ Hne H) as Hin. split; auto.
      Qed.

      Lemma from_group_noplatforms g bad :
        from_group g bad = Err ENoPlatforms <->
        (bad = [] /\ g_members g = []) \/
        (bad <> [] /\ (forall m, In m (g_members g) -> exists rp, resolve_member m = Ok rp) /\
         forall m, In m (g_members g) -> ~ usable bad m).
      Proof.
        unfold Platform.from_group, Platform.group_names. destruct bad as [|b bad'].
        - destruct (g_members g) as [|m r]; cbn [bind].
          + split; [intros _; left; auto|reflexivity].
          + split.
            * intros H. apply pick_err in H. destruct H; discriminate.
            * intros [[_ H]|[H _]]; congruence.
        - destruct (candidates (b :: bad') (g_members g)) as [l|e] eqn:Ec; cbn [bind].
          + destruct (candidates_spec _ _ _ Ec) as [H1 H2]. destruct l as [|x l]; cbn [bind].
            * split; [|reflexivity]. intros _. right. split; [discriminate|]. split; [exact H1|].
              intros m Hm Hu. apply (H2 m). auto.
            * split.
              -- intros H. apply pick_err in H. destruct H; discriminate.
              -- intros [[H _]|(_ & _ & H)]; [discriminate|]. exfalso.
                 assert (Hx : In x (x :: l)) by now left. apply H2 in Hx. destruct Hx. eapply H; eauto.
          + split.
            * intros [= ->]. apply candidates_err in Ec. destruct Ec; discriminate.
            * intros [[H _]|(_ & H & _)]; [discriminate|]. exfalso.
              destruct (candidates_total (b :: bad') _ H) as [l El]. congruence.
      Qed.

      (* ---- the whole lookup stays inside the allowed answers ---- *)
      Lemma from_name_allowed_ok n bad :
        In (from_name n bad)
           (from_name_allowed pmatch gmatch clash jobless local local_name cfg n bad).
      Proof.
        unfold Platform.from_name, from_name_allowed, Platform.from_group.
        destruct (last_group n) as [g|]; [|now left].
        destruct (group_names g bad) as [l|e] eqn:Eg; cbn [bind]; [|now left].
        destruct (group_names_ok _ _ _ Eg) as (Hne & _ & _).
        destruct (g_method g); cbn [Platform.pick pick_allowed bind].
        - destruct l as [|x l]; [congruence|]. cbn. now left.
        - apply in_map. now apply select_in.
        - now left.
      Qed.
    End WithSelect.
  End WithCfg.
End Proofs.
