(* Proofs/GraphPhysProofs.v — C14, physical layer: blanks, comments, blank and
   comment-only lines, and continuation breaks at => & | around well-formed
   logical lines are undone by stages 1-2 of parse_graph. *)
From Coq Require Import List Bool Arith String Lia.
From Cylc Require Import Base.Util Gen.FamTables Model.GraphBase Model.GraphExpr Model.FamTrig
  Model.GraphParse Model.GraphAst Proofs.FamTrigProofs Proofs.GraphStoreProofs Proofs.GraphPairProofs.
Import ListNotations.

(* ================= stage 1 on one physical line ================= *)
Lemma existsb_print_ws p l : (forall k, p (TWs k) = false) -> existsb p (print_ws l) = false.
Proof. intros H. unfold print_ws. induction l; cbn; [reflexivity|]. now rewrite H, IHl. Qed.

Lemma forallb_ws_print_ws l : forallb is_ws (print_ws l) = true.
Proof. unfold print_ws. induction l; cbn; auto. Qed.

Lemma cut_comment_app_clean a b : forallb (fun t => match t with TCom _ => false | _ => true end) a = true ->
  cut_comment (a ++ b) = a ++ cut_comment b.
Proof.
  induction a as [|t r IH]; cbn; [reflexivity|]. intros H. apply andb_true_iff in H. destruct H as [Ht Hr].
  destruct t; try discriminate; now rewrite IH.
Qed.

Lemma cut_comment_com c : cut_comment (print_com c) = [].
Proof. destruct c; reflexivity. Qed.

Definition nocom (t : tok) : bool := match t with TCom _ => false | _ => true end.

Lemma nocom_ws l : forallb nocom (print_ws l) = true.
Proof. unfold print_ws. induction l; cbn; auto. Qed.

Lemma cut_filler f : cut_comment (print_filler f) = print_ws (fi_ws f).
Proof.
  unfold print_filler. rewrite cut_comment_app_clean by apply nocom_ws.
  now rewrite cut_comment_com, app_nil_r.
Qed.

Definition deco (p : pline) : list tok :=
  print_ws (pl_lead p) ++ flat_map (fun tw => fst tw :: print_ws (snd tw)) (pl_toks p).

Lemma nocom_deco p : forallb clean_tok (pline_toks p) = true -> forallb nocom (deco p) = true.
Proof.
  intros H. unfold deco. rewrite forallb_app, nocom_ws. cbn [andb].
  unfold pline_toks in H. induction (pl_toks p) as [|[t w] r IH]; cbn in *; [reflexivity|].
  apply andb_true_iff in H. destruct H as [Ht Hr]. rewrite forallb_app, nocom_ws, (IH Hr).
  destruct t; cbn in *; try discriminate; reflexivity.
Qed.

Lemma cut_pline p : forallb clean_tok (pline_toks p) = true -> cut_comment (print_pline p) = deco p.
Proof.
  intros H. unfold print_pline. rewrite app_assoc. fold (deco p).
  rewrite cut_comment_app_clean by (now apply nocom_deco). now rewrite cut_comment_com, app_nil_r.
Qed.

Lemma remove_ws_print_ws l : remove_ws (print_ws l) = [].
Proof. unfold remove_ws, print_ws. induction l; cbn; auto. Qed.

Lemma remove_ws_app a b : remove_ws (a ++ b) = remove_ws a ++ remove_ws b.
Proof. unfold remove_ws. apply filter_app. Qed.

Lemma remove_ws_deco p : forallb clean_tok (pline_toks p) = true -> remove_ws (deco p) = pline_toks p.
Proof.
  intros H. unfold deco. rewrite remove_ws_app, remove_ws_print_ws. cbn [app].
  unfold pline_toks in *. induction (pl_toks p) as [|[t w] r IH]; cbn in *; [reflexivity|].
  apply andb_true_iff in H. destruct H as [Ht Hr].
  change (t :: print_ws w ++ ?x) with ([t] ++ print_ws w ++ x).
  rewrite !remove_ws_app, remove_ws_print_ws, (IH Hr). cbn [app].
  destruct t; cbn in *; try discriminate; reflexivity.
Qed.

Lemma blank_deco p : pl_toks p <> [] -> forallb clean_tok (pline_toks p) = true ->
  forallb is_ws (deco p) = false.
Proof.
  intros Hne H. unfold deco. rewrite forallb_app, forallb_ws_print_ws. cbn [andb].
  unfold pline_toks in H. destruct (pl_toks p) as [|[t w] r]; [congruence|]. cbn in *.
  apply andb_true_iff in H. destruct H as [Ht _]. destruct t; cbn in *; try discriminate; reflexivity.
Qed.

(* no "name<blank>name": blanks are only inserted, and no two node texts are adjacent *)
Lemma skip_ws_print_ws w l : skip_ws (print_ws w ++ l) = skip_ws l.
Proof. unfold print_ws. induction w; cbn; auto. Qed.

Lemma bad_spaces_ws w l : bad_spaces (print_ws w ++ l) = bad_spaces l.
Proof. unfold print_ws. induction w; cbn; auto. Qed.

Lemma bad_spaces_deco_toks : forall (tws : list (tok * list nat)),
  forallb clean_tok (map fst tws) = true -> adj_nodes (map fst tws) = false ->
  bad_spaces (flat_map (fun tw => fst tw :: print_ws (snd tw)) tws) = false.
Proof.
  induction tws as [|[t w] r IH]; intros Hc Ha; [reflexivity|].
  cbn [map fst forallb] in Hc. apply andb_true_iff in Hc. destruct Hc as [Ht Hr].
  cbn [flat_map fst snd]. rewrite <- app_comm_cons.
  assert (Har : adj_nodes (map fst r) = false).
  { cbn [map fst] in Ha. destruct t; cbn in Ha; try exact Ha.
    destruct (map fst r) as [|t2 r2]; [reflexivity|]. destruct t2; try exact Ha. discriminate. }
  specialize (IH Hr Har).
  destruct t; cbn in Ht; try discriminate; cbn [bad_spaces]; try (rewrite bad_spaces_ws; exact IH).
  rewrite bad_spaces_ws, IH, orb_false_r.
  destruct (ends_word n); [|reflexivity]. cbn [andb].
  destruct r as [|[t2 w2] r2].
  - cbn [flat_map]. rewrite app_nil_r. destruct w as [|k w']; [reflexivity|].
    change (print_ws (k :: w')) with (TWs k :: print_ws w').
    replace (skip_ws (TWs k :: print_ws w')) with (skip_ws (print_ws (k :: w') ++ [])) by (now rewrite app_nil_r).
    now rewrite skip_ws_print_ws.
  - cbn [flat_map fst snd]. rewrite <- app_comm_cons.
    cbn in Hr. apply andb_true_iff in Hr. destruct Hr as [Ht2 _]. cbn in Ha.
    destruct w as [|k w'].
    + cbn [print_ws map app]. destruct t2; cbn in Ht2; try discriminate; reflexivity.
    + change (print_ws (k :: w') ++ ?x) with (TWs k :: (print_ws w' ++ x)).
      change (skip_ws (TWs k :: ?y)) with (skip_ws y). rewrite skip_ws_print_ws.
      destruct t2; cbn in Ht2; try discriminate; try reflexivity.
Qed.

Lemma bad_spaces_deco p : forallb clean_tok (pline_toks p) = true -> adj_nodes (pline_toks p) = false ->
  bad_spaces (deco p) = false.
Proof. intros Hc Ha. unfold deco. rewrite bad_spaces_ws. now apply bad_spaces_deco_toks. Qed.

(* ================= stage 1 on the whole text ================= *)
Definition pline_good (p : pline) : bool :=
  negb (is_nil (pl_toks p)) && forallb clean_tok (pline_toks p) && negb (adj_nodes (pline_toks p)).

Definition item := (pline + filler)%type.
Definition print_item (i : item) : list tok :=
  match i with inl p => print_pline p | inr f => print_filler f end.
Definition plines_of (items : list item) : list pline :=
  flat_map (fun i => match i with inl p => [p] | inr _ => [] end) items.

Definition nonblank (x : list tok) : bool := negb (forallb is_ws x).

Lemma stage1_items : forall items,
  (forall p, In (inl p) items -> pline_good p = true) ->
  filter nonblank (map cut_comment (map print_item items)) = map deco (plines_of items).
Proof.
  induction items as [|i r IH]; intros Hg; [reflexivity|].
  assert (IH' := IH (fun p Hp => Hg p (or_intror Hp))).
  destruct i as [p|f]; cbn [map print_item filter].
  - specialize (Hg p (or_introl eq_refl)). unfold pline_good in Hg.
    apply andb_true_iff in Hg. destruct Hg as [Hg Ha]. apply andb_true_iff in Hg. destruct Hg as [Hn Hc].
    rewrite (cut_pline p Hc). unfold nonblank at 1. rewrite blank_deco; auto.
    + cbn [negb]. rewrite IH'. reflexivity.
    + destruct (pl_toks p); [discriminate|discriminate].
  - rewrite cut_filler. unfold nonblank at 1. rewrite forallb_ws_print_ws. cbn [negb]. exact IH'.
Qed.

Lemma no_nl_item i : (forall p, i = inl p -> pline_good p = true) -> existsb is_nl (print_item i) = false.
Proof.
  destruct i as [p|f]; cbn [print_item]; intros Hg.
  - specialize (Hg p eq_refl). unfold pline_good in Hg.
    apply andb_true_iff in Hg. destruct Hg as [Hg _]. apply andb_true_iff in Hg. destruct Hg as [_ Hc].
    unfold print_pline. rewrite !existsb_app, (existsb_print_ws is_nl) by reflexivity.
    assert (existsb is_nl (print_com (pl_com p)) = false) by (destruct (pl_com p); reflexivity).
    rewrite H, orb_false_r. cbn [orb].
    unfold pline_toks in Hc. induction (pl_toks p) as [|[t w] r IH]; cbn in *; [reflexivity|].
    apply andb_true_iff in Hc. destruct Hc as [Ht Hr]. rewrite existsb_app, (existsb_print_ws is_nl) by reflexivity.
    rewrite (IH Hr). destruct t; cbn in *; try discriminate; reflexivity.
  - unfold print_filler. rewrite existsb_app, (existsb_print_ws is_nl) by reflexivity.
    destruct (fi_com f); reflexivity.
Qed.

Lemma split_join_nl : forall L, L <> [] -> (forall l, In l L -> existsb is_nl l = false) ->
  split_on is_nl (join_nl L) = L.
Proof.
  induction L as [|x r IH]; [congruence|]. intros _ H. destruct r as [|y r'].
  - cbn. apply split_on_none. apply H. now left.
  - change (join_nl (x :: y :: r')) with (x ++ TNl :: join_nl (y :: r')).
    rewrite split_on_sep; [|reflexivity|apply H; now left]. f_equal. apply IH; [discriminate|].
    intros l Hl. apply H. now right.
Qed.

Lemma phys_lines_items items :
  (forall p, In (inl p) items -> pline_good p = true) ->
  phys_lines (join_nl (map print_item items)) = Ok (map pline_toks (plines_of items)).
Proof.
  intros Hg. unfold phys_lines.
  assert (Hs : filter (fun x => negb (forallb is_ws x)) (map cut_comment (split_on is_nl (join_nl (map print_item items))))
               = map deco (plines_of items)).
  { destruct items as [|i r]; [reflexivity|].
    rewrite split_join_nl; [apply (stage1_items _ Hg)|discriminate|].
    intros l Hl. apply in_map_iff in Hl. destruct Hl as [j [<- Hj]]. apply no_nl_item.
    intros p ->. now apply Hg. }
  rewrite Hs.
  assert (Hp : forall p, In p (plines_of items) -> pline_good p = true).
  { intros p Hp. unfold plines_of in Hp. apply in_flat_map in Hp. destruct Hp as [i [Hi Hp]].
    destruct i; [destruct Hp as [<-|[]]; now apply Hg|destruct Hp]. }
  assert (Hb : existsb bad_spaces (map deco (plines_of items)) = false).
  { apply not_true_is_false. intros H. apply existsb_exists in H. destruct H as [x [Hx Hbx]].
    apply in_map_iff in Hx. destruct Hx as [p [<- Hpi]]. specialize (Hp p Hpi). unfold pline_good in Hp.
    apply andb_true_iff in Hp. destruct Hp as [Hp Ha]. apply andb_true_iff in Hp. destruct Hp as [_ Hc].
    apply negb_true_iff in Ha. rewrite bad_spaces_deco in Hbx; auto. discriminate. }
  rewrite Hb. f_equal. rewrite map_map. apply map_ext_in. intros p Hpi.
  specialize (Hp p Hpi). unfold pline_good in Hp.
  apply andb_true_iff in Hp. destruct Hp as [Hp _]. apply andb_true_iff in Hp. destruct Hp as [_ Hc].
  now apply remove_ws_deco.
Qed.

(* ================= stage 2: joining the continuation segments ================= *)
Lemma starts_cont_app s x : s <> [] -> starts_cont (s ++ x) = starts_cont s.
Proof. destruct s; [congruence|reflexivity]. Qed.

Lemma ends_cont_app x s : s <> [] -> ends_cont (x ++ s) = ends_cont s.
Proof.
  intros H. unfold ends_cont. rewrite rev_app_distr. apply starts_cont_app.
  intros E. apply (f_equal (@rev tok)) in E. rewrite rev_involutive in E. cbn in E. congruence.
Qed.

Lemma join_lines_cons first part this rest :
  join_lines first part (this :: rest) =
  let next := match rest with n :: _ => n | [] => [] end in
  if first && starts_cont this then GErr
  else if is_nil rest && ends_cont this then GErr
  else if ends_cont this && starts_cont next then GErr
  else if (ends_cont this || starts_cont next) && negb (ends_bad this || starts_bad next)
       then join_lines false (part ++ this) rest
       else bind (join_lines false [] rest) (fun r => Ok ((part ++ this) :: r)).
Proof. reflexivity. Qed.

Lemma join_one_line : forall (segs : list (list tok)) first part rest,
  segs <> [] -> seg_ok segs = true ->
  (first = true -> starts_cont (hd [] segs) = false) ->
  ends_cont (last segs []) = false ->
  starts_cont (hd [] rest) = false ->
  join_lines first part (segs ++ rest)
  = bind (join_lines false [] rest) (fun r => Ok ((part ++ List.concat segs) :: r)).
Proof.
  induction segs as [|s more IH]; [congruence|]. intros first part rest _ Hok Hfirst Hlast Hrest.
  cbn [seg_ok] in Hok. apply andb_true_iff in Hok. destruct Hok as [Hok Hmore].
  apply andb_true_iff in Hok. destruct Hok as [Hne Hb]. 
  assert (Hf : first && starts_cont s = false).
  { destruct first; [|reflexivity]. cbn. exact (Hfirst eq_refl). }
  destruct more as [|s2 more'].
  - (* last segment of the logical line *)
    cbn [app List.concat hd last] in *. rewrite join_lines_cons. cbv zeta. rewrite Hf, Hlast. rewrite andb_false_r. cbn [andb orb].
    replace (match rest with [] => [] | n :: _ => n end) with (hd [] rest) by (destruct rest; reflexivity).
    rewrite Hrest. cbn [andb]. now rewrite app_nil_r.
  - rewrite <- app_comm_cons, join_lines_cons. cbv zeta. rewrite <- app_comm_cons. rewrite Hf. cbn [is_nil andb].
    apply andb_true_iff in Hb. destruct Hb as [Hx Hbad].
    destruct (ends_cont s) eqn:Ee, (starts_cont s2) eqn:Es; cbn in Hx; try discriminate; cbn [andb orb]; rewrite Hbad.
    + rewrite app_comm_cons.
      assert (Hn2 : s2 :: more' <> []) by discriminate.
      assert (Hf2 : false = true -> starts_cont (hd [] (s2 :: more')) = false) by discriminate.
      rewrite (IH false (part ++ s) rest Hn2 Hmore Hf2 Hlast Hrest).
      destruct (join_lines false [] rest); cbn [bind List.concat]; [now rewrite <- app_assoc|reflexivity|reflexivity].
    + rewrite app_comm_cons.
      assert (Hn2 : s2 :: more' <> []) by discriminate.
      assert (Hf2 : false = true -> starts_cont (hd [] (s2 :: more')) = false) by discriminate.
      rewrite (IH false (part ++ s) rest Hn2 Hmore Hf2 Hlast Hrest).
      destruct (join_lines false [] rest); cbn [bind List.concat]; [now rewrite <- app_assoc|reflexivity|reflexivity].
Qed.

Definition segments (lay : layout) : list (list tok) := map (fun pf => pline_toks (fst pf)) lay.

Definition lays (toks : list tok) (lay : layout) : Prop :=
  line_ok toks = true /\ layout_ok toks lay = true /\ lay <> [].

Lemma layout_toks_concat lay : layout_toks lay = List.concat (segments lay).
Proof. unfold layout_toks, segments. induction lay; cbn; congruence. Qed.

Lemma seg_ok_nonempty segs s : seg_ok segs = true -> In s segs -> s <> [].
Proof.
  induction segs as [|x r IH]; [intros _ []|]. cbn [seg_ok]. intros H Hin.
  apply andb_true_iff in H. destruct H as [H Hr]. apply andb_true_iff in H. destruct H as [Hn _].
  destruct Hin as [<-|Hin]; [destruct x; [discriminate|discriminate]|auto].
Qed.

Lemma hd_concat_starts (segs : list (list tok)) : segs <> [] -> seg_ok segs = true ->
  starts_cont (List.concat segs) = starts_cont (hd [] segs).
Proof.
  destruct segs as [|s r]; [congruence|]. intros _ H. cbn [List.concat hd]. apply starts_cont_app.
  eapply seg_ok_nonempty; eauto. now left.
Qed.

Lemma last_concat_ends : forall (segs : list (list tok)), segs <> [] -> seg_ok segs = true ->
  ends_cont (List.concat segs) = ends_cont (last segs []).
Proof.
  induction segs as [|s r IH]; [congruence|]. intros _ H. destruct r as [|s2 r'].
  - cbn. now rewrite app_nil_r.
  - change (last (s :: s2 :: r') []) with (last (s2 :: r') []). cbn [List.concat].
    cbn [seg_ok] in H. apply andb_true_iff in H. destruct H as [_ Hr].
    rewrite <- IH by (auto; discriminate). apply ends_cont_app.
    cbn [List.concat]. destruct s2; [|discriminate].
    cbn [seg_ok] in Hr. discriminate.
Qed.

Lemma lays_facts toks lay : lays toks lay ->
  segments lay <> [] /\ seg_ok (segments lay) = true /\ List.concat (segments lay) = toks
  /\ starts_cont (hd [] (segments lay)) = false /\ ends_cont (last (segments lay) []) = false.
Proof.
  intros [Hl [Hlo Hne]]. unfold layout_ok in Hlo. apply andb_true_iff in Hlo. destruct Hlo as [He Hs].
  apply toks_eqb_true in He. rewrite layout_toks_concat in He.
  unfold line_ok in Hl. apply andb_true_iff in Hl. destruct Hl as [Hl _].
  apply andb_true_iff in Hl. destruct Hl as [Hl Hend]. apply andb_true_iff in Hl. destruct Hl as [_ Hst].
  apply negb_true_iff in Hend. apply negb_true_iff in Hst.
  assert (Hn : segments lay <> []) by (unfold segments; destruct lay; [congruence|discriminate]).
  repeat split; auto.
  - rewrite <- hd_concat_starts by auto. now rewrite He.
  - rewrite <- last_concat_ends by auto. now rewrite He.
Qed.

Lemma join_all : forall lines ls, Forall2 lays lines ls ->
  forall first, join_lines first [] (flat_map segments ls) = Ok lines.
Proof.
  induction 1 as [|toks lay lines' ls' Hl HF IH]; intros first; [reflexivity|].
  cbn [flat_map]. destruct (lays_facts toks lay Hl) as [Hn [Hs [Hc [Hst Hen]]]].
  rewrite join_one_line; auto.
  - rewrite (IH false). cbn [bind app]. now rewrite Hc.
  - destruct HF as [|t2 l2 ? ? Hl2 _]; [reflexivity|]. cbn [flat_map].
    destruct (lays_facts t2 l2 Hl2) as [Hn2 [_ [_ [Hst2 _]]]].
    destruct (segments l2); [congruence|]. exact Hst2.
Qed.

(* ================= the physical layer theorem ================= *)
Definition items_of (pre : list filler) (ls : list layout) : list item :=
  map inr pre ++ flat_map (flat_map (fun pf : pline * list filler => inl (fst pf) :: map inr (snd pf))) ls.

Lemma items_print pre ls : map print_item (items_of pre ls) = text_lines pre ls.
Proof.
  unfold items_of, text_lines. rewrite map_app, map_map. f_equal.
  induction ls as [|lay r IH]; [reflexivity|]. cbn [flat_map]. rewrite map_app, IH. f_equal.
  unfold print_layout_lines. induction lay as [|[p fs] lr IHl]; [reflexivity|].
  cbn [flat_map fst snd map]. rewrite map_app, IHl. cbn [map print_item]. rewrite map_map. reflexivity.
Qed.

Lemma plines_of_app a b : plines_of (a ++ b) = plines_of a ++ plines_of b.
Proof. unfold plines_of. apply flat_map_app. Qed.

Lemma plines_of_inr (l : list filler) : plines_of (map inr l) = [].
Proof. induction l; cbn; auto. Qed.

Lemma items_plines pre ls : map pline_toks (plines_of (items_of pre ls)) = flat_map segments ls.
Proof.
  unfold items_of. rewrite plines_of_app, plines_of_inr. cbn [app].
  induction ls as [|lay r IH]; [reflexivity|]. cbn [flat_map]. rewrite plines_of_app, map_app, IH. f_equal.
  unfold segments. induction lay as [|[p fs] lr IHl]; [reflexivity|].
  cbn [flat_map fst snd map]. change (inl p :: ?x) with ([inl p] ++ x).
  rewrite !plines_of_app, plines_of_inr. cbn. now rewrite IHl.
Qed.

Lemma adj_nodes_app a b : adj_nodes (a ++ b) = false -> adj_nodes a = false /\ adj_nodes b = false.
Proof.
  induction a as [|t r IH]; cbn [app]; [auto|]. intros H.
  destruct t; cbn [adj_nodes] in *; try (apply IH; exact H).
  destruct r as [|t2 r2]; cbn [app] in *.
  - split; [reflexivity|]. destruct b as [|t3 b']; [reflexivity|]. destruct t3; try exact H. discriminate.
  - destruct t2; try (apply IH; exact H). discriminate.
Qed.

Lemma in_items pre ls p : In (inl p) (items_of pre ls) -> exists lay pf, In lay ls /\ In pf lay /\ p = fst pf.
Proof.
  unfold items_of. intros H. apply in_app_or in H. destruct H as [H|H].
  - apply in_map_iff in H. destruct H as [f [Hf _]]. discriminate.
  - apply in_flat_map in H. destruct H as [lay [Hl H]]. apply in_flat_map in H. destruct H as [pf [Hpf H]].
    destruct H as [[= <-]|H]; [eauto|]. apply in_map_iff in H. destruct H as [f [Hf _]]. discriminate.
Qed.

Lemma Forall2_in_r' {A B} (R : A -> B -> Prop) l1 l2 b :
  Forall2 R l1 l2 -> In b l2 -> exists a, In a l1 /\ R a b.
Proof.
  induction 1 as [|x y l1' l2' Hxy HF IH]; intros Hin; [destruct Hin|].
  destruct Hin as [<-|Hin]; [exists x; split; [now left|exact Hxy]|].
  destruct (IH Hin) as [a [Ha HR]]. exists a. split; [now right|exact HR].
Qed.

Lemma lays_pline_good toks lay pf : lays toks lay -> In pf lay -> pline_good (fst pf) = true.
Proof.
  intros Hl Hpf. destruct (lays_facts toks lay Hl) as [_ [Hs [Hc _]]].
  destruct Hl as [Hlo _]. unfold line_ok in Hlo.
  apply andb_true_iff in Hlo. destruct Hlo as [Hlo Hadj]. apply andb_true_iff in Hlo. destruct Hlo as [Hlo _].
  apply andb_true_iff in Hlo. destruct Hlo as [Hlo _]. apply andb_true_iff in Hlo. destruct Hlo as [_ Hclean].
  apply negb_true_iff in Hadj.
  assert (Hin : In (pline_toks (fst pf)) (segments lay))
    by (unfold segments; apply (in_map (fun x : pline * list filler => pline_toks (fst x))); exact Hpf).
  assert (Hne : pline_toks (fst pf) <> []) by (eapply seg_ok_nonempty; eauto).
  apply in_split in Hin. destruct Hin as [l1 [l2 E]]. rewrite E, concat_app in Hc. cbn [List.concat] in Hc.
  subst toks. rewrite !forallb_app in Hclean.
  apply andb_true_iff in Hclean. destruct Hclean as [_ Hclean]. apply andb_true_iff in Hclean. destruct Hclean as [Hclean _].
  apply adj_nodes_app in Hadj. destruct Hadj as [_ Hadj]. apply adj_nodes_app in Hadj. destruct Hadj as [Hadj _].
  unfold pline_good. rewrite Hclean, Hadj. cbn. rewrite andb_true_r.
  unfold pline_toks in Hne. destruct (pl_toks (fst pf)); [cbn in Hne; congruence|reflexivity].
Qed.

Theorem phys_layer pre ls lines : Forall2 lays lines ls ->
  bind (phys_lines (render_text pre ls)) (join_lines true []) = Ok lines.
Proof.
  intros HF. unfold render_text. rewrite <- items_print.
  rewrite phys_lines_items.
  - cbn [bind]. rewrite items_plines. now apply join_all.
  - intros p Hp. apply in_items in Hp. destruct Hp as [lay [pf [Hl [Hpf ->]]]].
    destruct (Forall2_in_r' _ _ _ _ HF Hl) as [toks [_ Hlays]]. eapply lays_pline_good; eauto.
Qed.
