(* Proofs/TaskMsgFinal.v - the final state matches the latest job's outcome (C10) *)
From Coq Require Import List Bool Arith ZArith Lia.
From Cylc Require Import Base.Util Gen.TaskMsgTables Model.TaskMsg Proofs.TaskMsgProofs Proofs.TaskMsgInv Proofs.TaskMsgEdges.
Import ListNotations.

(* ====================================================================== *)
(* Part 7: the final state matches the latest job's outcome (C10)          *)
(* ====================================================================== *)
Inductive outcome := OutSucc | OutFail.
Definition is_outcome (o : outcome) (m : msg) : bool :=
  match o, m with OutSucc, MSucceeded => true | OutFail, MFailed => true | _, _ => false end.
Definition op_stale (o : op) : bool :=
  match o with OpMsg _ f rel => flag_received f && negb (rel =? 0)%Z | _ => false end.
Definition delivers (oc : outcome) (o : op) : bool :=
  match o with OpMsg m _ _ => is_outcome oc m && negb (op_stale o) | _ => false end.
(* the messages the job (with outcome oc, emitting the custom outputs C) can cause *)
Definition emits (oc : outcome) (C : list nat) (m : msg) : bool :=
  match m with
  | MSubmitted | MStarted | MOther => true
  | MCustom j => mem Nat.eqb j C
  | MSucceeded | MFailed => is_outcome oc m
  | MSubFail | MExpired => false
  end.
Definition is_started (m : msg) : bool := match m with MStarted => true | _ => false end.
Definition story_op (oc : outcome) (C : list nat) (delivered : bool) (o : op) : bool :=
  match o with
  | OpPrep => false
  | OpSubRes ok => ok
  | OpMsg m f rel =>
      op_stale o ||
      (emits oc C m && negb (delivered && negb (flag_received f) && is_started m))
  end.
Fixpoint story (oc : outcome) (C : list nat) (delivered : bool) (ops : list op) : bool :=
  match ops with
  | [] => true
  | o :: r => story_op oc C delivered o && story oc C (delivered || delivers oc o) r
  end.
Definition delivered_in (oc : outcome) (ops : list op) : bool := existsb (delivers oc) ops.

Lemma pm_stale' t m f n : flag_received f = true -> n <> Z.of_nat (sn t) ->
  process_message t m f n = (t, []).
Proof. intros F N. destruct f; try discriminate F. apply pm_stale. exact N. Qed.

Lemma step_stale t m f rel : op_stale (OpMsg m f rel) = true -> step t (OpMsg m f rel) = (t, []).
Proof.
  cbn [op_stale step]. intros H. apply andb_true_iff in H. destruct H as [F R].
  apply pm_stale'; [exact F|]. apply negb_true_iff in R. apply Z.eqb_neq in R. lia.
Qed.

Lemma check_nonstale t m f rel : op_stale (OpMsg m f rel) = false ->
  check t m f (Z.of_nat (sn t) + rel) =
  negb (status_eqb (st t) Waiting && negb (msg_is_expired m) && retry_lined_up t).
Proof.
  cbn [op_stale]. intros H. unfold check.
  assert (E : flag_received f && negb (Z.of_nat (sn t) + rel =? Z.of_nat (sn t))%Z = false).
  { destruct (flag_received f); [|reflexivity]. cbn [andb] in *.
    apply negb_false_iff in H. apply Z.eqb_eq in H. subst rel.
    rewrite Z.add_0_r, Z.eqb_refl. reflexivity. }
  rewrite E. destruct (status_eqb (st t) Waiting && negb (msg_is_expired m) && retry_lined_up t); reflexivity.
Qed.

Lemma adds_no_outcome t m r :
  m <> MSucceeded -> m <> MFailed ->
  ~ In OSucceeded (adds t m r) /\ ~ In OFailed (adds t m r).
Proof.
  intros A B. destruct m; try congruence; cbn [adds].
  - cbn. intuition congruence.
  - cbn. intuition congruence.
  - destruct (subfail_final t r); cbn; intuition congruence.
  - cbn. intuition congruence.
  - destruct (k <? cf_k t); cbn; intuition congruence.
  - cbn. tauto.
Qed.
Lemma adds_custom t m r j : In (Custom j) (adds t m r) -> m = MCustom j.
Proof.
  destruct m; cbn [adds].
  - cbn. intuition congruence.
  - cbn. intuition congruence.
  - cbn. intuition congruence.
  - destruct (fail_final t r); cbn; intuition congruence.
  - destruct (subfail_final t r); cbn; intuition congruence.
  - cbn. intuition congruence.
  - destruct (k <? cf_k t); cbn; [|tauto]. intros [H|[]]. congruence.
  - cbn. tauto.
Qed.
Lemma mem_nat_In j C : mem Nat.eqb j C = true <-> In j C.
Proof. apply mem_In. intros a b. apply Nat.eqb_eq. Qed.


  Definition expected_st (t0 : task) (oc : outcome) : status :=
    match oc with
    | OutSucc => Succeeded
    | OutFail => if no_next (texec t0) then Failed else Waiting
    end.
  Definition customs_ok (t0 : task) (C : list nat) (t : task) : Prop :=
    forall j, In (Custom j) (outs t) -> In (Custom j) (outs t0) \/ In j C.

  Record phaseA (t0 : task) (C : list nat) (t : task) : Prop := {
    pa_wf : wf t;
    pa_st : st t = Preparing \/ st t = Submitted \/ st t = Running;
    pa_exec : texec t = texec t0;
    pa_nosucc : ~ In OSucceeded (outs t);
    pa_nofail : ~ In OFailed (outs t);
    pa_cust : customs_ok t0 C t
  }.
  Record phaseB (t0 : task) (oc : outcome) (C : list nat) (t : task) : Prop := {
    pb_wf : wf t;
    pb_st : st t = expected_st t0 oc;
    pb_sub : In OSubmitted (outs t);
    pb_start : In OStarted (outs t);
    pb_succ : In OSucceeded (outs t) <-> oc = OutSucc;
    pb_fail : In OFailed (outs t) <-> (oc = OutFail /\ no_next (texec t0) = true);
    pb_cust : customs_ok t0 C t;
    pb_wait : expected_st t0 oc = Waiting -> retry_lined_up t = true
  }.

  (* a non-stale message that the job can emit, before the outcome was delivered *)
  Lemma phaseA_msg t0 oc C t m f n :
    phaseA t0 C t -> check t m f n = true -> emits oc C m = true ->
    let t' := fst (process_message t m f n) in
    if is_outcome oc m then phaseB t0 oc C t' else phaseA t0 C t'.
  Proof.
    intros [W S E NS NF CU] Ck Em. cbn zeta.
    pose proof (wf_pm t m f n W) as W'.
    pose proof (wfp_st t m f n Ck) as Hst. pose proof (wfp_exec t m f n Ck) as Hex.
    pose proof (wfp_sub t m f n Ck) as Hsu.
    pose proof (fun x => wfp_outs t m f n Ck x) as Ho.
    set (t' := fst (process_message t m f n)) in *.
    assert (Rk : rk (st t) <= 5) by (destruct S as [S|[S|S]]; rewrite S; cbn; lia).
    destruct (is_outcome oc m) eqn:IO.
    - (* the outcome itself *)
      destruct oc; destruct m; try discriminate IO.
      + (* succeeded *)
        constructor; [exact W'| | | | | | |].
        * rewrite Hst. reflexivity.
        * apply Ho. right. cbn. auto.
        * apply Ho. right. cbn. auto.
        * split; [reflexivity|]. intros _. apply Ho. right. cbn. auto.
        * split; [|intros [H _]; discriminate H]. intros H. apply Ho in H. destruct H as [H|H]; [tauto|].
          cbn in H. intuition congruence.
        * intros j H. apply Ho in H. destruct H as [H|H]; [auto|]. apply adds_custom in H. discriminate H.
        * cbn. discriminate.
      + (* failed *)
        assert (G : flag_received f && (rk Failed <? rk (mid_st (st t) (hs t) (ht t))) = false).
        { apply andb_false_iff. right. apply Nat.ltb_ge. unfold mid_st.
          change (rk Failed) with 6.
          destruct (ht t); [destruct (hs t); [lia|]|cbn; lia].
          destruct (psub_st_cases (st t)) as [[_ Q]|[_ Q]]; rewrite Q; [cbn; lia|lia]. }
        assert (SN : mid_st (st t) (hs t) (ht t) <> Failed).
        { unfold mid_st. destruct (ht t); [destruct (hs t)|]; try discriminate.
          - destruct S as [S|[S|S]]; rewrite S; discriminate.
          - destruct (psub_st_cases (st t)) as [[_ Q]|[_ Q]]; rewrite Q; [discriminate|].
            destruct S as [S|[S|S]]; rewrite S; discriminate. }
        apply status_eqb_neq in SN.
        unfold ctl_next, ctl_of in Hst, Hex, Hsu. cbn [c_st c_exec c_sub] in Hst, Hex, Hsu.
        rewrite G in Hst, Hex, Hsu.
        assert (Ao : forall x, In x (adds t MFailed (flag_received f)) <->
                     x = OSubmitted \/ x = OStarted \/ (x = OFailed /\ no_next (texec t) = true)).
        { intros x. cbn [adds]. unfold fail_final. rewrite G, SN. cbn [negb andb].
          rewrite andb_true_r. destruct (no_next (texec t)); cbn; intuition congruence. }
        assert (EX : expected_st t0 OutFail = if no_next (texec t) then Failed else Waiting)
          by (unfold expected_st; rewrite E; reflexivity).
        assert (E0 : no_next (texec t0) = no_next (texec t)) by (rewrite E; reflexivity).
        destruct (next_of (texec t)) as [x'|] eqn:NX; cbn [c_st c_exec c_sub] in Hst, Hex, Hsu.
        * assert (NN : no_next (texec t) = false) by (unfold no_next; rewrite NX; reflexivity).
          rewrite NN in *.
          constructor; [exact W'|rewrite EX; exact Hst| | | | | |].
          -- apply Ho. right. apply Ao. auto.
          -- apply Ho. right. apply Ao. auto.
          -- split; [|discriminate]. intros H. apply Ho in H. destruct H as [H|H]; [tauto|].
             apply Ao in H. intuition congruence.
          -- rewrite E0. split; [|intros [_ H]; discriminate H]. intros H. apply Ho in H.
             destruct H as [H|H]; [tauto|]. apply Ao in H. intuition congruence.
          -- intros j H. apply Ho in H. destruct H as [H|H]; [auto|]. apply adds_custom in H. discriminate H.
          -- intros _. unfold retry_lined_up. rewrite Hex.
             destruct (next_of_ok _ _ _ (wf_exec t W) NX) as (_ & _ & P).
             cbn [timer_lined_up]. apply Nat.ltb_lt in P. rewrite P. apply orb_true_r.
        * assert (NN : no_next (texec t) = true) by (unfold no_next; rewrite NX; reflexivity).
          rewrite NN in *.
          constructor; [exact W'|rewrite EX; exact Hst| | | | | |].
          -- apply Ho. right. apply Ao. auto.
          -- apply Ho. right. apply Ao. auto.
          -- split; [|discriminate]. intros H. apply Ho in H. destruct H as [H|H]; [tauto|].
             apply Ao in H. intuition congruence.
          -- rewrite E0. split; [auto|]. intros _. apply Ho. right. apply Ao. auto.
          -- intros j H. apply Ho in H. destruct H as [H|H]; [auto|]. apply adds_custom in H. discriminate H.
          -- rewrite EX. discriminate.
    - (* not the outcome: stays in phase A *)
      assert (M1 : m <> MSucceeded) by (intros ->; destruct oc; cbn in *; congruence).
      assert (M2 : m <> MFailed) by (intros ->; destruct oc; cbn in *; congruence).
      destruct (adds_no_outcome t m (flag_received f) M1 M2) as [A1 A2].
      constructor; [exact W'| | | | |].
      + rewrite Hst. unfold ctl_next, ctl_of. cbn [c_st c_exec c_sub].
        destruct m; try congruence; try discriminate Em; cbn [c_st]; auto.
        * destruct (flag_received f && (rk Submitted <=? rk (st t))); cbn [c_st]; auto.
          destruct (psub_st_cases (st t)) as [[_ Q]|[_ Q]]; rewrite Q; auto.
        * assert (G : flag_received f && (rk Running <? rk (if hs t then st t else psub_st (st t))) = false).
          { apply andb_false_iff. right. apply Nat.ltb_ge. destruct (hs t); [exact Rk|].
            destruct (psub_st_cases (st t)) as [[_ Q]|[_ Q]]; rewrite Q; [cbn; lia|exact Rk]. }
          rewrite G. cbn [c_st]. auto.
      + rewrite Hex, <- E. unfold ctl_next, ctl_of. cbn [c_st c_exec c_sub].
        destruct m; try congruence; try discriminate Em; cbn [c_exec]; auto.
        * destruct (flag_received f && (rk Submitted <=? rk (st t))); reflexivity.
        * destruct (flag_received f && (rk Running <? rk (if hs t then st t else psub_st (st t)))); reflexivity.
      + intros H. apply Ho in H. tauto.
      + intros H. apply Ho in H. tauto.
      + intros j H. apply Ho in H. destruct H as [H|H]; [auto|]. apply adds_custom in H. subst m.
        cbn in Em. right. apply mem_nat_In. exact Em.
  Qed.

  (* once the outcome was delivered, later messages of the story change nothing
     but custom outputs *)
  Lemma final_status_stable t m f n :
    wf t -> check t m f n = true ->
    (st t = Succeeded /\ m <> MFailed) \/ (st t = Failed /\ m <> MSucceeded) ->
    m <> MSubFail -> m <> MExpired -> (m = MStarted -> flag_received f = true) ->
    st (fst (process_message t m f n)) = st t.
  Proof.
    intros W Ck S N1 N2 N3. rewrite (wfp_st t m f n Ck).
    assert (R : rk Running <= rk (st t)) by (destruct S as [[S _]|[S _]]; rewrite S; cbn; lia).
    assert (R' : rk Submitted <= rk (st t)) by (cbn in *; lia).
    pose proof (wf_hs t W R') as I1. pose proof (wf_ht t W R) as I2.
    apply hs_In in I1. apply ht_In in I2.
    unfold ctl_next, ctl_of, mid_st. cbn [c_st c_exec c_sub]. rewrite I1, I2.
    destruct m; try congruence; cbn [c_st]; try reflexivity.
    - destruct (flag_received f && (rk Submitted <=? rk (st t))); cbn [c_st]; [reflexivity|].
      destruct S as [[S _]|[S _]]; rewrite S; reflexivity.
    - rewrite (N3 eq_refl). destruct S as [[S _]|[S _]]; rewrite S; reflexivity.
    - destruct S as [[S _]|[S X]]; [symmetry; exact S|congruence].
    - destruct S as [[S X]|[S _]]; [congruence|]. rewrite S. cbn [andb Nat.ltb Nat.leb rk].
      rewrite andb_false_r. rewrite (no_next_None _ (wf_failed t W S)). reflexivity.
  Qed.

  Lemma phaseB_msg t0 oc C t m f n :
    phaseB t0 oc C t -> emits oc C m = true -> (m = MStarted -> flag_received f = true) ->
    phaseB t0 oc C (fst (process_message t m f n)).
  Proof.
    intros B Em St. destruct (check t m f n) eqn:Ck; [|rewrite pm_ignored by exact Ck; exact B].
    destruct B as [W S I1 I2 PS PF CU PW].
    assert (N1 : m <> MSubFail) by (intros ->; discriminate Em).
    assert (N2 : m <> MExpired) by (intros ->; discriminate Em).
    destruct (status_eqb (expected_st t0 oc) Waiting) eqn:EW.
    - (* waiting for the retry: everything is ignored *)
      apply status_eqb_eq in EW. rewrite pm_retry_window; auto; [|congruence].
      constructor; auto.
    - apply status_eqb_neq in EW.
      pose proof (wf_pm t m f n W) as W'.
      pose proof (fun x => wfp_outs t m f n Ck x) as Ho.
      assert (Fin : (st t = Succeeded /\ m <> MFailed /\ oc = OutSucc) \/
                    (st t = Failed /\ m <> MSucceeded /\ oc = OutFail /\ no_next (texec t0) = true)).
      { rewrite S. unfold expected_st in *. destruct oc.
        - left. repeat split; auto. intros ->. discriminate Em.
        - destruct (no_next (texec t0)); [|congruence]. right. repeat split; auto. intros ->. discriminate Em. }
      assert (Hst : st (fst (process_message t m f n)) = st t).
      { apply final_status_stable; auto. destruct Fin as [(A & B & _)|(A & B & _)]; auto. }
      set (t' := fst (process_message t m f n)) in *.
      assert (Mono : forall x, In x (outs t) -> In x (outs t')) by (intros x H; apply Ho; auto).
      constructor; [exact W'| |apply Mono; exact I1|apply Mono; exact I2| | | |].
      + congruence.
      + split; [|intros H; apply Mono; apply PS; exact H].
        intros H. apply Ho in H. destruct H as [H|H]; [apply PS; exact H|].
        destruct Fin as [(_ & _ & OC)|(_ & M2 & _)]; [exact OC|]. exfalso.
        destruct m; try congruence; cbn [adds] in H.
        * cbn in H. intuition congruence.
        * cbn in H. intuition congruence.
        * destruct (fail_final t (flag_received f)); cbn in H; intuition congruence.
        * destruct (k <? cf_k t); cbn in H; intuition congruence.
        * destruct H.
      + split; [|intros H; apply Mono; apply PF; exact H].
        intros H. apply Ho in H. destruct H as [H|H]; [apply PF; exact H|].
        destruct Fin as [(_ & M1 & _)|(_ & _ & OC & NN)]; [|auto]. exfalso.
        destruct m; try congruence; cbn [adds] in H.
        * cbn in H. intuition congruence.
        * cbn in H. intuition congruence.
        * cbn in H. intuition congruence.
        * destruct (k <? cf_k t); cbn in H; intuition congruence.
        * destruct H.
      + intros j H. apply Ho in H. destruct H as [H|H]; [auto|]. apply adds_custom in H. subst m.
        cbn in Em. right. apply mem_nat_In. exact Em.
      + intros H. congruence.
  Qed.

  Lemma phase_step t0 oc C (d : bool) t o :
    (if d then phaseB t0 oc C t else phaseA t0 C t) ->
    story_op oc C d o = true ->
    if d || delivers oc o then phaseB t0 oc C (fst (step t o)) else phaseA t0 C (fst (step t o)).
  Proof.
    intros P SO. destruct o as [|ok|m f rel]; cbn [story_op] in SO; [discriminate| |].
    - (* submit command result: internal 'submitted' *)
      subst ok. cbn [step delivers]. rewrite orb_false_r. destruct d.
      + apply phaseB_msg; auto. discriminate.
      + assert (Ck : check t MSubmitted Internal (Z.of_nat (sn t)) = true).
        { rewrite check_notreceived by reflexivity.
          destruct (pa_st _ _ _ P) as [S|[S|S]]; rewrite S; reflexivity. }
        assert (Em : emits oc C MSubmitted = true) by reflexivity.
        pose proof (phaseA_msg t0 oc C t MSubmitted Internal _ P Ck Em) as H. cbn zeta in H.
        destruct oc; exact H.
    - destruct (op_stale (OpMsg m f rel)) eqn:ST.
      + (* stale: ignored *)
        rewrite step_stale by exact ST. cbn [fst delivers]. rewrite ST. cbn [negb]. rewrite andb_false_r, orb_false_r.
        exact P.
      + cbn [orb] in SO. apply andb_true_iff in SO. destruct SO as [Em NL].
        cbn [step delivers]. rewrite ST. cbn [negb]. rewrite andb_true_r.
        destruct d; cbn [orb].
        * apply phaseB_msg; auto. intros ->. cbn in NL. rewrite andb_true_r in NL.
          apply negb_true_iff in NL. apply negb_false_iff in NL. exact NL.
        * assert (Ck : check t m f (Z.of_nat (sn t) + rel) = true).
          { rewrite check_nonstale by exact ST.
            destruct (pa_st _ _ _ P) as [S|[S|S]]; rewrite S; reflexivity. }
          apply (phaseA_msg t0 oc C t m f _ P Ck Em).
  Qed.

  Lemma phase_run t0 oc C ops : forall (d : bool) t,
    (if d then phaseB t0 oc C t else phaseA t0 C t) ->
    story oc C d ops = true ->
    if d || delivered_in oc ops then phaseB t0 oc C (final t ops) else phaseA t0 C (final t ops).
  Proof.
    induction ops as [|o r IH]; intros d t P S.
    - cbn. rewrite orb_false_r. exact P.
    - cbn [story] in S. apply andb_true_iff in S. destruct S as [S1 S2].
      rewrite final_cons. cbn [delivered_in existsb]. rewrite orb_assoc.
      apply IH; [|exact S2]. apply phase_step; assumption.
  Qed.

  Theorem final_matches_outcome t0 oc C ops :
    wf t0 -> st t0 = Preparing ->
    ~ In OSucceeded (outs t0) -> ~ In OFailed (outs t0) ->
    story oc C false ops = true -> delivered_in oc ops = true ->
    phaseB t0 oc C (final t0 ops).
  Proof.
    intros W S N1 N2 St D.
    assert (P : phaseA t0 C t0) by (constructor; auto; intros j H; auto).
    pose proof (phase_run t0 oc C ops false t0 P St) as H. rewrite D in H. exact H.
  Qed.
