(* Proofs/PrereqProofs.v — from the substituted text to the truth value:
   lexer and parser of the Python fragment, trigger expression trees, the
   evaluation theorem, construction by get_prerequisite, cache transparency. *)
From Coq Require Import List ZArith Bool Lia.
From Cylc Require Import Base.Util Model.Prereq Proofs.PrereqSubst.
Import ListNotations.
Local Open Scope Z_scope.

(* ---------- trigger expressions (parse trees of the graph syntax) ---------- *)
(* or-expression := and-expression { | and-expression }
   and-expression := primary { & primary }
   primary := atom | ( or-expression )                                   *)
Inductive oexp := OA (a : aexp) | OOr (a : aexp) (o : oexp)
with aexp := AP (p : pexp) | AAnd (p : pexp) (a : aexp)
with pexp := PAtm (k : key) | PPar (o : oexp).

Scheme oexp_mut := Induction for oexp Sort Prop
with aexp_mut := Induction for aexp Sort Prop
with pexp_mut := Induction for pexp Sort Prop.
Combined Scheme exp_mutind from oexp_mut, aexp_mut, pexp_mut.

(* the truth of the expression over a satisfaction map *)
Fixpoint sem_o (sg : key -> bool) (o : oexp) : bool :=
  match o with OA a => sem_a sg a | OOr a o' => sem_a sg a || sem_o sg o' end
with sem_a (sg : key -> bool) (a : aexp) : bool :=
  match a with AP p => sem_p sg p | AAnd p a' => sem_p sg p && sem_a sg a' end
with sem_p (sg : key -> bool) (p : pexp) : bool :=
  match p with PAtm k => sg k | PPar o => sem_o sg o end.

(* the token sequence of the expression (what _stringify_list walks through) *)
Fixpoint flat_o (o : oexp) : list stok :=
  match o with OA a => flat_a a | OOr a o' => flat_a a ++ SOp 124 :: flat_o o' end
with flat_a (a : aexp) : list stok :=
  match a with AP p => flat_p p | AAnd p a' => flat_p p ++ SOp 38 :: flat_a a' end
with flat_p (p : pexp) : list stok :=
  match p with PAtm k => [SAtom k] | PPar o => SOp 40 :: flat_o o ++ [SOp 41] end.

Definition atoms_o (o : oexp) : list key := atoms (flat_o o).
(* the expression text handed to set_conditional_expr *)
Definition expr_text (o : oexp) : str := render_src (flat_o o).

Fixpoint need_o (o : oexp) : nat :=
  match o with OA a => S (need_a a) | OOr a o' => S (Nat.max (need_a a) (need_o o')) end
with need_a (a : aexp) : nat :=
  match a with AP p => S (need_p p) | AAnd p a' => S (Nat.max (need_p p) (need_a a')) end
with need_p (p : pexp) : nat :=
  match p with PAtm _ => 1%nat | PPar o => S (need_o o) end.

(* ---------- shape of the token sequence ---------- *)
Lemma atoms_app a b : atoms (a ++ b) = atoms a ++ atoms b.
Proof. unfold atoms. apply flat_map_app. Qed.

Lemma sep_ok_app_op a c b : sep_ok (a ++ SOp c :: b) = sep_ok a && sep_ok b.
Proof.
  induction a as [|t a IH]; [reflexivity|].
  cbn [app sep_ok]. rewrite IH. destruct a as [|t' a']; cbn [app].
  - destruct (is_atom t); cbn; rewrite ?andb_true_r; reflexivity.
  - rewrite andb_assoc. reflexivity.
Qed.

Lemma flat_sep_ok :
  (forall o, sep_ok (flat_o o) = true) /\ (forall a, sep_ok (flat_a a) = true)
  /\ (forall p, sep_ok (flat_p p) = true).
Proof.
  apply exp_mutind; intros; cbn [flat_o flat_a flat_p]; auto.
  - rewrite sep_ok_app_op, H, H0. reflexivity.
  - rewrite sep_ok_app_op, H, H0. reflexivity.
  - cbn [sep_ok is_atom andb negb]. rewrite sep_ok_app_op, H. reflexivity.
Qed.

Lemma flat_tok_ok :
  (forall o, (forall k, In k (atoms (flat_o o)) -> wf_key k = true) -> forallb tok_ok (flat_o o) = true)
  /\ (forall a, (forall k, In k (atoms (flat_a a)) -> wf_key k = true) -> forallb tok_ok (flat_a a) = true)
  /\ (forall p, (forall k, In k (atoms (flat_p p)) -> wf_key k = true) -> forallb tok_ok (flat_p p) = true).
Proof.
  apply exp_mutind; intros; cbn [flat_o flat_a flat_p] in *; auto.
  - rewrite forallb_app. cbn. rewrite H, H0; auto; intros k Hk; apply H1; rewrite atoms_app;
      apply in_or_app; [right|left]; auto.
  - rewrite forallb_app. cbn. rewrite H, H0; auto; intros k Hk; apply H1; rewrite atoms_app;
      apply in_or_app; [right|left]; auto.
  - cbn. rewrite H; [reflexivity|]. left. reflexivity.
  - cbn [forallb tok_ok]. rewrite forallb_app. cbn. rewrite H; [reflexivity|].
    intros k Hk. apply H0. change (SOp 40 :: flat_o o ++ [SOp 41]) with ([SOp 40] ++ flat_o o ++ [SOp 41]).
    rewrite !atoms_app. apply in_or_app. right. apply in_or_app. left. exact Hk.
Qed.

Lemma flat_nonempty :
  (forall o, flat_o o <> []) /\ (forall a, flat_a a <> []) /\ (forall p, flat_p p <> []).
Proof.
  apply exp_mutind; intros; cbn [flat_o flat_a flat_p]; auto; try discriminate.
  - destruct (flat_a a); [congruence|discriminate].
  - destruct (flat_p p); [congruence|discriminate].
Qed.

Lemma atoms_nonempty :
  (forall o, atoms (flat_o o) <> []) /\ (forall a, atoms (flat_a a) <> [])
  /\ (forall p, atoms (flat_p p) <> []).
Proof.
  apply exp_mutind; intros; cbn [flat_o flat_a flat_p]; auto.
  - rewrite atoms_app. destruct (atoms (flat_a a)); [congruence|discriminate].
  - rewrite atoms_app. destruct (atoms (flat_p p)); [congruence|discriminate].
  - discriminate.
  - change (SOp 40 :: flat_o o ++ [SOp 41]) with ([SOp 40] ++ flat_o o ++ [SOp 41]).
    rewrite !atoms_app. cbn. rewrite app_nil_r. exact H.
Qed.

(* ---------- lexer: the substituted text reads back as the token sequence ---------- *)
Definition ptok_of (t : stok) : ptok :=
  match t with
  | SAtom k => PAt k
  | SOp c => if c =? 124 then POr else if c =? 38 then PAnd else if c =? 40 then PLp else PRp
  end.

Lemma strip_prefix_app p s : strip_prefix p (p ++ s) = Some s.
Proof. induction p as [|a p IH]; cbn; [reflexivity|]. rewrite Z.eqb_refl. exact IH. Qed.

Lemma span_nq_app a r : ~ In 34 a -> span_nq (a ++ 34 :: r) = (a, 34 :: r).
Proof.
  induction a as [|c a IH]; intros H; cbn.
  - reflexivity.
  - unfold c_quote. destruct (Z.eqb_spec c 34) as [->|_]; [exfalso; apply H; left; reflexivity|].
    rewrite IH; [reflexivity|]. intros Hin. apply H. right. exact Hin.
Qed.

Lemma comp_ok_plain s : comp_ok s = true -> plain s = true.
Proof.
  unfold comp_ok, plain. rewrite !forallb_forall. intros H c Hc. specialize (H c Hc).
  unfold char_ok in H. unfold c_bslash.
  destruct (c =? 92), (c =? 10), (c =? 13); cbn in *; rewrite ?orb_true_r in H; try discriminate; reflexivity.
Qed.

Lemma lex_atom_tmpl k R : wf k -> lex_atom (tmpl k ++ R) = Some (k, R).
Proof.
  intros W. destruct k as [[p n] o]. unfold tmpl, kP, kN, kO in *. cbn [fst snd].
  assert (Hq : char_ok 34 = false) by reflexivity.
  pose proof (comp_ok_not _ _ (wf_P _ W) Hq) as Hp.
  pose proof (comp_ok_not _ _ (wf_N _ W) Hq) as Hn.
  pose proof (comp_ok_not _ _ (wf_O _ W) Hq) as Ho.
  unfold kP, kN, kO in *; cbn [fst snd] in *.
  unfold lex_atom. rewrite <- !app_assoc.
  rewrite strip_prefix_app.
  change (t_mid ++ n ++ t_mid ++ o ++ t_post ++ R) with (34 :: [44; 32; 34] ++ n ++ t_mid ++ o ++ t_post ++ R).
  rewrite span_nq_app by exact Hp.
  change (34 :: [44; 32; 34] ++ n ++ t_mid ++ o ++ t_post ++ R) with (t_mid ++ n ++ t_mid ++ o ++ t_post ++ R).
  rewrite strip_prefix_app.
  change (t_mid ++ o ++ t_post ++ R) with (34 :: [44; 32; 34] ++ o ++ t_post ++ R).
  rewrite span_nq_app by exact Hn.
  change (34 :: [44; 32; 34] ++ o ++ t_post ++ R) with (t_mid ++ o ++ t_post ++ R).
  rewrite strip_prefix_app.
  change (t_post ++ R) with (34 :: [41; 93; 41] ++ R).
  rewrite span_nq_app by exact Ho.
  change (34 :: [41; 93; 41] ++ R) with (t_post ++ R).
  rewrite strip_prefix_app.
  pose proof (wf_P _ W) as H1. pose proof (wf_N _ W) as H2. pose proof (wf_O _ W) as H3.
  unfold kP, kN, kO in *; cbn [fst snd] in *.
  rewrite (comp_ok_plain _ H1), (comp_ok_plain _ H2), (comp_ok_plain _ H3). reflexivity.
Qed.

Lemma lex_render ts : forall f,
  forallb tok_ok ts = true -> (List.length ts < f)%nat ->
  lex f (render_py ts) = Some (map ptok_of ts).
Proof.
  induction ts as [|t r IH]; intros f Hok Hf.
  - destruct f; [lia|reflexivity].
  - destruct f as [|f]; [lia|]. cbn [forallb] in Hok. apply andb_true_iff in Hok.
    destruct Hok as [Ht Hr]. cbn [List.length] in Hf.
    assert (IH' := IH f Hr ltac:(lia)).
    unfold render_py in *. cbn [map List.concat].
    destruct t as [k|c].
    + cbn [tok_py tok_ok] in *. apply wf_key_wf in Ht.
      assert (E : exists x, tmpl k ++ List.concat (map tok_py r) = 98 :: x) by (eexists; reflexivity).
      destruct E as [x E].
      cbn [lex]. rewrite E. cbn [op_tok].
      change (op_tok 98) with (@None ptok). cbn iota. rewrite <- E.
      rewrite lex_atom_tmpl by exact Ht. rewrite IH'. reflexivity.
    + cbn [tok_py tok_ok app ptok_of] in *. cbn [lex].
      unfold is_delim in Ht. rewrite !orb_true_iff, !Z.eqb_eq in Ht.
      destruct Ht as [[[->| ->]| ->]| ->]; cbn; rewrite IH'; reflexivity.
Qed.

Lemma render_py_length ts : (List.length ts <= List.length (render_py ts))%nat.
Proof.
  unfold render_py. induction ts as [|t r IH]; cbn [map List.concat List.length]; [lia|].
  rewrite app_length. destruct t as [k|c]; cbn [tok_py].
  - unfold tmpl. rewrite app_length. cbn. lia.
  - cbn. lia.
Qed.

(* ---------- parser / evaluator on the token sequence ---------- *)
Definition noand (r : list ptok) : Prop := match r with PAnd :: _ => False | _ => True end.
Definition noor (r : list ptok) : Prop := match r with POr :: _ => False | _ => True end.

Definition ptoks (ts : list stok) : list ptok := map ptok_of ts.

Lemma parse_ok (sp : key -> option bool) (sg : key -> bool) :
  (forall o, (forall k, In k (atoms (flat_o o)) -> sp k = Some (sg k)) ->
     forall f rest, (need_o o <= f)%nat -> noand rest -> noor rest ->
     p_or f sp (ptoks (flat_o o) ++ rest) = Some (VBool (sem_o sg o), rest))
  /\ (forall a, (forall k, In k (atoms (flat_a a)) -> sp k = Some (sg k)) ->
     forall f rest, (need_a a <= f)%nat -> noand rest ->
     p_and f sp (ptoks (flat_a a) ++ rest) = Some (VBool (sem_a sg a), rest))
  /\ (forall p, (forall k, In k (atoms (flat_p p)) -> sp k = Some (sg k)) ->
     forall f rest, (need_p p <= f)%nat ->
     p_un f sp (ptoks (flat_p p) ++ rest) = Some (VBool (sem_p sg p), rest)).
Proof.
  apply exp_mutind.
  - (* OA *) intros a IHa Hs f rest Hf Hna Hno. cbn [need_o] in Hf.
    destruct f as [|f]; [lia|]. cbn [flat_o sem_o p_or].
    rewrite IHa; [|exact Hs|lia|exact Hna].
    destruct rest as [|[] rest]; cbn in Hno; try reflexivity. destruct Hno.
  - (* OOr *) intros a IHa o IHo Hs f rest Hf Hna Hno. cbn [need_o] in Hf.
    destruct f as [|f]; [lia|]. cbn [flat_o sem_o p_or]. unfold ptoks in *.
    rewrite map_app. cbn [map ptok_of]. cbn. rewrite <- app_assoc. cbn [app].
    rewrite IHa; [| |lia|exact I].
    2:{ intros k Hk. apply Hs. cbn [flat_o]. rewrite atoms_app. apply in_or_app. left. exact Hk. }
    rewrite IHo; [reflexivity| |lia|exact Hna|exact Hno].
    intros k Hk. apply Hs. cbn [flat_o]. rewrite atoms_app. apply in_or_app. right. exact Hk.
  - (* AP *) intros p IHp Hs f rest Hf Hna. cbn [need_a] in Hf.
    destruct f as [|f]; [lia|]. cbn [flat_a sem_a p_and].
    rewrite IHp; [|exact Hs|lia].
    destruct rest as [|[] rest]; cbn in Hna; try reflexivity. destruct Hna.
  - (* AAnd *) intros p IHp a IHa Hs f rest Hf Hna. cbn [need_a] in Hf.
    destruct f as [|f]; [lia|]. cbn [flat_a sem_a p_and]. unfold ptoks in *.
    rewrite map_app. cbn [map ptok_of]. cbn. rewrite <- app_assoc. cbn [app].
    rewrite IHp; [| |lia].
    2:{ intros k Hk. apply Hs. cbn [flat_a]. rewrite atoms_app. apply in_or_app. left. exact Hk. }
    rewrite IHa; [reflexivity| |lia|exact Hna].
    intros k Hk. apply Hs. cbn [flat_a]. rewrite atoms_app. apply in_or_app. right. exact Hk.
  - (* PAtm *) intros k Hs f rest Hf. cbn [need_p] in Hf.
    destruct f as [|f]; [lia|]. cbn. rewrite (Hs k); [reflexivity|]. cbn. left. reflexivity.
  - (* PPar *) intros o IHo Hs f rest Hf. cbn [need_p] in Hf.
    destruct f as [|f]; [lia|]. cbn [flat_p sem_p]. unfold ptoks in *.
    cbn [map ptok_of]. rewrite map_app. cbn [map ptok_of]. cbn. rewrite <- app_assoc. cbn [app].
    rewrite IHo; [reflexivity| |lia|exact I|exact I].
    intros k Hk. apply Hs. cbn [flat_p].
    change (SOp 40 :: flat_o o ++ [SOp 41]) with ([SOp 40] ++ flat_o o ++ [SOp 41]).
    rewrite !atoms_app. apply in_or_app. right. apply in_or_app. left. exact Hk.
Qed.

Lemma need_bound :
  (forall o, (need_o o <= 2 * List.length (flat_o o) + 2)%nat)
  /\ (forall a, (need_a a <= 2 * List.length (flat_a a) + 1)%nat)
  /\ (forall p, (need_p p <= 2 * List.length (flat_p p))%nat).
Proof.
  apply exp_mutind; intros; cbn [need_o need_a need_p flat_o flat_a flat_p];
    rewrite ?app_length; cbn [List.length]; rewrite ?app_length; cbn [List.length]; lia.
Qed.

(* ---------- eval() of the substituted text ---------- *)
Lemma eval_py_render o sp sg :
  (forall k, In k (atoms_o o) -> wf_key k = true) ->
  (forall k, In k (atoms_o o) -> sp k = Some (sg k)) ->
  eval_py sp (render_py (flat_o o)) = RVal (VBool (sem_o sg o)).
Proof.
  intros Hwf Hs. unfold eval_py.
  rewrite lex_render.
  - pose proof (proj1 (parse_ok sp sg) o Hs (2 * List.length (ptoks (flat_o o)) + 2)%nat [] ) as H.
    rewrite app_nil_r in H. unfold ptoks in H. rewrite H; [reflexivity| |exact I|exact I].
    rewrite map_length. apply (proj1 need_bound).
  - apply (proj1 flat_tok_ok). exact Hwf.
  - pose proof (render_py_length (flat_o o)). lia.
Qed.

(* ---------- the no-OR path: all(self._satisfied.values()) ---------- *)
Definition is_bar (t : stok) : bool := match t with SOp c => c =? 124 | SAtom _ => false end.

Lemma has_bar_app a b : has_bar (a ++ b) = has_bar a || has_bar b.
Proof. unfold has_bar. apply existsb_app. Qed.

Lemma has_bar_msg k : wf k -> has_bar (msg k) = false.
Proof.
  intros W. unfold has_bar. destruct (existsb (Z.eqb c_bar) (msg k)) eqn:E; [exfalso|reflexivity].
  apply existsb_exists in E. destruct E as [c [Hin Hc]]. unfold c_bar in Hc. apply Z.eqb_eq in Hc. subst c.
  exact (msg_no_delim k 124 W eq_refl Hin).
Qed.

Lemma has_bar_render ts :
  forallb tok_ok ts = true -> has_bar (render_src ts) = existsb is_bar ts.
Proof.
  unfold render_src. induction ts as [|t r IH]; intros Hok; [reflexivity|].
  cbn [forallb] in Hok. apply andb_true_iff in Hok. destruct Hok as [Ht Hr].
  cbn [map List.concat existsb]. rewrite has_bar_app, IH by exact Hr. f_equal.
  destruct t as [k|c]; cbn [tok_text is_bar].
  - apply has_bar_msg. apply wf_key_wf. exact Ht.
  - unfold has_bar. cbn [existsb]. unfold c_bar. rewrite orb_false_r. apply Z.eqb_sym.
Qed.

Lemma sem_no_bar sg :
  (forall o, existsb is_bar (flat_o o) = false -> sem_o sg o = forallb sg (atoms (flat_o o)))
  /\ (forall a, existsb is_bar (flat_a a) = false -> sem_a sg a = forallb sg (atoms (flat_a a)))
  /\ (forall p, existsb is_bar (flat_p p) = false -> sem_p sg p = forallb sg (atoms (flat_p p))).
Proof.
  apply exp_mutind; intros; cbn [flat_o flat_a flat_p sem_o sem_a sem_p] in *; auto.
  - rewrite existsb_app in H1. cbn in H1. rewrite orb_true_r in H1. discriminate.
  - rewrite existsb_app in H1. cbn [existsb is_bar] in H1. apply orb_false_iff in H1.
    destruct H1 as [H1 H2]. cbn in H2. rewrite atoms_app, forallb_app.
    cbn [atoms flat_map app]. fold (atoms (flat_a a)). rewrite H, H0; auto.
  - cbn. rewrite andb_true_r. reflexivity.
  - change (SOp 40 :: flat_o o ++ [SOp 41]) with ([SOp 40] ++ flat_o o ++ [SOp 41]) in *.
    rewrite !existsb_app in H0. cbn in H0. rewrite orb_false_r in H0.
    rewrite !atoms_app. cbn. rewrite app_nil_r. auto.
Qed.

(* ---------- satisfaction maps ---------- *)
Definition sigma (l : list (key * sstate)) (k : key) : bool :=
  match lookup l k with Some b => b | None => false end.

Lemma assoc_in (l : list (key * sstate)) k :
  In k (map fst l) -> exists s, assoc key_eqb k l = Some s.
Proof.
  induction l as [|[k' s'] l IH]; cbn; [tauto|].
  intros [E|H].
  - subst k'. rewrite key_eqb_refl. eauto.
  - destruct (key_eqb k k'); eauto.
Qed.

Lemma lookup_sigma l k : In k (map fst l) -> lookup l k = Some (sigma l k).
Proof.
  intros H. unfold sigma, lookup. destruct (assoc_in l k H) as [s ->]. reflexivity.
Qed.

Lemma forallb_ext_in' {A} (f g : A -> bool) l :
  (forall x, In x l -> f x = g x) -> forallb f l = forallb g l.
Proof.
  induction l as [|a l IH]; intros H; [reflexivity|]. cbn.
  rewrite (H a) by (left; reflexivity). rewrite IH; [reflexivity|].
  intros x Hx. apply H. right. exact Hx.
Qed.

Lemma forallb_values l :
  NoDup (map fst l) ->
  forallb (fun kv => struthy (snd kv)) l = forallb (sigma l) (map fst l).
Proof.
  induction l as [|[k s] l IH]; intros Hnd; [reflexivity|].
  cbn [map fst forallb snd]. inversion Hnd as [|? ? Hk Hnd']; subst.
  f_equal.
  - unfold sigma, lookup. cbn. rewrite key_eqb_refl. reflexivity.
  - rewrite IH by exact Hnd'. apply forallb_ext_in'. intros k' Hk'.
    unfold sigma, lookup. cbn.
    rewrite key_eqb_neq; [reflexivity|]. intros ->. contradiction.
Qed.

Lemma forallb_same_elems {A} (f : A -> bool) l1 l2 :
  (forall x, In x l1 <-> In x l2) -> forallb f l1 = forallb f l2.
Proof.
  intros H. destruct (forallb f l1) eqn:E1, (forallb f l2) eqn:E2; try reflexivity.
  - rewrite forallb_forall in E1. assert (forallb f l2 = true) by (apply forallb_forall; intros x Hx; apply E1, H, Hx). congruence.
  - rewrite forallb_forall in E2. assert (forallb f l1 = true) by (apply forallb_forall; intros x Hx; apply E2, H, Hx). congruence.
Qed.

Lemma wf_wf_key k : wf k -> wf_key k = true.
Proof.
  intros [H1 H2 H3 H4 H5 H6 H7]. unfold wf_key. rewrite H1, H2, H3, H4, H5, H6, H7. reflexivity.
Qed.

(* ---------- the evaluation theorem ---------- *)
(* the conditional expression that set_conditional_expr stores for [o] when the
   prerequisite's keys are [ks] (in insertion order) *)
Definition cexpr_of (ks : list key) (o : oexp) : option str :=
  if has_bar (expr_text o) then Some (subst_all ks (expr_text o)) else None.

Record good (ks : list key) (o : oexp) : Prop := {
  g_wf : Forall wf ks;
  g_order : order_ok ks;
  g_nodup : NoDup ks;
  g_atoms : forall k, In k (atoms_o o) <-> In k ks }.

Lemma good_nonempty ks o : good ks o -> ks <> [].
Proof.
  intros G E. pose proof (proj1 atoms_nonempty o) as H.
  destruct (atoms (flat_o o)) as [|k l] eqn:Ea; [congruence|].
  assert (In k ks) by (apply (g_atoms ks o G); unfold atoms_o; rewrite Ea; left; reflexivity).
  rewrite E in H0. destruct H0.
Qed.

Lemma eval_clean ks o : good ks o ->
  forall st, map fst (sat st) = ks -> cexpr st = cexpr_of ks o ->
  eval_satisfied st = RVal (VBool (sem_o (sigma (sat st)) o)).
Proof.
  intros G st Hk Hc. pose proof (g_wf _ _ G) as Hwf. rewrite Forall_forall in Hwf.
  assert (Hatw : forall k, In k (atoms_o o) -> wf_key k = true).
  { intros k Hin. apply wf_wf_key, Hwf, (g_atoms _ _ G), Hin. }
  pose proof (proj1 flat_tok_ok o Hatw) as Htok.
  unfold eval_satisfied. rewrite Hc. unfold cexpr_of, expr_text.
  destruct (has_bar (render_src (flat_o o))) eqn:Hb.
  - rewrite subst_all_exact; auto.
    + assert (Hne : render_py (flat_o o) <> []).
      { pose proof (render_py_length (flat_o o)). pose proof (proj1 flat_nonempty o).
        destruct (flat_o o); [congruence|]. destruct (render_py (s :: l)); [cbn in *; lia|discriminate]. }
      destruct (render_py (flat_o o)) as [|c e] eqn:E; [congruence|]. rewrite <- E.
      apply eval_py_render; [exact Hatw|].
      intros k Hin. apply lookup_sigma. rewrite Hk. apply (g_atoms _ _ G), Hin.
    + apply (proj1 flat_sep_ok).
    + exact (g_wf _ _ G).
    + exact (g_order _ _ G).
    + intros k Hin. apply (g_atoms _ _ G), Hin.
  - rewrite has_bar_render in Hb by exact Htok.
    rewrite (proj1 (sem_no_bar _) o Hb).
    rewrite forallb_values by (rewrite Hk; exact (g_nodup _ _ G)).
    rewrite Hk. f_equal. f_equal. apply forallb_same_elems.
    intros k. symmetry. apply (g_atoms _ _ G).
Qed.

(* ---------- construction by Dependency.get_prerequisite ---------- *)
Lemma upd_fresh k v l : ~ In k (map fst l) -> upd k v l = l ++ [(k, v)].
Proof.
  induction l as [|[k' v'] l IH]; intros H; [reflexivity|].
  cbn in *. rewrite key_eqb_neq by (intros ->; apply H; left; reflexivity).
  rewrite IH; [reflexivity|]. intros Hin. apply H. right. exact Hin.
Qed.

Lemma fold_setitem_fresh (f : trig -> sstate) trs : forall l,
  NoDup (map fst l ++ map t_key trs) ->
  fold_left (fun st t => setitem st (t_key t) (f t)) trs {| sat := l; cexpr := None; cached := None |}
  = {| sat := l ++ map (fun t => (t_key t, f t)) trs; cexpr := None; cached := None |}.
Proof.
  induction trs as [|t trs IH]; intros l Hnd; cbn [fold_left map].
  - rewrite app_nil_r. reflexivity.
  - unfold setitem at 2. cbn [sat cexpr cached otruthy andb].
    rewrite upd_fresh.
    + rewrite IH.
      * rewrite <- app_assoc. reflexivity.
      * rewrite map_app. cbn [map fst]. rewrite <- app_assoc. exact Hnd.
    + cbn [map] in Hnd. apply NoDup_remove_2 in Hnd. intros Hin. apply Hnd.
      apply in_or_app. left. exact Hin.
Qed.

Definition init_sat (point icp start : Z) (trs : list trig) : list (key * sstate) :=
  map (fun t => (t_key t, init_value point icp start t)) trs.

Lemma get_prerequisite_eq point icp start trs ts :
  NoDup (map t_key trs) ->
  get_prerequisite point icp start trs ts
  = set_conditional_expr {| sat := init_sat point icp start trs; cexpr := None; cached := None |}
                         (render_src ts).
Proof.
  intros Hnd. unfold get_prerequisite, empty_prereq.
  rewrite (fold_setitem_fresh (init_value point icp start) trs []); [reflexivity|exact Hnd].
Qed.

Lemma init_sat_keys point icp start trs : map fst (init_sat point icp start trs) = map t_key trs.
Proof. unfold init_sat. rewrite map_map. reflexivity. Qed.

(* ---------- operations and cache transparency ---------- *)
Inductive mop :=
| MQuery
| MSet (k : key) (v : sstate)
| MSatisfy (ks : list key) (skip forced : bool)
| MSetSat
| MUnset (id : str).

Definition step (st : prereq) (o : mop) : prereq :=
  match o with
  | MQuery => snd (is_satisfied st)
  | MSet k v => setitem st k v
  | MSatisfy ks s f => satisfy_me st ks s f
  | MSetSat => snd (set_satisfied st)
  | MUnset id => snd (unset_nat st id)
  end.

(* after construction __setitem__ is only used on existing keys *)
Definition mop_ok (ks : list key) (o : mop) : Prop :=
  match o with MSet k _ => In k ks | _ => True end.

Lemma sem_mono (s1 s2 : key -> bool) (H : forall k, s1 k = true -> s2 k = true) :
  (forall o, sem_o s1 o = true -> sem_o s2 o = true)
  /\ (forall a, sem_a s1 a = true -> sem_a s2 a = true)
  /\ (forall p, sem_p s1 p = true -> sem_p s2 p = true).
Proof.
  apply exp_mutind; intros; cbn [sem_o sem_a sem_p] in *; auto.
  - apply orb_true_iff in H2. apply orb_true_iff. destruct H2; auto.
  - apply andb_true_iff in H2. apply andb_true_iff. destruct H2; auto.
Qed.

Lemma upd_keys k v l : In k (map fst l) -> map fst (upd k v l) = map fst l.
Proof.
  induction l as [|[k' v'] l IH]; cbn; [tauto|].
  intros H. destruct (key_eqb k k') eqn:E; cbn; [reflexivity|].
  f_equal. apply IH. destruct H as [H|H]; [|exact H].
  subst k'. rewrite key_eqb_refl in E. discriminate.
Qed.

Lemma lookup_upd k v l k' :
  lookup (upd k v l) k' = if key_eqb k' k then Some (struthy v) else lookup l k'.
Proof.
  unfold lookup. induction l as [|[k2 v2] l IH]; cbn.
  - destruct (key_eqb k' k); reflexivity.
  - destruct (key_eqb k k2) eqn:E; cbn.
    + apply key_eqb_eq in E. subst k2. destruct (key_eqb k' k); reflexivity.
    + destruct (key_eqb k' k2) eqn:E2.
      * apply key_eqb_eq in E2. subst k2.
        rewrite key_eqb_neq; [reflexivity|]. intros ->. rewrite key_eqb_refl in E. discriminate.
      * exact IH.
Qed.

Section CacheTransparency.
  Variable ks : list key.
  Variable o : oexp.
  Hypothesis G : good ks o.

  Definition inv (st : prereq) : Prop :=
    map fst (sat st) = ks /\ cexpr st = cexpr_of ks o /\
    forall v, cached st = Some v -> v = VBool (sem_o (sigma (sat st)) o).

  Lemma inv_eval st : inv st -> eval_satisfied st = RVal (VBool (sem_o (sigma (sat st)) o)).
  Proof. intros [H1 [H2 _]]. apply (eval_clean ks o G); assumption. Qed.

  Lemma setitem_inv st k v : inv st -> In k ks -> inv (setitem st k v).
  Proof.
    intros [H1 [H2 H3]] Hk. unfold inv, setitem. cbn [sat cexpr cached].
    split; [rewrite upd_keys; [exact H1|rewrite H1; exact Hk]|]. split; [exact H2|].
    intros w Hw. destruct (otruthy (cached st) && struthy v) eqn:E; [|discriminate].
    apply andb_true_iff in E. destruct E as [Ec Ev].
    rewrite Hw in Ec. cbn [otruthy] in Ec. pose proof (H3 w Hw) as Hv. subst w. cbn [truthy] in Ec.
    f_equal. rewrite Ec. symmetry.
    refine (proj1 (sem_mono (sigma (sat st)) _ _) o Ec).
    intros k' Hk'. unfold sigma. rewrite lookup_upd.
    destruct (key_eqb k' k); [exact Ev|exact Hk'].
  Qed.

  Lemma satisfy_one_inv s f st k : inv st -> inv (satisfy_one s f st k).
  Proof.
    intros Hi. unfold satisfy_one. destruct (assoc key_eqb k (sat st)) as [x|] eqn:E; [|exact Hi].
    destruct (struthy x); [exact Hi|]. apply setitem_inv; [exact Hi|].
    destruct Hi as [H1 _]. rewrite <- H1.
    clear -E. induction (sat st) as [|[k' v'] l IH]; cbn in *; [discriminate|].
    destruct (key_eqb k k') eqn:Ek; [left; symmetry; apply key_eqb_eq; exact Ek|right; auto].
  Qed.

  Lemma satisfy_me_inv st l s f : inv st -> inv (satisfy_me st l s f).
  Proof.
    unfold satisfy_me. revert st. induction l as [|k l IH]; intros st Hi; [exact Hi|].
    cbn [fold_left]. apply IH. apply satisfy_one_inv. exact Hi.
  Qed.

  Lemma is_satisfied_inv st : inv st -> inv (snd (is_satisfied st)).
  Proof.
    intros Hi. unfold is_satisfied. destruct (cached st) eqn:Ec; [exact Hi|].
    destruct (sat st) eqn:Es; [exact Hi|]. rewrite <- Es.
    rewrite (inv_eval st Hi). cbn [snd].
    destruct Hi as [H1 [H2 H3]]. split; [exact H1|]. split; [exact H2|].
    cbn [cached sat]. intros v [= <-]. reflexivity.
  Qed.

  Lemma force_all_keys l : map fst (force_all l) = map fst l.
  Proof. unfold force_all. rewrite map_map. reflexivity. Qed.

  Lemma force_all_true l : forallb (fun kv : key * sstate => struthy (snd kv)) (force_all l) = true.
  Proof.
    unfold force_all. rewrite forallb_forall. intros [k s] Hin.
    apply in_map_iff in Hin. destruct Hin as [[k' s'] [E _]]. inversion E. subst.
    cbn. destruct s'; reflexivity.
  Qed.

  Lemma set_satisfied_inv st : inv st -> inv (snd (set_satisfied st)).
  Proof.
    intros Hi. pose proof Hi as [H1 [H2 H3]].
    assert (Hev : forall c, eval_satisfied {| sat := force_all (sat st); cexpr := cexpr st; cached := c |}
                            = RVal (VBool (sem_o (sigma (force_all (sat st))) o))).
    { intros c. apply (eval_clean ks o G); cbn [sat cexpr]; [rewrite force_all_keys; exact H1|exact H2]. }
    unfold set_satisfied. unfold inv. revert Hev.
    destruct (cexpr st) as [[|c e]|] eqn:Ece; intros Hev.
    - cbn [snd sat cexpr cached]. rewrite force_all_keys. split; [exact H1|]. split; [exact H2|].
      intros v [= <-]. specialize (Hev None). unfold eval_satisfied in Hev. cbn [cexpr sat] in Hev.
      rewrite force_all_true in Hev. injection Hev as Hev. rewrite <- Hev. reflexivity.
    - rewrite Hev. cbn [snd sat cexpr cached]. rewrite force_all_keys. split; [exact H1|]. split; [exact H2|].
      intros v [= <-]. reflexivity.
    - cbn [snd sat cexpr cached]. rewrite force_all_keys. split; [exact H1|]. split; [exact H2|].
      intros v [= <-]. specialize (Hev None). unfold eval_satisfied in Hev. cbn [cexpr sat] in Hev.
      rewrite force_all_true in Hev. injection Hev as Hev. rewrite <- Hev. reflexivity.
  Qed.

  Lemma unset_fold_inv id l : forall acc : bool * prereq,
    inv (snd acc) -> (forall kv, In kv l -> In (fst kv) ks) ->
    inv (snd (fold_left
      (fun (acc : bool * prereq) (kv : key * sstate) =>
         let (k, s) := kv in
         if str_eqb (rel_id k) id && struthy s && negb (sstate_eqb s SForced)
         then (true, setitem (snd acc) k Unsat) else acc) l acc)).
  Proof.
    induction l as [|[k s] l IH]; intros acc Hacc Hl; [exact Hacc|].
    cbn [fold_left]. apply IH.
    - destruct (str_eqb (rel_id k) id && struthy s && negb (sstate_eqb s SForced)); [|exact Hacc].
      cbn [snd]. apply setitem_inv; [exact Hacc|]. apply (Hl (k, s)). left. reflexivity.
    - intros kv Hin. apply Hl. right. exact Hin.
  Qed.

  Lemma unset_nat_inv st id : inv st -> inv (snd (unset_nat st id)).
  Proof.
    intros Hi. unfold unset_nat. apply unset_fold_inv; [exact Hi|].
    intros kv Hin. destruct Hi as [H1 _]. rewrite <- H1. apply in_map. exact Hin.
  Qed.

  Lemma step_inv st op : inv st -> mop_ok ks op -> inv (step st op).
  Proof.
    intros Hi Hok. destruct op; cbn [step].
    - apply is_satisfied_inv, Hi.
    - apply setitem_inv; assumption.
    - apply satisfy_me_inv, Hi.
    - apply set_satisfied_inv, Hi.
    - apply unset_nat_inv, Hi.
  Qed.

  Lemma steps_inv ops : forall st, inv st -> Forall (mop_ok ks) ops -> inv (fold_left step ops st).
  Proof.
    induction ops as [|op ops IH]; intros st Hi Hok; [exact Hi|].
    inversion Hok; subst. cbn [fold_left]. apply IH; [apply step_inv|]; assumption.
  Qed.

  Lemma inv_answer st : inv st -> fst (is_satisfied st) = RVal (VBool (sem_o (sigma (sat st)) o)).
  Proof.
    intros Hi. unfold is_satisfied. destruct (cached st) eqn:Ec.
    - cbn. f_equal. apply Hi. exact Ec.
    - destruct (sat st) eqn:Es.
      + exfalso. destruct Hi as [H1 _]. rewrite Es in H1. cbn in H1.
        apply (good_nonempty ks o G). symmetry. exact H1.
      + rewrite <- Es. rewrite (inv_eval st Hi). reflexivity.
  Qed.
End CacheTransparency.

Lemma inv_initial ks o l :
  map fst l = ks ->
  inv ks o (set_conditional_expr {| sat := l; cexpr := None; cached := None |} (expr_text o)).
Proof.
  intros Hk. unfold inv, set_conditional_expr. cbn [sat cexpr cached].
  split; [exact Hk|]. split; [|discriminate].
  unfold cexpr_of. rewrite Hk. reflexivity.
Qed.

(* ---------- corollaries used by the property statements ---------- *)
Lemma order_ok_pairwise ks :
  NoDup ks ->
  (forall k k', In k ks -> In k' ks -> k <> k' -> collides k k' = false) -> order_ok ks.
Proof.
  unfold order_ok. induction ks as [|k ks IH]; intros Hnd H; constructor.
  - inversion Hnd; subst. apply Forall_forall. intros k' Hk'.
    apply H; [left; reflexivity|right; exact Hk'|]. intros ->. contradiction.
  - inversion Hnd; subst. apply IH; [assumption|]. intros a b Ha Hb. apply H; right; assumption.
Qed.

Lemma collides_same_name k k' : collides k k' = true -> kN k = kN k'.
Proof. unfold collides. rewrite !andb_true_iff. intros [[H _] _]. apply str_eqb_eq. exact H. Qed.

(* legal alphabets (ASCII): task names \w - + % @ ; points digits T Z : + - *)
Definition name_char (c : Z) : bool :=
  is_word c || (c =? 45) || (c =? 43) || (c =? 37) || (c =? 64).
Definition point_char (c : Z) : bool :=
  is_digit c || (c =? 84) || (c =? 90) || (c =? 58) || (c =? 43) || (c =? 45).

Lemma word_char_ok c : is_word c = true -> char_ok c = true /\ (c =? 32) = false.
Proof.
  unfold is_word, is_digit, char_ok, is_delim.
  rewrite !orb_true_iff, !andb_true_iff, !Z.leb_le, Z.eqb_eq. intros H.
  assert (Hc : c <> 124 /\ c <> 38 /\ c <> 40 /\ c <> 41 /\ c <> 47 /\ c <> 34 /\ c <> 92 /\ c <> 10
               /\ c <> 13 /\ c <> 32) by lia.
  destruct Hc as (?&?&?&?&?&?&?&?&?&?).
  repeat match goal with |- context [?a =? ?b] => rewrite (proj2 (Z.eqb_neq a b)) by assumption end.
  split; reflexivity.
Qed.

Lemma name_char_ok c : name_char c = true -> char_ok c = true /\ (c =? 32) = false.
Proof.
  unfold name_char. rewrite !orb_true_iff, !Z.eqb_eq.
  intros [[[[H| ->]| ->]| ->]| ->]; [apply word_char_ok; exact H| | | |]; split; reflexivity.
Qed.

Lemma point_char_ok c : point_char c = true -> char_ok c = true /\ (c =? 32) = false.
Proof.
  unfold point_char. rewrite !orb_true_iff, !Z.eqb_eq.
  intros [[[[[H| ->]| ->]| ->]| ->]| ->]; [|split; reflexivity..].
  apply word_char_ok. unfold is_word. rewrite H. reflexivity.
Qed.

Lemma forallb_chars (f : Z -> bool) s :
  (forall c, f c = true -> char_ok c = true /\ (c =? 32) = false) ->
  forallb f s = true -> comp_ok s = true /\ no_space s = true.
Proof.
  intros Hf H. unfold comp_ok, no_space. rewrite !forallb_forall in *.
  split; intros c Hc; destruct (Hf c (H c Hc)) as [H1 H2]; [exact H1|rewrite H2; reflexivity].
Qed.

Lemma legal_key_wf k :
  forallb point_char (kP k) = true -> point_start_ok (kP k) = true ->
  forallb name_char (kN k) = true ->
  comp_ok (kO k) = true -> out_end_ok (kO k) = true -> wf k.
Proof.
  intros HP HP0 HN HO HOe.
  destruct (forallb_chars _ _ point_char_ok HP) as [H1 H2].
  destruct (forallb_chars _ _ name_char_ok HN) as [H3 H4].
  constructor; assumption.
Qed.

(* integer points: an optional minus sign followed by digits *)
Definition digits (s : str) : bool := forallb is_digit s.
Definition int_point (s : str) : bool :=
  match s with
  | c :: r => if c =? 45 then negb (match r with [] => true | _ => false end) && digits r
              else is_digit c && digits r
  | [] => false
  end.

Lemma digit_word c : is_digit c = true -> is_word c = true.
Proof. unfold is_word. intros ->. reflexivity. Qed.

Lemma digits_no_minus ds : digits ds = true -> ~ In 45 ds.
Proof. unfold digits. rewrite forallb_forall. intros H Hin. specialize (H _ Hin). discriminate. Qed.

Lemma digits_app a b : digits (a ++ b) = digits a && digits b.
Proof. apply forallb_app. Qed.

Lemma digits_last_word u d : digits u = true -> u <> [] -> wordb (last_opt d u) = true.
Proof.
  revert d. induction u as [|c u IH]; intros d H Hne; [congruence|].
  cbn in H. apply andb_true_iff in H. destruct H as [Hc Hu]. cbn [last_opt].
  destruct u as [|c' u']; [cbn; apply digit_word; exact Hc|].
  apply IH; [exact Hu|discriminate].
Qed.

Lemma int_point_shape s : int_point s = true ->
  exists ds, digits ds = true /\ ds <> [] /\ (s = ds \/ s = 45 :: ds).
Proof.
  destruct s as [|c r]; [discriminate|]. cbn [int_point].
  destruct (Z.eqb_spec c 45) as [->|Hc].
  - rewrite andb_true_iff. intros [Hne Hd]. exists r. split; [exact Hd|]. split; [|right; reflexivity].
    destruct r; [discriminate|discriminate].
  - intros H. exists (c :: r). split; [exact H|]. split; [discriminate|left; reflexivity].
Qed.

(* between integer points the point part of a collision is equality
   (since the look-behind of fix 0083ac1; before it the negation p' = -p was a second case) *)
Lemma int_point_bsuffix p p' :
  int_point p = true -> int_point p' = true -> bsuffix p p' = true -> p' = p.
Proof.
  intros Hp Hp' H. unfold bsuffix in H. rewrite !andb_true_iff in H. destruct H as [[Hlen Heq] Hb].
  apply str_eqb_eq in Heq.
  set (n := (List.length p' - List.length p)%nat) in *.
  assert (E : p' = firstn n p' ++ p) by (rewrite <- Heq; symmetry; apply firstn_skipn).
  destruct (firstn n p') as [|a u]; [exact E|exfalso].
  destruct (int_point_shape p Hp) as [ds [Hds [Hne [-> | ->]]]];
    destruct (int_point_shape p' Hp') as [ds' [Hds' [Hne' [E' | E']]]]; rewrite E' in E.
  - (* digits = (a::u) ++ digits : the prefix ends in a digit, no boundary *)
    assert (Hn : is_neg ds = false).
    { destruct ds as [|c r]; [congruence|]. cbn. cbn in Hds. apply andb_true_iff in Hds.
      destruct Hds as [Hc _]. destruct (Z.eqb_spec c 45) as [->|]; [discriminate|reflexivity]. }
    rewrite Hn in Hb. cbn [orb] in Hb.
    rewrite E, digits_app in Hds'. apply andb_true_iff in Hds'. destruct Hds' as [Hu _].
    rewrite (digits_last_word (a :: u) None Hu) in Hb by discriminate. discriminate.
  - (* -digits' = (a::u) ++ digits : the prefix ends in the minus sign or in a digit *)
    cbn [app] in E. injection E as Ea Eu. subst a.
    assert (Hn : is_neg ds = false).
    { destruct ds as [|c r]; [congruence|]. cbn. cbn in Hds. apply andb_true_iff in Hds.
      destruct Hds as [Hc _]. destruct (Z.eqb_spec c 45) as [->|]; [discriminate|reflexivity]. }
    rewrite Hn in Hb. cbn [orb] in Hb.
    destruct u as [|b u'].
    + (* look-behind: not after a minus sign *)
      cbn in Hb. discriminate.
    + rewrite Eu, digits_app in Hds'. apply andb_true_iff in Hds'. destruct Hds' as [Hu _].
      change (last_opt None (45 :: b :: u')) with (last_opt (Some 45) (b :: u')) in Hb.
      rewrite (digits_last_word (b :: u') (Some 45) Hu) in Hb by discriminate.
      discriminate.
  - (* digits' = (a::u) ++ -digits : a minus sign among digits *)
    apply (digits_no_minus ds' Hds'). rewrite E.
    apply in_or_app. right. left. reflexivity.
  - (* -digits' = (a::u) ++ -digits *)
    cbn [app] in E. injection E as Ea Eu.
    apply (digits_no_minus ds' Hds'). rewrite Eu. apply in_or_app. right. left. reflexivity.
Qed.

(* pre-initial triggers are satisfied in the constructed prerequisite *)
Lemma sigma_init_sat point icp start trs t :
  NoDup (map t_key trs) -> In t trs ->
  sigma (init_sat point icp start trs) (t_key t) = struthy (init_value point icp start t).
Proof.
  unfold sigma, lookup, init_sat.
  induction trs as [|t0 trs IH]; intros Hnd Hin; [destruct Hin|].
  cbn [map assoc]. inversion Hnd as [|? ? Hk Hnd']; subst.
  destruct Hin as [->|Hin].
  - rewrite key_eqb_refl. reflexivity.
  - rewrite key_eqb_neq; [apply IH; assumption|].
    intros E. apply Hk. rewrite <- E. apply in_map. exact Hin.
Qed.
