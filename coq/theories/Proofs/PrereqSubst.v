(* Proofs/PrereqSubst.v — string-level lemmas about the regex substitution of
   Prerequisite.set_conditional_expr (Model/Prereq.v: match_at, sub_aux, subst_all). *)
From Coq Require Import List ZArith Bool Lia.
From Cylc Require Import Base.Util Model.Prereq.
Import ListNotations.
Local Open Scope Z_scope.

(* ---------- decidable equalities ---------- *)
Lemma str_eqb_eq a b : str_eqb a b = true <-> a = b.
Proof. apply list_eqb_spec. intros x y. apply Z.eqb_eq. Qed.

Lemma key_eqb_eq a b : key_eqb a b = true <-> a = b.
Proof.
  destruct a as [[p n] o], b as [[p' n'] o']. unfold key_eqb, kP, kN, kO; cbn.
  rewrite !andb_true_iff, !str_eqb_eq. split.
  - intros [[-> ->] ->]. reflexivity.
  - intros E. inversion E. auto.
Qed.

Lemma key_eqb_refl k : key_eqb k k = true.
Proof. apply key_eqb_eq. reflexivity. Qed.

Lemma key_eqb_neq a b : a <> b -> key_eqb a b = false.
Proof. intros H. destruct (key_eqb a b) eqn:E; [|reflexivity]. apply key_eqb_eq in E. contradiction. Qed.

Lemma mem_key_In k l : mem key_eqb k l = true <-> In k l.
Proof. apply mem_In. apply key_eqb_eq. Qed.

(* ---------- generic list facts ---------- *)
Lemma starts_with_app m r : starts_with m (m ++ r) = true.
Proof. induction m as [|a m IH]; cbn; [reflexivity|]. rewrite Z.eqb_refl. exact IH. Qed.

Lemma starts_with_split m s : starts_with m s = true -> exists r, s = m ++ r.
Proof.
  revert s; induction m as [|a m IH]; intros s; cbn.
  - intros _. exists s. reflexivity.
  - destruct s as [|b s]; [discriminate|]. rewrite andb_true_iff, Z.eqb_eq.
    intros [-> H]. destruct (IH _ H) as [r ->]. exists r. reflexivity.
Qed.

Lemma app_eq_app_cases {A} (x1 y1 x2 y2 : list A) :
  x1 ++ y1 = x2 ++ y2 ->
  (exists l, x2 = x1 ++ l /\ y1 = l ++ y2) \/ (exists l, l <> [] /\ x1 = x2 ++ l /\ y2 = l ++ y1).
Proof.
  revert x2; induction x1 as [|a x1 IH]; intros x2 E; cbn in *.
  - left. exists x2. split; [reflexivity|exact E].
  - destruct x2 as [|b x2]; cbn in *.
    + right. exists (a :: x1). repeat split; [discriminate|symmetry; exact E].
    + inversion E as [[Eab E']]. subst b. destruct (IH _ E') as [[l [-> ->]]|[l [Hl [-> ->]]]].
      * left. exists l. split; reflexivity.
      * right. exists l. repeat split; auto.
Qed.

Lemma last_opt_app d a b : last_opt d (a ++ b) = last_opt (last_opt d a) b.
Proof. revert d; induction a as [|c a IH]; intros d; cbn; [reflexivity|apply IH]. Qed.

Lemma last_opt_snoc d a c : last_opt d (a ++ [c]) = Some c.
Proof. rewrite last_opt_app. reflexivity. Qed.

Lemma last_opt_nonempty d d' s : s <> [] -> last_opt d s = last_opt d' s.
Proof. destruct s as [|c s]; [congruence|]. intros _. reflexivity. Qed.

Lemma skipn_len_app {A} (m r : list A) : skipn (List.length m) (m ++ r) = r.
Proof. induction m as [|a m IH]; cbn; [reflexivity|exact IH]. Qed.

(* a character that occurs exactly once splits a list in one way only *)
Lemma split_once {A} (c : A) a b a' b' :
  a ++ c :: b = a' ++ c :: b' -> ~ In c a -> ~ In c b -> a = a' /\ b = b'.
Proof.
  revert a'; induction a as [|x a IH]; intros a' E Ha Hb.
  - destruct a' as [|y a']; cbn in E.
    + inversion E. auto.
    + inversion E as [[Ec Eb]]. subst y. exfalso. apply Hb. rewrite Eb.
      apply in_or_app. right. left. reflexivity.
  - destruct a' as [|y a']; cbn in E.
    + inversion E as [[Ec Eb]]. exfalso. apply Ha. left. exact Ec.
    + inversion E as [[Exy E']]. subst y.
      destruct (IH a' E') as [-> ->]; [intros H; apply Ha; right; exact H|exact Hb|].
      auto.
Qed.

(* the first occurrence of a character is unique *)
Lemma split_first {A} (c : A) a b a' b' :
  a ++ c :: b = a' ++ c :: b' -> ~ In c a -> ~ In c a' -> a = a' /\ b = b'.
Proof.
  revert a'; induction a as [|x a IH]; intros a' E Ha Ha'.
  - destruct a' as [|y a']; cbn in E.
    + inversion E. auto.
    + inversion E as [[Ec Eb]]. exfalso. apply Ha'. left. symmetry. exact Ec.
  - destruct a' as [|y a']; cbn in E.
    + inversion E as [[Ec Eb]]. exfalso. apply Ha. left. exact Ec.
    + inversion E as [[Exy E']]. subst y.
      destruct (IH a' E') as [-> ->];
        [intros H; apply Ha; right; exact H|intros H; apply Ha'; right; exact H|].
      auto.
Qed.

(* ---------- sub_aux: skipping, matching, not matching ---------- *)
Lemma sub_aux_skip m repl u prev r :
  sub_aux m repl (List.length u) prev (u ++ r) = sub_aux m repl O (last_opt prev u) r.
Proof.
  revert prev; induction u as [|c u IH]; intros prev; cbn [List.length app last_opt].
  - reflexivity.
  - cbn [sub_aux]. apply IH.
Qed.

Lemma sub_aux_match m repl prev R :
  m <> [] -> match_at m prev (m ++ R) = true ->
  sub_aux m repl O prev (m ++ R) = repl ++ sub_aux m repl O (last_opt prev m) R.
Proof.
  intros Hm Hmatch. destruct m as [|c m']; [congruence|].
  change ((c :: m') ++ R) with (c :: (m' ++ R)) in *.
  cbn [sub_aux]. rewrite Hmatch. f_equal.
  cbn [List.length pred]. rewrite sub_aux_skip. reflexivity.
Qed.

Lemma sub_aux_nomatch m repl seg : forall prev R,
  (forall u v, seg = u ++ v -> v <> [] -> match_at m (last_opt prev u) (v ++ R) = false) ->
  sub_aux m repl O prev (seg ++ R) = seg ++ sub_aux m repl O (last_opt prev seg) R.
Proof.
  induction seg as [|c seg IH]; intros prev R H; [reflexivity|].
  pose proof (H [] (c :: seg) eq_refl ltac:(discriminate)) as H0.
  cbn [app last_opt] in H0. cbn [app sub_aux last_opt]. rewrite H0.
  f_equal. apply IH. intros u v -> Hv.
  apply (H (c :: u) v eq_refl Hv).
Qed.

(* ---------- match_at: what a match implies ---------- *)
Definition is_neg (s : str) : bool := match s with c :: _ => c =? 45 | [] => false end.

Lemma match_at_prefix m prev s : match_at m prev s = true -> starts_with m s = true.
Proof.
  unfold match_at. destruct m as [|c body].
  - intros _. reflexivity.
  - unfold c_minus. destruct (Z.eqb_spec c 45) as [->|Hc].
    + unfold match_neg, c_minus. destruct s as [|d s']; [discriminate|].
      rewrite !andb_true_iff, Z.eqb_eq. intros [[[-> _] H] _]. cbn. exact H.
    + unfold match_plain. rewrite !andb_true_iff. tauto.
Qed.

(* the end-of-match boundary, in both pattern forms *)
Lemma match_at_end m prev s :
  match_at m prev s = true ->
  bnd (last_opt prev m) (hd_opt (skipn (List.length m) s)) = true.
Proof.
  unfold match_at. destruct m as [|c body].
  - unfold match_plain. rewrite !andb_true_iff. tauto.
  - unfold c_minus. destruct (Z.eqb_spec c 45) as [->|Hc].
    + unfold match_neg, c_minus. destruct s as [|d s']; [discriminate|].
      rewrite !andb_true_iff. intros [_ H]. cbn. exact H.
    + unfold match_plain. rewrite !andb_true_iff. tauto.
Qed.

(* "the previous character is not a minus sign" (the look-behind of the plain pattern) *)
Definition nominus (o : option Z) : bool := negb (option_eqb Z.eqb o (Some 45)).

Lemma match_at_start_nominus m prev s :
  is_neg m = false -> match_at m prev s = true -> nominus prev = true.
Proof.
  unfold match_at, is_neg, nominus. destruct m as [|c body].
  - unfold match_plain, c_minus. rewrite !andb_true_iff. tauto.
  - unfold c_minus. intros ->. unfold match_plain, c_minus. rewrite !andb_true_iff. tauto.
Qed.

(* the start-of-match boundary of the plain pattern *)
Lemma match_at_start_pos m prev s :
  is_neg m = false -> match_at m prev s = true -> bnd prev (hd_opt s) = true.
Proof.
  unfold match_at, is_neg. destruct m as [|c body].
  - unfold match_plain. rewrite !andb_true_iff. tauto.
  - unfold c_minus. intros ->. unfold match_plain. rewrite !andb_true_iff. tauto.
Qed.

(* construction of a match *)
Lemma match_at_intro_pos m prev s :
  is_neg m = false -> nominus prev = true ->
  bnd prev (hd_opt s) = true -> starts_with m s = true ->
  bnd (last_opt prev m) (hd_opt (skipn (List.length m) s)) = true ->
  match_at m prev s = true.
Proof.
  unfold match_at, is_neg, nominus. intros Hn H0 H1 H2 H3. destruct m as [|c body].
  - unfold match_plain, c_minus. rewrite H0, H1, H2, H3. reflexivity.
  - unfold c_minus. rewrite Hn. unfold match_plain, c_minus. rewrite H0, H1, H2, H3. reflexivity.
Qed.

Lemma match_at_intro_neg body prev s' :
  bnd (Some 45) (hd_opt s') = true -> starts_with body s' = true ->
  bnd (last_opt (Some 45) body) (hd_opt (skipn (List.length body) s')) = true ->
  match_at (45 :: body) prev (45 :: s') = true.
Proof.
  intros H1 H2 H3. unfold match_at, match_neg, c_minus. cbn [Z.eqb Pos.eqb].
  rewrite H1, H2, H3. reflexivity.
Qed.

(* ---------- alphabets: the hypotheses of the substitution theorem ---------- *)
Definition is_delim (c : Z) : bool := (c =? 124) || (c =? 38) || (c =? 40) || (c =? 41).
(* characters allowed in a key component: no expression operator, no slash,
   no double quote, no backslash, no line break *)
Definition char_ok (c : Z) : bool :=
  negb (is_delim c || (c =? 47) || (c =? 34) || (c =? 92) || (c =? 10) || (c =? 13)).
Definition comp_ok (s : str) : bool := forallb char_ok s.
Definition no_space (s : str) : bool := forallb (fun c => negb (c =? 32)) s.
(* a point starts with a word character, or with a minus sign followed by one *)
Definition point_start_ok (p : str) : bool :=
  match p with
  | c :: r => is_word c || ((c =? 45) && match r with d :: _ => is_word d | [] => false end)
  | [] => false
  end.
(* an output message is non-empty and ends with a word character *)
Definition out_end_ok (o : str) : bool := wordb (last_opt None o).
Definition wf_key (k : key) : bool :=
  comp_ok (kP k) && comp_ok (kN k) && comp_ok (kO k) && no_space (kP k) && no_space (kN k)
  && point_start_ok (kP k) && out_end_ok (kO k).

(* [collides k k'] : the pattern of [k] also matches inside the message of [k'] *)
Definition bprefix (o o' : str) : bool :=
  starts_with o o' && negb (wordb (hd_opt (skipn (List.length o) o'))).
Definition bsuffix (p p' : str) : bool :=
  let n := (List.length p' - List.length p)%nat in
  (List.length p <=? List.length p')%nat && str_eqb (skipn n p') p
  && (is_neg p || (negb (wordb (last_opt None (firstn n p'))) && nominus (last_opt None (firstn n p')))).
Definition collides (k k' : key) : bool :=
  str_eqb (kN k) (kN k') && bsuffix (kP k) (kP k') && bprefix (kO k) (kO k').

Record wf (k : key) : Prop := {
  wf_P : comp_ok (kP k) = true; wf_N : comp_ok (kN k) = true; wf_O : comp_ok (kO k) = true;
  wf_Ps : no_space (kP k) = true; wf_Ns : no_space (kN k) = true;
  wf_P0 : point_start_ok (kP k) = true; wf_Oe : out_end_ok (kO k) = true }.

Lemma wf_key_wf k : wf_key k = true -> wf k.
Proof. unfold wf_key. rewrite !andb_true_iff. intros [[[[[[? ?] ?] ?] ?] ?] ?]. constructor; assumption. Qed.

Lemma comp_ok_not (s : str) c : comp_ok s = true -> char_ok c = false -> ~ In c s.
Proof. intros H Hc Hin. unfold comp_ok in H. rewrite forallb_forall in H. rewrite (H _ Hin) in Hc. discriminate. Qed.

Lemma no_space_not (s : str) : no_space s = true -> ~ In 32 s.
Proof. intros H Hin. unfold no_space in H. rewrite forallb_forall in H. specialize (H _ Hin). discriminate. Qed.

Lemma delim_char_not_ok c : is_delim c = true -> char_ok c = false.
Proof. unfold char_ok. intros ->. reflexivity. Qed.

Lemma delim_not_word c : is_delim c = true -> is_word c = false.
Proof.
  unfold is_delim. rewrite !orb_true_iff, !Z.eqb_eq. intros [[[->| ->]| ->]| ->]; reflexivity.
Qed.

Lemma msg_no_delim k c : wf k -> is_delim c = true -> ~ In c (msg k).
Proof.
  intros W Hc Hin. unfold msg in Hin.
  pose proof (delim_char_not_ok c Hc) as Hok.
  apply in_app_or in Hin. destruct Hin as [H|[H|H]].
  - exact (comp_ok_not _ _ (wf_P k W) Hok H).
  - subst c. discriminate.
  - apply in_app_or in H. destruct H as [H|[H|H]].
    + exact (comp_ok_not _ _ (wf_N k W) Hok H).
    + subst c. discriminate.
    + exact (comp_ok_not _ _ (wf_O k W) Hok H).
Qed.

Lemma msg_has_slash k : In 47 (msg k).
Proof. unfold msg. apply in_or_app. right. left. reflexivity. Qed.

Lemma tmpl_no_slash k : wf k -> ~ In 47 (tmpl k).
Proof.
  intros W Hin. unfold tmpl in Hin.
  assert (Hs : char_ok 47 = false) by reflexivity.
  repeat (apply in_app_or in Hin; destruct Hin as [Hin|Hin]);
    try (cbn in Hin; intuition discriminate).
  - exact (comp_ok_not _ _ (wf_P k W) Hs Hin).
  - exact (comp_ok_not _ _ (wf_N k W) Hs Hin).
  - exact (comp_ok_not _ _ (wf_O k W) Hs Hin).
Qed.

Lemma tmpl_last k : exists x, tmpl k = x ++ [41].
Proof.
  unfold tmpl, t_post.
  exists (t_pre ++ kP k ++ t_mid ++ kN k ++ t_mid ++ kO k ++ [34; 41; 93]).
  rewrite <- !app_assoc. reflexivity.
Qed.

Lemma suffix_last {A} (u v x : list A) c : u ++ v = x ++ [c] -> v <> [] -> exists v', v = v' ++ [c].
Proof.
  intros E Hv. destruct (exists_last Hv) as [v' [a ->]].
  rewrite app_assoc in E. apply app_inj_tail in E. destruct E as [_ ->]. eauto.
Qed.

(* what precedes an atom: nothing or an operator character *)
Definition prev_ok (o : option Z) : bool := negb (wordb o) && nominus o.

Lemma delim_prev_ok c : is_delim c = true -> prev_ok (Some c) = true.
Proof.
  unfold is_delim. rewrite !orb_true_iff, !Z.eqb_eq. intros [[[->| ->]| ->]| ->]; reflexivity.
Qed.

Definition rest_ok (r : str) : bool := match r with [] => true | d :: _ => is_delim d end.

Lemma rest_ok_nonword r : rest_ok r = true -> wordb (hd_opt r) = false.
Proof. destruct r as [|d r]; cbn; [reflexivity|]. apply delim_not_word. Qed.

Lemma out_nonempty k : wf k -> kO k <> [].
Proof. intros W E. pose proof (wf_Oe k W) as H. unfold out_end_ok in H. rewrite E in H. discriminate. Qed.

Lemma msg_last_word k d : wf k -> wordb (last_opt d (msg k)) = true.
Proof.
  intros W. unfold msg.
  change (kP k ++ c_slash :: kN k ++ c_space :: kO k)
    with (kP k ++ [c_slash] ++ kN k ++ [c_space] ++ kO k).
  rewrite !last_opt_app.
  rewrite (last_opt_nonempty _ None (kO k) (out_nonempty k W)). exact (wf_Oe k W).
Qed.

Lemma point_nonempty k : wf k -> kP k <> [].
Proof. intros W E. pose proof (wf_P0 k W) as H. rewrite E in H. discriminate. Qed.

Lemma is_neg_msg k : wf k -> is_neg (msg k) = is_neg (kP k).
Proof. intros W. pose proof (point_nonempty k W). unfold msg. destruct (kP k); [congruence|reflexivity]. Qed.

Lemma word_not_minus c : is_word c = true -> (c =? 45) = false.
Proof. intros H. destruct (Z.eqb_spec c 45) as [->|]; [discriminate|reflexivity]. Qed.

(* --- a template never contains a match (it has no slash, and ends with a parenthesis) --- *)
Lemma tmpl_no_match k k' u v p R :
  wf k -> wf k' -> tmpl k' = u ++ v -> v <> [] -> match_at (msg k) p (v ++ R) = false.
Proof.
  intros W W' E Hv. destruct (match_at (msg k) p (v ++ R)) eqn:M; [exfalso|reflexivity].
  apply match_at_prefix, starts_with_split in M. destruct M as [r Er].
  destruct (tmpl_last k') as [x Ex]. rewrite Ex in E. symmetry in E.
  destruct (suffix_last _ _ _ _ E Hv) as [v' ->].
  destruct (app_eq_app_cases _ _ _ _ Er) as [[l [Hm _]]|[l [_ [Hvl _]]]].
  - apply (msg_no_delim k 41 W eq_refl). rewrite Hm.
    apply in_or_app. left. apply in_or_app. right. left. reflexivity.
  - apply (tmpl_no_slash k' W'). rewrite Ex, <- E.
    apply in_or_app. right. rewrite Hvl. apply in_or_app. left. apply msg_has_slash.
Qed.

(* --- a match inside another (raw) message: exactly the collision condition --- *)
Lemma msg_match_inv k k' u v prev R :
  wf k -> wf k' -> msg k' = u ++ v -> v <> [] -> rest_ok R = true -> prev_ok prev = true ->
  match_at (msg k) (last_opt prev u) (v ++ R) = true ->
  kP k' = u ++ kP k /\ kN k = kN k' /\
  exists w, kO k' = kO k ++ w /\ wordb (hd_opt w) = false /\
            (is_neg (kP k) = true \/
             (wordb (last_opt None u) = false /\ nominus (last_opt None u) = true)).
Proof.
  intros W W' E Hv HR Hprev M.
  pose proof (match_at_prefix _ _ _ M) as Hsw. apply starts_with_split in Hsw. destruct Hsw as [r Er].
  (* the matched text lies inside v *)
  assert (Hw : exists w, v = msg k ++ w /\ r = w ++ R).
  { destruct (app_eq_app_cases _ _ _ _ Er) as [[l [Hm HRl]]|[l [_ [Hvl Hr]]]].
    - destruct l as [|d l].
      + exists []. rewrite app_nil_r in Hm. cbn in HRl. subst. rewrite app_nil_r. auto.
      + exfalso. rewrite HRl in HR. cbn in HR.
        apply (msg_no_delim k d W HR). rewrite Hm. apply in_or_app. right. left. reflexivity.
    - exists l. auto. }
  destruct Hw as [w [-> ->]].
  (* align the slash, then the first space *)
  unfold msg in E at 1 2.
  assert (E1 : kP k' ++ c_slash :: (kN k' ++ c_space :: kO k')
               = (u ++ kP k) ++ c_slash :: (kN k ++ c_space :: (kO k ++ w))).
  { rewrite E. rewrite <- !app_assoc. cbn. rewrite <- !app_assoc. reflexivity. }
  assert (Hs : char_ok 47 = false) by reflexivity.
  apply split_once in E1.
  2:{ exact (comp_ok_not _ _ (wf_P k' W') Hs). }
  2:{ intros Hin. apply in_app_or in Hin. destruct Hin as [H|[H|H]].
      - exact (comp_ok_not _ _ (wf_N k' W') Hs H).
      - discriminate.
      - exact (comp_ok_not _ _ (wf_O k' W') Hs H). }
  destruct E1 as [EP E2].
  apply split_first in E2; [|exact (no_space_not _ (wf_Ns k' W'))|exact (no_space_not _ (wf_Ns k W))].
  destruct E2 as [EN EO].
  split; [exact EP|]. split; [symmetry; exact EN|]. exists w. split; [exact EO|].
  split.
  - (* end boundary *)
    pose proof (match_at_end _ _ _ M) as He.
    rewrite <- app_assoc, skipn_len_app in He.
    unfold bnd in He. rewrite (msg_last_word k _ W) in He.
    destruct w as [|c w]; [reflexivity|]. cbn in He |- *.
    destruct (is_word c); [discriminate|reflexivity].
  - (* start boundary *)
    destruct (is_neg (kP k)) eqn:Hn; [left; reflexivity|right].
    pose proof (match_at_start_pos _ _ _ (eq_trans (is_neg_msg k W) Hn) M) as Hb.
    pose proof (match_at_start_nominus _ _ _ (eq_trans (is_neg_msg k W) Hn) M) as Hm.
    pose proof (wf_P0 k W) as H0. pose proof (point_nonempty k W) as Hne.
    unfold msg in Hb. destruct (kP k) as [|c p]; [congruence|].
    cbn in Hb, H0, Hn. rewrite Hn in H0. cbn in H0. rewrite orb_false_r in H0.
    unfold bnd in Hb. cbn in Hb. rewrite H0 in Hb.
    destruct u as [|a u]; [split; reflexivity|].
    rewrite (last_opt_nonempty None prev) by discriminate.
    split; [|exact Hm].
    destruct (wordb (last_opt prev (a :: u))); [discriminate|reflexivity].
Qed.

Lemma firstn_len_app {A} (u p : list A) : firstn (List.length u) (u ++ p) = u.
Proof. induction u as [|a u IH]; cbn; [destruct p; reflexivity|f_equal; exact IH]. Qed.

Lemma msg_match_collides k k' u v prev R :
  wf k -> wf k' -> msg k' = u ++ v -> v <> [] -> rest_ok R = true -> prev_ok prev = true ->
  match_at (msg k) (last_opt prev u) (v ++ R) = true -> collides k k' = true.
Proof.
  intros W W' E Hv HR Hp M.
  destruct (msg_match_inv k k' u v prev R W W' E Hv HR Hp M) as [EP [EN [w [EO [Hw Hst]]]]].
  unfold collides. rewrite EN. rewrite (proj2 (str_eqb_eq _ _) eq_refl). cbn [andb].
  apply andb_true_iff. split.
  - unfold bsuffix. rewrite EP, app_length.
    replace (List.length u + List.length (kP k) - List.length (kP k))%nat with (List.length u) by lia.
    rewrite skipn_len_app, firstn_len_app.
    rewrite (proj2 (str_eqb_eq _ _) eq_refl).
    rewrite (proj2 (Nat.leb_le _ _)) by lia. cbn [andb].
    destruct Hst as [->|[-> ->]]; [reflexivity|apply orb_true_r].
  - unfold bprefix. rewrite EO, starts_with_app, skipn_len_app, Hw. reflexivity.
Qed.

(* --- the pattern of a key matches at its own raw message --- *)
Lemma msg_self_match k prev R :
  wf k -> prev_ok prev = true -> rest_ok R = true -> match_at (msg k) prev (msg k ++ R) = true.
Proof.
  intros W Hpo HR. unfold prev_ok in Hpo. apply andb_true_iff in Hpo. destruct Hpo as [Hp Hnm].
  apply negb_true_iff in Hp. pose proof (rest_ok_nonword R HR) as HRw.
  pose proof (wf_P0 k W) as H0.
  destruct (is_neg (kP k)) eqn:Hn.
  - (* -\b<body>\b *)
    pose proof (msg_last_word k None W) as Hl.
    unfold msg in *. destruct (kP k) as [|c p]; [discriminate|].
    cbn in Hn. apply Z.eqb_eq in Hn. subst c.
    cbn in H0. destruct p as [|d p]; [discriminate|].
    set (body := d :: p ++ c_slash :: kN k ++ c_space :: kO k).
    change ((45 :: d :: p) ++ c_slash :: kN k ++ c_space :: kO k) with (45 :: body) in *.
    change ((45 :: body) ++ R) with (45 :: (body ++ R)).
    apply match_at_intro_neg.
    + unfold body. cbn. unfold bnd. cbn. rewrite H0. reflexivity.
    + apply starts_with_app.
    + rewrite skipn_len_app. cbn [last_opt] in Hl.
      unfold bnd. rewrite Hl, HRw. reflexivity.
  - apply match_at_intro_pos.
    + rewrite is_neg_msg by exact W. exact Hn.
    + exact Hnm.
    + unfold msg. destruct (kP k) as [|c p]; [discriminate|].
      cbn in H0, Hn. rewrite Hn in H0. cbn in H0. rewrite orb_false_r in H0.
      cbn. unfold bnd. cbn. rewrite Hp, H0. reflexivity.
    + apply starts_with_app.
    + rewrite skipn_len_app. unfold bnd. rewrite (msg_last_word k prev W), HRw. reflexivity.
Qed.

(* ---------- one substitution over a partly substituted expression ---------- *)
Definition tok_mixed (done : list key) (t : stok) : str :=
  match t with
  | SAtom k => if mem key_eqb k done then tmpl k else msg k
  | SOp c => [c]
  end.
Definition render_mixed (done : list key) (ts : list stok) : str :=
  List.concat (map (tok_mixed done) ts).

Definition is_atom (t : stok) : bool := match t with SAtom _ => true | SOp _ => false end.
(* no two atoms are adjacent (true of every well-formed expression) *)
Fixpoint sep_ok (ts : list stok) : bool :=
  match ts with
  | [] => true
  | t :: r => negb (is_atom t && match r with t' :: _ => is_atom t' | [] => false end) && sep_ok r
  end.
Definition tok_ok (t : stok) : bool :=
  match t with SAtom k => wf_key k | SOp c => is_delim c end.
Definition atoms (ts : list stok) : list key :=
  flat_map (fun t => match t with SAtom k => [k] | SOp _ => [] end) ts.

Lemma render_mixed_cons done t ts : render_mixed done (t :: ts) = tok_mixed done t ++ render_mixed done ts.
Proof. reflexivity. Qed.

Lemma render_src_mixed ts : render_src ts = render_mixed [] ts.
Proof. reflexivity. Qed.

Lemma rest_ok_render done ts :
  forallb tok_ok ts = true ->
  match ts with SAtom _ :: _ => False | _ => True end ->
  rest_ok (render_mixed done ts) = true.
Proof.
  destruct ts as [|[k|c] r]; cbn; [reflexivity|tauto|].
  rewrite andb_true_iff. tauto.
Qed.

Lemma msg_nonempty k : msg k <> [].
Proof. unfold msg. destruct (kP k); discriminate. Qed.

Lemma sub_mixed k done : wf k -> forall ts prev,
  forallb tok_ok ts = true -> sep_ok ts = true ->
  (forall k', In k' (atoms ts) -> mem key_eqb k' done = false -> k' <> k -> collides k k' = false) ->
  match ts with SAtom _ :: _ => prev_ok prev = true | _ => True end ->
  sub_aux (msg k) (tmpl k) O prev (render_mixed done ts) = render_mixed (k :: done) ts.
Proof.
  intros W. induction ts as [|t r IH]; intros prev Hok Hsep Hcol Hprev; [reflexivity|].
  cbn [forallb] in Hok. apply andb_true_iff in Hok. destruct Hok as [Ht Hr].
  cbn [sep_ok] in Hsep. apply andb_true_iff in Hsep. destruct Hsep as [Hadj Hsep].
  assert (Hcol' : forall k', In k' (atoms r) -> mem key_eqb k' done = false -> k' <> k -> collides k k' = false).
  { intros k' Hin. apply Hcol. unfold atoms. cbn [flat_map]. apply in_or_app. right. exact Hin. }
  rewrite !render_mixed_cons.
  destruct t as [k'|c].
  - (* an atom; what follows is the end or an operator *)
    assert (Hnext : match r with SAtom _ :: _ => False | _ => True end).
    { destruct r as [|[k2|c2] r']; cbn in Hadj; [exact I|discriminate|exact I]. }
    pose proof (rest_ok_render done r Hr Hnext) as HR.
    assert (Hnext' : match r with SAtom _ :: _ => prev_ok (last_opt prev (tok_mixed (k :: done) (SAtom k'))) = true
                                | _ => True end).
    { destruct r as [|[k2|c2] r']; [exact I|destruct Hnext|exact I]. }
    cbn [tok_ok] in Ht. apply wf_key_wf in Ht.
    cbn [tok_mixed mem]. destruct (mem key_eqb k' done) eqn:Hd.
    + (* already substituted: a template, no match inside *)
      rewrite orb_true_r.
      rewrite sub_aux_nomatch.
      * f_equal. apply IH; auto.
        destruct r as [|[k2|c2] r']; [exact I|destruct Hnext|exact I].
      * intros u v E Hv. eapply tmpl_no_match; eauto.
    + rewrite orb_false_r. destruct (key_eqb k' k) eqn:Hk.
      * (* the key being substituted *)
        apply key_eqb_eq in Hk. subst k'.
        rewrite sub_aux_match; [|apply msg_nonempty|apply msg_self_match; auto].
        f_equal. apply IH; auto.
        destruct r as [|[k2|c2] r']; [exact I|destruct Hnext|exact I].
      * (* another raw message *)
        assert (Hne : k' <> k) by (intros ->; rewrite key_eqb_refl in Hk; discriminate).
        rewrite sub_aux_nomatch.
        -- f_equal. apply IH; auto.
           destruct r as [|[k2|c2] r']; [exact I|destruct Hnext|exact I].
        -- intros u v E Hv.
           destruct (match_at (msg k) (last_opt prev u) (v ++ render_mixed done r)) eqn:M; [|reflexivity].
           rewrite <- (Hcol k'); [|unfold atoms; cbn; left; reflexivity|exact Hd|exact Hne].
           symmetry. eapply msg_match_collides; eauto.
  - (* an operator character: the pattern cannot start here *)
    cbn [tok_mixed tok_ok] in *. cbn [app].
    assert (Mf : match_at (msg k) prev (c :: render_mixed done r) = false).
    { destruct (match_at (msg k) prev (c :: render_mixed done r)) eqn:M; [exfalso|reflexivity].
      apply match_at_prefix in M. pose proof (msg_nonempty k) as Hne.
      destruct (msg k) as [|a m] eqn:Em; [congruence|]. cbn in M.
      apply andb_true_iff in M. destruct M as [M _]. apply Z.eqb_eq in M. subst a.
      apply (msg_no_delim k c W Ht). rewrite Em. left. reflexivity. }
    cbn [sub_aux]. rewrite Mf. f_equal. apply IH; auto.
    destruct r as [|[k2|c2] r']; [exact I| |exact I].
    apply delim_prev_ok. exact Ht.
Qed.

(* ---------- the whole loop ---------- *)
Lemma render_mixed_ext d1 d2 ts :
  (forall k, In k (atoms ts) -> mem key_eqb k d1 = mem key_eqb k d2) ->
  render_mixed d1 ts = render_mixed d2 ts.
Proof.
  induction ts as [|t r IH]; intros H; [reflexivity|].
  rewrite !render_mixed_cons. f_equal.
  - destruct t as [k|c]; [|reflexivity]. cbn. rewrite (H k); [reflexivity|]. cbn. left. reflexivity.
  - apply IH. intros k Hk. apply H. unfold atoms. cbn [flat_map]. apply in_or_app. right. exact Hk.
Qed.

Lemma render_py_mixed done ts :
  (forall k, In k (atoms ts) -> In k done) -> render_mixed done ts = render_py ts.
Proof.
  induction ts as [|t r IH]; intros H; [reflexivity|].
  rewrite render_mixed_cons. unfold render_py. cbn [map List.concat]. f_equal.
  - destruct t as [k|c]; [|reflexivity]. cbn.
    rewrite (proj2 (mem_key_In k done)); [reflexivity|]. apply H. cbn. left. reflexivity.
  - apply IH. intros k Hk. apply H. unfold atoms. cbn [flat_map]. apply in_or_app. right. exact Hk.
Qed.

(* keys processed earlier must not collide into keys processed later *)
Definition order_ok (ks : list key) : Prop :=
  ForallOrdPairs (fun k k' => collides k k' = false) ks.

Lemma subst_all_mixed ts :
  forallb tok_ok ts = true -> sep_ok ts = true ->
  forall ks done,
    Forall wf ks -> order_ok ks ->
    (forall k, In k (atoms ts) -> In k done \/ In k ks) ->
    subst_all ks (render_mixed done ts) = render_mixed (rev ks ++ done) ts.
Proof.
  intros Hok Hsep. induction ks as [|k ks IH]; intros done Hwf Hord Hin; [reflexivity|].
  cbn [subst_all fold_left]. unfold sub.
  inversion Hwf as [|? ? Wk Wks]; subst. inversion Hord as [|? ? Hk Hks]; subst.
  rewrite sub_mixed; auto.
  - fold (subst_all ks (render_mixed (k :: done) ts)). rewrite IH; auto.
    + cbn [rev]. rewrite <- app_assoc. reflexivity.
    + intros k' Hk'. destruct (Hin k' Hk') as [H|[H|H]]; [left; right; exact H|left; left; exact H|right; exact H].
  - intros k' Hk' Hd Hne. rewrite Forall_forall in Hk. apply Hk.
    destruct (Hin k' Hk') as [H|[H|H]]; [|congruence|exact H].
    apply mem_key_In in H. congruence.
  - destruct ts as [|[k2|c2] r]; exact I || reflexivity.
Qed.

(* The string-level substitution theorem: over any expression text whose atoms
   are separated by operators, with every atom's key among the keys, the loop of
   regex substitutions turns exactly every message into its template. *)
Theorem subst_all_exact ts ks :
  forallb tok_ok ts = true -> sep_ok ts = true ->
  Forall wf ks -> order_ok ks ->
  (forall k, In k (atoms ts) -> In k ks) ->
  subst_all ks (render_src ts) = render_py ts.
Proof.
  intros Hok Hsep Hwf Hord Hin.
  rewrite render_src_mixed, (subst_all_mixed ts Hok Hsep ks [] Hwf Hord).
  - apply render_py_mixed. intros k Hk. apply in_or_app. left. apply in_rev. rewrite rev_involutive. auto.
  - intros k Hk. right. auto.
Qed.
