(* Proofs/GraphLinesProofs.v — C14: stages 4-6 of parse_graph on the printed
   lines of well-formed chains: which pairs and end-of-chain nodes they give,
   and that processing them amounts to applying the chains' assertions. *)
From Coq Require Import List Bool Arith String Lia.
From Cylc Require Import Base.Util Gen.FamTables Model.GraphBase Model.GraphExpr Model.FamTrig
  Model.GraphParse Model.GraphAst Proofs.GraphExprProofs Proofs.FamTrigProofs Proofs.GraphStoreProofs
  Proofs.GraphPairProofs.
Import ListNotations.

(* ================= a printed chain split on the arrows ================= *)
Lemma split_arrow_groups : forall (gs : list group) (pre : list tok),
  existsb is_arrow pre = false ->
  split_on is_arrow (pre ++ flat_map (fun g => TArrow :: print_g g) gs) = pre :: map print_g gs.
Proof.
  induction gs as [|g r IH]; intros pre Hpre; cbn [flat_map map].
  - rewrite app_nil_r. now apply split_on_none.
  - change ((TArrow :: print_g g) ++ ?x) with (TArrow :: (print_g g ++ x)).
    rewrite split_on_sep; [|reflexivity|exact Hpre]. f_equal.
    apply IH. now apply print_g_no.
Qed.

Lemma split_chain c : split_on is_arrow (print_chain c) = print_e (ch_head c) :: map print_g (ch_groups c).
Proof. unfold print_chain. apply split_arrow_groups. now apply print_e_no. Qed.

Lemma auto_rights_print_e e : auto_rights (print_e e) = map (fun n => [TN n]) (nodes_e e).
Proof.
  assert (G : forall l1 l2, existsb is_bang l1 = false ->
              auto_rights (l1 ++ l2) = auto_rights l1 ++ auto_rights l2).
  { induction l1 as [|t r IH]; intros l2 H; [reflexivity|].
    cbn in H. apply orb_false_iff in H. destruct H as [Ht Hr].
    destruct t; try discriminate; cbn [app auto_rights]; rewrite ?IH by exact Hr; reflexivity. }
  induction e; cbn [print_e nodes_e].
  - reflexivity.
  - change (TLp :: print_e e ++ [TRp]) with ([TLp] ++ print_e e ++ [TRp]).
    rewrite G by reflexivity. rewrite G by (now apply print_e_no). cbn. now rewrite app_nil_r.
  - rewrite G by (now apply print_e_no). change (TAnd :: print_e e2) with ([TAnd] ++ print_e e2).
    rewrite G by reflexivity. cbn. now rewrite IHe1, IHe2, map_app.
  - rewrite G by (now apply print_e_no). change (TOr :: print_e e2) with ([TOr] ++ print_e e2).
    rewrite G by reflexivity. cbn. now rewrite IHe1, IHe2, map_app.
Qed.

(* a group without suicide marks prints like its expression *)
Lemma print_group_expr (g : group) : g <> [] -> forallb (fun r => negb (r_s r)) g = true ->
  print_e (group_expr g) = print_g g.
Proof.
  unfold group_expr, print_g. induction g as [|r rest IH]; [congruence|]. intros _ H.
  cbn [forallb] in H. apply andb_true_iff in H. destruct H as [Hr Hrest].
  apply negb_true_iff in Hr. destruct r as [s n]. cbn [r_s] in Hr. subst s.
  destruct rest as [|r2 rest'].
  - reflexivity.
  - cbn [map] in *. rewrite big_op_cons2, join_toks_cons2. cbn [print_e].
    rewrite IH by (auto; discriminate). reflexivity.
Qed.

(* ================= the pairs of a chain ================= *)
Inductive pdesc := PAuto (n : node) | PMain (L : lexpr) (G : group).

Definition pair_of (d : pdesc) : pair :=
  match d with
  | PAuto n => (None, [TN n])
  | PMain L G => (Some (print_e L), print_g G)
  end.

Fixpoint chain_mains (L : lexpr) (gs : list group) : list pdesc :=
  match gs with
  | [] => []
  | g :: r => PMain L g :: chain_mains (group_expr g) r
  end.

Definition chain_descs (c : chain) : list pdesc :=
  map PAuto (nodes_e (ch_head c)) ++ chain_mains (ch_head c) (ch_groups c).

Lemma consecutive_mains : forall (gs : list group) L,
  groups_ok gs = true ->
  consecutive (print_e L :: map print_g gs) = map pair_of (chain_mains L gs).
Proof.
  induction gs as [|g r IH]; intros L Hok; [reflexivity|].
  cbn [map consecutive chain_mains pair_of]. f_equal.
  cbn [groups_ok] in Hok. apply andb_true_iff in Hok. destruct Hok as [Hok Hr].
  apply andb_true_iff in Hok. destruct Hok as [Hok Hmid].
  apply andb_true_iff in Hok. destruct Hok as [Hne Hg].
  destruct r as [|g2 r2]; [reflexivity|].
  cbn [is_nil orb] in Hmid.
  rewrite <- (print_group_expr g).
  - apply (IH (group_expr g) Hr).
  - destruct g; [discriminate|discriminate].
  - rewrite forallb_forall in *. intros x Hx. specialize (Hmid x Hx).
    apply andb_true_iff in Hmid. tauto.
Qed.

Lemma chain_pairs_descs c : groups_ok (ch_groups c) = true ->
  chain_pairs (split_on is_arrow (print_chain c)) = map pair_of (chain_descs c).
Proof.
  intros Hok. rewrite split_chain. unfold chain_pairs, chain_descs.
  rewrite auto_rights_print_e, map_app, !map_map. f_equal.
  now apply consecutive_mains.
Qed.

(* end-of-chain pieces *)
Lemma last_map_print_g : forall (gs : list group) d,
  last (d :: map print_g gs) [] = match rev gs with g :: _ => print_g g | [] => d end.
Proof.
  induction gs as [|g r IH]; intros d; [reflexivity|].
  cbn [map]. change (last (d :: print_g g :: map print_g r) []) with (last (print_g g :: map print_g r) []).
  rewrite IH. cbn [rev]. destruct (rev r) as [|x xs] eqn:E; reflexivity.
Qed.

Lemma rev_groups_ok gs g rest : groups_ok gs = true -> rev gs = g :: rest -> g <> [].
Proof.
  intros Hok Hrev. assert (Hin : In g gs) by (apply in_rev; rewrite Hrev; now left).
  clear Hrev. induction gs as [|x r IH]; [destruct Hin|].
  cbn [groups_ok] in Hok. apply andb_true_iff in Hok. destruct Hok as [Hok Hr].
  apply andb_true_iff in Hok. destruct Hok as [Hok _]. apply andb_true_iff in Hok. destruct Hok as [Hne _].
  destruct Hin as [->|Hin]; [destruct g; [discriminate|discriminate]|auto].
Qed.

Lemma chain_eoc_final c : groups_ok (ch_groups c) = true ->
  chain_eoc (split_on is_arrow (print_chain c)) = final_pieces c.
Proof.
  intros Hok. rewrite split_chain. unfold chain_eoc, final_pieces. rewrite last_map_print_g.
  destruct (rev (ch_groups c)) as [|g rest] eqn:E; [reflexivity|].
  apply join_and_split. eapply rev_groups_ok; eauto.
Qed.

(* ================= actions as a function of the pair's tokens ================= *)
Definition right_actions_t (eoc : list (list tok)) (expr : list tok) (atoms : list atom)
    (piece : list tok) : list action :=
  match parse_rhs piece with
  | Some (s, n) => right_actions eoc expr atoms (mkR s n)
  | None => []
  end.

Definition pair_actions (eoc : list (list tok)) (p : pair) : list action :=
  match fst p with
  | None => right_actions_t eoc [] [] (snd p)
  | Some lt =>
      let lefts := if is_nil lt || existsb is_or lt || existsb is_lp lt
                   then [lt] else split_on is_and lt in
      flat_map (fun l => match expand_left [] l with
                         | Ok ea => flat_map (right_actions_t eoc (fst ea) (snd ea))
                                             (split_on is_and (snd p))
                         | _ => []
                         end) lefts
  end.

Definition good (d : pdesc) : bool :=
  match d with
  | PAuto n => node_fin_ok n
  | PMain L G =>
      negb (is_nil G)
      && forallb (fun r => Nat.eqb (n_off (r_n r)) 0 && (r_s r || node_fin_ok (r_n r))) G
      && forallb (node_accepted []) (nodes_e L)
  end.

Definition acts_of (eoc : list (list tok)) (d : pdesc) : list action :=
  match d with
  | PAuto n => auto_actions eoc n
  | PMain L G => main_actions eoc L G
  end.

Lemma lefts_of_print L :
  (if is_nil (print_e L) || existsb is_or (print_e L) || existsb is_lp (print_e L)
   then [print_e L] else split_on is_and (print_e L)) = map print_e (left_pieces L).
Proof.
  unfold left_pieces.
  assert (Hn : is_nil (print_e L) = false)
    by (destruct (print_e L) eqn:Ep; [exfalso; eapply print_e_nonempty; eauto|reflexivity]).
  rewrite Hn. cbn [orb]. destruct (has_or_par L) eqn:Eh.
  - rewrite (has_or_par_true L Eh). reflexivity.
  - destruct (has_or_par_false L Eh) as [H1 H2]. rewrite H1, H2. cbn [orb].
    apply (split_and_pieces L Eh).
Qed.

Lemma flat_map_map {A B C} (f : B -> list C) (g : A -> B) l : flat_map f (map g l) = flat_map (fun x => f (g x)) l.
Proof. induction l; cbn; congruence. Qed.

Lemma flat_map_ext_in {A B} (f g : A -> list B) l : (forall x, In x l -> f x = g x) -> flat_map f l = flat_map g l.
Proof. induction l as [|a r IH]; cbn; intros H; [reflexivity|]. rewrite H by now left. f_equal. apply IH. intros x Hx. apply H. now right. Qed.

Lemma right_actions_t_print eoc expr atoms r : right_actions_t eoc expr atoms (print_r r) = right_actions eoc expr atoms r.
Proof. unfold right_actions_t. rewrite parse_print_r. destruct r; reflexivity. Qed.

Lemma pair_actions_of eoc d : good d = true -> pair_actions eoc (pair_of d) = acts_of eoc d.
Proof.
  destruct d as [n|L G]; cbn [good pair_of acts_of]; intros Hg; [reflexivity|].
  apply andb_true_iff in Hg. destruct Hg as [Hg Hacc]. apply andb_true_iff in Hg. destruct Hg as [Hne HG].
  unfold pair_actions, main_actions. cbn [fst snd]. rewrite lefts_of_print, flat_map_map.
  apply flat_map_ext_in. intros p Hp.
  rewrite expand_left_stored.
  - cbn [fst snd]. rewrite join_and_split by (destruct G; [discriminate|discriminate]).
    rewrite flat_map_map. apply flat_map_ext_in. intros r _. apply right_actions_t_print.
  - apply forallb_forall. intros n Hn. rewrite forallb_forall in Hacc. apply Hacc.
    eapply left_pieces_nodes; eauto.
Qed.

Lemma proc_pair_desc eoc st d : good d = true ->
  exists sb, ps_ct sb = ps_ct st
    /\ proc_pair [] eoc st (pair_of d)
       = lift (fold_res apply_core (pair_actions eoc (pair_of d)) (core_of st)) sb.
Proof.
  intros Hg. rewrite (pair_actions_of eoc d Hg).
  destruct d as [n|L G]; cbn [good pair_of acts_of] in *.
  - now apply proc_pair_auto.
  - apply andb_true_iff in Hg. destruct Hg as [Hg Hacc]. apply andb_true_iff in Hg. destruct Hg as [Hne HG].
    apply proc_pair_main; [destruct G; [discriminate|discriminate]| |exact Hacc].
    intros r Hr. rewrite forallb_forall in HG. specialize (HG r Hr).
    apply andb_true_iff in HG. destruct HG as [H1 H2]. apply Nat.eqb_eq in H1. auto.
Qed.

Lemma fold_pairs eoc : forall (ds : list pdesc) st,
  (forall d, In d ds -> good d = true) ->
  exists sb, ps_ct sb = ps_ct st
    /\ fold_res (proc_pair [] eoc) (map pair_of ds) st
       = lift (fold_res apply_core (flat_map (pair_actions eoc) (map pair_of ds)) (core_of st)) sb.
Proof.
  induction ds as [|d rest IH]; intros st Hg.
  - exists st. split; [reflexivity|]. cbn. unfold with_core, core_of. destruct st; reflexivity.
  - cbn [map fold_res flat_map]. rewrite fold_res_app.
    destruct (proc_pair_desc eoc st d (Hg d (or_introl eq_refl))) as [sb1 [Hct1 E1]]. rewrite E1.
    destruct (fold_res apply_core (pair_actions eoc (pair_of d)) (core_of st)) as [c| |]; cbn [lift bind].
    + destruct (IH (with_core sb1 c)) as [sb [Hct E]]; [intros d' Hd'; apply Hg; now right|].
      exists sb. split; [cbn in Hct; congruence|]. rewrite E, core_with. reflexivity.
    + exists st. auto.
    + exists st. auto.
Qed.

(* ================= folding a mixed list of actions over the two stores ================= *)
Definition act_oasserts (acts : list action) : list oassert :=
  flat_map (fun a => match a with AOpt o => [o] | _ => [] end) acts.
Definition act_tasserts (acts : list action) : list tassert :=
  flat_map (fun a => match a with ATrig m t => [(m, tg_expr t, tg_suicide t)] | _ => [] end) acts.
Definition act_tasks (acts : list action) : list name :=
  flat_map (fun a => match a with ATrig m _ => [m] | _ => [] end) acts.

Definition om_nodup (om : optmap) : Prop := NoDup (map fst om).

Lemma assoc_none_notin k (om : optmap) : assoc optkey_eqb k om = None -> ~ In k (map fst om).
Proof.
  induction om as [|[k' v] r IH]; cbn; [tauto|].
  destruct (optkey_eqb k k') eqn:E; [discriminate|]. intros H [H1|H1]; [|now apply IH].
  subst. rewrite (proj2 (optkey_eqb_true _ _) eq_refl) in E. discriminate.
Qed.

Lemma nodup_snoc {A} (l : list A) x : NoDup l -> ~ In x l -> NoDup (l ++ [x]).
Proof.
  induction l as [|y r IH]; cbn; intros Hnd Hx; [repeat constructor; intros []|].
  inversion Hnd as [|? ? Hy Hr]; subst. constructor.
  - intros H. apply in_app_or in H. destruct H as [H|[H|[]]]; [contradiction|subst; apply Hx; now left].
  - apply IH; [exact Hr|]. intros H. apply Hx. now right.
Qed.

Lemma core_fold_ok : forall (acts : list action) tm om,
  tm_inv tm -> om_inv om -> om_nodup om ->
  forallb oassert_guard (act_oasserts acts) = true ->
  (forall x y, (om_has om x \/ In x (act_oasserts acts)) ->
               (om_has om y \/ In y (act_oasserts acts)) -> ocompat x y = true) ->
  (forall n e s s', e <> [] ->
     (tm_has tm (n, e, s) \/ In (n, e, s) (act_tasserts acts)) ->
     (tm_has tm (n, e, s') \/ In (n, e, s') (act_tasserts acts)) -> s = s') ->
  exists tm' om',
    fold_res apply_core acts (tm, om) = Ok (tm', om')
    /\ tm_inv tm' /\ om_inv om' /\ om_nodup om'
    /\ (forall a, om_has om' a <-> (om_has om a \/ In a (act_oasserts acts)))
    /\ (forall n e s, e <> [] ->
          (tm_has tm' (n, e, s) <-> (tm_has tm (n, e, s) \/ In (n, e, s) (act_tasserts acts))))
    /\ (forall n, tm_task tm' n <-> (tm_task tm n \/ In n (act_tasks acts))).
Proof.
  induction acts as [|a rest IH]; intros tm om Htm Hom Hnd Hg Hoc Htc.
  - exists tm, om. cbn. split; [reflexivity|]. split; [exact Htm|]. split; [exact Hom|]. split; [exact Hnd|].
    split; [|split]; intros; tauto.
  - destruct a as [m t|o].
    + (* trigger *)
      cbn [act_oasserts act_tasserts act_tasks flat_map app] in *.
      destruct (set_trig_ok tm m t Htm) as [tm1 [E1 [Htm1 [Hh1 Ht1]]]].
      { intros s' He Hhas. symmetry. apply (Htc m (tg_expr t) (tg_suicide t) s' He); [right; now left|now left]. }
      destruct (IH tm1 om Htm1 Hom Hnd Hg) as [tm2 [om2 [E2 [Htm2 [Hom2 [Hnd2 [Ho2 [Hh2 Ht2]]]]]]]].
      { exact Hoc. }
      { intros n e s s' He Hs Hs'. apply (Htc n e s s' He).
        - destruct Hs as [Hs|Hs]; [apply (Hh1 n e s He) in Hs; destruct Hs as [Hs|Hs]; [now left|right; left; now symmetry]|right; now right].
        - destruct Hs' as [Hs'|Hs']; [apply (Hh1 n e s' He) in Hs'; destruct Hs' as [Hs'|Hs']; [now left|right; left; now symmetry]|right; now right]. }
      exists tm2, om2. cbn [fold_res apply_core fst snd]. rewrite E1. cbn [bind].
      split; [exact E2|]. split; [exact Htm2|]. split; [exact Hom2|]. split; [exact Hnd2|].
      split; [exact Ho2|]. split.
      * intros n e s He. split.
        -- intros H. apply (Hh2 n e s He) in H. destruct H as [H|H]; [|right; now right].
           apply (Hh1 n e s He) in H. destruct H as [H|H]; [now left|right; left; now symmetry].
        -- intros H. apply (Hh2 n e s He). destruct H as [H|[H|H]].
           ++ left. apply (Hh1 n e s He). now left.
           ++ left. apply (Hh1 n e s He). right. now symmetry.
           ++ now right.
      * intros n. split.
        -- intros H. apply Ht2 in H. destruct H as [H|H]; [|right; now right].
           apply Ht1 in H. destruct H as [H|H]; [now left|right; left; now symmetry].
        -- intros H. apply Ht2. destruct H as [H|[H|H]]; [left; apply Ht1; now left|left; apply Ht1; right; now symmetry|now right].
    + (* optionality *)
      cbn [act_oasserts act_tasserts act_tasks flat_map app forallb] in *.
      apply andb_true_iff in Hg. destruct Hg as [Hg1 Hg2].
      destruct o as [[n o] b].
      destruct (set_opt1_ok om n o b Hom Hg1) as [om1 [E1 [Hom1 [Hr1 Hshape]]]].
      { intros a' Ha'. apply Hoc; [right; now left|now left]. }
      assert (Hnd1 : om_nodup om1).
      { destruct Hshape as [->|[Hnone ->]]; [exact Hnd|].
        unfold om_nodup. rewrite map_app. cbn. apply nodup_snoc; [exact Hnd|].
        now apply assoc_none_notin. }
      destruct (IH tm om1 Htm Hom1 Hnd1 Hg2) as [tm2 [om2 [E2 [Htm2 [Hom2 [Hnd2 [Ho2 [Hh2 Ht2]]]]]]]].
      { intros x y Hx Hy. apply Hoc.
        - destruct Hx as [Hx|Hx]; [apply Hr1 in Hx; destruct Hx as [Hx| ->]; [now left|right; now left]|right; now right].
        - destruct Hy as [Hy|Hy]; [apply Hr1 in Hy; destruct Hy as [Hy| ->]; [now left|right; now left]|right; now right]. }
      { exact Htc. }
      exists tm2, om2. cbn [fold_res apply_core apply_o fst snd]. rewrite E1. cbn [bind].
      split; [exact E2|]. split; [exact Htm2|]. split; [exact Hom2|]. split; [exact Hnd2|].
      split; [|split; [exact Hh2|exact Ht2]].
      intros a. split.
      * intros H. apply Ho2 in H. destruct H as [H|H]; [|right; now right].
        apply Hr1 in H. destruct H as [H| ->]; [now left|right; now left].
      * intros H. apply Ho2. destruct H as [H|[<-|H]]; [left; apply Hr1; now left|left; apply Hr1; now right|now right].
Qed.

(* ================= de-duplication keeps the set ================= *)
Lemma mem_spec {A} (eqb : A -> A -> bool) (Heq : forall x y, eqb x y = true <-> x = y) x l :
  mem eqb x l = true <-> In x l.
Proof. now apply mem_In. Qed.

Lemma dedup_first_in {A} (eqb : A -> A -> bool) (Heq : forall x y, eqb x y = true <-> x = y) :
  forall l seen x, In x (dedup_first eqb seen l) <-> (In x l /\ ~ In x seen).
Proof.
  induction l as [|y r IH]; intros seen x; cbn [dedup_first]; [cbn; tauto|].
  destruct (mem eqb y seen) eqn:Em.
  - apply (mem_spec eqb Heq) in Em. rewrite IH. cbn [In]. split; [tauto|].
    intros [[->|H] Hn]; [contradiction|tauto].
  - assert (Hy : ~ In y seen) by (intros H; apply (mem_spec eqb Heq) in H; congruence).
    cbn [In]. rewrite IH. cbn [In]. split.
    + intros [->|[H1 H2]]; [tauto|]. split; [tauto|]. intros H. apply H2. now right.
    + intros [[->|H1] H2]; [now left|].
      destruct (eqb y x) eqn:E; [apply Heq in E; now left|].
      right. split; [exact H1|]. intros [->|H]; [|contradiction].
      rewrite (proj2 (Heq x x) eq_refl) in E. discriminate.
Qed.

Lemma pair_eqb_true (a b : pair) : pair_eqb a b = true <-> a = b.
Proof.
  destruct a as [l1 r1], b as [l2 r2]. unfold pair_eqb. cbn [fst snd].
  rewrite andb_true_iff, toks_eqb_true. split.
  - intros [H ->]. f_equal. destruct l1, l2; cbn in H; try discriminate; [apply toks_eqb_true in H; now subst|reflexivity].
  - intros [= -> ->]. split; [|reflexivity]. destruct l2; cbn; [apply toks_eqb_refl|reflexivity].
Qed.

(* ================= the descriptors of a well-formed chain are good ================= *)
Lemma nodes_big_op all (l : list lexpr) : l <> [] -> nodes_e (big_op all l) = flat_map nodes_e l.
Proof.
  induction l as [|x r IH]; [congruence|]. intros _. destruct r as [|y r'].
  - cbn. now rewrite app_nil_r.
  - rewrite big_op_cons2. destruct all; cbn [nodes_e flat_map]; rewrite IH by discriminate; reflexivity.
Qed.

Lemma nodes_group_expr (g : group) : g <> [] -> nodes_e (group_expr g) = map r_n g.
Proof.
  intros H. unfold group_expr. rewrite nodes_big_op by (destruct g; [exfalso; apply H; reflexivity|discriminate]).
  rewrite flat_map_map. clear H. induction g; cbn in *; congruence.
Qed.

Lemma chain_mains_good : forall (gs : list group) L,
  groups_ok gs = true -> forallb (node_accepted []) (nodes_e L) = true ->
  forall d, In d (chain_mains L gs) -> good d = true.
Proof.
  induction gs as [|g r IH]; intros L Hok Hacc d Hd; [destruct Hd|].
  cbn [groups_ok] in Hok. apply andb_true_iff in Hok. destruct Hok as [Hok Hr].
  apply andb_true_iff in Hok. destruct Hok as [Hok Hmid].
  apply andb_true_iff in Hok. destruct Hok as [Hne Hg].
  destruct Hd as [<-|Hd].
  - cbn [good]. rewrite Hne, Hacc. cbn [andb]. rewrite andb_true_r.
    apply forallb_forall. intros x Hx. rewrite forallb_forall in Hg. specialize (Hg x Hx).
    unfold rnode_ok in Hg. apply andb_true_iff in Hg. destruct Hg as [Hg H3].
    apply andb_true_iff in Hg. destruct Hg as [H1 H2]. now rewrite H1, H3.
  - apply (IH (group_expr g) Hr); [|exact Hd].
    rewrite nodes_group_expr by (destruct g; [discriminate|discriminate]).
    apply forallb_forall. intros n Hn. apply in_map_iff in Hn. destruct Hn as [x [<- Hx]].
    rewrite forallb_forall in Hg. specialize (Hg x Hx). unfold rnode_ok in Hg.
    apply andb_true_iff in Hg. destruct Hg as [Hg _]. apply andb_true_iff in Hg. tauto.
Qed.

Lemma chain_descs_good c : chain_ok c = true -> forall d, In d (chain_descs c) -> good d = true.
Proof.
  unfold chain_ok. intros H. apply andb_true_iff in H. destruct H as [H Hgs].
  apply andb_true_iff in H. destruct H as [_ Hn].
  intros d Hd. unfold chain_descs in Hd. apply in_app_or in Hd. destruct Hd as [Hd|Hd].
  - apply in_map_iff in Hd. destruct Hd as [n [<- Hin]]. cbn [good].
    rewrite forallb_forall in Hn. specialize (Hn n Hin). apply andb_true_iff in Hn. tauto.
  - apply (chain_mains_good (ch_groups c) (ch_head c) Hgs); [|exact Hd].
    apply forallb_forall. intros n Hin. rewrite forallb_forall in Hn. specialize (Hn n Hin).
    apply andb_true_iff in Hn. tauto.
Qed.

Lemma chain_ok_groups c : chain_ok c = true -> groups_ok (ch_groups c) = true.
Proof. unfold chain_ok. intros H. apply andb_true_iff in H. tauto. Qed.

(* ================= stages 4-6 on the printed lines of well-formed chains ================= *)
Definition line_acts (eoc : list (list tok)) (ls : graph) : list action :=
  flat_map (fun c => flat_map (acts_of eoc) (chain_descs c)) ls.

Definition dd_lines (ls : graph) : list (list tok) := dedup_first toks_eqb [] (map print_chain ls).

Lemma dd_lines_in ls l : In l (dd_lines ls) <-> exists c, In c ls /\ l = print_chain c.
Proof.
  unfold dd_lines. rewrite (dedup_first_in toks_eqb toks_eqb_true). rewrite in_map_iff. cbn.
  split; [intros [[c [E H]] _]; eauto|intros [c [H ->]]; split; [eauto|tauto]].
Qed.

Lemma eoc_in ls : (forall c, In c ls -> chain_ok c = true) ->
  forall x, In x (lines_eoc (dd_lines ls)) <-> exists c, In c ls /\ In x (final_pieces c).
Proof.
  intros Hok x. unfold lines_eoc. rewrite in_flat_map. split.
  - intros [ch [Hch Hx]]. apply in_map_iff in Hch. destruct Hch as [l [<- Hl]].
    apply dd_lines_in in Hl. destruct Hl as [c [Hc ->]]. exists c. split; [exact Hc|].
    now rewrite chain_eoc_final in Hx by (apply chain_ok_groups; auto).
  - intros [c [Hc Hx]]. exists (split_on is_arrow (print_chain c)). split.
    + apply in_map. apply dd_lines_in. eauto.
    + now rewrite chain_eoc_final by (apply chain_ok_groups; auto).
Qed.

Lemma pairs_in ls : (forall c, In c ls -> chain_ok c = true) ->
  forall p, In p (lines_pairs (dd_lines ls)) <-> exists c d, In c ls /\ In d (chain_descs c) /\ p = pair_of d.
Proof.
  intros Hok p. unfold lines_pairs. rewrite (dedup_first_in pair_eqb pair_eqb_true). cbn.
  rewrite in_flat_map. split.
  - intros [[ch [Hch Hp]] _]. apply in_map_iff in Hch. destruct Hch as [l [<- Hl]].
    apply dd_lines_in in Hl. destruct Hl as [c [Hc ->]].
    rewrite chain_pairs_descs in Hp by (apply chain_ok_groups; auto).
    apply in_map_iff in Hp. destruct Hp as [d [<- Hd]]. eauto.
  - intros [c [d [Hc [Hd ->]]]]. split; [|tauto].
    exists (split_on is_arrow (print_chain c)). split.
    + apply in_map. apply dd_lines_in. eauto.
    + rewrite chain_pairs_descs by (apply chain_ok_groups; auto). now apply in_map.
Qed.

Lemma list_of_descs (ps : list pair) :
  (forall p, In p ps -> exists d, good d = true /\ p = pair_of d) ->
  exists ds, ps = map pair_of ds /\ forall d, In d ds -> good d = true.
Proof.
  induction ps as [|p r IH]; intros H.
  - exists []. split; [reflexivity|intros d []].
  - destruct (H p (or_introl eq_refl)) as [d [Hg ->]].
    destruct IH as [ds [-> Hds]]; [intros q Hq; apply H; now right|].
    exists (d :: ds). split; [reflexivity|]. intros d' [<-|Hd']; auto.
Qed.

Lemma terminals_ok_nil st : ps_ct st = [] -> terminals_ok st = true.
Proof.
  intros H. unfold terminals_ok. rewrite H. apply forallb_forall. intros r _. cbn. apply orb_true_r.
Qed.

Lemma in_act_oasserts acts x : In x (act_oasserts acts) <-> In (AOpt x) acts.
Proof.
  unfold act_oasserts. rewrite in_flat_map. split.
  - intros [a [Ha Hx]]. destruct a; [destruct Hx|]. destruct Hx as [<-|[]]. exact Ha.
  - intros H. exists (AOpt x). split; [exact H|now left].
Qed.
Lemma in_act_tasserts acts n e s :
  In (n, e, s) (act_tasserts acts) <-> exists t, In (ATrig n t) acts /\ tg_expr t = e /\ tg_suicide t = s.
Proof.
  unfold act_tasserts. rewrite in_flat_map. split.
  - intros [a [Ha Hx]]. destruct a; [|destruct Hx]. destruct Hx as [[= <- <- <-]|[]]. eauto.
  - intros [t [H [<- <-]]]. exists (ATrig n t). split; [exact H|now left].
Qed.
Lemma in_act_tasks acts n : In n (act_tasks acts) <-> exists t, In (ATrig n t) acts.
Proof.
  unfold act_tasks. rewrite in_flat_map. split.
  - intros [a [Ha Hx]]. destruct a; [|destruct Hx]. destruct Hx as [<-|[]]. eauto.
  - intros [t H]. exists (ATrig n t). split; [exact H|now left].
Qed.

Theorem parse_lines_ok ls :
  (forall c, In c ls -> chain_ok c = true) ->
  let E := lines_eoc (dd_lines ls) in
  let A := line_acts E ls in
  forallb oassert_guard (act_oasserts A) = true ->
  (forall x y, In x (act_oasserts A) -> In y (act_oasserts A) -> ocompat x y = true) ->
  (forall n e s s', e <> [] -> In (n, e, s) (act_tasserts A) -> In (n, e, s') (act_tasserts A) -> s = s') ->
  exists st, parse_lines [] (map print_chain ls) = Ok st
    /\ tm_inv (ps_trig st) /\ om_inv (ps_opt st) /\ om_nodup (ps_opt st)
    /\ (forall a, om_has (ps_opt st) a <-> In a (act_oasserts A))
    /\ (forall n e s, e <> [] -> (tm_has (ps_trig st) (n, e, s) <-> In (n, e, s) (act_tasserts A)))
    /\ (forall n, tm_task (ps_trig st) n <-> In n (act_tasks A)).
Proof.
  intros Hok E A Hg Hoc Htc.
  unfold parse_lines. fold (dd_lines ls). fold E.
  set (ps := lines_pairs (dd_lines ls)).
  assert (Hps : forall p, In p ps -> exists d, good d = true /\ p = pair_of d).
  { intros p Hp. apply (pairs_in ls Hok) in Hp. destruct Hp as [c [d [Hc [Hd ->]]]].
    exists d. split; [|reflexivity]. eapply chain_descs_good; eauto. }
  destruct (list_of_descs ps Hps) as [ds [Eds Hds]].
  destruct (fold_pairs E ds empty_state Hds) as [sb [Hct Efold]].
  rewrite <- Eds in Efold. rewrite Efold.
  set (acts := flat_map (pair_actions E) ps).
  assert (Hset : forall a, In a acts <-> In a A).
  { intros a. unfold acts, A, line_acts. rewrite !in_flat_map. split.
    - intros [p [Hp Ha]]. apply (pairs_in ls Hok) in Hp. destruct Hp as [c [d [Hc [Hd ->]]]].
      exists c. split; [exact Hc|]. apply in_flat_map. exists d. split; [exact Hd|].
      rewrite <- pair_actions_of; [exact Ha|]. eapply chain_descs_good; eauto.
    - intros [c [Hc Ha]]. apply in_flat_map in Ha. destruct Ha as [d [Hd Ha]].
      exists (pair_of d). split; [apply (pairs_in ls Hok); eauto|].
      rewrite pair_actions_of; [exact Ha|]. eapply chain_descs_good; eauto. }
  assert (Hso : forall x, In x (act_oasserts acts) <-> In x (act_oasserts A))
    by (intros x; rewrite !in_act_oasserts; apply Hset).
  assert (Hst : forall n e s, In (n, e, s) (act_tasserts acts) <-> In (n, e, s) (act_tasserts A)).
  { intros n e s. rewrite !in_act_tasserts. split; intros [t [H R]]; exists t; (split; [apply Hset; exact H|exact R]). }
  assert (Hsk : forall n, In n (act_tasks acts) <-> In n (act_tasks A)).
  { intros n. rewrite !in_act_tasks. split; intros [t H]; exists t; apply Hset; exact H. }
  destruct (core_fold_ok acts [] []) as [tm' [om' [Ec [Htm [Hom [Hnd [Ho [Hh Ht]]]]]]]].
  - split; [constructor|intros n l []].
  - intros k v H. discriminate.
  - constructor.
  - apply forallb_forall. intros x Hx. rewrite forallb_forall in Hg. apply Hg. now apply Hso.
  - intros x y [Hx|Hx] [Hy|Hy]; try (destruct x as [[? ?] ?]; discriminate Hx);
      try (destruct y as [[? ?] ?]; discriminate Hy). apply Hoc; now apply Hso.
  - intros n e s s' He [[l [t [Hx _]]]|Hs] [[l' [t' [Hy _]]]|Hs']; try discriminate.
    apply (Htc n e s s' He); now apply Hst.
  - assert (Ec' : fold_res apply_core acts (core_of empty_state) = Ok (tm', om')) by exact Ec.
    rewrite Ec'. cbn [lift bind].
    rewrite terminals_ok_nil by (cbn; rewrite Hct; reflexivity).
    eexists. split; [reflexivity|]. cbn [with_core ps_trig ps_opt fst snd].
    split; [exact Htm|]. split; [exact Hom|]. split; [exact Hnd|]. split; [|split].
    + intros a. rewrite Ho, <- Hso. split; [intros [H|H]; [destruct a as [[? ?] ?]; discriminate H|exact H]|now right].
    + intros n e s He. rewrite (Hh n e s He), <- Hst. split; [intros [[l [t [H _]]]|H]; [discriminate|exact H]|now right].
    + intros n. rewrite Ht, <- Hsk. split; [intros [H|H]; [exfalso; apply H; reflexivity|exact H]|now right].
Qed.
