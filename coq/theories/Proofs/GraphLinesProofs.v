(* Proofs/GraphLinesProofs.v — C14: stages 4-6 of parse_graph on the printed
   lines of well-formed chains: which pairs and end-of-chain nodes they give,
   and that processing them amounts to applying the chains' assertions. *)
From Coq Require Import List Bool Arith String Lia.
From Cylc Require Import Base.Util Gen.FamTables Model.GraphBase Model.GraphExpr Model.FamTrig
  Model.GraphParse Model.GraphAst Proofs.GraphExprProofs Proofs.FamTrigProofs Proofs.GraphStoreProofs
  Proofs.GraphPairProofs.
Import ListNotations.

(* ================= a printed chain split on the arrows ================= *)
Lemma split_arrow_groups : forall (gs : list group) (pre : list tok),
  existsb is_arrow pre = false ->
  split_on is_arrow (pre ++ flat_map (fun g => TArrow :: print_g g) gs) = pre :: map print_g gs.
Proof.
  induction gs as [|g r IH]; intros pre Hpre; cbn [flat_map map].
  - rewrite app_nil_r. now apply split_on_none.
  - change ((TArrow :: print_g g) ++ ?x) with (TArrow :: (print_g g ++ x)).
    rewrite split_on_sep; [|reflexivity|exact Hpre]. f_equal.
    apply IH. now apply print_g_no.
Qed.

Lemma split_chain c : split_on is_arrow (print_chain c) = print_e (ch_head c) :: map print_g (ch_groups c).
Proof. unfold print_chain. apply split_arrow_groups. now apply print_e_no. Qed.

Lemma auto_rights_print_e e : auto_rights (print_e e) = map (fun n => [TN n]) (nodes_e e).
Proof.
  assert (G : forall l1 l2, existsb is_bang l1 = false ->
              auto_rights (l1 ++ l2) = auto_rights l1 ++ auto_rights l2).
  { induction l1 as [|t r IH]; intros l2 H; [reflexivity|].
    cbn in H. apply orb_false_iff in H. destruct H as [Ht Hr].
    destruct t; try discriminate; cbn [app auto_rights]; rewrite ?IH by exact Hr; reflexivity. }
  induction e; cbn [print_e nodes_e].
  - reflexivity.
  - change (TLp :: print_e e ++ [TRp]) with ([TLp] ++ print_e e ++ [TRp]).
    rewrite G by reflexivity. rewrite G by (now apply print_e_no). cbn. now rewrite app_nil_r.
  - rewrite G by (now apply print_e_no). change (TAnd :: print_e e2) with ([TAnd] ++ print_e e2).
    rewrite G by reflexivity. cbn. now rewrite IHe1, IHe2, map_app.
  - rewrite G by (now apply print_e_no). change (TOr :: print_e e2) with ([TOr] ++ print_e e2).
    rewrite G by reflexivity. cbn. now rewrite IHe1, IHe2, map_app.
Qed.

(* a group without suicide marks prints like its expression *)
Lemma print_group_expr (g : group) : g <> [] -> forallb (fun r => negb (r_s r)) g = true ->
  print_e (group_expr g) = print_g g.
Proof.
  unfold group_expr, print_g. induction g as [|r rest IH]; [congruence|]. intros _ H.
  cbn [forallb] in H. apply andb_true_iff in H. destruct H as [Hr Hrest].
  apply negb_true_iff in Hr.
  destruct rest as [|r2 rest'].
  - cbn. unfold print_r. now rewrite Hr.
  - cbn [map] in *. rewrite big_op_cons2, join_toks_cons2. cbn [print_e].
    rewrite IH by (auto; discriminate). unfold print_r at 2. now rewrite Hr.
Qed.

(* ================= the pairs of a chain ================= *)
Inductive pdesc := PAuto (n : node) | PMain (L : lexpr) (G : group).

Definition pair_of (d : pdesc) : pair :=
  match d with
  | PAuto n => (None, [TN n])
  | PMain L G => (Some (print_e L), print_g G)
  end.

Fixpoint chain_mains (L : lexpr) (gs : list group) : list pdesc :=
  match gs with
  | [] => []
  | g :: r => PMain L g :: chain_mains (group_expr g) r
  end.

Definition chain_descs (c : chain) : list pdesc :=
  map PAuto (nodes_e (ch_head c)) ++ chain_mains (ch_head c) (ch_groups c).

Lemma consecutive_mains : forall (gs : list group) L,
  groups_ok gs = true ->
  consecutive (print_e L :: map print_g gs) = map pair_of (chain_mains L gs).
Proof.
  induction gs as [|g r IH]; intros L Hok; [reflexivity|].
  cbn [map consecutive chain_mains pair_of]. f_equal.
  cbn [groups_ok] in Hok. apply andb_true_iff in Hok. destruct Hok as [Hok Hr].
  apply andb_true_iff in Hok. destruct Hok as [Hok Hmid].
  apply andb_true_iff in Hok. destruct Hok as [Hne Hg].
  destruct r as [|g2 r2]; [reflexivity|].
  cbn [is_nil orb] in Hmid.
  rewrite <- (print_group_expr g).
  - apply (IH (group_expr g) Hr).
  - destruct g; [discriminate|discriminate].
  - rewrite forallb_forall in *. intros x Hx. specialize (Hmid x Hx).
    apply andb_true_iff in Hmid. tauto.
Qed.

Lemma chain_pairs_descs c : groups_ok (ch_groups c) = true ->
  chain_pairs (split_on is_arrow (print_chain c)) = map pair_of (chain_descs c).
Proof.
  intros Hok. rewrite split_chain. unfold chain_pairs, chain_descs.
  rewrite auto_rights_print_e, map_app, !map_map. f_equal.
  now apply consecutive_mains.
Qed.

(* end-of-chain pieces *)
Lemma last_map_print_g : forall (gs : list group) d,
  last (d :: map print_g gs) [] = match rev gs with g :: _ => print_g g | [] => d end.
Proof.
  induction gs as [|g r IH]; intros d; [reflexivity|].
  cbn [map]. change (last (d :: print_g g :: map print_g r) []) with (last (print_g g :: map print_g r) []).
  rewrite IH. cbn [rev]. destruct (rev r) as [|x xs] eqn:E; reflexivity.
Qed.

Lemma rev_groups_ok gs g rest : groups_ok gs = true -> rev gs = g :: rest -> g <> [].
Proof.
  intros Hok Hrev. assert (Hin : In g gs) by (apply in_rev; rewrite Hrev; now left).
  clear Hrev. induction gs as [|x r IH]; [destruct Hin|].
  cbn [groups_ok] in Hok. apply andb_true_iff in Hok. destruct Hok as [Hok Hr].
  apply andb_true_iff in Hok. destruct Hok as [Hok _]. apply andb_true_iff in Hok. destruct Hok as [Hne _].
  destruct Hin as [->|Hin]; [destruct g; [discriminate|discriminate]|auto].
Qed.

Lemma chain_eoc_final c : groups_ok (ch_groups c) = true ->
  chain_eoc (split_on is_arrow (print_chain c)) = final_pieces c.
Proof.
  intros Hok. rewrite split_chain. unfold chain_eoc, final_pieces. rewrite last_map_print_g.
  destruct (rev (ch_groups c)) as [|g rest] eqn:E; [reflexivity|].
  apply join_and_split. eapply rev_groups_ok; eauto.
Qed.
