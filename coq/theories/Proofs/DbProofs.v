(* Proofs/DbProofs.v — lemmas about Model/Db.v (C21) *)
From Coq Require Import List Bool Arith ZArith Lia.
From Cylc Require Import Base.Util Model.Db.
Import ListNotations.

(* ================= specification vocabulary ================= *)
Definition batch := list op.
Definition qempty (sch : schema) : queues := map (fun _ => tq_empty) sch.

(* the effect of one batch executed on its own (what the private DAO does) *)
Definition apply_batch (sch : schema) (d : db) (b : batch) : db :=
  run sch d (flat (stmts (enq_all sch (qempty sch) b))).
(* batches executed one after the other, each in its own transaction *)
Definition apply_seq (sch : schema) (d : db) (bs : list batch) : db :=
  fold_left (apply_batch sch) bs d.
(* "the merged batch has the same effect as the batches one after the other" *)
Definition commutes (sch : schema) (d : db) (bs : list batch) : Prop :=
  apply_batch sch d (concat bs) = apply_seq sch d bs.

Definition synced (sch : schema) (m : mgr) : Prop :=
  d_db (m_pri m) = d_db (m_pub m) /\ d_q (m_pri m) = qempty sch /\ d_q (m_pub m) = qempty sch /\
  d_tries (m_pub m) = 0.

(* a history of the scheduler's database calls in which the private write
   succeeds: process_queued_ops with a batch and a public fault, or the health
   check recover_pub_from_pri.  [run_hist] also tracks the batches whose public
   write is still outstanding. *)
Inductive hev := HProc (b : batch) (f : fault) | HHealth.
Definition hist := list hev.
Definition health_pend (max : nat) (m : mgr) (pend : list batch) : list batch :=
  if Nat.leb max (d_tries (m_pub m)) then [] else pend.
Fixpoint run_hist (sch : schema) (max : nat) (m : mgr) (pend : list batch) (h : hist)
  : mgr * list batch :=
  match h with
  | [] => (m, pend)
  | HProc b f :: r =>
      let '(m', o) := process sch b None f m in
      run_hist sch max m' (match o with ORetry => pend ++ [b] | _ => [] end) r
  | HHealth :: r => run_hist sch max (health max m) (health_pend max m pend) r
  end.

(* every public write of the history that went through had a commuting merged batch *)
Fixpoint commuting_hist (sch : schema) (max : nat) (m : mgr) (pend : list batch) (h : hist) : Prop :=
  match h with
  | [] => True
  | HProc b f :: r =>
      let '(m', o) := process sch b None f m in
      match o with
      | ORetry => commuting_hist sch max m' (pend ++ [b]) r
      | _ => commutes sch (d_db (m_pub m)) (pend ++ [b]) /\ commuting_hist sch max m' [] r
      end
  | HHealth :: r => commuting_hist sch max (health max m) (health_pend max m pend) r
  end.

(* ================= transactions ================= *)
Lemma run_app sch d p1 p2 : run sch (run sch d p1) p2 = run sch d (p1 ++ p2).
Proof. unfold run. now rewrite fold_left_app. Qed.

Lemma exec_loop_ok sch ss : forall w k j w',
  exec_loop sch w ss k j = (w', false) -> w' = run sch w (flat ss).
Proof.
  induction ss as [|s r IH]; intros w k j w'; cbn [exec_loop flat flat_map].
  - intros [= <- _]. reflexivity.
  - destruct k as [|k']; [discriminate|]. intros H. apply IH in H. subst w'.
    fold (flat r). now rewrite run_app.
Qed.

Lemma exec_loop_fires sch ss : forall w k j,
  k <= length ss -> snd (exec_loop sch w ss k j) = true.
Proof.
  induction ss as [|s r IH]; intros w k j Hk; cbn [exec_loop].
  - cbn in Hk. assert (k = 0) by lia. subst. reflexivity.
  - destruct k as [|k']; [reflexivity|]. apply IH. cbn in Hk. lia.
Qed.

Lemma exec_loop_misses sch ss : forall w k j,
  length ss < k -> exec_loop sch w ss k j = (run sch w (flat ss), false).
Proof.
  induction ss as [|s r IH]; intros w k j Hk; cbn [exec_loop flat flat_map].
  - destruct k; [cbn in Hk; lia|reflexivity].
  - destruct k as [|k']; [lia|]. rewrite IH by (cbn in Hk; lia).
    fold (flat r). now rewrite run_app.
Qed.

Lemma exec_txn_ok sch d ss f w : exec_txn sch d ss f = (w, false) -> w = run sch d (flat ss).
Proof.
  destruct f as [[k j]|]; cbn.
  - apply exec_loop_ok.
  - now intros [= <-].
Qed.

(* --- atomicity: a write that does not complete changes neither the database nor the queues --- *)
Lemma exec_atomic sch pub f d d' o :
  exec_queued sch pub f d = (d', o) -> o <> OOk ->
  d_db d' = d_db d /\ d_q d' = d_q d.
Proof.
  unfold exec_queued. destruct (stmts (d_q d)) as [|s ss] eqn:Es.
  - intros [= <- <-]. auto.
  - destruct (exec_txn sch (d_db d) (s :: ss) f) as [w failed].
    destruct failed.
    + destruct pub; intros [= <- <-]; auto.
    + intros [= <- <-] H. congruence.
Qed.

(* a fault at any statement index (or at the commit), after any number of rows *)
Lemma exec_fault_outcome sch pub k j d :
  stmts (d_q d) <> [] -> k <= length (stmts (d_q d)) ->
  exec_queued sch pub (Some (k, j)) d =
    if pub then ({| d_db := d_db d; d_q := d_q d; d_tries := S (d_tries d) |}, ORetry)
    else (d, ORaised).
Proof.
  intros Hne Hk. unfold exec_queued. destruct (stmts (d_q d)) as [|s ss] eqn:Es; [congruence|].
  cbn [exec_txn]. pose proof (exec_loop_fires sch (s :: ss) (d_db d) k j Hk) as Hf.
  destruct (exec_loop sch (d_db d) (s :: ss) k j) as [w failed]. cbn in Hf. subst failed.
  reflexivity.
Qed.

Lemma exec_ok_effect sch pub f d d' :
  exec_queued sch pub f d = (d', OOk) ->
  d_db d' = run sch (d_db d) (flat (stmts (d_q d))) /\
  d_q d' = clear_queues (d_q d) /\ d_tries d' = 0.
Proof.
  unfold exec_queued. destruct (stmts (d_q d)) as [|s ss] eqn:Es; [discriminate|].
  destruct (exec_txn sch (d_db d) (s :: ss) f) as [w failed] eqn:Et.
  destruct failed; [destruct pub; discriminate|].
  intros [= <-]. cbn. apply exec_txn_ok in Et. auto.
Qed.

Lemma exec_noop_effect sch pub f d d' :
  exec_queued sch pub f d = (d', ONoop) -> d' = d /\ stmts (d_q d) = [].
Proof.
  unfold exec_queued. destruct (stmts (d_q d)) as [|s ss] eqn:Es.
  - intros [= <-]. auto.
  - destruct (exec_txn sch (d_db d) (s :: ss) f) as [w failed].
    destruct failed; [destruct pub|]; discriminate.
Qed.

Lemma exec_retry_effect sch pub f d d' :
  exec_queued sch pub f d = (d', ORetry) ->
  d_db d' = d_db d /\ d_q d' = d_q d /\ d_tries d' = S (d_tries d) /\ stmts (d_q d) <> [].
Proof.
  unfold exec_queued. destruct (stmts (d_q d)) as [|s ss] eqn:Es; [discriminate|].
  destruct (exec_txn sch (d_db d) (s :: ss) f) as [w failed].
  destruct failed; [destruct pub|]; try discriminate.
  intros [= <-]. cbn. repeat split; auto. discriminate.
Qed.

Lemma exec_private_outcomes sch f d d' o :
  exec_queued sch false f d = (d', o) -> o <> ORetry.
Proof.
  unfold exec_queued. destruct (stmts (d_q d)); [intros [= _ <-]; discriminate|].
  destruct (exec_txn sch (d_db d) (s :: l) f) as [w failed].
  destruct failed; intros [= _ <-]; discriminate.
Qed.

Lemma exec_public_outcomes sch f d d' o :
  exec_queued sch true f d = (d', o) -> o <> ORaised.
Proof.
  unfold exec_queued. destruct (stmts (d_q d)); [intros [= _ <-]; discriminate|].
  destruct (exec_txn sch (d_db d) (s :: l) f) as [w failed].
  destruct failed; intros [= _ <-]; discriminate.
Qed.

Lemma exec_nofault_outcome sch pub d d' o :
  exec_queued sch pub None d = (d', o) -> o = OOk \/ o = ONoop.
Proof.
  unfold exec_queued. destruct (stmts (d_q d)); [intros [= _ <-]; auto|].
  cbn. intros [= _ <-]. auto.
Qed.

(* ================= queues ================= *)
Lemma upd_nth_length {A} n (f : A -> A) l : length (upd_nth n f l) = length l.
Proof. revert n; induction l as [|x r IH]; intros [|n]; cbn; auto. Qed.

Lemma enq_length sch qs o : length (enq sch qs o) = length qs.
Proof. apply upd_nth_length. Qed.

Lemma enq_all_length sch ops : forall qs, length (enq_all sch qs ops) = length qs.
Proof.
  induction ops as [|o r IH]; intros qs; cbn; [reflexivity|].
  unfold enq_all in IH. rewrite IH. apply enq_length.
Qed.

Lemma enq_all_app sch qs a b : enq_all sch qs (a ++ b) = enq_all sch (enq_all sch qs a) b.
Proof. unfold enq_all. apply fold_left_app. Qed.

Lemma qempty_length sch : length (qempty sch) = length sch.
Proof. apply map_length. Qed.

Lemma clear_is_qempty sch qs : length qs = length sch -> clear_queues qs = qempty sch.
Proof.
  unfold clear_queues, qempty. revert sch; induction qs as [|q r IH]; intros [|s sch]; cbn; try discriminate; auto.
  intros [= H]. f_equal. auto.
Qed.

Lemma tq_stmts_nil t q : tq_stmts t q = [] -> q = tq_empty.
Proof.
  destruct q as [d i u]. unfold tq_stmts; cbn.
  destruct d; [|discriminate]. destruct i; [|discriminate]. destruct u; [reflexivity|discriminate].
Qed.

Lemma stmts_from_nil qs : forall t, stmts_from t qs = [] -> qs = clear_queues qs.
Proof.
  induction qs as [|q r IH]; intros t; cbn; [reflexivity|].
  intros H. apply app_eq_nil in H. destruct H as [H1 H2].
  apply tq_stmts_nil in H1. subst q. f_equal. eauto.
Qed.

Lemma stmts_nil_qempty sch qs : length qs = length sch -> stmts qs = [] -> qs = qempty sch.
Proof.
  intros Hl H. apply stmts_from_nil in H. rewrite H. now apply clear_is_qempty.
Qed.

(* ================= one process_queued_ops call ================= *)
(* the private side, no fault: the batch is applied, the queue is empty again *)
Lemma exec_private_batch sch d b d' o :
  d_q d = qempty sch ->
  exec_queued sch false None (with_q d (enq_all sch (d_q d) b)) = (d', o) ->
  d_db d' = apply_batch sch (d_db d) b /\ d_q d' = qempty sch /\ (o = OOk \/ o = ONoop).
Proof.
  intros Hq H. pose proof (exec_nofault_outcome _ _ _ _ _ H) as [-> | ->].
  - apply exec_ok_effect in H. cbn [with_q d_db d_q d_tries] in H. destruct H as (H1 & H2 & _).
    rewrite Hq in *. repeat split; auto.
    rewrite H2. apply clear_is_qempty. rewrite enq_all_length. apply qempty_length.
  - apply exec_noop_effect in H. cbn [with_q d_db d_q d_tries] in H. destruct H as [-> H2].
    rewrite Hq in *. cbn [with_q d_db d_q d_tries]. repeat split; auto.
    + unfold apply_batch. rewrite H2. reflexivity.
    + apply stmts_nil_qempty; [|exact H2]. rewrite enq_all_length. apply qempty_length.
Qed.

Lemma apply_seq_app sch d a b : apply_seq sch d (a ++ b) = apply_seq sch (apply_seq sch d a) b.
Proof. unfold apply_seq. apply fold_left_app. Qed.

(* the queue invariant of every history: the private queue is empty between
   calls and the public DAO's queue is exactly the outstanding batches merged *)
Definition qinv (sch : schema) (m : mgr) (pend : list batch) : Prop :=
  d_q (m_pri m) = qempty sch /\
  d_q (m_pub m) = enq_all sch (qempty sch) (concat pend).

Lemma synced_qinv sch m : synced sch m -> qinv sch m [].
Proof. intros (H1 & H2 & H3 & H4). split; auto. Qed.

Lemma process_step sch m pend b f m' o :
  qinv sch m pend -> process sch b None f m = (m', o) ->
  o <> ORaised /\
  d_db (m_pri m') = apply_batch sch (d_db (m_pri m)) b /\
  match o with
  | ORetry =>
      qinv sch m' (pend ++ [b]) /\ d_db (m_pub m') = d_db (m_pub m) /\
      d_tries (m_pub m') = S (d_tries (m_pub m))
  | _ =>
      qinv sch m' [] /\
      d_db (m_pub m') = apply_batch sch (d_db (m_pub m)) (concat (pend ++ [b]))
  end.
Proof.
  intros (I1 & I2). unfold process.
  destruct (exec_queued sch false None (with_q (m_pri m) (enq_all sch (d_q (m_pri m)) b)))
    as [pri2 o1] eqn:E1.
  destruct (exec_private_batch _ _ _ _ _ I1 E1) as (P1 & P2 & P3).
  assert (Hq : enq_all sch (d_q (m_pub m)) b = enq_all sch (qempty sch) (concat (pend ++ [b]))).
  { rewrite I2, concat_app, enq_all_app. cbn. now rewrite app_nil_r. }
  destruct (exec_queued sch true f (with_q (m_pub m) (enq_all sch (d_q (m_pub m)) b)))
    as [pub2 o2] eqn:E2.
  intros Hm.
  assert (Hm' : (m', o) = ({| m_pri := pri2; m_pub := pub2 |}, o2)).
  { destruct P3 as [-> | ->]; now rewrite <- Hm. }
  clear Hm. injection Hm' as -> ->. cbn [m_pri m_pub].
  split; [eapply exec_public_outcomes; eauto|]. split; [exact P1|].
  assert (Hlen : length (enq_all sch (d_q (m_pub m)) b) = length sch).
  { rewrite enq_all_length, I2, enq_all_length. apply qempty_length. }
  destruct o2.
  - apply exec_ok_effect in E2. cbn [with_q d_db d_q d_tries] in E2. destruct E2 as (Q1 & Q2 & _).
    split; [split; cbn [with_q d_db d_q d_tries m_pri m_pub]|]; auto.
    + rewrite Q2. now apply clear_is_qempty.
    + rewrite Q1, Hq. reflexivity.
  - apply exec_noop_effect in E2. cbn [with_q d_db d_q d_tries] in E2. destruct E2 as [-> Q2]. cbn [with_q d_db d_q d_tries].
    split; [split; cbn [with_q d_db d_q d_tries m_pri m_pub]|]; auto.
    + now apply stmts_nil_qempty.
    + unfold apply_batch. rewrite <- Hq, Q2. reflexivity.
  - exfalso. eapply exec_public_outcomes; eauto.
  - apply exec_retry_effect in E2. cbn [with_q d_db d_q d_tries] in E2. destruct E2 as (Q1 & Q2 & Q3 & _).
    split; [split; cbn [with_q d_db d_q d_tries m_pri m_pub]|]; auto.
    rewrite Q2. exact Hq.
Qed.

(* ---------- recovery ---------- *)
Lemma health_below max m : d_tries (m_pub m) < max -> health max m = m.
Proof. intros H. unfold health. destruct (Nat.leb_spec max (d_tries (m_pub m))); [lia|reflexivity]. Qed.

Lemma health_recovers max m : max <= d_tries (m_pub m) ->
  d_db (m_pub (health max m)) = d_db (m_pri m) /\
  m_pri (health max m) = m_pri m /\
  d_tries (m_pub (health max m)) = 0 /\
  d_q (m_pub (health max m)) = clear_queues (d_q (m_pub m)).
Proof. intros H. unfold health. destruct (Nat.leb_spec max (d_tries (m_pub m))); [cbn; auto|lia]. Qed.

(* a recovery re-establishes the synchronised state *)
Lemma health_synced sch max m pend :
  qinv sch m pend -> max <= d_tries (m_pub m) -> synced sch (health max m).
Proof.
  intros (I1 & I2) H. unfold health. destruct (Nat.leb_spec max (d_tries (m_pub m))); [|lia].
  repeat split; cbn; auto. apply clear_is_qempty. rewrite I2, enq_all_length. apply qempty_length.
Qed.

Lemma health_qinv sch max m pend :
  qinv sch m pend -> qinv sch (health max m) (health_pend max m pend).
Proof.
  intros Hq. unfold health_pend. destruct (Nat.leb_spec max (d_tries (m_pub m))) as [H|H].
  - apply synced_qinv. eapply health_synced; eauto.
  - rewrite health_below by lia. exact Hq.
Qed.

(* ---------- retry: the queue invariant holds along every history ---------- *)
Lemma hist_qinv sch max : forall h m pend m1 pend1,
  qinv sch m pend -> run_hist sch max m pend h = (m1, pend1) -> qinv sch m1 pend1.
Proof.
  induction h as [|[b f|] r IH]; intros m pend m1 pend1 Hinv; cbn [run_hist].
  - intros [= <- <-]. exact Hinv.
  - destruct (process sch b None f m) as [m' o] eqn:Ep.
    destruct (process_step _ _ _ _ _ _ _ Hinv Ep) as (_ & _ & Hs).
    destruct o; try (destruct Hs as [Hq _]; eapply IH; eauto).
  - apply IH. now apply health_qinv.
Qed.

(* ---------- convergence along commuting histories ---------- *)
Lemma hist_converges sch max : forall h m pend m1 pend1,
  qinv sch m pend ->
  d_db (m_pri m) = apply_seq sch (d_db (m_pub m)) pend ->
  commuting_hist sch max m pend h ->
  run_hist sch max m pend h = (m1, pend1) ->
  d_db (m_pri m1) = apply_seq sch (d_db (m_pub m1)) pend1.
Proof.
  induction h as [|[b f|] r IH]; intros m pend m1 pend1 Hinv Hdb; cbn [run_hist commuting_hist].
  - intros _ [= <- <-]. exact Hdb.
  - destruct (process sch b None f m) as [m' o] eqn:Ep.
    destruct (process_step _ _ _ _ _ _ _ Hinv Ep) as (Hr & Hpri & Hs).
    assert (Hseq : apply_batch sch (d_db (m_pri m)) b = apply_seq sch (d_db (m_pub m)) (pend ++ [b])).
    { rewrite apply_seq_app, <- Hdb. reflexivity. }
    destruct o.
    + destruct Hs as (Hq & Hpub). intros [Hc Hrest]. eapply IH; eauto.
      cbn. rewrite Hpri, Hpub, Hseq. symmetry. exact Hc.
    + destruct Hs as (Hq & Hpub). intros [Hc Hrest]. eapply IH; eauto.
      cbn. rewrite Hpri, Hpub, Hseq. symmetry. exact Hc.
    + congruence.
    + destruct Hs as (Hq & Hpub & _). intros Hrest. eapply IH; eauto.
      rewrite Hpri, Hpub. exact Hseq.
  - apply IH; [now apply health_qinv|].
    unfold health_pend. destruct (Nat.leb_spec max (d_tries (m_pub m))) as [H|H].
    + destruct (health_recovers max m H) as (A & B & _). rewrite A, B. reflexivity.
    + rewrite health_below by lia. exact Hdb.
Qed.

(* ================= per-table decomposition ================= *)
Definition proj (t : nat) (ps : list prim) : list prim := filter (fun p => Nat.eqb (fst p) t) ps.
Definition run_tbl (ts : tschema) (tb : table) (ps : list prim) : table :=
  fold_left (fun tb p => apply_tbl ts tb (snd p)) ps tb.

Lemma nth_error_upd_nth {A} (f : A -> A) : forall l n t,
  nth_error (upd_nth n f l) t =
  if Nat.eqb n t then option_map f (nth_error l t) else nth_error l t.
Proof.
  induction l as [|x r IH]; intros [|n] [|t]; cbn; auto.
  - destruct (Nat.eqb n t); reflexivity.
Qed.

Lemma run_nth_error sch : forall ps d t,
  nth_error (run sch d ps) t =
  option_map (fun tb => run_tbl (tschema_of sch t) tb (proj t ps)) (nth_error d t).
Proof.
  induction ps as [|p r IH]; intros d t; cbn [run fold_left proj filter].
  - destruct (nth_error d t); reflexivity.
  - fold (run sch (apply_prim sch d p) r). rewrite IH. unfold apply_prim.
    rewrite nth_error_upd_nth. fold (proj t r).
    destruct (Nat.eqb_spec (fst p) t) as [->|Hne].
    + destruct (nth_error d t); reflexivity.
    + reflexivity.
Qed.

Lemma nth_error_ext' {A} : forall (l1 l2 : list A),
  (forall n, nth_error l1 n = nth_error l2 n) -> l1 = l2.
Proof.
  induction l1 as [|x r IH]; intros [|y r2] H.
  - reflexivity.
  - specialize (H 0). discriminate.
  - specialize (H 0). discriminate.
  - pose proof (H 0) as H0. cbn in H0. injection H0 as ->. f_equal.
    apply IH. intros n. exact (H (S n)).
Qed.

Lemma run_ext sch d ps1 ps2 :
  (forall t, t < length d -> proj t ps1 = proj t ps2) -> run sch d ps1 = run sch d ps2.
Proof.
  intros H. apply nth_error_ext'. intros t. rewrite !run_nth_error.
  destruct (nth_error d t) eqn:E; [|reflexivity].
  rewrite H; [reflexivity|]. apply nth_error_Some. congruence.
Qed.

Lemma proj_app t a b : proj t (a ++ b) = proj t a ++ proj t b.
Proof. apply filter_app. Qed.

Lemma proj_concat t l : proj t (concat l) = concat (map (proj t) l).
Proof. induction l as [|x r IH]; cbn [concat map]; [reflexivity|]. now rewrite proj_app, IH. Qed.

Definition batch_prims (sch : schema) (b : batch) : list prim :=
  flat (stmts (enq_all sch (qempty sch) b)).

Lemma apply_seq_run sch : forall bs d,
  apply_seq sch d bs = run sch d (concat (map (batch_prims sch) bs)).
Proof.
  induction bs as [|b r IH]; intros d; cbn; [reflexivity|].
  unfold apply_seq in IH. rewrite IH. unfold apply_batch. rewrite run_app. reflexivity.
Qed.

(* the merged batch issues, for every table, the same single-row statements in
   the same order as the batches executed one after the other *)
Definition order_preserved (sch : schema) (n : nat) (bs : list batch) : Prop :=
  forall t, t < n ->
    proj t (batch_prims sch (concat bs)) = concat (map (fun b => proj t (batch_prims sch b)) bs).

Lemma order_preserved_commutes sch d bs :
  order_preserved sch (length d) bs -> commutes sch d bs.
Proof.
  intros H. unfold commutes. rewrite apply_seq_run. unfold apply_batch. fold (batch_prims sch (concat bs)).
  apply run_ext. intros t Ht. rewrite (H t Ht), proj_concat, map_map. reflexivity.
Qed.

(* ================= n_tries counts the consecutive failed public writes ================= *)
Lemma aq_add_nonnil {K} (eqb : K -> K -> bool) k a q : aq_add eqb k a q <> [].
Proof. destruct q as [|[k' l] r]; cbn; [discriminate|]. destruct (eqb k k'); discriminate. Qed.

Lemma enq_tbl_stmts_nonnil i n o q : tq_stmts i (enq_tbl n o q) <> [].
Proof.
  unfold tq_stmts. intros H. apply app_eq_nil in H. destruct H as [H1 H2].
  apply app_eq_nil in H2. destruct H2 as [H2 H3].
  destruct o; cbn [enq_tbl q_del q_ins q_upd] in *.
  - apply map_eq_nil in H1. eapply aq_add_nonnil; eauto.
  - destruct (q_ins q); cbn in H2; discriminate.
  - destruct (q_ins q); cbn in H2; discriminate.
  - apply map_eq_nil in H3. eapply aq_add_nonnil; eauto.
Qed.

Lemma stmts_from_upd_nil (f : tqueue -> tqueue) :
  (forall i q, tq_stmts i (f q) <> []) ->
  forall qs t s, stmts_from s (upd_nth t f qs) = [] -> stmts_from s qs = [].
Proof.
  intros Hf. induction qs as [|q r IH]; intros [|t] s; cbn [upd_nth stmts_from]; auto.
  - intros H. apply app_eq_nil in H. destruct H as [H _]. exfalso. eapply Hf; eauto.
  - intros H. apply app_eq_nil in H. destruct H as [H1 H2]. rewrite H1. cbn. eauto.
Qed.

Lemma enq_stmts_nil sch qs o : stmts (enq sch qs o) = [] -> stmts qs = [].
Proof.
  unfold stmts, enq. apply stmts_from_upd_nil. intros i q. apply enq_tbl_stmts_nonnil.
Qed.

Lemma enq_all_stmts_nil sch ops : forall qs, stmts (enq_all sch qs ops) = [] -> stmts qs = [].
Proof.
  induction ops as [|o r IH]; intros qs; cbn; [auto|].
  intros H. apply IH in H. now apply enq_stmts_nil in H.
Qed.

Definition tinv (m : mgr) (pend : list batch) : Prop :=
  d_tries (m_pub m) = length pend /\ (pend <> [] -> stmts (d_q (m_pub m)) <> []).

Lemma process_tries sch m pend b f m' o :
  qinv sch m pend -> tinv m pend -> process sch b None f m = (m', o) ->
  tinv m' (match o with ORetry => pend ++ [b] | _ => [] end).
Proof.
  intros (I1 & I2) (T1 & T2). unfold process.
  destruct (exec_queued sch false None (with_q (m_pri m) (enq_all sch (d_q (m_pri m)) b)))
    as [pri2 o1] eqn:E1.
  destruct (exec_private_batch _ _ _ _ _ I1 E1) as (_ & _ & P3).
  destruct (exec_queued sch true f (with_q (m_pub m) (enq_all sch (d_q (m_pub m)) b)))
    as [pub2 o2] eqn:E2.
  intros Hm.
  assert (Hm' : (m', o) = ({| m_pri := pri2; m_pub := pub2 |}, o2)).
  { destruct P3 as [-> | ->]; now rewrite <- Hm. }
  clear Hm. injection Hm' as -> ->. cbn [m_pri m_pub]. unfold tinv. cbn [m_pub].
  destruct o2.
  - apply exec_ok_effect in E2. destruct E2 as (_ & _ & Q3). split; [exact Q3|congruence].
  - apply exec_noop_effect in E2. cbn [with_q d_db d_q d_tries] in E2. destruct E2 as [-> Q2].
    cbn [with_q d_tries]. apply enq_all_stmts_nil in Q2.
    split; [|congruence]. rewrite T1. destruct pend; [reflexivity|]. exfalso. apply T2; [discriminate|exact Q2].
  - exfalso. eapply exec_public_outcomes; eauto.
  - apply exec_retry_effect in E2. cbn [with_q d_db d_q d_tries] in E2.
    destruct E2 as (_ & Q2 & Q3 & Q4). split.
    + rewrite Q3, T1, app_length. cbn. lia.
    + intros _. rewrite Q2. exact Q4.
Qed.

Lemma health_tinv max m pend : tinv m pend -> tinv (health max m) (health_pend max m pend).
Proof.
  intros Ht. unfold health_pend. destruct (Nat.leb_spec max (d_tries (m_pub m))) as [H|H].
  - destruct (health_recovers max m H) as (_ & _ & C & _). split; [exact C|congruence].
  - rewrite health_below by lia. exact Ht.
Qed.

Lemma hist_tries sch max : forall h m pend m1 pend1,
  qinv sch m pend -> tinv m pend -> run_hist sch max m pend h = (m1, pend1) -> tinv m1 pend1.
Proof.
  induction h as [|[b f|] r IH]; intros m pend m1 pend1 Hq Ht; cbn [run_hist].
  - intros [= <- <-]. exact Ht.
  - destruct (process sch b None f m) as [m' o] eqn:Ep.
    pose proof (process_tries _ _ _ _ _ _ _ Hq Ht Ep) as Ht'.
    destruct (process_step _ _ _ _ _ _ _ Hq Ep) as (_ & _ & Hs).
    destruct o; try (destruct Hs as [Hq' _]; eapply IH; eauto).
  - apply IH; [now apply health_qinv|now apply health_tinv].
Qed.

(* ================= statements at the level of process_queued_ops ================= *)
Lemma process_private_fault sch ops k j fpub m m' o :
  stmts (enq_all sch (d_q (m_pri m)) ops) <> [] ->
  k <= length (stmts (enq_all sch (d_q (m_pri m)) ops)) ->
  process sch ops (Some (k, j)) fpub m = (m', o) ->
  o = ORaised /\ d_db (m_pri m') = d_db (m_pri m) /\ d_db (m_pub m') = d_db (m_pub m) /\
  d_q (m_pri m') = enq_all sch (d_q (m_pri m)) ops.
Proof.
  intros Hne Hk. unfold process.
  rewrite (exec_fault_outcome sch false k j (with_q (m_pri m) (enq_all sch (d_q (m_pri m)) ops)) Hne Hk).
  intros [= <- <-]. cbn. auto.
Qed.

Lemma synced_tinv sch m : synced sch m -> tinv m [].
Proof. intros (_ & _ & _ & H). split; [exact H|congruence]. Qed.

Lemma hist_retry sch max m0 h m pend :
  synced sch m0 -> run_hist sch max m0 [] h = (m, pend) ->
  d_q (m_pub m) = enq_all sch (qempty sch) (concat pend) /\
  d_tries (m_pub m) = length pend /\
  forall b f m' o, process sch b None f m = (m', o) ->
    match o with
    | ORetry => d_db (m_pub m') = d_db (m_pub m) /\
                d_q (m_pub m') = enq_all sch (qempty sch) (concat (pend ++ [b])) /\
                d_tries (m_pub m') = S (length pend)
    | ORaised => False
    | _ => d_db (m_pub m') = apply_batch sch (d_db (m_pub m)) (concat (pend ++ [b])) /\
           d_q (m_pub m') = qempty sch /\ d_tries (m_pub m') = 0
    end.
Proof.
  intros Hs Hr.
  pose proof (hist_qinv _ _ _ _ _ _ _ (synced_qinv _ _ Hs) Hr) as Hq.
  pose proof (hist_tries _ _ _ _ _ _ _ (synced_qinv _ _ Hs) (synced_tinv _ _ Hs) Hr) as Ht.
  split; [apply Hq|]. split; [apply Ht|].
  intros b f m' o Hp.
  destruct (process_step _ _ _ _ _ _ _ Hq Hp) as (Hnr & _ & Hstep).
  pose proof (process_tries _ _ _ _ _ _ _ Hq Ht Hp) as [Ht' _].
  destruct o.
  - destruct Hstep as ((_ & Q) & D). auto.
  - destruct Hstep as ((_ & Q) & D). auto.
  - congruence.
  - destruct Hstep as ((_ & Q) & D & T). repeat split; auto. rewrite T. f_equal. apply Ht.
Qed.

Lemma hist_converges_synced sch max m0 h m pend :
  synced sch m0 -> commuting_hist sch max m0 [] h -> run_hist sch max m0 [] h = (m, pend) ->
  d_db (m_pri m) = apply_seq sch (d_db (m_pub m)) pend.
Proof.
  intros Hs Hc Hr. eapply hist_converges; eauto using synced_qinv.
  destruct Hs as (H & _). exact H.
Qed.

(* after max consecutive failed public writes the health check re-synchronises *)
Lemma hist_recover sch max m0 h m pend :
  synced sch m0 -> run_hist sch max m0 [] h = (m, pend) -> max <= length pend ->
  synced sch (health max m) /\ m_pri (health max m) = m_pri m.
Proof.
  intros Hs Hr Hl.
  pose proof (hist_qinv _ _ _ _ _ _ _ (synced_qinv _ _ Hs) Hr) as Hq.
  pose proof (hist_tries _ _ _ _ _ _ _ (synced_qinv _ _ Hs) (synced_tinv _ _ Hs) Hr) as [Ht _].
  assert (Hm : max <= d_tries (m_pub m)) by lia.
  split; [eapply health_synced; eauto|]. now destruct (health_recovers max m Hm) as (_ & B & _).
Qed.

Lemma commutes_single sch d b : commutes sch d [b].
Proof. unfold commutes. cbn. now rewrite app_nil_r. Qed.

(* the first write after a recovery: public = private again *)
Lemma recovered_write sch m b m' o :
  synced sch m -> process sch b None None m = (m', o) -> d_db (m_pub m') = d_db (m_pri m').
Proof.
  intros Hs Hp.
  assert (Hc : commuting_hist sch 0 m [] [HProc b None]).
  { cbn [commuting_hist]. rewrite Hp. unfold process in Hp.
    destruct (exec_queued sch false None _) as [p2 o1] eqn:E1 in Hp.
    assert (o <> ORetry).
    { destruct o1; try (injection Hp as _ <-; discriminate);
        destruct (exec_queued sch true None _) as [q2 o2] eqn:E2 in Hp; injection Hp as _ <-;
        destruct (exec_nofault_outcome _ _ _ _ _ E2) as [-> | ->]; discriminate. }
    destruct o; try congruence; (split; [apply commutes_single|exact I]). }
  assert (Hr : run_hist sch 0 m [] [HProc b None] = (m', match o with ORetry => [[] ++ b] | _ => [] end)).
  { cbn [run_hist]. rewrite Hp. destruct o; reflexivity. }
  pose proof (hist_converges_synced sch 0 m _ _ _ Hs Hc Hr) as H.
  destruct o; cbn in H; try (symmetry; exact H).
  exfalso. clear H Hr. cbn [commuting_hist] in Hc. rewrite Hp in Hc.
  unfold process in Hp.
  destruct (exec_queued sch false None _) as [p2 o1] eqn:E1 in Hp.
  destruct o1; try discriminate;
    destruct (exec_queued sch true None _) as [q2 o2] eqn:E2 in Hp; injection Hp as _ Ho; subst o2;
    destruct (exec_nofault_outcome _ _ _ _ _ E2); discriminate.
Qed.
