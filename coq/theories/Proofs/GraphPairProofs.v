(* Proofs/GraphPairProofs.v — C14: _proc_dep_pair (without families) on the
   pairs that well-formed chains produce is "apply this list of assertions to
   the trigger/optionality stores" (plus bookkeeping that only feeds the
   terminals check). *)
From Coq Require Import List Bool Arith String Lia.
From Cylc Require Import Base.Util Gen.FamTables Model.GraphBase Model.GraphExpr Model.FamTrig
  Model.GraphParse Model.GraphAst Proofs.GraphExprProofs Proofs.FamTrigProofs Proofs.GraphStoreProofs.
Import ListNotations.

(* ================= token shapes ================= *)
Lemma split_on_none p l : existsb p l = false -> split_on p l = [l].
Proof.
  induction l as [|t r IH]; cbn; [reflexivity|]. intros H. apply orb_false_iff in H. destruct H as [H1 H2].
  rewrite H1, (IH H2). reflexivity.
Qed.

Lemma split_on_sep p a sep b : p sep = true -> existsb p a = false ->
  split_on p (a ++ sep :: b) = a :: split_on p b.
Proof.
  intros Hs. induction a as [|t r IH]; cbn; intros H.
  - now rewrite Hs.
  - apply orb_false_iff in H. destruct H as [H1 H2]. rewrite H1, (IH H2). reflexivity.
Qed.

Lemma split_on_nonempty p l : split_on p l <> [].
Proof. destruct l as [|t r]; cbn; [discriminate|]. destruct (p t); [discriminate|]. destruct (split_on p r); discriminate. Qed.

Lemma split_on_app_sep p a sep b : p sep = true ->
  split_on p (a ++ sep :: b) = split_on p a ++ split_on p b.
Proof.
  intros Hs. induction a as [|t r IH]; cbn.
  - now rewrite Hs.
  - destruct (p t); [now rewrite IH|]. rewrite IH.
    pose proof (split_on_nonempty p r) as Hne.
    destruct (split_on p r); [congruence|reflexivity].
Qed.

Lemma existsb_app' {A} (f : A -> bool) l1 l2 : existsb f (l1 ++ l2) = existsb f l1 || existsb f l2.
Proof. apply existsb_app. Qed.

Lemma print_r_no (p : tok -> bool) r :
  p TBang = false -> (forall n, p (TN n) = false) -> existsb p (print_r r) = false.
Proof. intros H1 H2. unfold print_r. destruct (r_s r); cbn; now rewrite ?H1, ?H2. Qed.

Lemma join_and_split (g : group) : g <> [] ->
  split_on is_and (print_g g) = map print_r g.
Proof.
  unfold print_g. induction g as [|r rest IH]; [congruence|]. intros _.
  destruct rest as [|r2 rest'].
  - cbn. apply split_on_none. now apply print_r_no.
  - cbn [map]. rewrite join_toks_cons2. rewrite split_on_sep; [|reflexivity|now apply print_r_no].
    f_equal. apply IH. discriminate.
Qed.

Lemma print_g_no (p : tok -> bool) (g : group) :
  p TBang = false -> p TAnd = false -> (forall n, p (TN n) = false) -> existsb p (print_g g) = false.
Proof.
  intros H1 H2 H3. unfold print_g. induction g as [|r rest IH]; [reflexivity|].
  destruct rest as [|r2 rest'].
  - cbn. now apply print_r_no.
  - cbn [map]. rewrite join_toks_cons2, existsb_app'. cbn [existsb]. rewrite H2.
    rewrite (print_r_no p r H1 H3). exact IH.
Qed.

Lemma print_e_no (p : tok -> bool) e :
  (forall n, p (TN n) = false) -> p TAnd = false -> p TOr = false -> p TLp = false -> p TRp = false ->
  existsb p (print_e e) = false.
Proof.
  intros H1 H2 H3 H4 H5. induction e; cbn [print_e].
  - cbn. now rewrite H1.
  - cbn. rewrite H4, existsb_app'. cbn. now rewrite IHe, H5.
  - rewrite existsb_app'. cbn. now rewrite IHe1, IHe2, H2.
  - rewrite existsb_app'. cbn. now rewrite IHe1, IHe2, H3.
Qed.

Lemma count_app (p : tok -> bool) l1 l2 : count_tok p (l1 ++ l2) = count_tok p l1 + count_tok p l2.
Proof. unfold count_tok. induction l1; cbn; [reflexivity|]. rewrite IHl1. lia. Qed.

Lemma print_e_parens e : count_tok is_lp (print_e e) = count_tok is_rp (print_e e).
Proof.
  induction e; cbn [print_e].
  - reflexivity.
  - change (TLp :: print_e e ++ [TRp]) with ([TLp] ++ print_e e ++ [TRp]).
    rewrite !count_app, IHe. cbn. lia.
  - change (print_e e1 ++ TAnd :: print_e e2) with (print_e e1 ++ [TAnd] ++ print_e e2).
    rewrite !count_app, IHe1, IHe2. reflexivity.
  - change (print_e e1 ++ TOr :: print_e e2) with (print_e e1 ++ [TOr] ++ print_e e2).
    rewrite !count_app, IHe1, IHe2. reflexivity.
Qed.

Lemma count_none p l : existsb p l = false -> count_tok p l = 0.
Proof.
  unfold count_tok. induction l as [|t r IH]; cbn; [reflexivity|]. intros H.
  apply orb_false_iff in H. destruct H as [H1 H2]. now rewrite H1, IH.
Qed.

Lemma print_e_nonempty e : print_e e <> [].
Proof. destruct e; cbn; try discriminate; destruct (print_e e1); discriminate. Qed.

(* | and ( ) in the printing <-> in the tree *)
Lemma has_or_par_false e : has_or_par e = false ->
  existsb is_or (print_e e) = false /\ existsb is_lp (print_e e) = false.
Proof.
  induction e; cbn [has_or_par print_e]; try discriminate.
  - auto.
  - intros H. apply orb_false_iff in H. destruct H as [H1 H2].
    destruct (IHe1 H1), (IHe2 H2). rewrite !existsb_app'. cbn. now rewrite H, H0, H3, H4.
Qed.

Lemma has_or_par_true e : has_or_par e = true ->
  existsb is_or (print_e e) || existsb is_lp (print_e e) = true.
Proof.
  induction e; cbn [has_or_par print_e]; try discriminate.
  - intros _. cbn. apply orb_true_r.
  - intros H. rewrite !existsb_app'. cbn [existsb is_or is_lp].
    apply orb_true_iff in H. destruct H as [H|H]; [apply IHe1 in H|apply IHe2 in H];
      apply orb_true_iff in H; destruct H as [H|H]; rewrite H; cbn; rewrite ?orb_true_r; reflexivity.
  - intros _. rewrite existsb_app'. cbn. rewrite orb_true_r. reflexivity.
Qed.

(* without | and ( ), the printing split on & is the list of conjunct nodes *)
Lemma split_and_pieces e : has_or_par e = false ->
  split_on is_and (print_e e) = map print_e (and_pieces e)
  /\ forall p, In p (and_pieces e) -> exists n, p = LN n.
Proof.
  induction e; cbn [has_or_par and_pieces print_e]; try discriminate.
  - intros _. split; [reflexivity|]. intros p [<-|[]]. eauto.
  - intros H. apply orb_false_iff in H. destruct H as [H1 H2].
    destruct (IHe1 H1) as [S1 P1], (IHe2 H2) as [S2 P2]. split.
    + rewrite map_app, <- S1, <- S2. now apply split_on_app_sep.
    + intros p Hp. apply in_app_or in Hp. destruct Hp; auto.
Qed.

(* ================= actions on the two stores ================= *)
Inductive action := ATrig (m : name) (t : trig) | AOpt (a : oassert).

Definition core := (trigmap * optmap)%type.
Definition core_of (st : pstate) : core := (ps_trig st, ps_opt st).
Definition with_core (st : pstate) (c : core) : pstate :=
  mkState (fst c) (snd c) (ps_lefts st) (ps_rights st) (ps_ct st).

Definition apply_core (c : core) (a : action) : res core :=
  match a with
  | ATrig m t => bind (set_trig (fst c) m t) (fun tm => Ok (tm, snd c))
  | AOpt o => bind (apply_o (snd c) o) (fun om => Ok (fst c, om))
  end.

(* a result on cores, put back into a state that carries the bookkeeping *)
Definition lift (r : res core) (sb : pstate) : res pstate :=
  match r with Ok c => Ok (with_core sb c) | GErr => GErr | Unmod => Unmod end.

Lemma fold_res_app {A S} (f : S -> A -> res S) l1 l2 s :
  fold_res f (l1 ++ l2) s = bind (fold_res f l1 s) (fold_res f l2).
Proof.
  revert s. induction l1 as [|a r IH]; intros s; cbn; [reflexivity|].
  destruct (f s a); cbn; auto.
Qed.

Lemma fold_opts tm : forall (l : list oassert) om,
  fold_res apply_core (map AOpt l) (tm, om)
  = match fold_res apply_o l om with Ok om' => Ok (tm, om') | GErr => GErr | Unmod => Unmod end.
Proof.
  induction l as [|a r IH]; intros om; cbn [map fold_res]; [reflexivity|].
  cbn [apply_core fst snd]. destruct (apply_o om a); cbn [bind]; auto.
Qed.

(* the assertions made by one right-hand node under trigger [expr] *)
Definition right_actions (eoc : list (list tok)) (expr : list tok) (atoms : list atom) (r : rnode)
  : list action :=
  (if Nat.eqb (n_off (r_n r)) 0 then [ATrig (n_name (r_n r)) (mkTrig expr atoms (r_s r))] else [])
  ++ map AOpt (rnode_asserts (negb (mem toks_eqb (print_r r) eoc) || is_nil expr) r).

Lemma strip_print_r r : strip_parens (print_r r) = print_r r.
Proof. unfold print_r. destruct (r_s r); reflexivity. Qed.

Lemma parse_print_r r : parse_rhs (print_r r) = Some (r_s r, r_n r).
Proof. unfold print_r. destruct (r_s r); reflexivity. Qed.

Lemma succeeded_not_finished : String.eqb TASK_OUTPUT_SUCCEEDED TASK_OUTPUT_FINISHED = false.
Proof. reflexivity. Qed.

(* the optionality part of the right-hand loop body *)
Lemma right_opt_fold eoc (expr : list tok) r om :
  (r_s r || node_fin_ok (r_n r)) = true ->
  fold_res (fun om o => set_opt om (n_name (r_n r)) o (n_opt (r_n r)) (r_s r) false)
    (match (match n_qual (r_n r) with
            | Some q => Some (std_name q)
            | None => if n_opt (r_n r) || negb (mem toks_eqb (print_r r) eoc) || is_nil expr
                      then Some TASK_OUTPUT_SUCCEEDED else None
            end) with Some o => [o] | None => [] end) om
  = fold_res apply_o (rnode_asserts (negb (mem toks_eqb (print_r r) eoc) || is_nil expr) r) om.
Proof.
  intros Hfin. unfold rnode_asserts, node_fin_ok, task_out in *.
  destruct (n_qual (r_n r)) as [q|].
  - cbn [fold_res]. rewrite set_opt_as_fold.
    + destruct (r_s r); cbn [fold_res bind]; [reflexivity|].
      destruct (fold_res apply_o _ om); reflexivity.
    + destruct (r_s r); cbn in *; [now rewrite andb_false_r|].
      apply negb_true_iff in Hfin. now rewrite Hfin.
  - destruct (n_opt (r_n r)) eqn:Eo; cbn [orb].
    + cbn [fold_res]. rewrite set_opt_as_fold by (rewrite succeeded_not_finished; reflexivity).
      unfold expand_assert. rewrite succeeded_not_finished.
      destruct (r_s r); cbn [fold_res bind]; [reflexivity|].
      destruct (apply_o om _); reflexivity.
    + destruct (negb (mem toks_eqb (print_r r) eoc) || is_nil expr).
      * cbn [fold_res]. rewrite set_opt_as_fold by (rewrite succeeded_not_finished; reflexivity).
        unfold expand_assert. rewrite succeeded_not_finished.
        destruct (r_s r); cbn [fold_res bind]; [reflexivity|].
        destruct (apply_o om _); reflexivity.
      * destruct (r_s r); reflexivity.
Qed.

(* proc_right without families = apply the node's actions *)
Lemma proc_right_nf eoc expr atoms st r :
  (r_s r || node_fin_ok (r_n r)) = true ->
  proc_right [] eoc expr atoms st (print_r r)
  = lift (fold_res apply_core (right_actions eoc expr atoms r) (core_of st)) st.
Proof.
  intros Hfin. unfold proc_right. rewrite strip_print_r, parse_print_r.
  cbn [fam_members assoc bind].
  unfold right_actions. rewrite fold_res_app.
  cbn [fold_res bind].
  pose proof (right_opt_fold eoc expr r) as Hopt. specialize (fun om => Hopt om Hfin).
  destruct (Nat.eqb (n_off (r_n r)) 0).
  - cbn [fold_res apply_core core_of fst snd].
    destruct (set_trig (ps_trig st) (n_name (r_n r)) (mkTrig expr atoms (r_s r))) as [tm| |];
      cbn [bind]; try reflexivity.
    cbn [ps_opt ps_trig ps_lefts ps_rights ps_ct]. rewrite Hopt.
    rewrite (fold_opts tm _ (ps_opt st)).
    destruct (fold_res apply_o _ (ps_opt st)); reflexivity.
  - cbn [fold_res bind core_of]. rewrite Hopt.
    rewrite (fold_opts (ps_trig st) _ (ps_opt st)).
    destruct (fold_res apply_o _ (ps_opt st)); reflexivity.
Qed.

(* ================= a whole pair ================= *)
Lemma core_with st c : core_of (with_core st c) = c.
Proof. destruct c; reflexivity. Qed.
Lemma with_with st c c' : with_core (with_core st c) c' = with_core st c'.
Proof. reflexivity. Qed.

Lemma fold_rights eoc expr atoms : forall (G : group) st,
  (forall r, In r G -> (r_s r || node_fin_ok (r_n r)) = true) ->
  fold_res (proc_right [] eoc expr atoms) (map print_r G) st
  = lift (fold_res apply_core (flat_map (right_actions eoc expr atoms) G) (core_of st)) st.
Proof.
  induction G as [|r rest IH]; intros st Hfin.
  - cbn. unfold with_core, core_of. destruct st; reflexivity.
  - cbn [map fold_res flat_map]. rewrite fold_res_app.
    rewrite proc_right_nf by (apply Hfin; now left).
    destruct (fold_res apply_core (right_actions eoc expr atoms r) (core_of st)) as [c| |];
      cbn [lift bind]; try reflexivity.
    rewrite IH by (intros r' Hr'; apply Hfin; now right).
    rewrite core_with.
    destruct (fold_res apply_core _ c); cbn [lift]; reflexivity.
Qed.

Definition left_atoms (p : lexpr) : list atom :=
  match expand_left [] (print_e p) with Ok ea => snd ea | _ => [] end.

Definition main_actions (eoc : list (list tok)) (L : lexpr) (G : group) : list action :=
  flat_map (fun p => flat_map (right_actions eoc (stored_expr p) (left_atoms p)) G) (left_pieces L).

Definition auto_actions (eoc : list (list tok)) (n : node) : list action :=
  right_actions eoc [] [] (mkR false n).

(* body of the "for left in lefts" loop of _proc_dep_pair *)
Definition left_step (fm : family_map) (eoc rights : list (list tok)) (st : pstate) (l : list tok)
  : res pstate :=
  let st1 := mkState (ps_trig st) (ps_opt st)
               (fold_left (fun acc n => add_set toks_eqb [TN n] acc) (nodes_of l) (ps_lefts st))
               (ps_rights st) (ps_ct st) in
  bind (expand_left fm l) (fun ea => fold_res (proc_right fm eoc (fst ea) (snd ea)) rights st1).

Lemma expand_left_stored p :
  forallb (node_accepted []) (nodes_e p) = true ->
  expand_left [] (print_e p) = Ok (stored_expr p, left_atoms p).
Proof.
  intros H. destruct (expand_left_print [] p H) as [atoms E].
  unfold left_atoms, stored_expr. now rewrite E.
Qed.

Lemma fold_lefts eoc (G : group) :
  (forall r, In r G -> (r_s r || node_fin_ok (r_n r)) = true) ->
  forall (ps : list lexpr) st,
  (forall p, In p ps -> forallb (node_accepted []) (nodes_e p) = true) ->
  exists sb, ps_ct sb = ps_ct st
    /\ fold_res (left_step [] eoc (map print_r G)) (map print_e ps) st
       = lift (fold_res apply_core
                 (flat_map (fun p => flat_map (right_actions eoc (stored_expr p) (left_atoms p)) G) ps)
                 (core_of st)) sb.
Proof.
  intros Hfin. induction ps as [|p rest IH]; intros st Hacc.
  - exists st. split; [reflexivity|]. cbn. unfold with_core, core_of. destruct st; reflexivity.
  - cbn [map fold_res flat_map]. rewrite fold_res_app.
    unfold left_step at 1. rewrite (expand_left_stored p) by (apply Hacc; now left).
    cbn [bind fst snd]. rewrite fold_rights by exact Hfin.
    set (st1 := mkState _ _ _ _ _).
    assert (Hc1 : core_of st1 = core_of st) by reflexivity. rewrite Hc1.
    destruct (fold_res apply_core _ (core_of st)) as [c| |]; cbn [lift bind].
    + destruct (IH (with_core st1 c)) as [sb [Hct E]]; [intros q Hq; apply Hacc; now right|].
      exists sb. split; [exact Hct|]. rewrite E, core_with. reflexivity.
    + exists st. auto.
    + exists st. auto.
Qed.

Lemma nodes_of_app a b : nodes_of (a ++ b) = nodes_of a ++ nodes_of b.
Proof. unfold nodes_of. apply flat_map_app. Qed.
Lemma nodes_of_print_r r : nodes_of (print_r r) = [r_n r].
Proof. unfold print_r. destruct (r_s r); reflexivity. Qed.

Lemma nodes_of_print_g (G : group) : nodes_of (print_g G) = map r_n G.
Proof.
  unfold print_g. induction G as [|r rest IH]; [reflexivity|].
  destruct rest as [|r2 rest'].
  - cbn [map join_toks]. apply nodes_of_print_r.
  - cbn [map] in *. rewrite join_toks_cons2, nodes_of_app, nodes_of_print_r.
    change (nodes_of (TAnd :: ?l)) with (nodes_of l).
    cbn [app]. f_equal. exact IH.
Qed.

Lemma nodes_and_pieces e : flat_map nodes_e (and_pieces e) = nodes_e e.
Proof.
  induction e; cbn [and_pieces nodes_e flat_map]; try now rewrite app_nil_r.
  now rewrite flat_map_app, IHe1, IHe2.
Qed.

Lemma left_pieces_nodes L p n : In p (left_pieces L) -> In n (nodes_e p) -> In n (nodes_e L).
Proof.
  unfold left_pieces. destruct (has_or_par L).
  - intros [<-|[]]. auto.
  - intros Hp Hn. rewrite <- nodes_and_pieces. apply in_flat_map. eauto.
Qed.

Lemma proc_pair_main eoc st L (G : group) :
  G <> [] ->
  (forall r, In r G -> n_off (r_n r) = 0 /\ (r_s r || node_fin_ok (r_n r)) = true) ->
  forallb (node_accepted []) (nodes_e L) = true ->
  exists sb, ps_ct sb = ps_ct st
    /\ proc_pair [] eoc st (Some (print_e L), print_g G)
       = lift (fold_res apply_core (main_actions eoc L G) (core_of st)) sb.
Proof.
  intros Hne HG Hacc. unfold proc_pair. cbn [fst snd].
  rewrite (print_g_no is_or G) by reflexivity.
  rewrite (print_e_no is_bang L) by reflexivity.
  rewrite print_e_parens, Nat.eqb_refl.
  rewrite (count_none is_lp (print_g G)) by (now apply print_g_no).
  rewrite (count_none is_rp (print_g G)) by (now apply print_g_no).
  cbn [Nat.eqb negb].
  assert (Hoff : has_offset (print_g G) = false).
  { unfold has_offset. rewrite nodes_of_print_g. apply not_true_is_false. intros H.
    apply existsb_exists in H. destruct H as [n [Hn Hx]]. apply in_map_iff in Hn.
    destruct Hn as [r [<- Hr]]. rewrite (proj1 (HG r Hr)) in Hx. discriminate. }
  rewrite Hoff. cbn [andb].
  rewrite (join_and_split G Hne).
  assert (Hnil : existsb is_nil (map print_r G) = false).
  { apply not_true_is_false. intros H. apply existsb_exists in H. destruct H as [x [Hx Hn]].
    apply in_map_iff in Hx. destruct Hx as [r [<- _]]. unfold print_r in Hn. destruct (r_s r); discriminate. }
  rewrite Hnil.
  assert (Hl : (if is_nil (print_e L) || existsb is_or (print_e L) || existsb is_lp (print_e L)
                then [print_e L] else split_on is_and (print_e L)) = map print_e (left_pieces L)).
  { unfold left_pieces.
    assert (Hn : is_nil (print_e L) = false)
      by (destruct (print_e L) eqn:Ep; [exfalso; eapply print_e_nonempty; eauto|reflexivity]).
    rewrite Hn. cbn [orb]. destruct (has_or_par L) eqn:Eh.
    - rewrite (has_or_par_true L Eh). reflexivity.
    - destruct (has_or_par_false L Eh) as [H1 H2]. rewrite H1, H2. cbn [orb].
      apply (split_and_pieces L Eh). }
  rewrite Hl.
  assert (Hnil2 : existsb is_nil (map print_e (left_pieces L)) = false).
  { apply not_true_is_false. intros H. apply existsb_exists in H. destruct H as [x [Hx Hn]].
    apply in_map_iff in Hx. destruct Hx as [p [<- _]].
    destruct (print_e p) eqn:Ep; [eapply print_e_nonempty; eauto|discriminate]. }
  rewrite Hnil2.
  set (st0 := mkState _ _ _ _ _).
  change (fold_res _ (map print_e (left_pieces L)) st0)
    with (fold_res (left_step [] eoc (map print_r G)) (map print_e (left_pieces L)) st0).
  destruct (fold_lefts eoc G (fun r Hr => proj2 (HG r Hr)) (left_pieces L) st0) as [sb [Hct E]].
  { intros p Hp. apply forallb_forall. intros n Hn. rewrite forallb_forall in Hacc. apply Hacc.
    eapply left_pieces_nodes; eauto. }
  exists sb. split; [exact Hct|]. exact E.
Qed.

Lemma proc_pair_auto eoc st n :
  node_fin_ok n = true ->
  exists sb, ps_ct sb = ps_ct st
    /\ proc_pair [] eoc st (None, [TN n])
       = lift (fold_res apply_core (auto_actions eoc n) (core_of st)) sb.
Proof.
  intros Hfin. unfold proc_pair. cbn [fst snd existsb is_or is_bang count_tok count_true is_lp is_rp
    Nat.eqb negb is_nil andb orb split_on is_and].
  rewrite andb_false_r.
  set (st0 := mkState _ _ _ _ _).
  cbn [fold_res]. cbn [nodes_of flat_map fold_left expand_left bind fst snd].
  change [TN n] with (print_r (mkR false n)).
  rewrite proc_right_nf by (cbn; exact Hfin).
  exists st0. split; [reflexivity|].
  unfold auto_actions.
  destruct (fold_res apply_core _ _); reflexivity.
Qed.
