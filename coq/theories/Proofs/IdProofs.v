(* Proofs/IdProofs.v — lemmas about Model/Id.v (C23) *)
From Coq Require Import List ZArith Bool Lia.
From Cylc Require Import Base.Util Model.Id.
Import ListNotations.
Open Scope Z_scope.

(* ================= basic list / span facts ================= *)
Lemma codes_eqb_eq a b : codes_eqb a b = true <-> a = b.
Proof. apply list_eqb_spec. intros x y. apply Z.eqb_eq. Qed.

Definition stops (p : Z -> bool) (r : codes) : Prop :=
  match r with [] => True | c :: _ => p c = false end.

Lemma span_app p a r :
  forallb p a = true -> stops p r -> span p (a ++ r) = (a, r).
Proof.
  intros Ha Hr. induction a as [|c a IH]; cbn [app].
  - destruct r as [|d r]; [reflexivity|]. cbn in *. now rewrite Hr.
  - cbn in Ha. apply andb_true_iff in Ha. destruct Ha as [Hc Ha].
    cbn [span]. rewrite Hc, (IH Ha). reflexivity.
Qed.

Lemma span_all p a : forallb p a = true -> span p a = (a, []).
Proof. intros H. rewrite <- (app_nil_r a) at 1. now apply span_app. Qed.

Lemma forallb_rev {A} (p : A -> bool) l : forallb p (rev l) = forallb p l.
Proof.
  induction l as [|x l IH]; [reflexivity|]. cbn. rewrite forallb_app, IH. cbn.
  rewrite andb_true_r. apply andb_comm.
Qed.

Lemma forallb_impl {A} (p q : A -> bool) l :
  (forall x, p x = true -> q x = true) -> forallb p l = true -> forallb q l = true.
Proof.
  intros H. induction l as [|x l IH]; cbn; [auto|].
  intros E. apply andb_true_iff in E. destruct E as [E1 E2]. rewrite (H _ E1), (IH E2). reflexivity.
Qed.

Lemma nonempty_true s : nonempty s = true <-> s <> [].
Proof. destruct s; cbn; split; congruence. Qed.

(* ---------- classes ---------- *)
Ltac zb :=
  repeat match goal with
         | H : context [(_ =? _)] |- _ => revert H
         end;
  repeat match goal with
         | |- context [(?a =? ?b)] => destruct (Z.eqb_spec a b)
         end; cbn; intros; subst; try congruence; try lia.

Lemma c_user_sel c : c_user c = true -> c_sel c = true.
Proof. unfold c_user, c_sel. zb. Qed.
Lemma c_user_cyc c : c_user c = true -> c_cyc c = true.
Proof. unfold c_user, c_cyc. zb. Qed.
Lemma c_sel_not_slash c : c_sel c = true -> not_slash c = true.
Proof. unfold c_sel, not_slash. zb. Qed.
Lemma c_sel_not_colon c : c_sel c = true -> not_colon c = true.
Proof. unfold c_sel, not_colon. zb. Qed.
Lemma c_user_not_colon c : c_user c = true -> not_colon c = true.
Proof. intros H. now apply c_sel_not_colon, c_user_sel. Qed.
Lemma l_cyc_user c : l_cyc c = true -> c_user c = true.
Proof. unfold l_cyc. intros H. apply andb_true_iff in H. tauto. Qed.
Lemma l_cyc_not_dot c : l_cyc c = true -> not_dot c = true.
Proof. unfold l_cyc, not_dot. intros H. apply andb_true_iff in H. tauto. Qed.
Lemma digit_sel c : is_ascii_digit c = true -> c_sel c = true.
Proof.
  unfold is_ascii_digit, c_sel. intros H. apply andb_true_iff in H. destruct H as [H1 H2].
  apply Z.leb_le in H1. apply Z.leb_le in H2. zb.
Qed.

Definition nonl (s : codes) : bool := forallb (fun c => negb (c =? 10)) s.
Lemma c_sel_nonl s : forallb c_sel s = true -> nonl s = true.
Proof. apply forallb_impl. intros c. unfold c_sel. zb. Qed.
Lemma nonl_app a b : nonl (a ++ b) = nonl a && nonl b.
Proof. apply forallb_app. Qed.

Lemma nonl_last s : nonl s = true -> last_is 10 s = false.
Proof.
  unfold last_is, nonl. rewrite <- forallb_rev. destruct (rev s) as [|x r]; [reflexivity|].
  cbn. intros H. apply andb_true_iff in H. destruct H as [H _].
  now apply negb_true_iff in H.
Qed.

Lemma drop_nl_id s : nonl s = true -> drop_nl s = s.
Proof. intros H. unfold drop_nl. now rewrite (nonl_last _ H). Qed.

(* ================= strip ================= *)
Section Strip.
  Variable is_space : Z -> bool.

  (* non-empty, no white space at either end *)
  Definition edges_ok (v : codes) : bool :=
    match v with
    | [] => false
    | c :: _ => negb (is_space c) && negb (is_space (last v 0))
    end.

  Lemma rev_last (v : codes) : v <> [] -> exists r, rev v = last v 0 :: r.
  Proof.
    intros H. destruct (exists_last H) as (l & x & ->).
    rewrite rev_app_distr, last_last. cbn. eauto.
  Qed.

  Lemma strip_id v : edges_ok v = true -> strip is_space v = v.
  Proof.
    unfold edges_ok, strip. destruct v as [|c r]; [discriminate|].
    intros H. apply andb_true_iff in H. destruct H as [H1 H2].
    apply negb_true_iff in H1. apply negb_true_iff in H2.
    cbn [lstrip]. rewrite H1.
    destruct (rev_last (c :: r)) as [r' Hr]; [discriminate|].
    rewrite Hr. cbn [lstrip]. rewrite H2. rewrite <- Hr. apply rev_involutive.
  Qed.

  Lemma edges_ok_nonempty v : edges_ok v = true -> v <> [].
  Proof. destruct v; [discriminate|discriminate]. Qed.

  Lemma ostrip_id v : edges_ok v = true -> ostrip is_space (Some v) = Some v.
  Proof.
    intros H. unfold ostrip. destruct v as [|c r]; [discriminate|]. now rewrite strip_id.
  Qed.
End Strip.

(* ================= segments ================= *)
Definition keep (sel : bool) (s : option codes) : option codes := if sel then s else None.

(* an optional selector that is absent or a valid [^\/:\n]+ *)
Definition ok_osel (s : option codes) : Prop :=
  match s with None => True | Some v => v <> [] /\ forallb c_sel v = true end.

Lemma with_sel_cases sel base s :
  ok_osel s ->
  (keep sel s = None /\ with_sel sel base s = base) \/
  (exists v, keep sel s = Some v /\ v <> [] /\ forallb c_sel v = true
             /\ with_sel sel base s = base ++ 58 :: v).
Proof.
  unfold with_sel, keep. destruct sel; cbn [andb]; [|auto].
  destruct s as [v|]; cbn; [|auto]. intros [Hne Hv].
  destruct v as [|c r]; [congruence|]. right. exists (c :: r). auto.
Qed.

Lemma parse_namesel_print sel v s :
  v <> [] -> forallb c_sel v = true -> ok_osel s ->
  parse_namesel (with_sel sel v s) = Some (v, keep sel s).
Proof.
  intros Hne Hv Hs. unfold parse_namesel.
  destruct (with_sel_cases sel v s Hs) as [[-> ->]|(x & -> & Hx & Hxc & ->)].
  - rewrite (span_all _ _ Hv). apply nonempty_true in Hne. rewrite Hne. reflexivity.
  - rewrite (span_app c_sel v (58 :: x) Hv) by reflexivity.
    apply nonempty_true in Hne. rewrite Hne. cbn [negb].
    rewrite Z.eqb_refl, Hxc. apply nonempty_true in Hx. rewrite Hx. reflexivity.
Qed.

(* a cycle without ":" : [^~\/:\n]+ *)
Lemma valid_cycle_re_user v : v <> [] -> forallb c_user v = true -> valid_cycle_re v = true.
Proof.
  destruct v as [|x r]; [congruence|]. intros _ H. cbn in H.
  apply andb_true_iff in H. destruct H as [H1 H2]. cbn. unfold c_cyc1. rewrite H1.
  apply (forallb_impl c_user c_cyc _ c_user_cyc H2).
Qed.

Lemma parse_cycle_print sel v s :
  v <> [] -> forallb c_user v = true -> ok_osel s ->
  parse_cycle (with_sel sel v s) = Some (v, keep sel s).
Proof.
  intros Hne Hv Hs. unfold parse_cycle.
  pose proof (valid_cycle_re_user v Hne Hv) as Hval.
  assert (Hnc : forallb not_colon (rev v) = true).
  { rewrite forallb_rev. apply (forallb_impl c_user not_colon _ c_user_not_colon Hv). }
  destruct (with_sel_cases sel v s Hs) as [[-> ->]|(x & -> & Hx & Hxc & ->)].
  - rewrite (span_all _ _ Hnc). now rewrite Hval.
  - rewrite rev_app_distr. cbn [rev]. rewrite <- app_assoc. cbn [app].
    rewrite (span_app not_colon (rev x) (58 :: rev v)).
    + rewrite !rev_involutive, Hval, Hxc. apply nonempty_true in Hx. rewrite Hx. reflexivity.
    + rewrite forallb_rev. apply (forallb_impl c_sel not_colon _ c_sel_not_colon Hxc).
    + reflexivity.
Qed.

(* segments contain no "/" *)
Lemma with_sel_no_slash sel v s :
  forallb c_sel v = true -> ok_osel s -> forallb not_slash (with_sel sel v s) = true.
Proof.
  intros Hv Hs.
  pose proof (forallb_impl c_sel not_slash _ c_sel_not_slash Hv) as Hv'.
  destruct (with_sel_cases sel v s Hs) as [[_ ->]|(x & _ & _ & Hxc & ->)]; [exact Hv'|].
  rewrite forallb_app, Hv'. cbn.
  apply (forallb_impl c_sel not_slash _ c_sel_not_slash Hxc).
Qed.

Lemma with_sel_nonempty sel v s : v <> [] -> with_sel sel v s <> [].
Proof.
  unfold with_sel. destruct (sel && truthy s); [|auto].
  intros H E. apply app_eq_nil in E. tauto.
Qed.

Lemma with_sel_nonl sel v s :
  forallb c_sel v = true -> ok_osel s -> nonl (with_sel sel v s) = true.
Proof.
  intros Hv Hs.
  destruct (with_sel_cases sel v s Hs) as [[_ ->]|(x & _ & _ & Hxc & ->)].
  - now apply c_sel_nonl.
  - rewrite nonl_app, (c_sel_nonl _ Hv). cbn. now apply c_sel_nonl.
Qed.

(* ================= RELATIVE_PATTERN on printed bodies ================= *)
Lemma parse_rel_1 C cy :
  forallb not_slash C = true -> parse_cycle C = Some cy ->
  parse_rel C = Some (cy, None).
Proof. intros HC Hp. unfold parse_rel. rewrite (span_all _ _ HC), Hp. reflexivity. Qed.

Lemma parse_rel_2 C T cy tk :
  forallb not_slash C = true -> forallb not_slash T = true -> T <> [] ->
  parse_cycle C = Some cy -> parse_namesel T = Some tk ->
  parse_rel (C ++ 47 :: T) = Some (cy, Some (tk, None)).
Proof.
  intros HC HT Hne Hp Hn. unfold parse_rel.
  rewrite (span_app not_slash C (47 :: T) HC) by reflexivity. rewrite Hp.
  destruct T as [|x T']; [congruence|].
  rewrite (span_all _ _ HT), Hn. reflexivity.
Qed.

Lemma parse_rel_3 C T J cy tk jb :
  forallb not_slash C = true -> forallb not_slash T = true -> forallb not_slash J = true ->
  T <> [] -> J <> [] ->
  parse_cycle C = Some cy -> parse_namesel T = Some tk -> parse_namesel J = Some jb ->
  parse_rel (C ++ 47 :: T ++ 47 :: J) = Some (cy, Some (tk, Some jb)).
Proof.
  intros HC HT HJ HneT HneJ Hp Hn Hj. unfold parse_rel.
  rewrite (span_app not_slash C (47 :: T ++ 47 :: J) HC) by reflexivity. rewrite Hp.
  destruct T as [|x T']; [congruence|]. cbn [app].
  change (x :: T' ++ 47 :: J) with ((x :: T') ++ 47 :: J).
  rewrite (span_app not_slash (x :: T') (47 :: J) HT) by reflexivity. rewrite Hn.
  destruct J as [|y J']; [congruence|].
  rewrite (span_all _ _ HJ), Hj. reflexivity.
Qed.

(* ================= UNIVERSAL_ID on printed strings ================= *)
Definition wstops (r : codes) : Prop :=
  match r with
  | [] => True
  | c :: r' => c_wf c = false /\
               ((c =? 47) = true -> match r' with d :: _ => c_wf d = false | [] => True end)
  end.

Lemma wf_scan_stop r : wstops r -> wf_scan r = ([], r).
Proof.
  destruct r as [|c r']; [reflexivity|]. intros [H1 H2]. cbn [wf_scan]. rewrite H1.
  destruct (c =? 47) eqn:E; [|reflexivity]. specialize (H2 eq_refl).
  destruct r' as [|d r'']; [reflexivity|]. now rewrite H2.
Qed.

Lemma wf_scan_app W : forall r,
  wf_scan W = (W, []) -> wstops r -> wf_scan (W ++ r) = (W, r).
Proof.
  induction W as [|c W' IH]; intros r HW Hr; [now apply wf_scan_stop|].
  cbn [app wf_scan] in *.
  assert (Hcond : (c_wf c || (c =? 47) && match W' ++ r with d :: _ => c_wf d | [] => false end)
                  = (c_wf c || (c =? 47) && match W' with d :: _ => c_wf d | [] => false end)).
  { destruct W' as [|d W'']; [|reflexivity]. cbn [app].
    destruct (c_wf c) eqn:Ec; [reflexivity|]. exfalso.
    rewrite andb_false_r in HW. cbn [orb] in HW. discriminate HW. }
  rewrite Hcond.
  destruct (c_wf c || (c =? 47) && match W' with d :: _ => c_wf d | [] => false end);
    [|discriminate].
  destruct (wf_scan W') as [a b] eqn:Es. inversion HW; subst.
  rewrite (IH r eq_refl Hr). reflexivity.
Qed.

Definition wf_ok (w : codes) : Prop :=
  (match w with c :: _ => c_wf c = true | [] => False end) /\ wf_scan w = (w, []).

Lemma wf_ok_nonl w : wf_ok w -> nonl w = true.
Proof.
  intros [_ H]. revert H. induction w as [|c w IH]; [reflexivity|]. cbn [wf_scan].
  destruct (c_wf c || (c =? 47) && match w with d :: _ => c_wf d | [] => false end) eqn:E;
    [|discriminate].
  destruct (wf_scan w) as [a b] eqn:Es. intros H. inversion H; subst.
  unfold nonl in *. cbn [forallb]. rewrite (IH eq_refl), andb_true_r.
  apply orb_true_iff in E. destruct E as [E|E].
  - revert E. unfold c_wf, c_user. zb.
  - apply andb_true_iff in E. destruct E as [E _]. revert E. zb.
Qed.

Lemma parse_wf_partial u W sel ws :
  wf_ok W -> ok_osel ws ->
  parse_wf u (with_sel sel W ws) = Some (with_rel u (Some W) (keep sel ws) None).
Proof.
  intros [Hc HW] Hs. destruct W as [|c W']; [destruct Hc|].
  destruct (with_sel_cases sel (c :: W') ws Hs) as [[-> ->]|(x & -> & Hx & Hxc & ->)].
  - unfold parse_wf. rewrite Hc. cbn [negb]. rewrite HW. reflexivity.
  - cbn [app]. unfold parse_wf. rewrite Hc. cbn [negb].
    change (c :: W' ++ 58 :: x) with ((c :: W') ++ 58 :: x).
    rewrite (wf_scan_app (c :: W') (58 :: x) HW).
    + rewrite Z.eqb_refl, (span_all _ _ Hxc). apply nonempty_true in Hx. rewrite Hx. reflexivity.
    + split; [reflexivity|discriminate].
Qed.

Lemma parse_wf_full u W sel ws body r6 :
  wf_ok W -> ok_osel ws -> body <> [] -> parse_rel body = Some r6 ->
  parse_wf u (with_sel sel W ws ++ 47 :: 47 :: body)
  = Some (with_rel u (Some W) (keep sel ws) (Some r6)).
Proof.
  intros [Hc HW] Hs Hb Hp. destruct W as [|c W']; [destruct Hc|].
  destruct body as [|b0 body']; [congruence|].
  destruct (with_sel_cases sel (c :: W') ws Hs) as [[-> ->]|(x & -> & Hx & Hxc & ->)].
  - cbn [app]. unfold parse_wf. rewrite Hc. cbn [negb].
    change (c :: W' ++ 47 :: 47 :: b0 :: body') with ((c :: W') ++ 47 :: 47 :: b0 :: body').
    rewrite (wf_scan_app (c :: W') (47 :: 47 :: b0 :: body') HW).
    + cbn [Z.eqb starts2 skipn andb]. rewrite Hp. reflexivity.
    + split; [reflexivity|]. intros _. reflexivity.
  - rewrite <- app_assoc. cbn [app]. unfold parse_wf. rewrite Hc. cbn [negb].
    change (c :: W' ++ 58 :: x ++ 47 :: 47 :: b0 :: body')
      with ((c :: W') ++ 58 :: x ++ 47 :: 47 :: b0 :: body').
    rewrite (wf_scan_app (c :: W') (58 :: x ++ 47 :: 47 :: b0 :: body') HW).
    + rewrite Z.eqb_refl. rewrite (span_app c_sel x (47 :: 47 :: b0 :: body') Hxc) by reflexivity.
      apply nonempty_true in Hx. rewrite Hx. cbn [starts2 skipn Z.eqb andb]. rewrite Hp. reflexivity.
    + split; [reflexivity|discriminate].
Qed.

Lemma parse_univ_nouser s c r :
  s = c :: r -> c_wf c = true -> parse_univ s = parse_wf None s.
Proof.
  intros -> Hc. unfold parse_univ. replace (c =? 126) with false; [reflexivity|].
  symmetry. revert Hc. unfold c_wf, c_user. zb.
Qed.

Lemma parse_univ_user U :
  U <> [] -> forallb c_user U = true ->
  parse_univ (126 :: U) = Some (with_rel (Some U) None None None).
Proof.
  intros Hne HU. unfold parse_univ. rewrite Z.eqb_refl, (span_all _ _ HU).
  apply nonempty_true in Hne. rewrite Hne. reflexivity.
Qed.

Lemma parse_univ_user_wf U rest :
  U <> [] -> forallb c_user U = true -> rest <> [] ->
  parse_univ (126 :: U ++ 47 :: rest) = parse_wf (Some U) rest.
Proof.
  intros Hne HU Hr. unfold parse_univ. rewrite Z.eqb_refl.
  rewrite (span_app c_user U (47 :: rest) HU) by reflexivity.
  apply nonempty_true in Hne. rewrite Hne. cbn [negb]. rewrite Z.eqb_refl.
  destruct rest; [congruence|reflexivity].
Qed.

(* ================= tokenise on printed strings ================= *)
Section Tokenise.
  Variable is_space : Z -> bool.

  Lemma tokenise_abs s t :
    nonl s = true -> parse_univ s = Some t ->
    tokenise is_space false s = Some (strip_tokens is_space t).
  Proof.
    intros Hn Hp. unfold tokenise. cbn [andb]. rewrite (drop_nl_id _ Hn), Hp. reflexivity.
  Qed.

  Lemma tokenise_rel_prefixed flag body r6 :
    nonl body = true -> parse_rel body = Some r6 ->
    tokenise is_space flag (47 :: 47 :: body)
    = Some (strip_tokens is_space (with_rel None None None (Some r6))).
  Proof.
    intros Hn Hp. unfold tokenise.
    replace (flag && negb (starts2 47 (47 :: 47 :: body))) with false
      by (cbn; now rewrite andb_false_r).
    rewrite drop_nl_id by (cbn; exact Hn).
    cbn [parse_univ parse_wf Z.eqb c_wf c_user negb orb]. cbn [starts2 Z.eqb andb skipn].
    rewrite Hp. reflexivity.
  Qed.

  Lemma tokenise_rel_bare c body r6 :
    nonl (c :: body) = true -> (c =? 47) = false -> parse_rel (c :: body) = Some r6 ->
    tokenise is_space true (c :: body)
    = Some (strip_tokens is_space (with_rel None None None (Some r6))).
  Proof.
    intros Hn Hc Hp.
    rewrite <- (tokenise_rel_prefixed true (c :: body) r6 Hn Hp).
    unfold tokenise. cbn [andb starts2]. destruct body as [|d b]; now rewrite ?Hc.
  Qed.
End Tokenise.

(* ================= canonical tokens ================= *)
(* what formatting then re-parsing must give: gaps above the lowest token
   become "*", the job is zero padded, selectors survive only when asked for
   and only down to the lowest token *)
Definition canon (sel : bool) (t : tokens) : tokens :=
  let hu := truthy (user t) in let hw := truthy (workflow t) in
  let hc := truthy (cycle t) in let ht := truthy (task t) in let hj := truthy (job t) in
  let full := hc || ht || hj in
  let has_wf := (hu || hw) && (hw || full) in
  {| user := if hu then Some (val (user t)) else None;
     workflow := if has_wf then Some (val (workflow t)) else None;
     workflow_sel := if has_wf then keep sel (workflow_sel t) else None;
     cycle := if full then Some (val (cycle t)) else None;
     cycle_sel := if full then keep sel (cycle_sel t) else None;
     task := if ht || hj then Some (val (task t)) else None;
     task_sel := if ht || hj then keep sel (task_sel t) else None;
     job := if hj then fmt_job (val (job t)) else None;
     job_sel := if hj then keep sel (job_sel t) else None |}.

Definition body_of (sel : bool) (t : tokens) (jv : codes) : codes :=
  with_sel sel (val (cycle t)) (cycle_sel t)
  ++ (if truthy (task t) || truthy (job t)
      then 47 :: with_sel sel (val (task t)) (task_sel t)
           ++ (if truthy (job t) then 47 :: with_sel sel jv (job_sel t) else [])
      else []).

Definition r6_of (sel : bool) (t : tokens) (jv : codes) : rel6 :=
  ((val (cycle t), keep sel (cycle_sel t)),
   if truthy (task t) || truthy (job t)
   then Some ((val (task t), keep sel (task_sel t)),
              if truthy (job t) then Some (jv, keep sel (job_sel t)) else None)
   else None).

Definition upre (t : tokens) : codes :=
  if truthy (user t) then 126 :: val (user t) ++ [47] else [].

Definition jobfmt (t : tokens) : option codes :=
  if truthy (job t) then fmt_job (val (job t)) else Some [].

(* ---------- the three shapes of a formatted identifier ---------- *)
Lemma detok_relative sel rel t jv :
  truthy (user t) = false -> truthy (workflow t) = false ->
  truthy (cycle t) || truthy (task t) || truthy (job t) = true ->
  jobfmt t = Some jv ->
  detokenise sel rel t = DOk ((if rel then [] else [47; 47]) ++ body_of sel t jv).
Proof.
  unfold detokenise, body_of, jobfmt. intros -> -> Hf Hj.
  destruct (truthy (cycle t)), (truthy (task t)), (truthy (job t)); try discriminate Hf;
    cbn [negb andb orb] in *; rewrite ?Hj; destruct rel; cbn [app join_with];
    rewrite <- ?app_assoc; cbn [app]; rewrite ?app_nil_r; reflexivity.
Qed.

Lemma detok_full sel rel t jv :
  truthy (user t) || truthy (workflow t) = true ->
  truthy (cycle t) || truthy (task t) || truthy (job t) = true ->
  jobfmt t = Some jv ->
  detokenise sel rel t =
  DOk (upre t ++ with_sel sel (val (workflow t)) (workflow_sel t) ++ 47 :: 47 :: body_of sel t jv).
Proof.
  unfold detokenise, body_of, jobfmt, upre. intros Ha Hf Hj.
  destruct (truthy (user t)), (truthy (workflow t)); try discriminate Ha;
  destruct (truthy (cycle t)), (truthy (task t)), (truthy (job t)); try discriminate Hf;
    cbn [negb andb orb] in *; rewrite ?Hj; cbn [app join_with];
    rewrite <- ?app_assoc; cbn [app]; rewrite ?app_nil_r; reflexivity.
Qed.

Lemma detok_partial sel rel t :
  truthy (user t) || truthy (workflow t) = true ->
  truthy (cycle t) || truthy (task t) || truthy (job t) = false ->
  detokenise sel rel t =
  DOk (if truthy (workflow t)
       then upre t ++ with_sel sel (val (workflow t)) (workflow_sel t)
       else 126 :: val (user t)).
Proof.
  unfold detokenise, upre. intros Ha Hf.
  apply orb_false_iff in Hf. destruct Hf as [Hf Hj]. apply orb_false_iff in Hf.
  destruct Hf as [Hc Ht]. rewrite Hc, Ht, Hj.
  destruct (truthy (user t)), (truthy (workflow t)); try discriminate Ha;
    cbn [negb andb orb app join_with]; rewrite <- ?app_assoc; cbn [app]; rewrite ?app_nil_r;
    reflexivity.
Qed.

Lemma detok_none sel rel t :
  truthy (user t) = false -> truthy (workflow t) = false ->
  truthy (cycle t) || truthy (task t) || truthy (job t) = false ->
  detokenise sel rel t = DNoTokens.
Proof.
  unfold detokenise. intros -> -> Hf.
  apply orb_false_iff in Hf. destruct Hf as [Hf Hj]. apply orb_false_iff in Hf.
  destruct Hf as [Hc Ht]. rewrite Hc, Ht, Hj. reflexivity.
Qed.

Lemma detok_badjob sel rel t :
  truthy (user t) || truthy (workflow t) || truthy (cycle t) || truthy (task t)
  || truthy (job t) = true ->
  jobfmt t = None -> detokenise sel rel t = DBadJob.
Proof.
  unfold detokenise, jobfmt. intros Ha Hj.
  destruct (truthy (job t)); [|discriminate]. rewrite Hj.
  rewrite !andb_false_r. reflexivity.
Qed.

(* ================= valid tokens and the round trip ================= *)
Section Main.
  Variable is_space : Z -> bool.
  (* "*" and the ASCII digits are not white space *)
  Hypothesis Hstar : is_space 42 = false.
  Hypothesis Hdigit : forall c, is_ascii_digit c = true -> is_space c = false.

  Definition ok_field (cls : Z -> bool) (v : codes) : Prop :=
    edges_ok is_space v = true /\ forallb cls v = true.
  Definition ok_wfv (v : codes) : Prop := edges_ok is_space v = true /\ wf_ok v.
  Definition ok_jobv (v : codes) : Prop :=
    edges_ok is_space v = true /\ (v = [78; 78] \/ forallb is_ascii_digit v = true).
  Definition ok_opt (P : codes -> Prop) (o : option codes) : Prop :=
    match o with None => True | Some v => P v end.

  Record valid_tokens (t : tokens) : Prop := {
    v_user : ok_opt (ok_field c_user) (user t);
    v_wf : ok_opt ok_wfv (workflow t);
    v_wfs : ok_opt (ok_field c_sel) (workflow_sel t);
    v_cyc : ok_opt (ok_field c_user) (cycle t);
    v_cycs : ok_opt (ok_field c_sel) (cycle_sel t);
    v_task : ok_opt (ok_field c_sel) (task t);
    v_tasks : ok_opt (ok_field c_sel) (task_sel t);
    v_job : ok_opt ok_jobv (job t);
    v_jobs : ok_opt (ok_field c_sel) (job_sel t) }.

  Lemma star_edges : edges_ok is_space [42] = true.
  Proof. cbn. now rewrite Hstar. Qed.

  (* value-or-"*" of a valid optional field *)
  Lemma val_field cls o :
    cls 42 = true -> ok_opt (ok_field cls) o ->
    val o <> [] /\ forallb cls (val o) = true /\ edges_ok is_space (val o) = true.
  Proof.
    intros Hc. destruct o as [[|c r]|]; cbn [ok_opt val].
    - intros [H _]. discriminate H.
    - intros [H1 H2]. repeat split; auto. discriminate.
    - intros _. repeat split; [discriminate|cbn; now rewrite Hc|apply star_edges].
  Qed.

  Lemma val_wf o :
    ok_opt ok_wfv o -> wf_ok (val o) /\ edges_ok is_space (val o) = true.
  Proof.
    destruct o as [[|c r]|]; cbn [ok_opt val].
    - intros [H _]. discriminate H.
    - intros [H1 H2]. auto.
    - intros _. split; [split; reflexivity|apply star_edges].
  Qed.

  Lemma osel_field o : ok_opt (ok_field c_sel) o -> ok_osel o.
  Proof.
    destruct o as [v|]; cbn; [|auto]. intros [H1 H2]. split; [|exact H2].
    now apply (edges_ok_nonempty is_space).
  Qed.

  Lemma keep_edges sel o :
    ok_opt (ok_field c_sel) o -> ostrip is_space (keep sel o) = keep sel o.
  Proof.
    destruct sel; cbn [keep]; [|reflexivity]. destruct o as [v|]; cbn [ok_opt]; [|reflexivity].
    intros [H _]. now apply ostrip_id.
  Qed.

  Lemma truthy_some o v : truthy o = true -> val o = v -> o = Some v.
  Proof. destruct o as [[|c r]|]; cbn; try discriminate. now intros _ <-. Qed.

  (* the formatted job *)
  Lemma digits_edges v :
    v <> [] -> forallb is_ascii_digit v = true -> edges_ok is_space v = true.
  Proof.
    intros Hne Hd. rewrite forallb_forall in Hd. unfold edges_ok.
    destruct v as [|c r]; [congruence|].
    rewrite (Hdigit c) by (apply Hd; now left).
    rewrite (Hdigit (last (c :: r) 0)); [reflexivity|].
    apply Hd. destruct (exists_last Hne) as (l & x & E). rewrite E, last_last.
    apply in_or_app. right. now left.
  Qed.

  Lemma drop_zeros_digits v :
    forallb is_ascii_digit v = true -> forallb is_ascii_digit (drop_zeros v) = true.
  Proof.
    induction v as [|c r IH]; [auto|]. cbn [drop_zeros]. intros H.
    destruct (c =? 48); [|exact H]. cbn in H. apply andb_true_iff in H. now apply IH.
  Qed.

  Lemma fmt_job_ok v :
    ok_jobv v ->
    exists jv, fmt_job v = Some jv /\ jv <> [] /\ forallb c_sel jv = true
               /\ edges_ok is_space jv = true.
  Proof.
    intros [He [->|Hd]].
    - exists [78; 78]. repeat split; auto. discriminate.
    - unfold fmt_job. destruct (codes_eqb v [78; 78]) eqn:E.
      + apply codes_eqb_eq in E. subst v. discriminate Hd.
      + pose proof (edges_ok_nonempty _ _ He) as Hne. apply nonempty_true in Hne.
        rewrite Hne, Hd. cbn [andb].
        pose proof (drop_zeros_digits v Hd) as Hz.
        assert (Hall : forall jv, jv <> [] -> forallb is_ascii_digit jv = true ->
                 jv <> [] /\ forallb c_sel jv = true /\ edges_ok is_space jv = true).
        { intros jv H1 H2. repeat split; auto.
          - apply (forallb_impl is_ascii_digit c_sel _ digit_sel H2).
          - now apply digits_edges. }
        destruct (drop_zeros v) as [|d [|d' ds]] eqn:Ez.
        * eexists. split; [reflexivity|]. apply Hall; [discriminate|reflexivity].
        * eexists. split; [reflexivity|]. apply Hall; [discriminate|].
          cbn in Hz |- *. exact Hz.
        * eexists. split; [reflexivity|]. apply Hall; [discriminate|exact Hz].
  Qed.

  Lemma jobfmt_valid t :
    valid_tokens t ->
    exists jv, jobfmt t = Some jv /\
      (truthy (job t) = true ->
       jv <> [] /\ forallb c_sel jv = true /\ edges_ok is_space jv = true).
  Proof.
    intros V. unfold jobfmt. destruct (job t) as [[|c r]|] eqn:Ej; cbn [truthy val].
    - exists []. split; [reflexivity|discriminate].
    - pose proof (v_job t V) as Hj. rewrite Ej in Hj. cbn in Hj.
      destruct (fmt_job_ok _ Hj) as (jv & H1 & H2). exists jv. split; auto.
    - exists []. split; [reflexivity|discriminate].
  Qed.

  (* ---------- the body "cycle[/task[/job]]" ---------- *)
  Lemma body_parse sel t jv :
    valid_tokens t ->
    (truthy (job t) = true -> jv <> [] /\ forallb c_sel jv = true) ->
    parse_rel (body_of sel t jv) = Some (r6_of sel t jv)
    /\ nonl (body_of sel t jv) = true
    /\ exists c b, body_of sel t jv = c :: b /\ (c =? 47) = false.
  Proof.
    intros V Hjv.
    destruct (val_field c_user (cycle t) eq_refl (v_cyc t V)) as (Hc1 & Hc2 & _).
    destruct (val_field c_sel (task t) eq_refl (v_task t V)) as (Ht1 & Ht2 & _).
    pose proof (osel_field _ (v_cycs t V)) as Hcs.
    pose proof (osel_field _ (v_tasks t V)) as Hts.
    pose proof (osel_field _ (v_jobs t V)) as Hjs.
    pose proof (forallb_impl c_user c_sel _ c_user_sel Hc2) as Hc3.
    pose proof (parse_cycle_print sel _ _ Hc1 Hc2 Hcs) as PC.
    pose proof (parse_namesel_print sel _ _ Ht1 Ht2 Hts) as PT.
    pose proof (with_sel_no_slash sel _ _ Hc3 Hcs) as SC.
    pose proof (with_sel_no_slash sel _ _ Ht2 Hts) as ST.
    pose proof (with_sel_nonl sel _ _ Hc3 Hcs) as NC.
    pose proof (with_sel_nonl sel _ _ Ht2 Hts) as NT.
    pose proof (with_sel_nonempty sel _ (task_sel t) Ht1) as ET.
    assert (Hfirst : exists c b, with_sel sel (val (cycle t)) (cycle_sel t) = c :: b
                                 /\ (c =? 47) = false).
    { destruct (val (cycle t)) as [|c r] eqn:E; [congruence|].
      assert (Hc : (c =? 47) = false).
      { cbn in Hc2. apply andb_true_iff in Hc2. destruct Hc2 as [Hc2 _].
        revert Hc2. unfold c_user. zb. }
      unfold with_sel. destruct (sel && truthy (cycle_sel t)); cbn [app]; eauto. }
    unfold body_of, r6_of.
    destruct (truthy (task t) || truthy (job t)) eqn:Etj.
    - destruct (truthy (job t)) eqn:Ej.
      + destruct (Hjv eq_refl) as [Hj1 Hj2].
        pose proof (parse_namesel_print sel _ _ Hj1 Hj2 Hjs) as PJ.
        pose proof (with_sel_no_slash sel _ _ Hj2 Hjs) as SJ.
        pose proof (with_sel_nonl sel _ _ Hj2 Hjs) as NJ.
        pose proof (with_sel_nonempty sel _ (job_sel t) Hj1) as EJ.
        split; [now apply parse_rel_3|]. split.
        * rewrite !nonl_app. cbn [nonl forallb] in *. rewrite NC. cbn.
          rewrite forallb_app. fold (nonl (with_sel sel (val (task t)) (task_sel t))).
          rewrite NT. cbn. exact NJ.
        * destruct Hfirst as (c & b & E & Hc). rewrite E. cbn [app]. eauto.
      + rewrite app_nil_r. split; [now apply parse_rel_2|]. split.
        * rewrite nonl_app, NC. cbn. exact NT.
        * destruct Hfirst as (c & b & E & Hc). rewrite E. cbn [app]. eauto.
    - rewrite app_nil_r. split; [now apply parse_rel_1|]. split; [exact NC|exact Hfirst].
  Qed.

  (* ---------- stripping the parsed values changes nothing ---------- *)
  Lemma strip_canon sel t jv u w ws :
    valid_tokens t ->
    (truthy (job t) = true -> edges_ok is_space jv = true) ->
    ostrip is_space u = u -> ostrip is_space w = w -> ostrip is_space ws = ws ->
    strip_tokens is_space (with_rel u w ws (Some (r6_of sel t jv)))
    = with_rel u w ws (Some (r6_of sel t jv)).
  Proof.
    intros V Hjv Hu Hw Hws.
    destruct (val_field c_user (cycle t) eq_refl (v_cyc t V)) as (_ & _ & Ec).
    destruct (val_field c_sel (task t) eq_refl (v_task t V)) as (_ & _ & Et).
    pose proof (keep_edges sel _ (v_cycs t V)) as Kc.
    pose proof (keep_edges sel _ (v_tasks t V)) as Kt.
    pose proof (keep_edges sel _ (v_jobs t V)) as Kj.
    unfold r6_of, with_rel, strip_tokens.
    destruct (truthy (task t) || truthy (job t)); [destruct (truthy (job t)) eqn:Ej|];
      cbn [user workflow workflow_sel cycle cycle_sel task task_sel job job_sel];
      rewrite ?Hu, ?Hw, ?Hws, ?Kc, ?Kt, ?Kj, ?(ostrip_id _ _ Ec), ?(ostrip_id _ _ Et),
        ?(ostrip_id _ _ (Hjv eq_refl)); reflexivity.
  Qed.

  (* ---------- parsed tokens = canonical tokens ---------- *)
  Definition uopt (t : tokens) : option codes :=
    if truthy (user t) then Some (val (user t)) else None.

  Lemma canon_full sel t jv :
    truthy (user t) || truthy (workflow t) = true ->
    truthy (cycle t) || truthy (task t) || truthy (job t) = true ->
    jobfmt t = Some jv ->
    with_rel (uopt t) (Some (val (workflow t))) (keep sel (workflow_sel t))
             (Some (r6_of sel t jv)) = canon sel t.
  Proof.
    unfold canon, with_rel, r6_of, jobfmt, uopt. intros Ha Hf Hj.
    destruct (truthy (user t)), (truthy (workflow t)); try discriminate Ha;
    destruct (truthy (cycle t)), (truthy (task t)), (truthy (job t)); try discriminate Hf;
      cbn [negb andb orb] in *; rewrite ?Hj; reflexivity.
  Qed.

  Lemma canon_relative sel t jv :
    truthy (user t) = false -> truthy (workflow t) = false ->
    truthy (cycle t) || truthy (task t) || truthy (job t) = true ->
    jobfmt t = Some jv ->
    with_rel None None None (Some (r6_of sel t jv)) = canon sel t.
  Proof.
    unfold canon, with_rel, r6_of, jobfmt. intros -> -> Hf Hj.
    destruct (truthy (cycle t)), (truthy (task t)), (truthy (job t)); try discriminate Hf;
      cbn [negb andb orb] in *; rewrite ?Hj; reflexivity.
  Qed.

  Lemma canon_partial_wf sel t :
    truthy (workflow t) = true ->
    truthy (cycle t) || truthy (task t) || truthy (job t) = false ->
    with_rel (uopt t) (Some (val (workflow t))) (keep sel (workflow_sel t)) None = canon sel t.
  Proof.
    unfold canon, with_rel, uopt. intros -> Hf.
    apply orb_false_iff in Hf. destruct Hf as [Hf Hj]. apply orb_false_iff in Hf.
    destruct Hf as [Hc Ht]. rewrite Hc, Ht, Hj.
    destruct (truthy (user t)); reflexivity.
  Qed.

  Lemma canon_partial_user sel t :
    truthy (user t) = true -> truthy (workflow t) = false ->
    truthy (cycle t) || truthy (task t) || truthy (job t) = false ->
    with_rel (Some (val (user t))) None None None = canon sel t.
  Proof.
    unfold canon, with_rel. intros -> -> Hf.
    apply orb_false_iff in Hf. destruct Hf as [Hf Hj]. apply orb_false_iff in Hf.
    destruct Hf as [Hc Ht]. rewrite Hc, Ht, Hj. reflexivity.
  Qed.

  (* ---------- the user / workflow prefix ---------- *)
  Lemma wp_nonl sel W ws : wf_ok W -> ok_osel ws -> nonl (with_sel sel W ws) = true.
  Proof.
    intros HW Hs. pose proof (wf_ok_nonl _ HW) as Hn.
    destruct (with_sel_cases sel W ws Hs) as [[_ ->]|(x & _ & _ & Hxc & ->)]; [exact Hn|].
    rewrite nonl_app, Hn. cbn. now apply c_sel_nonl.
  Qed.

  Lemma wp_first sel W ws : wf_ok W -> exists c r, with_sel sel W ws = c :: r /\ c_wf c = true.
  Proof.
    intros [Hc _]. destruct W as [|c r]; [destruct Hc|].
    unfold with_sel. destruct (sel && truthy ws); cbn [app]; eauto.
  Qed.

  Lemma upre_nonl t : valid_tokens t -> nonl (upre t) = true.
  Proof.
    intros V. unfold upre. destruct (truthy (user t)); [|reflexivity].
    destruct (val_field c_user (user t) eq_refl (v_user t V)) as (_ & H & _).
    cbn. rewrite nonl_app. cbn. rewrite andb_true_r.
    apply c_sel_nonl. apply (forallb_impl c_user c_sel _ c_user_sel H).
  Qed.

  Lemma parse_univ_pref t rest :
    valid_tokens t -> (exists c r, rest = c :: r /\ c_wf c = true) ->
    parse_univ (upre t ++ rest) = parse_wf (uopt t) rest.
  Proof.
    intros V (c & r & -> & Hc). unfold upre, uopt. destruct (truthy (user t)).
    - destruct (val_field c_user (user t) eq_refl (v_user t V)) as (H1 & H2 & _).
      cbn [app]. rewrite <- app_assoc. cbn [app].
      apply parse_univ_user_wf; auto. discriminate.
    - cbn [app]. eapply parse_univ_nouser; eauto.
  Qed.

  (* ================= formatting then re-parsing ================= *)
  Theorem detok_tok sel rel t s :
    valid_tokens t -> detokenise sel rel t = DOk s ->
    tokenise is_space (rel && negb (truthy (user t) || truthy (workflow t))) s
    = Some (canon sel t).
  Proof.
    intros V Hd.
    destruct (jobfmt_valid t V) as (jv & Hjf & Hjv).
    destruct (val_wf _ (v_wf t V)) as (HW & EW).
    pose proof (osel_field _ (v_wfs t V)) as Hws.
    assert (Hjv1 : truthy (job t) = true -> jv <> [] /\ forallb c_sel jv = true)
      by (intros H; destruct (Hjv H) as (A & B & _); auto).
    assert (Hjv2 : truthy (job t) = true -> edges_ok is_space jv = true)
      by (intros H; destruct (Hjv H) as (_ & _ & C); auto).
    destruct (body_parse sel t jv V Hjv1) as (PB & NB & c0 & b0 & EB & Hc0).
    assert (Uo : ostrip is_space (uopt t) = uopt t).
    { unfold uopt. destruct (truthy (user t)); [|reflexivity].
      destruct (val_field c_user (user t) eq_refl (v_user t V)) as (_ & _ & E).
      now apply ostrip_id. }
    pose proof (ostrip_id _ _ EW) as Wo.
    pose proof (keep_edges sel _ (v_wfs t V)) as WSo.
    destruct (truthy (user t) || truthy (workflow t)) eqn:Ea;
      destruct (truthy (cycle t) || truthy (task t) || truthy (job t)) eqn:Ef.
    - (* absolute, with a task-like part *)
      rewrite (detok_full sel rel t jv Ea Ef Hjf) in Hd. inversion Hd; subst s; clear Hd.
      rewrite andb_false_r. cbn [negb].
      rewrite (tokenise_abs is_space _ (with_rel (uopt t) (Some (val (workflow t)))
                 (keep sel (workflow_sel t)) (Some (r6_of sel t jv)))).
      + rewrite (strip_canon sel t jv _ _ _ V Hjv2 Uo Wo WSo).
        now rewrite (canon_full sel t jv Ea Ef Hjf).
      + rewrite !nonl_app, (upre_nonl t V), (wp_nonl sel _ _ HW Hws). cbn. exact NB.
      + rewrite parse_univ_pref; [|exact V|].
        * apply parse_wf_full; auto. rewrite EB. discriminate.
        * destruct (wp_first sel _ (workflow_sel t) HW) as (c & r & E & Hc).
          rewrite E. cbn [app]. eauto.
    - (* absolute, user and/or workflow only *)
      rewrite (detok_partial sel rel t Ea Ef) in Hd. inversion Hd; subst s; clear Hd.
      rewrite andb_false_r. cbn [negb].
      destruct (truthy (workflow t)) eqn:Ew.
      + rewrite (tokenise_abs is_space _ (with_rel (uopt t) (Some (val (workflow t)))
                   (keep sel (workflow_sel t)) None)).
        * unfold with_rel, strip_tokens.
          cbn [user workflow workflow_sel cycle cycle_sel task task_sel job job_sel].
          rewrite Uo, Wo, WSo. now rewrite <- (canon_partial_wf sel t Ew Ef).
        * rewrite nonl_app, (upre_nonl t V). cbn. now apply wp_nonl.
        * rewrite parse_univ_pref; [|exact V|now apply wp_first].
          now apply parse_wf_partial.
      + rewrite orb_false_r in Ea.
        destruct (val_field c_user (user t) eq_refl (v_user t V)) as (U1 & U2 & U3).
        rewrite (tokenise_abs is_space _ (with_rel (Some (val (user t))) None None None)).
        * unfold with_rel, strip_tokens.
          cbn [user workflow workflow_sel cycle cycle_sel task task_sel job job_sel].
          rewrite (ostrip_id _ _ U3). cbn [ostrip].
          now rewrite <- (canon_partial_user sel t Ea Ew Ef).
        * cbn. apply c_sel_nonl. apply (forallb_impl c_user c_sel _ c_user_sel U2).
        * now apply parse_univ_user.
    - (* relative *)
      apply orb_false_iff in Ea. destruct Ea as [Eu Ew].
      rewrite (detok_relative sel rel t jv Eu Ew Ef Hjf) in Hd. inversion Hd; subst s; clear Hd.
      rewrite andb_true_r.
      assert (R : strip_tokens is_space (with_rel None None None (Some (r6_of sel t jv)))
                  = canon sel t).
      { rewrite (strip_canon sel t jv None None None V Hjv2 eq_refl eq_refl eq_refl).
        now apply canon_relative. }
      destruct rel; cbn [app].
      + rewrite EB. rewrite EB in PB, NB. rewrite (tokenise_rel_bare is_space c0 b0 _ NB Hc0 PB).
        now rewrite R.
      + rewrite (tokenise_rel_prefixed is_space false _ _ NB PB). now rewrite R.
    - (* no tokens at all *)
      apply orb_false_iff in Ea. destruct Ea as [Eu Ew].
      rewrite (detok_none sel rel t Eu Ew Ef) in Hd. discriminate Hd.
  Qed.

  (* valid tokens can always be formatted, unless there is no regular token *)
  Lemma detok_total sel rel t :
    valid_tokens t ->
    truthy (user t) || truthy (workflow t) || truthy (cycle t) || truthy (task t)
    || truthy (job t) = true ->
    exists s, detokenise sel rel t = DOk s.
  Proof.
    intros V Hany. destruct (jobfmt_valid t V) as (jv & Hjf & _).
    destruct (truthy (user t) || truthy (workflow t)) eqn:Ea;
      destruct (truthy (cycle t) || truthy (task t) || truthy (job t)) eqn:Ef.
    - eexists. now apply (detok_full sel rel t jv).
    - eexists. now apply detok_partial.
    - apply orb_false_iff in Ea. destruct Ea as [Eu Ew].
      eexists. now apply (detok_relative sel rel t jv).
    - exfalso. cbn [orb] in Hany. rewrite Hany in Ef. discriminate.
  Qed.

  (* ================= parsing then formatting a canonical string ================= *)
  Lemma truthy_val o : truthy (Some (val o)) = true.
  Proof. destruct o as [[|c r]|]; reflexivity. Qed.
  Lemma val_val o : val (Some (val o)) = val o.
  Proof. destruct o as [[|c r]|]; reflexivity. Qed.
  Lemma with_sel_keep sel base s : with_sel sel base (keep sel s) = with_sel sel base s.
  Proof. destruct sel; reflexivity. Qed.

  Lemma drop_zeros_head v d r : drop_zeros v = d :: r -> (d =? 48) = false.
  Proof.
    induction v as [|c v IH]; [discriminate|]. cbn [drop_zeros].
    destruct (c =? 48) eqn:E; [exact IH|]. intros H. inversion H; subst. exact E.
  Qed.

  Lemma fmt_job_idem v jv : fmt_job v = Some jv -> fmt_job jv = Some jv /\ jv <> [].
  Proof.
    unfold fmt_job. destruct (codes_eqb v [78; 78]) eqn:E.
    - intros H. inversion H; subst jv. rewrite E. split; [reflexivity|].
      apply codes_eqb_eq in E. subst v. discriminate.
    - destruct (nonempty v && forallb is_ascii_digit v) eqn:Ed; [|discriminate].
      apply andb_true_iff in Ed. destruct Ed as [_ Hd].
      pose proof (drop_zeros_digits v Hd) as Hz.
      destruct (drop_zeros v) as [|d [|d' ds]] eqn:Ez; intros H; inversion H; subst jv; clear H.
      + split; [reflexivity|discriminate].
      + pose proof (drop_zeros_head _ _ _ Ez) as Hd0.
        cbn in Hz. rewrite andb_true_r in Hz.
        split; [|discriminate]. cbn [codes_eqb list_eqb]. 
        replace (48 =? 78) with false by reflexivity. cbn [andb nonempty forallb].
        replace (is_ascii_digit 48) with true by reflexivity. rewrite Hz. cbn [andb drop_zeros].
        rewrite Z.eqb_refl, Hd0. reflexivity.
      + pose proof (drop_zeros_head _ _ _ Ez) as Hd0.
        split; [|discriminate].
        assert (En : codes_eqb (d :: d' :: ds) [78; 78] = false).
        { destruct (codes_eqb (d :: d' :: ds) [78; 78]) eqn:En; [|reflexivity].
          apply codes_eqb_eq in En. inversion En; subst. discriminate Hz. }
        rewrite En, Hz. cbn [nonempty andb drop_zeros]. rewrite Hd0. reflexivity.
  Qed.

  Lemma detok_canon sel rel t :
    valid_tokens t -> detokenise sel rel (canon sel t) = detokenise sel rel t.
  Proof.
    intros V. destruct (jobfmt_valid t V) as (jv & Hjf & _). unfold jobfmt in Hjf.
    unfold detokenise, canon.
    cbn [user workflow workflow_sel cycle cycle_sel task task_sel job job_sel].
    destruct (truthy (user t)) eqn:Eu, (truthy (workflow t)) eqn:Ew,
      (truthy (cycle t)) eqn:Ec, (truthy (task t)) eqn:Et, (truthy (job t)) eqn:Ej;
      cbn [negb andb orb]; rewrite ?Hjf;
      try (destruct (fmt_job_idem _ _ Hjf) as [Hi Hne]; destruct jv as [|j0 jr]; [congruence|]);
      rewrite ?truthy_val, ?val_val, ?with_sel_keep;
      cbn [truthy val negb andb orb]; rewrite ?Hi;
      cbn [negb andb orb]; rewrite ?with_sel_keep; reflexivity.
  Qed.

  Theorem tok_detok sel rel t s :
    valid_tokens t -> detokenise sel rel t = DOk s ->
    exists t', tokenise is_space (rel && negb (truthy (user t) || truthy (workflow t))) s
               = Some t' /\ detokenise sel rel t' = DOk s.
  Proof.
    intros V Hd. exists (canon sel t). split; [now apply detok_tok|].
    now rewrite detok_canon.
  Qed.

  (* ================= relative and absolute forms ================= *)
  Lemma task_part_valid t : valid_tokens t -> valid_tokens (task_part t).
  Proof. intros V. destruct V. constructor; cbn; auto. Qed.

  Lemma task_part_canon sel t :
    truthy (cycle t) || truthy (task t) || truthy (job t) = true ->
    task_part (canon sel t) = canon sel (task_part t).
  Proof.
    intros Hf. unfold task_part, canon.
    cbn [user workflow workflow_sel cycle cycle_sel task task_sel job job_sel truthy].
    cbn [orb andb]. reflexivity.
  Qed.

  Theorem relative_absolute sel t sa sr :
    valid_tokens t ->
    detokenise sel false t = DOk sa ->               (* the full id            *)
    detokenise sel true (task_part t) = DOk sr ->    (* Tokens.relative_id ... *)
    exists ta tr,
      tokenise is_space false sa = Some ta /\ tokenise is_space true sr = Some tr
      /\ task_part ta = tr.
  Proof.
    intros V Ha Hr.
    exists (canon sel t), (canon sel (task_part t)).
    split; [exact (detok_tok sel false t sa V Ha)|]. split.
    - exact (detok_tok sel true (task_part t) sr (task_part_valid t V) Hr).
    - apply task_part_canon.
      destruct (truthy (cycle t) || truthy (task t) || truthy (job t)) eqn:Ef; [reflexivity|].
      rewrite (detok_none sel true (task_part t)) in Hr; [discriminate| | |exact Ef]; reflexivity.
  Qed.
End Main.

(* ================= legacy identifiers ================= *)
Lemma span_split p s : forall a b, span p s = (a, b) -> s = a ++ b.
Proof.
  induction s as [|c s IH]; cbn [span]; intros a b H; [now inversion H|].
  destruct (p c); [|now inversion H].
  destruct (span p s) as [a' b'] eqn:E. inversion H; subst. cbn. now rewrite (IH a' b eq_refl).
Qed.

Lemma span_stop p s : forall a x b, span p s = (a, x :: b) -> p x = false.
Proof.
  induction s as [|c s IH]; cbn [span]; intros a x b H; [inversion H|].
  destruct (p c) eqn:Ec; [|inversion H; subst; exact Ec].
  destruct (span p s) as [a' b'] eqn:E. inversion H; subst. eapply IH. reflexivity.
Qed.

Lemma forallb_In_false (p : Z -> bool) l x : In x l -> p x = false -> forallb p l = false.
Proof.
  intros Hin Hp. destruct (forallb p l) eqn:E; [|reflexivity].
  rewrite forallb_forall in E. rewrite (E x Hin) in Hp. discriminate.
Qed.

Definition optsel (s : option codes) : codes :=
  match s with Some v => 58 :: v | None => [] end.
(* task.cycle[:sel]  and  cycle/task[:sel]  (the latter is also the new relative form) *)
Definition dot_form (tk cyc : codes) (sel : option codes) : codes := tk ++ 46 :: cyc ++ optsel sel.
Definition slash_form (tk cyc : codes) (sel : option codes) : codes := cyc ++ 47 :: tk ++ optsel sel.

Lemma split_sel_print body sel :
  forallb not_colon body = true -> ok_osel sel ->
  split_sel (body ++ optsel sel) = Some (body, sel).
Proof.
  intros Hb Hs. unfold split_sel. destruct sel as [v|]; cbn [optsel].
  - destruct Hs as [Hne Hv]. rewrite (span_app not_colon body (58 :: v) Hb) by reflexivity.
    apply nonempty_true in Hne. now rewrite Hne, Hv.
  - rewrite app_nil_r, (span_all _ _ Hb). reflexivity.
Qed.

Lemma truthy_ne (v : codes) : v <> [] -> truthy (Some v) = true.
Proof. destruct v; [congruence|reflexivity]. Qed.
Lemma val_ne (v : codes) : v <> [] -> val (Some v) = v.
Proof. destruct v; [congruence|reflexivity]. Qed.

Lemma optsel_nonl s : ok_osel s -> nonl (optsel s) = true.
Proof. destruct s as [v|]; cbn; [|reflexivity]. intros [_ H]. now apply c_sel_nonl. Qed.

Lemma with_sel_optsel v s : ok_osel s -> with_sel true v s = v ++ optsel s.
Proof.
  unfold with_sel. destruct s as [[|c r]|]; cbn.
  - intros [H _]. congruence.
  - reflexivity.
  - now rewrite app_nil_r.
Qed.

Section Legacy.
  Variable is_space is_digit : Z -> bool.
  Hypothesis Hstar : is_space 42 = false.
  Hypothesis Hdigit : forall c, is_ascii_digit c = true -> is_space c = false.
  (* what the regex engine's \d matches lies inside the legacy cycle class *)
  Hypothesis Hd_cls : forall c, is_digit c = true -> l_cyc c = true.

  Record legacy_ok (tk : codes) (d : Z) (cr : codes) (sel : option codes) : Prop := {
    lo_task : ok_field is_space l_task tk;
    lo_digit : is_digit d = true;
    lo_cyc : forallb l_cyc cr = true;
    lo_edge : edges_ok is_space (d :: cr) = true;
    lo_sel : ok_opt (ok_field is_space c_sel) sel }.

  Section Fields.
    Variables (tk : codes) (d : Z) (cr : codes) (sel : option codes).
    Hypothesis L : legacy_ok tk d cr sel.

    Let cyc := d :: cr.
    Let lt := legacy_tokens tk cyc sel.

    Lemma lg_cyc_cls : forallb l_cyc cyc = true.
    Proof. subst cyc. cbn. now rewrite (Hd_cls d (lo_digit _ _ _ _ L)), (lo_cyc _ _ _ _ L). Qed.

    Lemma lg_cyc_user : forallb c_user cyc = true.
    Proof. apply (forallb_impl l_cyc c_user _ l_cyc_user lg_cyc_cls). Qed.

    Lemma lg_task : tk <> [] /\ forallb c_user tk = true.
    Proof.
      destruct (lo_task _ _ _ _ L) as [H1 H2]. split; [|exact H2].
      now apply (edges_ok_nonempty is_space).
    Qed.

    Lemma lg_sel : ok_osel sel.
    Proof. apply (osel_field is_space). exact (lo_sel _ _ _ _ L). Qed.

    Lemma lg_valid : valid_tokens is_space lt.
    Proof.
      subst lt. constructor; cbn; auto.
      - split; [exact (lo_edge _ _ _ _ L)|exact lg_cyc_user].
      - destruct (lo_task _ _ _ _ L) as [H1 H2]. split; [exact H1|].
        apply (forallb_impl c_user c_sel _ c_user_sel H2).
      - exact (lo_sel _ _ _ _ L).
    Qed.

    Lemma lg_strip : strip_tokens is_space lt = lt.
    Proof.
      subst lt cyc. unfold strip_tokens, legacy_tokens.
      cbn [user workflow workflow_sel cycle cycle_sel task task_sel job job_sel].
      destruct (lo_task _ _ _ _ L) as [H1 _].
      rewrite (ostrip_id _ _ (lo_edge _ _ _ _ L)), (ostrip_id _ _ H1).
      pose proof (keep_edges is_space true sel (lo_sel _ _ _ _ L)) as H3. cbn [keep] in H3.
      now rewrite H3.
    Qed.

    Lemma lg_canon : canon true lt = lt.
    Proof.
      subst lt. destruct lg_task as [Hne _].
      unfold canon, legacy_tokens.
      cbn [user workflow workflow_sel cycle cycle_sel task task_sel job job_sel].
      rewrite (truthy_ne _ Hne), (val_ne _ Hne). reflexivity.
    Qed.

    Lemma lg_with_sel : with_sel true tk sel = tk ++ optsel sel.
    Proof. apply with_sel_optsel. exact lg_sel. Qed.

    (* the upgraded identifier *)
    Lemma lg_detok rel :
      detokenise true rel lt = DOk ((if rel then [] else [47; 47]) ++ slash_form tk cyc sel).
    Proof.
      rewrite (detok_relative true rel lt []); try reflexivity.
      unfold body_of, slash_form. subst lt. destruct lg_task as [Hne _].
        cbn [legacy_tokens cycle cycle_sel task task_sel job job_sel].
        rewrite (truthy_ne _ Hne), (val_ne _ Hne). cbn [truthy orb]. rewrite app_nil_r.
        change (with_sel true (val (Some cyc)) None) with cyc.
        now rewrite lg_with_sel.
    Qed.

    Lemma lg_tok_new rel :
      tokenise is_space rel ((if rel then [] else [47; 47]) ++ slash_form tk cyc sel) = Some lt.
    Proof.
      pose proof (detok_tok is_space Hstar Hdigit true rel lt _ lg_valid (lg_detok rel)) as H.
      rewrite lg_canon in H. rewrite <- H. subst lt. cbn [legacy_tokens user workflow truthy orb negb].
      now rewrite andb_true_r.
    Qed.

    Lemma lg_nonl_dot : nonl (dot_form tk cyc sel) = true.
    Proof.
      unfold dot_form. destruct lg_task as [_ Ht].
      rewrite nonl_app, (c_sel_nonl _ (forallb_impl c_user c_sel _ c_user_sel Ht)). cbn [andb].
      change (46 :: cyc ++ optsel sel) with ([46] ++ cyc ++ optsel sel).
      rewrite !nonl_app, (c_sel_nonl _ (forallb_impl c_user c_sel _ c_user_sel lg_cyc_user)).
      cbn [nonl forallb andb]. exact (optsel_nonl _ lg_sel).
    Qed.

    Lemma lg_nonl_slash : nonl (slash_form tk cyc sel) = true.
    Proof.
      unfold slash_form. destruct lg_task as [_ Ht].
      rewrite nonl_app, (c_sel_nonl _ (forallb_impl c_user c_sel _ c_user_sel lg_cyc_user)).
      cbn [andb]. change (47 :: tk ++ optsel sel) with ([47] ++ tk ++ optsel sel).
      rewrite !nonl_app, (c_sel_nonl _ (forallb_impl c_user c_sel _ c_user_sel Ht)).
      cbn [nonl forallb andb]. exact (optsel_nonl _ lg_sel).
    Qed.

    Lemma lg_parse_dot : parse_legacy_dot is_digit (dot_form tk cyc sel) = Some lt.
    Proof.
      destruct lg_task as [Hne Ht].
      unfold parse_legacy_dot, dot_form.
      replace (tk ++ 46 :: cyc ++ optsel sel) with ((tk ++ 46 :: cyc) ++ optsel sel)
        by (rewrite <- app_assoc; reflexivity).
      rewrite split_sel_print; [| |exact lg_sel].
      - assert (Hr : rev (tk ++ 46 :: cyc) = rev cyc ++ 46 :: rev tk).
        { rewrite rev_app_distr. cbn [rev]. rewrite <- !app_assoc. reflexivity. }
        rewrite Hr.
        rewrite (span_app not_dot (rev cyc) (46 :: rev tk)); [| |reflexivity].
        + rewrite !rev_involutive. subst cyc. cbv beta iota zeta.
          rewrite (lo_digit _ _ _ _ L), (lo_cyc _ _ _ _ L).
          apply nonempty_true in Hne. rewrite Hne.
          unfold l_task. rewrite Ht. reflexivity.
        + rewrite forallb_rev. apply (forallb_impl l_cyc not_dot _ l_cyc_not_dot lg_cyc_cls).
      - rewrite forallb_app, (forallb_impl c_user not_colon _ c_user_not_colon Ht).
        cbn [forallb andb]. replace (not_colon 46) with true by reflexivity.
        apply (forallb_impl c_user not_colon _ c_user_not_colon lg_cyc_user).
    Qed.

    Lemma lg_tokenise_dot : legacy_tokenise is_space is_digit (dot_form tk cyc sel) = Some lt.
    Proof.
      unfold legacy_tokenise. rewrite (drop_nl_id _ lg_nonl_dot), lg_parse_dot. now rewrite lg_strip.
    Qed.

    Lemma lg_body_slash : split_sel (slash_form tk cyc sel) = Some (cyc ++ 47 :: tk, sel).
    Proof.
      destruct lg_task as [Hne Ht]. unfold slash_form.
      replace (cyc ++ 47 :: tk ++ optsel sel) with ((cyc ++ 47 :: tk) ++ optsel sel)
        by (rewrite <- app_assoc; reflexivity).
      rewrite split_sel_print; [reflexivity| |exact lg_sel].
      rewrite forallb_app, (forallb_impl c_user not_colon _ c_user_not_colon lg_cyc_user).
      cbn [forallb andb]. replace (not_colon 47) with true by reflexivity.
      apply (forallb_impl c_user not_colon _ c_user_not_colon Ht).
    Qed.

    Lemma lg_parse_slash : parse_legacy_slash is_digit (slash_form tk cyc sel) = Some lt.
    Proof.
      destruct lg_task as [Hne Ht].
      unfold parse_legacy_slash. rewrite lg_body_slash.
      rewrite (span_app not_slash cyc (47 :: tk)); [| |reflexivity].
      - subst cyc. cbv beta iota zeta. rewrite (lo_digit _ _ _ _ L), (lo_cyc _ _ _ _ L).
        apply nonempty_true in Hne. rewrite Hne.
        unfold l_task. rewrite Ht. reflexivity.
      - apply (forallb_impl c_user not_slash _
                 (fun c H => c_sel_not_slash c (c_user_sel c H)) lg_cyc_user).
    Qed.

    (* the "." pattern is tried first; it cannot match an identifier with a "/" *)
    Lemma lg_dot_rejects_slash : parse_legacy_dot is_digit (slash_form tk cyc sel) = None.
    Proof.
      unfold parse_legacy_dot. rewrite lg_body_slash.
      destruct (span not_dot (rev (cyc ++ 47 :: tk))) as [cycr restr] eqn:E.
      pose proof (span_split _ _ _ _ E) as Hs.
      destruct restr as [|x taskr]; [reflexivity|].
      pose proof (span_stop _ _ _ _ _ E) as Hx.
      assert (Hin : In 47 (cycr ++ x :: taskr)).
      { rewrite <- Hs, <- in_rev. apply in_or_app. right. now left. }
      destruct (rev cycr) as [|d' cr'] eqn:Er; [reflexivity|].
      destruct (is_digit d' && forallb l_cyc cr' && nonempty (rev taskr)
                && forallb l_task (rev taskr)) eqn:Ec; [exfalso|reflexivity].
      apply andb_true_iff in Ec. destruct Ec as [Ec H4]. apply andb_true_iff in Ec.
      destruct Ec as [Ec _]. apply andb_true_iff in Ec. destruct Ec as [H1 H2].
      apply in_app_or in Hin. destruct Hin as [Hin|[Hin|Hin]].
      - apply in_rev in Hin. rewrite Er in Hin. destruct Hin as [->|Hin].
        + pose proof (Hd_cls _ H1) as Hc. discriminate Hc.
        + rewrite (forallb_In_false l_cyc cr' 47 Hin eq_refl) in H2. discriminate.
      - subst x. discriminate Hx.
      - apply in_rev in Hin. rewrite (forallb_In_false l_task _ 47 Hin eq_refl) in H4.
        discriminate.
    Qed.

    Lemma lg_tokenise_slash :
      legacy_tokenise is_space is_digit (slash_form tk cyc sel) = Some lt.
    Proof.
      unfold legacy_tokenise.
      rewrite (drop_nl_id _ lg_nonl_slash), lg_dot_rejects_slash, lg_parse_slash.
      cbn [option_map]. now rewrite lg_strip.
    Qed.

    (* upgrade_legacy_ids on any identifier that legacy_tokenise maps to [lt] *)
    Lemma lg_upgrade s w :
      legacy_tokenise is_space is_digit s = Some lt ->
      upgrade_legacy_ids is_space is_digit false [w; s] = [w; 47 :: 47 :: slash_form tk cyc sel]
      /\ upgrade_legacy_ids is_space is_digit true [s] = [slash_form tk cyc sel].
    Proof.
      intros H. unfold upgrade_legacy_ids, upgrade_all. rewrite H, !lg_detok. split; reflexivity.
    Qed.
  End Fields.
End Legacy.
