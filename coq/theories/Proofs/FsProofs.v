(* Proofs/FsProofs.v — lemmas for C38 over Model/Fs.v. *)
From Coq Require Import List Bool Arith Lia.
From Cylc Require Import Base.Util Model.Fs.
Import ListNotations.

(* ================================================================== *)
(* 1. parse_rm_dirs / normpath                                         *)
(* ================================================================== *)
Definition is_cname (c : comp) : Prop := exists n, c = CName n.

(* shape of normpath's work list (reversed): names on top of a block of '..' *)
Inductive okacc : list comp -> Prop :=
  | ok_pars : forall k, okacc (repeat CPar k)
  | ok_name : forall n acc, okacc acc -> okacc (CName n :: acc).

Lemma okacc_par_head : forall acc, okacc (CPar :: acc) -> exists k, acc = repeat CPar k.
Proof.
  intros acc H. inversion H as [k E|]; subst.
  destruct k as [|k]; cbn in E; [discriminate|]. inversion E. eauto.
Qed.

Lemma okacc_tail : forall c acc, okacc (c :: acc) -> okacc acc.
Proof.
  intros c acc H. inversion H as [k E|]; subst; [|assumption].
  destruct k as [|k]; cbn in E; [discriminate|]. inversion E. constructor.
Qed.

Lemma okacc_head : forall a acc, okacc (a :: acc) -> a = CPar \/ exists n, a = CName n.
Proof.
  intros a acc H. inversion H as [k E|]; subst; [|right; eauto].
  destruct k; cbn in E; [discriminate|]. inversion E. left. reflexivity.
Qed.

Lemma norm_go_ok : forall cs acc, okacc acc -> okacc (rev (norm_go 0 cs acc)).
Proof.
  induction cs as [|c r IH]; intros acc H; cbn [norm_go].
  - rewrite rev_involutive. exact H.
  - destruct c.
    + apply IH; exact H.
    + apply IH; exact H.
    + destruct acc as [|a acc'].
      * cbn. apply IH. apply (ok_pars 1).
      * destruct (okacc_head _ _ H) as [->|[n ->]].
        -- destruct (okacc_par_head _ H) as [k ->]. apply IH. apply (ok_pars (S (S k))).
        -- apply IH. eapply okacc_tail; eauto.
    + apply IH. constructor. exact H.
Qed.

Lemma okacc_rev_names : forall acc c l, okacc acc -> rev acc = c :: l -> c <> CPar ->
  forall x, In x (rev acc) -> is_cname x.
Proof.
  intros acc c l H. induction H as [k|n acc H IH]; intros E Hc x Hx.
  - destruct k as [|k]; [cbn in E; discriminate|].
    exfalso. assert (G : In c (rev (repeat CPar (S k)))) by (rewrite E; left; reflexivity).
    apply in_rev in G. apply repeat_spec in G. contradiction.
  - cbn in *. apply in_app_or in Hx. destruct Hx as [Hx|[<-|[]]]; [|eexists; reflexivity].
    destruct (rev acc) as [|c' l'] eqn:R.
    + destruct Hx.
    + cbn in E. inversion E; subst. eapply IH; eauto.
Qed.

(* accepted parts: non-empty, names only (no '..', '.', '' component) *)
Theorem parse_accept_names : forall cs n tr,
  parse_part cs = PAccept n tr -> n <> [] /\ forall c, In c n -> is_cname c.
Proof.
  intros cs n tr. unfold parse_part, normpath.
  destruct (Nat.eqb (initial_slashes cs) 0) eqn:E0; cbn [negb]; [|discriminate].
  apply Nat.eqb_eq in E0. rewrite E0.
  destruct (norm_go 0 cs []) as [|c l] eqn:N; [discriminate|].
  destruct c; try discriminate; intros H; inversion H; subst; (split; [discriminate|]);
    pose proof (norm_go_ok cs [] (ok_pars 0)) as K; rewrite N in K;
    intros x Hx; rewrite <- (rev_involutive (_ :: l)) in Hx;
    (eapply (okacc_rev_names _ _ l K); [apply rev_involutive| discriminate | exact Hx]).
Qed.

(* lexical meaning of the raw part: a stack machine; None = climbs above the start *)
Fixpoint lex (cs : list comp) (st : list comp) : option (list comp) :=
  match cs with
  | [] => Some st
  | CEmpty :: r | CCur :: r => lex r st
  | CPar :: r => match st with [] => None | _ :: st' => lex r st' end
  | CName n :: r => lex r (CName n :: st)
  end.

Definition all_names (l : list comp) : Prop := forall c, In c l -> is_cname c.

Lemma par_persists : forall cs acc, okacc acc -> In CPar acc -> In CPar (norm_go 0 cs acc).
Proof.
  induction cs as [|c r IH]; intros acc H Hin; cbn [norm_go].
  - apply in_rev in Hin. exact Hin.
  - destruct c.
    + apply IH; assumption.
    + apply IH; assumption.
    + destruct acc as [|a acc']; [destruct Hin|].
      destruct (okacc_head _ _ H) as [->|[n ->]].
      * destruct (okacc_par_head _ H) as [k ->]. apply IH; [apply (ok_pars (S (S k)))|left; reflexivity].
      * apply IH; [eapply okacc_tail; eauto|]. destruct Hin as [Hin|Hin]; [discriminate|exact Hin].
    + apply IH; [constructor; exact H|right; exact Hin].
Qed.

Lemma all_names_okacc : forall acc, all_names acc -> okacc acc.
Proof.
  induction acc as [|a acc IH]; intros H; [apply (ok_pars 0)|].
  destruct (H a (or_introl eq_refl)) as [n ->]. constructor. apply IH.
  intros c Hc. apply H. right. exact Hc.
Qed.

Lemma norm_lex : forall cs acc, all_names acc ->
  In CPar (norm_go 0 cs acc) \/
  exists st, lex cs acc = Some st /\ norm_go 0 cs acc = rev st /\ all_names st.
Proof.
  induction cs as [|c r IH]; intros acc H; cbn [norm_go lex].
  - right. exists acc. auto.
  - destruct c; try (apply IH; exact H).
    + destruct acc as [|a acc'].
      * left. cbn. apply par_persists; [apply (ok_pars 1)|left; reflexivity].
      * destruct (H a (or_introl eq_refl)) as [n ->]. apply IH.
        intros c Hc. apply H. right. exact Hc.
    + apply IH. intros c [<-|Hc]; [eexists; reflexivity|apply H; exact Hc].
Qed.

(* an accepted part, read lexically from the run dir, never climbs above it and
   ends exactly at the normalised name list: run ++ names, strictly below run *)
Theorem parse_accept_lexical : forall cs n tr,
  parse_part cs = PAccept n tr -> lex cs [] = Some (rev n).
Proof.
  intros cs n tr Hp. destruct (parse_accept_names cs n tr Hp) as [Hne Hn].
  revert Hp. unfold parse_part, normpath.
  destruct (Nat.eqb (initial_slashes cs) 0) eqn:E0; cbn [negb]; [|discriminate].
  apply Nat.eqb_eq in E0. rewrite E0. intros Hp.
  assert (N : norm_go 0 cs [] = n).
  { destruct (norm_go 0 cs []) as [|c l]; [discriminate|]. destruct c; try discriminate; inversion Hp; reflexivity. }
  destruct (norm_lex cs [] (fun c (F : In c []) => match F with end)) as [Hpar|(st & L & E & _)].
  - rewrite N in Hpar. destruct (Hn _ Hpar) as [k K]. discriminate.
  - rewrite L. rewrite N in E. rewrite E, rev_involutive. reflexivity.
Qed.
