(* Proofs/FsProofs.v — lemmas for C38 over Model/Fs.v. *)
From Coq Require Import List Bool Arith Lia.
From Cylc Require Import Base.Util Model.Fs.
Import ListNotations.

(* ================================================================== *)
(* 1. parse_rm_dirs / normpath                                         *)
(* ================================================================== *)
Definition is_cname (c : comp) : Prop := exists n, c = CName n.

(* shape of normpath's work list (reversed): names on top of a block of '..' *)
Inductive okacc : list comp -> Prop :=
  | ok_pars : forall k, okacc (repeat CPar k)
  | ok_name : forall n acc, okacc acc -> okacc (CName n :: acc).

Lemma okacc_par_head : forall acc, okacc (CPar :: acc) -> exists k, acc = repeat CPar k.
Proof.
  intros acc H. inversion H as [k E|]; subst.
  destruct k as [|k]; cbn in E; [discriminate|]. inversion E. eauto.
Qed.

Lemma okacc_tail : forall c acc, okacc (c :: acc) -> okacc acc.
Proof.
  intros c acc H. inversion H as [k E|]; subst; [|assumption].
  destruct k as [|k]; cbn in E; [discriminate|]. inversion E. constructor.
Qed.

Lemma okacc_head : forall a acc, okacc (a :: acc) -> a = CPar \/ exists n, a = CName n.
Proof.
  intros a acc H. inversion H as [k E|]; subst; [|right; eauto].
  destruct k; cbn in E; [discriminate|]. inversion E. left. reflexivity.
Qed.

Lemma norm_go_ok : forall cs acc, okacc acc -> okacc (rev (norm_go 0 cs acc)).
Proof.
  induction cs as [|c r IH]; intros acc H; cbn [norm_go].
  - rewrite rev_involutive. exact H.
  - destruct c.
    + apply IH; exact H.
    + apply IH; exact H.
    + destruct acc as [|a acc'].
      * cbn. apply IH. apply (ok_pars 1).
      * destruct (okacc_head _ _ H) as [->|[n ->]].
        -- destruct (okacc_par_head _ H) as [k ->]. apply IH. apply (ok_pars (S (S k))).
        -- apply IH. eapply okacc_tail; eauto.
    + apply IH. constructor. exact H.
Qed.

Lemma okacc_split : forall acc, okacc acc ->
  exists names k, acc = names ++ repeat CPar k /\ forall x, In x names -> is_cname x.
Proof.
  induction 1 as [k|n acc H (names & k & -> & Hn)].
  - exists [], k. split; [reflexivity|intros x []].
  - exists (CName n :: names), k. split; [reflexivity|].
    intros x [<-|Hx]; [eexists; reflexivity|auto].
Qed.

Lemma rev_repeat {A} (a : A) k : rev (repeat a k) = repeat a k.
Proof.
  induction k as [|k IH]; [reflexivity|]. cbn. rewrite IH.
  clear IH. induction k as [|k IH]; [reflexivity|]. cbn. rewrite IH. reflexivity.
Qed.

Lemma okacc_rev_names : forall acc c l, okacc acc -> rev acc = c :: l -> c <> CPar ->
  forall x, In x (rev acc) -> is_cname x.
Proof.
  intros acc c l H E Hc x Hx. destruct (okacc_split acc H) as (names & k & -> & Hn).
  rewrite rev_app_distr, rev_repeat in *. destruct k as [|k].
  - cbn in Hx. apply in_rev in Hx. auto.
  - cbn in E. inversion E. congruence.
Qed.

(* accepted parts: non-empty, names only (no '..', '.', '' component) *)
Theorem parse_accept_names : forall cs n tr,
  parse_part cs = PAccept n tr -> n <> [] /\ forall c, In c n -> is_cname c.
Proof.
  intros cs n tr. unfold parse_part, normpath.
  destruct (Nat.eqb (initial_slashes cs) 0) eqn:E0; cbn [negb]; [|discriminate].
  apply Nat.eqb_eq in E0. rewrite E0.
  destruct (norm_go 0 cs []) as [|c l] eqn:N; [discriminate|].
  destruct c; try discriminate; intros H; inversion H; subst; (split; [discriminate|]);
    pose proof (norm_go_ok cs [] (ok_pars 0)) as K; rewrite N in K;
    intros x Hx; rewrite <- (rev_involutive (_ :: l)) in Hx;
    (eapply (okacc_rev_names _ _ l K); [apply rev_involutive| discriminate | exact Hx]).
Qed.

(* lexical meaning of the raw part: a stack machine; None = climbs above the start *)
Fixpoint lex (cs : list comp) (st : list comp) : option (list comp) :=
  match cs with
  | [] => Some st
  | CEmpty :: r | CCur :: r => lex r st
  | CPar :: r => match st with [] => None | _ :: st' => lex r st' end
  | CName n :: r => lex r (CName n :: st)
  end.

Definition all_names (l : list comp) : Prop := forall c, In c l -> is_cname c.

Lemma par_persists : forall cs acc, okacc acc -> In CPar acc -> In CPar (norm_go 0 cs acc).
Proof.
  induction cs as [|c r IH]; intros acc H Hin; cbn [norm_go].
  - apply in_rev in Hin. exact Hin.
  - destruct c.
    + apply IH; assumption.
    + apply IH; assumption.
    + destruct acc as [|a acc']; [destruct Hin|].
      destruct (okacc_head _ _ H) as [->|[n ->]].
      * destruct (okacc_par_head _ H) as [k ->]. apply IH; [apply (ok_pars (S (S k)))|left; reflexivity].
      * apply IH; [eapply okacc_tail; eauto|]. destruct Hin as [Hin|Hin]; [discriminate|exact Hin].
    + apply IH; [constructor; exact H|right; exact Hin].
Qed.

Lemma all_names_okacc : forall acc, all_names acc -> okacc acc.
Proof.
  induction acc as [|a acc IH]; intros H; [apply (ok_pars 0)|].
  destruct (H a (or_introl eq_refl)) as [n ->]. constructor. apply IH.
  intros c Hc. apply H. right. exact Hc.
Qed.

Lemma norm_lex : forall cs acc, all_names acc ->
  In CPar (norm_go 0 cs acc) \/
  exists st, lex cs acc = Some st /\ norm_go 0 cs acc = rev st /\ all_names st.
Proof.
  induction cs as [|c r IH]; intros acc H; cbn [norm_go lex].
  - right. exists acc. auto.
  - destruct c; try (apply IH; exact H).
    + destruct acc as [|a acc'].
      * left. cbn. apply par_persists; [apply (ok_pars 1)|left; reflexivity].
      * destruct (H a (or_introl eq_refl)) as [n ->]. apply IH.
        intros c Hc. apply H. right. exact Hc.
    + apply IH. intros c [<-|Hc]; [eexists; reflexivity|apply H; exact Hc].
Qed.

(* an accepted part, read lexically from the run dir, never climbs above it and
   ends exactly at the normalised name list: run ++ names, strictly below run *)
Theorem parse_accept_lexical : forall cs n tr,
  parse_part cs = PAccept n tr -> lex cs [] = Some (rev n).
Proof.
  intros cs n tr Hp. destruct (parse_accept_names cs n tr Hp) as [Hne Hn].
  revert Hp. unfold parse_part, normpath.
  destruct (Nat.eqb (initial_slashes cs) 0) eqn:E0; cbn [negb]; [|discriminate].
  apply Nat.eqb_eq in E0. rewrite E0. intros Hp.
  assert (N : norm_go 0 cs [] = n).
  { destruct (norm_go 0 cs []) as [|c l]; [discriminate|]. destruct c; try discriminate; inversion Hp; reflexivity. }
  destruct (norm_lex cs [] (fun c (F : In c []) => match F with end)) as [Hpar|(st & L & E & _)].
  - rewrite N in Hpar. destruct (Hn _ Hpar) as [k K]. discriminate.
  - rewrite L. rewrite N in E. rewrite E, rev_involutive. reflexivity.
Qed.

(* ================================================================== *)
(* 2. paths, prefixes, restriction of a filesystem                     *)
(* ================================================================== *)
Lemma path_eqb_eq : forall a b, path_eqb a b = true <-> a = b.
Proof. intros. unfold path_eqb. apply list_eqb_spec. intros x y. apply Nat.eqb_eq. Qed.

Lemma path_eqb_refl : forall a, path_eqb a a = true.
Proof. intros. apply path_eqb_eq. reflexivity. Qed.

Lemma is_prefix_refl : forall p, is_prefix p p = true.
Proof. induction p as [|x p IH]; cbn; [reflexivity|]. rewrite Nat.eqb_refl, IH. reflexivity. Qed.

Lemma is_prefix_app : forall p r, is_prefix p (p ++ r) = true.
Proof. induction p as [|x p IH]; intros r; cbn; [reflexivity|]. rewrite Nat.eqb_refl, IH. reflexivity. Qed.

Lemma is_prefix_spec : forall p q, is_prefix p q = true <-> exists r, q = p ++ r.
Proof.
  induction p as [|x p IH]; intros q; cbn.
  - split; [eauto|reflexivity].
  - destruct q as [|y q]; [split; [discriminate|intros [r E]; discriminate]|].
    rewrite andb_true_iff, Nat.eqb_eq, IH. split.
    + intros [-> [r ->]]. eauto.
    + intros [r E]. inversion E. eauto.
Qed.

Lemma is_prefix_trans : forall a b c, is_prefix a b = true -> is_prefix b c = true -> is_prefix a c = true.
Proof.
  intros a b c H1 H2. apply is_prefix_spec in H1. apply is_prefix_spec in H2.
  destruct H1 as [r ->]. destruct H2 as [r' ->]. rewrite <- app_assoc. apply is_prefix_app.
Qed.

Lemma is_prefix_nil_r : forall p, is_prefix p [] = true -> p = [].
Proof. destruct p; cbn; [reflexivity|discriminate]. Qed.

Definition restrict (s : fs) (D : path -> bool) : fs := filter (fun e => negb (D (fst e))) s.

Definition ext_closed (D : path -> bool) : Prop :=
  forall p q, D p = true -> is_prefix p q = true -> D q = true.

Lemma rm_tree_restrict : forall s p, rm_tree s p = restrict s (is_prefix p).
Proof. reflexivity. Qed.

Lemma ext_closed_prefix : forall p, ext_closed (is_prefix p).
Proof. intros p a b H1 H2. eapply is_prefix_trans; eauto. Qed.

Lemma restrict_restrict : forall s D1 D2,
  restrict (restrict s D1) D2 = restrict s (fun k => D1 k || D2 k).
Proof.
  intros s D1 D2. unfold restrict. induction s as [|e s IH]; [reflexivity|].
  cbn. destruct (D1 (fst e)); cbn; [exact IH|]. destruct (D2 (fst e)); cbn; rewrite IH; reflexivity.
Qed.

Lemma ext_closed_or : forall D1 D2, ext_closed D1 -> ext_closed D2 -> ext_closed (fun k => D1 k || D2 k).
Proof.
  intros D1 D2 H1 H2 p q H Hp. apply orb_true_iff in H. apply orb_true_iff.
  destruct H; [left; eapply H1|right; eapply H2]; eauto.
Qed.

Lemma assoc_restrict : forall s D p,
  assoc path_eqb p (restrict s D) = if D p then None else assoc path_eqb p s.
Proof.
  intros s D p. unfold restrict. induction s as [|[k v] s IH]; cbn.
  - destruct (D p); reflexivity.
  - destruct (D k) eqn:Dk; cbn.
    + rewrite IH. destruct (path_eqb p k) eqn:E; [|reflexivity].
      apply path_eqb_eq in E. subst. rewrite Dk. reflexivity.
    + destruct (path_eqb p k) eqn:E; [|exact IH].
      apply path_eqb_eq in E. subst. rewrite Dk. reflexivity.
Qed.

Lemma lookup_restrict : forall s D p, D [] = false ->
  lookup (restrict s D) p = if D p then None else lookup s p.
Proof.
  intros s D p H0. destruct p as [|x p]; cbn [lookup]; [rewrite H0; reflexivity|].
  apply assoc_restrict.
Qed.

Lemma restrict_In : forall s D e, In e (restrict s D) <-> In e s /\ D (fst e) = false.
Proof. intros. unfold restrict. rewrite filter_In, negb_true_iff. tauto. Qed.

(* ================================================================== *)
(* 3. symlink resolution under restriction                             *)
(* ================================================================== *)
Section Restrict.
  Variable s : fs.
  Variable D : path -> bool.
  Hypothesis Dext : ext_closed D.
  Hypothesis D0 : D [] = false.
  Let s' := restrict s D.

  (* inside the removed region nothing exists: the walk continues lexically *)
  Lemma walk_in_D : forall f acc rest q,
    D acc = true -> walk f s' acc rest = Some q -> D q = true.
  Proof.
    induction f as [|f IH]; intros acc rest q Ha H; cbn in H; [discriminate|].
    destruct rest as [|c r]; [inversion H; subst; exact Ha|].
    assert (Hc : D (acc ++ [c]) = true) by (eapply Dext; [exact Ha|apply is_prefix_app]).
    unfold s' in H. rewrite lookup_restrict, Hc in H by exact D0. eapply IH; eauto.
  Qed.

  (* a walk in the restricted filesystem either is the same walk in the
     original one and ends outside the removed region, or ends inside it *)
  Lemma walk_restrict : forall f acc rest q,
    D acc = false -> walk f s' acc rest = Some q ->
    (walk f s acc rest = Some q /\ D q = false) \/ D q = true.
  Proof.
    induction f as [|f IH]; intros acc rest q Ha H; cbn in H; [discriminate|].
    destruct rest as [|c r]; [inversion H; subst; left; split; [reflexivity|exact Ha]|].
    unfold s' in H. rewrite lookup_restrict in H by exact D0.
    destruct (D (acc ++ [c])) eqn:Hc.
    - right. eapply walk_in_D; eauto.
    - cbn [walk]. destruct (lookup s (acc ++ [c])) as [[| |t]|]; apply IH; assumption.
  Qed.

  Lemma realpath_restrict : forall p q, realpath s' p = Some q ->
    (realpath s p = Some q /\ D q = false) \/ D q = true.
  Proof. intros p q. unfold realpath. apply walk_restrict. exact D0. Qed.

  Lemma phys_restrict : forall p P, phys s' p = Some P ->
    phys s p = Some P \/ D P = true.
  Proof.
    intros p P. unfold phys. destruct (split_last p) as [[par c]|]; [|intros H; left; exact H].
    destruct (realpath s' par) as [m|] eqn:R; [|discriminate]. intros H; inversion H; subst.
    destruct (realpath_restrict _ _ R) as [[R' _]|Hd].
    - left. rewrite R'. reflexivity.
    - right. eapply Dext; [exact Hd|apply is_prefix_app].
  Qed.

  Lemma lstat_restrict : forall p k, lstat s' p = Some k ->
    lstat s p = Some k /\ exists P, phys s' p = Some P /\ phys s p = Some P /\ D P = false.
  Proof.
    intros p k. unfold lstat. destruct (phys s' p) as [P|] eqn:E; [|discriminate].
    unfold s'. rewrite lookup_restrict by exact D0. destruct (D P) eqn:DP; [discriminate|].
    intros H. destruct (phys_restrict _ _ E) as [E'|Hd]; [|congruence].
    rewrite E'. split; [exact H|]. exists P. auto.
  Qed.

  Lemma is_link_restrict : forall p, is_link s' p = true -> is_link s p = true.
  Proof.
    intros p. unfold is_link. destruct (lstat s' p) as [k|] eqn:E; [|discriminate].
    destruct (lstat_restrict _ _ E) as [E' _]. rewrite E'. auto.
  Qed.
End Restrict.

(* ================================================================== *)
(* 4. where a path below the run dir physically lies                    *)
(* ================================================================== *)
Lemma walk_app_inv : forall s f acc a b q,
  walk f s acc (a ++ b) = Some q ->
  exists m f', walk f s acc a = Some m /\ walk f' s m b = Some q.
Proof.
  intros s. induction f as [|f IH]; intros acc a b q H; cbn in H; [discriminate|].
  destruct a as [|c a'].
  - exists acc, (S f). split; [reflexivity|exact H].
  - cbn [app] in H. cbn [walk].
    destruct (lookup s (acc ++ [c])) as [[| |t]|]; try (apply IH; exact H).
    rewrite app_assoc in H. apply IH. exact H.
Qed.

Lemma walk_single : forall s f m c q, walk f s m [c] = Some q ->
  (exists t, lookup s (m ++ [c]) = Some (KL t)) \/
  ((forall t, lookup s (m ++ [c]) <> Some (KL t)) /\ q = m ++ [c]).
Proof.
  intros s f m c q H. destruct f as [|f]; [discriminate|]. cbn in H.
  destruct (lookup s (m ++ [c])) as [[| |t]|] eqn:L; try (left; eauto; fail);
    right; (split; [intros t; discriminate|]);
    destruct f; cbn in H; try discriminate; inversion H; reflexivity.
Qed.

Lemma split_last_snoc : forall p c, split_last (p ++ [c]) = Some (p, c).
Proof.
  induction p as [|x p IH]; intros c; [reflexivity|].
  cbn [app split_last]. rewrite IH. destruct (p ++ [c]) eqn:E; [destruct p; discriminate|reflexivity].
Qed.

Lemma proper_prefixes_snoc : forall rel c,
  proper_prefixes (rel ++ [c]) = proper_prefixes rel ++ [rel].
Proof.
  induction rel as [|x rel IH]; intros c; [reflexivity|].
  cbn. rewrite IH, map_app. reflexivity.
Qed.

Lemma realpath_app_inv : forall s a b q, realpath s (a ++ b) = Some q ->
  exists m f', realpath s a = Some m /\ walk f' s m b = Some q.
Proof. intros s a b q. unfold realpath. apply walk_app_inv. Qed.

Lemma phys_snoc : forall s p c, phys s (p ++ [c]) =
  match realpath s p with Some m => Some (m ++ [c]) | None => None end.
Proof. intros. unfold phys. rewrite split_last_snoc. reflexivity. Qed.

Lemma lstat_snoc : forall s p c m, realpath s p = Some m -> lstat s (p ++ [c]) = lookup s (m ++ [c]).
Proof. intros s p c m H. unfold lstat. rewrite phys_snoc, H. reflexivity. Qed.

Lemma split_last_some : forall p : path, p <> [] -> exists par c, p = par ++ [c].
Proof.
  intros p H. destruct (exists_last H) as (par & c & E). eauto.
Qed.

Lemma phys_nonroot : forall s p P, p <> [] -> phys s p = Some P -> P <> [].
Proof.
  intros s p P Hp H. destruct (split_last_some p Hp) as (par & c & ->).
  rewrite phys_snoc in H. destruct (realpath s par); [|discriminate]. inversion H.
  intros E. destruct p; discriminate.
Qed.

Section Region.
  Variable s : fs.
  Variable run : path.
  Variable stds : list path.       (* absolute paths of the standard symlink dirs *)

  (* every strict ancestor (the run dir included) that is a symlink is a standard one *)
  Definition anc_ok (rel : path) : Prop :=
    forall a, In a (proper_prefixes rel) -> is_link s (run ++ a) = true -> mem_path (run ++ a) stds = true.

  (* the run dir's real location, or the real target of a standard symlink dir *)
  Definition is_base (b : path) : Prop :=
    realpath s run = Some b \/
    exists sd, mem_path sd stds = true /\ is_link s sd = true /\ realpath s sd = Some b.

  (* if all of rel's prefixes, rel included, are non-links or standard links,
     run/rel really lies at or below a base *)
  Lemma realpath_region : forall rel m,
    anc_ok (rel ++ [0]) -> realpath s (run ++ rel) = Some m ->
    exists b, is_base b /\ is_prefix b m = true.
  Proof.
    induction rel as [|c r IH] using rev_ind; intros m Hok H.
    - rewrite app_nil_r in H. exists m. split; [left; exact H|apply is_prefix_refl].
    - rewrite app_assoc in H.
      destruct (realpath_app_inv _ _ _ _ H) as (m0 & f' & H1 & H2).
      assert (Hok' : anc_ok (r ++ [0])).
      { intros a Ha. apply Hok. rewrite proper_prefixes_snoc in *. apply in_or_app. left.
        rewrite proper_prefixes_snoc. exact Ha. }
      destruct (walk_single _ _ _ _ _ H2) as [[t L]|[_ ->]].
      + (* run/r/c is a symlink: it must be a standard one, whose target is a base *)
        assert (Lk : is_link s (run ++ r ++ [c]) = true).
        { unfold is_link. rewrite app_assoc, (lstat_snoc _ _ _ _ H1), L. reflexivity. }
        exists m. split; [|apply is_prefix_refl]. right. exists (run ++ r ++ [c]).
        split; [|split; [exact Lk|]].
        * apply Hok; [|exact Lk]. rewrite proper_prefixes_snoc. apply in_or_app. right. left. reflexivity.
        * rewrite app_assoc. exact H.
      + destruct (IH m0 Hok' H1) as (b & Hb & Hp). exists b. split; [exact Hb|].
        eapply is_prefix_trans; [exact Hp|apply is_prefix_app].
  Qed.

  (* the directory entry run/rel (rel non-empty) lies strictly below a base *)
  Lemma phys_region : forall rel c P,
    anc_ok (rel ++ [c]) -> phys s (run ++ rel ++ [c]) = Some P ->
    exists b, is_base b /\ is_prefix b P = true /\ P <> b.
  Proof.
    intros rel c P Hok H. rewrite app_assoc, phys_snoc in H.
    destruct (realpath s (run ++ rel)) as [m|] eqn:R; [|discriminate]. inversion H; subst.
    assert (Hok' : anc_ok (rel ++ [0])).
    { intros a Ha. apply Hok. rewrite proper_prefixes_snoc in *. exact Ha. }
    destruct (realpath_region rel m Hok' R) as (b & Hb & Hp). exists b. split; [exact Hb|]. split.
    - eapply is_prefix_trans; [exact Hp|apply is_prefix_app].
    - intros E. apply is_prefix_spec in Hp. destruct Hp as [r ->].
      apply (f_equal (@length name)) in E. rewrite !app_length in E. cbn [length] in E. lia.
  Qed.
End Region.

(* ================================================================== *)
(* 5. glob_in_run_dir keeps only paths without a non-standard symlink   *)
(*    among their strict ancestors                                      *)
(* ================================================================== *)
Lemma scan_keep : forall s run stds matches results p parent ancs excl excl',
  scan_ancestors s run stds matches results p parent ancs excl = (Keep, excl') ->
  forall a, In a ancs -> is_link s (run ++ a) = true -> mem_path (run ++ a) stds = true.
Proof.
  intros s run stds matches results p parent. induction ancs as [|a0 rest IH]; intros excl excl' H a Ha Hl.
  - destruct Ha.
  - cbn in H.
    destruct (mem_path (run ++ a0) excl); [discriminate|].
    destruct (is_link s (run ++ a0) && negb (mem_path (run ++ a0) stds)) eqn:E1; [discriminate|].
    destruct (is_nil_path stds && mem_path (run ++ a0) results); [discriminate|].
    destruct (path_eqb (run ++ a0) parent && (mem_path (run ++ a0) matches && negb (mem_path p stds)));
      [discriminate|].
    destruct Ha as [<-|Ha]; [|eapply IH; eauto].
    rewrite Hl in E1. cbn in E1. apply negb_false_iff in E1. exact E1.
Qed.

Lemma skipn_app_exact {A} (a b : list A) : skipn (length a) (a ++ b) = b.
Proof. induction a; cbn; auto. Qed.

Definition lexical (run p : path) : Prop := exists rel, p = run ++ rel.

Lemma glob_filter_ok : forall s run stds matches todo results excl p,
  (forall x, In x todo -> lexical run x) ->
  In p (glob_filter s run stds matches todo results excl) ->
  In p results \/ (In p todo /\ exists rel, p = run ++ rel /\ anc_ok s run stds rel).
Proof.
  intros s run stds matches. induction todo as [|x rest IH]; intros results excl p Hlex H; cbn in H.
  - left. exact H.
  - destruct (scan_ancestors s run stds matches results x
                (match split_last x with Some (par, _) => par | None => [] end)
                (proper_prefixes (strip_prefix_len run x)) excl) as [[|] excl'] eqn:E.
    + destruct (IH _ _ _ (fun y Hy => Hlex y (or_intror Hy)) H) as [Hr|[Hr Hx]].
      * apply in_app_or in Hr. destruct Hr as [Hr|[<-|[]]]; [left; exact Hr|].
        right. split; [left; reflexivity|].
        destruct (Hlex x (or_introl eq_refl)) as [rel ->]. exists rel. split; [reflexivity|].
        unfold strip_prefix_len in E. rewrite skipn_app_exact in E.
        intros a Ha Hl. eapply scan_keep; eauto.
      * right. split; [right; exact Hr|exact Hx].
    + destruct (IH _ _ _ (fun y Hy => Hlex y (or_intror Hy)) H) as [Hr|[Hr Hx]].
      * left. exact Hr.
      * right. split; [right; exact Hr|exact Hx].
Qed.

Lemma glob_in_run_dir_ok : forall s run stds raw p,
  (forall x, In x raw -> lexical run x) ->
  In p (glob_in_run_dir s run stds raw) ->
  In p raw /\ exists rel, p = run ++ rel /\ anc_ok s run stds rel.
Proof.
  intros s run stds raw p Hlex H.
  assert (G : In p (glob_filter s run stds raw raw [] [])).
  { unfold glob_in_run_dir in H. destruct raw as [|m [|m' r]]; try exact H.
    destruct (lexists s m); [exact H|destruct H]. }
  destruct (glob_filter_ok _ _ _ _ _ _ _ _ Hlex G) as [[]|H']. exact H'.
Qed.

(* ================================================================== *)
(* 6. containment                                                       *)
(* ================================================================== *)
Lemma anc_ok_restrict : forall s D run stds rel, ext_closed D -> D [] = false ->
  anc_ok s run stds rel -> anc_ok (restrict s D) run stds rel.
Proof.
  intros s D run stds rel He H0 Hok a Ha Hl. apply Hok; [exact Ha|].
  eapply is_link_restrict; eauto.
Qed.

(* ---- shrinking: a later state is the earlier one minus an extension-closed set ---- *)
Definition Shrinks (s s' : fs) : Prop :=
  exists D, s' = restrict s D /\ ext_closed D /\ D [] = false.

Lemma Shrinks_refl : forall s, Shrinks s s.
Proof.
  intros s. exists (fun _ => false). repeat split; try (intros p q H; discriminate).
  unfold restrict. induction s as [|e l IH]; cbn; [reflexivity|]. f_equal. exact IH.
Qed.

Lemma Shrinks_trans : forall a b c, Shrinks a b -> Shrinks b c -> Shrinks a c.
Proof.
  intros a b c (D1 & -> & E1 & Z1) (D2 & -> & E2 & Z2).
  exists (fun k => D1 k || D2 k). repeat split.
  - apply restrict_restrict.
  - apply ext_closed_or; assumption.
  - rewrite Z1, Z2. reflexivity.
Qed.

Definition Dof (del : list path) : path -> bool := fun k => existsb (fun P => is_prefix P k) del.

Lemma rm_trees_restrict : forall del s, rm_trees s del = restrict s (Dof del).
Proof.
  induction del as [|P del IH]; intros s.
  - cbn. unfold restrict, Dof. cbn. induction s as [|e l IHl]; cbn; [reflexivity|]. f_equal. exact IHl.
  - cbn [rm_trees fold_left]. change (fold_left rm_tree del (rm_tree s P)) with (rm_trees (rm_tree s P) del).
    rewrite IH, rm_tree_restrict, restrict_restrict. reflexivity.
Qed.

Lemma Dof_ext : forall del, ext_closed (Dof del).
Proof.
  intros del p q H Hp. unfold Dof in *. apply existsb_exists in H. destruct H as (P & HP & H).
  apply existsb_exists. exists P. split; [exact HP|]. eapply is_prefix_trans; eauto.
Qed.

Lemma Dof_nil : forall del, (forall P, In P del -> P <> []) -> Dof del [] = false.
Proof.
  intros del H. unfold Dof. destruct (existsb (fun P => is_prefix P []) del) eqn:E; [|reflexivity].
  apply existsb_exists in E. destruct E as (P & HP & Hp). apply is_prefix_nil_r in Hp. exfalso. eapply H; eauto.
Qed.

Lemma Dof_in : forall del P, In P del -> Dof del P = true.
Proof. intros del P H. apply existsb_exists. exists P. split; [exact H|apply is_prefix_refl]. Qed.

Lemma Shrinks_rm_trees : forall s del, (forall P, In P del -> P <> []) -> Shrinks s (rm_trees s del).
Proof.
  intros s del H. exists (Dof del). split; [apply rm_trees_restrict|]. split; [apply Dof_ext|apply Dof_nil; exact H].
Qed.

(* p is gone for good: it does not exist in any later state *)
Definition gone (s : fs) (p : path) : Prop := forall s', Shrinks s s' -> lexists s' p = false.

Lemma gone_mono : forall s s' p, gone s p -> Shrinks s s' -> gone s' p.
Proof. intros s s' p G Sh s'' Sh'. apply G. eapply Shrinks_trans; eauto. Qed.

Lemma gone_now : forall s p, gone s p -> lexists s p = false.
Proof. intros s p G. apply G. apply Shrinks_refl. Qed.

(* once the directory entry of p has been removed, p never exists again *)
Lemma lexists_gone : forall s D p P, ext_closed D -> D [] = false ->
  phys s p = Some P -> D P = true -> lexists (restrict s D) p = false.
Proof.
  intros s D p P He H0 HP HD. unfold lexists.
  destruct (lstat (restrict s D) p) as [k|] eqn:E; [|reflexivity].
  destruct (lstat_restrict s D He H0 _ _ E) as (_ & P' & _ & HP' & HD'). congruence.
Qed.

(* ... nor anything addressed through it *)
Lemma below_gone : forall s D a P rest, ext_closed D -> D [] = false -> a <> [] ->
  phys s a = Some P -> D P = true -> lexists (restrict s D) (a ++ rest) = false.
Proof.
  intros s D a P rest He H0 Ha HP HD. destruct rest as [|c r] using rev_ind.
  - rewrite app_nil_r. eapply lexists_gone; eauto.
  - clear IHr. unfold lexists. rewrite app_assoc.
    destruct (realpath (restrict s D) (a ++ r)) as [m'|] eqn:R.
    2:{ unfold lstat. rewrite phys_snoc, R. reflexivity. }
    rewrite (lstat_snoc _ _ _ _ R).
    assert (Dm : D m' = true).
    { destruct (split_last_some a Ha) as (par & c0 & Ea). rewrite Ea in R.
      destruct (realpath_app_inv _ _ _ _ R) as (m1 & f1 & R1 & W1).
      destruct (realpath_app_inv _ _ _ _ R1) as (m0 & f0 & R0 & W0).
      assert (D1 : D (m0 ++ [c0]) = true).
      { assert (HP' : phys (restrict s D) a = Some (m0 ++ [c0])) by (rewrite Ea, phys_snoc, R0; reflexivity).
        destruct (phys_restrict s D He H0 _ _ HP') as [E|E]; [congruence|exact E]. }
      destruct (walk_single _ _ _ _ _ W0) as [[t L]|[_ ->]].
      - rewrite lookup_restrict, D1 in L by exact H0. discriminate.
      - eapply walk_in_D; eauto. }
    rewrite lookup_restrict by exact H0.
    rewrite (He _ _ Dm (is_prefix_app m' [c])). reflexivity.
Qed.

Lemma gone_of_root : forall s del p P, (forall Q, In Q del -> Q <> []) -> In P del ->
  phys s p = Some P -> gone (rm_trees s del) p.
Proof.
  intros s del p P Hne Hin HP s' (D2 & -> & E2 & Z2).
  rewrite rm_trees_restrict, restrict_restrict.
  eapply lexists_gone; [apply ext_closed_or; [apply Dof_ext|exact E2]| |exact HP|].
  - rewrite (Dof_nil _ Hne), Z2. reflexivity.
  - rewrite (Dof_in _ _ Hin). reflexivity.
Qed.

Lemma gone_below_root : forall s del a P rest, (forall Q, In Q del -> Q <> []) -> In P del -> a <> [] ->
  phys s a = Some P -> gone (rm_trees s del) (a ++ rest).
Proof.
  intros s del a P rest Hne Hin Ha HP s' (D2 & -> & E2 & Z2).
  rewrite rm_trees_restrict, restrict_restrict.
  eapply below_gone; [apply ext_closed_or; [apply Dof_ext|exact E2]| |exact Ha|exact HP|].
  - rewrite (Dof_nil _ Hne), Z2. reflexivity.
  - rewrite (Dof_in _ _ Hin). reflexivity.
Qed.

Arguments realpath : simpl never.
Arguments phys : simpl never.
Arguments lstat : simpl never.
Arguments stat : simpl never.
Arguments is_link : simpl never.
Arguments is_dir : simpl never.
Arguments is_file : simpl never.
Arguments exists_ : simpl never.
Arguments lexists : simpl never.
Arguments rm_dir_or_file : simpl never.
Arguments rm_dir_and_target : simpl never.

Section Contain.
  Variable s0 : fs.          (* the filesystem when clean() starts *)
  Variable run : path.       (* logical path of the run dir *)
  Variable stds : list path. (* absolute paths of the standard symlink dirs found by get_symlink_dirs *)
  Hypothesis run_nonroot : run <> [].
  (* no standard symlink dir resolves to the filesystem root (get_symlink_dirs
     checks that the target ends with cylc-run/<id>/<dir>) *)
  Hypothesis std_targets_nonroot : forall sd, mem_path sd stds = true -> realpath s0 sd <> Some [].
  Hypothesis run_target_nonroot : realpath s0 run <> Some [].

  (* the region the property allows clean to delete in: at or below the run
     dir entry, its real location, or the real target of a standard symlink dir *)
  Definition inside0 (q : path) : Prop :=
    exists b, (realpath s0 run = Some b \/ phys s0 run = Some b \/
               exists sd, mem_path sd stds = true /\ is_link s0 sd = true /\ realpath s0 sd = Some b)
              /\ is_prefix b q = true.

  (* intermediate states: s0 minus an extension-closed set of paths, all inside *)
  Definition Inv (s : fs) : Prop :=
    exists D, s = restrict s0 D /\ ext_closed D /\ D [] = false /\
              forall e, In e s0 -> D (fst e) = true -> inside0 (fst e).

  Lemma Inv_init : Inv s0.
  Proof.
    exists (fun _ => false). repeat split; try discriminate; try (intros p q H; discriminate).
    unfold restrict. clear. induction s0 as [|e l IH]; cbn; [reflexivity|]. f_equal. exact IH.
  Qed.

  Lemma Inv_rm_tree : forall s P, Inv s -> P <> [] ->
    (forall e, In e s -> is_prefix P (fst e) = true -> inside0 (fst e)) -> Inv (rm_tree s P).
  Proof.
    intros s P (D & -> & He & H0 & Hin) HP Hall.
    exists (fun k => D k || is_prefix P k). repeat split.
    - rewrite rm_tree_restrict. apply restrict_restrict.
    - apply ext_closed_or; [exact He|apply ext_closed_prefix].
    - rewrite H0. destruct P; [congruence|reflexivity].
    - intros e He0 Hd. destruct (D (fst e)) eqn:Dd; [apply Hin; assumption|].
      cbn in Hd. apply Hall; [|exact Hd]. apply restrict_In. auto.
  Qed.

  Lemma Inv_subset : forall s e, Inv s -> In e s -> In e s0.
  Proof. intros s e (D & -> & _) H. apply restrict_In in H. tauto. Qed.

  (* entries still present below a root that hangs off a base of the CURRENT
     state are inside the region defined on the INITIAL state *)
  Lemma base_inside : forall s b P, Inv s -> is_base s run stds b -> is_prefix b P = true ->
    forall e, In e s -> is_prefix P (fst e) = true -> inside0 (fst e).
  Proof.
    intros s b P (D & -> & He & H0 & Hin) Hb Hp e Hes HPe.
    apply restrict_In in Hes. destruct Hes as [Hes Hd].
    assert (Hbe : is_prefix b (fst e) = true) by (eapply is_prefix_trans; eauto).
    assert (Db : D b = false).
    { destruct (D b) eqn:Db; [|reflexivity]. rewrite (He _ _ Db Hbe) in Hd. discriminate. }
    destruct Hb as [Hr|(sd & Hm & Hl & Hr)].
    - destruct (realpath_restrict s0 D He H0 _ _ Hr) as [[Hr' _]|Hd']; [|congruence].
      exists b. split; [left; exact Hr'|exact Hbe].
    - destruct (realpath_restrict s0 D He H0 _ _ Hr) as [[Hr' _]|Hd']; [|congruence].
      exists b. split; [|exact Hbe]. right. right. exists sd. split; [exact Hm|]. split; [|exact Hr'].
      eapply is_link_restrict; eauto.
  Qed.

  Lemma base_nonroot : forall s b, Inv s -> is_base s run stds b -> b <> [].
  Proof.
    intros s b (D & -> & He & H0 & Hin) Hb E. subst b.
    destruct Hb as [Hr|(sd & Hm & Hl & Hr)];
      (destruct (realpath_restrict s0 D He H0 _ _ Hr) as [[Hr' _]|Hd']; [|congruence]).
    - apply run_target_nonroot. exact Hr'.
    - apply (std_targets_nonroot sd Hm). exact Hr'.
  Qed.

  (* the run dir entry itself *)
  Lemma phys_run_inside : forall s P, Inv s -> phys s run = Some P ->
    P <> [] /\ forall e, In e s -> is_prefix P (fst e) = true -> inside0 (fst e).
  Proof.
    intros s P HI HP. split.
    - eapply phys_nonroot; eauto.
    - destruct HI as (D & -> & He & H0 & Hin). intros e Hes HPe.
      apply restrict_In in Hes. destruct Hes as [Hes Hd].
      destruct (phys_restrict s0 D He H0 _ _ HP) as [HP'|Hd'].
      + exists P. split; [right; left; exact HP'|exact HPe].
      + rewrite (He _ _ Hd' HPe) in Hd. discriminate.
  Qed.

  (* one deletion root that is the directory entry of run/rel *)
  Lemma phys_rel_inside : forall s rel P, Inv s -> anc_ok s run stds rel -> phys s (run ++ rel) = Some P ->
    P <> [] /\ forall e, In e s -> is_prefix P (fst e) = true -> inside0 (fst e).
  Proof.
    intros s rel P HI Hok HP. destruct rel as [|c r] using rev_ind.
    - rewrite app_nil_r in HP. apply phys_run_inside; assumption.
    - clear IHr. destruct (phys_region s run stds r c P Hok HP) as (b & Hb & Hp & Hne). split.
      + intros ->. apply is_prefix_nil_r in Hp. congruence.
      + eapply base_inside; eauto.
  Qed.

  Lemma Inv_rm_trees_opt : forall s o, Inv s ->
    (forall P, o = Some P -> P <> [] /\ forall e, In e s -> is_prefix P (fst e) = true -> inside0 (fst e)) ->
    Inv (rm_trees s (opt_list o)).
  Proof.
    intros s [P|] HI H; cbn; [|exact HI]. destruct (H P eq_refl). apply Inv_rm_tree; assumption.
  Qed.

  (* remove_dir_or_file on run/rel *)
  Lemma rm_dir_or_file_Inv : forall s rel del, Inv s -> anc_ok s run stds rel ->
    rm_dir_or_file s (run ++ rel) = ROk del -> Inv (rm_trees s del).
  Proof.
    intros s rel del HI Hok H. unfold rm_dir_or_file in H.
    assert (G : Inv (rm_trees s (opt_list (phys s (run ++ rel))))).
    { apply Inv_rm_trees_opt; [exact HI|]. intros P HP. eapply phys_rel_inside; eauto. }
    destruct (is_link s (run ++ rel)); [inversion H; subst; exact G|].
    destruct (is_file s (run ++ rel)); [inversion H; subst; exact G|].
    destruct (is_dir s (run ++ rel)); [inversion H; subst; exact G|discriminate].
  Qed.

  (* monotonicity of the ancestor condition along deletions *)
  Lemma anc_ok_rm_tree : forall s P rel, P <> [] -> anc_ok s run stds rel -> anc_ok (rm_tree s P) run stds rel.
  Proof.
    intros s P rel HP Hok. rewrite rm_tree_restrict. apply anc_ok_restrict; [apply ext_closed_prefix| |exact Hok].
    destruct P; [congruence|reflexivity].
  Qed.

  (* ---- deletion roots ---- *)
  Definition roots_ok (s : fs) (del : list path) : Prop :=
    forall P, In P del -> P <> [] /\ forall e, In e s -> is_prefix P (fst e) = true -> inside0 (fst e).

  Lemma rm_tree_subset : forall s P e, In e (rm_tree s P) -> In e s.
  Proof. intros s P e H. unfold rm_tree in H. apply filter_In in H. tauto. Qed.

  Lemma roots_ok_Inv : forall del s, Inv s -> roots_ok s del -> Inv (rm_trees s del).
  Proof.
    induction del as [|P del IH]; intros s HI Hr; [exact HI|]. cbn. apply IH.
    - destruct (Hr P (or_introl eq_refl)). apply Inv_rm_tree; assumption.
    - intros Q HQ. destruct (Hr Q (or_intror HQ)) as [H1 H2]. split; [exact H1|].
      intros e He. apply H2. eapply rm_tree_subset; eauto.
  Qed.

  Lemma roots_ok_anc : forall del s rel, roots_ok s del ->
    anc_ok s run stds rel -> anc_ok (rm_trees s del) run stds rel.
  Proof.
    induction del as [|P del IH]; intros s rel Hr Hok; [exact Hok|]. cbn. apply IH.
    - intros Q HQ. destruct (Hr Q (or_intror HQ)) as [H1 H2]. split; [exact H1|].
      intros e He. apply H2. eapply rm_tree_subset; eauto.
    - apply anc_ok_rm_tree; [|exact Hok]. destruct (Hr P (or_introl eq_refl)). assumption.
  Qed.

  Lemma roots_ok_opt : forall s o,
    (forall P, o = Some P -> P <> [] /\ forall e, In e s -> is_prefix P (fst e) = true -> inside0 (fst e)) ->
    roots_ok s (opt_list o).
  Proof. intros s [P|] H Q HQ; [destruct HQ as [<-|[]]; auto|destruct HQ]. Qed.

  Lemma roots_ok_app : forall s a b, roots_ok s a -> roots_ok s b -> roots_ok s (a ++ b).
  Proof. intros s a b Ha Hb P HP. apply in_app_or in HP. destruct HP; auto. Qed.

  Lemma rm_dir_or_file_roots : forall s rel del, Inv s -> anc_ok s run stds rel ->
    rm_dir_or_file s (run ++ rel) = ROk del -> roots_ok s del.
  Proof.
    intros s rel del HI Hok H. unfold rm_dir_or_file in H.
    assert (G : roots_ok s (opt_list (phys s (run ++ rel)))).
    { apply roots_ok_opt. intros P HP. eapply phys_rel_inside; eauto. }
    destruct (is_link s (run ++ rel)); [inversion H; subst; exact G|].
    destruct (is_file s (run ++ rel)); [inversion H; subst; exact G|].
    destruct (is_dir s (run ++ rel)); [inversion H; subst; exact G|discriminate].
  Qed.

  Lemma rm_dir_and_target_cases : forall s p del, rm_dir_and_target s p = ROk del ->
    (is_link s p = true /\ (del = opt_list (realpath s p) ++ opt_list (phys s p) \/ del = opt_list (phys s p)))
    \/ (is_link s p = false /\ del = opt_list (phys s p)).
  Proof.
    intros s p del. unfold rm_dir_and_target.
    destruct (exists_ s p), (is_dir s p), (is_link s p); cbn [andb negb]; intros H;
      try discriminate; inversion H; auto.
  Qed.

  (* remove_dir_and_target on the run dir or on a standard symlink dir *)
  Lemma rm_dir_and_target_roots : forall s d del, Inv s -> anc_ok s run stds d ->
    (d = [] \/ mem_path (run ++ d) stds = true) ->
    rm_dir_and_target s (run ++ d) = ROk del -> roots_ok s del.
  Proof.
    intros s d del HI Hok Hd H.
    assert (G : roots_ok s (opt_list (phys s (run ++ d)))).
    { apply roots_ok_opt. intros P HP. eapply phys_rel_inside; eauto. }
    destruct (rm_dir_and_target_cases _ _ _ H) as [[L [->| ->]]|[_ ->]]; try exact G.
    apply roots_ok_app; [|exact G].
    apply roots_ok_opt. intros T HT.
    assert (B : is_base s run stds T).
    { destruct Hd as [E|Hm]; [left; rewrite E, app_nil_r in HT; exact HT|].
      right. exists (run ++ d). auto. }
    split; [exact (base_nonroot s T HI B)|]. exact (base_inside s T T HI B (is_prefix_refl T)).
  Qed.

  (* ---- the loops ---- *)
  Definition paths_ok (s : fs) (ps : list path) : Prop :=
    forall p, In p ps -> exists rel, p = run ++ rel /\ anc_ok s run stds rel.

  Lemma paths_ok_rm : forall s del ps, roots_ok s del -> paths_ok s ps -> paths_ok (rm_trees s del) ps.
  Proof.
    intros s del ps Hr Hp p Hin. destruct (Hp p Hin) as (rel & -> & Hok). exists rel. split; [reflexivity|].
    apply roots_ok_anc; assumption.
  Qed.

  (* what a loop preserves: the invariant, and the ancestor condition of any path *)
  Definition Post (s s' : fs) : Prop :=
    Inv s' /\ (forall rel, anc_ok s run stds rel -> anc_ok s' run stds rel) /\ Shrinks s s'.

  Lemma Post_refl : forall s, Inv s -> Post s s.
  Proof. intros s H. split; [exact H|]. split; [auto|apply Shrinks_refl]. Qed.

  Lemma Post_trans : forall a b c, Post a b -> Post b c -> Post a c.
  Proof.
    intros a b c (_ & H1 & S1) (H2 & H3 & S2). split; [exact H2|]. split; [auto|eapply Shrinks_trans; eauto].
  Qed.

  Lemma roots_ok_nonroot : forall s del, roots_ok s del -> forall P, In P del -> P <> [].
  Proof. intros s del H P HP. destruct (H P HP). assumption. Qed.

  Lemma Post_roots : forall s del, Inv s -> roots_ok s del -> Post s (rm_trees s del).
  Proof.
    intros s del HI Hr. split; [apply roots_ok_Inv; assumption|]. split.
    - intros rel. apply roots_ok_anc. exact Hr.
    - apply Shrinks_rm_trees. eapply roots_ok_nonroot; eauto.
  Qed.

  Lemma paths_ok_Post : forall s s' ps, Post s s' -> paths_ok s ps -> paths_ok s' ps.
  Proof.
    intros s s' ps (_ & H & _) Hp p Hin. destruct (Hp p Hin) as (rel & -> & Hok). eauto.
  Qed.

  Lemma rm_each_cons : forall s p ps, rm_each s (p :: ps) =
    if lexists s p then
      match rm_dir_or_file s p with
      | ROk del => rm_each (rm_trees s del) ps
      | RErr e => (s, Some e)
      end
    else rm_each s ps.
  Proof. reflexivity. Qed.

  Lemma rm_targets_cons : forall s p ps, rm_targets s (p :: ps) =
    match rm_dir_and_target s p with
    | ROk del => rm_targets (rm_trees s del) ps
    | RErr e => (s, Some e)
    end.
  Proof. reflexivity. Qed.

  Lemma rm_each_Post : forall ps s s' e, Inv s -> paths_ok s ps -> rm_each s ps = (s', e) -> Post s s'.
  Proof.
    induction ps as [|p ps IH]; intros s s' e HI Hp.
    - intros H. inversion H; subst. apply Post_refl. exact HI.
    - destruct (Hp p (or_introl eq_refl)) as (rel & Ep & Hok). rewrite rm_each_cons.
      destruct (lexists s p).
      2:{ intros H. eapply IH; [exact HI| |exact H]. intros q Hq. apply Hp. right. exact Hq. }
      destruct (rm_dir_or_file s p) as [del|er] eqn:E; intros H.
      + rewrite Ep in E. pose proof (rm_dir_or_file_roots _ _ _ HI Hok E) as Hr.
        pose proof (Post_roots _ _ HI Hr) as P1.
        eapply Post_trans; [exact P1|]. eapply IH; [apply P1| |exact H].
        eapply paths_ok_Post; [exact P1|]. intros q Hq. apply Hp. right. exact Hq.
      + inversion H; subst. apply Post_refl. exact HI.
  Qed.

  Lemma rm_targets_Post : forall ds s s' e, Inv s ->
    (forall d, In d ds -> anc_ok s run stds d /\ (d = [] \/ mem_path (run ++ d) stds = true)) ->
    rm_targets s (map (fun d => run ++ d) ds) = (s', e) -> Post s s'.
  Proof.
    induction ds as [|d ds IH]; intros s s' e HI Hd.
    - intros H. inversion H; subst. apply Post_refl. exact HI.
    - destruct (Hd d (or_introl eq_refl)) as [Hok Hm]. cbn [map]. rewrite rm_targets_cons.
      destruct (rm_dir_and_target s (run ++ d)) as [del|er] eqn:E; intros H.
      + pose proof (rm_dir_and_target_roots _ _ _ HI Hok Hm E) as Hr.
        pose proof (Post_roots _ _ HI Hr) as P1.
        eapply Post_trans; [exact P1|]. eapply IH; [apply P1| |exact H].
        intros d' Hd'. destruct (Hd d' (or_intror Hd')) as [A B]. split; [apply P1; exact A|exact B].
      + inversion H; subst. apply Post_refl. exact HI.
  Qed.

  (* ---- _clean_using_glob ---- *)
  Variable keys : list path.     (* the standard symlink dirs relative to the run dir *)
  Hypothesis stds_def : stds = map (fun d => run ++ d) keys.
  (* get_symlink_dirs returns every std dir that is a symlink, so the symlinks among the
     strict ancestors of a std dir (which are std dirs or the run dir) are standard ones *)
  Hypothesis keys_anc : forall d, In d keys -> anc_ok s0 run stds d.

  Lemma mem_path_In : forall p l, mem_path p l = true <-> In p l.
  Proof. intros. unfold mem_path. apply mem_In. apply path_eqb_eq. Qed.

  Lemma keys_anc_Inv : forall s d, Inv s -> In d keys -> anc_ok s run stds d.
  Proof.
    intros s d (D & -> & He & H0 & _) Hd. apply anc_ok_restrict; auto.
  Qed.

  Lemma remove_path_subset : forall x l p, In p (remove_path x l) -> In p l.
  Proof.
    intros x l p. unfold remove_path. induction l as [|y l IH]; cbn; [auto|].
    destruct (path_eqb y x); cbn; [auto|]. intros [H|H]; auto.
  Qed.

  Lemma rm_std_dirs_cons : forall s sd rest matches, rm_std_dirs s run (sd :: rest) matches =
    if existsb (fun p => is_prefix p sd) matches && is_link s sd then
      match rm_dir_and_target s sd with
      | RErr e => (s, matches, Some (Some e))
      | ROk del =>
          let s' := rm_trees s del in
          if path_eqb sd run then (s', matches, Some None)
          else rm_std_dirs s' run rest (if mem_path sd matches then remove_path sd matches else matches)
      end
    else rm_std_dirs s run rest matches.
  Proof. reflexivity. Qed.

  Lemma rm_std_dirs_Post : forall ds s ms s' ms' stop, Inv s ->
    (forall d, In d ds -> In d keys) ->
    rm_std_dirs s run (map (fun d => run ++ d) ds) ms = (s', ms', stop) ->
    Post s s' /\ forall p, In p ms' -> In p ms.
  Proof.
    induction ds as [|d ds IH]; intros s ms s' ms' stop HI Hk.
    - cbn. intros H. inversion H; subst. split; [apply Post_refl; exact HI|auto].
    - cbn [map]. rewrite rm_std_dirs_cons.
      destruct (existsb (fun p => is_prefix p (run ++ d)) ms && is_link s (run ++ d)).
      2:{ intros H. eapply IH; eauto. intros d' Hd'. apply Hk. right. exact Hd'. }
      destruct (rm_dir_and_target s (run ++ d)) as [del|er] eqn:E.
      2:{ intros H. inversion H; subst. split; [apply Post_refl; exact HI|auto]. }
      assert (Hr : roots_ok s del).
      { assert (Hd : In d keys) by (apply Hk; left; reflexivity).
        apply (rm_dir_and_target_roots s d del HI (keys_anc_Inv s d HI Hd)); [|exact E].
        right. apply mem_path_In. rewrite stds_def. apply in_map. exact Hd. }
      pose proof (Post_roots _ _ HI Hr) as P1. cbv zeta.
      destruct (path_eqb (run ++ d) run).
      + intros H. inversion H; subst. split; [exact P1|auto].
      + intros H. destruct (IH _ _ _ _ _ (proj1 P1) (fun d' Hd' => Hk d' (or_intror Hd')) H) as [P2 Hsub].
        split; [eapply Post_trans; eauto|].
        intros p Hp. specialize (Hsub p Hp). destruct (mem_path (run ++ d) ms); [|exact Hsub].
        eapply remove_path_subset; eauto.
  Qed.

  Lemma clean_using_glob_Post : forall s raw s' e, Inv s ->
    (forall x, In x raw -> lexical run x) ->
    clean_using_glob s run keys raw = (s', e) -> Post s s'.
  Proof.
    intros s raw s' e HI Hlex. unfold clean_using_glob. rewrite <- stds_def.
    pose proof (glob_in_run_dir_ok s run stds raw) as G.
    destruct (glob_in_run_dir s run stds raw) as [|m ms] eqn:Em.
    - intros H. inversion H; subst. apply Post_refl. exact HI.
    - rewrite stds_def.
      destruct (rm_std_dirs s run (map (fun d => run ++ d) keys) (m :: ms)) as [[s1 ms1] stop] eqn:E1.
      destruct (rm_std_dirs_Post _ _ _ _ _ _ HI (fun d Hd => Hd) E1) as [P1 Hsub].
      destruct stop as [stop|]; intros H.
      + inversion H; subst. exact P1.
      + eapply Post_trans; [exact P1|]. eapply rm_each_Post; [apply P1| |exact H].
        eapply paths_ok_Post; [exact P1|]. intros p Hp.
        destruct (G p Hlex (Hsub p Hp)) as [_ Hx]. exact Hx.
  Qed.

  Lemma clean_patterns_Post : forall globs s s' e, Inv s ->
    (forall raw, In raw globs -> forall x, In x raw -> lexical run x) ->
    clean_patterns s run keys globs = (s', e) -> Post s s'.
  Proof.
    induction globs as [|g rest IH]; intros s s' e HI Hlex.
    - cbn. intros H. inversion H; subst. apply Post_refl. exact HI.
    - cbn [clean_patterns].
      destruct (clean_using_glob s run keys g) as [s1 [e1|]] eqn:E1; intros H.
      + inversion H; subst. eapply clean_using_glob_Post; eauto. apply Hlex. left. reflexivity.
      + pose proof (clean_using_glob_Post _ _ _ _ HI (Hlex g (or_introl eq_refl)) E1) as P1.
        eapply Post_trans; [exact P1|]. eapply IH; [apply P1| |exact H].
        intros raw Hr. apply Hlex. right. exact Hr.
  Qed.

  (* the wholesale branch of clean() *)
  Definition wholesale (s : fs) : st_res :=
    match rm_targets s (map (fun d => run ++ d) keys) with
    | (s', Some e) => (s', Some e)
    | (s', None) => if mem_path [] keys then (s', None) else rm_targets s' [run]
    end.

  Lemma anc_ok_nil : forall s, anc_ok s run stds [].
  Proof. intros s a []. Qed.

  Lemma wholesale_Post : forall s s' e, Inv s -> wholesale s = (s', e) -> Post s s'.
  Proof.
    intros s s' e HI. unfold wholesale.
    destruct (rm_targets s (map (fun d => run ++ d) keys)) as [s1 e1] eqn:E1.
    assert (P1 : Post s s1).
    { eapply rm_targets_Post; [exact HI| |exact E1]. intros d Hd. split.
      - apply keys_anc_Inv; assumption.
      - right. apply mem_path_In. rewrite stds_def. apply in_map. exact Hd. }
    destruct e1 as [e1|]; [intros H; inversion H; subst; exact P1|].
    destruct (mem_path [] keys); [intros H; inversion H; subst; exact P1|].
    intros H. eapply Post_trans; [exact P1|].
    apply (rm_targets_Post [[]] s1 s' e (proj1 P1)).
    - intros d [<-|[]]. split; [apply anc_ok_nil|left; reflexivity].
    - cbn [map]. rewrite app_nil_r. exact H.
  Qed.

  (* ---- completeness of the removal loops ---- *)
  Lemma lexists_phys : forall s p, lexists s p = true -> exists P k, phys s p = Some P /\ lstat s p = Some k.
  Proof.
    intros s p. unfold lexists. destruct (lstat s p) as [k|] eqn:L; [|discriminate]. intros _.
    unfold lstat in L. destruct (phys s p) as [P|] eqn:HP; [|discriminate]. exists P, k. auto.
  Qed.

  (* an existing path is always removable: remove_dir_or_file cannot fail on it *)
  Lemma rm_dir_or_file_total : forall s p, lexists s p = true ->
    exists P, phys s p = Some P /\ rm_dir_or_file s p = ROk [P].
  Proof.
    intros s p H. destruct (lexists_phys s p H) as (P & k & HP & L). exists P. split; [exact HP|].
    unfold rm_dir_or_file, is_link, is_file, is_dir, stat. rewrite L, HP.
    destruct k; reflexivity.
  Qed.

  Lemma rm_each_complete : forall ps s, (forall p, In p ps -> p <> []) ->
    exists s', rm_each s ps = (s', None) /\ Shrinks s s' /\ forall p, In p ps -> gone s' p.
  Proof.
    induction ps as [|p ps IH]; intros s Hne.
    - exists s. split; [reflexivity|]. split; [apply Shrinks_refl|intros p []].
    - rewrite rm_each_cons. destruct (lexists s p) eqn:Lx.
      + destruct (rm_dir_or_file_total s p Lx) as (P & HP & ->).
        assert (HPne : forall Q, In Q [P] -> Q <> []).
        { intros Q [<-|[]]. eapply phys_nonroot; [apply Hne; left; reflexivity|exact HP]. }
        destruct (IH (rm_trees s [P]) (fun q Hq => Hne q (or_intror Hq))) as (s' & E & Sh & Hall).
        exists s'. split; [exact E|]. split.
        * eapply Shrinks_trans; [apply Shrinks_rm_trees; exact HPne|exact Sh].
        * intros q [<-|Hq]; [|apply Hall; exact Hq].
          eapply gone_mono; [|exact Sh]. eapply gone_of_root; [exact HPne|left; reflexivity|exact HP].
      + destruct (IH s (fun q Hq => Hne q (or_intror Hq))) as (s' & E & Sh & Hall).
        exists s'. split; [exact E|]. split; [exact Sh|].
        intros q [Eq|Hq]; [subst q|apply Hall; exact Hq].
        intros s'' Sh'. destruct (Shrinks_trans _ _ _ Sh Sh') as (D & -> & He & H0).
        unfold lexists in *. destruct (lstat (restrict s D) p) as [k|] eqn:E'; [|reflexivity].
        destruct (lstat_restrict s D He H0 _ _ E') as (E'' & _). rewrite E'' in Lx. discriminate.
  Qed.

  Lemma remove_path_other : forall x l p, In p l -> p <> x -> In p (remove_path x l).
  Proof.
    intros x l p. unfold remove_path. induction l as [|y l IH]; cbn; [auto|].
    intros [->|H] Hne.
    - destruct (path_eqb p x) eqn:E; [apply path_eqb_eq in E; congruence|left; reflexivity].
    - destruct (path_eqb y x); [exact H|right; apply IH; assumption].
  Qed.

  Lemma link_root : forall s p del, is_link s p = true -> rm_dir_and_target s p = ROk del ->
    exists P, phys s p = Some P /\ In P del.
  Proof.
    intros s p del L H. assert (Lx : lexists s p = true).
    { unfold is_link in L. unfold lexists. destruct (lstat s p); [reflexivity|discriminate]. }
    destruct (lexists_phys s p Lx) as (P & k & HP & _). exists P. split; [exact HP|].
    destruct (rm_dir_and_target_cases _ _ _ H) as [[_ [->| ->]]|[_ ->]]; rewrite HP; cbn;
      [apply in_or_app; right; left; reflexivity|left; reflexivity|left; reflexivity].
  Qed.

  (* first loop of _clean_using_glob: a standard symlink dir taken out of the match list has
     been removed; if the run dir itself went, every path below it is gone *)
  Lemma rm_std_dirs_complete : forall ds s ms s' ms' stop, Inv s ->
    (forall d, In d ds -> In d keys) ->
    rm_std_dirs s run (map (fun d => run ++ d) ds) ms = (s', ms', stop) ->
    (forall e, stop <> Some (Some e)) ->
    (forall p, In p ms -> In p ms' \/ gone s' p) /\
    (stop = Some None -> forall rel, gone s' (run ++ rel)).
  Proof.
    induction ds as [|d ds IH]; intros s ms s' ms' stop HI Hk.
    - cbn. intros H. inversion H; subst. intros _. split; [auto|discriminate].
    - cbn [map]. rewrite rm_std_dirs_cons.
      destruct (existsb (fun p => is_prefix p (run ++ d)) ms && is_link s (run ++ d)) eqn:C.
      2:{ intros H. eapply IH; eauto. intros d' Hd'. apply Hk. right. exact Hd'. }
      apply andb_prop in C. destruct C as [_ L].
      destruct (rm_dir_and_target s (run ++ d)) as [del|er] eqn:E.
      2:{ intros H. inversion H; subst. intros Hs. exfalso. eapply Hs. reflexivity. }
      assert (Hd : In d keys) by (apply Hk; left; reflexivity).
      assert (Hr : roots_ok s del).
      { apply (rm_dir_and_target_roots s d del HI (keys_anc_Inv s d HI Hd)); [|exact E].
        right. apply mem_path_In. rewrite stds_def. apply in_map. exact Hd. }
      pose proof (Post_roots _ _ HI Hr) as P1. pose proof (roots_ok_nonroot _ _ Hr) as Hne.
      destruct (link_root _ _ _ L E) as (P & HP & HinP).
      assert (Hsdne : run ++ d <> []) by (destruct run; [congruence|discriminate]).
      cbv zeta. destruct (path_eqb (run ++ d) run) eqn:Eq.
      + intros H. inversion H; subst. intros _. split; [auto|]. intros _ rel.
        apply path_eqb_eq in Eq. rewrite Eq in HP.
        eapply gone_below_root; eauto.
      + intros H Hs.
        destruct (rm_std_dirs_Post _ _ _ _ _ _ (proj1 P1) (fun d' Hd' => Hk d' (or_intror Hd')) H) as [P2 _].
        destruct (IH _ _ _ _ _ (proj1 P1) (fun d' Hd' => Hk d' (or_intror Hd')) H Hs) as [A B].
        split; [|exact B]. intros p Hp.
        destruct (path_eqb p (run ++ d)) eqn:Ep.
        * apply path_eqb_eq in Ep. subst p. right.
          eapply gone_mono; [|apply P2]. eapply gone_of_root; eauto.
        * apply A. destruct (mem_path (run ++ d) ms); [|exact Hp].
          apply remove_path_other; [exact Hp|]. intros ->. rewrite path_eqb_refl in Ep. discriminate.
  Qed.

  (* every path glob_in_run_dir hands to the removal loops is gone afterwards, unless
     remove_dir_and_target itself raised on a standard symlink dir *)
  Lemma clean_using_glob_complete : forall s raw s', Inv s ->
    (forall x, In x raw -> lexical run x) ->
    clean_using_glob s run keys raw = (s', None) ->
    forall p, In p (glob_in_run_dir s run stds raw) -> gone s' p.
  Proof.
    intros s raw s' HI Hlex. unfold clean_using_glob. rewrite <- stds_def.
    pose proof (glob_in_run_dir_ok s run stds raw) as G.
    destruct (glob_in_run_dir s run stds raw) as [|m ms] eqn:Em; [intros _ p []|].
    rewrite stds_def.
    destruct (rm_std_dirs s run (map (fun d => run ++ d) keys) (m :: ms)) as [[s1 ms1] stop] eqn:E1.
    destruct (rm_std_dirs_Post _ _ _ _ _ _ HI (fun d Hd => Hd) E1) as [P1 Hsub].
    destruct stop as [[e|]|]; intros H; [discriminate| |].
    - inversion H; subst. intros p Hp.
      destruct (rm_std_dirs_complete _ _ _ _ _ _ HI (fun d Hd => Hd) E1) as [_ B]; [intros e; discriminate|].
      destruct (G p Hlex Hp) as [_ (rel & -> & _)]. apply B. reflexivity.
    - destruct (rm_std_dirs_complete _ _ _ _ _ _ HI (fun d Hd => Hd) E1) as [A _]; [intros e; discriminate|].
      assert (Hne : forall q, In q ms1 -> q <> []).
      { intros q Hq. destruct (G q Hlex (Hsub q Hq)) as [_ (rel & -> & _)]. destruct run; [congruence|discriminate]. }
      destruct (rm_each_complete ms1 s1 Hne) as (s2 & E2 & Sh & Hall). rewrite E2 in H. inversion H; subst.
      intros p Hp. destruct (A p Hp) as [Hin|Hg]; [apply Hall; exact Hin|eapply gone_mono; eauto].
  Qed.

  (* and the loop over the standard dirs + the rest never fails once the standard dirs are done *)
  Lemma rm_each_never_fails : forall ps s, (forall p, In p ps -> p <> []) -> snd (rm_each s ps) = None.
  Proof. intros ps s H. destruct (rm_each_complete ps s H) as (s' & -> & _). reflexivity. Qed.

  (* everything that disappeared lies inside the allowed region *)
  Lemma Inv_contained : forall s, Inv s -> forall e, In e s0 -> ~ In e s -> inside0 (fst e).
  Proof.
    intros s (D & -> & He & H0 & Hin) e He0 Hn. apply Hin; [exact He0|].
    destruct (D (fst e)) eqn:Dd; [reflexivity|]. exfalso. apply Hn. apply restrict_In. auto.
  Qed.
End Contain.

(* ================================================================== *)
(* 7. get_symlink_dirs provides the hypotheses of the containment proof *)
(* ================================================================== *)
Lemma gsd_from_spec : forall s run id ds l, get_symlink_dirs_from s run id ds = ROk l ->
  (forall d, In d ds -> is_link s (run ++ d) = true -> In d (map fst l)) /\
  (forall d t, In (d, t) l -> In d ds /\ is_link s (run ++ d) = true /\ realpath s (run ++ d) = Some t /\
                              is_suffix (n_cylc_run :: id ++ d) t = true).
Proof.
  intros s run id. induction ds as [|d ds IH]; intros l.
  - cbn. intros H. inversion H; subst. split; [intros d []|intros d t []].
  - cbn [get_symlink_dirs_from].
    destruct (is_link s (run ++ d)) eqn:L.
    + destruct (realpath s (run ++ d)) as [t|] eqn:R; [|discriminate].
      destruct (match lookup s t with Some KD | None => false | _ => true end); [discriminate|].
      destruct (is_suffix (n_cylc_run :: id ++ d) t) eqn:Sf; cbn [negb]; [|discriminate].
      destruct (get_symlink_dirs_from s run id ds) as [l'|] eqn:E; [|discriminate].
      intros H. inversion H; subst. destruct (IH l' eq_refl) as [A B]. split.
      * intros d' [<-|Hd'] Hl; [left; reflexivity|right; apply A; assumption].
      * intros d' t' [Hp|Hp].
        -- inversion Hp; subst. repeat split; auto. left. reflexivity.
        -- destruct (B d' t' Hp) as (B1 & B2). split; [right; exact B1|exact B2].
    + intros H. destruct (IH l H) as [A B]. split.
      * intros d' [<-|Hd'] Hl; [congruence|apply A; assumption].
      * intros d' t' Hp. destruct (B d' t' Hp) as (B1 & B2). split; [right; exact B1|exact B2].
Qed.

(* proper prefixes of standard dirs are standard dirs (share/cycle -> share, ...) *)
Lemma std_dirs_prefix_closed :
  forallb (fun d => forallb (fun a => mem_path a std_dirs) (proper_prefixes d)) std_dirs = true.
Proof. vm_compute. reflexivity. Qed.

Lemma is_suffix_nonroot : forall x suf, is_suffix (x :: suf) [] = false.
Proof.
  intros x suf. unfold is_suffix. cbn [rev]. destruct (rev suf ++ [x]) eqn:E; [|reflexivity].
  destruct (rev suf); discriminate.
Qed.

Section FromGsd.
  Variables (s0 : fs) (run id : path) (pairs : list (path * path)).
  Hypothesis gsd : get_symlink_dirs s0 run id = ROk pairs.
  Let keys := map fst pairs.
  Let stds := map (fun d => run ++ d) keys.

  Lemma app_inv_head_path : forall (a b c : path), a ++ b = a ++ c -> b = c.
  Proof. intros a b c. apply app_inv_head. Qed.

  Lemma gsd_keys_anc : forall d, In d keys -> anc_ok s0 run stds d.
  Proof.
    intros d Hd a Ha Hl. destruct (gsd_from_spec _ _ _ _ _ gsd) as [A B].
    unfold keys in Hd. apply in_map_iff in Hd. destruct Hd as ([d' t] & <- & Hp). cbn [fst] in *.
    destruct (B _ _ Hp) as (Hstd & _).
    pose proof std_dirs_prefix_closed as C. rewrite forallb_forall in C.
    specialize (C _ Hstd). rewrite forallb_forall in C. specialize (C _ Ha).
    apply mem_In in C; [|apply path_eqb_eq].
    apply mem_In; [apply path_eqb_eq|]. unfold stds. apply in_map. apply A; assumption.
  Qed.

  Lemma gsd_std_nonroot : forall sd, mem_path sd stds = true -> realpath s0 sd <> Some [].
  Proof.
    intros sd Hm E. apply mem_In in Hm; [|apply path_eqb_eq].
    unfold stds, keys in Hm. rewrite map_map in Hm. apply in_map_iff in Hm.
    destruct Hm as ([d t] & <- & Hp). cbn [fst] in *.
    destruct (gsd_from_spec _ _ _ _ _ gsd) as [_ B]. destruct (B _ _ Hp) as (_ & _ & R & Sf).
    rewrite R in E. inversion E; subst. rewrite is_suffix_nonroot in Sf. discriminate.
  Qed.

  Hypothesis run_nonroot : run <> [].

  Lemma gsd_run_nonroot : realpath s0 run <> Some [].
  Proof.
    intros E. destruct (split_last_some run run_nonroot) as (par & c & Er).
    assert (E' := E). rewrite Er in E'.
    destruct (realpath_app_inv _ _ _ _ E') as (m & f' & R1 & W).
    destruct (walk_single _ _ _ _ _ W) as [[t L]|[_ Eq]].
    - assert (Lk : is_link s0 run = true).
      { rewrite Er. unfold is_link. rewrite (lstat_snoc _ _ _ _ R1), L. reflexivity. }
      destruct (gsd_from_spec _ _ _ _ _ gsd) as [A _].
      assert (Hin : In [] (map fst pairs)).
      { apply A; [right; right; right; right; right; left; reflexivity|rewrite app_nil_r; exact Lk]. }
      apply (gsd_std_nonroot run); [|exact E].
      apply mem_In; [apply path_eqb_eq|]. unfold stds, keys.
      replace run with (run ++ []) at 1 by apply app_nil_r. apply in_map. exact Hin.
    - destruct m; discriminate.
  Qed.
End FromGsd.

(* ================================================================== *)
(* 8. the core of clean(): everything before the tidy-up               *)
(* ================================================================== *)
Definition clean_core (s : fs) (run : path) (keys : list path) (globs : option (list (list path))) : st_res :=
  match globs with
  | Some gl => clean_patterns s run keys gl
  | None => wholesale run keys s
  end.

Lemma clean_unfold : forall s cr id globs pairs,
  get_symlink_dirs s (cr ++ id) id = ROk pairs ->
  clean s cr id globs =
  match clean_core s (cr ++ id) (map fst pairs) globs with
  | (s1, Some e) => (s1, Some e)
  | (s1, None) => tidy s1 (cr ++ id) id pairs
  end.
Proof.
  intros s cr id globs pairs H. unfold clean. rewrite H. unfold clean_core, wholesale.
  destruct globs as [gl|]; [reflexivity|].
  destruct (rm_targets s (map (fun d => (cr ++ id) ++ d) (map fst pairs))) as [s' [e|]]; [reflexivity|].
  destruct (mem_path [] (map fst pairs)); reflexivity.
Qed.

Lemma clean_refuses : forall s cr id globs e,
  get_symlink_dirs s (cr ++ id) id = RErr e -> clean s cr id globs = (s, Some e).
Proof. intros s cr id globs e H. unfold clean. rewrite H. reflexivity. Qed.

Definition globs_lexical (run : path) (globs : option (list (list path))) : Prop :=
  match globs with
  | Some gl => forall raw, In raw gl -> forall x, In x raw -> lexical run x
  | None => True
  end.

Theorem clean_core_contained : forall s0 run id pairs globs s1 e,
  run <> [] ->
  get_symlink_dirs s0 run id = ROk pairs ->
  globs_lexical run globs ->
  clean_core s0 run (map fst pairs) globs = (s1, e) ->
  forall ent, In ent s0 -> ~ In ent s1 ->
  inside0 s0 run (map (fun d => run ++ d) (map fst pairs)) (fst ent).
Proof.
  intros s0 run id pairs globs s1 e Hrun Hg Hlex Hc.
  set (keys := map fst pairs). set (stds := map (fun d => run ++ d) keys).
  assert (P : Post s0 run stds s0 s1).
  { destruct globs as [gl|]; cbn [clean_core] in Hc.
    - eapply (clean_patterns_Post s0 run stds Hrun
                (gsd_std_nonroot s0 run id pairs Hg) (gsd_run_nonroot s0 run id pairs Hg Hrun)
                keys eq_refl (gsd_keys_anc s0 run id pairs Hg)); [apply Inv_init|exact Hlex|exact Hc].
    - eapply (wholesale_Post s0 run stds Hrun
                (gsd_std_nonroot s0 run id pairs Hg) (gsd_run_nonroot s0 run id pairs Hg Hrun)
                keys eq_refl (gsd_keys_anc s0 run id pairs Hg)); [apply Inv_init|exact Hc]. }
  intros ent. apply (Inv_contained s0 run stds s1 (proj1 P)).
Qed.


(* ================================================================== *)
(* 9. what glob_in_run_dir drops                                        *)
(* ================================================================== *)
Section Filter.
  Variables (s : fs) (run : path) (stds matches : list path).

  (* run/rel has a non-standard symlink among its strict ancestors *)
  Definition blocked (rel : path) : Prop :=
    exists a, In a (proper_prefixes rel) /\ is_link s (run ++ a) = true /\ mem_path (run ++ a) stds = false.

  (* run/rel, or one of its strict ancestors, is in R *)
  Definition covered (R : list path) (rel : path) : Prop :=
    exists a, (In a (proper_prefixes rel) \/ a = rel) /\ In (run ++ a) R.

  (* a strict ancestor is itself a match *)
  Definition parent_matched (rel : path) : Prop :=
    exists a, In a (proper_prefixes rel) /\ In (run ++ a) matches.

  Definition excl_ok (excl results : list path) : Prop :=
    forall x, In x excl -> exists a, x = run ++ a /\
      ((is_link s x = true /\ mem_path x stds = false) \/ In x results).

  Lemma app_inv_run : forall a b : path, run ++ a = run ++ b -> a = b.
  Proof. intros a b. apply app_inv_head. Qed.

  Lemma scan_drop : forall results p parent ancs excl excl' rel,
    (forall a, In a ancs -> In a (proper_prefixes rel)) ->
    excl_ok excl results ->
    scan_ancestors s run stds matches results p parent ancs excl = (Drop, excl') ->
    (blocked rel \/ covered results rel \/ parent_matched rel) /\ excl_ok excl' results.
  Proof.
    intros results p parent. induction ancs as [|a0 rest IH]; intros excl excl' rel Hsub Hex H.
    - cbn in H. discriminate.
    - cbn [scan_ancestors] in H. assert (Ha0 : In a0 (proper_prefixes rel)) by (apply Hsub; left; reflexivity).
      destruct (mem_path (run ++ a0) excl) eqn:E0.
      { inversion H; subst. split; [|exact Hex].
        apply mem_In in E0; [|apply path_eqb_eq]. destruct (Hex _ E0) as (a & Ea & [[L M]|R]).
        - left. exists a0. auto.
        - right. left. exists a0. auto. }
      destruct (is_link s (run ++ a0) && negb (mem_path (run ++ a0) stds)) eqn:E1.
      { inversion H; subst. apply andb_prop in E1. destruct E1 as [L M]. apply negb_true_iff in M. split.
        - left. exists a0. auto.
        - intros x [<-|Hx]; [exists a0; auto|apply Hex; exact Hx]. }
      destruct (is_nil_path stds && mem_path (run ++ a0) results) eqn:E2.
      { inversion H; subst. apply andb_prop in E2. destruct E2 as [_ R].
        apply mem_In in R; [|apply path_eqb_eq]. split.
        - right. left. exists a0. auto.
        - intros x [<-|Hx]; [exists a0; auto|apply Hex; exact Hx]. }
      destruct (path_eqb (run ++ a0) parent && (mem_path (run ++ a0) matches && negb (mem_path p stds))) eqn:E3.
      { inversion H; subst. apply andb_prop in E3. destruct E3 as [_ E3]. apply andb_prop in E3.
        destruct E3 as [M _]. apply mem_In in M; [|apply path_eqb_eq]. split; [|exact Hex].
        right. right. exists a0. auto. }
      eapply IH; eauto. intros a Ha. apply Hsub. right. exact Ha.
  Qed.

  Lemma scan_excl_ok : forall results p parent ancs excl excl' v,
    excl_ok excl results ->
    scan_ancestors s run stds matches results p parent ancs excl = (v, excl') -> excl_ok excl' results.
  Proof.
    intros results p parent. induction ancs as [|a0 rest IH]; intros excl excl' v Hex H.
    - cbn in H. inversion H; subst. exact Hex.
    - cbn [scan_ancestors] in H.
      destruct (mem_path (run ++ a0) excl) eqn:E0; [inversion H; subst; exact Hex|].
      destruct (is_link s (run ++ a0) && negb (mem_path (run ++ a0) stds)) eqn:E1.
      { inversion H; subst. apply andb_prop in E1. destruct E1 as [L M]. apply negb_true_iff in M.
        intros x [<-|Hx]; [exists a0; auto|apply Hex; exact Hx]. }
      destruct (is_nil_path stds && mem_path (run ++ a0) results) eqn:E2.
      { inversion H; subst. apply andb_prop in E2. destruct E2 as [_ R].
        apply mem_In in R; [|apply path_eqb_eq].
        intros x [<-|Hx]; [exists a0; auto|apply Hex; exact Hx]. }
      destruct (path_eqb (run ++ a0) parent && (mem_path (run ++ a0) matches && negb (mem_path p stds)));
        [inversion H; subst; exact Hex|].
      eapply IH; eauto.
  Qed.

  Lemma scan_keep_excl : forall results p parent ancs excl excl',
    scan_ancestors s run stds matches results p parent ancs excl = (Keep, excl') -> excl' = excl.
  Proof.
    intros results p parent. induction ancs as [|a0 rest IH]; intros excl excl' H.
    - cbn in H. inversion H. reflexivity.
    - cbn [scan_ancestors] in H.
      destruct (mem_path (run ++ a0) excl); [discriminate|].
      destruct (is_link s (run ++ a0) && negb (mem_path (run ++ a0) stds)); [discriminate|].
      destruct (is_nil_path stds && mem_path (run ++ a0) results); [discriminate|].
      destruct (path_eqb (run ++ a0) parent && (mem_path (run ++ a0) matches && negb (mem_path p stds)));
        [discriminate|]. eapply IH; eauto.
  Qed.

  Lemma glob_filter_mono : forall todo results excl x,
    In x results -> In x (glob_filter s run stds matches todo results excl).
  Proof.
    induction todo as [|y rest IH]; intros results excl x H; cbn [glob_filter]; [exact H|].
    destruct (scan_ancestors s run stds matches results y
                (match split_last y with Some (par, _) => par | None => [] end)
                (proper_prefixes (strip_prefix_len run y)) excl) as [[|] excl'].
    - apply IH. apply in_or_app. left. exact H.
    - apply IH. exact H.
  Qed.

  Lemma covered_mono : forall R R' rel, (forall x, In x R -> In x R') -> covered R rel -> covered R' rel.
  Proof. intros R R' rel H (a & Ha & Hin). exists a. auto. Qed.

  Lemma excl_ok_mono : forall excl R R', (forall x, In x R -> In x R') -> excl_ok excl R -> excl_ok excl R'.
  Proof.
    intros excl R R' H Hex x Hx. destruct (Hex x Hx) as (a & Ea & [L|Hr]); exists a; auto.
  Qed.

  Lemma glob_filter_classify : forall todo results excl,
    excl_ok excl results ->
    forall rel, In (run ++ rel) todo ->
    let final := glob_filter s run stds matches todo results excl in
    blocked rel \/ covered final rel \/ parent_matched rel.
  Proof.
    induction todo as [|y rest IH]; intros results excl Hex rel Hin; [destruct Hin|].
    cbn [glob_filter].
    destruct (scan_ancestors s run stds matches results y
                (match split_last y with Some (par, _) => par | None => [] end)
                (proper_prefixes (strip_prefix_len run y)) excl) as [[|] excl'] eqn:E.
    - pose proof (scan_keep_excl _ _ _ _ _ _ E) as ->.
      assert (Hex' : excl_ok excl (results ++ [y])).
      { eapply excl_ok_mono; [|exact Hex]. intros x Hx. apply in_or_app. left. exact Hx. }
      destruct Hin as [->|Hin]; [|apply IH; assumption].
      right. left. exists rel. split; [right; reflexivity|].
      apply glob_filter_mono. apply in_or_app. right. left. reflexivity.
    - destruct Hin as [->|Hin].
      + unfold strip_prefix_len in E. rewrite skipn_app_exact in E.
        destruct (scan_drop _ _ _ _ _ _ rel (fun a Ha => Ha) Hex E) as [[B|[C|Pm]] _]; auto.
        right. left. eapply covered_mono; [|exact C]. intros x Hx. apply glob_filter_mono. exact Hx.
      + apply IH; [|exact Hin]. eapply scan_excl_ok; eauto.
  Qed.
End Filter.

Lemma pp_spec : forall rel a, In a (proper_prefixes rel) <-> exists r, r <> [] /\ rel = a ++ r.
Proof.
  induction rel as [|c rel IH]; intros a; cbn.
  - split; [intros []|]. intros (r & Hr & E). destruct a; destruct r; try discriminate. congruence.
  - split.
    + intros [<-|H]; [exists (c :: rel); split; [discriminate|reflexivity]|].
      apply in_map_iff in H. destruct H as (a' & <- & H'). apply IH in H'. destruct H' as (r & Hr & ->).
      exists r. auto.
    + intros (r & Hr & E). destruct a as [|x a']; [left; reflexivity|]. right.
      cbn in E. inversion E; subst. apply in_map. apply IH. eauto.
Qed.

Lemma pp_length : forall rel a, In a (proper_prefixes rel) -> length a < length rel.
Proof.
  intros rel a H. apply pp_spec in H. destruct H as (r & Hr & ->). rewrite app_length.
  destruct r; [congruence|cbn; lia].
Qed.

Lemma pp_trans : forall rel a b, In a (proper_prefixes rel) -> In b (proper_prefixes a) -> In b (proper_prefixes rel).
Proof.
  intros rel a b H1 H2. apply pp_spec in H1. apply pp_spec in H2. apply pp_spec.
  destruct H1 as (r1 & N1 & ->). destruct H2 as (r2 & N2 & ->). exists (r2 ++ r1). split.
  - destruct r2; [congruence|discriminate].
  - rewrite app_assoc. reflexivity.
Qed.

(* every glob match is blocked by a non-standard symlink above it, or is kept, or lies
   below a kept path (whose removal takes it along) *)
Theorem filter_covers : forall s run stds raw,
  forall rel, In (run ++ rel) raw ->
  blocked s run stds rel \/ covered run (glob_filter s run stds raw raw [] []) rel.
Proof.
  intros s run stds raw rel. remember (length rel) as n eqn:En. revert rel En.
  induction n as [n IH] using lt_wf_ind. intros rel En Hin.
  destruct (glob_filter_classify s run stds raw raw [] [] (fun x (F : In x []) => match F with end) rel Hin)
    as [B|[C|(a & Ha & Hm)]]; [left; exact B|right; exact C|].
  assert (Hlt : length a < n) by (subst n; apply pp_length; exact Ha).
  destruct (IH _ Hlt a eq_refl Hm) as [(b & Hb & L & M)|(b & Hb & Hin')].
  - left. exists b. split; [eapply pp_trans; eauto|auto].
  - right. exists b. split; [|exact Hin']. left. destruct Hb as [Hb| ->]; [eapply pp_trans; eauto|exact Ha].
Qed.

(* ================================================================== *)
(* 10. top-level statements (from get_symlink_dirs)                     *)
(* ================================================================== *)
Theorem clean_using_glob_kept_gone : forall s0 run id pairs raw s',
  run <> [] ->
  get_symlink_dirs s0 run id = ROk pairs ->
  (forall x, In x raw -> lexical run x) ->
  clean_using_glob s0 run (map fst pairs) raw = (s', None) ->
  forall p, In p (glob_in_run_dir s0 run (map (fun d => run ++ d) (map fst pairs)) raw) ->
  lexists s' p = false.
Proof.
  intros s0 run id pairs raw s' Hrun Hg Hlex Hc p Hp. apply gone_now.
  eapply (clean_using_glob_complete s0 run (map (fun d => run ++ d) (map fst pairs)) Hrun
            (gsd_std_nonroot s0 run id pairs Hg) (gsd_run_nonroot s0 run id pairs Hg Hrun)
            (map fst pairs) eq_refl (gsd_keys_anc s0 run id pairs Hg) s0 raw s');
    [apply Inv_init|exact Hlex|exact Hc|exact Hp].
Qed.

(* regression: the input of the (now fixed) defect — matched dir `cat`, deeper match
   `cat/b/cow`, further match `zed/cup`, a standard symlink dir `log` present.
   names: 0 cylc-run, 1 log, 8 wf, 9 cat, 10 b, 11 cow, 12 zed, 13 cup, 14 scr *)
Definition witness_fs : fs :=
  [ ([0], KD); ([0;8], KD); ([0;8;1], KL [14;0;8;1]); ([0;8;9], KD); ([0;8;9;10], KD);
    ([0;8;9;10;11], KF); ([0;8;12], KD); ([0;8;12;13], KF);
    ([14], KD); ([14;0], KD); ([14;0;8], KD); ([14;0;8;1], KD) ].
Definition witness_globs : list (list path) := [[ [0;8;9]; [0;8;9;10;11]; [0;8;12;13] ]].

Lemma witness_run :
  clean witness_fs [0] [8] (Some witness_globs) =
  ([ ([0], KD); ([0;8], KD); ([0;8;1], KL [14;0;8;1]); ([0;8;12], KD);
     ([14], KD); ([14;0], KD); ([14;0;8], KD); ([14;0;8;1], KD) ], None).
Proof. vm_compute. reflexivity. Qed.
