(* Proofs/TaskMsgProofs.v — lemmas about Model/TaskMsg.v (C09, C10, C02). *)
From Coq Require Import List Bool Arith ZArith Lia.
From Cylc Require Import Base.Util Gen.TaskMsgTables Model.TaskMsg.
Import ListNotations.

(* ====================================================================== *)
(* Part 1: a flat form of process_message (no recursion through the whole
   function for implied outputs) and its equality with the model.          *)
(* ====================================================================== *)

(* "waiting with a retry lined up": every non-expire message is ignored *)
Definition blocked (t : task) : bool := status_eqb (st t) Waiting && retry_lined_up t.
Definition stale (t : task) (f : flag) (n : Z) : bool :=
  flag_received f && negb (Z.eqb n (Z.of_nat (sn t))).
Definition addo (t : task) (o : out) : task := fst (complete t o).
Definition psub (t : task) : task :=
  if status_eqb (st t) Preparing then set_st t Submitted else t.
(* the internal 'submitted' / 'started' messages of implied outputs *)
Definition isub (t : task) : task * list effect :=
  (psub (addo t OSubmitted), [ESpawn OSubmitted]).
Definition istart (t : task) : task * list effect :=
  let t1 := addo t OStarted in
  let p := if is_complete t1 OSubmitted then (t1, []) else isub t1 in
  (started_core (fst p), snd p ++ [ESpawn OStarted]).
Definition ifinish (t : task) : task * list effect :=
  let p1 := if is_complete t OSubmitted then (t, []) else isub t in
  if is_complete t OStarted then p1
  else let q := istart (fst p1) in (fst q, snd p1 ++ snd q).

Definition pm_flat (t : task) (m : msg) (f : flag) (n : Z) : task * list effect :=
  if negb (check t m f n) then (t, []) else
  match m with
  | MOther => (t, [])
  | MCustom k =>
      if (k <? cf_k t) && negb (is_complete t (Custom k))
      then (addo t (Custom k), [ESpawn (Custom k)]) else (t, [])
  | MExpired => (set_st (addo t OExpired) Expired, [ESpawn OExpired])
  | MSubmitted =>
      let t1 := addo t OSubmitted in
      if guarded t1 f GSubmitted then (t1, [EPoll]) else (psub t1, [ESpawn OSubmitted])
  | MStarted =>
      let t1 := addo t OStarted in
      let p := if is_complete t1 OSubmitted then (t1, []) else isub t1 in
      if guarded (fst p) f GStarted then (fst p, snd p ++ [EPoll])
      else (started_core (fst p), snd p ++ [ESpawn OStarted])
  | MSucceeded =>
      let p := ifinish (addo t OSucceeded) in
      (set_st (fst p) Succeeded, snd p ++ [ESpawn OSucceeded])
  | MFailed =>
      let p := ifinish t in
      if guarded (fst p) f GFailed then (fst p, snd p ++ [EPoll])
      else (fst (failed_core (fst p)), snd p ++ snd (failed_core (fst p)))
  | MSubFail =>
      if guarded t f GSubFail then (t, [EPoll]) else subfail_core t
  end.

(* ---------- basic facts ---------- *)
Lemma status_eqb_refl s : status_eqb s s = true.
Proof. destruct s; reflexivity. Qed.
Lemma status_eqb_eq a b : status_eqb a b = true <-> a = b.
Proof. split; [destruct a, b; cbn; congruence|intros ->; apply status_eqb_refl]. Qed.
Lemma status_eqb_neq a b : status_eqb a b = false <-> a <> b.
Proof.
  rewrite <- status_eqb_eq. destruct (status_eqb a b); split; congruence.
Qed.
Lemma stdout_eqb_eq a b : stdout_eqb a b = true <-> a = b.
Proof. split; [destruct a, b; cbn; congruence|intros ->; destruct b; reflexivity]. Qed.
Lemma out_eqb_eq a b : out_eqb a b = true <-> a = b.
Proof.
  destruct a as [x|x], b as [y|y]; cbn; try (split; congruence).
  - rewrite stdout_eqb_eq. split; congruence.
  - rewrite Nat.eqb_eq. split; congruence.
Qed.
Lemma is_complete_In t o : is_complete t o = true <-> In o (outs t).
Proof. unfold is_complete. apply mem_In. apply out_eqb_eq. Qed.

Lemma check_notreceived t m f n :
  flag_received f = false ->
  check t m f n = negb (status_eqb (st t) Waiting && negb (msg_is_expired m) && retry_lined_up t).
Proof.
  intros F. unfold check. rewrite F. cbn.
  destruct (status_eqb (st t) Waiting && negb (msg_is_expired m) && retry_lined_up t); reflexivity.
Qed.

Lemma blocked_addo t o : blocked (addo t o) = blocked t.
Proof. unfold addo, complete. destruct (is_complete t o); reflexivity. Qed.
Lemma st_addo t o : st (addo t o) = st t.
Proof. unfold addo, complete. destruct (is_complete t o); reflexivity. Qed.
Lemma blocked_psub t : blocked t = false -> blocked (psub t) = false.
Proof.
  unfold psub. destruct (status_eqb (st t) Preparing) eqn:E; auto.
Qed.
Lemma is_complete_addo_same t o : is_complete (addo t o) o = true.
Proof.
  unfold addo, complete. destruct (is_complete t o) eqn:E; cbn; [exact E|].
  unfold is_complete. cbn.
  assert (H : out_eqb o o = true) by (apply out_eqb_eq; reflexivity).
  rewrite H. reflexivity.
Qed.
Lemma is_complete_addo_other t o o' :
  is_complete (addo t o) o' = out_eqb o' o || is_complete t o'.
Proof.
  unfold addo, complete. destruct (is_complete t o) eqn:E; cbn.
  - destruct (out_eqb o' o) eqn:E'; [|reflexivity].
    apply out_eqb_eq in E'. subst. rewrite E. reflexivity.
  - reflexivity.
Qed.
Lemma is_complete_psub t o : is_complete (psub t) o = is_complete t o.
Proof. unfold psub. destruct (status_eqb (st t) Preparing); reflexivity. Qed.

(* ---------- the recursion levels ---------- *)
Lemma pm0_submitted t n : blocked t = false -> pm0 t MSubmitted n = isub t.
Proof.
  intros B. unfold pm0, pm_gen.
  rewrite check_notreceived by reflexivity. cbn [msg_is_expired negb].
  rewrite andb_true_r. fold (blocked t). rewrite B. cbn [negb].
  unfold isub, psub, addo. cbn.
  destruct (complete t OSubmitted) as [t1 c]. cbn.
  destruct (status_eqb (st t1) Preparing); reflexivity.
Qed.

Lemma pm1_submitted t n : blocked t = false -> pm1 t MSubmitted n = isub t.
Proof.
  intros B. unfold pm1, pm_gen.
  rewrite check_notreceived by reflexivity. cbn [msg_is_expired negb].
  rewrite andb_true_r. fold (blocked t). rewrite B. cbn [negb].
  unfold isub, psub, addo. cbn.
  destruct (complete t OSubmitted) as [t1 c]. cbn.
  destruct (status_eqb (st t1) Preparing); reflexivity.
Qed.

Lemma pm1_started t n : blocked t = false -> pm1 t MStarted n = istart t.
Proof.
  intros B. unfold pm1, pm_gen.
  rewrite check_notreceived by reflexivity. cbn [msg_is_expired negb].
  rewrite andb_true_r. fold (blocked t). rewrite B. cbn [negb].
  unfold istart.
  change (complete_msg t MStarted) with (complete t OStarted).
  fold (addo t OStarted).
  unfold implied. cbn [msg_std implied_std filter].
  destruct (is_complete (addo t OStarted) OSubmitted) eqn:E; cbn [negb fold_left std_msg fst snd].
  - cbn. reflexivity.
  - rewrite pm0_submitted by (rewrite blocked_addo; exact B).
    cbn. reflexivity.
Qed.

Lemma blocked_isub t : blocked t = false -> blocked (fst (isub t)) = false.
Proof.
  intros B. unfold isub. cbn [fst]. apply blocked_psub. rewrite blocked_addo. exact B.
Qed.

(* the fold over the implied outputs of a finish message *)
Lemma implied_fold_finish t m n :
  blocked t = false ->
  msg_std m = Some SoSucceeded \/ msg_std m = Some SoFailed ->
  fold_left (fun acc o =>
               let r := pm1 (fst acc) (std_msg o) n in
               (fst r, snd acc ++ filter not_poll (snd r)))
            (implied t m) (t, []) = ifinish t.
Proof.
  intros B Hm. unfold implied.
  assert (I : match msg_std m with Some s => implied_std s | None => [] end = [SoSubmitted; SoStarted])
    by (destruct Hm as [-> | ->]; reflexivity).
  destruct (msg_std m) as [s|]; [|destruct Hm; discriminate].
  rewrite I. clear I Hm. unfold ifinish. cbn [filter].
  destruct (is_complete t OSubmitted) eqn:Es; destruct (is_complete t OStarted) eqn:Et;
    cbn [negb fold_left std_msg fst snd].
  - reflexivity.
  - rewrite pm1_started by exact B. cbn. unfold istart. cbn.
    destruct (is_complete (addo t OStarted) OSubmitted); cbn; reflexivity.
  - rewrite pm1_submitted by exact B. cbn. reflexivity.
  - rewrite pm1_submitted by exact B. cbn [fst snd isub filter not_poll app].
    rewrite pm1_started by (apply (blocked_isub t B)).
    cbn [isub fst snd].
    unfold istart. cbn [fst snd].
    destruct (is_complete (addo (psub (addo t OSubmitted)) OStarted) OSubmitted); cbn; reflexivity.
Qed.

Lemma check_true_unblocked t m f n :
  check t m f n = true -> msg_is_expired m = false -> blocked t = false.
Proof.
  unfold check, blocked. intros C E. rewrite E in C. cbn [negb] in C. rewrite andb_true_r in C.
  destruct (flag_received f && negb (n =? Z.of_nat (sn t))%Z); [discriminate|].
  destruct (status_eqb (st t) Waiting && retry_lined_up t); [discriminate|reflexivity].
Qed.

Lemma guarded_succeeded t f : guarded t f GSucceeded = false.
Proof. unfold guarded. cbn. apply andb_false_r. Qed.
Lemma guarded_expired t f : guarded t f GExpired = false.
Proof. unfold guarded. cbn. apply andb_false_r. Qed.

Theorem pm_flat_eq t m f n : process_message t m f n = pm_flat t m f n.
Proof.
  unfold process_message, pm_flat, pm_gen.
  destruct (check t m f n) eqn:C; cbn [negb]; [|reflexivity].
  destruct m.
  - (* submitted *)
    change (complete_msg t MSubmitted) with (complete t OSubmitted).
    fold (addo t OSubmitted). cbn [implied msg_std implied_std filter fold_left fst snd core app].
    unfold psub. destruct (complete t OSubmitted) as [t1 c]; cbn [fst snd].
    destruct (guarded _ f GSubmitted); reflexivity.
  - (* started *)
    change (complete_msg t MStarted) with (complete t OStarted).
    fold (addo t OStarted). unfold implied. cbn [msg_std implied_std filter].
    assert (B : blocked t = false) by (eapply check_true_unblocked; eauto).
    destruct (is_complete (addo t OStarted) OSubmitted) eqn:E; cbn [negb fold_left std_msg fst snd core app].
    + destruct (guarded _ f GStarted); reflexivity.
    + rewrite pm1_submitted by (rewrite blocked_addo; exact B).
      cbn [isub fst snd filter not_poll app].
      destruct (guarded _ f GStarted); reflexivity.
  - (* succeeded *)
    change (complete_msg t MSucceeded) with (complete t OSucceeded).
    fold (addo t OSucceeded).
    assert (B : blocked t = false) by (eapply check_true_unblocked; eauto).
    rewrite implied_fold_finish; [|rewrite blocked_addo; exact B|left; reflexivity].
    cbn [core]. rewrite guarded_succeeded. reflexivity.
  - (* failed *)
    change (complete_msg t MFailed) with (t, false). cbn [fst snd].
    assert (B : blocked t = false) by (eapply check_true_unblocked; eauto).
    rewrite implied_fold_finish; [|exact B|right; reflexivity].
    cbn [core]. destruct (guarded _ f GFailed); [reflexivity|].
    destruct (failed_core (fst (ifinish t))); reflexivity.
  - (* submission failed *)
    cbn [complete_msg msg_out msg_std implied filter fold_left fst snd core app].
    destruct (guarded t f GSubFail); [reflexivity|]. destruct (subfail_core t); reflexivity.
  - (* expired *)
    change (complete_msg t MExpired) with (complete t OExpired).
    fold (addo t OExpired). cbn [implied msg_std implied_std filter fold_left fst snd core app].
    rewrite guarded_expired. reflexivity.
  - (* custom *)
    unfold complete_msg, msg_out. cbn [implied msg_std fold_left fst snd core app].
    destruct (k <? cf_k t); cbn [andb fst snd]; [|reflexivity].
    unfold addo, complete. destruct (is_complete t (Custom k)); reflexivity.
  - reflexivity.
Qed.

(* ====================================================================== *)
(* Part 2: closed form                                                     *)
(* ====================================================================== *)
Definition upd (t : task) (s : status) (o : list out) (xe xs : option timer) : task :=
  {| st := s; sn := sn t; outs := o; texec := xe; tsub := xs;
     cf_n := cf_n t; cf_m := cf_m t; cf_k := cf_k t |}.
Definition add1 (o : out) (l : list out) : list out := if mem out_eqb o l then l else o :: l.
Definition addl (l : list out) (a : list out) : list out := fold_left (fun acc o => add1 o acc) a l.

Definition hs (t : task) := is_complete t OSubmitted.
Definition ht (t : task) := is_complete t OStarted.
Definition reset_sub (x : option timer) : option timer :=
  match x with Some y => Some {| tm_len := tm_len y; tm_num := 0 |} | None => None end.
Definition psub_st (s : status) : status := if status_eqb s Preparing then Submitted else s.
Definition mid_st (s : status) (hs ht : bool) : status :=
  if ht then (if hs then s else psub_st s) else Running.
Definition mid_sub (xs : option timer) (ht : bool) := if ht then xs else reset_sub xs.
Definition next_of (x : option timer) : option timer :=
  match x with Some y => timer_next y | None => None end.
Notation rk := status_rank.

Lemma upd_eta t : upd t (st t) (outs t) (texec t) (tsub t) = t.
Proof. destruct t; reflexivity. Qed.

Lemma addo_upd t o : addo t o = upd t (st t) (add1 o (outs t)) (texec t) (tsub t).
Proof.
  unfold addo, complete, add1, is_complete. destruct (mem out_eqb o (outs t)); cbn.
  - symmetry. apply upd_eta.
  - reflexivity.
Qed.
Lemma psub_upd t : psub t = upd t (psub_st (st t)) (outs t) (texec t) (tsub t).
Proof.
  unfold psub, psub_st. destruct (status_eqb (st t) Preparing); [reflexivity|symmetry; apply upd_eta].
Qed.
Lemma isub_fst t : fst (isub t) = upd t (psub_st (st t)) (add1 OSubmitted (outs t)) (texec t) (tsub t).
Proof. unfold isub. cbn [fst]. rewrite addo_upd, psub_upd. reflexivity. Qed.
Lemma isub_closed t : isub t = (upd t (psub_st (st t)) (add1 OSubmitted (outs t)) (texec t) (tsub t), [ESpawn OSubmitted]).
Proof. unfold isub. rewrite addo_upd, psub_upd. reflexivity. Qed.
Lemma started_core_upd t : started_core t = upd t Running (outs t) (texec t) (reset_sub (tsub t)).
Proof. unfold started_core, reset_sub, upd, set_tsub, set_st. cbn. destruct (tsub t) eqn:E; cbn; rewrite ?E; reflexivity. Qed.

Lemma mem_add1_other o o' l : out_eqb o' o = false -> mem out_eqb o' (add1 o l) = mem out_eqb o' l.
Proof. intros H. unfold add1. destruct (mem out_eqb o l); cbn; [reflexivity|]. rewrite H. reflexivity. Qed.
Lemma mem_add1_same o l : mem out_eqb o (add1 o l) = true.
Proof.
  unfold add1. destruct (mem out_eqb o l) eqn:E; [exact E|]. cbn.
  assert (H : out_eqb o o = true) by (apply out_eqb_eq; reflexivity). rewrite H. reflexivity.
Qed.
Lemma add1_idem o l : mem out_eqb o l = true -> add1 o l = l.
Proof. intros H. unfold add1. rewrite H. reflexivity. Qed.

Lemma hs_addo_started t : is_complete (addo t OStarted) OSubmitted = is_complete t OSubmitted.
Proof. rewrite is_complete_addo_other. reflexivity. Qed.
Lemma ht_addo_submitted t : is_complete (addo t OSubmitted) OStarted = is_complete t OStarted.
Proof. rewrite is_complete_addo_other. reflexivity. Qed.
Lemma outs_addo t o : outs (addo t o) = add1 o (outs t).
Proof. rewrite addo_upd. reflexivity. Qed.
Lemma add1_idem' t o : is_complete t o = true -> add1 o (outs t) = outs t.
Proof. intros H. apply add1_idem. exact H. Qed.

Lemma istart_closed t :
  istart t = (upd t Running (add1 OSubmitted (add1 OStarted (outs t))) (texec t) (reset_sub (tsub t)),
              (if hs t then [] else [ESpawn OSubmitted]) ++ [ESpawn OStarted]).
Proof.
  unfold istart, hs. rewrite hs_addo_started.
  destruct (is_complete t OSubmitted) eqn:E; cbn [fst snd].
  - rewrite started_core_upd, addo_upd. cbn [upd st sn outs texec tsub cf_n cf_m cf_k].
    rewrite (add1_idem OSubmitted); [reflexivity|].
    rewrite mem_add1_other by reflexivity. exact E.
  - rewrite isub_fst, started_core_upd, addo_upd. reflexivity.
Qed.

Lemma ifinish_closed t :
  ifinish t = (upd t (mid_st (st t) (hs t) (ht t)) (add1 OStarted (add1 OSubmitted (outs t)))
                   (texec t) (mid_sub (tsub t) (ht t)),
               (if hs t then [] else [ESpawn OSubmitted]) ++ (if ht t then [] else [ESpawn OStarted])).
Proof.
  unfold ifinish, hs, ht, mid_st, mid_sub.
  destruct (is_complete t OSubmitted) eqn:Es; destruct (is_complete t OStarted) eqn:Et; cbn [fst snd].
  - rewrite (add1_idem' t OSubmitted Es), (add1_idem' t OStarted Et), upd_eta. reflexivity.
  - rewrite istart_closed. unfold hs. rewrite Es.
    rewrite (add1_idem OSubmitted (add1 _ _)) by (rewrite mem_add1_other by reflexivity; exact Es).
    rewrite (add1_idem' t OSubmitted Es). reflexivity.
  - rewrite isub_closed.
    rewrite (add1_idem OStarted) by (rewrite mem_add1_other by reflexivity; exact Et). reflexivity.
  - rewrite istart_closed. rewrite isub_closed. unfold hs, is_complete.
    cbn [upd st sn outs texec tsub cf_n cf_m cf_k fst snd].
    rewrite mem_add1_same. cbn [app].
    rewrite (add1_idem OSubmitted (add1 OStarted _)) by (rewrite mem_add1_other by reflexivity; apply mem_add1_same).
    reflexivity.
Qed.

Lemma failed_core_closed t :
  failed_core t =
  match next_of (texec t) with
  | Some x' => (upd t Waiting (outs t) (Some x') (tsub t), [ERetry false])
  | None => (upd t Failed (if status_eqb (st t) Failed then outs t else add1 OFailed (outs t))
                 (texec t) (tsub t), [ESpawn OFailed])
  end.
Proof.
  unfold failed_core, next_of.
  destruct (match texec t with Some x => timer_next x | None => None end) as [x'|]; [reflexivity|].
  destruct (status_eqb (st t) Failed) eqn:E.
  - apply status_eqb_eq in E. rewrite <- E. rewrite upd_eta. reflexivity.
  - change (fst (complete (set_st t Failed) OFailed)) with (addo (set_st t Failed) OFailed).
    rewrite addo_upd. reflexivity.
Qed.
Lemma subfail_core_closed t :
  subfail_core t =
  match next_of (tsub t) with
  | Some x' => (upd t Waiting (outs t) (texec t) (Some x'), [ERetry true])
  | None => (upd t SubmitFailed (if status_eqb (st t) SubmitFailed then outs t else add1 OSubmitFailed (outs t))
                 (texec t) (tsub t), [ESpawn OSubmitFailed])
  end.
Proof.
  unfold subfail_core, next_of.
  destruct (match tsub t with Some x => timer_next x | None => None end) as [x'|]; [reflexivity|].
  destruct (status_eqb (st t) SubmitFailed) eqn:E.
  - apply status_eqb_eq in E. rewrite <- E. rewrite upd_eta. reflexivity.
  - change (fst (complete (set_st t SubmitFailed) OSubmitFailed)) with (addo (set_st t SubmitFailed) OSubmitFailed).
    rewrite addo_upd. reflexivity.
Qed.

Record ctl := { c_st : status; c_exec : option timer; c_sub : option timer }.
Definition ctl_of (t : task) : ctl := {| c_st := st t; c_exec := texec t; c_sub := tsub t |}.
Definition ctl_next (c : ctl) (hs ht : bool) (m : msg) (r : bool) : ctl :=
  let s := c_st c in let xe := c_exec c in let xs := c_sub c in
  match m with
  | MOther | MCustom _ => c
  | MExpired => {| c_st := Expired; c_exec := xe; c_sub := xs |}
  | MSubmitted =>
      if r && (rk Submitted <=? rk s) then c else {| c_st := psub_st s; c_exec := xe; c_sub := xs |}
  | MStarted =>
      let s1 := if hs then s else psub_st s in
      if r && (rk Running <? rk s1) then {| c_st := s1; c_exec := xe; c_sub := xs |}
      else {| c_st := Running; c_exec := xe; c_sub := reset_sub xs |}
  | MSucceeded => {| c_st := Succeeded; c_exec := xe; c_sub := mid_sub xs ht |}
  | MFailed =>
      let s1 := mid_st s hs ht in
      let xs1 := mid_sub xs ht in
      if r && (rk Failed <? rk s1) then {| c_st := s1; c_exec := xe; c_sub := xs1 |}
      else match next_of xe with
           | Some x' => {| c_st := Waiting; c_exec := Some x'; c_sub := xs1 |}
           | None => {| c_st := Failed; c_exec := xe; c_sub := xs1 |}
           end
  | MSubFail =>
      if r && (rk SubmitFailed <? rk s) then c
      else match next_of xs with
           | Some x' => {| c_st := Waiting; c_exec := xe; c_sub := Some x' |}
           | None => {| c_st := SubmitFailed; c_exec := xe; c_sub := xs |}
           end
  end.

Definition no_next (x : option timer) : bool :=
  match next_of x with None => true | Some _ => false end.
Definition fail_final (t : task) (r : bool) : bool :=
  let s1 := mid_st (st t) (hs t) (ht t) in
  negb (r && (rk Failed <? rk s1)) && no_next (texec t) && negb (status_eqb s1 Failed).
Definition subfail_final (t : task) (r : bool) : bool :=
  negb (r && (rk SubmitFailed <? rk (st t))) && no_next (tsub t) && negb (status_eqb (st t) SubmitFailed).

Definition adds (t : task) (m : msg) (r : bool) : list out :=
  match m with
  | MOther => []
  | MCustom k => if k <? cf_k t then [Custom k] else []
  | MExpired => [OExpired]
  | MSubmitted => [OSubmitted]
  | MStarted => [OStarted; OSubmitted]
  | MSucceeded => [OSucceeded; OSubmitted; OStarted]
  | MFailed => [OSubmitted; OStarted] ++ (if fail_final t r then [OFailed] else [])
  | MSubFail => if subfail_final t r then [OSubmitFailed] else []
  end.

Definition imp_eff (hs ht : bool) : list effect :=
  (if hs then [] else [ESpawn OSubmitted]) ++ (if ht then [] else [ESpawn OStarted]).
Definition eff_next (t : task) (m : msg) (r : bool) : list effect :=
  match m with
  | MOther => []
  | MCustom k => if (k <? cf_k t) && negb (is_complete t (Custom k)) then [ESpawn (Custom k)] else []
  | MExpired => [ESpawn OExpired]
  | MSubmitted => if r && (rk Submitted <=? rk (st t)) then [EPoll] else [ESpawn OSubmitted]
  | MStarted =>
      let s1 := if hs t then st t else psub_st (st t) in
      (if hs t then [] else [ESpawn OSubmitted]) ++
      (if r && (rk Running <? rk s1) then [EPoll] else [ESpawn OStarted])
  | MSucceeded => imp_eff (hs t) (ht t) ++ [ESpawn OSucceeded]
  | MFailed =>
      imp_eff (hs t) (ht t) ++
      (if r && (rk Failed <? rk (mid_st (st t) (hs t) (ht t))) then [EPoll]
       else match next_of (texec t) with Some _ => [ERetry false] | None => [ESpawn OFailed] end)
  | MSubFail =>
      if r && (rk SubmitFailed <? rk (st t)) then [EPoll]
      else match next_of (tsub t) with Some _ => [ERetry true] | None => [ESpawn OSubmitFailed] end
  end.

Definition pm_closed (t : task) (m : msg) (f : flag) (n : Z) : task * list effect :=
  if negb (check t m f n) then (t, []) else
  let r := flag_received f in
  let c := ctl_next (ctl_of t) (hs t) (ht t) m r in
  (upd t (c_st c) (addl (outs t) (adds t m r)) (c_exec c) (c_sub c), eff_next t m r).

Lemma guarded_submitted t f : guarded t f GSubmitted = flag_received f && (rk Submitted <=? rk (st t)).
Proof. reflexivity. Qed.
Lemma guarded_started t f : guarded t f GStarted = flag_received f && (rk Running <? rk (st t)).
Proof. reflexivity. Qed.
Lemma guarded_failed t f : guarded t f GFailed = flag_received f && (rk Failed <? rk (st t)).
Proof. reflexivity. Qed.
Lemma guarded_subfail t f : guarded t f GSubFail = flag_received f && (rk SubmitFailed <? rk (st t)).
Proof. reflexivity. Qed.

Theorem pm_closed_eq t m f n : process_message t m f n = pm_closed t m f n.
Proof.
  rewrite pm_flat_eq. unfold pm_flat, pm_closed.
  destruct (check t m f n); cbn [negb]; [|reflexivity].
  destruct m; cbn [adds eff_next ctl_next ctl_of c_st c_exec c_sub addl fold_left].
  - (* submitted *)
    rewrite guarded_submitted, st_addo.
    destruct (flag_received f && (rk Submitted <=? rk (st t))); cbn [c_st c_exec c_sub].
    + rewrite addo_upd. reflexivity.
    + rewrite addo_upd, psub_upd. reflexivity.
  - (* started *)
    rewrite hs_addo_started. fold (hs t). destruct (hs t) eqn:E; cbn [fst snd app].
    + rewrite guarded_started, st_addo.
      destruct (flag_received f && (rk Running <? rk (st t))); cbn [c_st c_exec c_sub].
      * rewrite addo_upd. unfold hs in E. rewrite (add1_idem OSubmitted); [reflexivity|].
        rewrite mem_add1_other by reflexivity. exact E.
      * rewrite started_core_upd, addo_upd. cbn [upd st sn outs texec tsub cf_n cf_m cf_k].
        unfold hs in E. rewrite (add1_idem OSubmitted); [reflexivity|].
        rewrite mem_add1_other by reflexivity. exact E.
    + rewrite isub_closed. cbn [fst snd app]. rewrite guarded_started.
      rewrite addo_upd. cbn [upd st sn outs texec tsub cf_n cf_m cf_k].
      destruct (flag_received f && (rk Running <? rk (psub_st (st t)))); cbn [c_st c_exec c_sub].
      * reflexivity.
      * rewrite started_core_upd. reflexivity.
  - (* succeeded *)
    rewrite ifinish_closed. cbn [fst snd]. unfold hs, ht.
    rewrite !is_complete_addo_other. cbn [out_eqb stdout_eqb orb].
    rewrite st_addo, addo_upd. reflexivity.
  - (* failed *)
    rewrite ifinish_closed. cbn [fst snd]. rewrite guarded_failed.
    cbn [upd st sn outs texec tsub cf_n cf_m cf_k].
    unfold fail_final, no_next.
    destruct (flag_received f && (rk Failed <? rk (mid_st (st t) (hs t) (ht t)))); cbn [negb andb app fold_left c_st c_exec c_sub].
    + reflexivity.
    + rewrite failed_core_closed. cbn [upd st sn outs texec tsub cf_n cf_m cf_k].
      destruct (next_of (texec t)); cbn [fst snd andb app fold_left c_st c_exec c_sub]; [reflexivity|].
      destruct (status_eqb (mid_st (st t) (hs t) (ht t)) Failed); reflexivity.
  - (* submission failed *)
    rewrite guarded_subfail. unfold subfail_final, no_next.
    destruct (flag_received f && (rk SubmitFailed <? rk (st t))); cbn [negb andb fold_left].
    + rewrite upd_eta. reflexivity.
    + rewrite subfail_core_closed.
      destruct (next_of (tsub t)); cbn [fst snd andb app fold_left c_st c_exec c_sub]; [reflexivity|].
      destruct (status_eqb (st t) SubmitFailed); reflexivity.
  - (* expired *)
    rewrite addo_upd. reflexivity.
  - (* custom *)
    destruct (k <? cf_k t); cbn [andb fold_left].
    + destruct (is_complete t (Custom k)) eqn:E; cbn [negb].
      * rewrite (add1_idem' t _ E), upd_eta. reflexivity.
      * rewrite addo_upd. reflexivity.
    + rewrite upd_eta. reflexivity.
  - rewrite upd_eta. reflexivity.
Qed.
